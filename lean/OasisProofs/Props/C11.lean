import OasisModel.Roothash.Pool
import OasisProofs.Helpers.RoothashProcess
import OasisProofs.Helpers.RoothashRank
import OasisProofs.Helpers.RoothashCount
import OasisProofs.Helpers.RoothashSound
import OasisProofs.Helpers.RoothashInv
import OasisProofs.Helpers.RoothashFinal
import OasisProofs.Helpers.RoothashOrder
/-
C11 — a runtime round finalizes only with unanimity or backup majority.

Theorems about the model `OasisModel.Roothash` (the commitment pool written as the Go code writes
it: `add` = AddVerifiedExecutorCommitment + SchedulerCommitment.Add, `submit` = verification + add,
`process` = ProcessCommitments, `tryFinalize` = the two calls of tryFinalizeRoundInsideTx) against the
independent rule predicates `MayFinalize`, `MayAccept`, `Preferred` written from the property text.

Quantification: every committee (any list of role/node slots — sizes, overlapping roles, even
malformed orders), every straggler allowance (also varying between calls), every history
`run c round ops` of commitments (valid or invalid signature, any round, agreeing, dissenting,
failure-indicating, duplicate, from non-members, for schedulers of every rank) and processing calls
with and without timeout, in any order.  The only side condition is `round + |c| < 2^64`
(no uint64 wrap-around in `SchedulerRank`); what happens beyond it is recorded at the end.

The Go pool is tied to the model by the pooldrv correspondence.

Not expressible here (the model stores commitments by value, Go stores `*ExecutorCommitment`):
pointer aliasing between the pool and its callers. `finalize_sound`/`sc_has_commitment` speak about
the commitment that was *admitted*; that the pool still holds exactly those bytes at finalization
(no reused loop variable in `executorCommit`) is a model-free check of pooldrv on the real handlers,
see the note at `OasisModel.Roothash.SC`.
-/
namespace OasisProofs.C11
open OasisModel.Roothash OasisProofs.Roothash

/-! ### first sentence: finalization only with unanimity or backup majority -/

/-- A processing call that finalizes (`ok`) returns the chosen scheduler's own commitment, and the
rule `MayFinalize` holds for it on the commitments accepted so far: either (no discrepancy declared)
all primary votes received for that scheduler's proposal agree with it — no dissenting result, at
most `stragglers` failures, at least |primary| − `stragglers` agreeing — or (discrepancy declared)
a strict majority of the backup workers voted for exactly that result. -/
theorem finalize_sound (c : Committee) (round : Nat) (hw : round + c.length < two64)
    (ops : List Op) (stragglers : Nat) (timeout : Bool)
    (hok : (process c (run c round ops).pool stragglers timeout).2 = Res.ok) :
    ∃ own, chosen (run c round ops).pool = some own ∧
      MayFinalize c (run c round ops).log stragglers (run c round ops).pool.discrepancy own = true := by
  have hinv := inv_run c round hw ops
  generalize (run c round ops).pool = p at *
  generalize (run c round ops).log = log at *
  rw [process_snd] at hok
  cases hsc : p.scs p.highestRank with
  | none =>
    unfold processInner at hok
    rw [hsc] at hok
    simp only at hok
    split at hok <;> simp at hok
  | some sc =>
    obtain ⟨o, h1, h2, h3, h4, h5⟩ := chosen_spec c round hw p log hinv sc hsc
    refine ⟨o, by simp [chosen, hsc, h1], ?_⟩
    refine process_ok_sound c p stragglers timeout log sc o hsc h1
      (votes_eq_voteOf c round hw p log hinv sc o hsc h2 h4)
      (voteOf_self log o hinv.uniq h2) h2 h3 h5 ?_ hok
    rw [h3]
    unfold rankOf at h4
    exact scheduler_is_primary c _ _ _ h4

/-- The entry at `HighestRank`, when it exists, always holds the scheduler's own commitment, which
is not failure-indicating: `sc.Commitment` and the roots of its header are never nil where
`processCommitments` and `tryFinalizeRoundInsideTx` dereference them. -/
theorem sc_has_commitment (c : Committee) (round : Nat) (hw : round + c.length < two64)
    (ops : List Op) (sc : SC)
    (hsc : (run c round ops).pool.scs (run c round ops).pool.highestRank = some sc) :
    ∃ own, sc.commitment = some own ∧ own.failure = false ∧ own.node = own.sched ∧
      own ∈ (run c round ops).log := by
  obtain ⟨o, h1, h2, h3, _, h5⟩ := chosen_spec c round hw _ _ (inv_run c round hw ops) sc hsc
  exact ⟨o, h1, h5, h3, h2⟩

/-! ### second sentence: one vote, members only, rank priority -/

/-- Each committee member's vote counts at most once per round and scheduler: the accepted
commitments never contain two from the same node for the same scheduler, and a second one is
rejected (whatever it says). -/
theorem one_vote (c : Committee) (round : Nat) (hw : round + c.length < two64) (ops : List Op) :
    (run c round ops).log.Pairwise (fun a b => ¬ (a.node = b.node ∧ a.sched = b.sched)) ∧
    ∀ e ∈ (run c round ops).log, ∀ sigOk ec, ec.node = e.node → ec.sched = e.sched →
      (submit c round (run c round ops).pool sigOk ec).2 ≠ none := by
  have hinv := inv_run c round hw ops
  refine ⟨hinv.uniq, ?_⟩
  intro e he sigOk ec hn hs
  unfold submit
  cases hv : verify round sigOk ec with
  | some x => simp
  | none =>
    simp only
    obtain ⟨hrd, hfl⟩ := verify_ok round sigOk ec hv
    intro hacc
    have := ((inv_add c round hw _ _ ec hinv hrd hfl).1 hacc).uniq
    rw [List.pairwise_append] at this
    exact this.2.2 e he ec (by simp) ⟨hn.symm, hs.symm⟩

/-- Non-members never count: whatever the pool state (reachable or not), a commitment from a node
that is not in the committee is rejected and leaves the pool untouched; hence every accepted
commitment is from a member. (`MayFinalize` counts committee slots only.) -/
theorem non_member_never_counts (c : Committee) (p : Pool) (ec : EC)
    (h : isMember c ec.node = false) :
    (add c p ec).2 ≠ none ∧ (add c p ec).1 = p := by
  rcases add_shape c p ec with ⟨e, he, _⟩ | ⟨rank, hadm, _⟩
  · rw [he]; simp
  · have := admissible_member c p ec rank hadm
    rw [h] at this; simp at this

theorem accepted_are_members (c : Committee) (round : Nat) (hw : round + c.length < two64)
    (ops : List Op) : ∀ e ∈ (run c round ops).log, isMember c e.node = true :=
  fun e he => ((inv_run c round hw ops).logOK e he).2.1

/-- A lower-priority scheduler's proposal is never preferred over a committed higher-priority one:
(1) in every pool state a commitment for a scheduler ranked worse than `HighestRank` is rejected and
changes nothing; (2) `HighestRank` never gets worse; (3) the commitment returned on finalization has
the best rank among all schedulers that committed their own proposal. -/
theorem rank_priority (c : Committee) (round : Nat) (hw : round + c.length < two64) (ops : List Op) :
    (∀ (p : Pool) (ec : EC) (r : Nat), rankOf c ec = some r → p.highestRank < r →
        (add c p ec).2 ≠ none ∧ (add c p ec).1 = p) ∧
    (∀ (p : Pool) (ec : EC), (add c p ec).1.highestRank ≤ p.highestRank) ∧
    (∀ (p : Pool) (s : Nat) (t : Bool), (process c p s t).1.highestRank = p.highestRank) ∧
    (∀ own, chosen (run c round ops).pool = some own → Preferred c (run c round ops).log own = true) := by
  refine ⟨?_, ?_, ?_, ?_⟩
  · intro p ec r hr hlt
    rcases add_shape c p ec with ⟨e, he, _⟩ | ⟨rank, hadm, _⟩
    · rw [he]; simp
    · have h := hadm.2.2.1
      rw [hr] at h
      have : r = rank := Option.some.inj h
      have := hadm.2.2.2.1
      omega
  · intro p ec
    rcases add_shape c p ec with ⟨e, he, _⟩ | ⟨rank, hadm, heq⟩
    · rw [he]
    · rw [heq]
      simp only [put]
      by_cases hp : rank < p.highestRank ∧ ec.node = ec.sched
      · rw [promote_yes p rank ec hp]; simp; omega
      · rw [promote_no p rank ec hp]
  · intro p s t
    unfold process
    split <;> rfl
  · intro own hch
    have hinv := inv_run c round hw ops
    generalize (run c round ops).pool = p at *
    generalize (run c round ops).log = log at *
    unfold chosen at hch
    cases hsc : p.scs p.highestRank with
    | none => rw [hsc] at hch; simp at hch
    | some sc =>
      rw [hsc] at hch
      simp only at hch
      obtain ⟨o, h1, h2, h3, h4, _⟩ := chosen_spec c round hw p log hinv sc hsc
      rw [h1] at hch; cases hch
      unfold Preferred
      rw [List.all_eq_true]
      intro e he
      by_cases hself : e.node = e.sched
      · obtain ⟨r, hr⟩ := (hinv.logOK e he).2.2.2
        have := hinv.best e he hself r hr
        simp [prioLE, h4, hr, this]
      · simp [hself]

/-- Every accepted commitment satisfied `MayAccept` with respect to the commitments accepted before
it: from a member, first for its (node, scheduler), and not for a scheduler of lower priority than
one that had already committed. -/
theorem accepted_may_accept (c : Committee) (round : Nat) (hw : round + c.length < two64)
    (ops : List Op) (sigOk : Bool) (ec : EC)
    (hacc : (submit c round (run c round ops).pool sigOk ec).2 = none) :
    MayAccept c (run c round ops).log ec = true := by
  have hinv := inv_run c round hw ops
  generalize (run c round ops).pool = p at *
  generalize (run c round ops).log = log at *
  unfold submit at hacc
  cases hv : verify round sigOk ec with
  | some x => rw [hv] at hacc; simp at hacc
  | none =>
    rw [hv] at hacc
    simp only at hacc
    obtain ⟨hrd, hfl⟩ := verify_ok round sigOk ec hv
    have hinv' := (inv_add c round hw p log ec hinv hrd hfl).1 hacc
    rcases add_shape c p ec with ⟨e, he, _⟩ | ⟨rank, hadm, _⟩
    · rw [he] at hacc; simp at hacc
    · unfold MayAccept
      simp only [Bool.and_eq_true]
      refine ⟨⟨admissible_member c p ec rank hadm, ?_⟩, ?_⟩
      · have hu := hinv'.uniq
        rw [List.pairwise_append] at hu
        cases hf : voteOf log ec.sched ec.node with
        | none => rfl
        | some e =>
          exfalso
          unfold voteOf at hf
          have he := List.mem_of_find?_eq_some hf
          have hp := List.find?_some hf
          simp only [Bool.and_eq_true, beq_iff_eq] at hp
          exact hu.2.2 e he ec (by simp) ⟨hp.2, hp.1⟩
      · rw [List.all_eq_true]
        intro e he
        by_cases hself : e.node = e.sched
        · obtain ⟨r, hr⟩ := (hinv.logOK e he).2.2.2
          have h1 := hinv.best e he hself r hr
          have h2 := hadm.2.2.2.1
          have : rank ≤ r := by omega
          simp [prioLE, hadm.2.2.1, hr, this]
        · simp [hself]

/-- A rejected commitment changes nothing: in every reachable state `submit` either accepts or
returns the pool exactly as it was (in particular the `HighestRank` update that the Go code performs
before `sc.Add` is never followed by a failing `sc.Add`), so a failed transaction, whose pool
mutations the application discards, and a failed direct call leave the same pool. -/
theorem rejected_unchanged (c : Committee) (round : Nat) (hw : round + c.length < two64)
    (ops : List Op) (sigOk : Bool) (ec : EC)
    (hrej : (submit c round (run c round ops).pool sigOk ec).2 ≠ none) :
    (submit c round (run c round ops).pool sigOk ec).1 = (run c round ops).pool := by
  have hinv := inv_run c round hw ops
  generalize (run c round ops).pool = p at *
  generalize (run c round ops).log = log at *
  unfold submit at hrej ⊢
  cases hv : verify round sigOk ec with
  | some x => rfl
  | none =>
    rw [hv] at hrej
    simp only at hrej ⊢
    exact add_reject_unchanged c round hw p log ec hinv (verify_ok round sigOk ec hv).1 hrej

/-! ### last sentence: timeout decides; every other case is safe -/

/-- Once the round timer has expired a processing call never just keeps waiting — for every pool
(reachable or not), committee, straggler allowance. -/
theorem timeout_decides (c : Committee) (p : Pool) (stragglers : Nat) :
    (process c p stragglers true).2 ≠ Res.stillWaiting := by
  rw [process_snd]; exact processInner_timeout c p stragglers

/-- The retry of `tryFinalizeRoundInsideTx` after a discrepancy never reports a discrepancy again
(the case the Go code marks "should not happen" and would return as an error from EndBlock). -/
theorem retry_never_discrepancy (c : Committee) (p : Pool) (s : Nat) (tmo rt : Bool)
    (h : (process c p s tmo).2 = Res.discrepancyDetected) :
    (process c (process c p s tmo).1 s rt).2 ≠ Res.discrepancyDetected := by
  rw [process_snd]
  exact processInner_disc_no_discrepancy _ _ _ _ (process_disc_flag c p s tmo h)

/-- Every outcome of a finalization attempt (`tryFinalizeRoundInsideTx`: first processing call and, after
a discrepancy, the retry) in a reachable state is one of
  * a Normal block carrying the chosen scheduler's result, and then the rule `MayFinalize` holds;
  * keep waiting — only if the timer has not expired;
  * discrepancy resolution started (event emitted, timer re-armed, flag set);
  * a failed round whose block keeps the previous state root;
never an error returned to EndBlock, never a nil dereference. -/
theorem otherwise_safe (c : Committee) (round : Nat) (hw : round + c.length < two64) (ops : List Op)
    (s : Nat) (tmo rt : Bool) (prev : Nat) (root : Nat → Nat) :
    match (tryFinalize c (run c round ops).pool s tmo rt).2 with
    | .normal own =>
        MayFinalize c (run c round ops).log s
          (tryFinalize c (run c round ops).pool s tmo rt).1.discrepancy own = true ∧
        newStateRoot prev root (.normal own) = some (root own.hash)
    | .waiting => tmo = false ∧ (tryFinalize c (run c round ops).pool s tmo rt).1 = (run c round ops).pool
    | .discrepancyWaiting => (tryFinalize c (run c round ops).pool s tmo rt).1.discrepancy = true
    | .roundFailed why => newStateRoot prev root (.roundFailed why) = some prev
    | .error _ => False
    | .panic => False := by
  have hinv := inv_run c round hw ops
  generalize (run c round ops).pool = p at *
  generalize (run c round ops).log = log at *
  have hinv1 := inv_process c round p log s tmo hinv
  have key : ∀ (q : Pool) (b tm : Bool), Inv c round q log →
      processInner c q s tm ≠ Res.discrepancyDetected →
      (b = false → processInner c q s tm = Res.stillWaiting → tm = false) →
      (b = true → q.discrepancy = true) →
      match mapResult q b (processInner c q s tm) with
      | .normal own => MayFinalize c log s q.discrepancy own = true ∧
          newStateRoot prev root (.normal own) = some (root own.hash)
      | .waiting => tm = false ∧ b = false
      | .discrepancyWaiting => q.discrepancy = true
      | .roundFailed why => newStateRoot prev root (.roundFailed why) = some prev
      | .error _ => False
      | .panic => False := by
    intro q b tm hq hnd hwait hdisc
    have hnn := no_nilDeref c round hw q log hq s tm
    cases hr : processInner c q s tm with
    | ok =>
      obtain ⟨own, h1, h2, h3⟩ := sound_of_inv c round hw q log hq s tm hr
      simp only [mapResult, h1, h2]
      exact ⟨h3, rfl⟩
    | stillWaiting =>
      cases b with
      | false => simp only [mapResult]; exact ⟨hwait rfl hr, trivial⟩
      | true => simp only [mapResult]; exact hdisc rfl
    | discrepancyDetected => exact absurd hr hnd
    | noSchedulerCommitment => simp [mapResult, newStateRoot]
    | insufficientVotes => simp [mapResult, newStateRoot]
    | badSchedulerCommitment => simp [mapResult, newStateRoot]
    | nilDeref => exact absurd hr hnn
  by_cases hd : (process c p s tmo).2 = Res.discrepancyDetected
  · rw [tryFinalize_disc c p s tmo rt hd]
    have hflag := process_disc_flag c p s tmo hd
    have hnd2 := retry_never_discrepancy c p s tmo rt hd
    have hp2 := process_not_disc_pool c _ s rt hnd2
    simp only
    rw [hp2, process_snd]
    rw [process_snd] at hnd2
    have := key _ true rt hinv1 hnd2 (by simp) (fun _ => hflag)
    revert this
    cases mapResult (process c p s tmo).1 true (processInner c (process c p s tmo).1 s rt) <;> simp
  · rw [tryFinalize_nodisc c p s tmo rt hd]
    have hp1 := process_not_disc_pool c p s tmo hd
    simp only
    rw [hp1, process_snd]
    rw [process_snd] at hd
    have := key p false tmo hinv hd
      (fun _ hsw => by
        cases htm : tmo with
        | false => rfl
        | true => rw [htm] at hsw; exact absurd hsw (processInner_timeout c p s))
      (by simp)
    revert this
    cases mapResult p false (processInner c p s tmo) <;> simp

/-- With an expired timer a finalization attempt never just keeps waiting (every pool). -/
theorem timeout_decides_finalize (c : Committee) (p : Pool) (s : Nat) (rt : Bool) :
    (tryFinalize c p s true rt).2 ≠ Outcome.waiting := by
  unfold tryFinalize
  have h1 := timeout_decides c p s
  generalize process c p s true = r1 at *
  obtain ⟨p1, res1⟩ := r1
  simp only at h1
  cases res1 with
  | discrepancyDetected =>
    simp only
    generalize process c p1 s rt = r2
    obtain ⟨p2, res2⟩ := r2
    cases res2 <;> simp [mapResult]
    all_goals (repeat' split)
    all_goals simp
  | stillWaiting => exact absurd rfl h1
  | ok => simp only [mapResult]; repeat' split
          all_goals simp
  | noSchedulerCommitment => simp [mapResult]
  | insufficientVotes => simp [mapResult]
  | badSchedulerCommitment => simp [mapResult]
  | nilDeref => simp [mapResult]

/-- When the re-armed backup timeout is already the current height (round timeout 0) the retry runs
with the timeout flag and a finalization attempt never ends in "discrepancy started, still waiting". -/
theorem retry_timeout_decides (c : Committee) (p : Pool) (s : Nat) (tmo : Bool) :
    (tryFinalize c p s tmo true).2 ≠ Outcome.discrepancyWaiting := by
  by_cases hd : (process c p s tmo).2 = Res.discrepancyDetected
  · rw [tryFinalize_disc c p s tmo true hd]
    have h2 := timeout_decides c (process c p s tmo).1 s
    simp only
    generalize (process c (process c p s tmo).1 s true) = r2 at *
    obtain ⟨p2, res2⟩ := r2
    simp only at h2 ⊢
    cases res2 <;> simp [mapResult] at h2 ⊢
    all_goals (repeat' split)
    all_goals simp
  · rw [tryFinalize_nodisc c p s tmo true hd]
    simp only
    generalize (process c p s tmo) = r1 at *
    obtain ⟨p1, res1⟩ := r1
    cases res1 <;> simp [mapResult]
    all_goals (repeat' split)
    all_goals simp

/-- Go iterates the vote map in arbitrary order when it looks for the result with most votes
(pool.go:427). The answer of a processing call does not depend on that order: for every permutation
of the gathered vote map the resolution gives the same result (when the best count is below the
majority the selected hash is unused; at or above it the hash is unique). The detection branch only
uses the size of the map and the sum of its counts. -/
theorem best_order_independent (disc : Bool) (hr : Nat) (sc : SC) (s : Nat) (tmo : Bool)
    (c : Committee) (t : Tally) (votes' : List (Nat × Nat))
    (ht : gather disc hr sc s tmo c {} = some t) (hperm : t.votes.Perm votes') :
    resolve votes' t.total t.commits tmo sc.commitment =
      resolve t.votes t.total t.commits tmo sc.commitment ∧
    votes'.length = t.votes.length ∧ vsum votes' = vsum t.votes := by
  obtain ⟨g1, _, _, _, g5⟩ := gather_tally _ _ _ _ _ _ _ _ ht
  have hsum : vsum t.votes ≤ t.total := by
    rw [g5, g1]
    simp only [vsum, List.map_nil, List.sum_nil, Nat.zero_add]
    exact List.countP_le_length
  exact ⟨resolve_perm _ _ _ _ _ _ hperm hsum, hperm.length_eq.symm, (vsum_perm _ _ hperm).symm⟩

/-! ### scheduler rank and index -/

/-- `SchedulerIdx(round, SchedulerRank(round, id))` is a worker slot holding `id`, and distinct
schedulers have distinct ranks (no uint64 wrap-around). -/
theorem scheduler_idx_rank (c : Committee) (round : Nat) (hw : round + c.length < two64) :
    (∀ id r, schedulerRank c round id = some r →
      r < workerTotal c ∧ ∃ i m, schedulerIdx c round r = some i ∧ c[i]? = some m ∧ m.node = id ∧
        m.role = Role.worker) ∧
    (∀ a b r, schedulerRank c round a = some r → schedulerRank c round b = some r → a = b) :=
  ⟨fun id r h => ⟨schedulerRank_lt c round id r h, schedulerIdx_of_rank c round id r hw h⟩,
   fun a b r ha hb => schedulerRank_inj c round a b r hw ha hb⟩

/-! ### non-vacuity: the hypotheses are met by concrete histories -/

section examples

/-- workers 0,1,2 — backups 2,3,4 (node 2 in both roles); round 4: ranks are 1,2,0 for nodes 0,1,2. -/
def exC : Committee :=
  [⟨.worker, 0⟩, ⟨.worker, 1⟩, ⟨.worker, 2⟩, ⟨.backup, 2⟩, ⟨.backup, 3⟩, ⟨.backup, 4⟩]

def cm (node sched hash : Nat) (failure : Bool := false) : Op :=
  .commit true { node := node, sched := sched, round := 4, hash := hash, failure := failure }

/-- unanimous with one straggler allowed: scheduler 2 (rank 0) and worker 0 agree, worker 1 failed. -/
def exUnanimous : List Op := [cm 2 2 7, cm 0 2 7, cm 1 2 0 true]

example : 4 + exC.length < two64 := by decide
example : (process exC (run exC 4 exUnanimous).pool 1 false).2 = Res.ok := by decide
example : (run exC 4 exUnanimous).log.length = 3 := by decide
-- the same history does not finalize without the straggler allowance, it starts resolution
example : (process exC (run exC 4 exUnanimous).pool 0 false).2 = Res.discrepancyDetected := by decide

/-- dissent ⇒ discrepancy ⇒ backups 2 (already voted 7), 3 vote 7, 4 votes 9: majority 2 of 3. -/
def exMajority : List Op :=
  [cm 2 2 7, cm 0 2 9, .process 0 false, cm 3 2 7, cm 4 2 9]

example : (run exC 4 exMajority).pool.discrepancy = true := by decide
example : (process exC (run exC 4 exMajority).pool 0 false).2 = Res.ok := by decide
example : (tryFinalize exC (run exC 4 exMajority).pool 0 false false).2 =
    Outcome.normal { node := 2, sched := 2, round := 4, hash := 7, failure := false } := by decide
-- a majority for another result fails the round
example : (tryFinalize exC (run exC 4 [cm 2 2 7, cm 0 2 9, .process 0 false, cm 3 2 9, cm 4 2 9]).pool
    0 false false).2 = Outcome.roundFailed Res.badSchedulerCommitment := by decide
-- duplicate, non-member, worse-ranked scheduler after a better one committed, scheduler failure
example : (submit exC 4 (run exC 4 exUnanimous).pool true
    { node := 0, sched := 2, round := 4, hash := 8, failure := false }).2 = some AddErr.alreadyCommitted := by decide
example : (submit exC 4 (run exC 4 exUnanimous).pool true
    { node := 7, sched := 2, round := 4, hash := 7, failure := false }).2 = some AddErr.notInCommittee := by decide
example : (submit exC 4 (run exC 4 exUnanimous).pool true
    { node := 1, sched := 0, round := 4, hash := 7, failure := false }).2 = some AddErr.badCommitment := by decide
example : (submit exC 4 {} true
    { node := 2, sched := 2, round := 4, hash := 0, failure := true }).2 = some AddErr.badCommitment := by decide
-- timeout with nothing received fails the round, without timeout it waits
example : (tryFinalize exC {} 0 true false).2 = Outcome.roundFailed Res.noSchedulerCommitment := by decide
example : (tryFinalize exC {} 0 false false).2 = Outcome.waiting := by decide
example : schedulerRank exC 4 2 = some 0 ∧ schedulerIdx exC 4 0 = some 2 := by decide

/-- Why `round + |c| < 2^64` is needed: at round 2^64 − 1 the uint64 sum `round + idx` wraps and
nodes 0 and 1 both get rank 0 (unreachable in practice; the theorems above exclude it). -/
example : schedulerRank exC (two64 - 1) 0 = some 0 ∧ schedulerRank exC (two64 - 1) 1 = some 0 := by
  decide

/-- … and there a verified history leaves the entry at `HighestRank` without `Commitment`
(node 1 votes for scheduler 0's rank-0 proposal, then proposes itself at the same wrapped rank:
`HighestRank` is updated before `sc.Add` rejects the duplicate vote). The application discards the
mutated pool because the transaction fails, so this needs both the wrap and direct use of the pool. -/
example :
    let w : Nat := two64 - 1
    let st := run exC w [.commit true { node := 1, sched := 0, round := w, hash := 7, failure := false },
                         .commit true { node := 1, sched := 1, round := w, hash := 7, failure := false }]
    st.pool.highestRank = 0 ∧ chosen st.pool = none ∧ (process exC st.pool 2 true).2 = Res.ok := by
  decide

end examples

end OasisProofs.C11
