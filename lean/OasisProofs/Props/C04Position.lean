import OasisProofs.Props.C04
import OasisProofs.Helpers.MkvsProofPosition
/-
C04 — Merkle proofs are complete: requests positioned below the root.

Go code. `SyncGet` (lookup.go:37-73) creates the builder with
`NewProofBuilderForVersion(request.Tree.Root.Hash, request.Tree.Position, request.ProofVersion)` and then
runs `doGet` from `t.cache.pendingRoot` at bit depth 0: the lookup always starts at the tree root and
every visited node is passed to `ProofBuilder.Include` (lookup.go:117-119). The position only decides
where `Build` (syncer/proof.go:202-220) anchors the proof: at `b.subtree` iff `included[b.subtree] != nil`
(`HasSubtreeRoot`, proof.go:180), otherwise at `b.root`. The remote client sends `Position: ptr.Hash`
(lookup.go:80) for the pointer it is dereferencing and accepts a proof whose `UntrustedRoot` is that
hash or the sync root (cache.go:385-415).

Model: `OasisModel/Mkvs/ProofPosition.lean` (`buildAt`, `proofGetAt`, `clientAccept`, `pathNodes`,
`PT.stuckAt`, and the seeded variant `inclGetBelow`/`proofGetBelow`) over `OasisModel/Mkvs/Proof.lean`.
`visited` below is the builder's `included` key set after the lookup; `p ∈ visited` is `HasSubtreeRoot`.

Hypotheses. `hlen` (32-byte hash output), `WF`/`ContentsBounded` as in `Props/C04.lean`; the depth bound
of the verifier (known finding F3, `C04.deep_chain_rejected`) appears as the exact verdict in
`positioned_build_verifies_iff` and as a hypothesis where a proof must be accepted. Resolving the key
from a proof anchored at a path node needs that the hash `p` identifies that node among the pointers of
the tree (`hf : findHash p = some s`): this is decidable, holds on the example tree, and follows from
injectivity of `H` (`findHash_of_injective`); without it a colliding node elsewhere in the tree would be
the one `included[p]` holds (witness `hf_needed`).
-/
namespace OasisProofs.C04Position
open OasisModel.Mkvs OasisProofs.Mkvs OasisProofs.MkvsProof OasisProofs.C04

/-- The hashes of the nodes `SyncGet` passes to `Include` while looking up `k` (keys of the builder's
`included` map when `Build` is called). -/
abbrev visited (H : Bytes → Bytes) (ver : Nat) (sib : Bool) (k : Bytes) (T : Trie) : List Bytes :=
  (inclGet ver sib k (annotate H T) 0 false {}).incl

/-! ### (1) where the proof is anchored, and that it verifies there -/

/-- **Positioned build, exact form.** For a lookup of `k` (either version, siblings on or off) on a
canonical tree and ANY requested position `p`:

* if `p` is the hash of a visited node (`HasSubtreeRoot`), the builder holds a node `s` of the tree
  under `p`, the proof is anchored at `p`, its entries are the pre-order emission below `s`, and it
  verifies against `p` iff that emission is at most `maxProofDepth` deep, rebuilding the visited part
  of `s`;
* if `p` is not visited (unset, stale, a node elsewhere), the proof is byte-identical to the proof of
  the root-positioned request, is anchored at the tree root, and verifies against the root under the
  condition of `C04.build_verifies_iff`. -/
theorem positioned_build_verifies_iff {H : Bytes → Bytes} (hlen : ∀ x, (H x).length = 32) (ver : Nat)
    (hver : ver ≤ 1) (sib : Bool) (k : Bytes) (T : Trie) (hwf : WF T) (hb : ContentsBounded T.toList)
    (p : Bytes) :
    (p ∈ visited H ver sib k T →
      ∃ s, (annotate H T).findHash p = some s ∧ s.hash (H []) = p ∧
        proofGetAt (H []) ver sib k p (annotate H T) =
          { v := ver, untrusted := p, entries := buildFrom ver (visited H ver sib k T) s } ∧
        verifyProof H p (proofGetAt (H []) ver sib k p (annotate H T)) =
          if proofDepth ver (visited H ver sib k T) s ≤ maxProofDepth
          then .ok (restrict ver (visited H ver sib k T) s) else .error .maxDepth) ∧
    (p ∉ visited H ver sib k T →
      proofGetAt (H []) ver sib k p (annotate H T) = proofGet (H []) ver sib k (annotate H T) ∧
      (proofGetAt (H []) ver sib k p (annotate H T)).untrusted = hashWith H T ∧
      verifyProof H (hashWith H T) (proofGetAt (H []) ver sib k p (annotate H T)) =
        if proofDepth ver (visited H ver sib k T) (annotate H T) ≤ maxProofDepth
        then .ok (restrict ver (visited H ver sib k T) (annotate H T)) else .error .maxDepth) := by
  have hok := annotate_ok H (wfAt_bounded hwf hb)
  constructor
  · intro hin
    have hsome : ((annotate H T).findHash p).isSome = true := by
      rcases inclGet_findHash ver sib k (annotate H T) 0 false {} p hin with h | h
      · exact absurd h (by simp)
      · exact h
    obtain ⟨s, hs⟩ := Option.isSome_iff_exists.1 hsome
    refine ⟨s, hs, (findHash_spec H (H []) p _ s hs).1, buildAt_of_mem hin hs, ?_⟩
    exact verifyProof_buildAt hlen ver hver _ p _ s hok hin hs
  · intro hin
    have he : proofGetAt (H []) ver sib k p (annotate H T) = proofGet (H []) ver sib k (annotate H T) :=
      buildAt_of_not_mem hin
    refine ⟨he, ?_, ?_⟩
    · rw [he]; exact annotate_hash H T
    · rw [he]; exact build_verifies_iff hlen ver hver _ T hwf hb

/-- **A position on the lookup path.** If `p` is the hash of the node `s` that `doGet` visits at bit
depth `d` on its way to `k`, and `p` identifies `s` among the pointers of the tree, the proof is
anchored at `p`, verifies against `p` (its depth permitting) and resolves `k` relative to that
subtree: continuing the lookup at bit depth `d` in the rebuilt subtree gives the tree's answer. -/
theorem positioned_on_path_complete_partial {H : Bytes → Bytes} (hlen : ∀ x, (H x).length = 32) (ver : Nat)
    (hver : ver ≤ 1) (sib : Bool) (k : Bytes) (T : Trie) (hwf : WF T) (hb : ContentsBounded T.toList)
    (s : HTrie) (d : Nat) (hpath : (s, d) ∈ (annotate H T).pathNodes ver k 0)
    (hf : (annotate H T).findHash (s.hash (H [])) = some s)
    (hd : proofDepth ver (visited H ver sib k T) s ≤ maxProofDepth) :
    (proofGetAt (H []) ver sib k (s.hash (H [])) (annotate H T)).untrusted = s.hash (H []) ∧
    ∃ sub, verifyProof H (s.hash (H [])) (proofGetAt (H []) ver sib k (s.hash (H [])) (annotate H T)) = .ok sub ∧
      sub.getAux (H []) k d = some (T.get k) := by
  have hok := annotate_ok H (wfAt_bounded hwf hb)
  have hin : s.hash (H []) ∈ visited H ver sib k T := pathNodes_mem_incl H (H []) ver sib k _ 0 {} s d hpath
  refine ⟨?_, restrict ver (visited H ver sib k T) s, ?_, ?_⟩
  · show (buildAt _ _ _ _ _).untrusted = _
    rw [buildAt_of_mem hin hf]
  · show verifyProof H _ (buildAt _ _ _ _ _) = _
    rw [verifyProof_buildAt hlen ver hver _ _ _ s hok hin hf, if_pos hd]
  · have := restrict_path_getAux H (H []) ver sib k (annotate H T) s d hpath
    rw [annotate_erase] at this
    exact this

/-- **An unvisited position.** Completeness does not depend on the hint: for a `p` that is not the
hash of a visited node the response is the root-positioned proof, byte for byte; it verifies against
the root and resolves `k` (within the depth bound of `C04.lookup_proof_complete_partial`). -/
theorem positioned_unvisited_complete_partial {H : Bytes → Bytes} (hlen : ∀ x, (H x).length = 32) (ver : Nat)
    (hver : ver ≤ 1) (sib : Bool) (k : Bytes) (T : Trie) (hwf : WF T) (hb : ContentsBounded T.toList)
    (p : Bytes) (hp : p ∉ visited H ver sib k T)
    (hd : proofDepth ver (visited H ver sib k T) (annotate H T) ≤ maxProofDepth) :
    proofGetAt (H []) ver sib k p (annotate H T) = proofGet (H []) ver sib k (annotate H T) ∧
    (proofGetAt (H []) ver sib k p (annotate H T)).untrusted = hashWith H T ∧
    ∃ sub, verifyProof H (hashWith H T) (proofGetAt (H []) ver sib k p (annotate H T)) = .ok sub ∧
      sub.getAux (H []) k 0 = some (T.get k) := by
  have he : proofGetAt (H []) ver sib k p (annotate H T) = proofGet (H []) ver sib k (annotate H T) :=
    buildAt_of_not_mem hp
  refine ⟨he, by rw [he]; exact annotate_hash H T, ?_⟩
  rw [he]
  exact lookup_proof_complete_partial hlen ver hver sib k T hwf hb hd

/- Full-strength statements that do NOT hold (hence `_partial`, as for `C04.lookup_proof_complete_partial`):
the two theorems above without the depth hypothesis `hd`. The verifier rejects every proof deeper than
`maxProofDepth` (known finding F3); `positioned_deep_chain_rejected` below is the witness for positioned
requests. Everything else is at full strength: all trees, keys, positions, both versions, siblings on/off. -/

/-- Under the idealisation of `C04.verify_sound` (injective `H`) a hash identifies its node: the
hypothesis `hf` of `positioned_on_path_complete_partial` holds for every node on the lookup path. -/
theorem findHash_of_injective {H : Bytes → Bytes} (hinj : Function.Injective H) (hlen : ∀ x, (H x).length = 32)
    (ver : Nat) (k : Bytes) (T : Trie) (hwf : WF T) (hb : ContentsBounded T.toList)
    (s : HTrie) (d : Nat) (hpath : (s, d) ∈ (annotate H T).pathNodes ver k 0) :
    (annotate H T).findHash (s.hash (H [])) = some s := by
  have hok := annotate_ok H (wfAt_bounded hwf hb)
  obtain ⟨hne, hoks, _, _⟩ := pathNodes_spec H ver false k (annotate H T) 0 {} s d hpath
  have hin : s.hash (H []) ∈ visited H ver false k T := pathNodes_mem_incl H (H []) ver false k _ 0 {} s d hpath
  have hsome : ((annotate H T).findHash (s.hash (H []))).isSome = true := by
    rcases inclGet_findHash ver false k (annotate H T) 0 false {} _ hin with h | h
    · exact absurd h (by simp)
    · exact h
  obtain ⟨s', hs'⟩ := Option.isSome_iff_exists.1 hsome
  obtain ⟨hh, _, hoks'⟩ := findHash_spec H (H []) _ _ s' hs'
  rw [hs', hok_hash_inj hinj hlen s' s (hoks' hok) (hoks hok) hh]

/-- Every visited hash is the hash of a node, hence 32 bytes long: a position of any other length
(e.g. the empty byte string) is never visited, for any tree and key. (Go's unset `hash.Hash{}` is 32
zero bytes; that it is unvisited on the example tree is shown below by evaluation.) -/
theorem visited_length {H : Bytes → Bytes} (hlen : ∀ x, (H x).length = 32) (ver : Nat) (sib : Bool)
    (k : Bytes) (T : Trie) (hwf : WF T) (hb : ContentsBounded T.toList) :
    ∀ x ∈ visited H ver sib k T, x.length = 32 := by
  intro x hx
  have hok := annotate_ok H (wfAt_bounded hwf hb)
  have hsome : ((annotate H T).findHash x).isSome = true := by
    rcases inclGet_findHash ver sib k (annotate H T) 0 false {} x hx with h | h
    · exact absurd h (by simp)
    · exact h
  obtain ⟨s, hs⟩ := Option.isSome_iff_exists.1 hsome
  obtain ⟨hh, _, hoks⟩ := findHash_spec H (H []) x _ s hs
  rw [← hh]
  exact hok_hash_length hlen (hoks hok)

/-- **The depth hypotheses are forced also for positioned requests**: on `C04.deepTree` the response
for any unvisited position (e.g. the empty one) is the root-positioned proof and the verifier answers
"max proof depth exceeded" (known finding F3). -/
theorem positioned_deep_chain_rejected {H : Bytes → Bytes} (hlen : ∀ x, (H x).length = 32) (ver : Nat)
    (hver : ver ≤ 1) (sib : Bool) (p : Bytes) (hp : p ∉ visited H ver sib deepKey deepTree) :
    verifyProof H (hashWith H deepTree) (proofGetAt (H []) ver sib deepKey p (annotate H deepTree)) =
      .error .maxDepth := by
  obtain ⟨hwf, hb, _, hrej⟩ := deep_chain_rejected hlen ver hver sib
  rw [((positioned_build_verifies_iff hlen ver hver sib deepKey deepTree hwf hb p).2 hp).1]
  exact hrej

example {H : Bytes → Bytes} (hlen : ∀ x, (H x).length = 32) (ver : Nat) (sib : Bool) :
    ([] : Bytes) ∉ visited H ver sib deepKey deepTree := by
  obtain ⟨hwf, hb, _, _⟩ := deep_chain_rejected hlen 0 (by omega) false
  intro h
  have := visited_length hlen ver sib deepKey deepTree hwf hb [] h
  simp at this

/-! ### (2) the hint never changes the answer -/

/-- **The position hint never changes the answer.** Whatever `p` the request carries — the hash of
the pointer the client is dereferencing, an unset or stale hash, the hash of a node elsewhere — the
client's accept rule (`UntrustedRoot` = the pointer hash it asked for, or the sync root) accepts the
response, and what the client derives from the accepted subtree for `k` is the full tree's answer:

* `p` not visited: the response is the root-positioned proof and the lookup of `k` in the accepted
  subtree from the top answers `T.get k`;
* `p` visited: the accepted subtree is the visited part of the node held under `p`, it hashes to `p`
  (so it replaces the client's hash-only pointer), and whenever `p` is the hash of the path node at
  bit depth `d`, continuing the lookup of `k` there answers `T.get k`.

Hypotheses: the depth bound of the verifier for the whole tree (forced: `C04.deep_chain_rejected`,
`positioned_deep_chain_rejected`), and `hid`: `p` identifies the path node it is the hash of (needed:
`hf_needed`; it follows from the soundness hypotheses of `Props/C04.lean`, see
`position_hint_never_changes_answer_inj`, and holds vacuously for every unvisited `p`). -/
theorem position_hint_never_changes_answer {H : Bytes → Bytes}
    (hlen : ∀ x, (H x).length = 32) (ver : Nat) (hver : ver ≤ 1) (sib : Bool) (k : Bytes) (T : Trie)
    (hwf : WF T) (hb : ContentsBounded T.toList) (hd : (annotate H T).ptrDepth ≤ maxProofDepth) (p : Bytes)
    (hid : ∀ s d, (s, d) ∈ (annotate H T).pathNodes ver k 0 → s.hash (H []) = p →
      (annotate H T).findHash p = some s) :
    ∃ sub, clientAccept H (hashWith H T) p (proofGetAt (H []) ver sib k p (annotate H T)) = some sub ∧
      ((p ∉ visited H ver sib k T ∧
          proofGetAt (H []) ver sib k p (annotate H T) = proofGet (H []) ver sib k (annotate H T) ∧
          sub.getAux (H []) k 0 = some (T.get k)) ∨
       (p ∈ visited H ver sib k T ∧
          (proofGetAt (H []) ver sib k p (annotate H T)).untrusted = p ∧ sub.hashOf H = p ∧
          (∃ s, (annotate H T).findHash p = some s ∧ sub = restrict ver (visited H ver sib k T) s) ∧
          ∀ s d, (s, d) ∈ (annotate H T).pathNodes ver k 0 → s.hash (H []) = p →
            sub.getAux (H []) k d = some (T.get k))) := by
  have hok := annotate_ok H (wfAt_bounded hwf hb)
  by_cases hin : p ∈ visited H ver sib k T
  · obtain ⟨s, hs, hh, hpr, hv⟩ := (positioned_build_verifies_iff hlen ver hver sib k T hwf hb p).1 hin
    have hdep : proofDepth ver (visited H ver sib k T) s ≤ maxProofDepth :=
      Nat.le_trans (proofDepth_le_ptrDepth _ _ _) (Nat.le_trans (findHash_ptrDepth p _ s hs) hd)
    rw [if_pos hdep] at hv
    refine ⟨restrict ver (visited H ver sib k T) s, ?_, Or.inr ⟨hin, by rw [hpr], ?_, ⟨s, hs, rfl⟩, ?_⟩⟩
    · unfold clientAccept
      rw [if_pos (by rw [hpr]), hv]
    · rw [restrict_hashOf ver _ s ((findHash_spec H (H []) p _ s hs).2.2 hok), hh]
    · intro s' d hpath hh'
      have hf := hid s' d hpath hh'
      rw [hs] at hf
      cases hf
      have := restrict_path_getAux H (H []) ver sib k (annotate H T) s d hpath
      rw [annotate_erase] at this
      exact this
  · obtain ⟨he, hu, sub, hv, hg⟩ := positioned_unvisited_complete_partial hlen ver hver sib k T hwf hb p hin
      (Nat.le_trans (proofDepth_le_ptrDepth _ _ _) hd)
    refine ⟨sub, ?_, Or.inl ⟨hin, he, hg⟩⟩
    unfold clientAccept
    by_cases hpr : (proofGetAt (H []) ver sib k p (annotate H T)).untrusted = p
    · rw [if_pos hpr]
      have : p = hashWith H T := by rw [← hpr, hu]
      subst this
      rw [hv]
    · rw [if_neg hpr, if_pos hu, hv]

/-- The same under the soundness hypotheses of `Props/C04.lean` (injective `H`), for every `p`. -/
theorem position_hint_never_changes_answer_inj {H : Bytes → Bytes} (hinj : Function.Injective H)
    (hlen : ∀ x, (H x).length = 32) (ver : Nat) (hver : ver ≤ 1) (sib : Bool) (k : Bytes) (T : Trie)
    (hwf : WF T) (hb : ContentsBounded T.toList) (hd : (annotate H T).ptrDepth ≤ maxProofDepth) (p : Bytes) :
    ∃ sub, clientAccept H (hashWith H T) p (proofGetAt (H []) ver sib k p (annotate H T)) = some sub ∧
      ((p ∉ visited H ver sib k T ∧
          proofGetAt (H []) ver sib k p (annotate H T) = proofGet (H []) ver sib k (annotate H T) ∧
          sub.getAux (H []) k 0 = some (T.get k)) ∨
       (p ∈ visited H ver sib k T ∧
          (proofGetAt (H []) ver sib k p (annotate H T)).untrusted = p ∧ sub.hashOf H = p ∧
          (∃ s, (annotate H T).findHash p = some s ∧ sub = restrict ver (visited H ver sib k T) s) ∧
          ∀ s d, (s, d) ∈ (annotate H T).pathNodes ver k 0 → s.hash (H []) = p →
            sub.getAux (H []) k d = some (T.get k))) :=
  position_hint_never_changes_answer hlen ver hver sib k T hwf hb hd p
    (fun s d hpath hh => hh ▸ findHash_of_injective hinj hlen ver k T hwf hb s d hpath)

/-- **End to end for the remote client** (the case the position exists for). A client that holds the
verified nodes `c`, whose lookup of `k` is stuck at the hash-only pointer `(p, d)` — so it sends
`Position = p` (lookup.go:80) — where `p` is the hash of the node `s` the full tree has at that place
of the lookup path (and identifies it): after `remoteSync` of the honest response (`clientSync`,
cache.go:385-451: accepted through the pointer-hash branch, attached at the pointer) the same lookup
is answered locally with the full tree's answer. No hypothesis on the rest of `c` is needed. -/
theorem positioned_client_lookup_completes {H : Bytes → Bytes}
    (hlen : ∀ x, (H x).length = 32) (ver : Nat) (hver : ver ≤ 1) (sib : Bool) (k : Bytes) (T : Trie)
    (hwf : WF T) (hb : ContentsBounded T.toList)
    (c : PT) (s : HTrie) (d : Nat) (hstuck : c.stuckAt (H []) k 0 = some (s.hash (H []), d))
    (hpath : (s, d) ∈ (annotate H T).pathNodes ver k 0)
    (hf : (annotate H T).findHash (s.hash (H [])) = some s)
    (hd : proofDepth ver (visited H ver sib k T) s ≤ maxProofDepth) :
    c.getAux (H []) k 0 = none ∧
    (clientSync H (hashWith H T) c (s.hash (H []))
      (proofGetAt (H []) ver sib k (s.hash (H [])) (annotate H T))).getAux (H []) k 0 = some (T.get k) := by
  refine ⟨getAux_none_of_stuck (H []) k c 0 _ hstuck, ?_⟩
  obtain ⟨hu, sub, hv, hg⟩ := positioned_on_path_complete_partial hlen ver hver sib k T hwf hb s d hpath hf hd
  unfold clientSync
  rw [if_pos hu, hv]
  simp only
  rw [graft_getAux_stuck (H []) k _ sub c 0 d hstuck]
  exact hg

/-- **End to end for an unvisited position.** A client that holds verified nodes `c` of the tree (none
of them with a hash-only own-leaf pointer: the shape of version 0 proofs) and asks with ANY position
`p` the server's lookup does not visit — unset, stale, a node elsewhere: after `remoteSync` of the
response (accepted through the sync-root branch and merged from the top, cache.go:402-404, 441) the
lookup of `k` is answered locally with the full tree's answer. Together with
`positioned_client_lookup_completes`: the hint changes which pointer the verified nodes are attached
to, never whether the client can answer, nor what it answers. -/
theorem unvisited_client_lookup_completes {H : Bytes → Bytes} (hinj : Function.Injective H)
    (hlen : ∀ x, (H x).length = 32) (ver : Nat) (hver : ver ≤ 1) (sib : Bool) (k : Bytes) (T : Trie)
    (hwf : WF T) (hb : ContentsBounded T.toList) (hd : (annotate H T).ptrDepth ≤ maxProofDepth)
    (c : PT) (hc : SubT H c T) (hfull : c.LeafFull) (p : Bytes) (hp : p ∉ visited H ver sib k T) :
    (clientSync H (hashWith H T) c p (proofGetAt (H []) ver sib k p (annotate H T))).getAux (H []) k 0 =
      some (T.get k) := by
  have hsound := clientSync_sound hinj hlen T hwf hb c hc p (proofGetAt (H []) ver sib k p (annotate H T))
  suffices hs : ((clientSync H (hashWith H T) c p (proofGetAt (H []) ver sib k p (annotate H T))).getAux
      (H []) k 0).isSome = true by
    obtain ⟨a, ha⟩ := Option.isSome_iff_exists.1 hs
    have := sub_getAux (noColl_of_injective hinj ([] :: trieInputs H T)) List.mem_cons_self k _ T 0 a
      (fun _ hx => List.mem_cons_of_mem _ hx) hsound ha
    rw [ha, ← this]; rfl
  obtain ⟨_, hu', sub, hv, hg⟩ := positioned_unvisited_complete_partial hlen ver hver sib k T hwf hb p hp
    (Nat.le_trans (proofDepth_le_ptrDepth _ _ _) hd)
  by_cases hu : (proofGetAt (H []) ver sib k p (annotate H T)).untrusted = p
  · -- the position is the root hash and yet unvisited: the tree is empty
    have hT : T = .nil := by
      apply Classical.byContradiction
      intro hne
      have hne' : annotate H T ≠ .nil := by
        cases T with
        | nil => exact absurd rfl hne
        | leaf _ _ => simp [annotate]
        | node _ _ _ _ => simp [annotate]
      apply hp
      rw [← hu, hu', ← annotate_hash]
      exact inclGet_self (H []) ver sib k _ hne' 0 false {}
    subst hT
    generalize clientSync H (hashWith H Trie.nil) c p (proofGetAt (H []) ver sib k p (annotate H Trie.nil)) = g
      at hsound ⊢
    cases g with
    | nil => rfl
    | hash h => simp only [SubT, hashWith] at hsound; simp [PT.getAux, hsound]
    | leaf _ _ => exact absurd hsound (by simp [SubT])
    | node _ _ _ _ _ => exact absurd hsound (by simp [SubT])
  · obtain ⟨m, hm, gm⟩ := merge_resolves hinj k c sub T 0 hc (verify_sound hinj hlen hv T hwf hb rfl) hfull
    unfold clientSync
    rw [if_neg hu, if_pos hu', hv]
    simp only [hm, Option.getD_some]
    exact gm (by rw [hg]; rfl)

/-! ### (3) the seeded variant: include only below the requested position -/

/-- **Witness that completeness needs the nodes ABOVE the position.** A variant of `doGet` that passes
a node to `Include` only once the node with hash `p` has been reached (`inclGetBelow`, a seeded
mutation, not the code that exists) yields, for every non-empty tree and every unvisited `p`, a proof
that consists of the single hash entry of the root: it is anchored at the root and verifies against
it, but the accepted subtree is the bare root pointer and does not determine `k` (the lookup would
have to dereference the root again), although the tree stores an answer and the real `SyncGet`
resolves it (`positioned_unvisited_complete_partial`). -/
theorem include_only_below_position_breaks_completeness {H : Bytes → Bytes} (hlen : ∀ x, (H x).length = 32)
    (ver : Nat) (hver : ver ≤ 1) (sib : Bool) (k : Bytes) (T : Trie) (hwf : WF T)
    (hb : ContentsBounded T.toList) (hT : T ≠ .nil) (hroot : hashWith H T ≠ H [])
    (p : Bytes) (hp : p ∉ visited H ver sib k T) :
    proofGetBelow (H []) ver sib k p (annotate H T) =
      { v := ver, untrusted := hashWith H T, entries := [some (0x02 :: hashWith H T)] } ∧
    verifyProof H (hashWith H T) (proofGetBelow (H []) ver sib k p (annotate H T)) = .ok (.hash (hashWith H T)) ∧
    (PT.hash (hashWith H T)).getAux (H []) k 0 = none := by
  have hne : annotate H T ≠ .nil := by
    cases T with
    | nil => exact absurd rfl hT
    | leaf _ _ => simp [annotate]
    | node _ _ _ _ => simp [annotate]
  have hincl : (inclGetBelow ver sib p k (annotate H T) 0 false false {}).incl = [] := by
    rw [inclGetBelow_unvisited ver sib p k (annotate H T) 0 {} {} hp]
  obtain ⟨e1, e2, e3⟩ := buildFrom_empty (H []) ver (annotate H T) hne
  rw [annotate_hash] at e1 e2
  have hpr : proofGetBelow (H []) ver sib k p (annotate H T) =
      { v := ver, untrusted := hashWith H T, entries := [some (0x02 :: hashWith H T)] } := by
    unfold proofGetBelow
    rw [hincl, buildAt_of_not_mem (by simp)]
    unfold build
    rw [e1, annotate_hash]
  refine ⟨hpr, ?_, ?_⟩
  · have := build_verifies_iff hlen ver hver [] T hwf hb
    unfold build at this
    rw [e1, e2, e3, annotate_hash, if_pos (Nat.zero_le _)] at this
    rw [hpr]
    exact this
  · simp [PT.getAux, hroot]

/-! ### the hypothesis `hf` is needed -/

/-- A hash function with 32-byte output under which every node of a tree collides. -/
def constHash (_ : Bytes) : Bytes := List.replicate 32 0

/-- **`hf` cannot be dropped from `positioned_on_path_complete_partial`.** Under `constHash` the leaf of key
`61` is on the lookup path at bit depth 6, but its hash does not identify it: `included[p]` holds the
root node (the first node included under that hash, proof.go:119-122). The response for that position
still verifies against `p`, yet continuing the lookup of `61` at depth 6 in the accepted subtree
answers "absent" while the tree stores `[1]`. (This is a collision of the hash function, excluded by
`C04.lookup_sound`'s hypotheses; the witness shows which part of the statement depends on it.) -/
theorem hf_needed :
    let t := annotate constHash smallTree
    let s : HTrie := .leaf (constHash (leafEnc [0x61] [1])) [0x61] [1]
    let p := s.hash (constHash [])
    (s, 6) ∈ t.pathNodes 0 [0x61] 0 ∧ t.findHash p ≠ some s ∧
    (clientAccept constHash (hashWith constHash smallTree) p (proofGetAt (constHash []) 0 false [0x61] p t)).map
      (fun sub => sub.getAux (constHash []) [0x61] 6) = some (some none) ∧
    smallTree.get [0x61] = some [1] := by
  decide +kernel

/-! ### (4) non-vacuity on the example tree of `Props/C04.lean` -/

/-- The leaf of key `61` in `smallTree`, visited at bit depth 6 (below the root's 6-bit label). -/
def leaf61 : HTrie := .leaf (padHash (leafEnc [0x61] [1])) [0x61] [1]

/-- The leaf of key `62`: a node elsewhere (the sibling of the lookup path of key `61`). -/
def leaf62 : HTrie := .leaf (padHash (leafEnc [0x62] [2])) [0x62] [2]

def smallH : HTrie := annotate padHash smallTree

/-- The hypotheses of `positioned_on_path_complete_partial` hold on `smallTree` for the position of the leaf
(both proof versions): it is on the lookup path, its hash identifies it, the depth bound holds. -/
example : (leaf61, 6) ∈ smallH.pathNodes 0 [0x61] 0 ∧ (leaf61, 6) ∈ smallH.pathNodes 1 [0x61] 0 ∧
    smallH.findHash (leaf61.hash (padHash [])) = some leaf61 ∧
    proofDepth 0 (visited padHash 0 false [0x61] smallTree) leaf61 ≤ maxProofDepth := by
  refine ⟨by decide +kernel, by decide +kernel, by decide +kernel, by decide +kernel⟩

/-- Its conclusion, computed: the proof for position `leaf61` is anchored there, is a single full-leaf
entry, verifies against the leaf hash, and continuing the lookup of `61` at depth 6 answers `[1]`. -/
example : proofGetAt (padHash []) 0 false [0x61] (leaf61.hash (padHash [])) smallH =
      { v := 0, untrusted := padHash (leafEnc [0x61] [1]), entries := [some (0x01 :: encLeaf [0x61] [1])] } ∧
    verifyProof padHash (leaf61.hash (padHash []))
      (proofGetAt (padHash []) 0 false [0x61] (leaf61.hash (padHash [])) smallH) = .ok (.leaf [0x61] [1]) ∧
    (PT.leaf [0x61] [1]).getAux (padHash []) [0x61] 6 = some (smallTree.get [0x61]) := by
  refine ⟨by decide +kernel, by decide +kernel, by decide +kernel⟩

/-- The hypothesis `hid` of `position_hint_never_changes_answer` holds on `smallTree` for the position
of the path leaf, and (vacuously, as for every unvisited position) for a stale one. -/
example : ∀ p ∈ [leaf61.hash (padHash []), padHash [9]],
    ∀ s d, (s, d) ∈ smallH.pathNodes 0 [0x61] 0 → s.hash (padHash []) = p → smallH.findHash p = some s := by
  intro p hp s d hm
  exact (by decide +kernel : ∀ p ∈ [leaf61.hash (padHash []), padHash [9]],
    ∀ x ∈ smallH.pathNodes 0 [0x61] 0, x.1.hash (padHash []) = p → smallH.findHash p = some x.1) p hp (s, d) hm

example : smallH.ptrDepth ≤ maxProofDepth := by decide +kernel

/-- Unvisited positions are satisfiable in every flavour: unset (empty / all-zero hash), stale (the
hash of something that is not in the tree), and a node elsewhere (the sibling leaf, siblings off). -/
example : ([] : Bytes) ∉ visited padHash 0 false [0x61] smallTree ∧
    List.replicate 32 (0 : UInt8) ∉ visited padHash 0 false [0x61] smallTree ∧
    padHash [9] ∉ visited padHash 0 false [0x61] smallTree ∧
    leaf62.hash (padHash []) ∉ visited padHash 0 false [0x61] smallTree ∧
    (smallH.findHash (leaf62.hash (padHash []))).isSome = true := by
  refine ⟨by decide +kernel, by decide +kernel, by decide +kernel, by decide +kernel, by decide +kernel⟩

/-- For each of them the response is the root-positioned proof of `C04.smallProof`'s kind, which the
client accepts through the sync-root branch and which resolves the key. -/
example : ∀ p ∈ [([] : Bytes), List.replicate 32 0, padHash [9], leaf62.hash (padHash [])],
    proofGetAt (padHash []) 0 false [0x61] p smallH = proofGet (padHash []) 0 false [0x61] smallH ∧
    (clientAccept padHash (hashWith padHash smallTree) p (proofGetAt (padHash []) 0 false [0x61] p smallH)).map
      (fun sub => sub.getAux (padHash []) [0x61] 0) = some (some (some [1])) := by
  decide +kernel

/-- With siblings on, the sibling leaf IS visited: the proof is then anchored at it (the client gets
the node it asked for), and the position of the path leaf still resolves the key. -/
example : leaf62.hash (padHash []) ∈ visited padHash 0 true [0x61] smallTree ∧
    clientAccept padHash (hashWith padHash smallTree) (leaf62.hash (padHash []))
      (proofGetAt (padHash []) 0 true [0x61] (leaf62.hash (padHash [])) smallH) = some (.leaf [0x62] [2]) ∧
    clientAccept padHash (hashWith padHash smallTree) (leaf61.hash (padHash []))
      (proofGetAt (padHash []) 0 true [0x61] (leaf61.hash (padHash [])) smallH) = some (.leaf [0x61] [1]) := by
  refine ⟨by decide +kernel, by decide +kernel, by decide +kernel⟩

/-- The client of `positioned_client_lookup_completes`, concretely: it holds the root node with both
children as hash-only pointers, is stuck at the pointer of `leaf61` at depth 6, and after the sync
with the positioned response answers `61 ↦ [1]`. -/
def smallClient : PT :=
  restrict 0 [smallH.hash (padHash [])] smallH

example : smallClient.stuckAt (padHash []) [0x61] 0 = some (leaf61.hash (padHash []), 6) ∧
    smallClient.getAux (padHash []) [0x61] 0 = none ∧
    (clientSync padHash (hashWith padHash smallTree) smallClient (leaf61.hash (padHash []))
      (proofGetAt (padHash []) 0 false [0x61] (leaf61.hash (padHash [])) smallH)).getAux (padHash []) [0x61] 0 =
      some (some [1]) := by
  refine ⟨by decide +kernel, by decide +kernel, by decide +kernel⟩

/-- The same client asking with a stale position: the response is merged from the root and the
lookup completes (hypotheses of `unvisited_client_lookup_completes`: `smallClient` is a sub-tree of
`smallTree` and holds no hash-only leaf pointer). -/
example : subB padHash smallClient smallTree = true ∧
    (clientSync padHash (hashWith padHash smallTree) smallClient (padHash [9])
      (proofGetAt (padHash []) 0 false [0x61] (padHash [9]) smallH)).getAux (padHash []) [0x61] 0 =
      some (some [1]) := by
  refine ⟨by decide +kernel, by decide +kernel⟩

example : smallClient.LeafFull := by
  have : smallClient = .node 6 [0x60] .nil (.hash (leaf61.hash (padHash []))) (.hash (leaf62.hash (padHash []))) := by
    decide +kernel
  rw [this]
  exact ⟨fun h => by simp, trivial, trivial⟩

/-- The hypotheses of `include_only_below_position_breaks_completeness` on `smallTree` (stale position),
and its conclusion next to the real code's behaviour: the variant's proof is the single root hash
entry, verifies, and leaves key `61` undetermined, while the real response resolves it. -/
example : smallTree ≠ .nil ∧ hashWith padHash smallTree ≠ padHash [] ∧
    padHash [9] ∉ visited padHash 0 false [0x61] smallTree ∧
    proofGetBelow (padHash []) 0 false [0x61] (padHash [9]) smallH =
      { v := 0, untrusted := hashWith padHash smallTree, entries := [some (0x02 :: hashWith padHash smallTree)] } ∧
    (clientAccept padHash (hashWith padHash smallTree) (padHash [9])
      (proofGetBelow (padHash []) 0 false [0x61] (padHash [9]) smallH)).map
        (fun sub => sub.getAux (padHash []) [0x61] 0) = some none ∧
    (clientAccept padHash (hashWith padHash smallTree) (padHash [9])
      (proofGetAt (padHash []) 0 false [0x61] (padHash [9]) smallH)).map
        (fun sub => sub.getAux (padHash []) [0x61] 0) = some (some (some [1])) := by
  refine ⟨by decide +kernel, by decide +kernel, by decide +kernel, by decide +kernel, by decide +kernel,
    by decide +kernel⟩

/-- The variant is the real lookup when the position is the root (the guard is open from the start),
so the mutation is invisible to root-positioned requests — only positioned ones expose it. -/
example : proofGetBelow (padHash []) 0 false [0x61] (smallH.hash (padHash [])) smallH =
    proofGetAt (padHash []) 0 false [0x61] (smallH.hash (padHash [])) smallH := by decide +kernel

end OasisProofs.C04Position
