import OasisProofs.Helpers.MkvsChunkBasic
import OasisProofs.Helpers.MkvsChunkTerm
import OasisProofs.Helpers.MkvsChunkCover
import OasisProofs.Helpers.MkvsChunkSeq
import OasisProofs.Helpers.MkvsChunkConc
import OasisProofs.Helpers.MkvsUnique
/-
C12 — checkpoints restore to exactly the checkpointed state.

Model: `OasisModel/Mkvs/Chunk.lean` over the proof model of C04 and the trie model:
  * `seqChunks`  = checkpoint/chunk.go:52-143 (sequential chunker) on top of an exact model of the tree
    iterator with a version 0 proof builder (iterator.go `Seek`/`Next`/`doNext`, builder size accounting);
  * `parChunks`  = chunk.go:145-247 + subtree.go (`subtree{path,pending}` with `visitNext`, `nextChunk`,
    `trim`, `split`, `splitTasks`, lock-step rounds, `filterFinished`);
  * `restoreChunkM` = chunk.go:249-341 (digest, decode, verify against the checkpoint root, import);
  * `Restorer` / `rsRestoreChunk` = restorer.go (pending set; a proof failure aborts the restore).
The database is modelled as the set of imported node hashes (`PutNode` is keyed by hash); the digest
over the compressed chunk bytes enters as the bit `digestOk` and, for completion, as the hypothesis
that matching digests mean matching entries (`HonestEvent`, collision resistance of the digest).

Tie to the Go code (proofdrv -focus c12): real `CreateCheckpoint` chunk files (both chunkers, threads
0..32, chunk sizes 0 B .. > tree) are decoded (snappy+CBOR) and compared byte for byte with
`seqChunks`/`parChunks`; the cover predicate `coverB` is evaluated on the model's and on the real
chunk lists; real restores into empty badger and pathbadger databases in shuffled order with
duplicates, corrupted chunks, aborts/restarts and concurrent callers must give the original contents;
chunk digests must not depend on GOMAXPROCS.

What is proved here and what is only checked:
  * proved for all trees/sizes/threads: every chunk of either chunker is a version 0 proof for the root
    and verifies (within the verifier's depth bound); a restore imports only nodes of the checkpointed
    tree whatever bytes arrive, in any order, with duplicates, aborts and restarts; a wrong digest or a
    wrong proof imports nothing; when the restorer reports completion every chunk has been imported,
    hence (with cover) the database holds exactly the tree's nodes;
  * proved: the parallel chunker terminates and every one of its chunks makes progress for every chunk
    size (weight argument; more fuel never changes the chunk list). For the sequential chunker this needs
    the iterator's ordering correctness and is validated by the correspondence only;
  * proved for the parallel chunker, for all trees, chunk sizes and thread counts: its chunks cover the tree
    (`par_chunks_cover`: obligations of a task = positions at and below its pending stack plus its path;
    `nextChunk` covers or keeps them, `trim` drops only covered ones, `split` hands every one to a child),
    hence `par_restore_exact`;
  * for the sequential (deprecated) chunker `coverB` stays a hypothesis of `restore_exact`: it is evaluated
    on every generated case (model and real chunks) but not proved for all trees — that needs the ordering
    correctness of the byte-level iterator (`Seek`/`Next`);
  * determinism of the chunk list is by construction in the model (a function of tree, chunk size,
    threads); that the Go chunkers compute this function under every goroutine schedule is checked
    by the byte-exact correspondence and by repetition under GOMAXPROCS 1..16.
-/
namespace OasisProofs.C12
open OasisModel.Mkvs OasisProofs.Mkvs OasisProofs.MkvsProof OasisProofs.MkvsChunk OasisProofs.MkvsIter

/-- **Every chunk is a proof** (sequential chunker): it is what `ProofBuilder.Build` emits for some
included node set, anchored at the root. -/
theorem seq_chunk_is_proof (eh : Bytes) (size : Nat) (root : HTrie) :
    ∀ c ∈ seqChunks eh size root, IsProofOf root c := seqChunks_isProof eh size root

/-- **Every chunk is a proof** (parallel chunker, any thread count). -/
theorem par_chunk_is_proof (eh : Bytes) (size threads : Nat) (root : HTrie) :
    ∀ c ∈ parChunks eh size threads root, IsProofOf root c := parChunks_isProof eh size threads root

/-- **Every chunk verifies against the root**, as `restoreChunk` verifies it — for every tree within
the verifier's depth bound (for deeper trees the chunks holding the deep part are rejected: known
finding F3, reproduced by the driver as `proof-depth-exceeded-checkpoint-chunk`). -/
theorem chunk_verifies_partial {H : Bytes → Bytes} (hlen : ∀ x, (H x).length = 32)
    (T : Trie) (hwf : WF T) (hb : ContentsBounded T.toList)
    (hd : (annotate H T).ptrDepth ≤ maxProofDepth) (size threads : Nat) (c : List (Option Bytes))
    (hc : c ∈ seqChunks (H []) size (annotate H T) ∨ c ∈ parChunks (H []) size threads (annotate H T)) :
    ∃ s, verifyProof H (hashWith H T) { v := 0, untrusted := hashWith H T, entries := c } = .ok s := by
  have hok := annotate_ok H (wfAt_bounded hwf hb)
  have hp : IsProofOf (annotate H T) c := by
    rcases hc with hc | hc
    · exact seqChunks_isProof _ _ _ c hc
    · exact parChunks_isProof _ _ _ _ c hc
  have := isProof_verifies hlen (annotate H T) hok hd c hp
  rw [annotate_hash] at this
  exact this

/-- **Every chunk of the parallel chunker makes progress**, whatever the chunk size (0 and 1 byte
included): `nextChunk` on a task that still has work strictly decreases the weight of its pending
stack (`trim` and `split` never increase it). -/
theorem par_chunk_progress (eh : Bytes) (size : Nat) (root : HTrie) (s : Subtree) (hp : s.pending ≠ []) :
    wStack (nextChunk eh size root s).2.pending < wStack s.pending :=
  nextChunkF_progress (parFuel root) eh size root s (by simp [parFuel]) hp

/-- **The parallel chunker terminates**: the loops of the model carry fuel `parFuel root`; giving the
rounds and the inner loops any amount of additional fuel yields the same chunk list, i.e. the loops
end because all work is done, for every tree, chunk size and thread count. -/
theorem par_chunking_terminates (eh : Bytes) (size threads : Nat) (root : HTrie) (k j : Nat) :
    parLoopF (parFuel root + j) eh size threads root (parFuel root + k) [newSubtree root] =
      parChunks eh size threads root := by
  have h := parFuel_enough root
  exact parLoopF_fuel_irrelevant eh size threads root _ _ _ _ _ (by omega) (by omega) (by omega) (by omega)

/-- **A restored chunk imports only true nodes**: whatever bytes pass the digest check and the proof
verification — honest, altered, from another checkpoint — everything written is a node of the
checkpointed tree. -/
theorem restore_chunk_sound {H : Bytes → Bytes} (hinj : Function.Injective H) (hlen : ∀ x, (H x).length = 32)
    (T : Trie) (hwf : WF T) (hb : ContentsBounded T.toList) (db db' : List Bytes) (c : ChunkData)
    (h : restoreChunkM H (hashWith H T) db c = .ok db') :
    ∀ x ∈ db', x ∈ db ∨ x ∈ T.nodeHashes H :=
  restoreChunk_sound hinj hlen T (wfAt_bounded hwf hb) db db' c h

/-- **A chunk with wrong bytes is rejected** (digest mismatch) … -/
theorem bad_digest_rejected (H : Bytes → Bytes) (root : Bytes) (db : List Bytes) (c : ChunkData)
    (h : c.digestOk = false) : restoreChunkM H root db c = .error .corrupted :=
  restoreChunk_bad_digest H root db c h

/-- … **a chunk with the right digest that is not a proof for the root is rejected** … -/
theorem bad_proof_rejected (H : Bytes → Bytes) (root : Bytes) (db : List Bytes) (es : List (Option Bytes))
    (e : VErr) (h : verifyProof H root { v := 0, untrusted := root, entries := es } = .error e) :
    restoreChunkM H root db { digestOk := true, entries := some es } = .error .proofFailed :=
  restoreChunk_bad_proof H root db es e h

/-- … **and nothing of a rejected chunk becomes visible**: a failed `RestoreChunk` leaves the database
exactly as it was. -/
theorem rejected_chunk_imports_nothing (H : Bytes → Bytes) (root : Bytes) (rs : Restorer) (idx : Nat) (c : ChunkData)
    (e : RErr) (h : (rsRestoreChunk H root rs idx c).1 = .error e) :
    (rsRestoreChunk H root rs idx c).2.db = rs.db :=
  rsRestoreChunk_error_db H root rs idx c e h

/-- **Any session is sound**: any sequence of `StartRestore` / `AbortRestore` / `RestoreChunk` calls, in
any order, with duplicates, retries and arbitrary (corrupted, fabricated) chunk bytes, into an empty
database: the database only ever contains nodes of the checkpointed tree. -/
theorem restore_session_sound {H : Bytes → Bytes} (hinj : Function.Injective H) (hlen : ∀ x, (H x).length = 32)
    (T : Trie) (hwf : WF T) (hb : ContentsBounded T.toList) (evs : List REvent) :
    ∀ x ∈ (rsRun H (hashWith H T) {} evs).db, x ∈ T.nodeHashes H :=
  rsRun_sound hinj hlen T (wfAt_bounded hwf hb) evs {} (by intro x hx; simp at hx)

theorem rinv_run {H : Bytes → Bytes} {root : Bytes} {cs : List (List (Option Bytes))} (evs : List REvent) :
    ∀ (rs : Restorer), RInv H root cs rs → (∀ e ∈ evs, HonestEvent cs e) → RInv H root cs (rsRun H root rs evs) := by
  induction evs with
  | nil => intro rs h _; exact h
  | cons e es ih =>
    intro rs h hev
    exact ih _ (rinv_step h e (hev e List.mem_cons_self)) (fun e' he' => hev e' (List.mem_cons_of_mem _ he'))

/-- **Restoring in any order yields exactly the checkpointed tree.** Let `cs` be a chunk list that
covers the tree (`coverB`, checked on every run for both chunkers). After any session of honest
events (the digest binds the bytes) — any order, duplicates, corrupted attempts, aborts and restarts —
in which `RestoreChunk` finally reports completion, the database holds exactly the node set of the
tree: nothing else (soundness) and every node (completion + cover). -/
theorem restore_exact {H : Bytes → Bytes} (hinj : Function.Injective H) (hlen : ∀ x, (H x).length = 32)
    (T : Trie) (hwf : WF T) (hb : ContentsBounded T.toList) (cs : List (List (Option Bytes)))
    (hcover : coverB H (hashWith H T) T cs = true)
    (evs : List REvent) (hev : ∀ e ∈ evs, HonestEvent cs e)
    (idx : Nat) (c : ChunkData) (hc : c.digestOk = true → c.entries = cs[idx]?)
    (hdone : (rsRestoreChunk H (hashWith H T) (rsRun H (hashWith H T) {} evs) idx c).1 = .ok true) :
    (∀ x ∈ (rsRestoreChunk H (hashWith H T) (rsRun H (hashWith H T) {} evs) idx c).2.db, x ∈ T.nodeHashes H) ∧
    (∀ x ∈ T.nodeHashes H, x ∈ (rsRestoreChunk H (hashWith H T) (rsRun H (hashWith H T) {} evs) idx c).2.db) := by
  constructor
  · have := restore_session_sound hinj hlen T hwf hb (evs ++ [.chunk idx c])
    simpa [rsRun, rsStep] using this
  · intro x hx
    have hinv0 : RInv H (hashWith H T) cs {} := by intro n hn; simp at hn
    have hinv := rinv_run evs {} hinv0 hev
    have himp := rs_done_imported hinv idx c hc hdone
    simp only [coverB, List.all_eq_true, List.contains_iff_mem, List.mem_flatMap] at hcover
    obtain ⟨ch, hch, hxc⟩ := hcover x hx
    obtain ⟨i, hi, hget⟩ := List.getElem_of_mem hch
    apply himp i hi x
    unfold imported
    rw [List.getElem?_eq_getElem hi, hget]
    exact hxc

/-- **The chunks of the parallel chunker cover the tree**: for every tree (within the verifier's depth
bound), every chunk size (0 and 1 byte included) and every thread count, each node of the tree is
materialised by some chunk — the node and all its ancestors are in that chunk's proof. -/
theorem par_chunks_cover {H : Bytes → Bytes} (hlen : ∀ x, (H x).length = 32)
    (T : Trie) (hwf : WF T) (hb : ContentsBounded T.toList)
    (hd : (annotate H T).ptrDepth ≤ maxProofDepth) (size threads : Nat) :
    coverB H (hashWith H T) T (parChunks (H []) size threads (annotate H T)) = true := by
  have hok := annotate_ok H (wfAt_bounded hwf hb)
  simp only [coverB, List.all_eq_true, List.contains_iff_mem, List.mem_flatMap]
  intro h hh
  rw [← annotate_erase H T] at hh
  obtain ⟨pos, hpos, hph⟩ := nodeHashes_positions (annotate H T) [] hok h hh
  obtain ⟨incl, hincl, hcov⟩ := par_positions_covered (H []) size threads (annotate H T) pos hpos
  refine ⟨buildFrom 0 incl (annotate H T), ?_, ?_⟩
  · simp only [parChunks, parLoop, parLoopF_eq_map, List.mem_map]
    exact ⟨incl, hincl, rfl⟩
  · have hv := verifyProof_build hlen 0 (by omega) incl (annotate H T) hok
    rw [annotate_hash] at hv
    unfold build at hv
    rw [if_pos (Nat.le_trans (proofDepth_le_ptrDepth _ _ _) hd)] at hv
    simp only [chunkNodes, annotate_hash] at hv ⊢
    rw [hv]
    exact covered_restrict incl (annotate H T) [] hok pos hpos hcov.1
      (fun a ha => hcov.2 a (by simpa using ha)) h hph

/-- **Checkpoints of the parallel chunker restore to exactly the checkpointed tree**: `restore_exact`
with the cover hypothesis discharged — any chunk size, any thread count, any restore session (order,
duplicates, corrupted attempts, aborts and restarts) that ends with the restorer reporting completion
leaves exactly the node set of the tree in the database. -/
theorem par_restore_exact {H : Bytes → Bytes} (hinj : Function.Injective H) (hlen : ∀ x, (H x).length = 32)
    (T : Trie) (hwf : WF T) (hb : ContentsBounded T.toList)
    (hd : (annotate H T).ptrDepth ≤ maxProofDepth) (size threads : Nat)
    (evs : List REvent) (hev : ∀ e ∈ evs, HonestEvent (parChunks (H []) size threads (annotate H T)) e)
    (idx : Nat) (c : ChunkData)
    (hc : c.digestOk = true → c.entries = (parChunks (H []) size threads (annotate H T))[idx]?)
    (hdone : (rsRestoreChunk H (hashWith H T) (rsRun H (hashWith H T) {} evs) idx c).1 = .ok true) :
    (∀ x ∈ (rsRestoreChunk H (hashWith H T) (rsRun H (hashWith H T) {} evs) idx c).2.db, x ∈ T.nodeHashes H) ∧
    (∀ x ∈ T.nodeHashes H, x ∈ (rsRestoreChunk H (hashWith H T) (rsRun H (hashWith H T) {} evs) idx c).2.db) :=
  restore_exact hinj hlen T hwf hb _ (par_chunks_cover hlen T hwf hb hd size threads) evs hev idx c hc hdone

/-- **The sequential chunker terminates**: its loops (fill one chunk; chunk after chunk) carry fuel
`seqFuel root` = number of keys + 1; with any amount of additional fuel the chunk list is the same, for
every chunk size (0 and 1 byte included). Rests on the ordering correctness of the iterator machine
(`iterate`/`nextLoop` = successor in the ordered contents, OasisProofs/Helpers/MkvsIterMachine.lean) through
the structural bridge to the iterator with proof builder. -/
theorem seq_chunking_terminates {H : Bytes → Bytes} (T : Trie) (hwf : WF T) (size j k : Nat) :
    seqChunksF (seqFuel (annotate H T) + j) (seqFuel (annotate H T) + k) size (annotate H T) =
      seqChunks (H []) size (annotate H T) :=
  seqChunksF_fuel (H []) size (annotate H T) (by rw [annotate_erase]; exact hwf) j k

/-- **The chunks of the sequential chunker cover the tree**: every node is materialised by some chunk
(the iterator visits every key, chunk after chunk, and every node it dereferences on the way — in
particular the whole path to a found key — is in that chunk's proof). -/
theorem seq_chunks_cover {H : Bytes → Bytes} (hlen : ∀ x, (H x).length = 32)
    (T : Trie) (hwf : WF T) (hb : ContentsBounded T.toList)
    (hd : (annotate H T).ptrDepth ≤ maxProofDepth) (size : Nat) :
    coverB H (hashWith H T) T (seqChunks (H []) size (annotate H T)) = true := by
  have hok := annotate_ok H (wfAt_bounded hwf hb)
  have hwf' : WF (annotate H T).erase := by rw [annotate_erase]; exact hwf
  simp only [coverB, List.all_eq_true, List.contains_iff_mem, List.mem_flatMap]
  intro h hh
  rw [← annotate_erase H T] at hh
  obtain ⟨pos, hpos, hph⟩ := nodeHashes_positions (annotate H T) [] hok h hh
  obtain ⟨incl, hincl, hcov⟩ := seq_positions_covered size (annotate H T) hwf'
    (by rw [seqFuel, count_eq_length]; omega) pos hpos
  refine ⟨buildFrom 0 incl (annotate H T), ?_, ?_⟩
  · simp only [seqChunks, seqLoop_eq_map, List.mem_map]
    exact ⟨incl, hincl, rfl⟩
  · have hv := verifyProof_build hlen 0 (by omega) incl (annotate H T) hok
    rw [annotate_hash] at hv
    unfold build at hv
    rw [if_pos (Nat.le_trans (proofDepth_le_ptrDepth _ _ _) hd)] at hv
    simp only [chunkNodes, annotate_hash] at hv ⊢
    rw [hv]
    exact covered_restrict incl (annotate H T) [] hok pos hpos hcov.1
      (fun a ha => hcov.2 a (by simpa using ha)) h hph

/-- **Checkpoints of the sequential chunker restore to exactly the checkpointed tree** (as
`par_restore_exact`, for `chunkerThreads = 0`). -/
theorem seq_restore_exact {H : Bytes → Bytes} (hinj : Function.Injective H) (hlen : ∀ x, (H x).length = 32)
    (T : Trie) (hwf : WF T) (hb : ContentsBounded T.toList)
    (hd : (annotate H T).ptrDepth ≤ maxProofDepth) (size : Nat)
    (evs : List REvent) (hev : ∀ e ∈ evs, HonestEvent (seqChunks (H []) size (annotate H T)) e)
    (idx : Nat) (c : ChunkData)
    (hc : c.digestOk = true → c.entries = (seqChunks (H []) size (annotate H T))[idx]?)
    (hdone : (rsRestoreChunk H (hashWith H T) (rsRun H (hashWith H T) {} evs) idx c).1 = .ok true) :
    (∀ x ∈ (rsRestoreChunk H (hashWith H T) (rsRun H (hashWith H T) {} evs) idx c).2.db, x ∈ T.nodeHashes H) ∧
    (∀ x ∈ T.nodeHashes H, x ∈ (rsRestoreChunk H (hashWith H T) (rsRun H (hashWith H T) {} evs) idx c).2.db) :=
  restore_exact hinj hlen T hwf hb _ (seq_chunks_cover hlen T hwf hb hd size) evs hev idx c hc hdone

/-! ### The restorer under concurrent callers -/

/-- `RestoreChunk` is phase 1 (pending check under the lock; the call remembers the restore it saw)
followed by the import and phase 2 (under the lock: `ErrNoRestoreInProgress` if that restore is no longer
the one in progress, else bookkeeping): the sequential machine used above is their composition. -/
theorem restorer_two_phase (H : Bytes → Bytes) (root : Bytes) (rs : Restorer) (idx : Nat) (c : ChunkData) :
    rsRestoreChunk H root rs idx c =
      (match rsBegin rs idx with
       | .error e => (.error e, rs)
       | .ok seen => rsFinish H root rs idx seen c) :=
  rsRestoreChunk_two_phase H root rs idx c

/-- **Concurrent sessions are sound**: for every interleaving of `StartRestore`, `AbortRestore` and the
two phases of any number of concurrent `RestoreChunk` calls, with arbitrary chunk bytes, the database
only ever contains nodes of the checkpointed tree. -/
theorem concurrent_session_sound {H : Bytes → Bytes} (hinj : Function.Injective H) (hlen : ∀ x, (H x).length = 32)
    (T : Trie) (hwf : WF T) (hb : ContentsBounded T.toList) (evs : List CEvent) :
    ∀ x ∈ (cRun H (hashWith H T) {} evs).rs.db, x ∈ T.nodeHashes H :=
  cRun_sound hinj hlen T (wfAt_bounded hwf hb) evs {} (by intro x hx; simp at hx)

/-- **Completion under concurrency** (the rule of commit 3c2e444): for EVERY interleaving of starts,
aborts — explicit, or performed by `RestoreChunk` itself on a proof failure — and the two phases of any
number of concurrent callers (honest chunk bytes), whenever a `RestoreChunk` call reports completion,
every chunk of the checkpoint has been imported. -/
theorem concurrent_done_all_imported {H : Bytes → Bytes} {root : Bytes} (cs : List (List (Option Bytes)))
    (evs : List CEvent) (hh : ∀ e ∈ evs, HonestCEvent cs e) (ev : CEvent) (hev : HonestCEvent cs ev)
    (hdone : (cStep H root (cRun H root {} evs) ev).2 = some (.ok true)) :
    ∀ i, i < cs.length → ∀ x ∈ imported H root cs i, x ∈ (cStep H root (cRun H root {} evs) ev).1.rs.db :=
  conc_done_all_in cs evs {} (fun n hn => by simp at hn) hh ev hev hdone

/-- **Completion iff all indices imported**, also between the phases of concurrent callers: a second
phase that succeeds saw the restore that is still in progress, and reports completion exactly when its
index was the last pending one. -/
theorem concurrent_done_iff (H : Bytes → Bytes) (root : Bytes) (rs : Restorer) (idx seen : Nat) (c : ChunkData) (b : Bool)
    (h : (rsFinish H root rs idx seen c).1 = .ok b) :
    rs.current.isSome ∧ rs.gen = seen ∧ (b = true ↔ ∀ i ∈ rs.pending, i = idx) :=
  rsFinish_done_iff H root rs idx seen c b h

/-- **Each chunk index is imported at most once per session** (linearised calls): after a successful
`RestoreChunk(idx)`, every later `RestoreChunk(idx)` before the next `StartRestore` is refused
(`ErrChunkAlreadyRestored`, or `ErrNoRestoreInProgress` after completion/abort) and imports nothing.
(Two callers that are both between the phases for the same index both import it; the import is
idempotent — the database is a set of nodes — and only one of them can report completion.) -/
theorem restore_at_most_once (H : Bytes → Bytes) (root : Bytes) (rs : Restorer) (idx : Nat) (c : ChunkData) (b : Bool)
    (h : (rsRestoreChunk H root rs idx c).1 = .ok b) (evs : List REvent) (hns : ∀ e ∈ evs, ∀ n, e ≠ .start n)
    (c' : ChunkData) :
    let rs' := rsRun H root (rsRestoreChunk H root rs idx c).2 evs
    ((rsRestoreChunk H root rs' idx c').1 = .error .alreadyRestored ∨
     (rsRestoreChunk H root rs' idx c').1 = .error .noRestore) ∧
    (rsRestoreChunk H root rs' idx c').2.db = rs'.db :=
  rs_at_most_once H root rs idx c b h evs hns c'

/-- Completion exactly at the last pending index (linearised calls). -/
theorem restore_done_iff (H : Bytes → Bytes) (root : Bytes) (rs : Restorer) (idx : Nat) (c : ChunkData) (b : Bool)
    (h : (rsRestoreChunk H root rs idx c).1 = .ok b) : b = true ↔ ∀ i ∈ rs.pending, i = idx :=
  rs_done_iff H root rs idx c b h

/-! ### Historical: the rule before commit 3c2e444 -/

/-- Phase 2 as it was before the repair: it did not look at the restore in progress. -/
def rsFinishOld (H : Bytes → Bytes) (root : Bytes) (rs : Restorer) (idx : Nat) (c : ChunkData) :
    Except RErr Bool × Restorer :=
  match restoreChunkM H root rs.db c with
  | .error .proofFailed => (.error .proofFailed, rsAbort rs)
  | .error e => (.error e, rs)
  | .ok db =>
    let pending := rs.pending.filter (· ≠ idx)
    if pending.isEmpty then (.ok true, { rs with current := none, pending := [], db := db })
    else (.ok false, { rs with pending := pending, db := db })

/-! ### Non-vacuity -/

def toyHash (x : Bytes) : Bytes :=
  let n := x.foldl (fun acc b => (acc * 257 + b.toNat + 1) % (2 ^ 255 - 19)) 7
  (List.range 32).map (fun i => UInt8.ofNat (n / 256 ^ i % 256))

def smallTree : Trie := ((Trie.nil.insert [0x61] [1]).insert [0x62] [2]).insert [0x61, 0x62] [3]

/-- Both chunkers split the small tree into several chunks that cover it (chunk size 1 byte). -/
example : (seqChunks (toyHash []) 1 (annotate toyHash smallTree)).length = 3 ∧
    coverB toyHash (hashWith toyHash smallTree) smallTree (seqChunks (toyHash []) 1 (annotate toyHash smallTree)) = true ∧
    (parChunks (toyHash []) 1 2 (annotate toyHash smallTree)).length = 3 ∧
    coverB toyHash (hashWith toyHash smallTree) smallTree (parChunks (toyHash []) 1 2 (annotate toyHash smallTree)) = true := by
  decide +kernel

def isDone' : Option (Except RErr Bool) → Bool
  | some (.ok true) => true
  | _ => false

def isDone : Except RErr Bool → Bool
  | .ok true => true
  | _ => false

/-- A session with a duplicate, out of order, completes on the last missing chunk. -/
example :
    let cs := seqChunks (toyHash []) 1 (annotate toyHash smallTree)
    let root := hashWith toyHash smallTree
    let ev (i : Nat) : REvent := .chunk i { digestOk := true, entries := cs[i]? }
    let rs := rsRun toyHash root {} [.start 3, ev 2, ev 0, ev 2]
    isDone (rsRestoreChunk toyHash root rs 1 { digestOk := true, entries := cs[1]? }).1 = true := by
  decide +kernel

/-- **Historical witness (rule before commit 3c2e444): completion reported after a concurrent abort.**
Three chunks; caller A passes phase 1 for chunk 0; the restore is aborted (as `RestoreChunk` does when
caller B's chunk fails verification); with the old phase 2 A's call then reports `done = true` although
chunks 1 and 2 were never imported. With the repaired phase 2 the same call is refused. -/
theorem done_after_concurrent_abort_witness :
    let cs := seqChunks (toyHash []) 1 (annotate toyHash smallTree)
    let root := hashWith toyHash smallTree
    let s := cRun toyHash root {} [.start 3, .begin 0, .abort]
    isDone (rsFinishOld toyHash root s.rs 0 { digestOk := true, entries := cs[0]? }).1 = true ∧
    coverB toyHash root smallTree [cs[0]!] = false ∧
    s.inflight = [(0, 1)] ∧
    isDone' (cStep toyHash root s (.finish 0 1 { digestOk := true, entries := cs[0]? })).2 = false := by
  decide +kernel

end OasisProofs.C12
