import OasisModel.Tee.PolicyFlow
import OasisProofs.Helpers.TeePolicyFlow
/-
C16, "never crash" clause — the decision glue between a runtime deployment's TEE constraints blob and quote
verification (`CapabilityTEE.Verify`, node.go:577-603; model `OasisModel.Tee.PolicyFlow`).

Both inputs are untrusted: the constraints blob is written by the runtime's owner, the attestation by the node
that registers.  The path has many optional pointers: the features (`teeCfg`, may be nil), the constraints'
`Policy`, its `IAS` / `PCS` sub-policies, the PCS policy's `TDX`, the consensus `DefaultPolicy` and its
sub-policies, and the quote's two kinds.  A version-1 constraints blob may omit the policy (`a1 61 76 01`), and
`ApplyDefaultConstraints` allocates one ONLY when the consensus parameters carry a default policy.

Quantification of (b): every oracle `env` (the outcome of every data-dependent test), hardware kind, features
absent or present with any flags and any default policy (absent, or present with any sub-policies), attestation
undecodable or decoded with any version and any quote kind (ias | pcs | both | none), constraints blob of
version 0, version 1 with the policy absent or present with any sub-policies, another version, or malformed.

No hypotheses other than the ones written in the statements.
-/
namespace OasisProofs.C16PolicyFlow
open OasisModel.Tee.PolicyFlow OasisProofs.Tee.PolicyFlow

/-! ### (c) where nil is tolerated, and why -/

/-- IAS, nil sub-policy: `policy != nil &&` (avr.go:249) skips `policy.Disabled`, `quoteStatusAllowed` returns
before reading the list (324-326), and `Open` returns before the policy-dependent checks (263-265). -/
theorem ias_nil_policy_ok (env : Env) : NoNil (iasOpen env none) := by
  simp [iasOpen, iasQuoteStatusAllowed]
  res_ifs

/-- With a nil IAS sub-policy only the always-allowed statuses pass (avr.go:320-326): nil is STRICTER than an
empty policy object, not a bypass. -/
theorem ias_nil_policy_accepts_iff (env : Env) :
    iasOpen env none = .ok () ↔ env.avrDecodes = true ∧ env.statusAlwaysAllowed = true := by
  simp [iasOpen, iasQuoteStatusAllowed]
  cases env.avrDecodes <;> cases env.statusAlwaysAllowed <;> simp

/-- IAS, present sub-policy: every field read goes through a non-nil pointer. -/
theorem ias_present_policy_ok (env : Env) : NoNil (iasOpen env (some ())) := by
  simp [iasOpen, iasQuoteStatusAllowed]
  res_ifs

theorem iasOpen_noNil (env : Env) (p : Option Unit) : NoNil (iasOpen env p) := by
  cases p with
  | none => exact ias_nil_policy_ok env
  | some u => cases u; exact ias_present_policy_ok env

/-- PCS, nil sub-policy: `pcs.Quote.Verify` substitutes a default policy (pcs/quote.go:143-150) before the first
read `policy.Disabled` (152); the default has `TDX == nil`, which 186-188 turn into an error. -/
theorem pcs_defaults_nil_policy (env : Env) : NoNil (pcsVerify env none) := by
  simp [pcsVerify, pcsVerifyWith]
  res_ifs

/-- The PCS default is what carries that case: without pcs/quote.go:143-150 the first field read panics. -/
theorem pcs_without_default_derefs_nil (env : Env) (h : env.pcsQuoteParses = true) :
    pcsVerifyWith false env none = .nilDeref .pcsDisabled := by
  simp [pcsVerifyWith, h]

/-- PCS, present sub-policy, `TDX` nil or not: `policy.TDX.Verify` (189) is reached only past the nil check
(186-188). -/
theorem pcs_present_policy_ok (env : Env) (pp : PcsPolicy) : NoNil (pcsVerify env (some pp)) := by
  rcases pp with ⟨_ | _⟩ <;> simp [pcsVerify, pcsVerifyWith] <;> res_ifs

/-- A TDX quote against a PCS policy without a TDX part (nil sub-policy included) is an error, never a panic
(pcs/quote.go:186-188). -/
theorem pcs_tdx_nil_rejected (env : Env) (p : Option PcsPolicy) (hp : ∀ pp, p = some pp → pp.tdx = none)
    (htee : env.tee = .tdx) : ∃ e, pcsVerify env p = .err e := by
  rcases p with _ | ⟨_ | u⟩
  · simp [pcsVerify, pcsVerifyWith, htee]
    cases env.pcsQuoteParses <;> cases env.reportOk <;> simp
  · simp [pcsVerify, pcsVerifyWith, htee]
    cases env.pcsQuoteParses <;> cases env.reportOk <;> cases env.pcsDisabled <;> simp
  · exact absurd (hp _ rfl) (by simp)

theorem pcsVerify_noNil (env : Env) (p : Option PcsPolicy) : NoNil (pcsVerify env p) := by
  cases p with
  | none => exact pcs_defaults_nil_policy env
  | some pp => exact pcs_present_policy_ok env pp

/-- `Quote.Verify` with a nil policy behaves exactly as with the empty policy object: this is quote.go:29-31. -/
theorem quoteVerify_nil_eq_empty (env : Env) (q : QuoteKind) :
    quoteVerify env q none = quoteVerify env q (some { ias := none, pcs := none }) := by
  simp [quoteVerify, quoteVerifyWith]

/-- `Quote.Verify` with a present policy: `policy.IAS` / `policy.PCS` (36, 56) read through a non-nil pointer;
the callees tolerate nil sub-policies (`iasOpen_noNil`, `pcsVerify_noNil`). -/
theorem quoteVerify_present_policy_ok (env : Env) (q : QuoteKind) (pol : Policy) :
    NoNil (quoteVerify env q (some pol)) := by
  have hi := iasOpen_noNil env pol.ias
  have hp := pcsVerify_noNil env pol.pcs
  unfold quoteVerify quoteVerifyWith
  by_cases h1 : exactlyOne q = true
  · by_cases h2 : q.hasIas = true
    · simp [h1, h2]
      exact noNil_bind_of hi (fun _ _ => by res_ifs)
    · by_cases h3 : q.hasPcs = true
      · simp [h1, h2, h3]; exact hp
      · simp [h1, h2, h3]
  · simp [h1]

/-- `Quote.Verify` with a nil policy: the guard quote.go:29-31 carries this case. -/
theorem quoteVerify_defaults_nil_policy (env : Env) (q : QuoteKind) : NoNil (quoteVerify env q none) := by
  rw [quoteVerify_nil_eq_empty]
  exact quoteVerify_present_policy_ok env q _

theorem quoteVerify_noNil (env : Env) (q : QuoteKind) (p : Option Policy) : NoNil (quoteVerify env q p) := by
  cases p with
  | none => exact quoteVerify_defaults_nil_policy env q
  | some pol => exact quoteVerify_present_policy_ok env q pol

/-- Quotes with both kinds or none are rejected before any policy is looked at (quote.go:22-27). -/
theorem quoteVerify_both_or_none_rejected (defaulting : Bool) (env : Env) (q : QuoteKind) (p : Option Policy)
    (hq : q = .both ∨ q = .none) : quoteVerifyWith defaulting env q p = .err .notExactlyOneQuote := by
  rcases hq with rfl | rfl <;> simp [quoteVerifyWith, exactlyOne, QuoteKind.hasIas, QuoteKind.hasPcs]

/-- `ApplyDefaultConstraints`: `fs.DefaultPolicy.IAS` (tee.go:43, 46) is under `if fs.DefaultPolicy != nil` (38),
`sc.Policy.IAS` (42) comes after the allocation of a nil `sc.Policy` (39-41). -/
theorem applyDefaults_noNil (fs : Features) (sc : Constraints) : NoNil (applyDefaults fs sc) := by
  rcases fs with ⟨pcs, tdx, sgn, _ | d⟩ <;> rcases sc with ⟨v, _ | p⟩ <;> simp [applyDefaults]

/-- Without a consensus default policy nothing is allocated: a nil `sc.Policy` STAYS nil and reaches
`Quote.Verify` (sgx.go:235).  This is why quote.go:29-31 is needed. -/
theorem applyDefaults_no_default_id (fs : Features) (sc : Constraints) (h : fs.defaultPolicy = none) :
    applyDefaults fs sc = .ok sc := by
  simp [applyDefaults, h]

/-- With a consensus default policy the constraints always leave with a policy. -/
theorem applyDefaults_with_default_present (fs : Features) (sc : Constraints) (h : fs.defaultPolicy.isSome = true) :
    ∃ p, applyDefaults fs sc = .ok { sc with policy := some p } := by
  rcases fs with ⟨pcs, tdx, sgn, _ | d⟩
  · simp at h
  · rcases sc with ⟨v, _ | p⟩ <;> simp [applyDefaults]

/-- A present policy stays present. -/
theorem applyDefaults_keeps_present (fs : Features) (sc : Constraints) (h : sc.policy.isSome = true) :
    ∃ p, applyDefaults fs sc = .ok { sc with policy := some p } := by
  rcases sc with ⟨v, _ | p⟩
  · simp at h
  · rcases fs with ⟨pcs, tdx, sgn, _ | d⟩ <;> simp [applyDefaults]

/-- Exactly when the policy handed to `Quote.Verify` is non-nil. -/
theorem effectivePolicy_present_iff (cfg : Option Features) (sc : Constraints) :
    (∃ p, effectivePolicy cfg sc = .ok (some p)) ↔
      (sc.policy.isSome = true ∨ (cfg.getD emptyFeatures).defaultPolicy.isSome = true) := by
  constructor
  · rintro ⟨p, h⟩
    by_cases hd : (cfg.getD emptyFeatures).defaultPolicy.isSome = true
    · exact Or.inr hd
    · left
      have hd' : (cfg.getD emptyFeatures).defaultPolicy = none := by
        cases hx : (cfg.getD emptyFeatures).defaultPolicy <;> simp [hx] at hd ⊢
      simp [effectivePolicy, applyDefaults_no_default_id _ sc hd'] at h
      simp [h]
  · rintro (h | h)
    · obtain ⟨p, hp⟩ := applyDefaults_keeps_present (cfg.getD emptyFeatures) sc h
      exact ⟨p, by simp [effectivePolicy, hp]⟩
    · obtain ⟨p, hp⟩ := applyDefaults_with_default_present (cfg.getD emptyFeatures) sc h
      exact ⟨p, by simp [effectivePolicy, hp]⟩

/-- `Policy.Validate` on a non-nil receiver: `p.PCS.FMSPCWhitelist` (quote.go:78) is past `p.PCS == nil` (74). -/
theorem policyValidate_present_ok (env : Env) (pol : Policy) : NoNil (policyValidate env (some pol)) := by
  rcases pol with ⟨i, _ | pp⟩ <;> simp [policyValidate] <;> res_ifs

/-- The receiver matters: `Validate` on a nil policy panics unless the feature flag returns first (quote.go:70-74);
sgx.go:114-116 is the guard that keeps it away. -/
theorem policyValidate_nil_derefs (env : Env) (h : env.feature261 = false) :
    policyValidate env none = .nilDeref .validateRecv := by
  simp [policyValidate, h]

/-- `SGXConstraints.ValidateBasic`: nil `cfg` is replaced (sgx.go:101-103); a nil policy returns at 114-116, before
`sc.Policy.PCS` (119) and `sc.Policy.Validate` (124); `sc.Policy.PCS.TDX` is behind `sc.Policy.PCS != nil &&`. -/
theorem constraintsValidateBasic_noNil (env : Env) (cfg : Option Features) (sc : Constraints) :
    NoNil (constraintsValidateBasic env cfg sc) := by
  rcases sc with ⟨v, _ | pol⟩
  · simp [constraintsValidateBasic]; res_ifs
  · have hv := policyValidate_present_ok env pol
    rcases pol with ⟨i, _ | ⟨_ | _⟩⟩ <;> simp [constraintsValidateBasic] <;> res_ifs <;> exact hv

/-- A nil `teeCfg` means no PCS feature: version-1 constraints are rejected (sgx.go:101-108), so the policy-less
version-1 blob needs PCS-enabled consensus parameters to get further. -/
theorem validateBasic_nil_cfg_rejects_v1 (env : Env) (p : Option Policy) :
    constraintsValidateBasic env none { v := 1, policy := p } = .err .scVersionUnsupported := by
  simp [constraintsValidateBasic, emptyFeatures]

theorem attestationValidateBasic_noNil (cfg : Option Features) (sa : Attestation) :
    NoNil (attestationValidateBasic cfg sa) := by
  simp [attestationValidateBasic]; res_ifs

theorem decodeConstraints_noNil (raw : RawConstraints) : NoNil (decodeConstraints raw) := by
  cases raw <;> simp [decodeConstraints]

/-- Version-0 constraints ALWAYS carry a (synthesised) policy with an IAS part (sgx.go:66-70); for version 1 the
policy is whatever the blob has. -/
theorem decode_v0_policy_present :
    decodeConstraints .v0 = .ok { v := 0, policy := some { ias := some (), pcs := none } } := rfl

theorem decode_policy_absent_iff (raw : RawConstraints) (sc : Constraints) (h : decodeConstraints raw = .ok sc) :
    sc.policy = none ↔ raw = .v1 none := by
  cases raw with
  | v0 => simp [decodeConstraints] at h; subst h; simp
  | v1 p => simp [decodeConstraints] at h; subst h; simp
  | other v => simp [decodeConstraints] at h
  | malformed => simp [decodeConstraints] at h

/-- `SGXAttestation.Verify` (sgx.go:218-263): nil `cfg` replaced (227-229), then defaults, then the quote. -/
theorem attestationVerify_noNil (env : Env) (cfg : Option Features) (sa : Attestation) (sc : Constraints) :
    NoNil (attestationVerifyWith true env cfg sa sc) := by
  unfold attestationVerifyWith
  simp only [bind_eq]
  refine noNil_bind_of (applyDefaults_noNil _ sc) (fun sc' _ => ?_)
  refine noNil_bind_of (quoteVerify_noNil env sa.quote sc'.policy) (fun _ _ => ?_)
  res_ifs

/-! ### (b) the composed function never dereferences nil -/

/-- For ALL combinations of constraints version, policy and sub-policies present or not, consensus parameters
present or not with or without a default policy with any sub-policies, any attestation and quote kind, and any
outcome of the data-dependent checks: `CapabilityTEE.Verify` returns nil or an error; it never dereferences a
nil pointer.  The cases are carried by: sgx.go:101/201/227 (nil cfg), sgx.go:114 (nil policy in ValidateBasic),
sgx.go:119 `!= nil &&`, quote.go:74 (Validate), tee.go:38-41 (defaults), quote.go:29-31 (nil policy in
Quote.Verify), avr.go:249/263/324 (nil IAS policy), pcs/quote.go:143/186 (nil PCS policy, nil TDX policy). -/
theorem verify_never_derefs_nil (env : Env) (hw : Hardware) (cfg : Option Features)
    (sa : Option Attestation) (raw : RawConstraints) (s : Site) :
    capabilityVerify env hw cfg sa raw ≠ .nilDeref s := by
  suffices h : NoNil (capabilityVerify env hw cfg sa raw) from h s
  unfold capabilityVerify capabilityVerifyWith
  cases hw with
  | other => simp
  | intelSGX =>
    cases sa with
    | none => simp
    | some sa =>
      simp only [bind_eq]
      refine noNil_bind_of (attestationValidateBasic_noNil cfg sa) (fun _ _ => ?_)
      refine noNil_bind_of (decodeConstraints_noNil raw) (fun sc _ => ?_)
      refine noNil_bind_of (constraintsValidateBasic_noNil env cfg sc) (fun _ _ => ?_)
      exact attestationVerify_noNil env cfg sa sc

/-- The same as a boolean. -/
theorem verify_never_derefs_nil_bool (env : Env) (hw : Hardware) (cfg : Option Features)
    (sa : Option Attestation) (raw : RawConstraints) :
    (capabilityVerify env hw cfg sa raw).isNilDeref = false :=
  (noNil_iff_isNilDeref _).1 (fun s => verify_never_derefs_nil env hw cfg sa raw s)

/-! ### (d) the seeded variant: `Quote.Verify` without the `policy == nil` default -/

/-- All data-dependent checks pass; SGX report. -/
def envOk : Env :=
  { feature261 := true, fmspcWhitelistEmpty := true, iasDisabled := false, avrDecodes := true,
    statusAlwaysAllowed := true, statusListed := false, tcbNumOk := true, avrQuoteOk := true,
    gidBlacklisted := false, pcsQuoteParses := true, pcsDisabled := false, tee := .sgx, reportOk := true,
    tdxModuleOk := true, pcsSignatureOk := true, bindingOk := true }

/-- PCS-enabled consensus parameters WITHOUT a default policy. -/
def fsPcsNoDefault : Features :=
  { pcs := true, tdx := false, signedAttestations := true, defaultPolicy := none }

/-- PCS-enabled consensus parameters WITH an (empty) default policy. -/
def fsPcsDefault : Features :=
  { pcs := true, tdx := false, signedAttestations := true, defaultPolicy := some { ias := none, pcs := none } }

/-- Machine-checked witness: version-1 constraints without a policy (`a1 61 76 01`), no consensus default
policy, an IAS or a PCS quote: the variant panics at `policy.IAS` / `policy.PCS`. -/
theorem removed_default_derefs_nil :
    capabilityVerifyNoDefault envOk .intelSGX (some fsPcsNoDefault) (some ⟨1, .ias⟩) (.v1 none)
      = .nilDeref .qvPolicyIas ∧
    capabilityVerifyNoDefault envOk .intelSGX (some fsPcsNoDefault) (some ⟨1, .pcs⟩) (.v1 none)
      = .nilDeref .qvPolicyPcs ∧
    capabilityVerifyNoDefault envOk .intelSGX (some fsPcsNoDefault) (some ⟨0, .ias⟩) (.v1 none)
      = .nilDeref .qvPolicyIas := by
  decide

/-- The same for EVERY outcome of the data-dependent checks, every PCS-enabled parameter set without a default
policy and either attestation version: any single quote kind panics (nothing data-dependent is reached before
the dereference). -/
theorem removed_default_derefs_nil_all (env : Env) (fs : Features) (hpcs : fs.pcs = true)
    (hd : fs.defaultPolicy = none) (v : Nat) (hv : v ≤ 1) (q : QuoteKind) (hq : q = .ias ∨ q = .pcs) :
    ∃ s, capabilityVerifyNoDefault env .intelSGX (some fs) (some ⟨v, q⟩) (.v1 none) = .nilDeref s := by
  have hv' : ¬ (v > 1) := by omega
  rcases hq with rfl | rfl
  · refine ⟨.qvPolicyIas, ?_⟩
    simp [capabilityVerifyNoDefault, capabilityVerifyWith, attestationValidateBasic, hpcs, hv',
      decodeConstraints, constraintsValidateBasic, attestationVerifyWith, applyDefaults, hd,
      quoteVerifyWith, exactlyOne, QuoteKind.hasIas, QuoteKind.hasPcs]
  · refine ⟨.qvPolicyPcs, ?_⟩
    simp [capabilityVerifyNoDefault, capabilityVerifyWith, attestationValidateBasic, hpcs, hv',
      decodeConstraints, constraintsValidateBasic, attestationVerifyWith, applyDefaults, hd,
      quoteVerifyWith, exactlyOne, QuoteKind.hasIas, QuoteKind.hasPcs]

/-- … where the real function accepts (IAS: only the always-allowed statuses; PCS: the built-in default policy). -/
theorem real_accepts_where_variant_panics :
    capabilityVerify envOk .intelSGX (some fsPcsNoDefault) (some ⟨1, .ias⟩) (.v1 none) = .ok () ∧
    capabilityVerify envOk .intelSGX (some fsPcsNoDefault) (some ⟨1, .pcs⟩) (.v1 none) = .ok () := by
  decide

/-- The variant equals the real function whenever the policy it is given is present. -/
theorem variant_same_when_policy_present (env : Env) (q : QuoteKind) (p : Policy) :
    quoteVerifyNoDefault env q (some p) = quoteVerify env q (some p) := by
  simp [quoteVerifyNoDefault, quoteVerify, quoteVerifyWith]

/-- … hence `SGXAttestation.Verify` is the same whenever the effective policy (after the defaults) is present. -/
theorem variant_same_when_effective_policy_present (env : Env) (cfg : Option Features) (sa : Attestation)
    (sc : Constraints) (p : Policy) (h : effectivePolicy cfg sc = .ok (some p)) :
    attestationVerifyWith false env cfg sa sc = attestationVerifyWith true env cfg sa sc := by
  unfold effectivePolicy at h
  unfold attestationVerifyWith
  cases happ : applyDefaults (cfg.getD emptyFeatures) sc with
  | ok sc' =>
    simp [happ] at h
    have := variant_same_when_policy_present env sa.quote p
    simp [quoteVerifyNoDefault, quoteVerify] at this
    simp [happ, h, this]
  | err e => simp [happ]
  | nilDeref s => simp [happ]

/-- The composed functions differ at most on: version-1 blob WITHOUT a policy and NO consensus default policy. -/
theorem variant_same_unless_v1_no_policy_no_default (env : Env) (hw : Hardware) (cfg : Option Features)
    (sa : Option Attestation) (raw : RawConstraints)
    (h : raw ≠ .v1 none ∨ (cfg.getD emptyFeatures).defaultPolicy.isSome = true) :
    capabilityVerifyNoDefault env hw cfg sa raw = capabilityVerify env hw cfg sa raw := by
  unfold capabilityVerifyNoDefault capabilityVerify capabilityVerifyWith
  cases hw with
  | other => rfl
  | intelSGX =>
    cases sa with
    | none => rfl
    | some sa =>
      simp only [bind_eq]
      congr 1; funext _
      cases hdec : decodeConstraints raw with
      | err e => rfl
      | nilDeref s => rfl
      | ok sc =>
        simp only [ok_bind]
        congr 1; funext _
        have hpres : sc.policy.isSome = true ∨ (cfg.getD emptyFeatures).defaultPolicy.isSome = true := by
          rcases h with h | h
          · left
            have := decode_policy_absent_iff raw sc hdec
            cases hp : sc.policy with
            | none => exact absurd (this.1 hp) h
            | some p => rfl
          · exact Or.inr h
        obtain ⟨p, hp⟩ := (effectivePolicy_present_iff cfg sc).2 hpres
        exact variant_same_when_effective_policy_present env cfg sa sc p hp

/-- Version-0 constraints always get a synthesised policy (sgx.go:66-70): they cannot tell the variant apart. -/
theorem variant_same_v0 (env : Env) (hw : Hardware) (cfg : Option Features) (sa : Option Attestation) :
    capabilityVerifyNoDefault env hw cfg sa .v0 = capabilityVerify env hw cfg sa .v0 :=
  variant_same_unless_v1_no_policy_no_default env hw cfg sa .v0 (Or.inl (by simp))

/-- Neither can any configuration with a consensus default policy (tee.go:38-41 allocates the policy). -/
theorem variant_same_with_consensus_default (env : Env) (hw : Hardware) (fs : Features)
    (sa : Option Attestation) (raw : RawConstraints) (h : fs.defaultPolicy.isSome = true) :
    capabilityVerifyNoDefault env hw (some fs) sa raw = capabilityVerify env hw (some fs) sa raw :=
  variant_same_unless_v1_no_policy_no_default env hw (some fs) sa raw (Or.inr (by simpa using h))

/-- So the variant's panic needs exactly the input class the driver target `sgx-constraints-verify` adds:
a version-1 blob without a policy under parameters without a default policy. -/
theorem variant_nilDeref_only_v1_no_policy_no_default (env : Env) (hw : Hardware) (cfg : Option Features)
    (sa : Option Attestation) (raw : RawConstraints) (s : Site)
    (h : capabilityVerifyNoDefault env hw cfg sa raw = .nilDeref s) :
    raw = .v1 none ∧ (cfg.getD emptyFeatures).defaultPolicy = none := by
  by_cases hraw : raw = .v1 none
  · refine ⟨hraw, ?_⟩
    cases hd : (cfg.getD emptyFeatures).defaultPolicy with
    | none => rfl
    | some d =>
      have := variant_same_unless_v1_no_policy_no_default env hw cfg sa raw (Or.inr (by simp [hd]))
      exact absurd (this ▸ h) (verify_never_derefs_nil env hw cfg sa raw s)
  · have := variant_same_unless_v1_no_policy_no_default env hw cfg sa raw (Or.inl hraw)
    exact absurd (this ▸ h) (verify_never_derefs_nil env hw cfg sa raw s)

/-! ### (e) non-vacuity -/

/-- The universally quantified theorem covers runs that reach every part of the path: acceptance with a
present policy and TDX sub-policy, … -/
example :
    capabilityVerify { envOk with tee := .tdx } .intelSGX
      (some { fsPcsNoDefault with tdx := true }) (some ⟨1, .pcs⟩)
      (.v1 (some { ias := none, pcs := some { tdx := some () } })) = .ok () := by decide

/-- … the TDX policy rejected by ValidateBasic when the feature is off, … -/
example :
    capabilityVerify envOk .intelSGX (some fsPcsNoDefault) (some ⟨1, .pcs⟩)
      (.v1 (some { ias := none, pcs := some { tdx := some () } })) = .err .tdxPolicyNotSupported := by decide

/-- … a TDX quote against policy-less constraints rejected by the nil `TDX` check of the built-in default, … -/
example :
    capabilityVerify { envOk with tee := .tdx } .intelSGX (some fsPcsNoDefault) (some ⟨1, .pcs⟩) (.v1 none)
      = .err .teeTypeNotAllowed := by decide

/-- … both quote kinds set, and nil consensus parameters with a version-0 blob and IAS quote accepted. -/
example :
    capabilityVerify envOk .intelSGX (some fsPcsDefault) (some ⟨1, .both⟩) (.v1 none)
      = .err .notExactlyOneQuote ∧
    capabilityVerify envOk .intelSGX none (some ⟨0, .ias⟩) .v0 = .ok () := by decide

/-- `variant_same_when_effective_policy_present`: the hypothesis holds on a policy-less version-1 blob under a
consensus default (the policy is allocated by tee.go:39-41) … -/
example : effectivePolicy (some fsPcsDefault) { v := 1, policy := none }
    = .ok (some { ias := none, pcs := none }) := by decide

/-- … and `variant_same_unless_v1_no_policy_no_default` / `variant_same_with_consensus_default` on the very blob
that separates the variant otherwise. -/
example :
    capabilityVerifyNoDefault envOk .intelSGX (some fsPcsDefault) (some ⟨1, .ias⟩) (.v1 none)
      = capabilityVerify envOk .intelSGX (some fsPcsDefault) (some ⟨1, .ias⟩) (.v1 none) :=
  variant_same_with_consensus_default envOk .intelSGX fsPcsDefault _ _ (by decide)

/-- `variant_nilDeref_only_v1_no_policy_no_default`: its hypothesis is satisfiable (`removed_default_derefs_nil`). -/
example : (.v1 none : RawConstraints) = .v1 none ∧
    ((some fsPcsNoDefault).getD emptyFeatures).defaultPolicy = none :=
  variant_nilDeref_only_v1_no_policy_no_default envOk .intelSGX (some fsPcsNoDefault) (some ⟨1, .ias⟩)
    (.v1 none) .qvPolicyIas removed_default_derefs_nil.1

/-- `removed_default_derefs_nil_all`, `pcs_without_default_derefs_nil`, `pcs_tdx_nil_rejected`,
`policyValidate_nil_derefs`: hypotheses satisfiable. -/
example : fsPcsNoDefault.pcs = true ∧ fsPcsNoDefault.defaultPolicy = none ∧ envOk.pcsQuoteParses = true ∧
    ({ envOk with tee := .tdx } : Env).tee = .tdx ∧ ({ envOk with feature261 := false } : Env).feature261 = false := by
  decide

end OasisProofs.C16PolicyFlow
