import OasisProofs.Helpers.PcsLinks
import OasisProofs.Helpers.PcsTcb
import OasisProofs.Helpers.PcsExpect
import Generated.PcsFacts
/-
C18 — attestation quotes are accepted only as signed and within policy.   (PARTIAL: symbolic crypto)

Theorems about the symbolic model `OasisModel.Pcs.verify` (the decision sequence of
go/common/sgx/pcs Quote.Verify / TCBBundle.Verify, tied to the Go code by the pcsdrv
correspondence and the regenerated binding facts) and about `verifyRaw` (the same after the
byte-level quote parser `parseQuote`).

ECDSA, SHA-256, x509 chain building, PEM/JSON decoding and TupleHash are *parameters* (`Lib`).
The idealisations (unforgeability, PKI, collision freeness) are hypotheses of the theorems that
need them (`Ideal`), never axioms. Real ECDSA / X.509 / JSON / PEM malleability is outside these
theorems and is only seen by the mutation differential of pcsdrv.
-/
namespace OasisProofs.C18
open OasisModel.Pcs

/-- TDX only: the TEE TCB SVN array of the TD report takes part in the TCB level. -/
def tdxSvnOf (q : Quote) : Option (List Nat) :=
  if q.teeType = teeTDX then some (tdTeeTcbSvn q.bodyRaw) else none

/-- Every link that acceptance establishes (the clauses of the property, for the model). -/
def Accepted (L : Lib) (env : Env) (pol : Policy) (ts : Time) (q : Quote) (tcb : Option Bundle)
    (v : Verified) : Prop :=
  pol.disabled = false ∧ TeeOK env pol q ∧
  ∃ pck b tpk qe ti lvl f,
    tcb = some b ∧
    -- PCK chain to the Intel root at `ts`; the leaf certifies `pck`
    PckLink L ts q pck ∧
    -- the PCK key signs the QE report
    L.ecdsaOK pck.pk q.qeReport q.qeReportSig = true ∧
    -- the QE report binds H(attestation key ‖ auth data)
    slice (sgxReportData q.qeReport) 0 32 = L.sha256 (q.attKey ++ q.authData) ∧
    slice (sgxReportData q.qeReport) 32 32 = zeros 32 ∧
    -- TCB signing chain to the Intel root at `ts`
    TcbKeyLink L ts b tpk ∧
    -- QE identity: signed, for this TEE type, inside the validity window, evaluation number
    QeIdLink L q.teeType ts pol tpk b.qeId qe ∧ QeReportOK qe q.qeReport ∧
    -- TCB info: signed, for this TEE type, window, evaluation number, white/black list
    TcbInfoLink L q.teeType ts pol tpk b.tcbInfo ti ∧
    -- the collateral is the platform's: FMSPC of TCB info = FMSPC of the PCK certificate
    hexDecode ti.fmspc = some f ∧ pck.fmspc = f ∧
    -- the platform's TCB level and its status
    LevelLink ti pck (tdxSvnOf q) lvl ∧ statusAllowed env.lax lvl.status = true ∧
    -- the attestation key signs header ‖ report body
    L.attKeyOK q.attKey = true ∧
    L.ecdsaOK q.attKey (q.headerRaw ++ q.bodyRaw) q.sig = true ∧
    -- the result is a function of the signed report body only
    v = identityOf L q.bodyKind q.bodyRaw

/-- **verify_binds**: acceptance implies every link of the chain
Intel root → PCK certificate → QE report → attestation key → header ‖ report body,
the collateral checks (signatures, validity window, evaluation number, FMSPC, TCB level and
status, lists, disabled flag), and the returned identity and report data are `identityOf` of the
signed report body. -/
theorem verify_binds {L : Lib} {env : Env} {policy : Option Policy} {ts : Time} {q : Quote}
    {tcb : Option Bundle} {v : Verified} (h : verify L env policy ts q tcb = .ok v) :
    Accepted L env (policy.getD defaultPolicy) ts q tcb v := by
  unfold verify at h
  simp only [bind_ok, chk_ok] at h
  obtain ⟨_, hdis, _, htee, _, hsig, hv⟩ := h
  unfold sigVerify at hsig
  simp only [bind_ok, chk_ok] at hsig
  obtain ⟨_, hqe, _, hak, hqs⟩ := hsig
  unfold qeVerify at hqe
  simp only [bind_ok, chk_ok] at hqe
  obtain ⟨pck, hpck, _, hqesig, _, hdata, hb⟩ := hqe
  split at hb
  · simp at hb
  · rename_i b
    unfold bundleVerify at hb
    simp only [bind_ok] at hb
    obtain ⟨tpk, htpk, qe, hqeid, _, hqerep, hti⟩ := hb
    unfold verifyTcbInfo at hti
    simp only [bind_ok] at hti
    obtain ⟨ti, hopen, hti⟩ := hti
    split at hti
    · simp at hti
    · rename_i f hf
      simp only [bind_ok, chk_ok] at hti
      obtain ⟨_, hfm, lvl, hlvl, hst⟩ := hti
      simp only [Bool.and_eq_true, beq_iff_eq] at hdata
      refine ⟨by simpa using hdis, checkTee_ok htee, pck, b, tpk, qe, ti, lvl, f, rfl,
        verifyPCK_ok hpck, hqesig, hdata.1, hdata.2, tcbPublicKey_ok htpk,
        openQeIdentity_ok hqeid, qeIdentityVerify_ok hqerep, openTcbInfo_ok hopen, hf,
        by simpa using hfm, getTcbLevel_ok hlvl, hst, hak, hqs, ?_⟩
      simpa using hv.symm

/-- The links are also sufficient (no hidden check in the model): together with `verify_binds`
the model accepts exactly when every link holds. -/
theorem verify_complete {L : Lib} {env : Env} {policy : Option Policy} {ts : Time} {q : Quote}
    {tcb : Option Bundle} {v : Verified}
    (h : Accepted L env (policy.getD defaultPolicy) ts q tcb v) :
    verify L env policy ts q tcb = .ok v := by
  obtain ⟨hdis, htee, pck, b, tpk, qe, ti, lvl, f, hb, hpck, hqes, hd1, hd2, hk, hqe, hrep, hti,
    hf, hfm, hl, hst, hak, hqs, hv⟩ := h
  subst hb
  have e1 := checkTee_of htee
  have e2 := verifyPCK_of hpck
  have e3 := tcbPublicKey_of hk
  have e4 := openQeIdentity_of hqe
  have e5 := qeIdentityVerify_of hrep
  have e6 := openTcbInfo_of hti
  have e7 := getTcbLevel_of hl
  unfold tdxSvnOf at e7
  unfold verify sigVerify qeVerify bundleVerify verifyTcbInfo
  simp [hdis, e1, e2, e3, e4, e5, e6, e7, hqes, hd1, hd2, hf, hfm, hst, hak, hqs, hv, chk, bind, Except.bind]

theorem verify_iff {L : Lib} {env : Env} {policy : Option Policy} {ts : Time} {q : Quote}
    {tcb : Option Bundle} {v : Verified} :
    verify L env policy ts q tcb = .ok v ↔ Accepted L env (policy.getD defaultPolicy) ts q tcb v :=
  ⟨verify_binds, verify_complete⟩

/-- The verified identity and report data depend on nothing but the report body (and its
type): not on the header, the signature data, the collateral, the policy or the time. -/
theorem result_function_of_body {L : Lib} {env env' : Env} {p p' : Option Policy} {ts ts' : Time}
    {q q' : Quote} {tcb tcb' : Option Bundle} {v v' : Verified}
    (h : verify L env p ts q tcb = .ok v) (h' : verify L env' p' ts' q' tcb' = .ok v')
    (hk : q'.bodyKind = q.bodyKind) (hb : q'.bodyRaw = q.bodyRaw) : v' = v := by
  obtain ⟨_, _, _, _, _, _, _, _, _, _, _, _, _, _, _, _, _, _, _, _, _, _, _, _, hv⟩ := verify_binds h
  obtain ⟨_, _, _, _, _, _, _, _, _, _, _, _, _, _, _, _, _, _, _, _, _, _, _, _, hv'⟩ := verify_binds h'
  rw [hv, hv', hk, hb]

/-! ### ideal cryptography (hypotheses) and the mutation theorem -/

/-- Ideal signatures, ideal PKI and a collision-free hash, relative to a ground truth of what
was honestly signed (`Signed pk msg`) and which certificates the Intel PKI issued (`Issued`). -/
structure Ideal (L : Lib) (Signed : Bytes → Bytes → Prop) (Issued : Cert → Prop) : Prop where
  /-- ECDSA verification succeeds only on honestly signed messages. -/
  unforgeable : ∀ pk m s, L.ecdsaOK pk m s = true → Signed pk m
  /-- A certificate that chains to the Intel root was issued by the Intel PKI. -/
  pki : ∀ leaf inters ts chain, L.x509Verify leaf inters ts = some [chain] → Issued leaf
  /-- SHA-256 has no collisions. -/
  collisionFree : ∀ a b, L.sha256 a = L.sha256 b → a = b

/-- What the parser guarantees of a quote (see `parse_wellFormed`): a 48-byte header from which
TEE type and report-body type are computed, and a 64-byte attestation key. -/
def WellFormed (q : Quote) : Prop :=
  q.headerRaw.length = 48 ∧ q.attKey.length = 64 ∧ q.bodyKind = kindOf q.teeType ∧
    ∃ ver kt, parseHeader q.headerRaw = .ok (ver, kt, q.teeType)

/-- The adversary of the mutation experiment has seen one genuine quote `q` and nothing else
from genuine platforms: the only message signed under the key of an Intel-issued PCK
certificate (a certificate carrying an FMSPC) is `q`'s QE report, and the only message signed
under `q`'s attestation key is `q`'s header ‖ report body. -/
structure OnlyGenuine (Signed : Bytes → Bytes → Prop) (Issued : Cert → Prop) (q : Quote) : Prop where
  pck : ∀ leaf pk f svn pce R, Issued leaf → leaf.ecdsaPk = some pk →
    leaf.ext = .ok (some f) svn pce → Signed pk R → R = q.qeReport
  att : ∀ m, Signed q.attKey m → m = q.headerRaw ++ q.bodyRaw

/-- **mutation_harmless** (structured form). Under ideal cryptography, if the genuine quote `q`
is accepted (under any environment/policy/time/collateral) then ANY quote `q'` with ANY
collateral, policy, environment and time is either rejected or verifies to the identical
identity and report data. -/
theorem mutation_harmless {L : Lib} {Signed : Bytes → Bytes → Prop} {Issued : Cert → Prop}
    (I : Ideal L Signed Issued) {q : Quote} (G : OnlyGenuine Signed Issued q)
    (wf : WellFormed q)
    {env : Env} {p : Option Policy} {ts : Time} {tcb : Option Bundle} {v : Verified}
    (h : verify L env p ts q tcb = .ok v)
    {q' : Quote} (wf' : WellFormed q')
    {env' : Env} {p' : Option Policy} {ts' : Time} {tcb' : Option Bundle} {v' : Verified}
    (h' : verify L env' p' ts' q' tcb' = .ok v') : v' = v := by
  obtain ⟨_, _, pck, _, _, _, _, _, _, _, _, _, hbind, _, _, _, _, _, _, _, _, _, _, _, hv⟩ :=
    verify_binds h
  obtain ⟨_, _, pck', _, _, _, _, _, _, _, hpck', hqes', hbind', _, _, _, _, _, _, _, _, _, _,
    hqs', hv'⟩ := verify_binds h'
  -- the mutant's QE report is the genuine one
  obtain ⟨leaf, inter, root, chain, _, hx, _, hpk, hext⟩ := hpck'
  have hR : q'.qeReport = q.qeReport :=
    G.pck leaf pck'.pk pck'.fmspc pck'.compSvn pck'.pcesvn _ (I.pki _ _ _ _ hx) hpk hext
      (I.unforgeable _ _ _ hqes')
  -- hence it binds the genuine attestation key
  have hH : L.sha256 (q'.attKey ++ q'.authData) = L.sha256 (q.attKey ++ q.authData) := by
    rw [← hbind', ← hbind, hR]
  have hA := I.collisionFree _ _ hH
  have hkey : q'.attKey = q.attKey :=
    (List.append_inj hA (by rw [wf'.2.1, wf.2.1])).1
  -- hence the signed header ‖ body is the genuine one
  have hM := G.att _ (by rw [← hkey]; exact I.unforgeable _ _ _ hqs')
  obtain ⟨hhdr, hbody⟩ := List.append_inj hM (by rw [wf'.1, wf.1])
  -- the report-body type is computed from the header
  obtain ⟨_, _, hk, ver, kt, hp⟩ := wf
  obtain ⟨_, _, hk', ver', kt', hp'⟩ := wf'
  rw [hhdr, hp] at hp'
  have htee : q'.teeType = q.teeType := by
    simp only [Except.ok.injEq, Prod.mk.injEq] at hp'
    exact hp'.2.2.symm
  rw [hv, hv', hk, hk', htee, hbody]

/-- **mutation_harmless**, several genuine quotes (splicing): if the adversary holds a set `G` of
genuine quotes (each QE report honestly binds its attestation key; nothing else was signed under
Intel-issued PCK keys or under the quotes' attestation keys), then every accepted quote carries
the header and report body of one of them and verifies to that quote's identity and report data.
Parts of different genuine quotes cannot be recombined into anything new. -/
theorem spliced_quotes_harmless {L : Lib} {Signed : Bytes → Bytes → Prop} {Issued : Cert → Prop}
    (I : Ideal L Signed Issued) (G : List Quote)
    (hwf : ∀ g ∈ G, WellFormed g)
    (hbind : ∀ g ∈ G, slice (sgxReportData g.qeReport) 0 32 = L.sha256 (g.attKey ++ g.authData))
    (hpck : ∀ leaf pk f svn pce R, Issued leaf → leaf.ecdsaPk = some pk →
      leaf.ext = .ok (some f) svn pce → Signed pk R → ∃ g ∈ G, R = g.qeReport)
    (hatt : ∀ g ∈ G, ∀ m, Signed g.attKey m → ∃ g' ∈ G, m = g'.headerRaw ++ g'.bodyRaw)
    {q' : Quote} (wf' : WellFormed q')
    {env' : Env} {p' : Option Policy} {ts' : Time} {tcb' : Option Bundle} {v' : Verified}
    (h' : verify L env' p' ts' q' tcb' = .ok v') :
    ∃ g ∈ G, q'.headerRaw = g.headerRaw ∧ q'.bodyRaw = g.bodyRaw ∧
      v' = identityOf L g.bodyKind g.bodyRaw := by
  obtain ⟨_, _, pck', _, _, _, _, _, _, _, hpck', hqes', hbind', _, _, _, _, _, _, _, _, _, _,
    hqs', hv'⟩ := verify_binds h'
  obtain ⟨leaf, inter, root, chain, _, hx, _, hpk, hext⟩ := hpck'
  obtain ⟨g, hg, hR⟩ := hpck leaf pck'.pk pck'.fmspc pck'.compSvn pck'.pcesvn _
    (I.pki _ _ _ _ hx) hpk hext (I.unforgeable _ _ _ hqes')
  have hH : L.sha256 (q'.attKey ++ q'.authData) = L.sha256 (g.attKey ++ g.authData) := by
    rw [← hbind', ← hbind g hg, hR]
  have hkey : q'.attKey = g.attKey :=
    (List.append_inj (I.collisionFree _ _ hH) (by rw [wf'.2.1, (hwf g hg).2.1])).1
  obtain ⟨g', hg', hM⟩ := hatt g hg _ (by rw [← hkey]; exact I.unforgeable _ _ _ hqs')
  obtain ⟨hhdr, hbody⟩ := List.append_inj hM (by rw [wf'.1, (hwf g' hg').1])
  obtain ⟨_, _, hk, ver, kt, hp⟩ := hwf g' hg'
  obtain ⟨_, _, hk', ver', kt', hp'⟩ := wf'
  rw [hhdr, hp] at hp'
  have htee : q'.teeType = g'.teeType := by
    simp only [Except.ok.injEq, Prod.mk.injEq] at hp'
    exact hp'.2.2.symm
  exact ⟨g', hg', hhdr, hbody, by rw [hv', hk, hk', htee, hbody]⟩

/-! ### the byte-level parser establishes `WellFormed` -/

theorem slice_length (b : Bytes) (off len : Nat) (h : off + len ≤ b.length) :
    (slice b off len).length = len := by
  simp [slice]; omega

theorem parse_wellFormed {L : Lib} {raw : Bytes} {r : RawQuote} {q : Quote}
    (hr : parseQuote raw = .ok r) (hq : r.toQuote L = .ok q) : WellFormed q := by
  have hfields : q.headerRaw = r.headerRaw ∧ q.attKey = r.attKey ∧ q.bodyKind = r.bodyKind ∧
      q.teeType = r.teeType := by
    unfold RawQuote.toQuote at hq
    split at hq
    · split at hq
      · simp at hq
      · simp at hq; subst hq; simp
    · simp at hq; subst hq; simp
  obtain ⟨e1, e2, e3, e4⟩ := hfields
  unfold parseQuote at hr
  simp only [bind_ok, pchk_ok] at hr
  obtain ⟨_, hlen, h, hhdr, _, _, _, _, _, _, _, _, _, hsl, qeOff, _, x, _, hr⟩ := hr
  simp only [Except.ok.injEq] at hr
  subst hr
  simp only [decide_eq_true_eq] at hlen hsl
  refine ⟨?_, ?_, ?_, h.1, h.2.1, ?_⟩
  · rw [e1]; exact slice_length _ _ _ (by omega)
  · rw [e2]; exact slice_length _ _ _ (by omega)
  · rw [e3, e4]
  · rw [e1, e4]; exact hhdr

/-- **mutation_harmless** on raw bytes (`QuoteBundle.Verify`): for the accepted genuine raw
quote `raw`, every other byte string `raw'` with every collateral, policy and time is rejected
(at parsing or at verification) or yields the identical identity and report data. -/
theorem mutation_harmless_raw {L : Lib} {Signed : Bytes → Bytes → Prop} {Issued : Cert → Prop}
    (I : Ideal L Signed Issued) {raw : Bytes} {r : RawQuote} {q : Quote}
    (hr : parseQuote raw = .ok r) (hq : r.toQuote L = .ok q)
    (G : OnlyGenuine Signed Issued q)
    {env : Env} {p : Option Policy} {ts : Time} {tcb : Option Bundle} {v : Verified}
    (h : verifyRaw L env p ts raw tcb = some v)
    {raw' : Bytes} {env' : Env} {p' : Option Policy} {ts' : Time} {tcb' : Option Bundle}
    {v' : Verified} (h' : verifyRaw L env' p' ts' raw' tcb' = some v') : v' = v := by
  unfold verifyRaw at h h'
  rw [hr] at h
  simp only [hq] at h
  split at h'
  · simp at h'
  · rename_i r' hr'
    split at h'
    · simp at h'
    · rename_i q' hq'
      split at h
      · rename_i v0 hv0
        split at h'
        · rename_i v1 hv1
          simp at h h'
          subst h h'
          exact mutation_harmless I G (parse_wellFormed hr hq) hv0 (parse_wellFormed hr' hq') hv1
        · simp at h'
      · simp at h

/-! ### expired collateral is never accepted -/

/-- **expired_rejected** (TCB info): issued after `ts`, or older than the policy's validity
period. -/
theorem expired_rejected {L : Lib} {env : Env} {policy : Option Policy} {ts : Int} {q : Quote}
    {b : Bundle} {ti : TcbInfo} {issue : Int}
    (hj : L.jsonTcb b.tcbInfo.raw = some ti) (hi : ti.issueDate = some issue)
    (hexp : ts < issue ∨ ((policy.getD defaultPolicy).validity : Int) * dayNs < ts - issue)
    (v : Verified) : verify L env policy ts q (some b) ≠ .ok v := by
  intro h
  obtain ⟨_, _, _, b', _, _, ti', _, _, hb, _, _, _, _, _, _, _, hti, _⟩ := verify_binds h
  cases hb
  obtain ⟨_, issue', _, _, hj', _, _, hi', _, hw, _⟩ := hti
  rw [hj] at hj'; cases hj'
  rw [hi] at hi'; cases hi'
  obtain ⟨h1, h2⟩ := hw
  simp only [dayNs] at h2 hexp
  have h1' : (issue : Int) ≤ (ts : Int) := h1
  have hexp' : (ts : Int) < (issue : Int) ∨ ((policy.getD defaultPolicy).validity : Int) * (24 * 3600 * 1000000000) < (ts : Int) - (issue : Int) := hexp
  have h2' : (ts : Int) - (issue : Int) ≤ ((policy.getD defaultPolicy).validity : Int) * (24 * 3600 * 1000000000) := h2
  omega

/-- **expired_rejected** (QE identity). -/
theorem expired_qe_identity_rejected {L : Lib} {env : Env} {policy : Option Policy} {ts : Int}
    {q : Quote} {b : Bundle} {qe : QeIdentity} {issue : Int}
    (hj : L.jsonQe b.qeId.raw = some qe) (hi : qe.issueDate = some issue)
    (hexp : ts < issue ∨ ((policy.getD defaultPolicy).validity : Int) * dayNs < ts - issue)
    (v : Verified) : verify L env policy ts q (some b) ≠ .ok v := by
  intro h
  obtain ⟨_, _, _, b', _, qe', _, _, _, hb, _, _, _, _, _, hqe, _⟩ := verify_binds h
  cases hb
  obtain ⟨_, issue', _, _, hj', _, _, hi', _, hw, _⟩ := hqe
  rw [hj] at hj'; cases hj'
  rw [hi] at hi'; cases hi'
  obtain ⟨h1, h2⟩ := hw
  simp only [dayNs] at h2 hexp
  have h1' : (issue : Int) ≤ (ts : Int) := h1
  have hexp' : (ts : Int) < (issue : Int) ∨ ((policy.getD defaultPolicy).validity : Int) * (24 * 3600 * 1000000000) < (ts : Int) - (issue : Int) := hexp
  have h2' : (ts : Int) - (issue : Int) ≤ ((policy.getD defaultPolicy).validity : Int) * (24 * 3600 * 1000000000) := h2
  omega

/-- **expired_rejected** (certificates): if the PCK chain does not validate at `ts` (x509
validity is part of chain validation) the quote is rejected; the same for the TCB signing chain. -/
theorem invalid_chain_rejected {L : Lib} {env : Env} {policy : Option Policy} {ts : Time}
    {q : Quote} {tcb : Option Bundle} {leaf inter root : Cert}
    (hcd : q.certData = .chain [leaf, inter, root]) (hx : L.x509Verify leaf [inter] ts = none)
    (v : Verified) : verify L env policy ts q tcb ≠ .ok v := by
  intro h
  obtain ⟨_, _, _, _, _, _, _, _, _, _, hp, _⟩ := verify_binds h
  obtain ⟨leaf', inter', root', chain, hcd', hx', _⟩ := hp
  rw [hcd] at hcd'
  simp only [CertData.chain.injEq, List.cons.injEq, and_true] at hcd'
  obtain ⟨rfl, rfl, rfl⟩ := hcd'
  rw [hx] at hx'; cases hx'

theorem invalid_tcb_chain_rejected {L : Lib} {env : Env} {policy : Option Policy} {ts : Time}
    {q : Quote} {b : Bundle} {cert root : Cert}
    (hp : L.pem b.certs = some [cert, root]) (hx : L.x509Verify cert [] ts = none)
    (v : Verified) : verify L env policy ts q (some b) ≠ .ok v := by
  intro h
  obtain ⟨_, _, _, b', _, _, _, _, _, hb, _, _, _, _, hk, _⟩ := verify_binds h
  cases hb
  obtain ⟨cert', root', chain, hp', hx', _⟩ := hk
  rw [hp] at hp'
  simp only [Option.some.injEq, List.cons.injEq, and_true] at hp'
  obtain ⟨rfl, rfl⟩ := hp'
  rw [hx] at hx'; cases hx'

/-! ### a TCB status the policy disallows is never accepted -/

/-- Without the lax switch exactly UpToDate (1) and SWHardeningNeeded (2) are allowed; Revoked
(7), ConfigurationAndSWHardeningNeeded (4) and a missing status (0) are never allowed. -/
theorem statusAllowed_strict (s : Status) : statusAllowed false s = true ↔ s = 1 ∨ s = 2 := by
  simp [statusAllowed]

theorem statusAllowed_never (lax : Bool) :
    statusAllowed lax 7 = false ∧ statusAllowed lax 4 = false ∧ statusAllowed lax 0 = false := by
  cases lax <;> simp [statusAllowed]

/-- **disallowed_status_rejected** (platform TCB): if the first TCB level the platform reaches
has a status the rule disallows, the quote is rejected. -/
theorem disallowed_status_rejected {L : Lib} {env : Env} {policy : Option Policy} {ts : Time}
    {q : Quote} {b : Bundle} {ti : TcbInfo} {leaf inter root : Cert} {f : Option Bytes}
    {svn : List Int} {pce : Nat} {lvl : TcbLevel}
    (hj : L.jsonTcb b.tcbInfo.raw = some ti)
    (hcd : q.certData = .chain [leaf, inter, root]) (hext : leaf.ext = .ok f svn pce)
    (hfind : ti.levels.find? (fun l => l.matches svn (tdxSvnOf q) pce) = some lvl)
    (hbad : statusAllowed env.lax lvl.status = false)
    (v : Verified) : verify L env policy ts q (some b) ≠ .ok v := by
  intro h
  obtain ⟨_, _, pck, b', _, _, ti', lvl', _, hb, hp, _, _, _, _, _, _, hti, _, _, hl, hs, _⟩ :=
    verify_binds h
  cases hb
  obtain ⟨_, _, _, _, hj', _⟩ := hti
  rw [hj] at hj'; cases hj'
  obtain ⟨leaf', inter', root', chain, hcd', _, _, _, hext'⟩ := hp
  rw [hcd] at hcd'
  simp only [CertData.chain.injEq, List.cons.injEq, and_true] at hcd'
  obtain ⟨rfl, rfl, rfl⟩ := hcd'
  rw [hext] at hext'
  simp only [PckExt.ok.injEq] at hext'
  obtain ⟨_, rfl, rfl⟩ := hext'
  rw [hl.1] at hfind
  cases hfind
  rw [hs] at hbad
  cases hbad

/-- **disallowed_status_rejected** (quoting enclave): the QE identity level the QE report
reaches must be UpToDate, with or without the lax switch. -/
theorem qe_status_rejected {L : Lib} {env : Env} {policy : Option Policy} {ts : Time}
    {q : Quote} {b : Bundle} {qe : QeIdentity} {l : EnclaveLevel}
    (hj : L.jsonQe b.qeId.raw = some qe)
    (hl : enclaveLevel qe.levels (sgxIsvSvn q.qeReport) = some l) (hs : l.status ≠ 1)
    (v : Verified) : verify L env policy ts q (some b) ≠ .ok v := by
  intro h
  obtain ⟨_, _, _, b', _, qe', _, _, _, hb, _, _, _, _, _, hqe, hrep, _⟩ := verify_binds h
  cases hb
  obtain ⟨_, _, _, _, hj', _⟩ := hqe
  rw [hj] at hj'; cases hj'
  obtain ⟨_, _, _, _, _, l', _, _, _, _, _, _, _, _, _, _, hl', hs'⟩ := hrep
  rw [hl] at hl'; cases hl'
  exact hs hs'

/-- **disallowed_status_rejected** (TDX module): for a TDX quote whose TEE TCB SVN names a TDX
module version ≥ 1, the module's level must be UpToDate. -/
theorem tdx_module_status_rejected {L : Lib} {env : Env} {policy : Option Policy} {ts : Time}
    {q : Quote} {b : Bundle} {ti : TcbInfo} {m : TdxModuleId} {ml : EnclaveLevel}
    (hj : L.jsonTcb b.tcbInfo.raw = some ti) (htee : q.teeType = teeTDX)
    (hver : 1 ≤ (tdTeeTcbSvn q.bodyRaw).getD 1 0)
    (hm : ti.modules.find? (fun m => m.id == tdxModuleName ((tdTeeTcbSvn q.bodyRaw).getD 1 0)) = some m)
    (hl : enclaveLevel m.levels ((tdTeeTcbSvn q.bodyRaw).getD 0 0) = some ml) (hs : ml.status ≠ 1)
    (v : Verified) : verify L env policy ts q (some b) ≠ .ok v := by
  intro h
  obtain ⟨_, _, _, b', _, _, ti', _, _, hb, _, _, _, _, _, _, _, hti, _, _, hlv, _⟩ := verify_binds h
  cases hb
  obtain ⟨_, _, _, _, hj', hid, _⟩ := hti
  rw [hj] at hj'; cases hj'
  have hid' : ti.id = sTDX := by
    rw [hid, htee]; decide
  obtain ⟨t, ht, hmod⟩ := hlv.2.2 hid'
  have : t = tdTeeTcbSvn q.bodyRaw := by
    simp only [tdxSvnOf, htee, if_true, Option.some.injEq] at ht
    exact ht.symm
  subst this
  obtain ⟨m', ml', hm', hl', hs'⟩ := hmod hver
  rw [hm] at hm'; cases hm'
  rw [hl] at hl'; cases hl'
  exact hs hs'

/-! ### collateral that does not belong to the quote's platform is never accepted -/

/-- **foreign_collateral_rejected** (FMSPC): the TCB info's FMSPC must decode to the FMSPC of
the quote's PCK certificate. -/
theorem foreign_collateral_rejected {L : Lib} {env : Env} {policy : Option Policy} {ts : Time}
    {q : Quote} {b : Bundle} {ti : TcbInfo} {leaf inter root : Cert} {f : Bytes}
    {svn : List Int} {pce : Nat}
    (hj : L.jsonTcb b.tcbInfo.raw = some ti)
    (hcd : q.certData = .chain [leaf, inter, root]) (hext : leaf.ext = .ok (some f) svn pce)
    (hne : hexDecode ti.fmspc ≠ some f)
    (v : Verified) : verify L env policy ts q (some b) ≠ .ok v := by
  intro h
  obtain ⟨_, _, pck, b', _, _, ti', _, f', hb, hp, _, _, _, _, _, _, hti, hf, hfm, _⟩ :=
    verify_binds h
  cases hb
  obtain ⟨_, _, _, _, hj', _⟩ := hti
  rw [hj] at hj'; cases hj'
  obtain ⟨leaf', inter', root', chain, hcd', _, _, _, hext'⟩ := hp
  rw [hcd] at hcd'
  simp only [CertData.chain.injEq, List.cons.injEq, and_true] at hcd'
  obtain ⟨rfl, rfl, rfl⟩ := hcd'
  rw [hext] at hext'
  simp only [PckExt.ok.injEq, Option.some.injEq] at hext'
  obtain ⟨rfl, _, _⟩ := hext'
  rw [hf, ← hfm] at hne
  exact hne rfl

/-- **foreign_collateral_rejected** (PCE): a platform whose PCE SVN is below that of every TCB
level of the TCB info reaches no level and is rejected. -/
theorem foreign_pce_rejected {L : Lib} {env : Env} {policy : Option Policy} {ts : Time}
    {q : Quote} {b : Bundle} {ti : TcbInfo} {leaf inter root : Cert} {f : Option Bytes}
    {svn : List Int} {pce : Nat}
    (hj : L.jsonTcb b.tcbInfo.raw = some ti)
    (hcd : q.certData = .chain [leaf, inter, root]) (hext : leaf.ext = .ok f svn pce)
    (hlow : ∀ l ∈ ti.levels, pce < l.pcesvn)
    (v : Verified) : verify L env policy ts q (some b) ≠ .ok v := by
  intro h
  obtain ⟨_, _, pck, b', _, _, ti', lvl, _, hb, hp, _, _, _, _, _, _, hti, _, _, hl, _⟩ :=
    verify_binds h
  cases hb
  obtain ⟨_, _, _, _, hj', _⟩ := hti
  rw [hj] at hj'; cases hj'
  obtain ⟨leaf', inter', root', chain, hcd', _, _, _, hext'⟩ := hp
  rw [hcd] at hcd'
  simp only [CertData.chain.injEq, List.cons.injEq, and_true] at hcd'
  obtain ⟨rfl, rfl, rfl⟩ := hcd'
  rw [hext] at hext'
  simp only [PckExt.ok.injEq] at hext'
  obtain ⟨_, rfl, rfl⟩ := hext'
  have hmem := List.mem_of_find?_eq_some hl.1
  have hm0 : lvl.matches pck.compSvn (tdxSvnOf q) pck.pcesvn = true := by
    have := List.find?_some hl.1
    simpa using this
  have hm := (matches_iff _ _ _ _).1 hm0
  have := hlow lvl hmem
  have := hm.2.1
  omega

/-- **foreign_collateral_rejected** (TEE type): TCB info or QE identity issued for the other TEE
type is rejected. -/
theorem foreign_tee_collateral_rejected {L : Lib} {env : Env} {policy : Option Policy} {ts : Time}
    {q : Quote} {b : Bundle} {ti : TcbInfo} {qe : QeIdentity}
    (hj : L.jsonTcb b.tcbInfo.raw = some ti) (hjq : L.jsonQe b.qeId.raw = some qe)
    (hne : ti.id ≠ (if q.teeType = teeSGX then sSGX else sTDX) ∨
           qe.id ≠ (if q.teeType = teeSGX then sQE else sTDQE))
    (v : Verified) : verify L env policy ts q (some b) ≠ .ok v := by
  intro h
  obtain ⟨_, _, _, b', _, qe', ti', _, _, hb, _, _, _, _, _, hqe, _, hti, _⟩ := verify_binds h
  cases hb
  obtain ⟨_, _, _, _, hj', hid, _⟩ := hti
  obtain ⟨_, _, _, _, hjq', hidq, _⟩ := hqe
  rw [hj] at hj'; cases hj'
  rw [hjq] at hjq'; cases hjq'
  rcases hne with h1 | h1
  · exact h1 hid
  · exact h1 hidq

/-- **foreign_collateral_rejected** (quoting enclave): a QE identity whose MRSIGNER or product id
is not the QE report's is rejected. -/
theorem foreign_qe_identity_rejected {L : Lib} {env : Env} {policy : Option Policy} {ts : Time}
    {q : Quote} {b : Bundle} {qe : QeIdentity}
    (hjq : L.jsonQe b.qeId.raw = some qe)
    (hne : hexLen qe.mrSigner 32 ≠ some (sgxMrSigner q.qeReport) ∨
           qe.isvProdId ≠ sgxIsvProdId q.qeReport)
    (v : Verified) : verify L env policy ts q (some b) ≠ .ok v := by
  intro h
  obtain ⟨_, _, _, b', _, qe', _, _, _, hb, _, _, _, _, _, hqe, hrep, _⟩ := verify_binds h
  cases hb
  obtain ⟨_, _, _, _, hjq', _⟩ := hqe
  rw [hjq] at hjq'; cases hjq'
  obtain ⟨ms, _, _, _, _, _, hms, hmseq, hprod, _⟩ := hrep
  rcases hne with h1 | h1
  · rw [hms, hmseq] at h1; exact h1 rfl
  · exact h1 hprod

/-! ### policy settings -/

theorem disabled_rejected {L : Lib} {env : Env} {pol : Policy} {ts : Time} {q : Quote}
    {tcb : Option Bundle} (hd : pol.disabled = true) (v : Verified) :
    verify L env (some pol) ts q tcb ≠ .ok v := by
  intro h
  have := (verify_binds h).1
  simp only [Option.getD_some] at this
  rw [hd] at this; cases this

theorem missing_collateral_rejected {L : Lib} {env : Env} {policy : Option Policy} {ts : Time}
    {q : Quote} (v : Verified) : verify L env policy ts q none ≠ .ok v := by
  intro h
  obtain ⟨_, _, _, _, _, _, _, _, _, hb, _⟩ := verify_binds h
  cases hb

/-- Minimum TCB evaluation data number, for both collateral bodies. -/
theorem low_evaluation_number_rejected {L : Lib} {env : Env} {policy : Option Policy} {ts : Time}
    {q : Quote} {b : Bundle} {ti : TcbInfo} {qe : QeIdentity}
    (hj : L.jsonTcb b.tcbInfo.raw = some ti) (hjq : L.jsonQe b.qeId.raw = some qe)
    (hlow : ti.evalNum < (policy.getD defaultPolicy).minEval ∨
            qe.evalNum < (policy.getD defaultPolicy).minEval)
    (v : Verified) : verify L env policy ts q (some b) ≠ .ok v := by
  intro h
  obtain ⟨_, _, _, b', _, qe', ti', _, _, hb, _, _, _, _, _, hqe, _, hti, _⟩ := verify_binds h
  cases hb
  obtain ⟨_, _, _, _, hj', _, _, _, _, _, hm, _⟩ := hti
  obtain ⟨_, _, _, _, hjq', _, _, _, _, _, hmq⟩ := hqe
  rw [hj] at hj'; cases hj'
  rw [hjq] at hjq'; cases hjq'
  omega

/-- FMSPC black list and white list (compared as the JSON string). -/
theorem blacklisted_fmspc_rejected {L : Lib} {env : Env} {policy : Option Policy} {ts : Time}
    {q : Quote} {b : Bundle} {ti : TcbInfo}
    (hj : L.jsonTcb b.tcbInfo.raw = some ti)
    (hbl : ti.fmspc ∈ (policy.getD defaultPolicy).blacklist ∨
           ((policy.getD defaultPolicy).whitelist ≠ [] ∧
            ti.fmspc ∉ (policy.getD defaultPolicy).whitelist))
    (v : Verified) : verify L env policy ts q (some b) ≠ .ok v := by
  intro h
  obtain ⟨_, _, _, b', _, _, ti', _, _, hb, _, _, _, _, _, _, _, hti, _⟩ := verify_binds h
  cases hb
  obtain ⟨_, _, _, _, hj', _, _, _, _, _, _, hw, hbk⟩ := hti
  rw [hj] at hj'; cases hj'
  rcases hbl with h1 | ⟨h1, h2⟩
  · exact hbk h1
  · rcases hw with hw | hw
    · exact h1 hw
    · exact h2 hw

/-- TDX quotes need a TDX policy, and the TD's module must be allowed by it. -/
theorem tdx_policy_rejected {L : Lib} {env : Env} {policy : Option Policy} {ts : Time}
    {q : Quote} {tcb : Option Bundle} (htee : q.teeType = teeTDX)
    (hpol : ∀ mods, (policy.getD defaultPolicy).tdx = some mods →
      tdxModuleAllowed mods q.bodyRaw = false)
    (v : Verified) : verify L env policy ts q tcb ≠ .ok v := by
  intro h
  have ht := (verify_binds h).2.1
  rcases ht with ⟨h0, _⟩ | ⟨_, _, _, mods, hm, ha⟩
  · rw [htee] at h0; cases h0
  · rw [hpol mods hm] at ha; cases ha

/-- Debug enclaves only in debug mode, production enclaves only in production mode. -/
theorem debug_mismatch_rejected {L : Lib} {env : Env} {policy : Option Policy} {ts : Time}
    {q : Quote} {tcb : Option Bundle}
    (hd : (q.teeType = teeSGX → env.allowDebug ≠ sgxDebug q.bodyRaw) ∧
          (q.teeType = teeTDX → env.allowDebug ≠ tdDebug q.bodyRaw))
    (v : Verified) : verify L env policy ts q tcb ≠ .ok v := by
  intro h
  have ht := (verify_binds h).2.1
  rcases ht with ⟨h0, _, _, h1⟩ | ⟨h0, _, h1, _⟩
  · exact hd.1 h0 h1
  · exact hd.2 h0 h1

/-! ### node registration: what the verified quote is bound to (go/common/node/sgx.go) -/

/-- An accepted attestation's enclave identity is one of the allowed ones and the RAK hash is
the first half of the report data of the *signed* report body. -/
theorem attestation_binds {L : Lib} {env : Env} {policy : Option Policy} {ts : Time} {q : Quote}
    {tcb : Option Bundle} {allowed : List (Bytes × Bytes)} {rakHash : Bytes}
    (h : attestationOK L env policy ts q tcb allowed rakHash = true) :
    ∃ v, Accepted L env (policy.getD defaultPolicy) ts q tcb v ∧
      (v.mrEnclave, v.mrSigner) ∈ allowed ∧
      slice (identityOf L q.bodyKind q.bodyRaw).reportData 0 32 = rakHash := by
  unfold attestationOK at h
  split at h
  · simp at h
  · rename_i v hv
    have hA := verify_binds hv
    have hid : v = identityOf L q.bodyKind q.bodyRaw := by
      obtain ⟨_, _, _, _, _, _, _, _, _, _, _, _, _, _, _, _, _, _, _, _, _, _, _, _, hv⟩ := hA
      exact hv
    simp only [Bool.and_eq_true, List.contains_iff_mem, beq_iff_eq] at h
    exact ⟨v, hA, h.1, by rw [← hid]; exact h.2⟩


/-! ### node registration: which policy the verifier ends up with (tee.go ApplyDefaultConstraints) -/

/-- For EVERY shape of the descriptor's constraints that leaves the PCS policy unset (nil policy,
the empty object `policy: {}`, a policy with only the IAS part), with the PCS feature on, the
policy that reaches `pcs.Quote.Verify` is the consensus default's PCS policy: never the built-in
fallback, never anything weaker. -/
theorem default_applied_when_unset {fs : Features} {sc : Option QPolicy} {d : QPolicy}
    (hf : fs.pcs = true) (hd : fs.defaultPolicy = some d) (hu : descriptorSetsPcs sc = false) :
    effectivePcsPolicy fs sc = d.pcs := by
  unfold effectivePcsPolicy applyDefaults
  rw [hd]
  cases sc with
  | none => simp [hf]
  | some p =>
    have hp : p.pcs = none := by
      cases h : p.pcs with
      | none => rfl
      | some x => simp [descriptorSetsPcs, h] at hu
    by_cases hi : p.ias.isNone <;> simp [hf, hi, hp]

/-- A PCS policy set by the descriptor is the one used. -/
theorem explicit_policy_kept {fs : Features} {p : QPolicy} {x : Policy} (hx : p.pcs = some x) :
    effectivePcsPolicy fs (some p) = some x := by
  unfold effectivePcsPolicy applyDefaults
  cases hd : fs.defaultPolicy with
  | none => simp [hx]
  | some d => by_cases hi : p.ias.isNone <;> simp [hi, hx]

/-- The PCS result is independent of the IAS part of the descriptor's policy (the three steps of
`ApplyDefaultConstraints` are independent). -/
theorem pcs_default_independent_of_ias (fs : Features) (i i' : Option Nat) (x : Option Policy) :
    effectivePcsPolicy fs (some { ias := i, pcs := x }) =
      effectivePcsPolicy fs (some { ias := i', pcs := x }) := by
  unfold effectivePcsPolicy applyDefaults
  cases fs.defaultPolicy with
  | none => rfl
  | some d =>
    by_cases h1 : i.isNone <;> by_cases h2 : i'.isNone <;> by_cases h3 : (x.isNone && fs.pcs) <;>
      simp [h1, h2, h3]

/-- Hence: a quote that the consensus default PCS policy rejects is never accepted at node
registration when the descriptor did not set a PCS policy of its own. -/
theorem default_policy_enforced {L : Lib} {env : Env} {fs : Features} {sc : Option QPolicy}
    {d : QPolicy} {ts : Time} {q : Quote} {tcb : Option Bundle} {allowed : List (Bytes × Bytes)}
    {rakHash : Bytes}
    (hf : fs.pcs = true) (hd : fs.defaultPolicy = some d) (hu : descriptorSetsPcs sc = false)
    (hrej : ∀ v, verify L env d.pcs ts q tcb ≠ .ok v) :
    registrationOK L env fs sc ts q tcb allowed rakHash = false := by
  unfold registrationOK attestationOK
  rw [default_applied_when_unset hf hd hu]
  split
  · rfl
  · rename_i v hv
    exact absurd hv (hrej v)

/-- Non-vacuity: the empty-but-non-nil policy under a disabling default. -/
example : effectivePcsPolicy { pcs := true, defaultPolicy := some { ias := some 2, pcs := some { defaultPolicy with disabled := true } } }
    (some { ias := none, pcs := none }) = some { defaultPolicy with disabled := true } := by decide

/-! ### regenerated binding facts (tools/gen/pcsfacts.go → Generated/PcsFacts.lean) -/

set_option maxRecDepth 100000 in
/-- The decision sequence extracted from the current Go source is the expected one: every
`return err` of Quote.Verify and of everything it calls, in order, with its condition. -/
theorem generated_checks_match :
    Generated.PcsFacts.checks = Expect.expectedChecks.map (fun e => (e.1, e.2.1, e.2.2.1)) := by
  decide

set_option maxRecDepth 100000 in
/-- The rejecting checks of the Go source occur in the order of the model's stages, and every
stage of the model corresponds to a check of the source. -/
theorem stages_in_code_order :
    Expect.dedup (Expect.expectedChecks.filterMap (fun e => e.2.2.2)) [] = Expect.stageOrder := by
  decide

/-- `stageOrder` lists every stage of the model. -/
theorem stageOrder_complete (s : Stage) : s ∈ Expect.stageOrder := by
  cases s <;> decide

set_option maxRecDepth 100000 in
/-- Every structure field is read by exactly the expected functions. -/
theorem generated_field_uses_match :
    Generated.PcsFacts.fieldUses = Expect.expectedFields.map (fun e => (e.1, e.2.1, e.2.2.2)) := by
  decide

set_option maxRecDepth 100000 in
/-- Fields classified as unbound are read nowhere; fields classified as bound are read. -/
theorem field_roles_consistent :
    Expect.expectedFields.all (fun e => Expect.roleConsistent e.2.2.1 e.2.2.2) = true := by
  decide

/-- The default-filling steps of ApplyDefaultConstraints in the current source are the three
independent `if`s that `applyDefaults` models. -/
theorem generated_apply_defaults_match :
    Generated.PcsFacts.applyDefaultConstraints = Expect.expectedApplyDefaults := by
  decide

set_option maxRecDepth 100000 in
/-- The statement skeletons of `TCBLevel.matches` (loops, offset rule, comparisons, early exits),
`getTCBLevel`, `validateTCBLevel`, `validateFMSPC`, the two `validate`s, `QEIdentity.verify`,
`QuoteBundle.Verify` and the node-registration functions in the current source are the ones the
model transcribes. -/
theorem generated_tcb_skeletons_match :
    Generated.PcsFacts.tcbSkeletons = Expect.expectedTcbSkeletons := by
  decide

/-! ### non-vacuity: a concrete accepted quote in a concrete ideal world -/
namespace Demo

def rootC : Cert := { der := [0], ecdsaPk := some [9], ext := .bad }
def interC : Cert := { der := [1], ecdsaPk := some [8], ext := .bad }
def leafC : Cert :=
  { der := [2], ecdsaPk := some [7], ext := .ok (some [0x00, 0x60, 0x6a, 0, 0, 0]) (List.replicate 16 5) 10,
    pceId := some [0, 0] }
def tcbC : Cert := { der := [3], ecdsaPk := some [6], ext := .bad }
def tag32 : Bytes := List.replicate 32 0xAB
def ak : Bytes := List.replicate 64 1
def auth : Bytes := List.replicate 32 2
def qeRep : Bytes := zeros 320 ++ tag32 ++ zeros 32
/-- v3 header: version 3, key type 2, reserved 0, then 40 more bytes. -/
def hdr : Bytes := [3, 0, 2, 0, 0, 0, 0, 0] ++ zeros 40
def body : Bytes := zeros 64 ++ List.replicate 32 0x11 ++ zeros 32 ++ List.replicate 32 0x22 ++ zeros 160 ++ List.replicate 64 0x33

def q0 : Quote :=
  { headerRaw := hdr, teeType := 0, bodyKind := .sgx, bodyRaw := body, sig := [5], attKey := ak,
    qeReport := qeRep, qeReportSig := [4], authData := auth, certData := .chain [leafC, interC, rootC] }

def hex0 (n : Nat) : Bytes := List.replicate n 48
def b0 : Bundle := { tcbInfo := ⟨[1], hex0 128⟩, qeId := ⟨[2], hex0 128⟩, certs := [3] }

def ti0 : TcbInfo :=
  { id := sSGX, version := 3, issueDate := some 1000, nextUpdateOk := true,
    fmspc := [48, 48, 54, 48, 54, 65, 48, 48, 48, 48, 48, 48], evalNum := 13,
    levels := [⟨11, List.replicate 16 5, List.replicate 16 0, 1⟩, ⟨10, List.replicate 16 5, List.replicate 16 0, 2⟩,
               ⟨0, List.replicate 16 0, List.replicate 16 0, 5⟩],
    modules := [], pceId := [48, 48, 48, 48] }
def qe0 : QeIdentity :=
  { id := sQE, version := 2, issueDate := some 900, nextUpdateOk := true, evalNum := 13,
    miscSelect := hex0 8, miscSelectMask := hex0 8, attributes := hex0 32, attributesMask := hex0 32,
    mrSigner := hex0 64, isvProdId := 0, levels := [⟨0, 1⟩] }

def signedB (pk m : Bytes) : Bool :=
  (pk == [7] && m == qeRep) || (pk == ak && m == hdr ++ body) || (pk == [6] && (m == [1] || m == [2]))

def L0 : Lib :=
  { ecdsaOK := fun pk m _ => signedB pk m
    sha256 := fun x => if x = ak ++ auth then tag32 else 0xFF :: x
    attKeyOK := fun _ => true
    x509Verify := fun leaf _ _ => if leaf = leafC ∨ leaf = tcbC then some [[leaf, rootC]] else none
    pem := fun _ => some [tcbC, rootC]
    jsonTcb := fun r => if r = [1] then some ti0 else none
    jsonQe := fun r => if r = [2] then some qe0 else none
    tdMr := fun _ => [] }

def env0 : Env := { allowDebug := false, lax := false, mrSignerBlacklist := [] }
def v0 : Verified := { mrEnclave := List.replicate 32 0x11, mrSigner := List.replicate 32 0x22, reportData := List.replicate 64 0x33 }

def isOk (r : Except Stage Verified) (v : Verified) : Bool :=
  match r with
  | .ok w => w == v
  | .error _ => false

protected theorem isOk_eq {r : Except Stage Verified} {v : Verified} (h : isOk r v = true) : r = .ok v := by
  cases r <;> simp_all [isOk]

set_option maxRecDepth 100000 in
protected theorem accepted : verify L0 env0 none 2000 q0 (some b0) = .ok v0 := Demo.isOk_eq (by decide)


/-- The demo world is ideal: signatures are exactly the honestly signed pairs, the PKI issued
exactly the two leaf certificates, the hash is injective. -/
def Signed (pk m : Bytes) : Prop := signedB pk m = true
def Issued (c : Cert) : Prop := c = leafC ∨ c = tcbC

protected theorem ideal : Ideal L0 Signed Issued where
  unforgeable := fun _ _ _ h => h
  pki := by
    intro leaf inters ts chain h
    simp only [L0] at h
    split at h
    · assumption
    · cases h
  collisionFree := by
    intro a b h
    simp only [L0] at h
    by_cases ha : a = ak ++ auth <;> by_cases hb : b = ak ++ auth
    · rw [ha, hb]
    · simp [ha, hb, tag32, List.replicate] at h
    · simp [ha, hb, tag32, List.replicate] at h
    · simpa [ha, hb] using h

protected theorem onlyGenuine : OnlyGenuine Signed Issued q0 where
  pck := by
    intro leaf pk f svn pce R hi hpk hext hs
    rcases hi with rfl | rfl
    · simp only [leafC, Option.some.injEq] at hpk
      subst hpk
      have : signedB [7] R = true := hs
      simp only [signedB, Bool.or_eq_true, Bool.and_eq_true, beq_iff_eq] at this
      rcases this with (⟨_, h⟩ | ⟨h, _⟩) | ⟨h, _⟩
      · exact h
      · exact absurd h (by decide)
      · exact absurd h (by decide)
    · simp [tcbC] at hext
  att := by
    intro m hs
    have : signedB ak m = true := hs
    simp only [signedB, Bool.or_eq_true, Bool.and_eq_true, beq_iff_eq] at this
    rcases this with (⟨h, _⟩ | ⟨_, h⟩) | ⟨h, _⟩
    · exact absurd h (by decide)
    · exact h
    · exact absurd h (by decide)

protected theorem wellFormed : WellFormed q0 :=
  ⟨by decide, by decide, by decide, 3, 2, by rfl⟩

/-- `mutation_harmless` instantiated: in the demo world every accepted quote whatsoever
verifies to the demo quote's identity and report data. -/
example {q' : Quote} (wf' : WellFormed q') {env' : Env} {p' : Option Policy} {ts' : Time}
    {tcb' : Option Bundle} {v' : Verified} (h' : verify L0 env' p' ts' q' tcb' = .ok v') : v' = v0 :=
  mutation_harmless Demo.ideal Demo.onlyGenuine Demo.wellFormed Demo.accepted wf' h'

/-- The hypotheses of the rejection theorems are satisfiable on the demo state: one second
past issue date + 30 days the TCB info is expired. -/
example : verify L0 env0 none (1000 + 30 * dayNs + 1) q0 (some b0) ≠ .ok v0 :=
  expired_rejected (ti := ti0) (issue := 1000) rfl rfl (Or.inr (by decide)) v0

example : verify L0 env0 none 950 q0 (some b0) ≠ .ok v0 :=
  expired_rejected (ti := ti0) (issue := 1000) rfl rfl (Or.inl (by decide)) v0

/-- A platform at PCE SVN 10 reaches the second level (status 2, allowed); the same platform
under a TCB info whose reachable level is OutOfDate (5) is rejected without the lax switch. -/
def tiOld : TcbInfo := { ti0 with levels := [⟨11, List.replicate 16 5, List.replicate 16 0, 1⟩,
                                             ⟨0, List.replicate 16 0, List.replicate 16 0, 5⟩] }
def Lold : Lib := { L0 with jsonTcb := fun r => if r = [1] then some tiOld else none }

example : verify Lold env0 none 2000 q0 (some b0) ≠ .ok v0 :=
  disallowed_status_rejected (ti := tiOld) (leaf := leafC) (inter := interC) (root := rootC)
    (lvl := ⟨0, List.replicate 16 0, List.replicate 16 0, 5⟩) rfl rfl rfl (by decide) (by decide) v0

/-- Collateral of another platform (FMSPC 00906E...) is rejected. -/
def tiForeign : TcbInfo := { ti0 with fmspc := [48, 48, 57, 48, 54, 69, 48, 48, 48, 48, 48, 48] }
def Lforeign : Lib := { L0 with jsonTcb := fun r => if r = [1] then some tiForeign else none }

example : verify Lforeign env0 none 2000 q0 (some b0) ≠ .ok v0 :=
  foreign_collateral_rejected (ti := tiForeign) (leaf := leafC) (inter := interC) (root := rootC)
    rfl rfl rfl (by decide) v0

example : verify L0 env0 (some { defaultPolicy with minEval := 14 }) 2000 q0 (some b0) ≠ .ok v0 :=
  low_evaluation_number_rejected (ti := ti0) (qe := qe0) rfl rfl (Or.inl (by decide)) v0

example : verify L0 env0 (some { defaultPolicy with blacklist := [ti0.fmspc] }) 2000 q0 (some b0) ≠ .ok v0 :=
  blacklisted_fmspc_rejected (ti := ti0) rfl (Or.inl (by simp [defaultPolicy])) v0

/-- K1 witness: the same platform (PCE-ID 0000) under a TCB info for PCE-ID 0001 is accepted. -/
def tiPce : TcbInfo := { ti0 with pceId := [48, 48, 48, 49] }
def Lpce : Lib := { L0 with jsonTcb := fun r => if r = [1] then some tiPce else none }

set_option maxRecDepth 100000 in
protected theorem accepted_pce : verify Lpce env0 none 2000 q0 (some b0) = .ok v0 := Demo.isOk_eq (by decide)

/-- K2 witness: black list entry "00606a000000", TCB info FMSPC "00606A000000". -/
def polCase : Policy := { defaultPolicy with blacklist := [[48, 48, 54, 48, 54, 97, 48, 48, 48, 48, 48, 48]] }

set_option maxRecDepth 100000 in
protected theorem accepted_case : verify L0 env0 (some polCase) 2000 q0 (some b0) = .ok v0 := Demo.isOk_eq (by decide)

end Demo

/-! ### known findings K1, K2: clauses of the property text that the code does not enforce

`verify_iff` characterises what the code accepts. The property text additionally says that
collateral not belonging to the quote's platform is never accepted and that acceptance is within
policy. Read literally this needs two more links, stated here as the *spec predicate*; the two
theorems below exhibit accepted inputs that violate them (the harness reports the same inputs on
the real code as `foreign-collateral-pceid-accepted` and `fmspc-blacklist-case-bypass`). -/

/-- The property's acceptance predicate: the code's links plus (K1) the TCB info is for the PCE of
the quote's PCK certificate and (K2) the FMSPC is not black-listed as a platform identifier. -/
def AcceptedSpec (L : Lib) (env : Env) (pol : Policy) (ts : Time) (q : Quote) (tcb : Option Bundle)
    (v : Verified) : Prop :=
  Accepted L env pol ts q tcb v ∧
    ∀ b ti, tcb = some b → L.jsonTcb b.tcbInfo.raw = some ti →
      pceIdOK q ti = true ∧ blacklistedByValue pol ti = false

/-- The stronger `foreign_pce…` clause: a TCB info for another PCE is rejected. -/
def ForeignPceIdRejected : Prop :=
  ∀ (L : Lib) (env : Env) (policy : Option Policy) (ts : Time) (q : Quote) (b : Bundle)
    (ti : TcbInfo) (v : Verified),
    L.jsonTcb b.tcbInfo.raw = some ti → pceIdOK q ti = false →
    verify L env policy ts q (some b) ≠ .ok v

/-- K1: the clause does NOT hold for the verifier as written (`pceId` is never read, see
`generated_field_uses_match`): negation witness. -/
theorem foreign_pceid_clause_fails : ¬ ForeignPceIdRejected := by
  intro h
  exact h Demo.Lpce Demo.env0 none 2000 Demo.q0 Demo.b0 Demo.tiPce Demo.v0 rfl (by decide)
    Demo.accepted_pce

/-- The black list read as a list of platforms: an entry denoting the TCB info's FMSPC rejects. -/
def BlacklistByValueRejected : Prop :=
  ∀ (L : Lib) (env : Env) (policy : Option Policy) (ts : Time) (q : Quote) (b : Bundle)
    (ti : TcbInfo) (v : Verified),
    L.jsonTcb b.tcbInfo.raw = some ti →
    blacklistedByValue (policy.getD defaultPolicy) ti = true →
    verify L env policy ts q (some b) ≠ .ok v

/-- K2: the black list is compared as a string (`blacklisted_fmspc_rejected`); an entry that
differs from the TCB info's FMSPC only in hex case does not block it: negation witness. -/
theorem blacklist_case_bypass : ¬ BlacklistByValueRejected := by
  intro h
  exact h Demo.L0 Demo.env0 (some Demo.polCase) 2000 Demo.q0 Demo.b0 Demo.ti0 Demo.v0 rfl
    (by decide) Demo.accepted_case

/-- Hence the code's acceptance does not imply the spec predicate. -/
theorem accepted_not_spec :
    ∃ (L : Lib) (env : Env) (policy : Option Policy) (ts : Time) (q : Quote) (tcb : Option Bundle)
      (v : Verified), verify L env policy ts q tcb = .ok v ∧
      ¬ AcceptedSpec L env (policy.getD defaultPolicy) ts q tcb v := by
  refine ⟨Demo.Lpce, Demo.env0, none, 2000, Demo.q0, some Demo.b0, Demo.v0, Demo.accepted_pce, ?_⟩
  intro hs
  have := (hs.2 Demo.b0 Demo.tiPce rfl rfl).1
  revert this
  decide

/-- On inputs where the two extra links hold the code is exactly the spec. -/
theorem spec_iff_on_bound_inputs {L : Lib} {env : Env} {policy : Option Policy} {ts : Time}
    {q : Quote} {tcb : Option Bundle} {v : Verified}
    (hb : ∀ b ti, tcb = some b → L.jsonTcb b.tcbInfo.raw = some ti →
      pceIdOK q ti = true ∧ blacklistedByValue (policy.getD defaultPolicy) ti = false) :
    verify L env policy ts q tcb = .ok v ↔
      AcceptedSpec L env (policy.getD defaultPolicy) ts q tcb v :=
  ⟨fun h => ⟨verify_binds h, hb⟩, fun h => verify_complete h.1⟩

end OasisProofs.C18
