/-
C16 — regenerated statement pin of the policy glue between a runtime deployment's (untrusted) TEE constraints blob and
quote verification: quote.Quote.Verify (go/common/sgx/quote/quote.go) and TEEFeaturesSGX.ApplyDefaultConstraints
(go/common/node/tee.go), the code OasisModel/Tee/PolicyFlow.lean transcribes for nil-ness and
Props/C16PolicyFlow.lean proves total (verify_never_derefs_nil).  ApplyDefaultConstraints leaves a nil policy nil when
the consensus parameters carry no default policy; the `policy == nil` default of Quote.Verify is what keeps the
dereferences `policy.IAS` / `policy.PCS` safe for version-1 constraints without a policy.

`tools/gen stmtfacts teepolicy` flattens the functions into one line per simple statement on every run; the
lists are pinned here (`rfl`). A change of a statement, a condition or of the order of statements breaks the
pin until the new text has been read against the model.
-/
import Generated.StmtFactsTeepolicy

namespace OasisProofs.C16PolicyFacts

/-- Position of the first line equal to `s`. -/
def pos (l : List String) (s : String) : Option Nat :=
  let i := l.findIdx (· == s)
  if i < l.length then some i else none

/-- The lines occur in this order (strictly increasing positions). -/
def inOrder (l : List String) : List String → Option Nat → Bool
  | [], _ => true
  | s :: rest, prev =>
    match pos l s, prev with
    | none, _ => false
    | some i, none => inOrder l rest (some i)
    | some i, some p => decide (p < i) && inOrder l rest (some i)

def expected_quoteVerifyStmts : List String := [
  "if !common.ExactlyOneTrue( q.IAS != nil, q.PCS != nil, ) {",
  "return nil, fmt.Errorf(\"exactly one quote kind must be set\")",
  "}",
  "if policy == nil {",
  "policy = &Policy{}",
  "}",
  "switch  {",
  "case q.IAS != nil:",
  "avr, err := q.IAS.Open(policy.IAS, ias.IntelTrustRoots, ts)",
  "if err != nil {",
  "return nil, err",
  "}",
  "isvQuote, err := avr.Quote()",
  "if err != nil {",
  "return nil, err",
  "}",
  "return &sgx.VerifiedQuote{ ReportData: isvQuote.Report.ReportData[:], Identity: sgx.EnclaveIdentity{ MrEnclave: isvQuote.Report.MRENCLAVE, MrSigner: isvQuote.Report.MRSIGNER, }, }, nil",
  "case q.PCS != nil:",
  "return q.PCS.Verify(policy.PCS, ts)",
  "default:",
  "return nil, fmt.Errorf(\"exactly one quote kind must be set\")",
  "}"]

theorem quoteVerifyStmts_as_modelled : Generated.StmtFacts.Teepolicy.quoteVerifyStmts = expected_quoteVerifyStmts := rfl

def expected_applyDefaultConstraintsStmts : List String := [
  "if fs.DefaultPolicy != nil {",
  "if sc.Policy == nil {",
  "sc.Policy = &quote.Policy{}",
  "}",
  "if sc.Policy.IAS == nil {",
  "sc.Policy.IAS = fs.DefaultPolicy.IAS",
  "}",
  "if sc.Policy.PCS == nil && fs.PCS {",
  "sc.Policy.PCS = fs.DefaultPolicy.PCS",
  "}",
  "}",
  "if sc.MaxAttestationAge == 0 {",
  "sc.MaxAttestationAge = fs.DefaultMaxAttestationAge",
  "}"]

theorem applyDefaultConstraintsStmts_as_modelled : Generated.StmtFacts.Teepolicy.applyDefaultConstraintsStmts = expected_applyDefaultConstraintsStmts := rfl

theorem nil_policy_defaulted_before_use :
    inOrder expected_quoteVerifyStmts ["if policy == nil {", "policy = &Policy{}", "avr, err := q.IAS.Open(policy.IAS, ias.IntelTrustRoots, ts)", "return q.PCS.Verify(policy.PCS, ts)"] none = true := by decide +kernel

end OasisProofs.C16PolicyFacts
