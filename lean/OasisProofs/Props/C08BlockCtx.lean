/-
Property C08, block context.  Besides the state tree the only thing that survives from a DeliverTx to
the EndBlock of the same block is the per-block context (`api.BlockContext`: gas accountant, fee
accumulator, proposer, the roothash application's set of runtimes to finalize, the multiplexer's own
lists).  A failed transaction must not leave anything there either — otherwise its effect appears
when EndBlock runs (a seeded change registered a runtime for finalization before the commitments of a
failing ExecutorCommit were verified; the per-transaction state diff is empty, the next EndBlock
differs).  `tools/gen muxfacts` (appstate.go, blockCtxFacts) lists every use of the block context in
go/consensus/cometbft and every call of a helper that writes it from a transaction handler, with
the fact whether a failing return follows the call.  Both are pinned and classified here; dynamically
the same clause is checked by the neutral twin runs of txdrv.
-/
import Generated.MuxFacts

namespace OasisProofs.C08BlockCtx

/-- How a use of the block context relates to failed transactions. -/
inductive Use where
  /-- reads an input of the block (proposer, last commit, misbehaviour) -/
  | readInput
  /-- the multiplexer's own bookkeeping of provable events / system transactions of the block -/
  | muxBookkeeping
  /-- authentication: the fee accumulator receives the fee, the gas accountant is installed — the
  effect a failed transaction is ALLOWED to have (fee and nonce) -/
  | authOnly
  /-- read in BeginBlock/EndBlock or by queries -/
  | readEndBlock
  /-- written in BeginBlock only -/
  | beginBlockOnly
  /-- body of a helper that writes the block context on behalf of a handler: its call sites are
  listed in `blockCtxWriterCalls` -/
  | writerHelper
deriving DecidableEq, Repr

def expectedUses : List (String × Use) := [
  ("consensus/cometbft/abci/mux.go:abciMux.processProvableEvents: ctx.BlockContext().ProvableEvents = append(ctx.BlockContext().ProvableEvents, pv...)", .muxBookkeeping),
  ("consensus/cometbft/abci/mux.go:abciMux.processProvableEvents: ctx.BlockContext().ProvableEvents = append(ctx.BlockContext().ProvableEvents, pv...)", .muxBookkeeping),
  ("consensus/cometbft/abci/system.go:abciMux.processSystemTx: ctx.BlockContext().SystemTransactions = append(ctx.BlockContext().SystemTransactions, tx)", .muxBookkeeping),
  ("consensus/cometbft/abci/system.go:abciMux.processSystemTx: ctx.BlockContext().SystemTransactions = append(ctx.BlockContext().SystemTransactions, tx)", .muxBookkeeping),
  ("consensus/cometbft/abci/system.go:abciMux.processSystemTx: proposerAddress := ctx.BlockContext().ProposerAddress", .readInput),
  ("consensus/cometbft/apps/roothash/api/block.go:RegisterRuntimeForFinalization: rts := ctx.BlockContext().Get(finalizationPendingRuntimesKey{}).(map[common.Namespace]struct{})", .writerHelper),
  ("consensus/cometbft/apps/roothash/api/block.go:RuntimesToFinalize: rts := ctx.BlockContext().Get(finalizationPendingRuntimesKey{}).(map[common.Namespace]struct{})", .readEndBlock),
  ("consensus/cometbft/apps/staking/proposing_rewards.go:Application.resolveEntityIDFromProposer: proposerAddress := ctx.BlockContext().ProposerAddress", .readInput),
  ("consensus/cometbft/apps/staking/staking.go:Application.BeginBlock: for … range ctx.BlockContext().ValidatorMisbehavior", .readInput),
  ("consensus/cometbft/apps/staking/staking.go:Application.BeginBlock: lastCommitInfo := ctx.BlockContext().LastCommitInfo", .readInput),
  ("consensus/cometbft/apps/staking/state/gas.go:AuthenticateAndPayFees: ctx.SetGasAccountant(abciAPI.NewCompositeGasAccountant( abciAPI.NewGasAccountant(fee.Gas), ctx.BlockContext().GasAccountant, ))", .authOnly),
  ("consensus/cometbft/apps/staking/state/gas.go:AuthenticateAndPayFees: feeAcc := ctx.BlockContext().Get(feeAccumulatorKey{}).(*feeAccumulator)", .authOnly),
  ("consensus/cometbft/apps/staking/state/gas.go:BlockFees: return ctx.BlockContext().Get(feeAccumulatorKey{}).(*feeAccumulator).balance", .readEndBlock),
  ("consensus/cometbft/apps/staking/state/gas.go:BlockProposer: return ctx.BlockContext().Get(proposerKey{}).(*signature.PublicKey)", .readEndBlock),
  ("consensus/cometbft/apps/staking/state/gas.go:SetBlockProposer: ctx.BlockContext().Set(proposerKey{}, p)", .beginBlockOnly)
]

/-- Every use of the block context is known and classified. -/
theorem block_context_uses_classified :
    Generated.MuxFacts.blockCtxUses = expectedUses.map (·.1) := by decide +kernel

/-- **The only handler that writes the block context does so after its last failing return**: the
runtime is registered for finalization only when the ExecutorCommit transaction is going to succeed. -/
theorem block_context_written_only_on_success :
    Generated.MuxFacts.blockCtxWriterCalls =
      ["consensus/cometbft/apps/roothash/transactions.go:Application.executorCommit: api.RegisterRuntimeForFinalization(ctx, cc.ID) failing-return-after=false"] := by
  decide +kernel

/-- Exactly one helper body writes the block context on behalf of handlers. -/
theorem one_writer_helper : (expectedUses.filter (fun e => e.2 == .writerHelper)).length = 1 := by decide

end OasisProofs.C08BlockCtx
