/-
C01 — regenerated statement pin of the node-local upgrade manager (go/upgrade/upgrade.go ConsensusUpgrade,
flushDescriptorLocked; go/upgrade/api/api.go PushStage, IsCompleted), the code OasisModel/Upgrade/Manager.lean
transcribes and Props/C01Upgrade.lean reasons about.  The manager's state is node-local and persisted outside
consensus state while the multiplexer consults it in BeginBlock, EndBlock and Commit of blocks that may be
executed more than once before they are committed: the consensus stage may be pushed only on the branch
`pu.UpgradeHeight < currentHeight`, never on the branch that runs the handler.

`tools/gen stmtfacts upgrademgr` flattens the functions into one line per simple statement on every run; the
lists are pinned here (`rfl`). A change of a statement, a condition or of the order of statements breaks the
pin until the new text has been read against the model.
-/
import Generated.StmtFactsUpgrademgr

namespace OasisProofs.C01UpgradeFacts

/-- Position of the first line equal to `s`. -/
def pos (l : List String) (s : String) : Option Nat :=
  let i := l.findIdx (· == s)
  if i < l.length then some i else none

/-- The lines occur in this order (strictly increasing positions). -/
def inOrder (l : List String) : List String → Option Nat → Bool
  | [], _ => true
  | s :: rest, prev =>
    match pos l s, prev with
    | none, _ => false
    | some i, none => inOrder l rest (some i)
    | some i, some p => decide (p < i) && inOrder l rest (some i)

def expected_consensusUpgradeStmts : List String := [
  "u.Lock()",
  "defer u.Unlock()",
  "if u.shouldStop {",
  "return api.ErrStopForUpgrade",
  "}",
  "for _, pu := range u.pending {",
  "if pu.UpgradeHeight == api.InvalidUpgradeHeight {",
  "if currentEpoch < pu.Descriptor.Epoch {",
  "continue",
  "}",
  "pu.UpgradeHeight = currentHeight",
  "if err := u.flushDescriptorLocked(); err != nil {",
  "return err",
  "}",
  "u.shouldStop = func() bool { if err := pu.Descriptor.EnsureCompatible(); err != nil { return true } handler, err := migrations.GetHandler(pu.Descriptor.Handler) if err != nil { return true } if handler.HasStartupUpgrade() { return true } return false }()",
  "if u.shouldStop {",
  "return api.ErrStopForUpgrade",
  "}",
  "u.logger.Info(\"skipping node restart as no startup upgrade stage needed\")",
  "pu.PushStage(api.UpgradeStageStartup)",
  "}",
  "if pu.UpgradeHeight < currentHeight {",
  "pu.PushStage(api.UpgradeStageConsensus)",
  "continue",
  "}",
  "if pu.UpgradeHeight > currentHeight {",
  "panic(\"consensus upgrade: UpgradeHeight is in the future but upgrade epoch seen already\")",
  "}",
  "if !pu.HasStage(api.UpgradeStageConsensus) && privateCtx != nil {",
  "u.logger.Warn(\"performing consensus upgrade\", \"handler\", pu.Descriptor.Handler, logging.LogEvent, api.LogEventConsensusUpgrade, )",
  "handler, err := migrations.GetHandler(pu.Descriptor.Handler)",
  "if err != nil {",
  "return err",
  "}",
  "if err := handler.ConsensusUpgrade(privateCtx); err != nil {",
  "return err",
  "}",
  "}",
  "}",
  "return u.flushDescriptorLocked()"]

theorem consensusUpgradeStmts_as_modelled : Generated.StmtFacts.Upgrademgr.consensusUpgradeStmts = expected_consensusUpgradeStmts := rfl

def expected_flushDescriptorLockedStmts : List String := [
  "var pending []*api.PendingUpgrade",
  "for _, pu := range u.pending {",
  "if pu.IsCompleted() {",
  "u.logger.Info(\"upgrade completed, removing state\", \"handler\", pu.Descriptor.Handler, )",
  "continue",
  "}",
  "pending = append(pending, pu)",
  "}",
  "u.pending = pending",
  "if len(u.pending) == 0 {",
  "if err := u.store.Delete(metadataStoreKey); err != persistent.ErrNotFound {",
  "return err",
  "}",
  "return nil",
  "}",
  "return u.store.PutCBOR(metadataStoreKey, u.pending)"]

theorem flushDescriptorLockedStmts_as_modelled : Generated.StmtFacts.Upgrademgr.flushDescriptorLockedStmts = expected_flushDescriptorLockedStmts := rfl

def expected_pushStageStmts : List String := [
  "if pu.LastCompletedStage+1 != stage {",
  "panic(\"upgrade: out of order upgrade stage execution\")",
  "}",
  "pu.LastCompletedStage = stage"]

theorem pushStageStmts_as_modelled : Generated.StmtFacts.Upgrademgr.pushStageStmts = expected_pushStageStmts := rfl

def expected_isCompletedStmts : List String := [
  "return pu.LastCompletedStage >= upgradeStageLast"]

theorem isCompletedStmts_as_modelled : Generated.StmtFacts.Upgrademgr.isCompletedStmts = expected_isCompletedStmts := rfl

theorem consensus_stage_pushed_only_past_the_upgrade_height :
    inOrder expected_consensusUpgradeStmts ["if pu.UpgradeHeight < currentHeight {", "pu.PushStage(api.UpgradeStageConsensus)", "if pu.UpgradeHeight > currentHeight {", "if !pu.HasStage(api.UpgradeStageConsensus) && privateCtx != nil {", "if err := handler.ConsensusUpgrade(privateCtx); err != nil {", "return u.flushDescriptorLocked()"] none = true := by decide +kernel

/-- The consensus stage is pushed at exactly one place of ConsensusUpgrade. -/
theorem consensus_stage_pushed_once :
    (expected_consensusUpgradeStmts.filter (fun l => l == "pu.PushStage(api.UpgradeStageConsensus)")).length = 1 := by
  decide +kernel

end OasisProofs.C01UpgradeFacts
