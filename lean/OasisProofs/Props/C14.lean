import OasisModel.Scheduler.Elect
import OasisModel.Scheduler.Spec
import OasisProofs.Helpers.SchedulerValidators
import OasisProofs.Helpers.SchedulerCommittee
import OasisProofs.Helpers.SchedulerDiff
import OasisProofs.Helpers.SchedulerEpoch
/-
C14 — elections are deterministic and elect only eligible nodes.

Theorems about the reference model `OasisModel.Scheduler` (Elect.lean) for *all* registries, stake
distributions, parameters (including non-positive limits), runtimes and *all* shuffles: the DRBG / VRF
order is an arbitrary function, each theorem names what it needs from it (nothing, "returns members of
its argument", or "returns a permutation").  The executable specification the theorems establish is
`OasisModel.Scheduler.ValidElection` (Spec.lean) — the same predicate the electdrv harness evaluates on
the outputs of the real Go code.  The Go code is tied to the model by the electdrv correspondence.
-/
namespace OasisProofs.C14
open OasisModel.Scheduler OasisProofs.SchedulerH

/-! ## power_monotone -/

/-- **Voting power is non-decreasing in stake and at least 1**, for the linear (divisor 16), the
square-root and any other distribution value; and the "too many base units" error is upward closed. -/
theorem power_monotone (dist s₁ s₂ : Nat) (h : s₁ ≤ s₂) :
    (∀ p₁, votingPower s₁ dist = some p₁ → 1 ≤ p₁) ∧
    (∀ p₁ p₂, votingPower s₁ dist = some p₁ → votingPower s₂ dist = some p₂ → p₁ ≤ p₂) ∧
    (votingPower s₁ dist = none → votingPower s₂ dist = none) := by
  have hm := magnitude_mono dist h
  have hp := magnitude_pos s₁ dist
  rw [votingPower_eq, votingPower_eq]
  refine ⟨?_, ?_, ?_⟩
  · intro p₁ h1
    split at h1
    · simp at h1; omega
    · simp at h1
  · intro p₁ p₂ h1 h2
    split at h1 <;> split at h2 <;> simp at h1 h2
    omega
  · intro h1
    split at h1
    · simp at h1
    · rename_i hge
      have : ¬ magnitude s₂ dist < 2 ^ 63 := by omega
      simp [this]

/-- A power that is returned is a positive int64; power 0 (a removal for the consensus engine) never is. -/
theorem power_in_range (dist s : Nat) (p : Int) (h : votingPower s dist = some p) : 1 ≤ p ∧ p < 2 ^ 63 := by
  rw [votingPower_eq] at h
  have hp := magnitude_pos s dist
  split at h
  · simp at h; omega
  · simp at h

/-! ## the validator election -/

/-- **elected_eligible (validators).**  Every entry of the pending validator set is backed by a
registered node with that consensus key, node id and entity which is not frozen, not expired, has the
validator role and whose entity's escrow covers all its stake claims (unless stake is bypassed); its
voting power is the one computed from the entity's escrow.  Needs only that the node shuffle returns
members of its argument. -/
theorem elected_eligible_validators (i : Inputs) (sh : Shuffles) (m : VMap) (vis : List Node)
    (hV : ∀ x ∈ sh.validators (candidates i), x ∈ candidates i)
    (h : validatorsOf i sh = .ok m vis) :
    m.all (validatorEntryOk i) = true := by
  have ⟨hl, _, _⟩ := electValidators_ok h
  rw [List.all_eq_true]
  intro x hx
  rcases electLoop_entries _ _ _ _ _ _ hl x hx with h0 | ⟨n, hn, pw, hpw, rfl⟩
  · simp at h0
  · obtain ⟨rest, hr⟩ := electLoop_prefix _ _ _ _ _ _ hl
    have hseq : n ∈ vis ++ rest := List.mem_append_left _ hn
    rw [← hr] at hseq
    have hc := hV n (mem_electSeq hseq).1
    have ⟨hall, hsch, hok⟩ := mem_candidates hc
    unfold validatorOk at hok
    simp only [Bool.and_eq_true] at hok
    unfold validatorEntryOk
    simp only [Bool.and_eq_true, List.any_eq_true, entryOf]
    refine ⟨⟨n, hall, ?_⟩, by simp [hpw]⟩
    unfold backsValidator
    simp [hsch, hok.1, hok.2]

/-- **Voting power follows stake inside the elected set**: of two pending validators the one whose
entity has at least as much escrow has at least as much voting power, and every power is a positive int64
(never 0, which the consensus engine would read as a removal). -/
theorem elected_power_monotone (i : Inputs) (sh : Shuffles) (m : VMap) (vis : List Node)
    (hV : ∀ x ∈ sh.validators (candidates i), x ∈ candidates i)
    (h : validatorsOf i sh = .ok m vis) :
    ∀ a ∈ m, ∀ b ∈ m, escrowOf i.st a.2.entity ≤ escrowOf i.st b.2.entity →
      1 ≤ a.2.power ∧ a.2.power ≤ b.2.power ∧ b.2.power < 2 ^ 63 := by
  have hall := elected_eligible_validators i sh m vis hV h
  rw [List.all_eq_true] at hall
  intro a ha b hb hle
  have hpa := hall a ha
  have hpb := hall b hb
  unfold validatorEntryOk at hpa hpb
  simp only [Bool.and_eq_true, beq_iff_eq] at hpa hpb
  have ha' := hpa.2
  have hb' := hpb.2
  unfold powerOf at ha' hb'
  by_cases hbp : i.p.bypassStake = true
  · simp [hbp] at ha' hb'
    omega
  · simp only [hbp, Bool.false_eq_true, if_false] at ha' hb'
    have hmono := power_monotone i.p.dist _ _ hle
    have := hmono.1 _ ha'
    have := hmono.2.1 _ _ ha' hb'
    have := (power_in_range _ _ _ hb').2
    omega

/-- **limits_hold (validators).**  A successful election returns at least one and at least
`MinValidators` validators, at most `max MaxValidators 1` (the code tests `>=` *after* inserting), and
no entity has more than `MaxValidatorsPerEntity` of them.  Needs the entity shuffle to be a permutation. -/
theorem limits_hold_validators (i : Inputs) (sh : Shuffles) (m : VMap) (vis : List Node)
    (hE : ∀ l, (sh.entities l).Perm l) (h : validatorsOf i sh = .ok m vis) :
    validatorLimitsOk i.p false m = true := by
  have ⟨hl, hpos, hmin⟩ := ok_loop h
  have ⟨_, ⟨rest, hr⟩, hk⟩ := ok_facts h
  have hlen := electLoop_length _ _ _ _ _ _ hl (by simp; omega)
  unfold validatorLimitsOk maxValidatorsBound
  simp only [Bool.false_eq_true, if_false, Bool.and_eq_true, decide_eq_true_eq, List.all_eq_true]
  refine ⟨⟨⟨hlen, ?_⟩, hpos⟩, hmin⟩
  intro kv _
  have h1 := electLoop_count i.p i.st kv.2.entity _ _ _ _ hl
  have h2 : countEnt kv.2.entity vis ≤ countEnt kv.2.entity (visitSeq i sh) := by
    rw [hr]; unfold countEnt; rw [List.countP_append]; omega
  have h3 := countEnt_electSeq_le i.p.maxPerEntity (sh.validators (candidates i)) kv.2.entity
    (entityOrder i sh) (entityOrder_nodup i sh hE)
  have h0 : countValEnt kv.2.entity ([] : VMap) = 0 := by simp [countValEnt]
  unfold visitSeq at h2
  omega

/-- With a sensible limit (`MaxValidators ≥ 1`) the bound is the configured one. -/
theorem limits_hold_validators_strict (i : Inputs) (sh : Shuffles) (m : VMap) (vis : List Node)
    (hE : ∀ l, (sh.entities l).Perm l) (hmax : 1 ≤ i.p.maxValidators) (h : validatorsOf i sh = .ok m vis) :
    validatorLimitsOk i.p true m = true := by
  have := limits_hold_validators i sh m vis hE h
  unfold validatorLimitsOk maxValidatorsBound at *
  simp only [Bool.false_eq_true, if_false, if_true, Bool.and_eq_true, decide_eq_true_eq] at *
  refine ⟨⟨⟨?_, this.1.1.2⟩, this.1.2⟩, this.2⟩
  have := this.1.1.1
  omega

/-- **The boundary the proof forces.**  With `MaxValidators ≤ 0` a successful election returns exactly
one validator (the `>=` test of scheduler.go:614 runs after the insertion): the configured limit is
exceeded by one.  A governance parameter change can set such a value (`changeParameters` does not
validate it; only `InitChain` rejects it). -/
theorem maxValidators_nonpositive_elects_one (i : Inputs) (sh : Shuffles) (m : VMap) (vis : List Node)
    (hmax : i.p.maxValidators ≤ 0) (h : validatorsOf i sh = .ok m vis) : m.length = 1 := by
  have ⟨hl, hpos, _⟩ := ok_loop h
  have hlen := electLoop_length _ _ _ _ _ _ hl (by simp; omega)
  omega

/-- **stake_order.**  Validators are taken in descending entity-stake order: an entity that competes
(has a schedulable validator node kept by the shuffle and covers its claims) and stayed without a
validator never has strictly more escrow than an entity that got one.  This holds modulo nothing else:
the per-entity limit only bounds how many nodes an entity gets, not whether it is visited.
Needs: stake not bypassed (the Go code does not sort then), shuffles that are permutations, and pairwise
distinct consensus keys in the registry (C17) so that no entry is overwritten. -/
theorem stake_order (i : Inputs) (sh : Shuffles) (m : VMap) (vis : List Node)
    (hE : ∀ l, (sh.entities l).Perm l)
    (hV : (sh.validators (candidates i)).Perm ((candidates i).filter (keptByShuffle i)))
    (hkeys : (i.all.map (·.consensus)).Nodup)
    (h : validatorsOf i sh = .ok m vis) :
    stakeOrderOk i m = true := by
  unfold stakeOrderOk
  by_cases hb : i.p.bypassStake = true
  · simp [hb]
  · have hb' : i.p.bypassStake = false := by simpa using hb
    simp only [hb', Bool.false_or, List.all_eq_true, Bool.or_eq_true, Bool.not_eq_true',
      decide_eq_true_eq]
    intro u hu
    by_cases hc : competes i u = true
    · by_cases hel : electedEntity m u.entity = true
      · exact Or.inl (Or.inr hel)
      · refine Or.inr ?_
        intro kv hkv
        have ⟨hl, _, _⟩ := ok_loop h
        have ⟨_, ⟨rest, hr⟩, hk⟩ := ok_facts h
        -- `u` is among the shuffled candidates
        unfold competes at hc
        simp only [Bool.and_eq_true] at hc
        have hucand : u ∈ candidates i := by
          unfold candidates validatorCandidates
          exact List.mem_filter.2 ⟨List.mem_filter.2 ⟨hu, hc.1.1⟩, hc.1.2⟩
        have hush : u ∈ sh.validators (candidates i) :=
          hV.mem_iff.2 (List.mem_filter.2 ⟨hucand, hc.2⟩)
        have huent : u.entity ∈ entityOrder i sh :=
          (sortedEntities_perm i.p i.st sh.entities hE _).mem_iff.2 (mem_entitiesOf.2 ⟨u, hucand, rfl⟩)
        obtain ⟨y, hy, hye⟩ := electSeq_has_entity hk huent hush
        have hy' : y ∈ vis ++ rest := hr ▸ hy
        -- a visited node of `u`'s entity would have made the entity elected
        have hnd : (keysOf ([] : VMap) ++ (visitSeq i sh).map (·.consensus)).Nodup := by
          simp only [keysOf, List.map_nil, List.nil_append]
          exact electSeq_consensus_nodup _ _ (shuffled_consensus_nodup i sh hV hkeys) _
            (entityOrder_nodup i sh hE)
        have hyrest : y ∈ rest := by
          rcases List.mem_append.1 hy' with hyv | hyr
          · exfalso
            obtain ⟨pw, _, hmem⟩ := electLoop_distinct _ _ _ _ _ _ hl hnd y hyv
            apply hel
            unfold electedEntity
            rw [List.any_eq_true]
            exact ⟨_, hmem, by simp [entryOf, hye]⟩
          · exact hyr
        -- every entry comes from a visited node, which precedes `y` in the stake order
        rcases electLoop_entries _ _ _ _ _ _ hl kv hkv with h0 | ⟨n, hn, pw, _, rfl⟩
        · simp at h0
        · have hsorted := electSeq_pairwise i.st i.p.maxPerEntity (sh.validators (candidates i))
            (entityOrder i sh) (sortedEntities_sorted i.p i.st sh.entities hb' _)
          have hsplit : (vis ++ rest).Pairwise (fun x y => escrowOf i.st y.entity ≤ escrowOf i.st x.entity) := by
            rw [← hr]; exact hsorted
          have := (List.pairwise_append.1 hsplit).2.2 n hn y hyrest
          simp only [entryOf]
          rw [← hye]; exact this
    · exact Or.inl (Or.inl (by simpa using hc))

/-! ## committees -/

/-- **elected_eligible + limits_hold (committees).**  Whenever the model elects an executor committee
for a runtime: the runtime is a compute runtime with `GroupSize > 0` (and the VRF alpha was not weak);
there are exactly `GroupSize` workers followed by exactly `GroupBackupSize` backup workers, no node
twice in a role, at most `MaxNodes` nodes per entity in a role, the candidate pool of every wanted role
had at least `MinPoolSize` nodes after de-duplication; and every member is a registered node that is not
frozen, not expired, (VRF) eligible for election and with a proof, has the compute role, runs the
runtime's active version, is not suspended, passed the TEE check, whose entity covers its stake claims
and satisfies the validator-set constraint.  Otherwise there is no committee at all (`dropped`), or the
runtime is not a compute runtime and is left alone.  Needs: shuffles that are permutations, distinct
node ids in the registry. -/
theorem committee_ok (i : Inputs) (sh : Shuffles) (ve : List Nat) (rt : Runtime)
    (hD : ∀ role l, (sh.dedup rt.id role l).Perm l) (hC : ∀ role l, (sh.committee rt.id role l).Perm l)
    (hids : (i.all.map (·.id)).Nodup) :
    committeeResultOk i ve rt
      (electCommittee i.p i.st sh i.epoch ve rt (committeeNodes i.p i.epoch i.all)) = true := by
  unfold electCommittee
  split
  · rename_i hskip; simpa [committeeResultOk] using hskip
  · rename_i hskip
    split
    · simp [committeeResultOk]
    · rename_i ms hms
      simp only [committeeResultOk]
      unfold electMembers at hms
      split at hms
      · simp at hms
      · rename_i hweak
        split at hms
        · simp at hms
        · rename_i hgs
          split at hms
          · simp at hms
          · rename_i w hw
            have hwok := roleOk_of_electRole i sh ve rt .worker w (hD _) (hC _) hids hw
            have hbase : (decide (0 < rt.groupSize) && !(i.p.fv261 && !rt.isCompute) &&
                !(i.p.useVRF && !i.p.canElect && !i.p.weakAlpha)) = true := by
              have h1 : 0 < rt.groupSize := by omega
              simp only [Bool.and_eq_true, decide_eq_true_eq, Bool.not_eq_true']
              exact ⟨⟨h1, by simpa using hskip⟩, by simpa using hweak⟩
            split at hms
            · rename_i hbs
              simp at hms; subst hms
              unfold committeeOk
              have hmw : membersOf .worker (w.map (fun n => (Role.worker, n))) = w := membersOf_tag_same _ _
              have hmb : membersOf .backup (w.map (fun n => (Role.worker, n))) = [] :=
                membersOf_tag_other _ _ (by decide) _
              have hrw : roleOk i ve rt .worker (w.map (fun n => (Role.worker, n))) = true := by
                unfold roleOk; simp only [hmw]
                simp only [Bool.and_eq_true, Bool.or_eq_true, decide_eq_true_eq]
                exact ⟨⟨hwok.1, hwok.2.1⟩, Or.inr hwok.2.2⟩
              have hrb : roleOk i ve rt .backup (w.map (fun n => (Role.worker, n))) = true := by
                unfold roleOk; simp only [hmb]
                have : rt.size .backup = 0 := hbs
                simp [roleLimitsOk, idsDistinct, this]
                split <;> simp
              simp only [Bool.and_eq_true] at hbase ⊢
              refine ⟨⟨⟨hbase, ?_⟩, hrw⟩, hrb⟩
              rw [hmw, hmb]; simp
            · rename_i hbs
              split at hms
              · simp at hms
              · rename_i b hb
                have hbok := roleOk_of_electRole i sh ve rt .backup b (hD _) (hC _) hids hb
                simp at hms; subst hms
                unfold committeeOk
                have hmw : membersOf .worker (w.map (fun n => (Role.worker, n)) ++ b.map (fun n => (Role.backup, n))) = w := by
                  rw [membersOf_append, membersOf_tag_same, membersOf_tag_other _ _ (by decide)]; simp
                have hmb : membersOf .backup (w.map (fun n => (Role.worker, n)) ++ b.map (fun n => (Role.backup, n))) = b := by
                  rw [membersOf_append, membersOf_tag_same, membersOf_tag_other _ _ (by decide)]; simp
                have hrw : roleOk i ve rt .worker (w.map (fun n => (Role.worker, n)) ++ b.map (fun n => (Role.backup, n))) = true := by
                  unfold roleOk; simp only [hmw]
                  simp only [Bool.and_eq_true, Bool.or_eq_true, decide_eq_true_eq]
                  exact ⟨⟨hwok.1, hwok.2.1⟩, Or.inr hwok.2.2⟩
                have hrb : roleOk i ve rt .backup (w.map (fun n => (Role.worker, n)) ++ b.map (fun n => (Role.backup, n))) = true := by
                  unfold roleOk; simp only [hmb]
                  simp only [Bool.and_eq_true, Bool.or_eq_true, decide_eq_true_eq]
                  exact ⟨⟨hbok.1, hbok.2.1⟩, Or.inr hbok.2.2⟩
                simp only [Bool.and_eq_true] at hbase ⊢
                refine ⟨⟨⟨hbase, ?_⟩, hrw⟩, hrb⟩
                rw [hmw, hmb]; simp

/-- **elected_eligible.**  In an epoch transition of the model every pending validator and every member
of every elected committee is backed by a registered node that passed every filter (see
`elected_eligible_validators` and `committee_ok` for what the two predicates say). -/
theorem elected_eligible (i : Inputs) (sh : Shuffles) (m : VMap) (vis : List Node)
    (hV : ∀ x ∈ sh.validators (candidates i), x ∈ candidates i)
    (hD : ∀ rt role l, (sh.dedup rt role l).Perm l) (hC : ∀ rt role l, (sh.committee rt role l).Perm l)
    (hids : (i.all.map (·.id)).Nodup)
    (hok : validatorsOf i sh = .ok m vis) :
    m.all (validatorEntryOk i) = true ∧
    ∀ rt ms, electCommittee i.p i.st sh i.epoch (vis.map (·.entity)) rt (committeeNodes i.p i.epoch i.all) = .elected ms →
      ∀ role, (membersOf role ms).all (fun n => memberOk i (vis.map (·.entity)) rt role n.id) = true := by
  refine ⟨elected_eligible_validators i sh m vis hV hok, ?_⟩
  intro rt ms hms role
  have := committee_ok i sh (vis.map (·.entity)) rt (hD rt.id) (hC rt.id) hids
  rw [hms] at this
  simp only [committeeResultOk, committeeOk, roleOk, Bool.and_eq_true] at this
  cases role with
  | worker => exact this.1.2.1.2
  | backup => exact this.2.1.2

/-- **limits_hold.**  The configured limits hold in every epoch transition of the model with
`MaxValidators ≥ 1` (what genesis and the parameter-change validation guarantee, see
`reachable_limits_positive`): between `MinValidators` and exactly `MaxValidators` validators, at most
`MaxValidatorsPerEntity` per entity; an elected committee has exactly `GroupSize` workers and exactly
`GroupBackupSize` backup workers — or there is no committee at all —, no node twice in a role and at
most `MaxNodes` nodes per entity in a role.  (Without the hypothesis the count bound is
`max MaxValidators 1`: `limits_hold_validators`, `maxValidators_nonpositive_elects_one`.) -/
theorem limits_hold (i : Inputs) (sh : Shuffles) (m : VMap) (vis : List Node)
    (hmax : 1 ≤ i.p.maxValidators)
    (hE : ∀ l, (sh.entities l).Perm l)
    (hD : ∀ rt role l, (sh.dedup rt role l).Perm l) (hC : ∀ rt role l, (sh.committee rt role l).Perm l)
    (hids : (i.all.map (·.id)).Nodup)
    (hok : validatorsOf i sh = .ok m vis) :
    validatorLimitsOk i.p true m = true ∧
    ∀ rt ms, electCommittee i.p i.st sh i.epoch (vis.map (·.entity)) rt (committeeNodes i.p i.epoch i.all) = .elected ms →
      ∀ role, roleLimitsOk rt role (membersOf role ms) = true := by
  refine ⟨limits_hold_validators_strict i sh m vis hE hmax hok, ?_⟩
  intro rt ms hms role
  have := committee_ok i sh (vis.map (·.entity)) rt (hD rt.id) (hC rt.id) hids
  rw [hms] at this
  simp only [committeeResultOk, committeeOk, roleOk, Bool.and_eq_true] at this
  cases role with
  | worker => exact this.1.2.1.1
  | backup => exact this.2.1.1

/-- **Non-positive limits are unreachable.**  Genesis-valid parameters stay with `MinValidators ≥ 1`,
`MaxValidators ≥ 1`, `MaxValidatorsPerEntity ≥ 1` under every sequence of governance parameter-change
proposals, accepted or rejected (`ConsensusParameterChanges.SanityCheck` + `Apply`; the per-entity limit
cannot be changed at all). -/
theorem reachable_limits_positive (p : Params) (cs : List ParamChange) (h : genesisValid p = true) :
    genesisValid (cs.foldl applyChange p) = true := by
  induction cs generalizing p with
  | nil => exact h
  | cons c cs ih =>
    apply ih
    unfold applyChange
    split
    · rename_i hacc
      unfold changeAcceptedFor changeAccepted at hacc
      unfold genesisValid at h ⊢
      simp only [Bool.and_eq_true, decide_eq_true_eq] at h hacc ⊢
      refine ⟨⟨?_, ?_⟩, h.2⟩
      · cases hc : c.minValidators with
        | none => simpa using h.1.1
        | some v => have := hacc.1.1.2; rw [hc] at this; simpa using this
      · cases hc : c.maxValidators with
        | none => simpa using h.1.2
        | some v => have := hacc.1.2; rw [hc] at this; simpa using this
    · exact h

/-! ## validator updates -/

/-- **diff_applies.**  The validator updates handed to the consensus engine turn the previous set into
exactly the newly elected one: no key occurs twice, a removal (power 0) names a current validator that
is gone, an upsert names a new validator or one whose power changed (no spurious updates), and applying
the updates to the previous set gives the new set as a map key ↦ power.  Needs distinct keys in both
sets and non-zero powers in the new one (voting power ≥ 1 is `power_monotone`). -/
theorem diff_applies (cur new : VMap) (hc : (keysOf cur).Nodup) (hn : (keysOf new).Nodup)
    (hp : ∀ kv ∈ new, kv.2.power ≠ 0) :
    diffOk cur new (diffValidators cur new) = true := by
  unfold diffOk
  simp only [Bool.and_eq_true]
  refine ⟨⟨?_, ?_⟩, ?_⟩
  · unfold updateKeysDistinct
    rw [List.all_eq_true]
    intro u hu
    have := all_count_one (fun u : Update => u.1) _ (update_keys_nodup cur new hc hn) u hu
    simpa using this
  · rw [List.all_eq_true]
    intro u hu
    unfold updateNeeded
    rw [diff_eq] at hu
    rcases List.mem_append.1 hu with hu | hu
    · have ⟨h0, hk, _⟩ := mem_removals hu
      simp only [h0, if_true, lookup_toPMap]
      cases hl : cur.lookup u.1 with
      | none => exact absurd hk ((lookup_none_iff cur u.1).1 hl)
      | some w => simp [powerIn, hl]
    · obtain ⟨v, hv, hpw, hne⟩ := mem_upserts hu
      have h0 : ¬ v.power = 0 := hp _ hv
      simp only [lookup_toPMap, hpw, h0, if_false]
      simpa using hne
  · unfold sameMap
    rw [List.all_eq_true]
    intro k _
    simp [diff_lookup cur new hc hn hp k]

/-- The same, against *any* engine state that agrees with the tracked current set as a map (the engine
need not store its validators in the scheduler's order). -/
theorem diff_applies_to_engine (engine : PMap) (cur new : VMap)
    (hagree : ∀ j, engine.lookup j = (toPMap cur).lookup j)
    (hc : (keysOf cur).Nodup) (hn : (keysOf new).Nodup) (hp : ∀ kv ∈ new, kv.2.power ≠ 0) (j : Nat) :
    (applyUpdates engine (diffValidators cur new)).lookup j = (toPMap new).lookup j := by
  rw [← diff_lookup cur new hc hn hp j, lookup_applyUpdates, lookup_applyUpdates]
  have : (fun k => engine.lookup k) = fun k => (toPMap cur).lookup k := funext hagree
  rw [this]

/-- A history of epoch transitions as the scheduler and the consensus engine see it: the scheduler
tracks `current`, hands `diffValidators current new` to the engine, and stores `new` as `current`
(`updateValidators`, scheduler.go:334-367). -/
def runHistory : VMap → PMap → List VMap → VMap × PMap
  | cur, engine, [] => (cur, engine)
  | cur, engine, new :: rest => runHistory new (applyUpdates engine (diffValidators cur new)) rest

/-- **Successive epochs.**  Over any history of elected validator sets (each with distinct keys and
non-zero powers, which `validator_keys_distinct` and `power_monotone` give for every set the election
produces), starting from an engine that agrees with the tracked set, the consensus engine's validator
set equals the latest elected set after every epoch: the updates never drift. -/
theorem updates_track_history : ∀ (news : List VMap) (cur : VMap) (engine : PMap),
    (∀ j, engine.lookup j = (toPMap cur).lookup j) → (keysOf cur).Nodup →
    (∀ new ∈ news, (keysOf new).Nodup ∧ ∀ kv ∈ new, kv.2.power ≠ 0) →
    ∀ j, (runHistory cur engine news).2.lookup j = (toPMap (runHistory cur engine news).1).lookup j := by
  intro news
  induction news with
  | nil => intro cur engine hagree _ _ j; exact hagree j
  | cons new rest ih =>
    intro cur engine hagree hc hall j
    have hnew := hall new (by simp)
    simp only [runHistory]
    apply ih new _ _ hnew.1 (fun n hn => hall n (List.mem_cons_of_mem _ hn))
    intro j'
    exact diff_applies_to_engine engine cur new hagree hc hnew.1 hnew.2 j'

/-! ## the whole epoch -/

/-- The pending validator set never has two entries under one consensus key (it is a map). -/
theorem validator_keys_distinct (i : Inputs) (sh : Shuffles) (m : VMap) (vis : List Node)
    (h : validatorsOf i sh = .ok m vis) : (keysOf m).Nodup ∧ keysDistinct m = true := by
  have ⟨hl, _, _⟩ := ok_loop h
  have hnd := electLoop_keys_nodup _ _ _ _ _ _ hl (by simp [keysOf])
  refine ⟨hnd, ?_⟩
  unfold keysDistinct
  rw [List.all_eq_true]
  intro kv hkv
  have := all_count_one (fun kv : Nat × Validator => kv.1) m hnd kv hkv
  simpa using this

/-- What the shuffles of an epoch must be for the whole specification: permutations (of the candidates
the validator order keeps, for the node shuffle). -/
structure ShufflesArePerms (i : Inputs) (sh : Shuffles) : Prop where
  entities : ∀ l, (sh.entities l).Perm l
  validators : (sh.validators (candidates i)).Perm ((candidates i).filter (keptByShuffle i))
  dedup : ∀ rt role l, (sh.dedup rt role l).Perm l
  committee : ∀ rt role l, (sh.committee rt role l).Perm l

/-- Registry invariants used (C17): node ids, consensus keys and runtime ids are unique. -/
structure RegistryUnique (i : Inputs) : Prop where
  ids : (i.all.map (·.id)).Nodup
  consensus : (i.all.map (·.consensus)).Nodup
  runtimes : (i.runtimes.map (·.id)).Nodup

/-- What one epoch produces in the model: pending validators, one result per runtime, and the updates
against the previous validator set; `none` when the validator election fails (the block is rejected). -/
def modelOutputs (i : Inputs) (sh : Shuffles) (prev : VMap) : Option Outputs :=
  match (electAll i.p i.st sh i.epoch i.all i.runtimes).validators with
  | .ok m _ => some
      { validators := m
        committees := (electAll i.p i.st sh i.epoch i.all i.runtimes).committees
        previous := prev
        updates := diffValidators prev m }
  | _ => none

theorem model_satisfies_spec_any (i : Inputs) (sh : Shuffles) (prev : VMap) (o : Outputs) (strict : Bool)
    (hstrict : strict = true → 1 ≤ i.p.maxValidators)
    (hsh : ShufflesArePerms i sh) (hreg : RegistryUnique i) (hprev : (keysOf prev).Nodup)
    (h : modelOutputs i sh prev = some o) :
    ValidElection i strict o = true := by
  unfold modelOutputs at h
  have hv : (electAll i.p i.st sh i.epoch i.all i.runtimes).validators = validatorsOf i sh := rfl
  rw [hv] at h
  split at h
  · rename_i m vis hok
    simp at h
    subst h
    have hcom : (electAll i.p i.st sh i.epoch i.all i.runtimes).committees =
        i.runtimes.map (fun rt => (rt.id, electCommittee i.p i.st sh i.epoch (vis.map (·.entity)) rt
          (committeeNodes i.p i.epoch i.all))) := by
      have : (electAll i.p i.st sh i.epoch i.all i.runtimes).committees =
          electCommittees i.p i.st sh i.epoch i.all i.runtimes (validatorsOf i sh) := rfl
      rw [this, hok]
      rfl
    have ⟨hknd, hkd⟩ := validator_keys_distinct i sh m vis hok
    unfold ValidElection
    simp only [Bool.and_eq_true]
    refine ⟨⟨?_, ?_⟩, ?_⟩
    · unfold validatorsOk
      simp only [Bool.and_eq_true]
      have hlim : validatorLimitsOk i.p strict m = true := by
        cases strict with
        | false => exact limits_hold_validators i sh m vis hsh.entities hok
        | true => exact limits_hold_validators_strict i sh m vis hsh.entities (hstrict rfl) hok
      refine ⟨⟨⟨hkd, ?_⟩, hlim⟩,
        stake_order i sh m vis hsh.entities hsh.validators hreg.consensus hok⟩
      apply elected_eligible_validators i sh m vis _ hok
      intro x hx
      exact (List.mem_filter.1 (hsh.validators.mem_iff.1 hx)).1
    · rw [List.all_eq_true]
      intro rt hrt
      simp only [hcom]
      have hl := lookup_of_mem_nodup
        (i.runtimes.map (fun rt => (rt.id, electCommittee i.p i.st sh i.epoch (vis.map (·.entity)) rt
          (committeeNodes i.p i.epoch i.all)))) rt.id _
        (by rw [List.map_map]; exact hreg.runtimes)
        (List.mem_map.2 ⟨rt, hrt, rfl⟩)
      rw [hl]
      simp only
      rw [← committeeResultOk_congr i rt _ _
        (validatorEntities_eq i sh m vis hsh.entities hsh.validators hreg.consensus hok)]
      exact committee_ok i sh _ rt (hsh.dedup rt.id) (hsh.committee rt.id) hreg.ids
    · apply diff_applies prev m hprev hknd
      intro kv hkv
      have hall := elected_eligible_validators i sh m vis
        (fun x hx => (List.mem_filter.1 (hsh.validators.mem_iff.1 hx)).1) hok
      rw [List.all_eq_true] at hall
      have := hall kv hkv
      unfold validatorEntryOk at this
      simp only [Bool.and_eq_true, beq_iff_eq] at this
      have hpw := this.2
      unfold powerOf at hpw
      split at hpw
      · simp at hpw; omega
      · have := (power_in_range _ _ _ hpw).1; omega
  · simp at h

/-- **The model satisfies the executable specification.**  For every registry, stake distribution,
runtime list, previous validator set, every parameter setting with `MaxValidators ≥ 1` (all reachable
ones, `reachable_limits_positive`) and every choice of shuffles that are permutations: whatever an epoch
transition of the model produces passes `ValidElection` with the configured limits — the predicate the
harness evaluates on the outputs of the real scheduler. -/
theorem model_satisfies_spec (i : Inputs) (sh : Shuffles) (prev : VMap) (o : Outputs)
    (hmax : 1 ≤ i.p.maxValidators)
    (hsh : ShufflesArePerms i sh) (hreg : RegistryUnique i) (hprev : (keysOf prev).Nodup)
    (h : modelOutputs i sh prev = some o) :
    ValidElection i true o = true :=
  model_satisfies_spec_any i sh prev o true (fun _ => hmax) hsh hreg hprev h

/-- For unreachable parameter values too, with the count bound `max MaxValidators 1`. -/
theorem model_satisfies_spec_lenient (i : Inputs) (sh : Shuffles) (prev : VMap) (o : Outputs)
    (hsh : ShufflesArePerms i sh) (hreg : RegistryUnique i) (hprev : (keysOf prev).Nodup)
    (h : modelOutputs i sh prev = some o) :
    ValidElection i false o = true :=
  model_satisfies_spec_any i sh prev o false (fun h => by simp at h) hsh hreg hprev h

/-! ## elect_deterministic -/

/-- **elect_deterministic.**  The outcome of an epoch transition is a function of chain state (registry
with node status, staking accounts and thresholds, parameters, runtimes, epoch) and of what the
entropy-derived shuffles do *on the lists the election actually hands them*: two runs whose shuffles
agree on those lists produce identical validators, committees and validator updates.  (Being a total
function of its arguments the model cannot depend on anything else — wall clock, map iteration order,
replica identity.) -/
theorem elect_deterministic (i : Inputs) (sh sh' : Shuffles)
    (hE : ∀ l, sh.entities l = sh'.entities l)
    (hV : sh.validators (candidates i) = sh'.validators (candidates i))
    (hD : ∀ rt role l, sh.dedup rt role l = sh'.dedup rt role l)
    (hC : ∀ rt role l, sh.committee rt role l = sh'.committee rt role l) :
    electAll i.p i.st sh i.epoch i.all i.runtimes = electAll i.p i.st sh' i.epoch i.all i.runtimes := by
  have h1 : sh.entities = sh'.entities := funext hE
  have h2 : sh.dedup = sh'.dedup := by funext a b c; exact hD a b c
  have h3 : sh.committee = sh'.committee := by funext a b c; exact hC a b c
  have hval : electValidators i.p i.st sh (i.all.filter (schedulable i.epoch)) =
      electValidators i.p i.st sh' (i.all.filter (schedulable i.epoch)) := by
    unfold electValidators
    unfold candidates at hV
    simp only [h1, hV]
  have hcom : ∀ ve rt nodes, electCommittee i.p i.st sh i.epoch ve rt nodes =
      electCommittee i.p i.st sh' i.epoch ve rt nodes := by
    intro ve rt nodes
    unfold electCommittee electMembers electRole dedupPool
    simp only [h2, h3]
  unfold electAll electCommittees
  simp only [hval, hcom]

/-- The entity order does not depend on the order in which the Go map of entities is iterated
(`maps.Keys` in `stakingAddressMapToSliceByStake`): any two enumerations of the same set of addresses
give the same sorted-shuffled-sorted list. -/
theorem entity_order_map_iteration_independent (p : Params) (st : Staking) (sh : List Nat → List Nat)
    (l l' : List Nat) (h : l.Perm l') : sortedEntities p st sh l = sortedEntities p st sh l' := by
  unfold sortedEntities
  rw [sortAddrs_congr h]

/-! ## the shuffle hypotheses are what the real DRBG delivers -/

/-- `rand.Perm(n)` returns a permutation of `0..n-1`; indexing a list of length `n` with it (what
`shuffleNodes` and the committee election do) permutes the list.  The harness feeds the real DRBG's
index lists to the model through exactly this function. -/
theorem permShuffle_perm {α : Type} (perms : Nat → List Nat) (l : List α)
    (h : (perms l.length).Perm (List.range l.length)) : (permShuffle perms l).Perm l := by
  unfold permShuffle applyPerm
  have := List.Perm.filterMap (fun i => l[i]?) h
  rw [range_filterMap_get] at this
  exact this

theorem betaDedupKeys_nodes (key : Node → Option Nat) : ∀ (l : List Node) (seen : List Nat),
    (l.filterMap key).Nodup → (∀ k ∈ l.filterMap key, k ∉ seen) →
    (betaDedupKeys key l seen).map (·.2) = l.filter (fun n => (key n).isSome) := by
  intro l
  induction l with
  | nil => intro seen _ _; simp [betaDedupKeys]
  | cons n rest ih =>
    intro seen hnd hseen
    cases hk : key n with
    | none =>
      simp only [betaDedupKeys, hk, List.filter_cons, Option.isSome_none, Bool.false_eq_true, if_false]
      simp only [List.filterMap_cons, hk] at hnd hseen
      exact ih seen hnd hseen
    | some k =>
      simp only [List.filterMap_cons, hk] at hnd hseen
      have ⟨hkr, hnd'⟩ := List.nodup_cons.1 hnd
      have hks : seen.contains k = false := by
        have := hseen k (by simp)
        simpa using this
      simp only [betaDedupKeys, hk, hks, Bool.false_eq_true, if_false, List.map_cons, List.filter_cons,
        Option.isSome_some, if_true]
      congr 1
      apply ih (k :: seen) hnd'
      intro k' hk' hmem
      rcases List.mem_cons.1 hmem with rfl | hmem
      · exact hkr hk'
      · exact hseen k' (List.mem_cons_of_mem _ hk') hmem

/-- The VRF order (`sortNodesByHashedBeta`): when the hashed betas of the nodes do not collide, the
result is a permutation of exactly the nodes that submitted a proof — the shape `ShufflesArePerms` and
`stake_order` ask for (`key n = none` stands for `vrf.Pi[n.ID] == nil`). -/
theorem betaShuffle_perm (key : Node → Option Nat) (l : List Node) (hnd : (l.filterMap key).Nodup) :
    (betaShuffle key l).Perm (l.filter (fun n => (key n).isSome)) := by
  unfold betaShuffle
  have h1 := (sortBy_perm (fun a b : Nat × Node => decide (a.1 ≤ b.1)) (betaDedupKeys key l [])).map (·.2)
  rw [betaDedupKeys_nodes key l [] hnd (by simp)] at h1
  exact h1

/-! ## non-vacuity: a concrete registry on which every hypothesis holds and every clause bites -/

/-- Identity shuffles (a legitimate DRBG outcome). -/
def idSh : Shuffles :=
  { entities := id, validators := id, dedup := fun _ _ l => l, committee := fun _ _ l => l }

def demoSt : Staking :=
  { thresholds := fun k => if k = 1 then 100 else 0
    account := fun e =>
      if e = 10 then { escrow := 3200, claims := [[.global 1]] }
      else if e = 20 then { escrow := 100, claims := [[.global 1]] }        -- exactly at the threshold
      else if e = 30 then { escrow := 99, claims := [[.global 1]] }         -- one below: ineligible
      else if e = 40 then { escrow := 6400, claims := [[.global 1], [.const 50]] }
      else {} }

def demoNodes : List Node :=
  [ { id := 1, entity := 10, consensus := 101, roles := 9, expiration := 9, runtimes := [{ rt := 7, version := 2 }] },
    { id := 2, entity := 10, consensus := 102, roles := 9, expiration := 9, runtimes := [{ rt := 7, version := 2 }] },
    { id := 3, entity := 20, consensus := 103, roles := 9, expiration := 9, runtimes := [{ rt := 7, version := 2 }] },
    { id := 4, entity := 30, consensus := 104, roles := 8, expiration := 9 },
    -- frozen
    { id := 5, entity := 40, consensus := 105, roles := 9, expiration := 9, freezeEnd := 3, runtimes := [{ rt := 7, version := 2 }] },
    { id := 6, entity := 40, consensus := 106, roles := 9, expiration := 9, runtimes := [{ rt := 7, version := 2 }] },
    -- expired
    { id := 7, entity := 20, consensus := 107, roles := 9, expiration := 4, runtimes := [{ rt := 7, version := 2 }] } ]

def demoRt : Runtime :=
  { id := 7, groupSize := 2, backupSize := 1, deployments := [(0, 1), (3, 2)]
    csWorker := { maxNodes := some 1, minPoolSize := some 3 }
    csBackup := { validatorSet := true } }

def demo : Inputs :=
  { p := { minValidators := 1, maxValidators := 2, maxPerEntity := 1 }
    st := demoSt, epoch := 5, all := demoNodes, runtimes := [demoRt] }

/-- three entities compete (10, 20, 40), two seats: the two largest escrows win, in stake order -/
example : validatorsOf demo idSh =
    .ok [(106, ⟨6, 40, 400⟩), (101, ⟨1, 10, 200⟩)] [demoNodes[5], demoNodes[0]] := by decide

/-- a committee is elected: one worker per entity (MaxNodes 1), backup worker from a validator entity -/
example : (electAll demo.p demo.st idSh demo.epoch demo.all demo.runtimes).committees =
    [(7, .elected [(.worker, demoNodes[0]), (.worker, demoNodes[2]), (.backup, demoNodes[0])])] := by decide

theorem demo_shuffles : ShufflesArePerms demo idSh where
  entities := fun _ => List.Perm.refl _
  validators := by
    have : (candidates demo).filter (keptByShuffle demo) = candidates demo := by decide
    rw [this]; exact List.Perm.refl _
  dedup := fun _ _ _ => List.Perm.refl _
  committee := fun _ _ _ => List.Perm.refl _

theorem demo_registry : RegistryUnique demo where
  ids := by decide
  consensus := by decide
  runtimes := by decide

/-- previous validator set: node 3 (entity 20) is replaced, node 1 changes power, node 6 is new -/
def demoPrev : VMap := [(103, ⟨3, 20, 6⟩), (101, ⟨1, 10, 100⟩)]

example : (modelOutputs demo idSh demoPrev).map (·.updates) = some [(103, 0), (106, 400), (101, 200)] := by decide

/-- two further epochs: the engine's view follows the elected sets -/
example : (runHistory demoPrev (toPMap demoPrev)
    [[(106, ⟨6, 40, 400⟩), (101, ⟨1, 10, 200⟩)], [(103, ⟨3, 20, 6⟩), (106, ⟨6, 40, 410⟩)]]).2 =
    [(106, 410), (103, 6)] := by decide

/-- the master theorem applies to the demo epoch (its hypotheses are satisfiable) … -/
example : ∀ o, modelOutputs demo idSh demoPrev = some o → ValidElection demo true o = true :=
  fun o h => model_satisfies_spec demo idSh demoPrev o (by decide) demo_shuffles demo_registry (by decide) h

/-- … and the specification is not trivially true: electing the ineligible node 4 (escrow one below its
claims), exceeding the per-entity limit, or dropping the removal from the updates is rejected. -/
example : validatorEntryOk demo (104, ⟨4, 30, 6⟩) = false := by decide

example : validatorEntryOk demo (105, ⟨5, 40, 400⟩) = false := by decide   -- frozen

example : validatorEntryOk demo (107, ⟨7, 20, 6⟩) = false := by decide     -- expired

example : validatorLimitsOk demo.p true [(101, ⟨1, 10, 200⟩), (102, ⟨2, 10, 200⟩)] = false := by decide

example : stakeOrderOk demo [(103, ⟨3, 20, 6⟩), (101, ⟨1, 10, 200⟩)] = false := by decide

example : diffOk demoPrev [(106, ⟨6, 40, 400⟩), (101, ⟨1, 10, 200⟩)] [(106, 400), (101, 200)] = false := by decide

example : diffOk demoPrev [(106, ⟨6, 40, 400⟩), (101, ⟨1, 10, 200⟩)] [(103, 0), (106, 400), (101, 200), (101, 200)] = false := by decide

example : committeeOk demo [40, 10] demoRt [(.worker, demoNodes[0]), (.worker, demoNodes[1]), (.backup, demoNodes[0])] = false := by decide

example : committeeOk demo [40, 10] demoRt [(.worker, demoNodes[0]), (.worker, demoNodes[2]), (.backup, demoNodes[2])] = false := by decide

/-- parameter changes: non-positive limits are rejected and change nothing, valid ones apply -/
example : applyChange demo.p { maxValidators := some 0 } = demo.p ∧
    applyChange demo.p { minValidators := some (-1), maxValidators := some 5 } = demo.p ∧
    (applyChange demo.p { maxValidators := some 5 }).maxValidators = 5 ∧ genesisValid demo.p = true := by decide

/-- the boundary of the election function (unreachable since the parameter validation): `MaxValidators = 0`
still elects one validator, which the strict specification rejects -/
example : validatorLimitsOk { demo.p with maxValidators := 0 } true [(106, ⟨6, 40, 400⟩)] = false := by decide
example : (match validatorsOf { demo with p := { demo.p with maxValidators := 0 } } idSh with
    | .ok m _ => m.length | _ => 0) = 1 := by decide

/-- voting power: linear with divisor 16, at least 1, and the int64 boundary -/
example : votingPower 0 0 = some 1 ∧ votingPower 15 0 = some 1 ∧ votingPower 32 0 = some 2 := by decide

example : votingPower (2 ^ 67 - 1) 0 = some (2 ^ 63 - 1) ∧ votingPower (2 ^ 67) 0 = none := by decide

end OasisProofs.C14
