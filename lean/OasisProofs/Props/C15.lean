import OasisModel.Staking.SharePool
import OasisModel.Staking.Debond
import OasisProofs.Helpers.Staking
import Generated.SharePoolGen
import Mathlib.Tactic.Ring
import Mathlib.Tactic.Linarith
/-
C15 — escrow shares are fair: no value is created or taken by rounding.

All theorems are over `Nat` (Go: `big.Int`, unbounded) and hold for every pool state, amount and
history; the model (`OasisModel.Staking.SharePool`, `.Debond`) is tied to the Go source by the
regenerated translation `Generated.SharePoolGen` (bridge lemmas at the end of this file) and by the
sharedrv / ledgerdrv correspondence.
-/
namespace OasisProofs.C15
open OasisModel OasisModel.Staking OasisModel.Staking.SharePool OasisProofs.StakingH
open OasisModel.Staking.DebSt
open Generated

/-! ### Redemption value -/

/-- A redemption pays at most the shares' pro-rata worth: `paid · TS ≤ shares · B`. -/
theorem stakeForShares_mul_le (p : SharePool) (s : Nat) :
    stakeForShares p s * p.totalShares ≤ s * p.balance := by
  unfold stakeForShares
  split
  · simp
  · exact Nat.div_mul_le_self _ _

/-- ... and less than one base unit below it: `shares · B < (paid + 1) · TS` (when the pool has shares). -/
theorem stakeForShares_lt (p : SharePool) (s : Nat) (hts : p.totalShares ≠ 0) :
    s * p.balance < (stakeForShares p s + 1) * p.totalShares := by
  have hpos : 0 < p.totalShares := Nat.pos_of_ne_zero hts
  unfold stakeForShares
  split
  · rename_i h
    rcases h with h | h | h
    · subst h; simpa using hpos
    · rw [h]; simpa using hpos
    · exact absurd h hts
  · have := Nat.lt_succ_iff.mpr (Nat.le_refl (s * p.balance / p.totalShares))
    rw [Nat.div_lt_iff_lt_mul hpos] at this
    exact this

theorem stakeForShares_le_balance (p : SharePool) (s : Nat) (h : s ≤ p.totalShares) :
    stakeForShares p s ≤ p.balance := by
  by_cases hts : p.totalShares = 0
  · simp [stakeForShares, hts]
  · have h1 := stakeForShares_mul_le p s
    have h2 : s * p.balance ≤ p.totalShares * p.balance := Nat.mul_le_mul_right _ h
    have h3 : stakeForShares p s * p.totalShares ≤ p.balance * p.totalShares := by
      rw [Nat.mul_comm p.balance]; exact Nat.le_trans h1 h2
    exact Nat.le_of_mul_le_mul_right h3 (Nat.pos_of_ne_zero hts)

theorem stakeForShares_all (p : SharePool) (hwf : WF p) :
    stakeForShares p p.totalShares = p.balance := by
  unfold stakeForShares
  by_cases hts : p.totalShares = 0
  · simp [hts, hwf hts]
  · by_cases hb : p.balance = 0
    · simp [hb]
    · simp [hts, hb]

/-- Redemption value is monotone in the price (cross-multiplied): if `B·TS' ≤ B'·TS` then every
holding `x` (with `x = 0` or `TS' ≠ 0`) redeems for at least as much in the new pool. -/
theorem stakeForShares_mono_price (p p' : SharePool) (x : Nat)
    (hprice : p.balance * p'.totalShares ≤ p'.balance * p.totalShares)
    (hx : x = 0 ∨ p'.totalShares ≠ 0) :
    stakeForShares p x ≤ stakeForShares p' x := by
  by_cases hx0 : x = 0
  · simp [stakeForShares, hx0]
  · have hts' : p'.totalShares ≠ 0 := by rcases hx with h | h; exact absurd h hx0; exact h
    by_cases hb : p.balance = 0
    · simp [stakeForShares, hb]
    · by_cases hts : p.totalShares = 0
      · simp [stakeForShares, hts]
      · have hb' : p'.balance ≠ 0 := by
          intro h0; rw [h0] at hprice; simp at hprice
          rcases hprice with h | h
          · exact hb h
          · exact hts' h
        simp only [stakeForShares, hx0, hb, hts, hb', hts', or_self, if_false]
        apply div_le_div_cross (Nat.pos_of_ne_zero hts) (Nat.pos_of_ne_zero hts')
        calc x * p.balance * p'.totalShares = x * (p.balance * p'.totalShares) := by ring
          _ ≤ x * (p'.balance * p.totalShares) := Nat.mul_le_mul_left x hprice
          _ = x * p'.balance * p.totalShares := by ring

/-! ### Deposit -/

/-- A deposit mints at most the pro-rata number of shares: `shares · B ≤ amount · TS`. -/
theorem deposit_shares_le (p : SharePool) (sd ss a : Nat) (r : DepositRes)
    (h : deposit p sd ss a = .ok r) (hts : p.totalShares ≠ 0) :
    r.shares * p.balance ≤ a * p.totalShares := by
  obtain ⟨s, hs, _, rfl⟩ := deposit_ok h
  rcases sharesForStake_ok hs with ⟨h0, _⟩ | ⟨_, _, rfl⟩
  · exact absurd h0 hts
  · exact Nat.div_mul_le_self _ _

/-- ... and loses less than one share to rounding: `amount · TS < (shares + 1) · B`. -/
theorem deposit_shares_lt (p : SharePool) (sd ss a : Nat) (r : DepositRes)
    (h : deposit p sd ss a = .ok r) (hts : p.totalShares ≠ 0) :
    a * p.totalShares < (r.shares + 1) * p.balance := by
  obtain ⟨s, hs, _, rfl⟩ := deposit_ok h
  rcases sharesForStake_ok hs with ⟨h0, _⟩ | ⟨_, hb, rfl⟩
  · exact absurd h0 hts
  · have := Nat.lt_succ_iff.mpr (Nat.le_refl (a * p.totalShares / p.balance))
    rw [Nat.div_lt_iff_lt_mul (Nat.pos_of_ne_zero hb)] at this
    exact this

/-- On a pool without shares the rate is 1:1. -/
theorem deposit_empty_one_to_one (p : SharePool) (sd ss a : Nat) (r : DepositRes)
    (h : deposit p sd ss a = .ok r) (hts : p.totalShares = 0) : r.shares = a := by
  obtain ⟨s, hs, _, rfl⟩ := deposit_ok h
  rcases sharesForStake_ok hs with ⟨_, h1⟩ | ⟨h0, _, _⟩
  · exact h1
  · exact absurd hts h0

/-- A pool whose balance was slashed to zero while shares are outstanding accepts no deposit. -/
theorem deposit_refused_zero_balance (p : SharePool) (sd ss a : Nat)
    (hts : p.totalShares ≠ 0) (hb : p.balance = 0) :
    deposit p sd ss a = .error .invalidArgument := by
  simp [deposit, sharesForStake, hts, hb]

/-- What a successful deposit does: exactly `amount` moves from the source into the balance,
exactly the minted shares are added to the total and to the destination. -/
theorem deposit_moves (p : SharePool) (sd ss a : Nat) (r : DepositRes) (h : deposit p sd ss a = .ok r) :
    a ≤ ss ∧ r.pool.balance = p.balance + a ∧ r.stakeSrc + a = ss ∧
    r.pool.totalShares = p.totalShares + r.shares ∧ r.shareDst = sd + r.shares := by
  obtain ⟨s, _, hle, rfl⟩ := deposit_ok h
  exact ⟨hle, rfl, by simp; omega, rfl, rfl⟩

/-- A deposit fails only when shares exist but the balance is zero, or the source is short. -/
theorem deposit_succeeds (p : SharePool) (sd ss a : Nat) (hle : a ≤ ss)
    (hp : p.totalShares = 0 ∨ p.balance ≠ 0) : ∃ r, deposit p sd ss a = .ok r := by
  unfold deposit sharesForStake
  rcases hp with h | h
  · simp [h, Nat.not_lt.mpr hle]
  · by_cases hts : p.totalShares = 0
    · simp [hts, Nat.not_lt.mpr hle]
    · simp [hts, h, Nat.not_lt.mpr hle]

theorem deposit_wf (p : SharePool) (sd ss a : Nat) (r : DepositRes)
    (h : deposit p sd ss a = .ok r) (hwf : WF p) : WF r.pool := by
  obtain ⟨s, hs, _, rfl⟩ := deposit_ok h
  intro h0
  simp only at h0 ⊢
  have hts : p.totalShares = 0 := by omega
  rcases sharesForStake_ok hs with ⟨_, h1⟩ | ⟨h1, _, _⟩
  · have := hwf hts; omega
  · exact absurd hts h1

/-- A deposit never lowers the price `B/TS` (cross-multiplied). -/
theorem deposit_price_nondecreasing (p : SharePool) (sd ss a : Nat) (r : DepositRes)
    (h : deposit p sd ss a = .ok r) (hwf : WF p) :
    p.balance * r.pool.totalShares ≤ r.pool.balance * p.totalShares := by
  by_cases hts : p.totalShares = 0
  · simp [hts, hwf hts]
  · have hle := deposit_shares_le p sd ss a r h hts
    obtain ⟨hx, hb, _, ht, _⟩ := deposit_moves p sd ss a r h
    rw [hb, ht]
    nlinarith

/-- Hence nobody's redeemable value falls through somebody's deposit. -/
theorem deposit_others_value_not_reduced (p : SharePool) (sd ss a : Nat) (r : DepositRes)
    (h : deposit p sd ss a = .ok r) (hwf : WF p) (x : Nat) :
    stakeForShares p x ≤ stakeForShares r.pool x := by
  by_cases hts : r.pool.totalShares = 0
  · have : p.totalShares = 0 := by
      have := (deposit_moves p sd ss a r h).2.2.2.1; omega
    simp [stakeForShares, this]
  · exact stakeForShares_mono_price p r.pool x (deposit_price_nondecreasing p sd ss a r h hwf) (Or.inr hts)

/-! ### Withdraw -/

/-- A redemption pays `⌊shares·B/TS⌋`, which is at most the pro-rata worth, out of the balance. -/
theorem withdraw_pays_le (p : SharePool) (sd ss s : Nat) (r : WithdrawRes)
    (h : withdraw p sd ss s = .ok r) :
    ∃ paid, r.stakeDst = sd + paid ∧ r.pool.balance + paid = p.balance ∧
      paid * p.totalShares ≤ s * p.balance ∧
      r.pool.totalShares + s = p.totalShares ∧ r.shareSrc + s = ss := by
  obtain ⟨h1, h2, h3, rfl⟩ := withdraw_ok h
  exact ⟨stakeForShares p s, rfl, by simp; omega, stakeForShares_mul_le p s, by simp; omega, by simp; omega⟩

/-- The balance can always cover a redemption: `Withdraw` fails only for lack of shares. -/
theorem withdraw_succeeds (p : SharePool) (sd ss s : Nat) (h1 : s ≤ ss) (h2 : s ≤ p.totalShares) :
    ∃ r, withdraw p sd ss s = .ok r := by
  have h3 := stakeForShares_le_balance p s h2
  unfold withdraw
  simp [Nat.not_lt.mpr h1, Nat.not_lt.mpr h2, Nat.not_lt.mpr h3]

/-- Redeeming all shares pays out the whole balance and leaves the pool empty. -/
theorem withdraw_all_empties (p : SharePool) (sd ss : Nat) (r : WithdrawRes) (hwf : WF p)
    (h : withdraw p sd ss p.totalShares = .ok r) :
    r.stakeDst = sd + p.balance ∧ r.pool = { balance := 0, totalShares := 0 } := by
  obtain ⟨_, _, _, rfl⟩ := withdraw_ok h
  simp [stakeForShares_all p hwf]

theorem withdraw_wf (p : SharePool) (sd ss s : Nat) (r : WithdrawRes)
    (h : withdraw p sd ss s = .ok r) (hwf : WF p) : WF r.pool := by
  obtain ⟨_, h2, _, rfl⟩ := withdraw_ok h
  intro h0
  simp only at h0 ⊢
  have hs : s = p.totalShares := by omega
  subst hs
  rw [stakeForShares_all p hwf]; omega

/-- A redemption never lowers the price `B/TS` (cross-multiplied). -/
theorem withdraw_price_nondecreasing (p : SharePool) (sd ss s : Nat) (r : WithdrawRes)
    (h : withdraw p sd ss s = .ok r) :
    p.balance * r.pool.totalShares ≤ r.pool.balance * p.totalShares := by
  obtain ⟨_, h2, h3, rfl⟩ := withdraw_ok h
  have hle := stakeForShares_mul_le p s
  simp only
  generalize stakeForShares p s = paid at *
  obtain ⟨b', hb'⟩ : ∃ b', p.balance = b' + paid := ⟨p.balance - paid, by omega⟩
  obtain ⟨t', ht'⟩ : ∃ t', p.totalShares = t' + s := ⟨p.totalShares - s, by omega⟩
  rw [hb', ht'] at hle ⊢
  simp only [Nat.add_sub_cancel]
  nlinarith

/-- Hence nobody's redeemable value falls through somebody else's redemption
(`x` ranges over what the others can hold: `x ≤ TS − s`). -/
theorem withdraw_others_value_not_reduced (p : SharePool) (sd ss s : Nat) (r : WithdrawRes)
    (h : withdraw p sd ss s = .ok r) (x : Nat) (hx : x ≤ r.pool.totalShares) :
    stakeForShares p x ≤ stakeForShares r.pool x := by
  apply stakeForShares_mono_price p r.pool x (withdraw_price_nondecreasing p sd ss s r h)
  by_cases h0 : x = 0
  · exact Or.inl h0
  · exact Or.inr (by omega)

/-! ### No profit from a round trip; own operations never raise the own position -/

/-- Depositing and immediately redeeming the minted shares returns at most the amount. -/
theorem no_profit_roundtrip (p : SharePool) (sd ss a sd' : Nat) (r : DepositRes) (w : WithdrawRes)
    (hwf : WF p) (hd : deposit p sd ss a = .ok r)
    (hw : withdraw r.pool sd' r.shareDst r.shares = .ok w) :
    w.stakeDst ≤ sd' + a := by
  obtain ⟨_, _, _, rfl⟩ := withdraw_ok hw
  simp only
  apply Nat.add_le_add_left
  by_cases hts : p.totalShares = 0
  · have hs := deposit_empty_one_to_one p sd ss a r hd hts
    obtain ⟨_, hb, _, ht, _⟩ := deposit_moves p sd ss a r hd
    have : stakeForShares r.pool r.shares ≤ r.pool.balance :=
      stakeForShares_le_balance _ _ (by omega)
    rw [hb, hwf hts] at this; omega
  · have hle := deposit_shares_le p sd ss a r hd hts
    obtain ⟨_, hb, _, ht, _⟩ := deposit_moves p sd ss a r hd
    have h1 := stakeForShares_mul_le r.pool r.shares
    rw [hb, ht] at h1
    have hpos : 0 < p.totalShares + r.shares := by omega
    have : stakeForShares r.pool r.shares * (p.totalShares + r.shares) ≤ a * (p.totalShares + r.shares) := by
      nlinarith
    exact Nat.le_of_mul_le_mul_right this hpos

/-- Own deposit: the holder's redeemable value grows by at most the amount paid in. -/
theorem own_deposit_value_le (p : SharePool) (sd ss a x : Nat) (r : DepositRes)
    (hwf : WF p) (hx : x ≤ p.totalShares) (hd : deposit p sd ss a = .ok r) :
    stakeForShares r.pool (x + r.shares) ≤ stakeForShares p x + a := by
  obtain ⟨_, hb, _, ht, _⟩ := deposit_moves p sd ss a r hd
  by_cases hts : p.totalShares = 0
  · have hs := deposit_empty_one_to_one p sd ss a r hd hts
    have hx0 : x = 0 := by omega
    have : stakeForShares r.pool (x + r.shares) ≤ r.pool.balance :=
      stakeForShares_le_balance _ _ (by omega)
    rw [hb, hwf hts] at this; omega
  · have hle := deposit_shares_le p sd ss a r hd hts
    have hlt := stakeForShares_lt p x hts
    have h1 := stakeForShares_mul_le r.pool (x + r.shares)
    rw [hb, ht] at h1
    generalize stakeForShares r.pool (x + r.shares) = v' at *
    generalize stakeForShares p x = v at *
    generalize r.shares = s at *
    generalize p.totalShares = T at *
    generalize p.balance = B at *
    -- v' (T+s) ≤ (x+s)(B+a);  xB < (v+1) T;  sB ≤ aT;  x ≤ T  ⊢  v' ≤ v + a
    by_contra hcon
    have hv : v + a + 1 ≤ v' := by omega
    have hT : 0 < T := Nat.pos_of_ne_zero hts
    -- (v+a+1)(T+s) ≤ (x+s)(B+a)
    have h2 : (v + a + 1) * (T + s) ≤ (x + s) * (B + a) :=
      Nat.le_trans (Nat.mul_le_mul_right _ hv) h1
    -- multiply by T and compare
    have h3 : (x + s) * (B + a) * T ≤ (x * B + a * T) * (T + s) := by
      obtain ⟨d, hd⟩ : ∃ d, T = x + d := ⟨T - x, by omega⟩
      subst hd
      obtain ⟨e, he⟩ : ∃ e, a * (x + d) = s * B + e := ⟨a * (x + d) - s * B, by omega⟩
      have : (x * B + a * (x + d)) * (x + d + s) = (x + s) * (B + a) * (x + d) + d * e := by
        have hK : (x + s) * (B + a) * (x + d) = (x + s) * (B * (x + d) + a * (x + d)) := by ring
        rw [hK, he]; ring
      omega
    have h4 : (x * B + a * T) < (v + a + 1) * T := by nlinarith
    have h5 : (x * B + a * T) * (T + s) < (v + a + 1) * T * (T + s) :=
      Nat.mul_lt_mul_of_pos_right h4 (by omega)
    have h6 : (v + a + 1) * (T + s) * T ≤ (x + s) * (B + a) * T := Nat.mul_le_mul_right T h2
    have h7 : (v + a + 1) * T * (T + s) = (v + a + 1) * (T + s) * T := by ring
    omega

/-- Own redemption: what is paid out plus what the remaining shares are worth afterwards is at
most what the holding was worth before. -/
theorem own_withdraw_value_le (p : SharePool) (sd ss s x : Nat) (r : WithdrawRes)
    (hx : x ≤ p.totalShares) (hs : s ≤ x) (hw : withdraw p sd ss s = .ok r) :
    stakeForShares r.pool (x - s) + stakeForShares p s ≤ stakeForShares p x := by
  obtain ⟨_, h2, h3, rfl⟩ := withdraw_ok hw
  simp only
  by_cases hts : p.totalShares = 0
  · have : x = 0 := by omega
    subst this
    have : s = 0 := by omega
    subst this
    simp [stakeForShares]
  · by_cases hxs : x = s
    · subst hxs; simp [stakeForShares]
    · have hT' : p.totalShares - s ≠ 0 := by omega
      have hlt := stakeForShares_lt p x hts
      have hle := stakeForShares_mul_le p s
      have h1 := stakeForShares_mul_le
        { balance := p.balance - stakeForShares p s, totalShares := p.totalShares - s } (x - s)
      simp only at h1
      generalize stakeForShares
        { balance := p.balance - stakeForShares p s, totalShares := p.totalShares - s } (x - s) = v' at *
      generalize stakeForShares p s = q at *
      generalize stakeForShares p x = v at *
      generalize p.totalShares = T at *
      generalize p.balance = B at *
      -- v'(T-s) ≤ (x-s)(B-q); qT ≤ sB; xB < (v+1)T ; q ≤ B; s ≤ x ≤ T; ⊢ v' + q ≤ v
      obtain ⟨y, rfl⟩ : ∃ y, x = s + y := ⟨x - s, by omega⟩
      obtain ⟨d, rfl⟩ : ∃ d, T = s + y + d := ⟨T - (s + y), by omega⟩
      obtain ⟨B', rfl⟩ : ∃ B', B = q + B' := ⟨B - q, by omega⟩
      have e1 : s + y - s = y := by omega
      have e2 : s + y + d - s = y + d := by omega
      have e3 : q + B' - q = B' := by omega
      rw [e1, e2, e3] at h1
      by_contra hcon
      have hv : v + 1 ≤ v' + q := by omega
      -- (v+1) T ≤ (v'+q) T = v' (y+d) + v' s + q T
      have hyd : 0 < y + d := by omega
      -- From h1: v' (y+d) ≤ y B'
      -- Want contradiction with (s+y)(q+B') < (v+1)(s+y+d)
      have k1 : (v + 1) * (s + y + d) ≤ (v' + q) * (s + y + d) := Nat.mul_le_mul_right _ hv
      -- multiply target by (y+d):  (v'+q)(s+y+d)(y+d) ≤ (s+y)(q+B')(y+d) ?
      -- v'(y+d) ≤ yB'  and  q(s+y+d) ≤ s(q+B') i.e. q(y+d) ≤ sB'
      have k2 : q * (y + d) ≤ s * B' := by nlinarith
      obtain ⟨e, he⟩ : ∃ e, s * B' = q * (y + d) + e := ⟨s * B' - q * (y + d), by omega⟩
      have k3 : (s + y) * (q + B') * (y + d)
          = y * B' * (s + y + d) + q * (s + y + d) * (y + d) + d * e := by
        have hK : (s + y) * (q + B') * (y + d) = (y + d) * ((s + y) * q + y * B' + s * B') := by ring
        have hR : y * B' * (s + y + d) = y * (s * B') + y * B' * (y + d) := by ring
        have gen : ∀ K, K = q * (y + d) + e →
            (y + d) * ((s + y) * q + y * B' + K)
              = y * K + y * B' * (y + d) + q * (s + y + d) * (y + d) + d * e := by
          intro K hK; subst hK; ring
        rw [hK, hR]; exact gen _ he
      have k4 : (v' + q) * (s + y + d) * (y + d) ≤ (s + y) * (q + B') * (y + d) := by
        have a1 : (v' + q) * (s + y + d) * (y + d)
            = v' * (y + d) * (s + y + d) + q * (s + y + d) * (y + d) := by ring
        have a2 : v' * (y + d) * (s + y + d) ≤ y * B' * (s + y + d) := Nat.mul_le_mul_right _ h1
        omega
      have k5 : (s + y) * (q + B') * (y + d) < (v + 1) * (s + y + d) * (y + d) :=
        Nat.mul_lt_mul_of_pos_right hlt hyd
      have k6 : (v + 1) * (s + y + d) * (y + d) ≤ (v' + q) * (s + y + d) * (y + d) :=
        Nat.mul_le_mul_right _ k1
      omega


/-! ### Histories: one delegator against the rest of the pool -/

/-- Invariant of the two-party view: the shares add up and the pool is well-formed. -/
def FairInv (f : Fair) : Prop := f.pool.totalShares = f.mine + f.rest ∧ WF f.pool

theorem fair_step_inv (f : Fair) (st : FStep) (h : FairInv f) : FairInv (f.step st) := by
  obtain ⟨hsum, hwf⟩ := h
  cases st with
  | deposit own a =>
    cases own
    · simp only [Fair.step]
      cases hd : deposit f.pool f.rest a a with
      | error e => exact ⟨hsum, hwf⟩
      | ok r =>
        obtain ⟨_, _, _, ht, hsd⟩ := deposit_moves _ _ _ _ _ hd
        exact ⟨by simp only; omega, deposit_wf _ _ _ _ _ hd hwf⟩
    · simp only [Fair.step]
      cases hd : deposit f.pool f.mine a a with
      | error e => exact ⟨hsum, hwf⟩
      | ok r =>
        obtain ⟨_, _, _, ht, hsd⟩ := deposit_moves _ _ _ _ _ hd
        exact ⟨by simp only; omega, deposit_wf _ _ _ _ _ hd hwf⟩
  | withdraw own s =>
    cases own
    · simp only [Fair.step]
      cases hw : withdraw f.pool 0 f.rest s with
      | error e => exact ⟨hsum, hwf⟩
      | ok r =>
        obtain ⟨_, _, _, _, ht, hss⟩ := withdraw_pays_le _ _ _ _ _ hw
        exact ⟨by simp only; omega, withdraw_wf _ _ _ _ _ hw hwf⟩
    · simp only [Fair.step]
      cases hw : withdraw f.pool 0 f.mine s with
      | error e => exact ⟨hsum, hwf⟩
      | ok r =>
        obtain ⟨_, _, _, _, ht, hss⟩ := withdraw_pays_le _ _ _ _ _ hw
        exact ⟨by simp only; omega, withdraw_wf _ _ _ _ _ hw hwf⟩
  | reward r =>
    simp only [Fair.step]
    split
    · exact ⟨hsum, hwf⟩
    · rename_i hb
      refine ⟨hsum, ?_⟩
      intro h0; exact absurd (hwf h0) hb
  | slash k =>
    simp only [Fair.step]
    refine ⟨hsum, ?_⟩
    intro h0
    have := hwf h0
    simp only at h0 ⊢
    omega

theorem fair_run_inv (f : Fair) (steps : List FStep) (h : FairInv f) : FairInv (f.run steps) := by
  induction steps generalizing f with
  | nil => exact h
  | cons st rest ih => exact ih _ (fair_step_inv f st h)

/-- The share price falls only through slashing: every other step leaves `B/TS` (cross-multiplied)
at least where it was. -/
theorem price_falls_only_by_slash (f : Fair) (st : FStep) (h : FairInv f)
    (hns : ∀ k, st ≠ .slash k) :
    f.pool.balance * (f.step st).pool.totalShares ≤ (f.step st).pool.balance * f.pool.totalShares := by
  obtain ⟨hsum, hwf⟩ := h
  cases st with
  | deposit own a =>
    cases own <;> simp only [Fair.step]
    · cases hd : deposit f.pool f.rest a a with
      | error e => exact Nat.le_refl _
      | ok r => exact deposit_price_nondecreasing _ _ _ _ _ hd hwf
    · cases hd : deposit f.pool f.mine a a with
      | error e => exact Nat.le_refl _
      | ok r => exact deposit_price_nondecreasing _ _ _ _ _ hd hwf
  | withdraw own s =>
    cases own <;> simp only [Fair.step]
    · cases hw : withdraw f.pool 0 f.rest s with
      | error e => exact Nat.le_refl _
      | ok r => exact withdraw_price_nondecreasing _ _ _ _ _ hw
    · cases hw : withdraw f.pool 0 f.mine s with
      | error e => exact Nat.le_refl _
      | ok r => exact withdraw_price_nondecreasing _ _ _ _ _ hw
  | reward r =>
    simp only [Fair.step]
    split
    · exact Nat.le_refl _
    · simp only; nlinarith
  | slash k => exact absurd rfl (hns k)

/-- Potential-function step: with `c` fixed, the bound
`paidOut + value ≤ paidIn + envGain + c` is preserved by every step. Own deposits and
redemptions never increase `paidOut + value − paidIn`; steps of others and rewards only
increase the value by what is booked in `envGain`; slashing lowers the value. -/
theorem fair_step_bound (f : Fair) (st : FStep) (c : Nat) (h : FairInv f)
    (hb : f.paidOut + f.value ≤ f.paidIn + f.envGain + c) :
    (f.step st).paidOut + (f.step st).value ≤ (f.step st).paidIn + (f.step st).envGain + c := by
  obtain ⟨hsum, hwf⟩ := h
  cases st with
  | deposit own a =>
    cases own <;> simp only [Fair.step]
    · cases hd : deposit f.pool f.rest a a with
      | error e => exact hb
      | ok r =>
        have := deposit_others_value_not_reduced _ _ _ _ _ hd hwf f.mine
        simp only [Fair.value] at *
        omega
    · cases hd : deposit f.pool f.mine a a with
      | error e => exact hb
      | ok r =>
        have := own_deposit_value_le f.pool f.mine a a f.mine r hwf (by omega) hd
        obtain ⟨_, _, _, _, hsd⟩ := deposit_moves _ _ _ _ _ hd
        simp only [Fair.value] at *
        rw [hsd]; omega
  | withdraw own s =>
    cases own <;> simp only [Fair.step]
    · cases hw : withdraw f.pool 0 f.rest s with
      | error e => exact hb
      | ok r =>
        obtain ⟨_, _, _, _, ht, hss⟩ := withdraw_pays_le _ _ _ _ _ hw
        have := withdraw_others_value_not_reduced _ _ _ _ _ hw f.mine (by omega)
        simp only [Fair.value] at *
        omega
    · cases hw : withdraw f.pool 0 f.mine s with
      | error e => exact hb
      | ok r =>
        obtain ⟨h1, _, _, hr⟩ := withdraw_ok hw
        have := own_withdraw_value_le f.pool 0 f.mine s f.mine r (by omega) h1 hw
        simp only [Fair.value] at *
        rw [hr] at this ⊢
        simp only [Nat.zero_add] at this ⊢
        omega
  | reward r =>
    simp only [Fair.step]
    split
    · exact hb
    · have : stakeForShares f.pool f.mine
          ≤ stakeForShares { f.pool with balance := f.pool.balance + r } f.mine := by
        apply stakeForShares_mono_price
        · simp only; nlinarith
        · simp only
          by_cases h0 : f.pool.totalShares = 0
          · left; omega
          · right; exact h0
      simp only [Fair.value] at *
      omega
  | slash k =>
    simp only [Fair.step]
    have : stakeForShares { f.pool with balance := f.pool.balance -
          (if f.pool.balance < k then f.pool.balance else k) } f.mine
          ≤ stakeForShares f.pool f.mine := by
      apply stakeForShares_mono_price
      · simp only; apply Nat.mul_le_mul_right; omega
      · by_cases h0 : f.pool.totalShares = 0
        · left; omega
        · right; exact h0
    simp only [Fair.value] at *
    omega

theorem fair_run_bound (f : Fair) (steps : List FStep) (c : Nat) (h : FairInv f)
    (hb : f.paidOut + f.value ≤ f.paidIn + f.envGain + c) :
    (f.run steps).paidOut + (f.run steps).value
      ≤ (f.run steps).paidIn + (f.run steps).envGain + c := by
  induction steps generalizing f with
  | nil => exact hb
  | cons st rest ih => exact ih _ (fair_step_inv f st h) (fair_step_bound f st c h hb)

/-- **No profit over arbitrary interleavings.** Follow one delegator through any history of
deposits and redemptions by itself and by others, rewards and slashes, starting from any
well-formed pool: what it redeemed plus what its remaining shares are worth never exceeds what
it paid in plus what its holding was worth initially plus the value increases that happened
across steps of *others* (their rounding dust) and rewards. -/
theorem history_no_profit (f : Fair) (steps : List FStep) (h : FairInv f)
    (h0 : f.paidIn = 0 ∧ f.paidOut = 0 ∧ f.envGain = 0) :
    (f.run steps).paidOut + (f.run steps).value
      ≤ (f.run steps).paidIn + f.value + (f.run steps).envGain := by
  have := fair_run_bound f steps f.value h (by omega)
  omega

/-- A step is "own" if it is a deposit/redemption of the followed delegator or a slash. -/
def ownOrSlash : FStep → Bool
  | .deposit own _ => own
  | .withdraw own _ => own
  | .reward _ => false
  | .slash _ => true

theorem envGain_unchanged (f : Fair) (steps : List FStep) (hall : ∀ st ∈ steps, ownOrSlash st = true) :
    (f.run steps).envGain = f.envGain := by
  induction steps generalizing f with
  | nil => rfl
  | cons st rest ih =>
    have h1 : (f.step st).envGain = f.envGain := by
      have := hall st (List.mem_cons_self ..)
      cases st with
      | deposit own a =>
        simp [ownOrSlash] at this; subst this
        simp only [Fair.step]; split <;> rfl
      | withdraw own s =>
        simp [ownOrSlash] at this; subst this
        simp only [Fair.step]; split <;> rfl
      | reward r => simp [ownOrSlash] at this
      | slash k => rfl
    have := ih (f.step st) (fun s hs => hall s (List.mem_cons_of_mem _ hs))
    simp only [Fair.run, List.foldl] at this ⊢
    rw [this, h1]

/-- Without rewards and without operations of others, no sequence of own deposits and redemptions
(and slashes) returns more than was put in: `paidOut + value ≤ paidIn + initial value`. -/
theorem own_history_no_profit (f : Fair) (steps : List FStep) (h : FairInv f)
    (h0 : f.paidIn = 0 ∧ f.paidOut = 0 ∧ f.envGain = 0)
    (hall : ∀ st ∈ steps, ownOrSlash st = true) :
    (f.run steps).paidOut + (f.run steps).value ≤ (f.run steps).paidIn + f.value := by
  have := history_no_profit f steps h h0
  rw [envGain_unchanged f steps hall] at this
  omega

/-- The value increase booked for a reward `r` is at most the holder's pro-rata share of it,
rounded up: `value' ≤ value + ⌊x·r/TS⌋ + 1`. -/
theorem reward_gain_le (p : SharePool) (x r : Nat) (hts : p.totalShares ≠ 0) (hb : p.balance ≠ 0) :
    stakeForShares { p with balance := p.balance + r } x
      ≤ stakeForShares p x + x * r / p.totalShares + 1 := by
  by_cases hx : x = 0
  · simp [stakeForShares, hx]
  · have hb' : p.balance + r ≠ 0 := by omega
    simp only [stakeForShares, hx, hb, hts, hb', or_self, if_false]
    rw [Nat.mul_add]
    exact add_div_le_succ _ _ _ (Nat.pos_of_ne_zero hts)


/-! ### Slashing -/

/-- `slashPool` takes `min(⌊B·amount/total⌋, B)` from the pool and leaves the shares alone. -/
theorem slashPool_spec (dst : Nat) (p : SharePool) (amount total : Nat) (ht : total ≠ 0) :
    let q := p.balance * amount / total
    let m := if p.balance < q then p.balance else q
    slashPool dst p amount total = (dst + m, { balance := p.balance - m, totalShares := p.totalShares }) := by
  simp [slashPool, ht, Quantity.moveUpTo]

theorem slashPool_zero_total (dst : Nat) (p : SharePool) (amount : Nat) :
    slashPool dst p amount 0 = (dst, p) := by
  simp [slashPool]

/-- Slashing conserves value (what leaves the two pools arrives in the common pool), never touches
share counts, and takes at most `amount` and at most what is there. -/
theorem slash_conserves (a d : SharePool) (common amount : Nat) :
    let r := slashEscrow a d common amount
    r.active.balance + r.debonding.balance + r.common = a.balance + d.balance + common ∧
    r.common = common + r.slashed ∧
    r.active.totalShares = a.totalShares ∧ r.debonding.totalShares = d.totalShares ∧
    r.slashed ≤ amount ∧ r.slashed ≤ a.balance + d.balance ∧
    r.active.balance ≤ a.balance ∧ r.debonding.balance ≤ d.balance := by
  by_cases ht : a.balance + d.balance = 0
  · have ha : a.balance = 0 := by omega
    have hd : d.balance = 0 := by omega
    simp [slashEscrow, slashPool, ha, hd]
  · have h1 := slashPool_spec 0 a amount (a.balance + d.balance) ht
    have h2 := slashPool_spec 0 d amount (a.balance + d.balance) ht
    simp only at h1 h2
    simp only [slashEscrow, h1, h2, Nat.zero_add]
    have hpos : 0 < a.balance + d.balance := Nat.pos_of_ne_zero ht
    have hq1 : a.balance * amount / (a.balance + d.balance) * (a.balance + d.balance) ≤ a.balance * amount :=
      Nat.div_mul_le_self _ _
    have hq2 : d.balance * amount / (a.balance + d.balance) * (a.balance + d.balance) ≤ d.balance * amount :=
      Nat.div_mul_le_self _ _
    generalize a.balance * amount / (a.balance + d.balance) = qa at *
    generalize d.balance * amount / (a.balance + d.balance) = qd at *
    have hsum : qa + qd ≤ amount := by
      have : (qa + qd) * (a.balance + d.balance) ≤ amount * (a.balance + d.balance) := by nlinarith
      exact Nat.le_of_mul_le_mul_right this hpos
    have hm : ∀ B q : Nat, (if B < q then B else q) ≤ q ∧ (if B < q then B else q) ≤ B := by
      intro B q; split <;> omega
    obtain ⟨m1, m2⟩ := hm a.balance qa
    obtain ⟨m3, m4⟩ := hm d.balance qd
    generalize (if a.balance < qa then a.balance else qa) = ma at *
    generalize (if d.balance < qd then d.balance else qd) = md at *
    refine ⟨?_, ?_, ?_, ?_, ?_, ?_, ?_, ?_⟩ <;> first | trivial | omega

/-- Both pools lose the same fraction: with `T = B_a + B_d ≠ 0` and `amount ≤ T` the pool with
balance `B` loses `s = ⌊B·amount/T⌋`, i.e. `s·T ≤ amount·B < (s+1)·T` — each loss is within one
base unit of the exact pro-rata part — and the total slashed is more than `amount − 2`. -/
theorem slash_same_fraction (a d : SharePool) (common amount : Nat)
    (ht : a.balance + d.balance ≠ 0) (hle : amount ≤ a.balance + d.balance) :
    let r := slashEscrow a d common amount
    let T := a.balance + d.balance
    let sa := a.balance - r.active.balance
    let sd := d.balance - r.debonding.balance
    sa * T ≤ amount * a.balance ∧ amount * a.balance < (sa + 1) * T ∧
    sd * T ≤ amount * d.balance ∧ amount * d.balance < (sd + 1) * T ∧
    r.slashed = sa + sd ∧ r.debondingSlashed = sd ∧ amount < r.slashed + 2 := by
  have h1 := slashPool_spec 0 a amount (a.balance + d.balance) ht
  have h2 := slashPool_spec 0 d amount (a.balance + d.balance) ht
  simp only at h1 h2
  simp only [slashEscrow, h1, h2, Nat.zero_add]
  have hpos : 0 < a.balance + d.balance := Nat.pos_of_ne_zero ht
  have hq1 := Nat.div_mul_le_self (a.balance * amount) (a.balance + d.balance)
  have hq2 := Nat.div_mul_le_self (d.balance * amount) (a.balance + d.balance)
  have hl1 := Nat.lt_succ_iff.mpr (Nat.le_refl (a.balance * amount / (a.balance + d.balance)))
  have hl2 := Nat.lt_succ_iff.mpr (Nat.le_refl (d.balance * amount / (a.balance + d.balance)))
  rw [Nat.div_lt_iff_lt_mul hpos] at hl1 hl2
  generalize a.balance * amount / (a.balance + d.balance) = qa at *
  generalize d.balance * amount / (a.balance + d.balance) = qd at *
  have hqa : qa ≤ a.balance := by
    have : qa * (a.balance + d.balance) ≤ a.balance * (a.balance + d.balance) :=
      Nat.le_trans hq1 (Nat.mul_le_mul_left _ hle)
    exact Nat.le_of_mul_le_mul_right this hpos
  have hqd : qd ≤ d.balance := by
    have : qd * (a.balance + d.balance) ≤ d.balance * (a.balance + d.balance) :=
      Nat.le_trans hq2 (Nat.mul_le_mul_left _ hle)
    exact Nat.le_of_mul_le_mul_right this hpos
  simp only [Nat.not_lt.mpr hqa, Nat.not_lt.mpr hqd, if_false]
  have e1 : a.balance - (a.balance - qa) = qa := by omega
  have e2 : d.balance - (d.balance - qd) = qd := by omega
  rw [e1, e2]
  refine ⟨by rw [Nat.mul_comm amount]; exact hq1, by rw [Nat.mul_comm amount]; exact hl1,
          by rw [Nat.mul_comm amount]; exact hq2, by rw [Nat.mul_comm amount]; exact hl2, rfl, rfl, ?_⟩
  have : amount * (a.balance + d.balance) < (qa + qd + 2) * (a.balance + d.balance) := by nlinarith
  exact Nat.lt_of_mul_lt_mul_right this

/-- A penalty of at least the whole escrow takes everything from both pools. -/
theorem slash_all (a d : SharePool) (common amount : Nat) (hge : a.balance + d.balance ≤ amount) :
    (slashEscrow a d common amount).active.balance = 0 ∧
    (slashEscrow a d common amount).debonding.balance = 0 := by
  by_cases ht : a.balance + d.balance = 0
  · have ha : a.balance = 0 := by omega
    have hd : d.balance = 0 := by omega
    simp [slashEscrow, slashPool, ha, hd]
  · have h1 := slashPool_spec 0 a amount (a.balance + d.balance) ht
    have h2 := slashPool_spec 0 d amount (a.balance + d.balance) ht
    simp only at h1 h2
    simp only [slashEscrow, h1, h2]
    have hpos : 0 < a.balance + d.balance := Nat.pos_of_ne_zero ht
    have k1 : a.balance ≤ a.balance * amount / (a.balance + d.balance) := by
      rw [Nat.le_div_iff_mul_le hpos]; exact Nat.mul_le_mul_left _ hge
    have k2 : d.balance ≤ d.balance * amount / (a.balance + d.balance) := by
      rw [Nat.le_div_iff_mul_le hpos]; exact Nat.mul_le_mul_left _ hge
    constructor <;> split <;> omega

/-! ### Reclaim: active → debonding -/

/-- `reclaimEscrow` moves exactly the redeemed stake `⌊shares·B_a/TS_a⌋` from the active into the
debonding pool with nothing left over (the "inconsistency" branch of the Go code is dead), burns
exactly `shares` active shares and mints at most the pro-rata number of debonding shares. -/
theorem reclaim_moves_all (a d : SharePool) (del shares : Nat) (r : ReclaimRes)
    (h : reclaim a d del shares = .ok r) :
    r.amount = stakeForShares a shares ∧
    r.active.balance + r.amount = a.balance ∧ r.debonding.balance = d.balance + r.amount ∧
    r.active.totalShares + shares = a.totalShares ∧ r.delegationShares + shares = del ∧
    r.debonding.totalShares = d.totalShares + r.debondingShares ∧
    (d.totalShares = 0 → r.debondingShares = r.amount) ∧
    (d.totalShares ≠ 0 → r.debondingShares * d.balance ≤ r.amount * d.totalShares) := by
  unfold reclaim at h
  cases hw : withdraw a 0 del shares with
  | error e => simp [hw] at h
  | ok w =>
    simp only [hw] at h
    cases hd : deposit d 0 w.stakeDst w.stakeDst with
    | error e => simp [hd] at h
    | ok dr =>
      simp only [hd] at h
      obtain ⟨_, hb, hsrc, htt, hsh⟩ := deposit_moves _ _ _ _ _ hd
      have hz : dr.stakeSrc = 0 := by omega
      simp only [hz, ne_eq, not_true_eq_false, if_false] at h
      injection h with h; subst h
      obtain ⟨h1, h2, h3, rfl⟩ := withdraw_ok hw
      simp only [Nat.zero_add] at *
      refine ⟨trivial, by omega, hb, by omega, by omega, htt, ?_, ?_⟩
      · intro h0; exact deposit_empty_one_to_one _ _ _ _ _ hd h0
      · intro h0; exact deposit_shares_le _ _ _ _ _ hd h0

/-- The reclaim fails only for lack of shares or because the debonding pool was slashed to zero
with debonding shares outstanding. -/
theorem reclaim_succeeds (a d : SharePool) (del shares : Nat) (h1 : shares ≤ del)
    (h2 : shares ≤ a.totalShares) (hd : d.totalShares = 0 ∨ d.balance ≠ 0) :
    ∃ r, reclaim a d del shares = .ok r := by
  obtain ⟨w, hw⟩ := withdraw_succeeds a 0 del shares h1 h2
  obtain ⟨dr, hdr⟩ := deposit_succeeds d 0 w.stakeDst w.stakeDst (Nat.le_refl _) hd
  obtain ⟨_, _, hsrc, _, _⟩ := deposit_moves _ _ _ _ _ hdr
  have hz : dr.stakeSrc = 0 := by omega
  simp [reclaim, hw, hdr, hz]


/-! ### Debonding queue -/

theorem keyLt_iff (a b : DebEntry) : a.keyLt b = true ↔
    a.endEpoch < b.endEpoch ∨ (a.endEpoch = b.endEpoch ∧ (a.delegator < b.delegator ∨
      (a.delegator = b.delegator ∧ a.escrow < b.escrow))) := by
  simp [DebEntry.keyLt]

theorem sameKey_iff (a b : DebEntry) : a.sameKey b = true ↔
    a.endEpoch = b.endEpoch ∧ a.delegator = b.delegator ∧ a.escrow = b.escrow := by
  simp [DebEntry.sameKey, and_assoc]

/-- The queue is strictly sorted by key (the MKVS iteration order); in particular keys are unique. -/
def Sorted (q : List DebEntry) : Prop := q.Pairwise (fun a b => a.keyLt b = true)

theorem enqueue_mem_keyLt (q : List DebEntry) (e x : DebEntry) (hx : ∀ y ∈ q, x.keyLt y = true)
    (hxe : x.keyLt e = true) : ∀ y ∈ enqueue q e, x.keyLt y = true := by
  induction q with
  | nil => intro y hy; simp [enqueue] at hy; subst hy; exact hxe
  | cons z zs ih =>
    intro y hy
    simp only [enqueue] at hy
    split at hy
    · rename_i hs
      rcases List.mem_cons.1 hy with rfl | hy
      · have := hx z (List.mem_cons_self ..)
        rw [keyLt_iff] at this ⊢; simpa using this
      · exact hx y (List.mem_cons_of_mem _ hy)
    · split at hy
      · rcases List.mem_cons.1 hy with rfl | hy
        · exact hxe
        · exact hx y hy
      · rcases List.mem_cons.1 hy with rfl | hy
        · exact hx y (List.mem_cons_self ..)
        · exact ih (fun y hy => hx y (List.mem_cons_of_mem _ hy)) y hy

/-- Inserting (or merging) a debonding delegation keeps the queue sorted. -/
theorem enqueue_sorted (q : List DebEntry) (e : DebEntry) (h : Sorted q) : Sorted (enqueue q e) := by
  induction q with
  | nil => simp [enqueue, Sorted]
  | cons x xs ih =>
    have hx := List.pairwise_cons.1 h
    simp only [enqueue]
    split
    · rename_i hs
      apply List.pairwise_cons.2
      refine ⟨?_, hx.2⟩
      intro y hy
      have := hx.1 y hy
      rw [keyLt_iff] at this ⊢; simpa using this
    · rename_i hns
      split
      · rename_i hlt
        apply List.pairwise_cons.2
        refine ⟨?_, h⟩
        intro y hy
        rcases List.mem_cons.1 hy with rfl | hy
        · exact hlt
        · have := hx.1 y hy
          rw [keyLt_iff] at this hlt ⊢; omega
      · rename_i hnlt
        apply List.pairwise_cons.2
        refine ⟨?_, ih hx.2⟩
        apply enqueue_mem_keyLt xs e x hx.1
        rw [keyLt_iff] at hnlt ⊢
        have : ¬ (x.endEpoch = e.endEpoch ∧ x.delegator = e.delegator ∧ x.escrow = e.escrow) := by
          rw [← sameKey_iff]; exact hns
        omega

theorem takeWhile_eq_filter {α : Type} (R : α → α → Prop) (P : α → Bool) (l : List α)
    (hp : l.Pairwise R) (hR : ∀ a b, R a b → P b = true → P a = true) :
    l.takeWhile P = l.filter P := by
  induction l with
  | nil => rfl
  | cons x xs ih =>
    have hx := List.pairwise_cons.1 hp
    by_cases hpx : P x = true
    · simp [List.takeWhile, List.filter, hpx, ih hx.2]
    · have : xs.filter P = [] := by
        rw [List.filter_eq_nil_iff]
        intro b hb hpb
        exact hpx (hR x b (hx.1 b hb) hpb)
      simp [List.takeWhile, List.filter, hpx, this]

theorem expired_eq_filter (q : List DebEntry) (ep : Nat) (h : Sorted q) :
    expired q ep = q.filter (fun e => e.endEpoch ≤ ep) := by
  unfold expired
  apply takeWhile_eq_filter (fun a b : DebEntry => a.keyLt b = true) _ q h
  intro a b hab hb
  rw [keyLt_iff] at hab
  simp at hb ⊢; omega

/-- What processing one expired entry does: all of its shares are redeemed from the escrow
account's debonding pool at that pool's current price and credited to the delegator. -/
theorem processEntry_spec (ep : Nat) (st st' : DebSt) (e : DebEntry)
    (h : processEntry ep st e = .ok st') :
    let paid := stakeForShares (st.pools e.escrow) e.shares
    e.shares ≤ (st.pools e.escrow).totalShares ∧
    st'.general = upd st.general e.delegator (st.general e.delegator + paid) ∧
    st'.pools = upd st.pools e.escrow
      { balance := (st.pools e.escrow).balance - paid,
        totalShares := (st.pools e.escrow).totalShares - e.shares } ∧
    paid ≤ (st.pools e.escrow).balance ∧
    paid * (st.pools e.escrow).totalShares ≤ e.shares * (st.pools e.escrow).balance ∧
    st'.queue = st.queue.filter (fun x => !x.sameKey e) ∧
    st'.paid = st.paid ++ [{ entry := e, epoch := ep, amount := paid }] := by
  unfold processEntry at h
  cases hw : withdraw (st.pools e.escrow) 0 e.shares e.shares with
  | error err => simp [hw] at h
  | ok w =>
    simp only [hw] at h
    injection h with h; subst h
    obtain ⟨_, h2, h3, rfl⟩ := withdraw_ok hw
    simp only [Nat.zero_add]
    exact ⟨h2, trivial, trivial, h3, stakeForShares_mul_le _ _, trivial, trivial⟩

theorem processAll_spec (ep : Nat) (L : List DebEntry) (st st' : DebSt)
    (h : processAll ep st L = .ok st') :
    st'.queue = st.queue.filter (fun x => !L.any (fun e => x.sameKey e)) ∧
    ∃ news, st'.paid = st.paid ++ news ∧ news.map (·.entry) = L ∧ ∀ r ∈ news, r.epoch = ep := by
  induction L generalizing st with
  | nil =>
    simp only [processAll] at h; injection h with h; subst h
    refine ⟨?_, [], by simp, rfl, by simp⟩
    simp only [List.any_nil, Bool.not_false]
    exact (List.filter_eq_self.2 (fun _ _ => rfl)).symm
  | cons e es ih =>
    simp only [processAll] at h
    cases h1 : processEntry ep st e with
    | error err => simp [h1] at h
    | ok st1 =>
      simp only [h1] at h
      obtain ⟨hq, news, hp, hm, hep⟩ := ih st1 h
      obtain ⟨_, _, _, _, _, hq1, hp1⟩ := processEntry_spec ep st st1 e h1
      refine ⟨?_, { entry := e, epoch := ep, amount := stakeForShares (st.pools e.escrow) e.shares } :: news, ?_, ?_, ?_⟩
      · rw [hq, hq1, List.filter_filter]
        congr 1; funext x
        simp [Bool.and_comm]
      · rw [hp, hp1]; simp
      · simp [hm]
      · intro r hr
        rcases List.mem_cons.1 hr with rfl | hr
        · rfl
        · exact hep r hr

/-- **Not before, and at the first opportunity.** An epoch transition to `ep` removes from the
queue exactly the entries with `endEpoch ≤ ep` and leaves every other entry untouched. -/
theorem onEpochChange_queue (st st' : DebSt) (ep : Nat) (hs : Sorted st.queue)
    (h : onEpochChange st ep = .ok st') :
    st'.queue = st.queue.filter (fun e => ep < e.endEpoch) := by
  unfold onEpochChange at h
  obtain ⟨hq, _⟩ := processAll_spec ep _ st st' h
  rw [hq, expired_eq_filter _ _ hs]
  apply List.filter_congr
  intro x hx
  by_cases hle : x.endEpoch ≤ ep
  · have : (List.filter (fun e => decide (e.endEpoch ≤ ep)) st.queue).any (fun e => x.sameKey e) = true := by
      rw [List.any_eq_true]
      exact ⟨x, List.mem_filter.2 ⟨hx, by simpa using hle⟩, by rw [sameKey_iff]; exact ⟨rfl, rfl, rfl⟩⟩
    simp [this]; omega
  · have : (List.filter (fun e => decide (e.endEpoch ≤ ep)) st.queue).any (fun e => x.sameKey e) = false := by
      rw [List.any_eq_false]
      intro y hy hsk
      have hy2 := (List.mem_filter.1 hy).2
      rw [sameKey_iff] at hsk
      simp at hy2; omega
    simp [this]; omega

/-- **Exactly once, at epoch `ep`.** The payout records appended by a transition to `ep` are, in
queue order, exactly the entries with `endEpoch ≤ ep`, each stamped with `ep`. -/
theorem onEpochChange_paid (st st' : DebSt) (ep : Nat) (hs : Sorted st.queue)
    (h : onEpochChange st ep = .ok st') :
    ∃ news, st'.paid = st.paid ++ news ∧
      news.map (·.entry) = st.queue.filter (fun e => e.endEpoch ≤ ep) ∧
      ∀ r ∈ news, r.epoch = ep := by
  unfold onEpochChange at h
  obtain ⟨_, news, hp, hm, hep⟩ := processAll_spec ep _ st st' h
  exact ⟨news, hp, by rw [hm, expired_eq_filter _ _ hs], hep⟩

theorem sorted_nodup (q : List DebEntry) (h : Sorted q) : q.Nodup := by
  unfold Sorted at h
  apply List.Pairwise.imp _ h
  intro a b hab heq
  subst heq
  rw [keyLt_iff] at hab; omega

theorem onEpochChange_sorted (st st' : DebSt) (ep : Nat) (hs : Sorted st.queue)
    (h : onEpochChange st ep = .ok st') : Sorted st'.queue := by
  rw [onEpochChange_queue st st' ep hs h]
  exact List.Pairwise.filter _ hs


/-! ### Debonding over whole histories -/

theorem step_sorted (st st' : DebSt) (s : Step) (hs : Sorted st.queue) (h : step st s = .ok st') :
    Sorted st'.queue := by
  cases s with
  | add e => simp only [step] at h; injection h with h; subst h; exact enqueue_sorted _ _ hs
  | epoch ep => exact onEpochChange_sorted st st' ep hs h

theorem run_sorted (st st' : DebSt) (ss : List Step) (hs : Sorted st.queue) (h : run st ss = .ok st') :
    Sorted st'.queue := by
  induction ss generalizing st with
  | nil => simp only [run] at h; injection h with h; subst h; exact hs
  | cons s ss ih =>
    simp only [run] at h
    cases h1 : step st s with
    | error e => simp [h1] at h
    | ok st1 => simp only [h1] at h; exact ih st1 (step_sorted st st1 s hs h1) h

/-- **Never before the end epoch**: over any history of reclaims and epoch transitions, every
payout record carries an epoch at or after the entry's debonding end epoch. -/
theorem debond_never_early (st st' : DebSt) (ss : List Step) (hs : Sorted st.queue)
    (h0 : ∀ r ∈ st.paid, r.entry.endEpoch ≤ r.epoch) (h : run st ss = .ok st') :
    ∀ r ∈ st'.paid, r.entry.endEpoch ≤ r.epoch := by
  induction ss generalizing st with
  | nil => simp only [run] at h; injection h with h; subst h; exact h0
  | cons s ss ih =>
    simp only [run] at h
    cases h1 : step st s with
    | error e => simp [h1] at h
    | ok st1 =>
      simp only [h1] at h
      refine ih st1 (step_sorted st st1 s hs h1) ?_ h
      cases s with
      | add e => simp only [step] at h1; injection h1 with h1; subst h1; exact h0
      | epoch ep =>
        obtain ⟨news, hp, hm, hep⟩ := onEpochChange_paid st st1 ep hs h1
        intro r hr
        rw [hp] at hr
        rcases List.mem_append.1 hr with hr | hr
        · exact h0 r hr
        · have : r.entry ∈ news.map (·.entry) := List.mem_map.2 ⟨r, hr, rfl⟩
          rw [hm] at this
          have := (List.mem_filter.1 this).2
          rw [hep r hr]; simpa using this

/-- **Nothing overdue**: right after a transition to `ep` no queue entry has `endEpoch ≤ ep`; so an
entry is paid at the *first* transition whose epoch reaches its end epoch. -/
theorem debond_none_overdue (st st' : DebSt) (ep : Nat) (hs : Sorted st.queue)
    (h : onEpochChange st ep = .ok st') : ∀ e ∈ st'.queue, ep < e.endEpoch := by
  intro e he
  rw [onEpochChange_queue st st' ep hs h] at he
  simpa using (List.mem_filter.1 he).2

theorem sharesSum_enqueue (q : List DebEntry) (e : DebEntry) :
    sharesSum (enqueue q e) = sharesSum q + e.shares := by
  induction q with
  | nil => simp [enqueue, sharesSum]
  | cons x xs ih =>
    simp only [enqueue]
    split
    · simp [sharesSum]; omega
    · split
      · simp [sharesSum]; omega
      · simp only [sharesSum, List.map_cons, List.sum_cons] at ih ⊢; omega

theorem sharesSum_filter (q : List DebEntry) (P : DebEntry → Bool) :
    sharesSum (q.filter P) + sharesSum (q.filter (fun e => !P e)) = sharesSum q := by
  induction q with
  | nil => rfl
  | cons x xs ih =>
    by_cases hp : P x = true
    · simp only [sharesSum, List.filter, hp, Bool.not_true, List.map_cons, List.sum_cons] at ih ⊢; omega
    · have hp' : P x = false := by simpa using hp
      simp only [sharesSum, List.filter, hp', Bool.not_false, List.map_cons, List.sum_cons] at ih ⊢; omega

def addedShares : List Step → Nat
  | [] => 0
  | .add e :: ss => e.shares + addedShares ss
  | .epoch _ :: ss => addedShares ss

/-- **Exactly once (share accounting)**: over any history, the debonding shares still queued plus
the shares in payout records equal the shares that were queued initially, already paid, or
added — no debonding delegation is dropped and none is paid twice. -/
theorem debond_shares_conserved (st st' : DebSt) (ss : List Step) (hs : Sorted st.queue)
    (h : run st ss = .ok st') :
    sharesSum st'.queue + sharesSum (st'.paid.map (·.entry))
      = sharesSum st.queue + sharesSum (st.paid.map (·.entry)) + addedShares ss := by
  induction ss generalizing st with
  | nil => simp only [run] at h; injection h with h; subst h; simp [addedShares]
  | cons s ss ih =>
    simp only [run] at h
    cases h1 : step st s with
    | error e => simp [h1] at h
    | ok st1 =>
      simp only [h1] at h
      have := ih st1 (step_sorted st st1 s hs h1) h
      rw [this]
      cases s with
      | add e =>
        simp only [step] at h1; injection h1 with h1; subst h1
        simp only [addDebonding, addedShares, sharesSum_enqueue]; omega
      | epoch ep =>
        obtain ⟨news, hp, hm, _⟩ := onEpochChange_paid st st1 ep hs h1
        have hq := onEpochChange_queue st st1 ep hs h1
        have hsplit := sharesSum_filter st.queue (fun e => decide (e.endEpoch ≤ ep))
        have hq' : st1.queue = st.queue.filter (fun e => !decide (e.endEpoch ≤ ep)) := by
          rw [hq]; apply List.filter_congr; intro x _
          by_cases hh : x.endEpoch ≤ ep
          · simp [hh]
          · simp [hh]; omega
        rw [hp, hq', List.map_append, hm]
        simp only [addedShares, sharesSum, List.map_append, List.sum_append] at hsplit ⊢
        omega

/-! Transitions only: the fate of one queued entry. -/

def runEpochs : DebSt → List Nat → Except QErr DebSt
  | st, [] => .ok st
  | st, ep :: eps =>
    match onEpochChange st ep with
    | .error err => .error err
    | .ok st' => runEpochs st' eps

def payoutsOf (e : DebEntry) (l : List Payout) : List Payout := l.filter (fun r => decide (r.entry = e))

theorem runEpochs_sorted (st st' : DebSt) (eps : List Nat) (hs : Sorted st.queue)
    (h : runEpochs st eps = .ok st') : Sorted st'.queue := by
  induction eps generalizing st with
  | nil => simp only [runEpochs] at h; injection h with h; subst h; exact hs
  | cons ep eps ih =>
    simp only [runEpochs] at h
    cases h1 : onEpochChange st ep with
    | error e => simp [h1] at h
    | ok st1 => simp only [h1] at h; exact ih st1 (onEpochChange_sorted st st1 ep hs h1) h

/-- While every transition epoch is below the entry's end epoch, the entry stays queued and is
not paid. -/
theorem debond_waits (st st' : DebSt) (eps : List Nat) (e : DebEntry) (hs : Sorted st.queue)
    (he : e ∈ st.queue) (hlt : ∀ ep ∈ eps, ep < e.endEpoch) (h : runEpochs st eps = .ok st') :
    e ∈ st'.queue ∧ payoutsOf e st'.paid = payoutsOf e st.paid := by
  induction eps generalizing st with
  | nil => simp only [runEpochs] at h; injection h with h; subst h; exact ⟨he, rfl⟩
  | cons ep eps ih =>
    simp only [runEpochs] at h
    cases h1 : onEpochChange st ep with
    | error err => simp [h1] at h
    | ok st1 =>
      simp only [h1] at h
      have hep := hlt ep (List.mem_cons_self ..)
      have hq := onEpochChange_queue st st1 ep hs h1
      obtain ⟨news, hp, hm, _⟩ := onEpochChange_paid st st1 ep hs h1
      have he1 : e ∈ st1.queue := by rw [hq]; exact List.mem_filter.2 ⟨he, by simpa using hep⟩
      obtain ⟨r1, r2⟩ := ih st1 (onEpochChange_sorted st st1 ep hs h1) he1
        (fun x hx => hlt x (List.mem_cons_of_mem _ hx)) h
      refine ⟨r1, ?_⟩
      rw [r2, hp, payoutsOf, List.filter_append]
      have : news.filter (fun r => decide (r.entry = e)) = [] := by
        rw [List.filter_eq_nil_iff]
        intro r hr hre
        have hre' : r.entry = e := by simpa using hre
        have : r.entry ∈ news.map (·.entry) := List.mem_map.2 ⟨r, hr, rfl⟩
        rw [hm, hre'] at this
        have := (List.mem_filter.1 this).2
        simp at this; omega
      rw [this]; simp [payoutsOf]

/-- Once an entry is gone from the queue, transitions never pay it (again). -/
theorem debond_absent_unpaid (st st' : DebSt) (eps : List Nat) (e : DebEntry) (hs : Sorted st.queue)
    (he : e ∉ st.queue) (h : runEpochs st eps = .ok st') :
    payoutsOf e st'.paid = payoutsOf e st.paid := by
  induction eps generalizing st with
  | nil => simp only [runEpochs] at h; injection h with h; subst h; rfl
  | cons ep eps ih =>
    simp only [runEpochs] at h
    cases h1 : onEpochChange st ep with
    | error err => simp [h1] at h
    | ok st1 =>
      simp only [h1] at h
      have hq := onEpochChange_queue st st1 ep hs h1
      obtain ⟨news, hp, hm, _⟩ := onEpochChange_paid st st1 ep hs h1
      have he1 : e ∉ st1.queue := by rw [hq]; intro hc; exact he (List.mem_filter.1 hc).1
      rw [ih st1 (onEpochChange_sorted st st1 ep hs h1) he1 h, hp, payoutsOf, List.filter_append]
      have : news.filter (fun r => decide (r.entry = e)) = [] := by
        rw [List.filter_eq_nil_iff]
        intro r hr hre
        have hre' : r.entry = e := by simpa using hre
        have : r.entry ∈ news.map (·.entry) := List.mem_map.2 ⟨r, hr, rfl⟩
        rw [hm, hre'] at this
        exact he (List.mem_filter.1 this).1
      rw [this]; simp [payoutsOf]

/-- **Paid exactly once, at the first epoch transition at or after the end epoch, at the debonding
pool's price.**  For any sequence of epoch transitions `pre ++ ep :: post` in which `ep` is the
first epoch `≥ e.endEpoch`, a queued entry `e` gets exactly one payout record; it is stamped `ep`,
and its amount is `⌊shares·B/TS⌋` of the escrow account's debonding pool at that moment (bounded
here by the pro-rata inequality through `processEntry_spec`). -/
theorem debond_exactly_once (st st' : DebSt) (pre post : List Nat) (ep : Nat) (e : DebEntry)
    (hs : Sorted st.queue) (he : e ∈ st.queue) (hpre : ∀ x ∈ pre, x < e.endEpoch)
    (hep : e.endEpoch ≤ ep) (h : runEpochs st (pre ++ ep :: post) = .ok st') :
    ∃ amount, payoutsOf e st'.paid = payoutsOf e st.paid ++ [{ entry := e, epoch := ep, amount := amount }] := by
  -- split the run
  have split : ∀ (l1 l2 : List Nat) (s s' : DebSt), runEpochs s (l1 ++ l2) = .ok s' →
      ∃ m, runEpochs s l1 = .ok m ∧ runEpochs m l2 = .ok s' := by
    intro l1
    induction l1 with
    | nil => intro l2 s s' hh; exact ⟨s, rfl, hh⟩
    | cons x xs ih =>
      intro l2 s s' hh
      simp only [List.cons_append, runEpochs] at hh ⊢
      cases h1 : onEpochChange s x with
      | error err => simp [h1] at hh
      | ok s1 => simp only [h1] at hh ⊢; exact ih l2 s1 s' hh
  obtain ⟨m, hm1, hm2⟩ := split pre (ep :: post) st st' h
  obtain ⟨hem, hpm⟩ := debond_waits st m pre e hs he hpre hm1
  have hsm := runEpochs_sorted st m pre hs hm1
  simp only [runEpochs] at hm2
  cases h1 : onEpochChange m ep with
  | error err => simp [h1] at hm2
  | ok m1 =>
    simp only [h1] at hm2
    have hq := onEpochChange_queue m m1 ep hsm h1
    obtain ⟨news, hp, hmm, hepn⟩ := onEpochChange_paid m m1 ep hsm h1
    have he1 : e ∉ m1.queue := by
      rw [hq]; intro hc; have := (List.mem_filter.1 hc).2; simp at this; omega
    rw [debond_absent_unpaid m1 st' post e (onEpochChange_sorted m m1 ep hsm h1) he1 hm2, hp,
      payoutsOf, List.filter_append, ← hpm]
    -- exactly one record for e among the news
    have hnd : (m.queue.filter (fun x => decide (x.endEpoch ≤ ep))).Nodup :=
      List.Nodup.sublist List.filter_sublist (sorted_nodup _ hsm)
    have hmem : e ∈ m.queue.filter (fun x => decide (x.endEpoch ≤ ep)) :=
      List.mem_filter.2 ⟨hem, by simpa using hep⟩
    rw [← hmm] at hnd hmem
    clear hp hq h1 hm2 he1 hmm
    induction news with
    | nil => simp at hmem
    | cons r rs ih =>
      simp only [List.map_cons, List.nodup_cons, List.mem_cons] at hnd hmem
      by_cases hr : r.entry = e
      · have hrs : rs.filter (fun r => decide (r.entry = e)) = [] := by
          rw [List.filter_eq_nil_iff]
          intro y hy hye
          have hye' : y.entry = e := by simpa using hye
          exact hnd.1 (by rw [hr, ← hye']; exact List.mem_map.2 ⟨y, hy, rfl⟩)
        refine ⟨r.amount, ?_⟩
        have : r = { entry := e, epoch := ep, amount := r.amount } := by
          have := hepn r (List.mem_cons_self ..)
          cases r; simp_all
        simp only [List.filter, hr, decide_true, hrs]
        rw [payoutsOf]; congr 1; rw [← this]
      · have hmem' : e ∈ rs.map (·.entry) := by
          rcases hmem with h | h
          · exact absurd h.symm hr
          · exact h
        obtain ⟨amt, hamt⟩ := ih (fun r hr => hepn r (List.mem_cons_of_mem _ hr)) hnd.2 hmem'
        refine ⟨amt, ?_⟩
        simp only [List.filter, hr, decide_false]
        exact hamt


/-! ### The model satisfies the executable spec predicates evaluated on the implementation -/

theorem deposit_meets_spec (p : SharePool) (sd ss a : Nat) (hwf : WF p) :
    specDeposit p sd ss a (deposit p sd ss a) = true := by
  cases h : deposit p sd ss a with
  | error e =>
    simp only [specDeposit]
    unfold deposit sharesForStake at h
    by_cases hts : p.totalShares = 0
    · simp [hts] at h
      by_cases hlt : ss < a
      · simp [hlt] at h; subst h; simp [hlt]
      · simp [hlt] at h
    · by_cases hb : p.balance = 0
      · simp [hts, hb] at h; subst h; simp [hts, hb]
      · simp [hts, hb] at h
        by_cases hlt : ss < a
        · simp [hlt] at h; subst h; simp [hlt]
        · simp [hlt] at h
  | ok r =>
    simp only [specDeposit]
    obtain ⟨hle, hb, hsrc, ht, hsd⟩ := deposit_moves p sd ss a r h
    have hprice := deposit_price_nondecreasing p sd ss a r h hwf
    by_cases hts : p.totalShares = 0
    · have hs := deposit_empty_one_to_one p sd ss a r h hts
      simp [hts, hle, hb, hsrc, ht, hsd, hs, hwf hts]
    · have h1 := deposit_shares_le p sd ss a r h hts
      have h2 := deposit_shares_lt p sd ss a r h hts
      have hbn : p.balance ≠ 0 := by
        intro h0; rw [deposit_refused_zero_balance p sd ss a hts h0] at h; cases h
      simp [hts, hbn, hle, hb, hsrc, hsd, h1, h2]
      rw [hb] at hprice
      exact ⟨ht, hprice⟩

theorem withdraw_meets_spec (p : SharePool) (sd ss s : Nat) (hwf : WF p) :
    specWithdraw p sd ss s (withdraw p sd ss s) = true := by
  cases h : withdraw p sd ss s with
  | error e =>
    simp only [specWithdraw]
    by_cases h1 : ss < s
    · simp [withdraw, h1] at h; subst h; simp [h1]
    · by_cases h2 : p.totalShares < s
      · simp [withdraw, h1, h2] at h; subst h; simp [h2]
      · obtain ⟨r, hr⟩ := withdraw_succeeds p sd ss s (by omega) (by omega)
        rw [hr] at h; cases h
  | ok r =>
    simp only [specWithdraw]
    have hprice := withdraw_price_nondecreasing p sd ss s r h
    have hwf' := withdraw_wf p sd ss s r h hwf
    obtain ⟨h1, h2, h3, rfl⟩ := withdraw_ok h
    have hle := stakeForShares_mul_le p s
    simp only at hprice hwf' ⊢
    have e1 : sd + stakeForShares p s - sd = stakeForShares p s := by omega
    rw [e1]
    have c1 : p.balance - stakeForShares p s + stakeForShares p s = p.balance := by omega
    have c2 : p.totalShares - s + s = p.totalShares := by omega
    have c3 : ss - s + s = ss := by omega
    have c4 : p.totalShares = 0 ∨ s * p.balance < (stakeForShares p s + 1) * p.totalShares := by
      by_cases hts : p.totalShares = 0
      · exact Or.inl hts
      · exact Or.inr (stakeForShares_lt p s hts)
    have c5 : s ≠ p.totalShares ∨ p.totalShares = 0 ∨ p.balance - stakeForShares p s = 0 := by
      by_cases hs : s = p.totalShares
      · right; right; subst hs; rw [stakeForShares_all p hwf]; omega
      · exact Or.inl hs
    simp [h1, h2, c1, c2, c3, hle, hprice]
    refine ⟨c4, ?_⟩
    rcases c5 with h | h | h
    · exact Or.inl (Or.inl h)
    · exact Or.inl (Or.inr h)
    · exact Or.inr (by omega)

theorem slash_meets_spec (a d : SharePool) (common amount : Nat) :
    specSlash a d common amount (slashEscrow a d common amount) = true := by
  obtain ⟨h1, h2, h3, h4, h5, h6, h7, h8⟩ := slash_conserves a d common amount
  simp only [specSlash]
  by_cases hT : a.balance + d.balance ≤ amount
  · obtain ⟨z1, z2⟩ := slash_all a d common amount hT
    have hs : (slashEscrow a d common amount).slashed = a.balance + d.balance := by omega
    have hds : (slashEscrow a d common amount).debondingSlashed = d.balance := by
      by_cases ht : a.balance + d.balance = 0
      · have ha : a.balance = 0 := by omega
        have hd : d.balance = 0 := by omega
        simp [slashEscrow, slashPool, ha, hd]
      · have k2 := slashPool_spec 0 d amount (a.balance + d.balance) ht
        simp only at k2
        have hpos : 0 < a.balance + d.balance := Nat.pos_of_ne_zero ht
        have k3 : d.balance ≤ d.balance * amount / (a.balance + d.balance) := by
          rw [Nat.le_div_iff_mul_le hpos]; exact Nat.mul_le_mul_left _ hT
        simp only [slashEscrow, k2]
        split <;> omega
    simp [hT, z1, z2, h3, h4, hs, hds, h2]
    omega
  · have ht : a.balance + d.balance ≠ 0 := by omega
    obtain ⟨f1, f2, f3, f4, f5, f6, _⟩ := slash_same_fraction a d common amount ht (by omega)
    simp [hT, h3, h4, h7, h8, f1, f2, f3, f4, f5, f6, h2]
    omega


/-! ### Bridge: the regenerated translation of the Go source equals the model -/

theorem cmp_cast (a b : Nat) : Big.cmp (↑a) (↑b) = if a < b then -1 else if a = b then 0 else 1 := by
  unfold Big.cmp
  by_cases h1 : a < b
  · have : (a : Int) < b := by omega
    simp [h1, this]
  · by_cases h2 : a = b
    · subst h2; simp
    · have n1 : ¬ (a : Int) < b := by omega
      have n2 : ¬ (a : Int) = b := by omega
      simp [h1, h2, n1, n2]

theorem gen_isValid (n : Int) : QuantityGen.isValid n = decide (0 ≤ n) := by
  unfold QuantityGen.isValid Big.cmp
  by_cases h1 : n < 0
  · have : ¬ (0 ≤ n) := by omega
    simp [h1, this]
  · by_cases h2 : n = 0
    · subst h2; simp
    · have : 0 ≤ n := by omega
      simp [h1, h2, this]

theorem gen_IsValid (q : Nat) : QuantityGen.IsValid (↑q) = true := by
  simp [QuantityGen.IsValid, gen_isValid]

/-- A negative `big.Int` is not a valid quantity. -/
theorem gen_IsValid_neg (q : Int) (h : q < 0) : QuantityGen.IsValid q = false := by
  have : ¬ (0 ≤ q) := by omega
  simp [QuantityGen.IsValid, gen_isValid, this]

theorem gen_IsZero (q : Nat) : QuantityGen.IsZero (↑q) = QN.IsZero q := by
  have := cmp_cast q 0
  simp only [QuantityGen.IsZero, Big.cmpAbs, QN.IsZero]
  simp only [Int.natAbs_natCast, Int.natAbs_zero, Int.ofNat_eq_natCast, Int.natCast_zero] at *
  rw [this]
  by_cases h : q = 0
  · subst h; simp
  · have : ¬ q < 0 := by omega
    simp [h, this]

theorem gen_Cmp (q n : Nat) : QuantityGen.Cmp (↑q) (↑n) = QN.Cmp q n := rfl

theorem gen_Clone (q : Nat) : QuantityGen.Clone (↑q) = ↑(QN.Clone q) := rfl

theorem gen_Add (q n : Nat) : QuantityGen.Add (↑q) (↑n) = (QN.Add q n).map Int.ofNat := by
  simp [QuantityGen.Add, gen_IsValid, QN.Add, Quantity.add, Except.map, pure, Except.pure]

theorem gen_Sub (q n : Nat) : QuantityGen.Sub (↑q) (↑n) = (QN.Sub q n).map Int.ofNat := by
  simp only [QuantityGen.Sub, gen_IsValid, QN.Sub, Quantity.sub, cmp_cast]
  by_cases h : q < n
  · simp [h, Except.map, throw, throwThe, MonadExceptOf.throw]
  · by_cases h2 : q = n
    · subst h2; simp [Except.map, pure, Except.pure]
    · simp [h, h2, Except.map, pure, Except.pure]; omega

theorem gen_SubUpTo (q n : Nat) :
    QuantityGen.SubUpTo (↑q) (↑n) = (QN.SubUpTo q n).map (fun r => (Int.ofNat r.1, Int.ofNat r.2)) := by
  simp only [QuantityGen.SubUpTo, gen_IsValid, QN.SubUpTo, Quantity.subUpTo, QuantityGen.Cmp, cmp_cast]
  by_cases h : q < n
  · simp [h, Except.map, pure, Except.pure]
  · by_cases h2 : q = n
    · subst h2; simp [Except.map, pure, Except.pure]
    · simp [h, h2, Except.map, pure, Except.pure]; omega

theorem gen_Mul (q n : Nat) : QuantityGen.Mul (↑q) (↑n) = (QN.Mul q n).map Int.ofNat := by
  simp [QuantityGen.Mul, gen_IsValid, QN.Mul, Quantity.mul, Except.map, pure, Except.pure]

theorem gen_Quo (q n : Nat) : QuantityGen.Quo (↑q) (↑n) = (QN.Quo q n).map Int.ofNat := by
  simp only [QuantityGen.Quo, gen_IsValid, gen_IsZero, QN.IsZero, QN.Quo, Quantity.quo, Big.quo]
  by_cases h : n = 0
  · simp [h, Except.map, throw, throwThe, MonadExceptOf.throw]
  · simp [h, Except.map, pure, Except.pure, Int.natCast_ediv]

theorem gen_Move (dst src n : Nat) :
    QuantityGen.Move (↑dst) (↑src) (↑n) = (QN.Move dst src n).map (fun r => (Int.ofNat r.1, Int.ofNat r.2)) := by
  simp only [QuantityGen.Move, gen_Sub, gen_Add, QN.Sub, QN.Add, QN.Move, Quantity.sub, Quantity.add, Quantity.move]
  by_cases h : src < n
  · simp [h, Except.map, bind, Except.bind]
  · simp [h, Except.map, bind, Except.bind, pure, Except.pure]

theorem gen_MoveUpTo (dst src n : Nat) :
    QuantityGen.MoveUpTo (↑dst) (↑src) (↑n)
      = (QN.MoveUpTo dst src n).map (fun r => (Int.ofNat r.1, Int.ofNat r.2.1, Int.ofNat r.2.2)) := by
  simp only [QuantityGen.MoveUpTo, gen_SubUpTo, QN.SubUpTo, QN.MoveUpTo, Quantity.subUpTo, Quantity.moveUpTo]
  simp only [Except.map, bind, Except.bind, Int.ofNat_eq_natCast, Bool.or_self, Bool.false_eq_true, if_false]
  rw [gen_Add]
  simp [QN.Add, Quantity.add, Except.map, pure, Except.pure]

/-- `Move` still carries its `src == n` alias guard (which is what lets value semantics stand for
the pointer semantics), and no other pointer comparison appeared in the translated source. -/
theorem gen_alias_guards : QuantityGen.aliasGuards = ["Move: src == n"] := by decide

/-! Share-pool level: the translation of api.go / state.go over the `QN` interface. -/

theorem gen_sharesForStake (p : SharePool) (a : Nat) :
    SharePoolGen.sharesForStake p.balance p.totalShares a = sharesForStake p a := by
  simp only [SharePoolGen.sharesForStake, sharesForStake, QN.IsZero, QN.Clone, QN.Mul, QN.Quo,
    Quantity.mul, Quantity.quo]
  by_cases h1 : p.totalShares = 0
  · simp [h1, pure, Except.pure]
  · by_cases h2 : p.balance = 0
    · simp [h1, h2, throw, throwThe, MonadExceptOf.throw]
    · simp [h1, h2, bind, Except.bind, pure, Except.pure]

theorem gen_Deposit (p : SharePool) (sd ss a : Nat) :
    SharePoolGen.Deposit p.balance p.totalShares sd ss a
      = (deposit p sd ss a).map (fun r => (r.shares, r.pool.balance, r.pool.totalShares, r.shareDst, r.stakeSrc)) := by
  simp only [SharePoolGen.Deposit, gen_sharesForStake, deposit, QN.Move, QN.Add, Quantity.move, Quantity.add]
  cases sharesForStake p a with
  | error e => simp [bind, Except.bind, Except.map]
  | ok s =>
    by_cases h : ss < a
    · simp [h, bind, Except.bind, Except.map]
    · simp [h, bind, Except.bind, Except.map, pure, Except.pure]

theorem gen_StakeForShares (p : SharePool) (a : Nat) :
    SharePoolGen.StakeForShares p.balance p.totalShares a = .ok (stakeForShares p a) := by
  simp only [SharePoolGen.StakeForShares, stakeForShares, QN.IsZero, QN.Clone, QN.NewQuantity, QN.Mul, QN.Quo,
    Quantity.mul, Quantity.quo]
  by_cases h : a = 0 ∨ p.balance = 0 ∨ p.totalShares = 0
  · have : ((a == 0 || p.balance == 0) || p.totalShares == 0) = true := by
      rcases h with h | h | h <;> simp [h]
    simp [h, this, pure, Except.pure]
  · have h' : ¬ (a = 0) ∧ ¬ (p.balance = 0) ∧ ¬ (p.totalShares = 0) := by
      refine ⟨fun x => h (Or.inl x), fun x => h (Or.inr (Or.inl x)), fun x => h (Or.inr (Or.inr x))⟩
    simp [h'.1, h'.2.1, h'.2.2, bind, Except.bind, pure, Except.pure]

theorem gen_Withdraw (p : SharePool) (sd ss s : Nat) :
    SharePoolGen.Withdraw p.balance p.totalShares sd ss s
      = (withdraw p sd ss s).map (fun r => (r.pool.balance, r.pool.totalShares, r.stakeDst, r.shareSrc)) := by
  simp only [SharePoolGen.Withdraw, gen_StakeForShares, withdraw, QN.Move, QN.Sub, Quantity.move, Quantity.sub]
  by_cases h1 : ss < s
  · simp [h1, bind, Except.bind, Except.map]
  · by_cases h2 : p.totalShares < s
    · simp [h1, h2, bind, Except.bind, Except.map]
    · by_cases h3 : p.balance < stakeForShares p s
      · simp [h1, h2, h3, bind, Except.bind, Except.map]
      · simp [h1, h2, h3, bind, Except.bind, Except.map, pure, Except.pure]

theorem gen_slashPool (dst : Nat) (p : SharePool) (amount total : Nat) :
    SharePoolGen.slashPool dst p.balance p.totalShares amount total
      = .ok ((slashPool dst p amount total).1, (slashPool dst p amount total).2.balance) := by
  simp only [SharePoolGen.slashPool, slashPool, QN.IsZero, QN.Clone, QN.Mul, QN.Quo, QN.MoveUpTo,
    Quantity.mul, Quantity.quo, Quantity.moveUpTo]
  by_cases h : total = 0
  · simp [h, pure, Except.pure]
  · simp [h, bind, Except.bind, pure, Except.pure]

/-- `slashPool` never touches the share count (it has no way to: the translation does not even
return it as a mutated argument). -/
theorem slashPool_shares (dst : Nat) (p : SharePool) (amount total : Nat) :
    (slashPool dst p amount total).2.totalShares = p.totalShares := by
  unfold slashPool; split <;> rfl

theorem gen_commissionRateDenominator :
    SharePoolGen.commissionRateDenominator = commissionRateDenominator := by decide

theorem gen_computeCommission (rate total : Nat) :
    SharePoolGen.computeCommission rate total = computeCommission rate total := by
  simp only [SharePoolGen.computeCommission, computeCommission, QN.Clone, QN.Mul, QN.Quo, QN.Sub,
    Quantity.mul, Quantity.quo, Quantity.sub, gen_commissionRateDenominator]
  have : commissionRateDenominator ≠ 0 := by decide
  by_cases h : total < total * rate / commissionRateDenominator
  · simp [this, h, bind, Except.bind]
  · simp [this, h, bind, Except.bind, pure, Except.pure]

/-! ### Non-vacuity: the hypotheses of the theorems are satisfiable by concrete non-trivial states -/

-- a pool with an awkward ratio: balance 10, 3 shares
example : WF { balance := 10, totalShares := 3 } := by intro h; cases h
example : deposit { balance := 10, totalShares := 3 } 0 7 7 =
    .ok { pool := { balance := 17, totalShares := 5 }, shareDst := 2, stakeSrc := 0, shares := 2 } := by decide
example : withdraw { balance := 17, totalShares := 5 } 0 2 2 =
    .ok { pool := { balance := 11, totalShares := 3 }, stakeDst := 6, shareSrc := 0 } := by decide
-- total slashing leaves shares outstanding and refuses deposits
example : deposit { balance := 0, totalShares := 3 } 0 7 7 = .error .invalidArgument := by decide
-- slashing both pools by the same fraction
example : slashEscrow { balance := 10, totalShares := 3 } { balance := 5, totalShares := 5 } 100 7 =
    { active := { balance := 6, totalShares := 3 }, debonding := { balance := 3, totalShares := 5 },
      common := 106, slashed := 6, debondingSlashed := 2 } := by decide
-- reclaim: 2 of 3 active shares worth 6 become 6 debonding shares in an empty debonding pool
example : reclaim { balance := 10, totalShares := 3 } { balance := 0, totalShares := 0 } 3 2 =
    .ok { active := { balance := 4, totalShares := 1 }, debonding := { balance := 6, totalShares := 6 },
          delegationShares := 1, debondingShares := 6, amount := 6 } := by decide
-- a history in which the followed delegator gains from another's rounding dust and a reward
example : FairInv { pool := { balance := 10, totalShares := 3 }, mine := 1, rest := 2, paidIn := 0, paidOut := 0, envGain := 0 } :=
  ⟨rfl, by intro h; cases h⟩
example :
    let f : Fair := { pool := { balance := 10, totalShares := 3 }, mine := 1, rest := 2, paidIn := 0, paidOut := 0, envGain := 0 }
    let g := f.run [.deposit false 7, .reward 5, .deposit true 9, .slash 4, .withdraw true 2]
    (g.paidIn, g.paidOut, g.value, g.envGain) = (9, 7, 4, 1) := by decide
-- the debonding queue: sorted, one entry due at epoch 5, one at 7
example : Sorted [⟨5, 1, 2, 10⟩, ⟨7, 1, 2, 4⟩] := by
  simp [Sorted, DebEntry.keyLt]
example :
    let st : DebSt := { pools := fun _ => { balance := 30, totalShares := 14 }, general := fun _ => 0,
                        queue := [⟨5, 1, 2, 10⟩, ⟨7, 1, 2, 4⟩], paid := [] }
    (match runEpochs st [3, 4, 6, 9] with
     | .ok s => s.paid.map (fun r => (r.entry.endEpoch, r.epoch, r.amount)) | .error _ => [])
      = [(5, 6, 21), (7, 9, 9)] := by decide

end OasisProofs.C15
