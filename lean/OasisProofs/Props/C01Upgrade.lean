/-
Property C01 (replicas compute identical state for identical blocks, whichever execution path a node
took) — the node-LOCAL upgrade manager.

`upgradeManager.ConsensusUpgrade` (go/upgrade/upgrade.go:261-335) is consulted by the ABCI multiplexer
in BeginBlock (`mux.go:611`), EndBlock (`mux.go:794`) and, with `privateCtx == nil`, after Commit
(`abci/upgrade.go:30`).  It decides whether the migration handler — which rewrites CONSENSUS state —
runs in this execution of the block.  Its own state (`pending` with `UpgradeHeight` and
`LastCompletedStage`, `shouldStop`) is process-local and persisted outside the consensus state, and the
block at the upgrade height H can be executed several times on one node before it is committed (a
proposal that is not decided and then the decided one: `mux.go` PrepareProposal/ProcessProposal/
FinalizeBlock; a crash after execution and a replay).  So whether the handler runs in an execution of H
must not depend on how often H was executed before.  Model: `OasisModel/Upgrade/Manager.lean`.

What makes it true in the code as it is: `PushStage(UpgradeStageConsensus)` is executed ONLY under
`pu.UpgradeHeight < currentHeight` (upgrade.go:309-311), i.e. in a call for a LATER height, which the
multiplexer issues only after height H has been committed.  A seeded variant that pushes the stage right
after the handler ran (`consensusUpgradeEarly`) skips the handler in the second execution
(`early_stage_push_skips_reexecution`).

Hypotheses carried by the theorems, and why:
* `0 < H`: the height 0 is `InvalidUpgradeHeight` (api.go:44); `height_zero_is_not_stored` shows what
  happens otherwise.
* histories consist of calls that returned `nil` (`runCalls`): every other outcome of a block-execution
  call ends the process (`mux.go:612-619`, `794-798`); `continuing_after_an_error_is_different` shows
  that the statement is false for a history that goes on after `handlerMissing`.
* the calls of one height carry the same epoch: `GetCurrentEpoch` (abci/state.go:291-318) answers with
  the epoch scheduled for the block being executed already in BeginBlock, and the Commit-time call is for
  the next height; `epoch_change_inside_a_height_is_path_dependent` shows that the hypothesis is needed.
* `handler.ConsensusUpgrade` returning an error (upgrade.go:328-330) is a function of the consensus
  state and is not modelled.
-/
import OasisProofs.Helpers.Upgrade

namespace OasisProofs.C01Upgrade
open OasisModel.Upgrade OasisProofs.UpgradeHelpers

/-! ## The invariant -/

/-- "The consensus stage is not pushed while no call at a height above the upgrade height has been
made": with `hl` the height of the latest call, every descriptor in `pending` has no consensus stage and
an upgrade height (if any) of at most `hl`. -/
def NoEarlyCompletion (hl : Nat) (s : State) : Prop :=
  ∀ p ∈ s.pending, p.consensusDone = false ∧ ∀ u, p.upgradeHeight = some u → u ≤ hl

/-- The manager after a call for `(e, H)` that returned `nil`: not stopping, and every descriptor is
either waiting for a later epoch or at upgrade height `H` with the consensus stage NOT pushed. -/
def Settled (e H : Nat) (s : State) : Prop :=
  s.shouldStop = false ∧ ∀ p ∈ s.pending, p.consensusDone = false ∧
    ((p.upgradeHeight = none ∧ e < p.epoch) ∨ p.upgradeHeight = some H)

/-- Height of the latest call of a history (`hl` if there is none). -/
def lastHeight : Nat → List Call → Nat
  | hl, [] => hl
  | _, c :: cs => lastHeight c.height cs

/-- Freshly submitted descriptors (`SubmitDescriptor`, upgrade.go:54-58) satisfy the invariant. -/
theorem noEarlyCompletion_init (ps : List Pending)
    (hf : ∀ p ∈ ps, p.upgradeHeight = none ∧ p.consensusDone = false) :
    NoEarlyCompletion 0 ⟨ps, false⟩ := by
  intro p hp
  refine ⟨(hf p hp).2, ?_⟩
  intro u hu
  rw [(hf p hp).1] at hu
  cases hu

/-- A call for `(e, H)` that returned `nil` leaves a `Settled e H` state, from ANY state. -/
theorem ok_call_settles (s : State) (m : Mode) (e H : Nat) (hH : 0 < H)
    (hok : (consensusUpgrade s m e H).outcome = .ok) :
    Settled e H (consensusUpgrade s m e H).state ∧
    (m ≠ .commit → ∀ q ∈ (consensusUpgrade s m e H).state.pending,
      q.upgradeHeight = some H → q.hasHandler = true) := by
  obtain ⟨_, hall, hst, _⟩ := call_ok false s m e H hok
  unfold consensusUpgrade
  rw [hst]
  refine ⟨⟨rfl, ?_⟩, ?_⟩
  · intro q hq
    simp only [List.mem_filter, List.mem_map, Bool.not_eq_true'] at hq
    obtain ⟨⟨p, hp, rfl⟩, hc⟩ := hq
    refine ⟨hc, ?_⟩
    rcases item_cont_post m e H p hH (hall p hp) hc with ⟨heq, hu, he, _⟩ | ⟨hu, _⟩
    · left; rw [heq]; exact ⟨hu, he⟩
    · right; exact hu
  · intro hm q hq hqu
    simp only [List.mem_filter, List.mem_map, Bool.not_eq_true'] at hq
    obtain ⟨⟨p, hp, rfl⟩, hc⟩ := hq
    rw [(item_static false m e H p).2.2.2.1]
    rcases item_cont_post m e H p hH (hall p hp) hc with ⟨heq, hu, _, _⟩ | ⟨_, _, _, hh, _⟩
    · rw [heq, hu] at hqu; cases hqu
    · exact hh hm

theorem settled_noEarlyCompletion (e H : Nat) (s : State) (h : Settled e H s) :
    NoEarlyCompletion H s := by
  intro p hp
  refine ⟨(h.2 p hp).1, ?_⟩
  intro u hu
  rcases (h.2 p hp).2 with ⟨hn, _⟩ | hs
  · rw [hn] at hu; cases hu
  · rw [hs] at hu; cases hu; exact Nat.le_refl _

/-- INVARIANT, one step: after a call for height `H` that returned `nil` no descriptor in `pending` has
the consensus stage, and no upgrade height exceeds `H`. -/
theorem noEarlyCompletion_step (s : State) (m : Mode) (e H : Nat) (hH : 0 < H)
    (hok : (consensusUpgrade s m e H).outcome = .ok) :
    NoEarlyCompletion H (consensusUpgrade s m e H).state :=
  settled_noEarlyCompletion e H _ (ok_call_settles s m e H hH hok).1

/-- INVARIANT along every history (calls that returned `nil`; a call for a height below a stored
upgrade height panics, upgrade.go:314-316, so such histories have nondecreasing heights from the first
stored upgrade height on). -/
theorem noEarlyCompletion_reachable :
    ∀ (cs : List Call) (s s' : State) (hl : Nat), NoEarlyCompletion hl s →
    (∀ c ∈ cs, 0 < c.height) → runCalls s cs = some s' →
    NoEarlyCompletion (lastHeight hl cs) s' := by
  intro cs
  induction cs with
  | nil =>
    intro s s' hl hinv _ hrun
    simp only [runCalls, runCallsWith, Option.some.injEq] at hrun
    subst hrun
    exact hinv
  | cons c cs ih =>
    intro s s' hl _ hpos hrun
    simp only [runCalls, runCallsWith] at hrun
    split at hrun
    · rename_i hok
      exact ih _ _ _ (noEarlyCompletion_step s c.mode c.epoch c.height
        (hpos c (List.mem_cons_self ..)) hok)
        (fun c' hc' => hpos c' (List.mem_cons_of_mem _ hc')) hrun
    · cases hrun

/-! ## (b) the handler runs in every execution of the upgrade height -/

/-- On a settled state a further call for the same `(e, H)` changes nothing, returns `nil`, and runs
the handler of exactly the descriptors at upgrade height `H` iff a block context is passed. -/
theorem settled_call (s : State) (m : Mode) (e H : Nat) (hs : Settled e H s)
    (hh : m ≠ .commit → ∀ q ∈ s.pending, q.upgradeHeight = some H → q.hasHandler = true) :
    (consensusUpgrade s m e H).outcome = .ok ∧ (consensusUpgrade s m e H).state = s ∧
    (consensusUpgrade s m e H).ranOf s =
      s.pending.filter (fun q => q.upgradeHeight = some H && m != .commit) := by
  have hitem : ∀ p ∈ s.pending, item false m e H p =
      ⟨p, false, p.upgradeHeight = some H && m != .commit, none⟩ := by
    intro p hp
    rcases (hs.2 p hp).2 with ⟨hn, he⟩ | hu
    · rw [item_future_epoch false m e H p hn he]; simp [hn]
    · rw [item_at_height m e H p hu (hs.2 p hp).1 (fun hm => hh hm p hp hu)]; simp [hu]
  have hall : ∀ p ∈ s.pending, (item false m e H p).exit = none := by
    intro p hp; rw [hitem p hp]
  have hok := call_of_all_cont false s m e H hs.1 hall
  obtain ⟨_, _, hst, hran⟩ := call_ok false s m e H hok
  refine ⟨hok, ?_, ?_⟩
  · unfold consensusUpgrade
    rw [hst]
    have h1 : s.pending.map (fun p => (item false m e H p).p) = s.pending := by
      conv => rhs; rw [← List.map_id s.pending]
      apply List.map_congr_left
      intro p hp; rw [hitem p hp]; rfl
    rw [h1]
    have h2 : s.pending.filter (fun q => !q.consensusDone) = s.pending := by
      apply List.filter_eq_self.2
      intro p hp; simp [(hs.2 p hp).1]
    rw [h2]
    obtain ⟨ps, st⟩ := s
    have h3 : st = false := hs.1
    subst h3; rfl
  · unfold consensusUpgrade
    rw [hran]
    apply List.filter_congr
    intro p hp; rw [hitem p hp]

/-- Any number of further calls for `(e, H)` that return `nil` leave a settled state as it is. -/
theorem settled_run (e H : Nat) :
    ∀ (cs : List Call) (s s' : State), Settled e H s →
    (∀ c ∈ cs, c.height = H ∧ c.epoch = e) → runCalls s cs = some s' → s' = s := by
  intro cs
  induction cs with
  | nil =>
    intro s s' _ _ hrun
    simp only [runCalls, runCallsWith, Option.some.injEq] at hrun
    exact hrun.symm
  | cons c cs ih =>
    intro s s' hs hc hrun
    obtain ⟨hcH, hce⟩ := hc c (List.mem_cons_self ..)
    simp only [runCalls, runCallsWith] at hrun
    split at hrun
    · rename_i hok
      rw [hcH, hce] at hok hrun
      obtain ⟨_, hall, hst, _⟩ := call_ok false s c.mode e H hok
      -- the state is unchanged: every descriptor is waiting or at height `H`
      have hitem : ∀ p ∈ s.pending, (item false c.mode e H p).p = p := by
        intro p hp
        rcases (hs.2 p hp).2 with ⟨hn, he⟩ | hu
        · rw [item_future_epoch false c.mode e H p hn he]
        · have hx := hall p hp
          cases hm : c.mode <;>
            simp_all [item, atHeight, Pending.heightValue, Pending.hasConsensusStage,
              (hs.2 p hp).1] <;>
            (split at hx <;> simp_all)
      have hsame : (consensusUpgradeWith false s c.mode e H).state = s := by
        rw [hst]
        have h1 : s.pending.map (fun p => (item false c.mode e H p).p) = s.pending := by
          conv => rhs; rw [← List.map_id s.pending]
          apply List.map_congr_left
          intro p hp; rw [hitem p hp]; rfl
        rw [h1]
        have h2 : s.pending.filter (fun q => !q.consensusDone) = s.pending := by
          apply List.filter_eq_self.2
          intro p hp; simp [(hs.2 p hp).1]
        rw [h2]
        obtain ⟨ps, st⟩ := s
        have h3 : st = false := hs.1
        subst h3; rfl
      rw [hsame] at hrun
      exact ih s s' hs (fun c' hc' => hc c' (List.mem_cons_of_mem _ hc')) hrun
    · cases hrun

/-- (b) HANDLER RUNS ON EVERY EXECUTION.  Let a call for height `H` with a block context (BeginBlock or
EndBlock) on ANY manager state `s` — in particular any state reached by calls for heights ≤ H — have
returned `nil` and run the migration handler of descriptor `p`.  Then after ANY further calls for the
same height and epoch (any modes, any number: re-executions of the block, Commit-time checks that still
see height `H`), another call for `H` with a block context returns `nil` again, leaves the state as it
is and runs the handler of the same descriptor (same identity, upgrade height `H`) again. -/
theorem handler_runs_on_every_execution (s s2 : State) (m m' : Mode) (e H : Nat) (cs : List Call)
    (p : Pending) (hH : 0 < H) (hm : m ≠ .commit) (hm' : m' ≠ .commit)
    (hok : (consensusUpgrade s m e H).outcome = .ok)
    (hp : p ∈ (consensusUpgrade s m e H).ranOf s)
    (hcs : ∀ c ∈ cs, c.height = H ∧ c.epoch = e)
    (hrun : runCalls (consensusUpgrade s m e H).state cs = some s2) :
    (consensusUpgrade s2 m' e H).outcome = .ok ∧ (consensusUpgrade s2 m' e H).state = s2 ∧
    ∃ q ∈ (consensusUpgrade s2 m' e H).ranOf s2,
      q.id = p.id ∧ q.upgradeHeight = some H ∧ q.consensusDone = false := by
  obtain ⟨hset, hhand⟩ := ok_call_settles s m e H hH hok
  have hs2 := settled_run e H cs _ s2 hset hcs hrun
  subst hs2
  obtain ⟨hok2, hst2, hran2⟩ := settled_call _ m' e H hset (fun _ => hhand hm)
  refine ⟨hok2, hst2, ?_⟩
  obtain ⟨_, hall, hst, hran⟩ := call_ok false s m e H hok
  unfold consensusUpgrade at hp
  rw [hran] at hp
  simp only [List.mem_filter] at hp
  obtain ⟨hps, hpr⟩ := hp
  obtain ⟨hc, hu⟩ := item_ran_post m e H p hH hpr
  refine ⟨(item false m e H p).p, ?_, (item_static false m e H p).1, hu, hc⟩
  rw [hran2]
  simp only [List.mem_filter, Bool.and_eq_true, decide_eq_true_eq, bne_iff_ne, ne_eq]
  refine ⟨?_, hu, hm'⟩
  unfold consensusUpgrade
  rw [hst]
  simp only [List.mem_filter, List.mem_map, Bool.not_eq_true']
  exact ⟨⟨p, hps, rfl⟩, hc⟩

/-- ... and conversely: `ran` at height `H` is a FUNCTION of (descriptors, epoch, `H`, block context or
not).  A descriptor whose handler runs in a later execution of `H` already had it run in the first. -/
theorem handler_runs_only_if_it_ran_before (s s2 : State) (m m' : Mode) (e H : Nat) (cs : List Call)
    (q : Pending) (hH : 0 < H) (hm : m ≠ .commit)
    (hok : (consensusUpgrade s m e H).outcome = .ok)
    (hcs : ∀ c ∈ cs, c.height = H ∧ c.epoch = e)
    (hrun : runCalls (consensusUpgrade s m e H).state cs = some s2)
    (hq : q ∈ (consensusUpgrade s2 m' e H).ranOf s2) :
    ∃ p ∈ (consensusUpgrade s m e H).ranOf s, p.id = q.id := by
  obtain ⟨hset, hhand⟩ := ok_call_settles s m e H hH hok
  have hs2 := settled_run e H cs _ s2 hset hcs hrun
  subst hs2
  obtain ⟨_, _, hran2⟩ := settled_call _ m' e H hset (fun _ => hhand hm)
  rw [hran2] at hq
  simp only [List.mem_filter, Bool.and_eq_true, decide_eq_true_eq] at hq
  obtain ⟨hqm, hqu, _⟩ := hq
  obtain ⟨_, hall, hst, hran⟩ := call_ok false s m e H hok
  unfold consensusUpgrade at hqm ⊢
  rw [hst] at hqm
  simp only [List.mem_filter, List.mem_map, Bool.not_eq_true'] at hqm
  obtain ⟨⟨p, hp, rfl⟩, hc⟩ := hqm
  refine ⟨p, ?_, (item_static false m e H p).1.symm⟩
  rw [hran]
  simp only [List.mem_filter]
  refine ⟨hp, ?_⟩
  rcases item_cont_post m e H p hH (hall p hp) hc with ⟨heq, hu, _, _⟩ | ⟨_, _, _, _, hr⟩
  · rw [heq, hu] at hqu; cases hqu
  · rw [hr]; simp [hm]

/-- Where the invariant is used: in a state satisfying it for a latest height `hl ≤ H`, a descriptor
whose upgrade height is `H` has its handler run by EVERY call for `H` with a block context that returns
`nil` — the first execution of `H` and every later one alike. -/
theorem runs_at_upgrade_height (s : State) (hl : Nat) (m : Mode) (e H : Nat) (p : Pending)
    (hinv : NoEarlyCompletion hl s) (hm : m ≠ .commit)
    (hp : p ∈ s.pending) (hu : p.upgradeHeight = some H)
    (hok : (consensusUpgrade s m e H).outcome = .ok) :
    p ∈ (consensusUpgrade s m e H).ranOf s := by
  obtain ⟨_, hall, _, hran⟩ := call_ok false s m e H hok
  unfold consensusUpgrade
  rw [hran]
  simp only [List.mem_filter]
  refine ⟨hp, ?_⟩
  have hc := (hinv p hp).1
  have hx := hall p hp
  cases m <;>
    simp_all [item, atHeight, Pending.heightValue, Pending.hasConsensusStage] <;>
    (split at hx <;> simp_all)

/-! ## (c) the handler never runs after the upgrade height -/

/-- No descriptor with identity `i` is pending. -/
def Absent (i : Nat) (s : State) : Prop := ∀ q ∈ s.pending, q.id ≠ i

theorem absent_step (i : Nat) (s : State) (m : Mode) (e h : Nat) (ha : Absent i s)
    (hok : (consensusUpgrade s m e h).outcome = .ok) : Absent i (consensusUpgrade s m e h).state := by
  obtain ⟨_, _, hst, _⟩ := call_ok false s m e h hok
  unfold consensusUpgrade
  rw [hst]
  intro q hq
  simp only [List.mem_filter, List.mem_map] at hq
  obtain ⟨⟨p, hp, rfl⟩, _⟩ := hq
  rw [(item_static false m e h p).1]
  exact ha p hp

theorem absent_run (i : Nat) :
    ∀ (cs : List Call) (s s' : State), Absent i s → runCalls s cs = some s' → Absent i s' := by
  intro cs
  induction cs with
  | nil =>
    intro s s' ha hrun
    simp only [runCalls, runCallsWith, Option.some.injEq] at hrun
    subst hrun; exact ha
  | cons c cs ih =>
    intro s s' ha hrun
    simp only [runCalls, runCallsWith] at hrun
    split at hrun
    · rename_i hok
      exact ih _ _ (absent_step i s c.mode c.epoch c.height ha hok) hrun
    · cases hrun

/-- (c) HANDLER NEVER RUNS AFTER.  Let `p` be pending with upgrade height `u` and let a call for a height
`h > u` be made.  Whatever its outcome, it does not run `p`'s handler; if it returns `nil`, `p` has been
completed and dropped (descriptor identities in `pending` are pairwise different, upgrade.go:48-52), it
stays absent along every further history, and no later call — any mode, epoch, height, outcome — runs
the handler of a descriptor with `p`'s identity. -/
theorem handler_never_runs_after (s : State) (m : Mode) (e h u : Nat) (p : Pending)
    (hp : p ∈ s.pending) (hu : p.upgradeHeight = some u) (hlt : u < h)
    (hnd : (s.pending.map (·.id)).Nodup) :
    p ∉ (consensusUpgrade s m e h).ranOf s ∧
    ((consensusUpgrade s m e h).outcome = .ok →
      Absent p.id (consensusUpgrade s m e h).state ∧
      ∀ (cs : List Call) (s' : State) (m' : Mode) (e' h' : Nat),
        runCalls (consensusUpgrade s m e h).state cs = some s' →
        ∀ q ∈ (consensusUpgrade s' m' e' h').ranOf s', q.id ≠ p.id) := by
  have hpast := item_past_height false m e h u p hu hlt
  refine ⟨?_, ?_⟩
  · intro hmem
    have := (call_ranOf_sub false s m e h p hmem).2
    rw [hpast.1] at this
    cases this
  · intro hok
    have habs : Absent p.id (consensusUpgrade s m e h).state := by
      obtain ⟨_, hall, hst, _⟩ := call_ok false s m e h hok
      unfold consensusUpgrade
      rw [hst]
      intro q hq hid
      simp only [List.mem_filter, List.mem_map, Bool.not_eq_true'] at hq
      obtain ⟨⟨p', hp', rfl⟩, hc⟩ := hq
      rw [(item_static false m e h p').1] at hid
      have : p' = p := eq_of_nodup_ids s.pending hnd p' hp' p hp hid
      subst this
      rw [hpast.2 (hall p' hp')] at hc
      cases hc
    refine ⟨habs, ?_⟩
    intro cs s' m' e' h' hrun q hq
    have ha' := absent_run p.id cs _ s' habs hrun
    exact ha' q (call_ranOf_sub false s' m' e' h' q hq).1

/-! ## (d) the handler runs exactly at the upgrade height, which is the height of the first call that
sees the epoch -/

/-- (d), first half.  Whatever the outcome of the call: a descriptor whose handler ran is not completed,
a block context was passed, and its upgrade height IS the height of the call — stored before, or stored
by this very call because it is the first one to see `epoch ≤ currentEpoch` (upgrade.go:274-278). -/
theorem runs_exactly_at_upgrade_height (s : State) (m : Mode) (e h : Nat) (p : Pending)
    (hp : p ∈ (consensusUpgrade s m e h).ranOf s) :
    p ∈ s.pending ∧ p.consensusDone = false ∧ m ≠ .commit ∧
    (p.upgradeHeight = some h ∨ (p.upgradeHeight = none ∧ p.epoch ≤ e)) := by
  obtain ⟨hps, hr⟩ := call_ranOf_sub false s m e h p hp
  obtain ⟨hc, hm, _, hu⟩ := item_ran_imp m e h p hr
  exact ⟨hps, hc, hm, hu⟩

/-- ... and when the call returns `nil` the descriptor is still pending afterwards, with upgrade height
equal to the height of the call and without the consensus stage. -/
theorem ran_descriptor_stays_pending (s : State) (m : Mode) (e h : Nat) (p : Pending) (hh : 0 < h)
    (hok : (consensusUpgrade s m e h).outcome = .ok)
    (hp : p ∈ (consensusUpgrade s m e h).ranOf s) :
    ∃ q ∈ (consensusUpgrade s m e h).state.pending,
      q.id = p.id ∧ q.upgradeHeight = some h ∧ q.consensusDone = false := by
  obtain ⟨hps, hr⟩ := call_ranOf_sub false s m e h p hp
  obtain ⟨hc, hu⟩ := item_ran_post m e h p hh hr
  obtain ⟨_, _, hst, _⟩ := call_ok false s m e h hok
  refine ⟨(item false m e h p).p, ?_, (item_static false m e h p).1, hu, hc⟩
  unfold consensusUpgrade
  rw [hst]
  simp only [List.mem_filter, List.mem_map, Bool.not_eq_true']
  exact ⟨⟨p, hps, rfl⟩, hc⟩

/-- A descriptor whose epoch no call has reached stays pending, untouched. -/
theorem waiting_descriptor_untouched (p : Pending) (hu : p.upgradeHeight = none)
    (hc : p.consensusDone = false) :
    ∀ (cs : List Call) (s s' : State), p ∈ s.pending → (∀ c ∈ cs, c.epoch < p.epoch) →
    runCalls s cs = some s' → p ∈ s'.pending := by
  intro cs
  induction cs with
  | nil =>
    intro s s' hp _ hrun
    simp only [runCalls, runCallsWith, Option.some.injEq] at hrun
    subst hrun; exact hp
  | cons c cs ih =>
    intro s s' hp he hrun
    simp only [runCalls, runCallsWith] at hrun
    split at hrun
    · rename_i hok
      refine ih _ _ ?_ (fun c' hc' => he c' (List.mem_cons_of_mem _ hc')) hrun
      obtain ⟨_, _, hst, _⟩ := call_ok false s c.mode c.epoch c.height hok
      rw [hst]
      simp only [List.mem_filter, List.mem_map, Bool.not_eq_true']
      refine ⟨⟨p, hp, ?_⟩, hc⟩
      rw [item_future_epoch false c.mode c.epoch c.height p hu (he c (List.mem_cons_self ..))]
    · cases hrun

/-- (d), second half.  THE UPGRADE HEIGHT IS THE HEIGHT OF THE FIRST CALL WHOSE EPOCH HAS REACHED THE
DESCRIPTOR'S EPOCH: after any history of calls with earlier epochs followed by a call `c` with
`p.epoch ≤ c.epoch` (all returning `nil`), the descriptor is pending with `UpgradeHeight = c.height` and
the startup stage pushed in place (upgrade.go:278, 305), nothing else changed. -/
theorem upgrade_height_is_first_epoch_call (s s' : State) (cs : List Call) (c : Call) (p : Pending)
    (hp : p ∈ s.pending) (hu : p.upgradeHeight = none) (hc : p.consensusDone = false)
    (hbefore : ∀ c' ∈ cs, c'.epoch < p.epoch) (hreach : p.epoch ≤ c.epoch) (hh : 0 < c.height)
    (hrun : runCalls s (cs ++ [c]) = some s') :
    { p with upgradeHeight := some c.height, startupDone := true } ∈ s'.pending := by
  -- split the history
  have hsplit : ∀ (cs : List Call) (s : State), runCalls s (cs ++ [c]) = some s' →
      ∃ s1, runCalls s cs = some s1 ∧ runCalls s1 [c] = some s' := by
    intro cs
    induction cs with
    | nil => intro s h; exact ⟨s, rfl, h⟩
    | cons c0 cs ih =>
      intro s h
      simp only [runCalls, runCallsWith, List.cons_append] at h ⊢
      split at h
      · rename_i hok
        obtain ⟨s1, h1, h2⟩ := ih _ h
        exact ⟨s1, by simpa [hok, runCalls] using h1, h2⟩
      · cases h
  obtain ⟨s1, h1, h2⟩ := hsplit cs s hrun
  have hp1 := waiting_descriptor_untouched p hu hc cs s s1 hp hbefore h1
  simp only [runCalls, runCallsWith] at h2
  split at h2
  · rename_i hok
    simp only [Option.some.injEq] at h2
    subst h2
    obtain ⟨_, hall, hst, _⟩ := call_ok false s1 c.mode c.epoch c.height hok
    obtain ⟨heq, _, _, _⟩ :=
      item_epoch_reached c.mode c.epoch c.height p hh hu hreach (hall p hp1)
    rw [hst]
    simp only [List.mem_filter, List.mem_map, Bool.not_eq_true']
    exact ⟨⟨p, hp1, heq⟩, hc⟩
  · cases h2

/-! ## (e) the seeded variant: pushing the stage early skips the re-execution -/

/-- One descriptor for epoch 5 that can be upgraded in place. -/
def st0 : State := ⟨[Pending.fresh 7 5 true true false], false⟩

/-- A proposal for height 10 executed (BeginBlock, EndBlock) but not decided, then the decided
proposal executed. -/
def twoExecutions : List Call :=
  [⟨.beginBlock, 5, 10⟩, ⟨.endBlock, 5, 10⟩, ⟨.beginBlock, 5, 10⟩, ⟨.endBlock, 5, 10⟩]

/-- (e) With the consensus stage pushed right after the handler ran in EndBlock, the first execution of
height 10 runs the handler (in BeginBlock and in EndBlock) and the second execution does NOT: the
descriptor was completed and dropped by the flush of the first EndBlock.  The code as it is runs the
handler in both executions. -/
theorem early_stage_push_skips_reexecution :
    traceWith true st0 twoExecutions = [([0], .ok), ([0], .ok), ([], .ok), ([], .ok)] ∧
    traceWith false st0 twoExecutions = [([0], .ok), ([0], .ok), ([0], .ok), ([0], .ok)] ∧
    runCallsWith true st0 twoExecutions = some ⟨[], false⟩ ∧
    runCallsWith false st0 twoExecutions =
      some ⟨[{ Pending.fresh 7 5 true true false with upgradeHeight := some 10, startupDone := true }],
        false⟩ := by
  decide

/-- The seeded variant violates the CONCLUSION of `handler_runs_on_every_execution` on `st0`: the first
BeginBlock of height 10 returns `nil` and runs the handler, one further call for the same height and
epoch (the EndBlock) returns `nil`, and the next BeginBlock for height 10 runs nothing. -/
theorem early_variant_breaks_property :
    let r := consensusUpgradeEarly st0 .beginBlock 5 10
    r.outcome = .ok ∧ r.ranOf st0 ≠ [] ∧
    ∃ s2, runCallsWith true r.state [⟨.endBlock, 5, 10⟩] = some s2 ∧
      (consensusUpgradeEarly s2 .beginBlock 5 10).ranOf s2 = [] := by
  decide

/-! ## Witnesses that the hypotheses are needed -/

/-- Histories must stop at the first call that does not return `nil` (the process ends there,
`mux.go:612-619`).  If one went on: `A` (past its height) is completed by the first call, `B`'s handler
runs, `C`'s handler is missing so the call leaves before the final flush; a second call for the same
height panics in `PushStage` on `A` before it reaches `B`. -/
theorem continuing_after_an_error_is_different :
    let a : Pending := { Pending.fresh 1 1 true true false with upgradeHeight := some 9, startupDone := true }
    let b : Pending := { Pending.fresh 2 5 true true false with upgradeHeight := some 10, startupDone := true }
    let c : Pending := { Pending.fresh 3 5 true false false with upgradeHeight := some 10, startupDone := true }
    traceWith false ⟨[a, b, c], false⟩ [⟨.beginBlock, 5, 10⟩, ⟨.beginBlock, 5, 10⟩] =
      [([1], .handlerMissing), ([], .panicStageOrder)] := by
  decide

/-- The calls of one height must carry the same epoch.  If EndBlock of height 10 saw a later epoch than
BeginBlock of height 10, the first execution would run the handler in EndBlock only and the second
execution in BeginBlock as well. -/
theorem epoch_change_inside_a_height_is_path_dependent :
    traceWith false st0 [⟨.beginBlock, 4, 10⟩, ⟨.endBlock, 5, 10⟩, ⟨.beginBlock, 4, 10⟩, ⟨.endBlock, 5, 10⟩] =
      [([], .ok), ([0], .ok), ([0], .ok), ([0], .ok)] := by
  decide

/-- `0 < H` is needed: the height 0 is `InvalidUpgradeHeight`, so a call for height 0 that sees the
epoch stores nothing and the next call panics pushing the startup stage a second time. -/
theorem height_zero_is_not_stored :
    traceWith false st0 [⟨.beginBlock, 5, 0⟩, ⟨.beginBlock, 5, 0⟩] =
      [([0], .ok), ([], .panicStageOrder)] := by
  decide

/-! ## (f) non-vacuity -/

/-- Two descriptors: one already at upgrade height 10 (in place), one for a later epoch. -/
def st1 : State :=
  ⟨[{ Pending.fresh 1 5 true true false with upgradeHeight := some 10, startupDone := true },
    Pending.fresh 2 8 true true false], false⟩

/-- `handler_runs_on_every_execution`: hypotheses satisfiable (first call = the one that sees the epoch,
then EndBlock, a Commit-time call still at the same height, and a re-execution). -/
example :
    let cs : List Call := [⟨.endBlock, 5, 10⟩, ⟨.commit, 5, 10⟩, ⟨.beginBlock, 5, 10⟩]
    (consensusUpgrade st0 .beginBlock 5 10).outcome = .ok ∧
    Pending.fresh 7 5 true true false ∈ (consensusUpgrade st0 .beginBlock 5 10).ranOf st0 ∧
    (∀ c ∈ cs, c.height = 10 ∧ c.epoch = 5) ∧
    (runCalls (consensusUpgrade st0 .beginBlock 5 10).state cs).isSome = true := by
  decide

/-- `runs_at_upgrade_height`, `noEarlyCompletion_reachable`: the invariant holds on `st1` (latest height
10) and the call returns `nil`. -/
example : NoEarlyCompletion 10 st1 ∧ (consensusUpgrade st1 .endBlock 5 10).outcome = .ok ∧
    (consensusUpgrade st1 .endBlock 5 10).ran = [0] := by
  refine ⟨?_, by decide, by decide⟩
  intro p hp
  simp only [st1, List.mem_cons, List.not_mem_nil, or_false] at hp
  rcases hp with rfl | rfl <;> simp [Pending.fresh]

/-- `handler_never_runs_after`: a call for height 11 completes and drops the descriptor of `st1` that is
at height 10, returns `nil`, and identities are pairwise different. -/
example :
    (consensusUpgrade st1 .beginBlock 5 11).outcome = .ok ∧
    (consensusUpgrade st1 .beginBlock 5 11).state = ⟨[Pending.fresh 2 8 true true false], false⟩ ∧
    (consensusUpgrade st1 .beginBlock 5 11).ran = [] ∧ (st1.pending.map (·.id)).Nodup := by
  decide

/-- `upgrade_height_is_first_epoch_call`: two calls before the epoch, then the call that reaches it. -/
example :
    runCalls st1 [⟨.beginBlock, 5, 10⟩, ⟨.endBlock, 5, 10⟩, ⟨.commit, 8, 11⟩] =
      some ⟨[{ Pending.fresh 2 8 true true false with upgradeHeight := some 11, startupDone := true }],
        false⟩ := by
  decide

/-- The other outcomes are reachable: a descriptor that needs a restart stops the node, and then every
call answers `ErrStopForUpgrade` (upgrade.go:267-269). -/
example :
    traceWith false ⟨[Pending.fresh 1 5 true true true], false⟩ [⟨.beginBlock, 5, 10⟩, ⟨.commit, 5, 10⟩] =
      [([], .stopForUpgrade), ([], .stopForUpgrade)] ∧
    (consensusUpgrade st1 .beginBlock 5 9).outcome = .panicFutureHeight := by
  decide

end OasisProofs.C01Upgrade
