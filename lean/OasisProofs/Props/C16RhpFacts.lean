/-
Regenerated tie of the response-dispatcher model (`OasisModel/Rhp/Dispatch.lean`) to `go/runtime/host/protocol/connection.go`: `call` creates a response channel of capacity 1 and registers it under a fresh id, `handleMessage` looks the id of a response frame up AND deletes it in one critical section before it sends, so at most one body is ever sent into a channel and the send cannot block; `workerIncoming` starts one handler per frame and waits for all of them.

`tools/gen stmtfacts rhp` flattens the functions into one line per simple statement on every run; the
lists are pinned here (`rfl`).  A change of a statement, a condition or of the order of statements
breaks the pin until the new text has been read against the model.
-/
import Generated.StmtFactsRhp

namespace OasisProofs.C16RhpFacts

/-- Position of the first line equal to `s`. -/
def pos (l : List String) (s : String) : Option Nat :=
  let i := l.findIdx (· == s)
  if i < l.length then some i else none

/-- The lines occur in this order (strictly increasing positions). -/
def inOrder (l : List String) : List String → Option Nat → Bool
  | [], _ => true
  | s :: rest, prev =>
    match pos l s, prev with
    | none, _ => false
    | some i, none => inOrder l rest (some i)
    | some i, some p => decide (p < i) && inOrder l rest (some i)

def expected_callStmts : List String := [
  "start := time.Now()",
  "defer func() {",
  "if !metrics.Enabled() {",
  "return",
  "}",
  "rhpLatency.With(prometheus.Labels{labelCall: body.Type()}).Observe(time.Since(start).Seconds())",
  "if err != nil {",
  "rhpCallFailures.With(prometheus.Labels{labelCall: body.Type()}).Inc()",
  "if errors.Is(err, context.Canceled) || errors.Is(err, context.DeadlineExceeded) {",
  "rhpCallTimeouts.Inc()",
  "}",
  "}",
  "else {",
  "rhpCallSuccesses.With(prometheus.Labels{labelCall: body.Type()}).Inc()",
  "}",
  "}()",
  "respCh := make(chan *Body, 1)",
  "c.Lock()",
  "id := c.nextRequestID",
  "c.nextRequestID++",
  "c.pendingRequests[id] = respCh",
  "c.Unlock()",
  "defer func() {",
  "c.Lock()",
  "defer c.Unlock()",
  "delete(c.pendingRequests, id)",
  "}()",
  "msg := Message{ ID: id, MessageType: MessageRequest, Body: *body, }",
  "if err = c.sendMessage(ctx, &msg); err != nil {",
  "return nil, fmt.Errorf(\"failed to send message: %w\", err)",
  "}",
  "resp, err := c.readResponse(ctx, respCh)",
  "if err != nil {",
  "return nil, err",
  "}",
  "return resp, nil"]

theorem callStmts_as_modelled : Generated.StmtFacts.Rhp.callStmts = expected_callStmts := rfl

def expected_handleMessageStmts : List String := [
  "switch message.MessageType {",
  "case MessageRequest:",
  "if err := c.waitReady(ctx); err != nil {",
  "_ = c.sendMessage(ctx, newResponseMessage(message, errorToBody(ErrNotReady)))",
  "return",
  "}",
  "body, err := c.handler.Handle(ctx, &message.Body)",
  "if err != nil {",
  "body = errorToBody(err)",
  "}",
  "if err := c.sendMessage(ctx, newResponseMessage(message, body)); err != nil {",
  "c.logger.Warn(\"failed to send response message\", \"err\", err, )",
  "}",
  "case MessageResponse:",
  "c.Lock()",
  "respCh, ok := c.pendingRequests[message.ID]",
  "delete(c.pendingRequests, message.ID)",
  "c.Unlock()",
  "if !ok {",
  "c.logger.Warn(\"received a response but no request with id is outstanding\", \"id\", message.ID, )",
  "break",
  "}",
  "respCh <- &message.Body",
  "default:",
  "c.logger.Warn(\"received a malformed message from worker, ignoring\", \"message\", fmt.Sprintf(\"%+v\", message), )",
  "}"]

theorem handleMessageStmts_as_modelled : Generated.StmtFacts.Rhp.handleMessageStmts = expected_handleMessageStmts := rfl

def expected_workerIncomingStmts : List String := [
  "var wg sync.WaitGroup",
  "defer wg.Wait()",
  "ctx, cancel := context.WithCancel(context.Background())",
  "defer cancel()",
  "defer func() {",
  "_ = c.conn.Close()",
  "close(c.closeCh)",
  "}()",
  "for  {",
  "var message Message",
  "err := c.codec.Read(&message)",
  "if err != nil {",
  "c.logger.Error(\"error while receiving message from worker\", \"err\", err, )",
  "break",
  "}",
  "wg.Go(func() { localCtx, localCancel := context.WithCancel(ctx) defer localCancel() c.handleMessage(localCtx, &message) })",
  "}"]

theorem workerIncomingStmts_as_modelled : Generated.StmtFacts.Rhp.workerIncomingStmts = expected_workerIncomingStmts := rfl

theorem handleMessage_lookup_and_delete_in_one_critical_section :
    inOrder expected_handleMessageStmts ["c.Lock()", "respCh, ok := c.pendingRequests[message.ID]", "delete(c.pendingRequests, message.ID)", "c.Unlock()", "respCh <- &message.Body"] none = true := by decide +kernel

end OasisProofs.C16RhpFacts
