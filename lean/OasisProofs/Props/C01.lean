import OasisModel.Mux.Proposal
import OasisProofs.Helpers.Mux
import Generated.MapRangeSites
import Generated.MuxFacts
import Mathlib.Logic.Equiv.List
/-
C01 — replicas compute identical state and results for identical blocks (PARTIAL).

Part 1 (this section): the proposal cache of the ABCI multiplexer.  For every sequence of ABCI
calls CometBFT may issue for a height, the committed state and the results handed back for the
decided block are those of the block executor `exec`, whatever path (own proposal served from the
cache / somebody else's proposal executed in ProcessProposal and served from the cache / plain
replay / restart in between) the replica went through.

Part 2 (`OasisProofs.C01.Order`, below): order independence of the fold patterns found at the
map-range sites of consensus-critical code, and the regenerated site ledger tied to an
expectation table.

What stays outside the theorems (hence partial): Go's map iteration order itself, goroutine
interleavings (CheckTx and queries are sequentialised here), NodeDB reload from disk (`restart` is
"state as of the last Commit").  Those are exercised by harness/cmd/muxdrv only.
-/
set_option linter.unusedSectionVars false
set_option linter.unnecessarySeqFocus false
set_option linter.unusedSimpArgs false

namespace OasisProofs.C01
open OasisModel.Mux OasisProofs.MuxH

variable {St W Tx R Root Hdr LC Ev : Type}
variable [DecidableEq Tx] [DecidableEq Root] [DecidableEq Hdr] [DecidableEq LC] [DecidableEq Ev]

/-! ## The proposal cache -/

/-- **Path independence for one height.**
`J` is anything at all that does not contain a `Commit` (aborted deliveries, rejected proposals,
calls the grammar does not even allow) provided it ends in a restart — or nothing, when the height
starts with an idle multiplexer.  `P` is any sequence of PrepareProposal / ProcessProposal of
arbitrary candidate blocks in arbitrary rounds, restarts, CheckTx, gas estimations and queries.
Then BeginBlock, DeliverTx…, EndBlock, Commit of the decided block `b`:

  * fail (the node panics) exactly when the executor fails on `b` — on every path;
  * otherwise commit exactly `exec`'s state and return exactly `exec`'s results and state root,
    whether they came from the cache or from execution;
  * and leave the multiplexer idle.

`env` collects the environment hypotheses (hashes identify blocks, PrepareProposal is called with
the node's own address).  Since /repo 47a524f `isEqual` compares the last-commit info, so no
hypothesis about commit info is needed any more; `prefix_rule_commit_info_gap` records what went
wrong with the rule before that fix. -/
theorem mux_path_independent (A : Apps St W Tx R Root Hdr LC Ev)
    (hashOf : Blk Tx Root Hdr LC Ev → Hash) (m : Mux St W Tx R Root Hdr LC Ev)
    (J P : List (Call Tx Root Hdr LC Ev)) (b : Blk Tx Root Hdr LC Ev)
    (hJ : ∀ c ∈ J, c.isCommit = false)
    (hJr : (J = [] ∧ m.prop = none) ∨ ∃ J', J = J' ++ [Call.restart])
    (hP : ∀ c ∈ P, c.isPre = true)
    (env : Env A hashOf m.self P)
    (m1 : Mux St W Tx R Root Hdr LC Ev) (r1 : List (Resp Tx R Root)) (hrun : run A m J = some (m1, r1)) :
    ∃ rP, rP.length = P.length ∧
      run A m (J ++ P ++ deliverSeq (hashOf b) b) =
        (exec A m.canon b).map fun x =>
          (⟨m.self, A.tree x.1.w, none, A.tree x.1.w⟩, r1 ++ rP ++ deliverResps A x) := by
  -- after J the multiplexer is idle on the same committed state
  have hidle : m1.canon = m.canon ∧ m1.self = m.self ∧ m1.prop = none := by
    have hc := run_canon A m m1 J r1 hrun hJ
    refine ⟨hc.1, hc.2, ?_⟩
    rcases hJr with ⟨rfl, hp⟩ | ⟨J', rfl⟩
    · simp only [run_nil, Option.some.injEq, Prod.mk.injEq] at hrun
      rw [← hrun.1]; exact hp
    · rw [run_append] at hrun
      cases h1 : run A m J' with
      | none => simp [h1] at hrun
      | some x =>
        simp only [h1, Option.bind_some, run_cons, step, run_nil, Option.map_some, Option.some.injEq,
          Prod.mk.injEq] at hrun
        rw [← hrun.1]; rfl
  have hinv : Inv A hashOf P m.canon m.self m1 :=
    ⟨hidle.1, hidle.2.1, by intro p hp; rw [hidle.2.2] at hp; cases hp⟩
  obtain ⟨m2, rP, hrP, hinv2⟩ := run_pre_inv A hashOf P m.canon m.self env P
    (fun c hc => ⟨hc, hP c hc⟩) m1 hinv
  refine ⟨rP, run_length A m1 m2 P rP hrP, ?_⟩
  rw [List.append_assoc, run_append, hrun]
  simp only [Option.bind_some]
  rw [run_append, hrP]
  simp only [Option.bind_some]
  rw [inv_deliver A hashOf P m.canon m.self env.hinj env.hnz m2 hinv2 b]
  cases exec A m.canon b with
  | none => rfl
  | some x => simp [List.append_assoc]

/-- **Mempool checks, gas estimation and queries are invisible to block processing**: deleting
all CheckTx / simulate / query calls from any trace changes neither the committed state, nor the
proposal cache, nor the response to any other call. -/
theorem checktx_simulate_query_invisible (A : Apps St W Tx R Root Hdr LC Ev)
    (m : Mux St W Tx R Root Hdr LC Ev) (T : List (Call Tx Root Hdr LC Ev)) :
    (run A m T).map (fun x => (core x.1, keepCore T x.2)) =
      (run A m (T.filter fun c => !c.isNoise)).map (fun x => (core x.1, x.2)) :=
  run_strip A m m rfl T

/-! ### All heights: replicas agree -/

/-- The calls one replica receives for one height, and the block that was decided. -/
structure HeightTrace (Tx Root Hdr LC Ev : Type) where
  J : List (Call Tx Root Hdr LC Ev)
  P : List (Call Tx Root Hdr LC Ev)
  b : Blk Tx Root Hdr LC Ev

def HeightTrace.calls (hashOf : Blk Tx Root Hdr LC Ev → Hash) (t : HeightTrace Tx Root Hdr LC Ev) :
    List (Call Tx Root Hdr LC Ev) :=
  t.J ++ t.P ++ deliverSeq (hashOf t.b) t.b

/-- The grammar of `mux_path_independent` for one height of a replica with address `self`. -/
def HeightTrace.Ok (A : Apps St W Tx R Root Hdr LC Ev) (hashOf : Blk Tx Root Hdr LC Ev → Hash)
    (self : Nat) (t : HeightTrace Tx Root Hdr LC Ev) : Prop :=
  (∀ c ∈ t.J, c.isCommit = false) ∧ (t.J = [] ∨ ∃ J', t.J = J' ++ [Call.restart]) ∧
  (∀ c ∈ t.P, c.isPre = true) ∧ Env A hashOf self t.P

/-- Run a replica through consecutive heights, keeping per height the responses to the delivery
of the decided block (BeginBlock, every DeliverTx, EndBlock, Commit). -/
def runHeights (A : Apps St W Tx R Root Hdr LC Ev) (hashOf : Blk Tx Root Hdr LC Ev → Hash) :
    Mux St W Tx R Root Hdr LC Ev → List (HeightTrace Tx Root Hdr LC Ev) →
    Option (Mux St W Tx R Root Hdr LC Ev × List (List (Resp Tx R Root)))
  | m, [] => some (m, [])
  | m, t :: ts =>
    match run A m (t.calls hashOf) with
    | none => none
    | some (m', rs) =>
      match runHeights A hashOf m' ts with
      | none => none
      | some (m'', out) => some (m'', rs.drop (t.J.length + t.P.length) :: out)

/-- The reference: the executor folded over the chain of decided blocks. -/
def execChain (A : Apps St W Tx R Root Hdr LC Ev) :
    St → List (Blk Tx Root Hdr LC Ev) → Option (St × List (List (Resp Tx R Root)))
  | s, [] => some (s, [])
  | s, b :: bs =>
    match exec A s b with
    | none => none
    | some x =>
      match execChain A (A.tree x.1.w) bs with
      | none => none
      | some (s', out) => some (s', deliverResps A x :: out)

/-- A replica that gets through its call sequence has, at every height, the executor's state and
returned the executor's results for the decided block. -/
theorem replica_follows_chain (A : Apps St W Tx R Root Hdr LC Ev)
    (hashOf : Blk Tx Root Hdr LC Ev → Hash) (m m' : Mux St W Tx R Root Hdr LC Ev)
    (ts : List (HeightTrace Tx Root Hdr LC Ev)) (out : List (List (Resp Tx R Root)))
    (hidle : m.prop = none) (hok : ∀ t ∈ ts, t.Ok A hashOf m.self)
    (hrun : runHeights A hashOf m ts = some (m', out)) :
    execChain A m.canon (ts.map (·.b)) = some (m'.canon, out) ∧ m'.prop = none ∧ m'.self = m.self := by
  induction ts generalizing m out with
  | nil =>
    simp only [runHeights, Option.some.injEq, Prod.mk.injEq] at hrun
    obtain ⟨rfl, rfl⟩ := hrun
    exact ⟨rfl, hidle, rfl⟩
  | cons t ts ih =>
    obtain ⟨hJ, hJr, hP, env⟩ := hok t (by simp)
    simp only [runHeights] at hrun
    cases hr : run A m (t.calls hashOf) with
    | none => simp [hr] at hrun
    | some x =>
      obtain ⟨m1, rs⟩ := x
      simp only [hr] at hrun
      cases hr2 : runHeights A hashOf m1 ts with
      | none => simp [hr2] at hrun
      | some y =>
        obtain ⟨m2, out2⟩ := y
        simp only [hr2, Option.some.injEq, Prod.mk.injEq] at hrun
        obtain ⟨rfl, rfl⟩ := hrun
        -- the J part ran
        have hrJ : ∃ mJ rJ, run A m t.J = some (mJ, rJ) := by
          unfold HeightTrace.calls at hr
          rw [List.append_assoc, run_append] at hr
          cases hj : run A m t.J with
          | none => simp [hj] at hr
          | some z => exact ⟨z.1, z.2, rfl⟩
        obtain ⟨mJ, rJ, hrJ⟩ := hrJ
        have hJr' : (t.J = [] ∧ m.prop = none) ∨ ∃ J', t.J = J' ++ [Call.restart] := by
          rcases hJr with h | h
          · exact Or.inl ⟨h, hidle⟩
          · exact Or.inr h
        obtain ⟨rP, hlen, heq⟩ := mux_path_independent A hashOf m t.J t.P t.b hJ hJr' hP env mJ rJ hrJ
        unfold HeightTrace.calls at hr
        rw [heq] at hr
        cases hx : exec A m.canon t.b with
        | none => simp [hx] at hr
        | some x =>
          simp only [hx, Option.map_some, Option.some.injEq, Prod.mk.injEq] at hr
          obtain ⟨rfl, rfl⟩ := hr
          have hlenJ := run_length A m mJ t.J rJ hrJ
          have ih' := ih (m := ⟨m.self, A.tree x.1.w, none, A.tree x.1.w⟩) out2 rfl
            (fun t' ht' => hok t' (by simp [ht'])) hr2
          simp only [List.map_cons, execChain, hx, ih'.1]
          refine ⟨?_, ih'.2.1, ih'.2.2⟩
          have : (rJ ++ rP ++ deliverResps A x).drop (t.J.length + t.P.length) = deliverResps A x := by
            rw [← hlenJ, ← hlen, ← List.length_append]
            simp
          rw [this]

/-- **Replicas agree at every height, for every assignment of execution paths.**  Two replicas
with the same committed state, fed the same chain of decided blocks through *different* call
sequences (different own address, different proposals seen, different restarts, different
CheckTx / query traffic), end every height with the same committed state and have returned the
same BeginBlock / DeliverTx / EndBlock results and the same application hash. -/
theorem replicas_agree (A : Apps St W Tx R Root Hdr LC Ev)
    (hashOf : Blk Tx Root Hdr LC Ev → Hash)
    (m1 m2 m1' m2' : Mux St W Tx R Root Hdr LC Ev)
    (ts1 ts2 : List (HeightTrace Tx Root Hdr LC Ev)) (out1 out2 : List (List (Resp Tx R Root)))
    (hsame : m1.canon = m2.canon) (hblocks : ts1.map (·.b) = ts2.map (·.b))
    (h1 : m1.prop = none) (h2 : m2.prop = none)
    (ok1 : ∀ t ∈ ts1, t.Ok A hashOf m1.self) (ok2 : ∀ t ∈ ts2, t.Ok A hashOf m2.self)
    (r1 : runHeights A hashOf m1 ts1 = some (m1', out1))
    (r2 : runHeights A hashOf m2 ts2 = some (m2', out2)) :
    m1'.canon = m2'.canon ∧ out1 = out2 := by
  have e1 := (replica_follows_chain A hashOf m1 m1' ts1 out1 h1 ok1 r1).1
  have e2 := (replica_follows_chain A hashOf m2 m2' ts2 out2 h2 ok2 r2).1
  rw [hsame, hblocks, e2] at e1
  simp only [Option.some.injEq, Prod.mk.injEq] at e1
  exact ⟨e1.1.symm, e1.2.symm⟩

/-! ### What `isEqual` compares -/

/-- **`isEqual` is sound**: ProcessProposal answers from the cache only if a proposal was executed
and its recorded header, transaction list, last-commit info and misbehaviour list are equal to the
offered ones — every input of block execution. -/
theorem isEqual_sound (m : Mux St W Tx R Root Hdr LC Ev) (b : Blk Tx Root Hdr LC Ev)
    (h : reusable m b = true) :
    ∃ p, m.prop = some p ∧ p.results.isSome = true ∧ p.recd = some (b.hdr, b.txs, b.lc, b.ev) := by
  unfold reusable at h
  cases hp : m.prop with
  | none => simp [hp] at h
  | some p =>
    simp only [hp, Bool.and_eq_true] at h
    exact ⟨p, rfl, h.1, isEqual_recd p b.hdr b.txs b.lc b.ev h.2⟩

/-- In particular a block that differs from the cached one only in its last-commit info is never
answered from the cache (the repaired rule, /repo 47a524f). -/
theorem isEqual_compares_commit_info (m : Mux St W Tx R Root Hdr LC Ev) (b : Blk Tx Root Hdr LC Ev) (lc : LC)
    (h : reusable m b = true) (hne : lc ≠ b.lc) : reusable m { b with lc := lc } = false := by
  obtain ⟨p, hp, _, hrec⟩ := isEqual_sound m b h
  cases hr : reusable m { b with lc := lc } with
  | false => rfl
  | true =>
    obtain ⟨p', hp', _, hrec'⟩ := isEqual_sound m { b with lc := lc } hr
    rw [hp] at hp'
    cases hp'
    rw [hrec] at hrec'
    simp only [Option.some.injEq, Prod.mk.injEq] at hrec'
    exact absurd hrec'.2.2.1.symm hne

/-- Without a usable cache entry ProcessProposal is the executor: ACCEPT iff `exec` succeeds. -/
theorem process_executes (A : Apps St W Tx R Root Hdr LC Ev) (m : Mux St W Tx R Root Hdr LC Ev)
    (h : Hash) (hnz : h ≠ 0) (b : Blk Tx Root Hdr LC Ev) (hr : reusable m b = false) :
    (process A m h b).2 = if (exec A m.canon b).isSome then Resp.accept else Resp.reject := by
  have hz : (h == 0) = false := by simp [hnz]
  simp only [process, hr, Bool.false_eq_true, if_false, hz, exec]
  split <;> rename_i hx <;> simp [hx]

/-! ### The block metadata transaction binds the state root and the events root -/

/-- Bodies of the metadata transactions of a transaction list, in order. -/
def metaBodies : List (RawTx Tx Root) → List (Option (Root × Root))
  | [] => []
  | .user _ :: ts => metaBodies ts
  | .sysMeta _ _ body :: ts => body :: metaBodies ts

omit [DecidableEq Tx] [DecidableEq Root] [DecidableEq Hdr] [DecidableEq LC] [DecidableEq Ev] in
theorem deliverAll_sys (A : Apps St W Tx R Root Hdr LC Ev) (he : Bool) (wk wk' : Work W Root)
    (txs : List (RawTx Tx Root)) (rs : List R) (h : deliverAll A he wk txs = some (wk', rs)) :
    wk'.sys = wk.sys ++ metaBodies txs ∧
      ∀ sg wf body, RawTx.sysMeta sg wf body ∈ txs → wf = true ∧ sg = wk.proposer ∧ he = false := by
  induction txs generalizing wk rs with
  | nil =>
    simp only [deliverAll, Option.some.injEq, Prod.mk.injEq] at h
    obtain ⟨rfl, _⟩ := h
    simp [metaBodies]
  | cons t ts ih =>
    simp only [deliverAll] at h
    cases hd : deliverOne A he wk t with
    | none => simp [hd] at h
    | some x =>
      obtain ⟨wk1, r⟩ := x
      simp only [hd] at h
      cases hr : deliverAll A he wk1 ts with
      | none => simp [hr] at h
      | some y =>
        obtain ⟨wk2, rs2⟩ := y
        simp only [hr, Option.some.injEq, Prod.mk.injEq] at h
        obtain ⟨rfl, _⟩ := h
        obtain ⟨ih1, ih2⟩ := ih wk1 rs2 hr
        cases t with
        | user u =>
          simp only [deliverOne, Option.some.injEq, Prod.mk.injEq] at hd
          obtain ⟨rfl, _⟩ := hd
          refine ⟨by simpa [metaBodies] using ih1, ?_⟩
          intro sg wf body hmem
          simp only [List.mem_cons, reduceCtorEq, false_or] at hmem
          exact ih2 sg wf body hmem
        | sysMeta sg0 wf0 body0 =>
          simp only [deliverOne] at hd
          split at hd
          · cases hd
          · rename_i hcond
            simp only [Option.some.injEq, Prod.mk.injEq] at hd
            obtain ⟨rfl, _⟩ := hd
            simp only [Bool.or_eq_true, Bool.not_eq_true', bne_iff_ne, ne_eq, not_or, Bool.not_eq_true,
              Bool.not_eq_false, Decidable.not_not] at hcond
            refine ⟨by simpa [metaBodies] using ih1, ?_⟩
            intro sg wf body hmem
            simp only [List.mem_cons, RawTx.sysMeta.injEq] at hmem
            rcases hmem with ⟨rfl, rfl, rfl⟩ | hmem
            · exact ⟨hcond.1.2, hcond.2, hcond.1.1⟩
            · exact ih2 sg wf body hmem

omit [DecidableEq Tx] [DecidableEq Hdr] [DecidableEq LC] [DecidableEq Ev] in
theorem endOne_false_some (A : Apps St W Tx R Root Hdr LC Ev) (wk wk2 : Work W Root) (re : R)
    (h : endOne A false wk = some (wk2, re)) :
    ∃ w', wk2 = { wk with w := w' } ∧ validate A wk2 = true := by
  simp only [endOne] at h
  cases he : A.endb wk.w with
  | none => simp [he] at h
  | some u =>
    obtain ⟨w', re1⟩ := u
    simp only [he, Bool.false_or] at h
    split at h
    · rename_i hv
      simp only [Option.some.injEq, Prod.mk.injEq] at h
      obtain ⟨rfl, _⟩ := h
      exact ⟨w', rfl, hv⟩
    · cases h

omit [DecidableEq Tx] [DecidableEq Hdr] [DecidableEq LC] [DecidableEq Ev] in
/-- **`meta_binds_root`.**  If a block executes (ProcessProposal accepts it by execution, or its
delivery gets past EndBlock), then it contains exactly one block-metadata transaction, signed by
the block's proposer, well formed, and carrying exactly the state root and the provable-events
root the executor computed.  Contrapositive: a block whose metadata transaction carries a
different state root or events root (or none, or two) is rejected on every replica that executes
it. -/
theorem meta_binds_root (A : Apps St W Tx R Root Hdr LC Ev) (s : St) (b : Blk Tx Root Hdr LC Ev)
    (x : Work W Root × R × List R × R) (h : exec A s b = some x) :
    metaBodies b.txs = [some (A.root (A.tree x.1.w), A.evroot x.1.w)] ∧
      ∀ sg wf body, RawTx.sysMeta sg wf body ∈ b.txs → wf = true ∧ sg = A.proposer b.hdr := by
  obtain ⟨wk, rb, rds, re⟩ := x
  simp only [exec, execBlock] at h
  cases hb : beginOne A s b.hdr b.lc b.ev with
  | none => simp [hb] at h
  | some y =>
    obtain ⟨wk0, rb0⟩ := y
    have hwk0 : wk0.sys = [] ∧ wk0.proposer = A.proposer b.hdr := by
      simp only [beginOne] at hb
      split at hb
      · cases hb
      · cases hb; exact ⟨rfl, rfl⟩
    simp only [hb] at h
    cases hd : deliverAll A false wk0 b.txs with
    | none => simp [hd] at h
    | some z =>
      obtain ⟨wk1, rds1⟩ := z
      obtain ⟨hsys, hsig⟩ := deliverAll_sys A false wk0 wk1 b.txs rds1 hd
      simp only [hd] at h
      cases he : endOne A false wk1 with
      | none => simp [he] at h
      | some u =>
        obtain ⟨wk2, re1⟩ := u
        simp only [he, Option.some.injEq, Prod.mk.injEq] at h
        obtain ⟨rfl, _⟩ := h
        obtain ⟨w', hw, hv⟩ := endOne_false_some A wk1 wk2 re1 he
        subst hw
        simp only [validate] at hv
        rw [hwk0.1, List.nil_append] at hsys
        constructor
        · split at hv
          · rename_i sr er hs
            simp only [Bool.and_eq_true, beq_iff_eq] at hv
            rw [← hsys, hs, hv.1, hv.2]
          · cases hv
        · intro sg wf body hmem
          have := hsig sg wf body hmem
          exact ⟨this.1, this.2.1.trans hwk0.2⟩

/-- Executing ProcessProposal rejects a block whose metadata does not match the executor's roots. -/
theorem process_rejects_unbound_root (A : Apps St W Tx R Root Hdr LC Ev) (m : Mux St W Tx R Root Hdr LC Ev)
    (h : Hash) (hnz : h ≠ 0) (b : Blk Tx Root Hdr LC Ev) (hr : reusable m b = false)
    (hbad : ∀ x, exec A m.canon b = some x →
      metaBodies b.txs ≠ [some (A.root (A.tree x.1.w), A.evroot x.1.w)]) :
    (process A m h b).2 = Resp.reject := by
  rw [process_executes A m h hnz b hr]
  cases hx : exec A m.canon b with
  | none => rfl
  | some x => exact absurd (meta_binds_root A m.canon b x hx).1 (hbad x hx)


/-! ### Non-vacuity, and the rule before the fix (historical) -/

/-- A small executor whose BeginBlock reads the last-commit info (as staking's reward and fee
disbursement do): state, working state, transactions, results, roots, headers, commit info and
evidence are all numbers. -/
def Toy.A : Apps Nat Nat Nat Nat Nat Nat Nat Nat :=
  { begin := fun s _ lc ev => some (s + lc + ev, s),
    deliver := fun w t => (w + t, t),
    endb := fun w => some (w, w),
    tree := id, root := id, evroot := fun _ => 0, okR := 0,
    proposer := id, checkTx := fun s _ => (s, 0), simulate := fun _ _ => 0 }

abbrev Toy.TBlk := Blk Nat Nat Nat Nat Nat

def Toy.txCode : RawTx Nat Nat → Nat ⊕ (Nat × Bool × Option (Nat × Nat))
  | .user t => .inl t
  | .sysMeta s w b => .inr (s, w, b)

theorem Toy.txCode_inj : Function.Injective txCode := by
  intro a b h
  cases a <;> cases b <;> simp [txCode] at h ⊢
  · exact h
  · exact h

def Toy.blkCode (b : TBlk) : Nat × List (Nat ⊕ (Nat × Bool × Option (Nat × Nat))) × Nat × Nat :=
  (b.hdr, b.txs.map txCode, b.ev, b.lc)

theorem Toy.blkCode_inj : Function.Injective blkCode := by
  intro a b h
  obtain ⟨h1, t1, e1, l1⟩ := a
  obtain ⟨h2, t2, e2, l2⟩ := b
  simp only [blkCode, Prod.mk.injEq] at h
  obtain ⟨rfl, ht, rfl, rfl⟩ := h
  have := (List.map_injective_iff.mpr txCode_inj) ht
  subst this
  rfl

/-- An injective, nowhere-zero block hash. -/
def Toy.hashOf (b : TBlk) : Hash := Encodable.encode (blkCode b) + 1

theorem Toy.hashOf_inj : ∀ b b', hashOf b = hashOf b' → b = b' := by
  intro b b' h
  simp only [hashOf, Nat.add_right_cancel_iff] at h
  exact blkCode_inj (Encodable.encode_injective h)

/-- Node 1, state 0, idle. -/
def Toy.m0 : Mux Nat Nat Nat Nat Nat Nat Nat Nat := ⟨1, 0, none, 0⟩
/-- What node 1 is asked to propose: one transaction, last-commit info 5. -/
def Toy.b0 : TBlk := { hdr := 1, txs := [.user 3], ev := 0, lc := 5 }
/-- The block node 1 proposes: `b0` plus the metadata transaction (state root 8). -/
def Toy.b0' : TBlk := { b0 with txs := [.user 3, .sysMeta 1 true (some (8, 0))] }
/-- A block equal to `b0'` in header, transactions and evidence, with last-commit info 9. -/
def Toy.b1 : TBlk := { b0' with lc := 9 }

/-! #### HISTORICAL: the pre-fix rule (`isEqual` before /repo 47a524f did not compare commit info)

Kept as a regression statement about the *old* rule only; nothing else in this file refers to it. -/

/-- `isEqual` as it was before /repo 47a524f: header, transactions, misbehaviour. -/
def reusablePreFix (m : Mux St W Tx R Root Hdr LC Ev) (b : Blk Tx Root Hdr LC Ev) : Bool :=
  match m.prop with
  | none => false
  | some p => p.results.isSome &&
    match p.recd with
    | none => false
    | some (h, t, _, e) => h == b.hdr && t == b.txs && e == b.ev

/-- ProcessProposal with the pre-fix reuse rule. -/
def processPreFix (A : Apps St W Tx R Root Hdr LC Ev) (m : Mux St W Tx R Root Hdr LC Ev) (h : Hash)
    (b : Blk Tx Root Hdr LC Ev) : Mux St W Tx R Root Hdr LC Ev × Resp Tx R Root :=
  if reusablePreFix m b then ({ m with prop := m.prop.map fun p => { p with hash := h } }, .accept)
  else process A m h b

def runPreFix (A : Apps St W Tx R Root Hdr LC Ev) :
    Mux St W Tx R Root Hdr LC Ev → List (Call Tx Root Hdr LC Ev) →
    Option (Mux St W Tx R Root Hdr LC Ev × List (Resp Tx R Root))
  | m, [] => some (m, [])
  | m, c :: cs =>
    match (match c with | .process h b => some (processPreFix A m h b) | c => step A m c) with
    | none => none
    | some (m', r) =>
      match runPreFix A m' cs with
      | none => none
      | some (m'', rs) => some (m'', r :: rs)

theorem Toy.stale_run_prefix (h : Hash) (hnz : h ≠ 0) :
    (runPreFix A m0 ([Call.prepare b0, Call.process h b1] ++ deliverSeq h b1)).map (fun x => x.1.canon) = some 8 := by
  have hz : (h == 0) = false := by simp [hnz]
  simp [runPreFix, step, prepare, processPreFix, reusablePreFix, execBlock, beginOne, deliverAll, deliverOne, endOne,
    A, m0, b0, b0', b1, metaTx, deliverSeq, beginBlock, deliverTx, endBlock, commit]

theorem Toy.fixed_run (h : Hash) (hnz : h ≠ 0) :
    run A m0 ([Call.prepare b0, Call.process h b1] ++ deliverSeq h b1) = none := by
  have hz : (h == 0) = false := by simp [hnz]
  simp [run, step, prepare, process, reusable, isEqual, execBlock, beginOne, deliverAll, deliverOne, endOne,
    A, m0, b0, b0', b1, metaTx, deliverSeq, beginBlock, deliverTx, endBlock, commit, freshProposal, validate, hz]

/-- **HISTORICAL — the commit-info gap of the pre-fix rule** (candidate defect reported by this
check, repaired in /repo 47a524f).  With an injective non-zero block hash, the node's own address
as proposer and an idle multiplexer: `PrepareProposal(b0)`; `ProcessProposal(b1)` where `b1` equals
the prepared block in header, transactions and evidence but carries another last-commit; delivery
of `b1`.  The executor rejects `b1` (its metadata state root is wrong for that commit info).
Under the *pre-fix* rule the replica answered from its cache and committed state 8; under the
current rule the same calls behave like the executor (the delivery panics, as on every replica). -/
theorem prefix_rule_commit_info_gap :
    ∃ (hashOf : Toy.TBlk → Hash) (m : Mux Nat Nat Nat Nat Nat Nat Nat Nat)
      (P : List (Call Nat Nat Nat Nat Nat)) (b : Toy.TBlk),
      (∀ b b', hashOf b = hashOf b' → b = b') ∧ (∀ b, hashOf b ≠ 0) ∧
      (∀ h b', Call.process h b' ∈ P → h = hashOf b') ∧
      (∀ b0, Call.prepare b0 ∈ P → Toy.A.proposer b0.hdr = m.self) ∧
      (∀ c ∈ P, c.isPre = true) ∧ m.prop = none ∧
      exec Toy.A m.canon b = none ∧
      (runPreFix Toy.A m (P ++ deliverSeq (hashOf b) b)).map (fun x => x.1.canon) = some 8 ∧
      run Toy.A m (P ++ deliverSeq (hashOf b) b) = none := by
  refine ⟨Toy.hashOf, Toy.m0, [Call.prepare Toy.b0, Call.process (Toy.hashOf Toy.b1) Toy.b1], Toy.b1,
    Toy.hashOf_inj, fun b => by simp [Toy.hashOf], ?_, ?_, ?_, rfl, by decide,
    Toy.stale_run_prefix _ (by simp [Toy.hashOf]), Toy.fixed_run _ (by simp [Toy.hashOf])⟩
  · intro h b' hm
    simp only [List.mem_cons, reduceCtorEq, Call.process.injEq, List.not_mem_nil, or_false, false_or] at hm
    rw [hm.1, hm.2]
  · intro b0 hm
    simp only [List.mem_cons, Call.prepare.injEq, reduceCtorEq, List.not_mem_nil, or_false] at hm
    rw [hm]; rfl
  · intro c hc
    simp only [List.mem_cons, List.not_mem_nil, or_false] at hc
    rcases hc with rfl | rfl <;> rfl

/-- Non-vacuity of `mux_path_independent`: with the *same* commit info the hypotheses hold for the
proposer's path (prepare, process own block, deliver from the cache) and the block executes. -/
example : (exec Toy.A 0 Toy.b0').map (fun x => Toy.A.tree x.1.w) = some 8 := by decide

example : (run Toy.A Toy.m0 ([Call.prepare Toy.b0, Call.process 7 Toy.b0', Call.checkTx (.user 1)] ++
    deliverSeq 7 Toy.b0')).map (fun x => (x.1.canon, x.2.length)) = some (8, 8) := by decide

/-- Non-vacuity of the other paths: plain replay, and restart after an aborted delivery. -/
example : (run Toy.A Toy.m0 (deliverSeq 7 Toy.b0')).map (fun x => x.1.canon) = some 8 := by decide

example : (run Toy.A Toy.m0 ([Call.begin 7 Toy.b0', Call.deliver (.user 3), Call.restart,
    Call.process 7 Toy.b0'] ++ deliverSeq 7 Toy.b0')).map (fun x => x.1.canon) = some 8 := by decide

/-- A wrong state root in the metadata transaction is rejected by an executing validator. -/
example : (process Toy.A Toy.m0 7 { Toy.b0' with txs := [.user 3, .sysMeta 1 true (some (9, 0))] }).2 = Resp.reject := by
  decide

/-! ## Order independence of the fold patterns found at map-range sites

Go randomises the order of `for k, v := range m`.  A map is modelled as the list of its entries in
the order one particular iteration happens to produce; another iteration (on another replica, or
on the same replica after a restart) produces a permutation of it, with the same set of keys.
Each lemma says that the value computed by one fold pattern is the same for both lists. -/

/-- Point update of a function-map. -/
def Order.upd {K V : Type} [DecidableEq K] (m : K → V) (k : K) (v : V) : K → V :=
  fun k' => if k' = k then v else m k'

theorem Order.upd_comm {K V : Type} [DecidableEq K] (m : K → V) (k1 k2 : K) (v1 v2 : V) (h : k1 ≠ k2) :
    upd (upd m k1 v1) k2 v2 = upd (upd m k2 v2) k1 v1 := by
  funext k'
  simp only [upd]
  by_cases h1 : k' = k1 <;> by_cases h2 : k' = k2 <;> simp_all

/-- **The general pattern**: a fold whose steps commute pairwise on the elements actually
present gives the same result for every iteration order. -/
theorem Order.fold_perm_invariant {α β : Type} (f : β → α → β) {l1 l2 : List α} (hp : l1.Perm l2)
    (hc : ∀ x ∈ l1, ∀ y ∈ l1, ∀ b, f (f b x) y = f (f b y) x) (b : β) :
    l1.foldl f b = l2.foldl f b := by
  induction hp generalizing b with
  | nil => rfl
  | cons x _ ih =>
    simp only [List.foldl_cons]
    exact ih (fun a ha c hc' => hc a (List.mem_cons_of_mem _ ha) c (List.mem_cons_of_mem _ hc')) _
  | swap x y l =>
    simp only [List.foldl_cons]
    rw [hc y (by simp) x (by simp)]
  | trans h12 _ ih1 ih2 =>
    rw [ih1 hc b]
    exact ih2 (fun a ha c hc' => hc a (h12.mem_iff.mpr ha) c (h12.mem_iff.mpr hc')) b

/-- **Sum of quantities** (`StakeAccumulator.TotalClaims`, `Proposal.VotedSum`, genesis total
supply, share totals in sanity checks, vote counts in the commitment pool). Quantities are
non-negative big integers, so `Nat`. -/
theorem Order.sum_perm {α : Type} (q : α → Nat) {l1 l2 : List α} (hp : l1.Perm l2) (acc : Nat) :
    l1.foldl (fun a x => a + q x) acc = l2.foldl (fun a x => a + q x) acc :=
  fold_perm_invariant _ hp (fun x _ y _ b => by show b + q x + q y = b + q y + q x; omega) acc

/-- **Sums grouped by a key into another map** (`proposal.Results[vote] += stake` inside the two
nested map ranges of governance `closeProposal`). -/
theorem Order.group_sum_perm {α K : Type} [DecidableEq K] (key : α → K) (q : α → Nat) {l1 l2 : List α}
    (hp : l1.Perm l2) (m : K → Nat) :
    l1.foldl (fun m x => upd m (key x) (m (key x) + q x)) m =
      l2.foldl (fun m x => upd m (key x) (m (key x) + q x)) m := by
  refine fold_perm_invariant _ hp (fun x _ y _ b => ?_) m
  funext k'
  simp only [upd]
  by_cases h1 : k' = key x <;> by_cases h2 : k' = key y <;> by_cases h3 : key x = key y <;>
    simp_all <;> omega

theorem Order.nodup_map_inj {α β : Type} (f : α → β) (l : List α) (h : (l.map f).Nodup) {a b : α}
    (ha : a ∈ l) (hb : b ∈ l) (hab : f a = f b) : a = b := by
  induction l with
  | nil => cases ha
  | cons x xs ih =>
    simp only [List.map_cons, List.nodup_cons, List.mem_map, not_exists, not_and] at h
    rcases List.mem_cons.mp ha with rfl | ha' <;> rcases List.mem_cons.mp hb with rfl | hb'
    · rfl
    · exact absurd hab.symm (h.1 b hb')
    · exact absurd hab (h.1 a ha')
    · exact ih h.2 ha' hb'

/-- **Per-key update with distinct keys, possibly failing** (insertion into another map or into
the state tree keyed by the map key: genesis `SetAccount` / `SetDelegation` / `SetNodeStatus`,
`StakeAccumulatorCache.Commit`, the index maps built in governance `castVote`, and the
per-validator share arithmetic in `closeProposal`, where `subShares` may return an error).
`g k v old` is the new value under key `k`, or `none` for an error that aborts the loop.
Go map keys are distinct, hence the `Nodup` hypothesis. -/
theorem Order.perkey_update_perm {K V U : Type} [DecidableEq K] (g : K → V → U → Option U)
    {l1 l2 : List (K × V)} (hp : l1.Perm l2) (hk : (l1.map Prod.fst).Nodup) (m : Option (K → U)) :
    l1.foldl (fun m kv => m.bind fun m => (g kv.1 kv.2 (m kv.1)).map (upd m kv.1)) m =
      l2.foldl (fun m kv => m.bind fun m => (g kv.1 kv.2 (m kv.1)).map (upd m kv.1)) m := by
  refine fold_perm_invariant _ hp (fun x hx y hy b => ?_) m
  by_cases hxy : x = y
  · subst hxy; rfl
  · have hne : x.1 ≠ y.1 := by
      intro h
      exact hxy (nodup_map_inj Prod.fst _ hk hx hy h)
    cases b with
    | none => rfl
    | some m =>
      simp only [Option.bind_some]
      cases hgx : g x.1 x.2 (m x.1) <;> cases hgy : g y.1 y.2 (m y.1) <;>
        simp [upd, hne, Ne.symm hne, hgx, hgy]
      exact upd_comm m x.1 y.1 _ _ hne


/-- **A set or index consulted for membership only** (`currentValidatorsByNodeID`,
`currentValidatorsByEntityAddress`, `seen`): which entry wrote a key last is irrelevant. -/
theorem Order.set_insert_perm {α K : Type} [DecidableEq K] (key : α → K) {l1 l2 : List α} (hp : l1.Perm l2)
    (s : K → Bool) :
    l1.foldl (fun s x => upd s (key x) true) s = l2.foldl (fun s x => upd s (key x) true) s := by
  refine fold_perm_invariant _ hp (fun x _ y _ b => ?_) s
  funext k'
  simp only [upd]
  by_cases h1 : k' = key x <;> by_cases h2 : k' = key y <;> simp_all

/-- **Deletion by predicate** (dropping scheduler commitments of other ranks in the commitment
pool): the resulting map is given by a closed form that does not mention the order. -/
theorem Order.delete_perm {K V : Type} [DecidableEq K] (p : K → Bool) (keys : List K) (m : K → Option V) :
    keys.foldl (fun m k => if p k then upd m k none else m) m =
      fun k => if k ∈ keys ∧ p k = true then none else m k := by
  induction keys generalizing m with
  | nil => simp
  | cons k ks ih =>
    simp only [List.foldl_cons, ih]
    funext k'
    by_cases hp : p k = true <;> by_cases hk : k' = k <;> by_cases hm : k' ∈ ks <;> simp_all [upd]

theorem Order.delete_perm_order {K V : Type} [DecidableEq K] (p : K → Bool) {l1 l2 : List K} (hp : l1.Perm l2)
    (m : K → Option V) :
    l1.foldl (fun m k => if p k then upd m k none else m) m =
      l2.foldl (fun m k => if p k then upd m k none else m) m := by
  rw [delete_perm, delete_perm]
  funext k
  simp [hp.mem_iff]

/-- **Emission consumed as a set** (`diffValidators`: validator updates handed to CometBFT, which
applies them as a change *set*; committee member collection before sorting): the emitted
elements are the same multiset, in particular the same set. -/
theorem Order.emit_set_perm {α β : Type} (g : α → Option β) {l1 l2 : List α} (hp : l1.Perm l2) :
    (l1.filterMap g).Perm (l2.filterMap g) ∧ ∀ u, u ∈ l1.filterMap g ↔ u ∈ l2.filterMap g :=
  ⟨hp.filterMap g, fun _ => (hp.filterMap g).mem_iff⟩

/-- **Collect, then sort** (`RuntimesToFinalize`, `rebuildAppLexOrdering`, VRF alpha input,
`EligibleEntities`, CHURP committee, `stakingAddressMapToSliceByStake`, `distributeRewards`,
debug force-election): for a total, transitive, antisymmetric order the sorted slice does not
depend on the order of collection. -/
theorem Order.collect_sort_perm {α β : Type} (g : α → Option β) (le : β → β → Bool)
    (trans : ∀ a b c, le a b → le b c → le a c) (total : ∀ a b, le a b || le b a)
    (antisymm : ∀ a b, le a b → le b a → a = b) {l1 l2 : List α} (hp : l1.Perm l2) :
    (l1.filterMap g).mergeSort le = (l2.filterMap g).mergeSort le := by
  apply List.Perm.eq_of_pairwise (le := fun a b => le a b = true)
  · intro a b _ _ h1 h2; exact antisymm a b h1 h2
  · exact List.pairwise_mergeSort trans total _
  · exact List.pairwise_mergeSort trans total _
  · exact (List.mergeSort_perm _ le).trans ((hp.filterMap g).trans (List.mergeSort_perm _ le).symm)

/-- **Validation loops** (return an error as soon as one entry fails; callers only consume
`err != nil`, the message goes to the log): whether some entry fails does not depend on the order. -/
theorem Order.all_perm {α : Type} (p : α → Bool) {l1 l2 : List α} (hp : l1.Perm l2) : l1.all p = l2.all p := by
  rw [Bool.eq_iff_iff]
  simp only [List.all_eq_true]
  exact ⟨fun h x hx => h x (hp.mem_iff.mpr hx), fun h x hx => h x (hp.mem_iff.mp hx)⟩

/-- **Existence checks** (`castVote`: "delegates to some current validator"). -/
theorem Order.any_perm {α : Type} (p : α → Bool) {l1 l2 : List α} (hp : l1.Perm l2) : l1.any p = l2.any p := by
  rw [Bool.eq_iff_iff]
  simp only [List.any_eq_true]
  exact ⟨fun ⟨x, hx, h⟩ => ⟨x, hp.mem_iff.mp hx, h⟩, fun ⟨x, hx, h⟩ => ⟨x, hp.mem_iff.mpr hx, h⟩⟩

/-- **First-wins insertion plus sum over distinct derived keys** (governance `validatorsEscrow`:
several validator nodes may belong to one entity; the entity's escrow is recorded and added to the
total once, by whichever of its nodes comes first; the recorded value depends on the entity only). -/
theorem Order.dedup_sum_perm {α K : Type} [DecidableEq K] (key : α → K) (w : K → Nat) {l1 l2 : List α}
    (hp : l1.Perm l2) (st : (K → Bool) × Nat) :
    l1.foldl (fun st x => if st.1 (key x) then st else (upd st.1 (key x) true, st.2 + w (key x))) st =
      l2.foldl (fun st x => if st.1 (key x) then st else (upd st.1 (key x) true, st.2 + w (key x))) st := by
  refine fold_perm_invariant _ hp (fun x _ y _ b => ?_) st
  obtain ⟨seen, tot⟩ := b
  by_cases hxy : key x = key y
  · simp only [hxy]
  · by_cases hx : seen (key x) = true <;> by_cases hy : seen (key y) = true
    · simp [hx, hy]
    · simp [hx, hy, upd, hxy]
    · simp [hx, hy, upd, Ne.symm hxy]
    · simp only [hx, hy, upd, hxy, Ne.symm hxy, Bool.false_eq_true, if_false]
      refine Prod.ext (upd_comm seen _ _ _ _ hxy) ?_
      show tot + w (key x) + w (key y) = tot + w (key y) + w (key x)
      omega

/-! ### The vote with the most support (`Pool.processCommitments`, discrepancy resolution) -/

/-- The loop `for h, v := range votes { if v > best { hash = h; best = v } }`. -/
def Order.argmaxStep {H : Type} (st : H × Nat) (hv : H × Nat) : H × Nat :=
  if hv.2 > st.2 then hv else st

theorem Order.argmax_best {H : Type} (l : List (H × Nat)) (st : H × Nat) :
    (l.foldl argmaxStep st).2 = l.foldl (fun b hv => max b hv.2) st.2 := by
  induction l generalizing st with
  | nil => rfl
  | cons x xs ih =>
    simp only [List.foldl_cons, ih]
    congr 1
    simp only [argmaxStep]
    split <;> omega

theorem Order.argmax_mem {H : Type} (l : List (H × Nat)) (st : H × Nat) :
    l.foldl argmaxStep st = st ∨ l.foldl argmaxStep st ∈ l := by
  induction l generalizing st with
  | nil => exact Or.inl rfl
  | cons x xs ih =>
    simp only [List.foldl_cons]
    rcases ih (argmaxStep st x) with h | h
    · rw [h]
      simp only [argmaxStep]
      split
      · exact Or.inr (by simp)
      · exact Or.inl rfl
    · exact Or.inr (List.mem_cons_of_mem _ h)

theorem Order.le_sum_of_mem {H : Type} (l : List (H × Nat)) (a : H × Nat) (ha : a ∈ l) :
    a.2 ≤ (l.map Prod.snd).sum := by
  induction l with
  | nil => cases ha
  | cons x xs ih =>
    simp only [List.map_cons, List.sum_cons]
    rcases List.mem_cons.mp ha with rfl | h
    · omega
    · have := ih h; omega

theorem Order.two_le_sum {H : Type} (l : List (H × Nat)) (a b : H × Nat) (ha : a ∈ l) (hb : b ∈ l) (hne : a ≠ b) :
    a.2 + b.2 ≤ (l.map Prod.snd).sum := by
  induction l with
  | nil => cases ha
  | cons x xs ih =>
    simp only [List.map_cons, List.sum_cons]
    rcases List.mem_cons.mp ha with rfl | ha' <;> rcases List.mem_cons.mp hb with rfl | hb'
    · exact absurd rfl hne
    · have := le_sum_of_mem xs b hb'; omega
    · have := le_sum_of_mem xs a ha'; omega
    · have := ih ha' hb'; omega

/-- The number of votes of the best commitment never depends on the order; the commitment itself
does not depend on the order whenever it has a strict majority of all votes cast — the only case
in which `processCommitments` looks at it (`best >= total/2 + 1`, votes cast `<= total`).
With a tie below the majority the loop's `hash` *is* order dependent, and unused. -/
theorem Order.argmax_majority_perm {H : Type} (d : H) {l1 l2 : List (H × Nat)} (hp : l1.Perm l2) :
    (l1.foldl argmaxStep (d, 0)).2 = (l2.foldl argmaxStep (d, 0)).2 ∧
    (2 * (l1.foldl argmaxStep (d, 0)).2 > (l1.map Prod.snd).sum →
      l1.foldl argmaxStep (d, 0) = l2.foldl argmaxStep (d, 0)) := by
  have hbest : (l1.foldl argmaxStep (d, 0)).2 = (l2.foldl argmaxStep (d, 0)).2 := by
    rw [argmax_best, argmax_best]
    exact fold_perm_invariant _ hp (fun x _ y _ b => by show max (max b x.2) y.2 = max (max b y.2) x.2; omega) 0
  refine ⟨hbest, fun hmaj => ?_⟩
  rcases argmax_mem l1 (d, 0) with h1 | h1
  · rw [h1] at hmaj; simp at hmaj
  · rcases argmax_mem l2 (d, 0) with h2 | h2
    · rw [h2] at hbest; rw [hbest] at hmaj; simp at hmaj
    · have h2' := hp.mem_iff.mpr h2
      by_cases heq : l1.foldl argmaxStep (d, 0) = l2.foldl argmaxStep (d, 0)
      · exact heq
      · have := two_le_sum l1 _ _ h1 h2' heq
        omega



/-! ## Regenerated source facts of the proposal cache

`tools/gen muxfacts` prints, from the current source, the pieces of `abci/state.go`, `abci/mux.go`,
`abci/system.go` and `api/block.go` the model was written from.  Each theorem below pins them to
what was read when the model was written, next to the model definition it justifies; a change of
any of them (say, `isEqual` stops comparing the commit info, `BlockInfo` grows a field the cache
does not compare, a guard of the metadata check is dropped) breaks the build until the model has
been re-read against the code. -/

open Generated.MuxFacts in
/-- `isEqual` (model: `isEqual`, `reusable`): header, transactions, last-commit info,
misbehaviour; ProcessProposal reuses on `exists ∧ executed ∧ isEqual`, otherwise executes with the
request's hash, header, txs, *proposed last commit*, misbehaviour; PrepareProposal executes with the
empty hash and the *local* last commit and records header, txs (with the metadata transaction
appended) and misbehaviour. -/
theorem source_isEqual_and_proposal_calls :
    isEqualParams = ["header *cmtproto.Header", "txs [][]byte", "lastCommit *types.CommitInfo",
      "misbehavior []types.Misbehavior"] ∧
    isEqualConditions = ["ps.header == nil || ps.lastCommit == nil",
      "!bytes.Equal(header.ProposerAddress, ps.header.ProposerAddress)",
      "len(txs) != len(ps.txs)", "len(misbehavior) != len(ps.misbehavior)",
      "!proto.Equal(header, ps.header)", "!proto.Equal(lastCommit, ps.lastCommit)",
      "!bytes.Equal(txs[i], ps.txs[i])",
      "!proto.Equal(&misbehavior[i], &ps.misbehavior[i])"] ∧
    processProposalConditions.head? = some
      "mux.state.proposal != nil && !mux.state.proposal.needsExecution() && mux.state.proposal.isEqual(&header, req.Txs, &req.ProposedLastCommit, req.Misbehavior)" ∧
    processProposalAssigns = ["mux.state.proposal.hash = req.Hash"] ∧
    processProposalExecuteArgs = ["req.Hash, header, req.Txs, req.ProposedLastCommit, req.Misbehavior"] ∧
    prepareProposalExecuteArgs = ["[]byte{}, header, txs, lastCommit, req.Misbehavior"] ∧
    prepareProposalRecords = ["p.header = &header", "p.txs = txs", "p.misbehavior = req.Misbehavior",
      "p.lastCommit = &lastCommit"] ∧
    prepareProposalResultAssigns =
      ["mux.state.proposal.resultsDeliverTx = append(mux.state.proposal.resultsDeliverTx, systemTxResults...)"] :=
  ⟨rfl, rfl, rfl, rfl, rfl, rfl, rfl, rfl⟩

open Generated.MuxFacts in
/-- What an application can read about a block besides its transactions (model: the arguments of
`Apps.begin`): `BlockInfo` = time and proposer address (from the header), last-commit info,
misbehaviour; the other three fields are scratch space filled during execution.  All four inputs
are compared by `isEqual` (time and proposer through the header). -/
theorem source_block_info :
    blockInfoFields = ["Time time.Time", "ProposerAddress []byte", "LastCommitInfo types.CommitInfo",
      "ValidatorMisbehavior []types.Misbehavior", "GasAccountant GasAccountant",
      "SystemTransactions []*transaction.Transaction", "ProvableEvents []events.Provable"] ∧
    beginBlockInfo = ["Time: req.Header.Time", "ProposerAddress: req.Header.ProposerAddress",
      "LastCommitInfo: req.LastCommitInfo", "ValidatorMisbehavior: req.ByzantineValidators"] :=
  ⟨rfl, rfl⟩

open Generated.MuxFacts in
/-- The cache itself (model: `Proposal`, `beginBlock`, `deliverTx`, `endBlock`): the fields of
`proposalState`; "executed" means all three results are set, and they are set together;
BeginBlock resets unless the hash is unchanged; DeliverTx pops the queue and panics when it is
empty; EndBlock panics when it is not, and validates system transactions last. -/
theorem source_cache_guards :
    proposalStateFields = ["header *cmtproto.Header", "txs [][]byte", "misbehavior []types.Misbehavior",
      "lastCommit *types.CommitInfo", "hash []byte", "tree mkvs.OverlayTree", "resultsBeginBlock *types.ResponseBeginBlock",
      "resultsDeliverTx []*types.ResponseDeliverTx", "resultsEndBlock *types.ResponseEndBlock"] ∧
    needsExecutionReturns =
      ["ps.resultsBeginBlock == nil || ps.resultsDeliverTx == nil || ps.resultsEndBlock == nil"] ∧
    setResultsAssigns = ["ps.resultsBeginBlock = resultsBeginBlock", "ps.resultsDeliverTx = resultsDeliverTx",
      "ps.resultsEndBlock = resultsEndBlock"] ∧
    executeProposalAssigns = ["mux.state.proposal.hash = hash"] ∧
    executeProposalSetResults = ["&resultsBeginBlock, resultsDeliverTx, &resultsEndBlock"] ∧
    resetIfChangedConditions = ["s.proposal != nil && bytes.Equal(s.proposal.hash, h)"] ∧
    beginBlockConditions.head? =
      some "!mux.state.resetProposalIfChanged(req.Hash) && !mux.state.proposal.needsExecution()" ∧
    deliverTxConditions.take 2 =
      ["!mux.state.proposal.needsExecution()", "len(mux.state.proposal.resultsDeliverTx) == 0"] ∧
    deliverTxAssigns = ["mux.state.proposal.resultsDeliverTx = mux.state.proposal.resultsDeliverTx[1:]"] ∧
    endBlockConditions.take 2 =
      ["!mux.state.proposal.needsExecution()", "len(mux.state.proposal.resultsDeliverTx) != 0"] ∧
    endBlockConditions.getLast? = some "err := mux.validateSystemTxs(); err != nil" :=
  ⟨rfl, rfl, rfl, rfl, rfl, rfl, rfl, rfl, rfl, rfl, rfl⟩

open Generated.MuxFacts in
/-- System transactions (model: `deliverOne` on `sysMeta`, `validate`, `metaTx`). -/
theorem source_system_txs :
    processSystemTxConditions = ["ctx.Mode() != api.ContextDeliverTx", "len(mux.state.proposal.hash) == 0",
      "tx.Nonce != 0 || tx.Fee != nil",
      "proposerAddress := ctx.BlockContext().ProposerAddress; !bytes.Equal(txSignerAddress, proposerAddress)"] ∧
    validateSystemTxsConditions = ["len(mux.state.proposal.hash) == 0", "hasBlockMetadata",
      "err := cbor.Unmarshal(tx.Body, &meta); err != nil", "err := meta.ValidateBasic(); err != nil",
      "err != nil", "!stateRoot.Equal(&meta.StateRoot)", "err != nil",
      "!bytes.Equal(eventsRoot, meta.EventsRoot)", "!hasBlockMetadata"] ∧
    prepareSystemTxsMeta = ["StateRoot: stateRoot", "EventsRoot: eventsRoot"] :=
  ⟨rfl, rfl, rfl⟩


/-! ## Replica-local inputs

Everything a node has that its peers do not — its own identity (`OwnTxSigner`,
`OwnTxSignerAddress`, `identity`), its local configuration (`LocalMinGasPrice`, halt height/epoch)
and its local upgrade backend — must not influence what block delivery computes.  `tools/gen
muxfacts` lists every use of these inside the abci package, the abci API package and the
applications, with the conditions of the enclosing `if`s.  Each use is classified below; a new
use, or a changed guard, breaks `local_inputs_classified` until it has been read.  In particular
a use that is neither an accessor, nor start-up construction, nor proposer-only, nor a node halt,
nor the local upgrade store has to sit under a positive `IsCheckOnly()` guard
(`local_inputs_checktx_guarded`), i.e. be mempool-only. -/

/-- Why a use of a replica-local input cannot make delivery results differ between replicas. -/
inductive LocalClass where
  | accessor
  | construction
  /-- Mempool admission (CheckTx) only. -/
  | checkTxOnly
  /-- PrepareProposal only; validators re-check what the proposer produced. -/
  | proposerOnly
  /-- Stops the node; never alters a response. -/
  | localHalt
  /-- Local upgrade descriptor store; errors logged or node stopped. -/
  | localUpgrade
  deriving DecidableEq, Repr

def expectedLocal : List (Generated.MuxFacts.LocalUse × LocalClass × String) := [
  (⟨"go/consensus/cometbft/abci/mux.go", "abciMux.BeginBlock", "mux.state.Upgrader", "upgrader != nil", false, 0⟩,
    .localUpgrade, "local upgrade store: descriptors are submitted/cancelled with errors only logged, or the node stops for the upgrade (ErrStopForUpgrade); no response depends on it"),
  (⟨"go/consensus/cometbft/abci/mux.go", "abciMux.BeginBlock", "mux.state.shouldLocalHalt", "", false, 0⟩,
    .localHalt, "operator-configured halt height/epoch: stops this node (haltForUpgrade), never changes a response"),
  (⟨"go/consensus/cometbft/abci/mux.go", "abciMux.EndBlock", "mux.state.Upgrader", "upgrader != nil", false, 0⟩,
    .localUpgrade, "local upgrade store: descriptors are submitted/cancelled with errors only logged, or the node stops for the upgrade (ErrStopForUpgrade); no response depends on it"),
  (⟨"go/consensus/cometbft/abci/state.go", "applicationState.LocalMinGasPrice", "s.minGasPrice", "", false, 0⟩,
    .accessor, "accessor; its callers are the entries that matter"),
  (⟨"go/consensus/cometbft/abci/state.go", "applicationState.OwnTxSigner", "s.ownTxSigner", "", false, 0⟩,
    .accessor, "accessor; its callers are the entries that matter"),
  (⟨"go/consensus/cometbft/abci/state.go", "applicationState.OwnTxSignerAddress", "s.ownTxSignerAddress", "", false, 0⟩,
    .accessor, "accessor; its callers are the entries that matter"),
  (⟨"go/consensus/cometbft/abci/state.go", "applicationState.Upgrader", "s.upgrader", "", false, 0⟩,
    .accessor, "accessor; its callers are the entries that matter"),
  (⟨"go/consensus/cometbft/abci/state.go", "newApplicationState", "cfg.MinGasPrice", "err != nil", false, 0⟩,
    .construction, "copies the node configuration into the state object at start-up"),
  (⟨"go/consensus/cometbft/abci/state.go", "newApplicationState", "cfg.HaltEpoch", "", false, 0⟩,
    .construction, "copies the node configuration into the state object at start-up"),
  (⟨"go/consensus/cometbft/abci/state.go", "newApplicationState", "cfg.HaltHeight", "", false, 0⟩,
    .construction, "copies the node configuration into the state object at start-up"),
  (⟨"go/consensus/cometbft/abci/state.go", "newApplicationState", "cfg.Identity", "", false, 0⟩,
    .construction, "copies the node configuration into the state object at start-up"),
  (⟨"go/consensus/cometbft/abci/state.go", "newApplicationState", "cfg.Identity", "", false, 1⟩,
    .construction, "copies the node configuration into the state object at start-up"),
  (⟨"go/consensus/cometbft/abci/state.go", "newApplicationState", "cfg.Identity", "", false, 2⟩,
    .construction, "copies the node configuration into the state object at start-up"),
  (⟨"go/consensus/cometbft/abci/system.go", "abciMux.prepareSystemTxs", "mux.state.identity", "", false, 0⟩,
    .proposerOnly, "PrepareProposal signs the metadata transaction with the node key; every validator checks the signer against the header proposer (model: metaTx self, Env.selfProposer)"),
  (⟨"go/consensus/cometbft/abci/transaction.go", "abciMux.executeTx", "mux.state.Upgrader", "upgrader != nil && ctx.IsCheckOnly()", true, 0⟩,
    .checkTxOnly, "guarded by a positive IsCheckOnly(): mempool admission only"),
  (⟨"go/consensus/cometbft/abci/upgrade.go", "abciMux.maybeHaltForUpgrade", "mux.state.Upgrader", "", false, 0⟩,
    .localUpgrade, "local upgrade store: descriptors are submitted/cancelled with errors only logged, or the node stops for the upgrade (ErrStopForUpgrade); no response depends on it"),
  (⟨"go/consensus/cometbft/abci/upgrade.go", "abciMux.maybeHaltForUpgrade", "mux.state.shouldLocalHalt", "", false, 0⟩,
    .localHalt, "operator-configured halt height/epoch: stops this node (haltForUpgrade), never changes a response"),
  (⟨"go/consensus/cometbft/abci/upgrade.go", "applicationState.shouldLocalHalt", "s.haltHeight", "", false, 0⟩,
    .localHalt, "operator-configured halt height/epoch: stops this node (haltForUpgrade), never changes a response"),
  (⟨"go/consensus/cometbft/abci/upgrade.go", "applicationState.shouldLocalHalt", "s.haltHeight", "", false, 1⟩,
    .localHalt, "operator-configured halt height/epoch: stops this node (haltForUpgrade), never changes a response"),
  (⟨"go/consensus/cometbft/abci/upgrade.go", "applicationState.shouldLocalHalt", "s.haltEpoch", "!(s.haltHeight != 0 && uint64(blockHeight) >= s.haltHeight)", false, 0⟩,
    .localHalt, "operator-configured halt height/epoch: stops this node (haltForUpgrade), never changes a response"),
  (⟨"go/consensus/cometbft/abci/upgrade.go", "applicationState.shouldLocalHalt", "s.haltEpoch", "!(s.haltHeight != 0 && uint64(blockHeight) >= s.haltHeight)", false, 1⟩,
    .localHalt, "operator-configured halt height/epoch: stops this node (haltForUpgrade), never changes a response"),
  (⟨"go/consensus/cometbft/abci/upgrade.go", "applicationState.shouldLocalHalt", "s.haltEpoch", "!(s.haltHeight != 0 && uint64(blockHeight) >= s.haltHeight)", false, 2⟩,
    .localHalt, "operator-configured halt height/epoch: stops this node (haltForUpgrade), never changes a response"),
  (⟨"go/consensus/cometbft/api/state.go", "NewMockApplicationState", "cfg.OwnTxSigner", "", false, 0⟩,
    .construction, "copies the node configuration into the state object at start-up"),
  (⟨"go/consensus/cometbft/api/state.go", "mockApplicationState.OwnTxSigner", "ms.cfg.OwnTxSigner", "", false, 0⟩,
    .accessor, "accessor; its callers are the entries that matter"),
  (⟨"go/consensus/cometbft/api/state.go", "mockApplicationState.OwnTxSignerAddress", "ms.ownTxSignerAddress", "", false, 0⟩,
    .accessor, "accessor; its callers are the entries that matter"),
  (⟨"go/consensus/cometbft/apps/governance/governance.go", "Application.BeginBlock", "ctx.AppState().Upgrader", "upgrader != nil", false, 0⟩,
    .localUpgrade, "local upgrade store: descriptors are submitted/cancelled with errors only logged, or the node stops for the upgrade (ErrStopForUpgrade); no response depends on it"),
  (⟨"go/consensus/cometbft/apps/governance/governance.go", "Application.executeProposal", "ctx.AppState().Upgrader", "upgrader != nil", false, 0⟩,
    .localUpgrade, "local upgrade store: descriptors are submitted/cancelled with errors only logged, or the node stops for the upgrade (ErrStopForUpgrade); no response depends on it"),
  (⟨"go/consensus/cometbft/apps/governance/governance.go", "Application.executeProposal", "ctx.AppState().Upgrader", "upgrader != nil", false, 1⟩,
    .localUpgrade, "local upgrade store: descriptors are submitted/cancelled with errors only logged, or the node stops for the upgrade (ErrStopForUpgrade); no response depends on it"),
  (⟨"go/consensus/cometbft/apps/governance/messages.go", "Application.completeStateSync", "ctx.AppState().Upgrader", "upgrader != nil", false, 0⟩,
    .localUpgrade, "local upgrade store: descriptors are submitted/cancelled with errors only logged, or the node stops for the upgrade (ErrStopForUpgrade); no response depends on it"),
  (⟨"go/consensus/cometbft/apps/staking/state/gas.go", "AuthenticateAndPayFees", "ctx.AppState().OwnTxSignerAddress", "ctx.IsCheckOnly()", true, 0⟩,
    .checkTxOnly, "guarded by a positive IsCheckOnly(): mempool admission only"),
  (⟨"go/consensus/cometbft/apps/staking/state/gas.go", "AuthenticateAndPayFees", "ctx.AppState().LocalMinGasPrice", "ctx.IsCheckOnly() && !ctx.AppState().OwnTxSignerAddress().Equal(addr)", true, 0⟩,
    .checkTxOnly, "guarded by a positive IsCheckOnly(): mempool admission only")
]

/-- **Every use of a replica-local input is known and classified.**  A new use (for instance the
node's own address consulted while a transaction is delivered) breaks the build. -/
theorem local_inputs_classified : Generated.MuxFacts.localInputUses = expectedLocal.map (·.1) := by decide

/-- Uses classified mempool-only really sit under a positive `IsCheckOnly()` guard in the source. -/
theorem local_inputs_checktx_guarded :
    expectedLocal.all (fun e => e.2.1 != LocalClass.checkTxOnly || e.1.checkOnly) = true := by decide

/-- The identity and local-configuration accessors are consumed on delivery paths nowhere: outside
accessors and construction, `OwnTxSigner*` and `LocalMinGasPrice` occur only mempool-only. -/
theorem own_identity_only_in_checktx :
    expectedLocal.all (fun e =>
      !(e.1.use == "ctx.AppState().OwnTxSignerAddress" || e.1.use == "ctx.AppState().LocalMinGasPrice" ||
        e.1.use == "mux.state.OwnTxSignerAddress" || e.1.use == "mux.state.OwnTxSigner" ||
        e.1.use == "mux.state.LocalMinGasPrice" || e.1.use == "ctx.AppState().OwnTxSigner") ||
      e.2.1 == LocalClass.checkTxOnly) = true := by decide


/-! ### The node-local upgrade store on delivery paths

Every call of `upgrader.<method>` in the abci package and the applications, with every `return` /
`panic` inside the statement that consumes its result.  The local store is not part of the
replicated state and is not rolled back with a discarded proposal, so its answers depend on how
often this node executed a block: a result of `SubmitDescriptor` / `CancelUpgrade` must never reach
a returned error or the state.  Pinned: those calls have no exit at all in their consuming
statement ("the error is only logged"); the remaining calls only halt or panic the node. -/

inductive UpgraderUse where
  /-- Halts or panics the node; never alters a response. -/
  | haltOrPanic
  | checkTxOnly
  /-- The result is only logged: no `return`, no `panic` in the consuming statement. -/
  | logOnly
  deriving DecidableEq, Repr

def expectedUpgrader : List ((String × String × String × List String) × UpgraderUse × String) := [
  (("go/consensus/cometbft/abci/mux.go", "abciMux.BeginBlock", "ConsensusUpgrade", ["panic(fmt.Errorf(\"mux: error while trying to perform consensus upgrade: %w\", err))"]),
    .haltOrPanic, "ErrStopForUpgrade halts the node, any other error panics: the node stops, no response is altered"),
  (("go/consensus/cometbft/abci/mux.go", "abciMux.EndBlock", "ConsensusUpgrade", ["panic(fmt.Errorf(\"mux: error while trying to perform consensus upgrade: %w\", err))"]),
    .haltOrPanic, "an error panics (node stops)"),
  (("go/consensus/cometbft/abci/transaction.go", "abciMux.executeTx", "HasPendingUpgradeAt", ["return fmt.Errorf(\"failed to check for pending upgrades: %w\", err)"]),
    .checkTxOnly, "under `upgrader != nil && ctx.IsCheckOnly()` (see local_inputs_classified)"),
  (("go/consensus/cometbft/abci/upgrade.go", "abciMux.maybeHaltForUpgrade", "ConsensusUpgrade", ["return"]),
    .haltOrPanic, "after Commit: halts the node or logs a warning"),
  (("go/consensus/cometbft/apps/governance/governance.go", "Application.BeginBlock", "GetUpgrade", ["return upgrade.ErrStopForUpgrade", "return upgrade.ErrStopForUpgrade", "return upgrade.ErrStopForUpgrade"]),
    .haltOrPanic, "every exit is ErrStopForUpgrade, which BeginBlock turns into a node halt"),
  (("go/consensus/cometbft/apps/governance/governance.go", "Application.executeProposal", "SubmitDescriptor", []),
    .logOnly, "the local store may answer ErrAlreadyPending on a re-execution of the block: the error is only logged"),
  (("go/consensus/cometbft/apps/governance/governance.go", "Application.executeProposal", "CancelUpgrade", []),
    .logOnly, "likewise: only logged"),
  (("go/consensus/cometbft/apps/governance/messages.go", "Application.completeStateSync", "SubmitDescriptor", []),
    .logOnly, "start-up / state-sync hook: only logged")
]

/-- Every call of the node-local upgrade manager is known, with the exits of its consuming statement. -/
theorem upgrader_calls_classified :
    Generated.MuxFacts.upgraderCalls.map (fun c => (c.file, c.fn, c.method, c.exits)) = expectedUpgrader.map (·.1) := rfl

/-- **The local upgrade store never influences results**: what `SubmitDescriptor` and
`CancelUpgrade` answer is consumed by statements without any `return` or `panic`; calls classified
`logOnly` have no exits. -/
theorem upgrader_store_results_only_logged :
    (Generated.MuxFacts.upgraderCalls.filter
      (fun c => c.method == "SubmitDescriptor" || c.method == "CancelUpgrade")).all (fun c => c.exits.isEmpty) = true ∧
    expectedUpgrader.all (fun e => e.2.1 != UpgraderUse.logOnly || e.1.2.2.2.isEmpty) = true ∧
    (Generated.MuxFacts.upgraderCalls.filter
      (fun c => c.method == "SubmitDescriptor" || c.method == "CancelUpgrade")).length = 3 := by decide

/-- The two statements of governance `executeProposal` that hand an accepted (cancelled) upgrade to
the local store, verbatim: the error is logged and dropped. -/
theorem source_executeProposal_logs_only :
    (Generated.MuxFacts.upgraderCalls.filter (fun c => c.fn == "Application.executeProposal")).map (·.stmt) =
    ["if err = upgrader.SubmitDescriptor(&proposal.Content.Upgrade.Descriptor); err != nil { ctx.Logger().Error(\"failed to locally apply the upgrade descriptor\", \"err\", err, \"descriptor\", proposal.Content.Upgrade.Descriptor, ) }",
     "if err = upgrader.CancelUpgrade(&upgradeProposal.Descriptor); err != nil { ctx.Logger().Error(\"failed to locally cancel the upgrade\", \"err\", err, \"descriptor\", upgradeProposal.Descriptor, ) }"] := rfl

/-! ## Process-local state of the applications

Replicas agree only if block execution is a function of the consensus state and the block: an
application object that remembered something IN MEMORY from earlier calls (a cache, a memoised
lookup, a counter) would make a replica that was restarted from disk, or restored from a checkpoint,
execute the same block differently from one that kept running.  `tools/gen muxfacts`
(`appstate.go`) lists every field of every type in `apps/**` that has a block or transaction hook,
and every statement in a method of such a type that writes through the receiver.  Both lists are
pinned here with the reason why each entry cannot carry history: a new field, or a new write
through the receiver, breaks the build until it has been read and classified. -/

/-- Why a field of an application object cannot carry execution history. -/
inductive AppField where
  /-- handle on the shared application state / message dispatcher / node-local notifier, set at
  construction; holds no data of its own that execution reads -/
  | wiring
  /-- fixed at construction or in `OnRegister` (before any block) from constants of the code -/
  | constant
  /-- chosen once as a function of the consensus parameters in state (`doInitBackend`), equal on
  every replica whenever it is chosen -/
  | fromState
  /-- bookkeeping of the supplementary sanity checker, which never writes consensus state and is
  not registered on production nodes -/
  | sanityOnly
deriving DecidableEq, Repr

def expectedAppFields : List (String × AppField) := [
  ("beacon.Application.backend : internalBackend", .fromState),
  ("beacon.backendInsecure.app : *Application", .wiring),
  ("beacon.backendVRF.app : *Application", .wiring),
  ("governance.Application.md : api.MessageDispatcher", .wiring),
  ("governance.Application.state : api.ApplicationState", .wiring),
  ("keymanager.Application.exts : []api.Extension", .constant),
  ("keymanager.Application.extsByMethod : map[transaction.MethodName]api.Extension", .constant),
  ("keymanager.Application.methods : []transaction.MethodName", .constant),
  ("keymanager.Application.state : api.ApplicationState", .wiring),
  ("keymanager/churp.churpExt.appName : string", .constant),
  ("keymanager/churp.churpExt.state : tmapi.ApplicationState", .wiring),
  ("keymanager/secrets.secretsExt.appName : string", .constant),
  ("keymanager/secrets.secretsExt.state : tmapi.ApplicationState", .wiring),
  ("registry.Application.md : api.MessageDispatcher", .wiring),
  ("registry.Application.state : api.ApplicationState", .wiring),
  ("roothash.Application.ecn : api.ExecutorCommitmentNotifier", .wiring),
  ("roothash.Application.md : api.MessageDispatcher", .wiring),
  ("roothash.Application.state : api.ApplicationState", .wiring),
  ("scheduler.Application.md : api.MessageDispatcher", .wiring),
  ("scheduler.Application.state : api.ApplicationState", .wiring),
  ("staking.Application.md : api.MessageDispatcher", .wiring),
  ("staking.Application.state : api.ApplicationState", .wiring),
  ("supplementarysanity.Application.checkHeight : int64", .sanityOnly),
  ("supplementarysanity.Application.currentInterval : int64", .sanityOnly),
  ("supplementarysanity.Application.interval : int64", .sanityOnly),
  ("supplementarysanity.Application.state : api.ApplicationState", .wiring),
  ("vault.Application.md : api.MessageDispatcher", .wiring),
  ("vault.Application.state : api.ApplicationState", .wiring)
]

/-- **No application keeps execution history in memory (fields).**  The regenerated list of
fields of all application types equals the classified table. -/
theorem app_state_fields_classified :
    Generated.MuxFacts.appStateFields = expectedAppFields.map (·.1) := by decide

def expectedAppWrites : List (String × AppField) := [
  ("beacon.Application.doInitBackend: app.backend = &backendInsecure{app}", .fromState),
  ("beacon.Application.doInitBackend: app.backend = &backendVRF{app}", .fromState),
  ("keymanager.Application.registerExtensions: app.exts = append(app.exts, ext)", .constant),
  ("keymanager.Application.registerExtensions: app.extsByMethod[m] = ext", .constant),
  ("keymanager.Application.registerExtensions: app.methods = append(app.methods, m)", .constant),
  ("supplementarysanity.Application.endBlockImpl: app.checkHeight = newInterval*app.interval + offset", .sanityOnly),
  ("supplementarysanity.Application.endBlockImpl: app.currentInterval = newInterval", .sanityOnly)
]

/-- **No application keeps execution history in memory (writes).**  Every statement that writes
through the receiver of an application method is known and classified. -/
theorem app_state_writes_classified :
    Generated.MuxFacts.appStateWrites = expectedAppWrites.map (·.1) := by decide

/-- No block or transaction hook of a production application writes to its own object: the only
writes outside construction-time wiring are the backend choice (a function of the state) and the
sanity checker's interval bookkeeping. -/
theorem app_state_writes_never_history :
    expectedAppWrites.all (fun e => e.2 == .fromState || e.2 == .constant || e.2 == .sanityOnly) = true := by decide

/-! ## The regenerated map-range site ledger

`tools/gen maprange` lists (with go/types) every place in the consensus-critical packages where
the iteration order of a Go map can become visible.  Every site was read and is mapped below to
the lemma(s) of `Order` that make its result independent of that order, or to the reason why the
order never reaches block execution.  `sites_classified` fails to build as soon as a site
appears, disappears or changes its ranged expression. -/

/-- How a map-range site is discharged. -/
inductive Discharge where
  /-- `Order.collect_sort_perm`: collected into a slice that is sorted before any other use. -/
  | collectSort
  /-- `Order.sum_perm`. -/
  | sum
  /-- `Order.group_sum_perm`. -/
  | groupSum
  /-- `Order.perkey_update_perm`: one (possibly failing) write per distinct key. -/
  | perKey
  /-- `Order.set_insert_perm`: a set / index consulted for membership only. -/
  | setInsert
  /-- `Order.delete_perm_order`. -/
  | deleteByPred
  /-- `Order.emit_set_perm`: output consumed as a set. -/
  | emitSet
  /-- `Order.all_perm`: validation loop, consumed as error / no error. -/
  | allCheck
  /-- `Order.any_perm`. -/
  | anyCheck
  /-- `Order.dedup_sum_perm`. -/
  | dedupSum
  /-- `Order.argmax_majority_perm`. -/
  | argmaxMajority
  /-- The order never reaches block execution. -/
  | offChain (why : String)
  deriving DecidableEq, Repr

/-- The lemma behind each discharge, as a proposition. -/
def Discharge.statement : Discharge → Prop
  | .collectSort => ∀ (α β : Type) (g : α → Option β) (le : β → β → Bool),
      (∀ a b c, le a b → le b c → le a c) → (∀ a b, le a b || le b a) → (∀ a b, le a b → le b a → a = b) →
      ∀ l1 l2 : List α, l1.Perm l2 → (l1.filterMap g).mergeSort le = (l2.filterMap g).mergeSort le
  | .sum => ∀ (α : Type) (q : α → Nat) (l1 l2 : List α), l1.Perm l2 → ∀ acc,
      l1.foldl (fun a x => a + q x) acc = l2.foldl (fun a x => a + q x) acc
  | .groupSum => ∀ (α K : Type) [DecidableEq K] (key : α → K) (q : α → Nat) (l1 l2 : List α), l1.Perm l2 →
      ∀ m : K → Nat, l1.foldl (fun m x => Order.upd m (key x) (m (key x) + q x)) m =
        l2.foldl (fun m x => Order.upd m (key x) (m (key x) + q x)) m
  | .perKey => ∀ (K V U : Type) [DecidableEq K] (g : K → V → U → Option U) (l1 l2 : List (K × V)),
      l1.Perm l2 → (l1.map Prod.fst).Nodup → ∀ m : Option (K → U),
      l1.foldl (fun m kv => m.bind fun m => (g kv.1 kv.2 (m kv.1)).map (Order.upd m kv.1)) m =
        l2.foldl (fun m kv => m.bind fun m => (g kv.1 kv.2 (m kv.1)).map (Order.upd m kv.1)) m
  | .setInsert => ∀ (α K : Type) [DecidableEq K] (key : α → K) (l1 l2 : List α), l1.Perm l2 →
      ∀ s : K → Bool, l1.foldl (fun s x => Order.upd s (key x) true) s = l2.foldl (fun s x => Order.upd s (key x) true) s
  | .deleteByPred => ∀ (K V : Type) [DecidableEq K] (p : K → Bool) (l1 l2 : List K), l1.Perm l2 →
      ∀ m : K → Option V, l1.foldl (fun m k => if p k then Order.upd m k none else m) m =
        l2.foldl (fun m k => if p k then Order.upd m k none else m) m
  | .emitSet => ∀ (α β : Type) (g : α → Option β) (l1 l2 : List α), l1.Perm l2 →
      ∀ u, u ∈ l1.filterMap g ↔ u ∈ l2.filterMap g
  | .allCheck => ∀ (α : Type) (p : α → Bool) (l1 l2 : List α), l1.Perm l2 → l1.all p = l2.all p
  | .anyCheck => ∀ (α : Type) (p : α → Bool) (l1 l2 : List α), l1.Perm l2 → l1.any p = l2.any p
  | .dedupSum => ∀ (α K : Type) [DecidableEq K] (key : α → K) (w : K → Nat) (l1 l2 : List α), l1.Perm l2 →
      ∀ st : (K → Bool) × Nat,
      l1.foldl (fun st x => if st.1 (key x) then st else (Order.upd st.1 (key x) true, st.2 + w (key x))) st =
        l2.foldl (fun st x => if st.1 (key x) then st else (Order.upd st.1 (key x) true, st.2 + w (key x))) st
  | .argmaxMajority => ∀ (H : Type) (d : H) (l1 l2 : List (H × Nat)), l1.Perm l2 →
      (l1.foldl Order.argmaxStep (d, 0)).2 = (l2.foldl Order.argmaxStep (d, 0)).2 ∧
      (2 * (l1.foldl Order.argmaxStep (d, 0)).2 > (l1.map Prod.snd).sum →
        l1.foldl Order.argmaxStep (d, 0) = l2.foldl Order.argmaxStep (d, 0))
  | .offChain _ => True

/-- Every discharge used in the table is a proved lemma. -/
theorem discharge_sound (d : Discharge) : d.statement := by
  cases d with
  | collectSort => intro α β g le t1 t2 t3 l1 l2 hp; exact Order.collect_sort_perm g le t1 t2 t3 hp
  | sum => intro α q l1 l2 hp acc; exact Order.sum_perm q hp acc
  | groupSum => intro α K _ key q l1 l2 hp m; exact Order.group_sum_perm key q hp m
  | perKey => intro K V U _ g l1 l2 hp hk m; exact Order.perkey_update_perm g hp hk m
  | setInsert => intro α K _ key l1 l2 hp s; exact Order.set_insert_perm key hp s
  | deleteByPred => intro K V _ p l1 l2 hp m; exact Order.delete_perm_order p hp m
  | emitSet => intro α β g l1 l2 hp u; exact (Order.emit_set_perm g hp).2 u
  | allCheck => intro α p l1 l2 hp; exact Order.all_perm p hp
  | anyCheck => intro α p l1 l2 hp; exact Order.any_perm p hp
  | dedupSum => intro α K _ key w l1 l2 hp st; exact Order.dedup_sum_perm key w hp st
  | argmaxMajority => intro H d l1 l2 hp; exact Order.argmax_majority_perm d hp
  | offChain _ => trivial

open Generated.MapRangeSites in
/-- The expectation table: site ↦ discharges, with the reading note. -/
def expected : List (Generated.MapRangeSites.Site × List Discharge × String) := [
  (⟨"go/consensus/cometbft/abci/mux.go", "abciMux.rebuildAppLexOrdering", "mux.appsByName", "range", 0⟩,
    [.collectSort], "names collected, sort.Strings, then used"),
  (⟨"go/consensus/cometbft/abci/mux.go", "abciMux.checkDependencies", "mux.appsByName", "range", 0⟩,
    [.allCheck], "start-up dependency check; only err != nil is consumed (the message lists missing deps in map order)"),
  (⟨"go/consensus/cometbft/apps/beacon/backend_vrf.go", "backendVRF.newHighQualityAlpha", "vrfState.Pi", "range", 0⟩,
    [.collectSort], "VRF proofs keyed by node: keys collected, sorted by bytes, hashed in sorted order"),
  (⟨"go/consensus/cometbft/apps/governance/governance.go", "validatorsEscrow", "currentValidators", "range", 0⟩,
    [.dedupSum], "entity escrow recorded and added to the total once per entity, whichever of its nodes comes first"),
  (⟨"go/consensus/cometbft/apps/governance/governance.go", "Application.closeProposal", "validatorEntitiesPool", "range", 0⟩,
    [.perKey], "one empty tally map per validator entity"),
  (⟨"go/consensus/cometbft/apps/governance/governance.go", "Application.closeProposal", "delegations", "range", 0⟩,
    [.perKey, .anyCheck], "each delegation touches only validatorVoteShares[to] (subShares may fail: fatal); delegationToValidator is an existence flag"),
  (⟨"go/consensus/cometbft/apps/governance/governance.go", "Application.closeProposal", "validatorVoteShares", "range", 0⟩,
    [.groupSum, .allCheck], "stake per vote option summed into proposal.Results[vote]; missing pool panics on every order"),
  (⟨"go/consensus/cometbft/apps/governance/governance.go", "Application.closeProposal", "votes", "range", 0⟩,
    [.groupSum, .allCheck], "inner loop of the same grouped sum; StakeForShares error is fatal on every order"),
  (⟨"go/consensus/cometbft/apps/governance/transactions.go", "Application.castVote", "currentValidators", "range", 0⟩,
    [.setInsert], "index by node ID, used for membership only"),
  (⟨"go/consensus/cometbft/apps/governance/transactions.go", "Application.castVote", "currentValidators", "range", 1⟩,
    [.setInsert], "index by entity address (several nodes may share one), used for membership only"),
  (⟨"go/consensus/cometbft/apps/governance/transactions.go", "Application.castVote", "delegs", "range", 0⟩,
    [.anyCheck], "submitter delegates to some current validator"),
  (⟨"go/consensus/cometbft/apps/keymanager/churp/txs.go", "tryFinalizeHandoff", "status.Applications", "range", 0⟩,
    [.collectSort], "reconstructed applicants collected, only len() read before sort.SliceStable by key bytes"),
  (⟨"go/consensus/cometbft/apps/registry/genesis.go", "Application.InitChain", "st.NodeStatuses", "range", 0⟩,
    [.allCheck, .perKey], "InitChain: SetNodeStatus per node ID"),
  (⟨"go/consensus/cometbft/apps/roothash/api/block.go", "RuntimesToFinalize", "rts", "range", 0⟩,
    [.collectSort], "runtime IDs collected and sorted by bytes"),
  (⟨"go/consensus/cometbft/apps/scheduler/debug_force.go", "debugForceElect", "schedulerParameters.DebugForceElect[rt.ID]", "range", 0⟩,
    [.collectSort, .perKey], "debug-only force election: node IDs collected then sort.SliceStable; state.params[nodeID] per key"),
  (⟨"go/consensus/cometbft/apps/scheduler/query.go", "Query.Validators", "vals", "range", 0⟩,
    [.offChain "scheduler Query.Validators serves the consensus backend's GetValidators RPC; the unordered slice never reaches block execution"], "query"),
  (⟨"go/consensus/cometbft/apps/scheduler/scheduler.go", "diffValidators", "current", "range", 0⟩,
    [.emitSet], "validator removals appended to the ValidatorUpdates CometBFT applies as a change set"),
  (⟨"go/consensus/cometbft/apps/scheduler/scheduler.go", "diffValidators", "pending", "range", 0⟩,
    [.emitSet], "validator upserts appended to the same change set"),
  (⟨"go/consensus/cometbft/apps/scheduler/scheduler.go", "stakingAddressMapToSliceByStake", "entities", "mapscall.Keys", 0⟩,
    [.collectSort], "slices.Collect(maps.Keys) then sortAddresses before the seeded shuffle"),
  (⟨"go/consensus/cometbft/apps/scheduler/scheduler.go", "distributeRewards", "entities", "mapscall.Keys", 0⟩,
    [.collectSort], "slices.Collect(maps.Keys) then sortAddresses before AddRewards"),
  (⟨"go/consensus/cometbft/apps/staking/genesis.go", "Application.initLedger", "st.Ledger", "range", 0⟩,
    [.allCheck, .sum, .perKey], "InitChain ledger: validation, total supply sum, SetAccount per address"),
  (⟨"go/consensus/cometbft/apps/staking/genesis.go", "Application.initDelegations", "st.Delegations", "range", 0⟩,
    [.allCheck, .perKey], "InitChain delegations, outer map: per escrow address"),
  (⟨"go/consensus/cometbft/apps/staking/genesis.go", "Application.initDelegations", "delegations", "range", 0⟩,
    [.allCheck, .sum, .perKey], "InitChain delegations, inner map: share sum and SetDelegation per (delegator, escrow)"),
  (⟨"go/consensus/cometbft/apps/staking/genesis.go", "Application.initDebondingDelegations", "st.DebondingDelegations", "range", 0⟩,
    [.allCheck, .perKey], "InitChain debonding delegations, outer map"),
  (⟨"go/consensus/cometbft/apps/staking/genesis.go", "Application.initDebondingDelegations", "delegators", "range", 0⟩,
    [.allCheck, .sum, .perKey], "InitChain debonding delegations, inner map (the per-delegator slice is ordered)"),
  (⟨"go/consensus/cometbft/apps/staking/query.go", "Query.DelegationInfosFor", "delegations", "range", 0⟩,
    [.perKey, .offChain "staking query"], "result is itself a map"),
  (⟨"go/consensus/cometbft/apps/staking/query.go", "Query.DebondingDelegationInfosFor", "delegations", "range", 0⟩,
    [.perKey, .offChain "staking query"], "result is itself a map"),
  (⟨"go/consensus/cometbft/apps/staking/state/accumulator.go", "StakeAccumulatorCache.Commit", "c.accounts", "range", 0⟩,
    [.perKey], "SetAccount per cached address"),
  (⟨"go/consensus/cometbft/apps/staking/state/state.go", "EpochSigning.EligibleEntities", "es.ByEntity", "range", 0⟩,
    [.allCheck, .collectSort], "overflow check, eligible entities collected and sorted by bytes"),
  (⟨"go/consensus/cometbft/apps/supplementarysanity/checks.go", "checkRootHash", "runtimesByID", "range", 0⟩,
    [.allCheck], "supplementary sanity app (debug): error iff some runtime state is inconsistent"),
  (⟨"go/consensus/cometbft/apps/supplementarysanity/checks.go", "checkRootHash", "runtimesByID", "range", 1⟩,
    [.allCheck], "supplementary sanity app (debug)"),
  (⟨"go/consensus/cometbft/apps/supplementarysanity/checks.go", "checkStaking", "addressesDelegationsMap", "range", 0⟩,
    [.allCheck], "supplementary sanity app (debug)"),
  (⟨"go/consensus/cometbft/apps/supplementarysanity/checks.go", "checkStaking", "addressesDebondingDelegationsMap", "range", 0⟩,
    [.allCheck], "supplementary sanity app (debug)"),
  (⟨"go/consensus/cometbft/apps/vault/genesis.go", "Application.InitChain", "st.States", "range", 0⟩,
    [.perKey], "InitChain vault address states, outer map"),
  (⟨"go/consensus/cometbft/apps/vault/genesis.go", "Application.InitChain", "vaultStates", "range", 0⟩,
    [.perKey], "InitChain vault address states, inner map: SetAddressState per (vault, address)"),
  (⟨"go/consensus/cometbft/apps/vault/genesis.go", "Application.InitChain", "st.PendingActions", "range", 0⟩,
    [.perKey], "InitChain vault pending actions per vault (per-vault slice is ordered, keyed by action nonce)"),
  (⟨"go/governance/api/api.go", "ChangeParametersProposal.PrettyPrint", "changes", "range", 0⟩,
    [.offChain "pretty printer"], "PrettyPrint"),
  (⟨"go/governance/api/proposal.go", "Proposal.VotedSum", "p.Results", "range", 0⟩,
    [.sum], "sum of all vote results"),
  (⟨"go/keymanager/secrets/secret.go", "EncryptedSecret.SanityCheck", "s.Ciphertexts", "range", 0⟩,
    [.allCheck], "every ciphertext key must be a committee REK"),
  (⟨"go/registry/api/admission.go", "RuntimeAdmissionPolicy.ValidateBasic", "perRole", "range", 0⟩,
    [.allCheck], "ValidateBasic"),
  (⟨"go/registry/api/admission.go", "EntityWhitelistRuntimeAdmissionPolicy.ValidateBasic", "ewl.Entities", "range", 0⟩,
    [.allCheck], "ValidateBasic"),
  (⟨"go/registry/api/admission.go", "EntityWhitelistRuntimeAdmissionPolicy.ValidateBasic", "wc.MaxNodes", "range", 0⟩,
    [.allCheck], "ValidateBasic"),
  (⟨"go/registry/api/admission.go", "EntityWhitelistRoleAdmissionPolicy.ValidateBasic", "ewl.Entities", "range", 0⟩,
    [.allCheck], "ValidateBasic"),
  (⟨"go/registry/api/api.go", "verifyNodeRuntimeChanges", "currentMap", "range", 0⟩,
    [.allCheck], "node update allowed iff every current runtime passes"),
  (⟨"go/registry/api/api.go", "verifyNodeRuntimeChanges", "currentVersions", "range", 0⟩,
    [.allCheck], "…and every current version passes"),
  (⟨"go/registry/api/api.go", "VerifyRuntimeUpdate", "newDeployments", "range", 0⟩,
    [.allCheck], "runtime update rejected iff some deployment changed retroactively"),
  (⟨"go/registry/api/runtime.go", "RuntimeStakingParameters.ValidateBasic", "s.Thresholds", "range", 0⟩,
    [.allCheck], "ValidateBasic"),
  (⟨"go/registry/api/sanity_check.go", "Genesis.SanityCheck", "seenEntities", "range", 0⟩,
    [.allCheck, .perKey, .offChain "genesis document sanity check, before InitChain; consumed as err != nil"], "entities collected in map order only feed AddStakeClaims, which writes per entity"),
  (⟨"go/registry/api/sanity_check.go", "Genesis.SanityCheck", "publicKeyBlacklist", "range", 0⟩,
    [.allCheck, .offChain "genesis document sanity check"], "blacklist check"),
  (⟨"go/registry/api/sanity_check.go", "sanityCheckRuntimeLookup.Runtimes", "r.runtimes", "range", 0⟩,
    [.offChain "lookup helper of the genesis document sanity check; the slice feeds per-runtime claims only"], "unordered slice"),
  (⟨"go/roothash/api/commitment/pool.go", "Pool.AddVerifiedExecutorCommitment", "p.SchedulerCommitments", "range", 0⟩,
    [.deleteByPred], "drop scheduler commitments of rank above HighestRank"),
  (⟨"go/roothash/api/commitment/pool.go", "Pool.ProcessCommitments", "p.SchedulerCommitments", "range", 0⟩,
    [.deleteByPred], "drop scheduler commitments of rank other than HighestRank"),
  (⟨"go/roothash/api/commitment/pool.go", "Pool.processCommitments", "votes", "range", 0⟩,
    [.sum], "required -= v over the vote counts"),
  (⟨"go/roothash/api/commitment/pool.go", "Pool.processCommitments", "votes", "range", 1⟩,
    [.argmaxMajority], "best vote; the winning hash is read only when best >= total/2+1"),
  (⟨"go/roothash/api/sanity_check.go", "SanityCheckBlocks", "blocks", "range", 0⟩,
    [.allCheck, .offChain "genesis document sanity check"], "block timestamps"),
  (⟨"go/roothash/api/sanity_check.go", "Genesis.SanityCheck", "g.RuntimeStates", "range", 0⟩,
    [.allCheck, .offChain "genesis document sanity check"], "runtime genesis states"),
  (⟨"go/staking/api/api.go", "StakeAccumulator.PrettyPrint", "sa.Claims", "range", 0⟩,
    [.offChain "pretty printer"], "PrettyPrint"),
  (⟨"go/staking/api/api.go", "StakeAccumulator.TotalClaims", "sa.Claims", "range", 0⟩,
    [.sum, .allCheck], "sum of claim thresholds; unknown threshold kind is an error on every order"),
  (⟨"go/staking/api/api.go", "GeneralAccount.PrettyPrint", "ga.Allowances", "range", 0⟩,
    [.offChain "pretty printer"], "PrettyPrint"),
  (⟨"go/staking/api/api.go", "GeneralAccount.PrettyPrint", "ga.Hooks", "range", 0⟩,
    [.offChain "pretty printer"], "PrettyPrint"),
  (⟨"go/staking/api/sanity_check.go", "SanityCheckAccount", "acct.General.Allowances", "range", 0⟩,
    [.allCheck], "allowance validity"),
  (⟨"go/staking/api/sanity_check.go", "SanityCheckDelegations", "delegations", "range", 0⟩,
    [.allCheck, .sum], "share sum compared with the pool total"),
  (⟨"go/staking/api/sanity_check.go", "SanityCheckDebondingDelegations", "delegations", "range", 0⟩,
    [.allCheck, .sum], "share sum compared with the pool total"),
  (⟨"go/staking/api/sanity_check.go", "SanityCheckAccountShares", "delegations", "range", 0⟩,
    [.sum], "share sum and count"),
  (⟨"go/staking/api/sanity_check.go", "SanityCheckAccountShares", "debondingDelegations", "range", 0⟩,
    [.sum], "share sum and count"),
  (⟨"go/staking/api/sanity_check.go", "Genesis.SanityCheck", "g.Ledger", "range", 0⟩,
    [.allCheck, .sum], "genesis: per-account check and total"),
  (⟨"go/staking/api/sanity_check.go", "Genesis.SanityCheck", "g.Delegations", "range", 0⟩,
    [.allCheck], "genesis: delegations per account"),
  (⟨"go/staking/api/sanity_check.go", "Genesis.SanityCheck", "g.DebondingDelegations", "range", 0⟩,
    [.allCheck], "genesis: debonding delegations per account"),
  (⟨"go/staking/api/sanity_check.go", "Genesis.SanityCheck", "g.Ledger", "range", 1⟩,
    [.allCheck], "genesis: share invariants per account"),
  (⟨"go/staking/api/sanity_check.go", "SanityCheckStake", "escrows", "range", 0⟩,
    [.perKey], "copy balances into the expected escrow per address"),
  (⟨"go/staking/api/sanity_check.go", "SanityCheckStake", "escrows", "range", 1⟩,
    [.allCheck], "stake claims satisfied per address"),
  (⟨"go/staking/api/sanity_check.go", "SanityCheckStake", "escrows", "range", 2⟩,
    [.setInsert, .allCheck], "seen set and per-address claim comparison"),
  (⟨"go/staking/api/sanity_check.go", "SanityCheckStake", "expectedClaims", "range", 0⟩,
    [.allCheck], "per-claim comparison"),
  (⟨"go/staking/api/sanity_check.go", "SanityCheckStake", "accounts", "range", 0⟩,
    [.allCheck], "accounts without expected claims must have none")
]

/-- **The obligation `generated sites = expected sites`.**  A new, removed or changed map-range
site in the consensus-critical packages breaks this until it has been read and classified. -/
theorem sites_classified : Generated.MapRangeSites.sites = expected.map (·.1) := by decide

/-- No site is left without a discharge. -/
theorem sites_all_discharged : expected.all (fun e => !e.2.1.isEmpty) = true := by decide

end OasisProofs.C01
