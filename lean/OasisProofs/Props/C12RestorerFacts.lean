/-
Regenerated tie of the two-phase restorer model (`OasisModel/Mkvs/Chunk.lean`: `rsStartRestore`, `rsAbort`, phase 1 = `rsBegin` capturing the session generation `gen`, phase 2 = `rsFinish` comparing it) to `go/storage/mkvs/checkpoint/restorer.go`.  The model's generation counter stands for the IDENTITY of the `*Metadata` pointer captured in phase 1: phase 2 credits the chunk to the restore in progress only if `rs.currentCheckpoint` is still that very pointer (a restore aborted and restarted for the same root is a different restore: what the straggler imported was discarded with the aborted multipart insert).

`tools/gen stmtfacts restorer` flattens the functions into one line per simple statement on every run; the
lists are pinned here (`rfl`).  A change of a statement, a condition or of the order of statements
breaks the pin until the new text has been read against the model.
-/
import Generated.StmtFactsRestorer

namespace OasisProofs.C12RestorerFacts

/-- Position of the first line equal to `s`. -/
def pos (l : List String) (s : String) : Option Nat :=
  let i := l.findIdx (· == s)
  if i < l.length then some i else none

/-- The lines occur in this order (strictly increasing positions). -/
def inOrder (l : List String) : List String → Option Nat → Bool
  | [], _ => true
  | s :: rest, prev =>
    match pos l s, prev with
    | none, _ => false
    | some i, none => inOrder l rest (some i)
    | some i, some p => decide (p < i) && inOrder l rest (some i)

def expected_startRestoreStmts : List String := [
  "rs.Lock()",
  "defer rs.Unlock()",
  "if rs.currentCheckpoint != nil {",
  "return ErrRestoreAlreadyInProgress",
  "}",
  "rs.currentCheckpoint = checkpoint",
  "rs.pendingChunks = make(map[uint64]bool)",
  "for idx := range checkpoint.Chunks {",
  "rs.pendingChunks[uint64(idx)] = true",
  "}",
  "return nil"]

theorem startRestoreStmts_as_modelled : Generated.StmtFacts.Restorer.startRestoreStmts = expected_startRestoreStmts := rfl

def expected_abortRestoreStmts : List String := [
  "rs.Lock()",
  "defer rs.Unlock()",
  "rs.pendingChunks = nil",
  "rs.currentCheckpoint = nil",
  "return nil"]

theorem abortRestoreStmts_as_modelled : Generated.StmtFacts.Restorer.abortRestoreStmts = expected_abortRestoreStmts := rfl

def expected_restoreChunkStmts : List String := [
  "var checkpoint *Metadata",
  "chunk, err := func() (*ChunkMetadata, error) { rs.Lock() defer rs.Unlock() if rs.currentCheckpoint == nil { return nil, ErrNoRestoreInProgress } if !rs.pendingChunks[idx] { return nil, ErrChunkAlreadyRestored } checkpoint = rs.currentCheckpoint return rs.currentCheckpoint.GetChunkMetadata(idx) }()",
  "if err != nil {",
  "return false, err",
  "}",
  "err = restoreChunk(ctx, rs.ndb, chunk, r)",
  "switch  {",
  "case err == nil:",
  "case errors.Is(err, ErrChunkProofVerificationFailed):",
  "_ = rs.AbortRestore(ctx)",
  "return false, err",
  "default:",
  "return false, err",
  "}",
  "rs.Lock()",
  "defer rs.Unlock()",
  "if rs.currentCheckpoint != checkpoint {",
  "return false, ErrNoRestoreInProgress",
  "}",
  "delete(rs.pendingChunks, idx)",
  "if len(rs.pendingChunks) == 0 {",
  "rs.pendingChunks = nil",
  "rs.currentCheckpoint = nil",
  "return true, nil",
  "}",
  "return false, nil"]

theorem restoreChunkStmts_as_modelled : Generated.StmtFacts.Restorer.restoreChunkStmts = expected_restoreChunkStmts := rfl

theorem restoreChunk_phase2_compares_captured_session :
    inOrder expected_restoreChunkStmts ["if rs.currentCheckpoint != checkpoint {", "return false, ErrNoRestoreInProgress", "delete(rs.pendingChunks, idx)"] none = true := by decide +kernel

end OasisProofs.C12RestorerFacts
