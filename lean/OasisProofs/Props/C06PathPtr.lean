import OasisProofs.Helpers.PathPtr
/-
Property C06 (finalized versions stay readable), pathbadger backend: WHAT A LONG-LIVED TREE HANDS TO
A BATCH.

`Props/C06.lean` proves `pathbadger_readable_inv` etc. under the hypothesis `batchOK` about every
batch.  This file derives the part of `batchOK` that is decided by `doCommit`
(go/storage/mkvs/commit.go:152-249) and the batch callbacks of the path-keyed backend
(go/storage/mkvs/db/pathbadger/node.go:118-251, pathbadger.go:846-866) from a model of those
(`OasisModel/NodeDB/PathPtr.lean`, `commitWalk`) for an in-memory tree that lives across commits:
the positions `(version, index)` one commit wrote into the pointers are what the next commit finds.

Vocabulary.  `inh : List (Key × Nat)` are the database nodes (key, hash) alive for the old root.
The hypotheses of the theorems describe the tree as the previous commit (or loading from the
database) plus the tree operations leave it:
* `WFRoot inh t` — a dirty pointer has no position (`Pointer.SetDirty`, node/node.go:214-223); below
  a clean pointer everything is clean and carries a proper position of a live node with the pointer's
  hash (an embedded leaf: the invalid marker or such a position); a clean pointer below a dirty one
  may carry whatever its earlier role left: the invalid marker (was embedded), index 0 (was the
  root), or a position of a live node;
* `RootPosFresh t` — the position a clean node gives up when it becomes the root is not also carried
  below it; `PendingGone t pending` — positions in `pendingRemovedNodes` are not carried by the tree;
* `v < versionInvalid` — the version is not the reserved marker value 2^64-1.
The last three are shown necessary by witnesses (`*_needed`).

DEVIATION FROM THE INFORMAL DESCRIPTION "embedded leaf → invalid marker".  The code never writes the
invalid marker during a commit: it is produced only by `nodeFromDb` (node.go:408-413) and kept by
`VisitCleanNode` for a leaf that stays embedded.  A DIRTY embedded leaf gets a fresh index and is
put as a node of its own (commit.go:196-199, 220-239; node.go:176-191, 218-251), and a clean
standalone leaf that becomes embedded keeps its position (node.go:146-157 only handles the opposite
direction).  Hence (1) states for embedded leaves: the invalid marker OR a position that resolves.
-/
namespace OasisProofs.C06PathPtr
open OasisModel.NodeDB OasisModel.NodeDB.PathPtr OasisProofs.PathPtrH
open OasisModel.NodeDB.PathBadger (Key NodeVal Batch)

/-! ## (1) positions resolve -/

/-- **(1)** After `commitWalk` at version `v`, every child pointer (`Left`/`Right` of an internal
node: what `ptrToDb` serialises and `GetNode` resolves by position) carries a position that is not
the invalid marker, not a root index, and names with the pointer's hash either a node put by this
batch (version `v`) or a node alive before that this batch does not record as removed.  Every
embedded leaf carries the invalid marker or such a position. -/
theorem walk_positions_resolve {v : Nat} (hv : v < versionInvalid) (inh : List (Key × Nat)) (t : Tree)
    (pending : List (Option Key)) (hwf : WFRoot inh t) (hfresh : RootPosFresh t)
    (hpend : PendingGone t pending) :
    (∀ p ∈ childPtrs (commitWalk v t pending).1, ∃ k, p.pos = some k ∧ isInvalid k = false ∧
        isRootKey k = false ∧ Resolves v inh (commitWalk v t pending).2 (k, p.hash)) ∧
    (∀ p ∈ embPtrs (commitWalk v t pending).1, ∃ k, p.pos = some k ∧
        (isInvalid k = true ∨ Resolves v inh (commitWalk v t pending).2 (k, p.hash))) :=
  let h := commitWalk_post hv inh t pending hwf hfresh hpend
  ⟨h.childs, h.embs⟩

/-- (1) in terms of the nodes alive after the batch: every child pointer is in `nextLive`. -/
theorem walk_positions_live {v : Nat} (hv : v < versionInvalid) (inh : List (Key × Nat)) (t : Tree)
    (pending : List (Option Key)) (hwf : WFRoot inh t) (hfresh : RootPosFresh t)
    (hpend : PendingGone t pending) :
    ∀ p ∈ childPtrs (commitWalk v t pending).1, ∃ k, p.pos = some k ∧
      (k, p.hash) ∈ nextLive inh (commitWalk v t pending).2 := by
  intro p hp
  obtain ⟨k, hk, _, _, hres⟩ := (walk_positions_resolve hv inh t pending hwf hfresh hpend).1 p hp
  refine ⟨k, hk, ?_⟩
  unfold nextLive
  rcases hres with ⟨_, h2⟩ | ⟨h1, h2⟩
  · exact List.mem_append_right _ h2
  · exact List.mem_append_left _ (List.mem_filter.2 ⟨h1, by simpa using h2⟩)

/-! ## (2) fresh, distinct keys -/

/-- **(2)** The keys put by one batch are of version `v`, have indices in `[1, lastIndex]`, and are
pairwise distinct (the index counter). -/
theorem walk_keys_fresh_distinct {v : Nat} (hv : v < versionInvalid) (inh : List (Key × Nat)) (t : Tree)
    (pending : List (Option Key)) (hwf : WFRoot inh t) (hfresh : RootPosFresh t)
    (hpend : PendingGone t pending) :
    (∀ q ∈ (commitWalk v t pending).2.puts,
        q.1.1 = v ∧ 0 < q.1.2 ∧ q.1.2 ≤ (commitWalk v t pending).2.last) ∧
    ((commitWalk v t pending).2.puts.map (·.1)).Nodup :=
  let h := (commitWalk_post hv inh t pending hwf hfresh hpend).fresh
  ⟨h.2.1, h.2.2⟩

/-! ## (3) the clauses of `batchOK` -/

/-- **(3)** In the vocabulary of `PathBadger.lean` (`BatchHyp`, the propositional form of
`batchOK`), for the batch `toBatch w` produced by `commitWalk` and a new root of version `v` whose
hash is the hash of the root pointer.  DERIVED: `putver`, `nodup`, `remver`, `rootsome` (hash and
every pointer of the root node `ptrOK`), `putsok` (every pointer of every put node `ptrOK`), and of
`rootnone` the part decided by the walk (no root value written ⇒ the tree is untouched, nothing was
put, and only `RemoveNodes` entries are recorded).  NOT derived here (they speak about the database
state and about the tree operations, not about the walk): `srcfin`, `kept`, and in `rootnone`
`new.hash = old.hash`.

Hypotheses beyond (1): `InhSynced` (the in-memory view of the inherited nodes agrees with the
database: used, readable with that hash), inherited nodes and `pendingRemovedNodes` positions are of
versions `< v`. -/
theorem commitWalk_batch_clauses {v : Nat} (hv : v < versionInvalid) (inh : List (Key × Nat)) (t : Tree)
    (pending : List (Option Key)) (hwf : WFRoot inh t) (hfresh : RootPosFresh t)
    (hpend : PendingGone t pending)
    (s : PathBadger.St) (old new : Root) (hsync : InhSynced s old inh)
    (hinhv : ∀ c ∈ inh, c.1.1 < v)
    (hpendv : ∀ k ∈ removeNodes pending, isInvalid k = true ∨ k.1 < v)
    (hnv : new.ver = v) (hnh : new.hash = rootHash (commitWalk v t pending).1) :
    (∀ p ∈ (toBatch (commitWalk v t pending).2).puts, p.1.1 = new.ver) ∧
    PathBadger.nodupB ((toBatch (commitWalk v t pending).2).puts.map (·.1)) = true ∧
    (∀ k ∈ (toBatch (commitWalk v t pending).2).removed, k.1 < new.ver) ∧
    (∀ rv, (toBatch (commitWalk v t pending).2).root = some rv → rv.hash = new.hash ∧
        ∀ c ∈ rv.kids, PathBadger.ptrOK s old (toBatch (commitWalk v t pending).2) c = true) ∧
    (∀ p ∈ (toBatch (commitWalk v t pending).2).puts, ∀ c ∈ p.2.kids,
        PathBadger.ptrOK s old (toBatch (commitWalk v t pending).2) c = true) ∧
    ((toBatch (commitWalk v t pending).2).root = none →
        (commitWalk v t pending).1 = t ∧ (toBatch (commitWalk v t pending).2).puts = [] ∧
        (toBatch (commitWalk v t pending).2).removed = (removeNodes pending).filter (fun k => !isInvalid k)) := by
  have h := commitWalk_post hv inh t pending hwf hfresh hpend
  refine ⟨?_, ?_, ?_, ?_, ?_, ?_⟩
  · intro p hp; rw [hnv]; exact (h.fresh.2.1 p hp).1
  · exact (nodupB_iff _).2 h.fresh.2.2
  · intro k hk
    obtain ⟨hk1, hk2⟩ := List.mem_filter.1 hk
    have hk2 : isInvalid k = false := by simpa using hk2
    rw [hnv]
    rcases h.removed_src k hk1 with hp | ⟨_, hi | ⟨hh, hin⟩⟩
    · rcases hpendv k hp with hi | hlt
      · rw [hk2] at hi; cases hi
      · exact hlt
    · rw [hk2] at hi; cases hi
    · exact hinhv _ hin
  · intro rv hrv
    obtain ⟨⟨p, hp1, _, hp3⟩, hkids⟩ := h.rootkids rv hrv
    refine ⟨?_, fun c hc => ptrOK_of_resolves s old hsync (hkids c hc).2.2⟩
    rw [hnh, hp3]; simp [rootHash, hp1]
  · intro p hp c hc
    exact ptrOK_of_resolves s old hsync (h.putkids p hp c hc).2.2
  · intro hn
    obtain ⟨h1, h2, h3⟩ := h.rootnone hn
    exact ⟨h1, h2, by show List.filter _ _ = _; rw [h3]⟩

/-- (3), assembled: with the clauses that are not decided by the walk taken as hypotheses, the batch
satisfies `BatchHyp` — exactly what `pathbadger_readable_inv` and the other C06/C07 theorems consume
(through `batchOK_hyp`). -/
theorem commitWalk_batchHyp {v : Nat} (hv : v < versionInvalid) (inh : List (Key × Nat)) (t : Tree)
    (pending : List (Option Key)) (hwf : WFRoot inh t) (hfresh : RootPosFresh t)
    (hpend : PendingGone t pending)
    (s : PathBadger.St) (old new : Root) (hsync : InhSynced s old inh)
    (hinhv : ∀ c ∈ inh, c.1.1 < v)
    (hpendv : ∀ k ∈ removeNodes pending, isInvalid k = true ∨ k.1 < v)
    (hnv : new.ver = v) (hnh : new.hash = rootHash (commitWalk v t pending).1)
    -- not decided by the walk:
    (hsrcfin : old.hash ≠ 0 → PathBadger.finalizedGE s old.ver = true)
    (hunchanged : (commitWalk v t pending).2.root = none →
      new.hash = 0 ∨ (new.hash = old.hash ∧ (removeNodes pending).filter (fun k => !isInvalid k) = []))
    (hkept : old.hash ≠ 0 → ∀ k ∈ PathBadger.usesOf s old.ver (old.typ, old.hash),
      k ∉ (toBatch (commitWalk v t pending).2).removed →
      ∀ val, PathBadger.getNode s old k = some val →
      ∀ c ∈ val.kids, c.1 ∉ (toBatch (commitWalk v t pending).2).removed) :
    OasisProofs.PathBadgerH.BatchHyp s old new (toBatch (commitWalk v t pending).2) := by
  obtain ⟨h1, h2, h3, h4, h5, h6⟩ :=
    commitWalk_batch_clauses hv inh t pending hwf hfresh hpend s old new hsync hinhv hpendv hnv hnh
  refine ⟨hsrcfin, h1, h2, h3, h4, ?_, h5, hkept⟩
  intro hn
  obtain ⟨_, g2, g3⟩ := h6 hn
  rcases hunchanged hn with h0 | ⟨ha, hb⟩
  · exact Or.inl h0
  · exact Or.inr ⟨ha, g2, by rw [g3, hb]⟩

/-! ## (5) the long-lived tree: one commit prepares the next -/

/-- **(5)** After a commit the in-memory tree is `Settled` with respect to the nodes alive now
(`nextLive`: the inherited nodes not recorded as removed, plus the puts): everything is clean, the
root pointer carries index 0 or is unresolved, every child pointer carries a proper position of a
node alive now with the pointer's hash, every embedded leaf the invalid marker or such a position.
The tree operations then build the next tree out of pieces of this one: `Settled.wfRoot` (no edit)
and `CleanBelow.wfSub` (a clean subtree below new dirty nodes) give back the hypothesis `WFRoot` of
(1)–(3) for the next commit, i.e. (1)–(3) hold at every commit of a tree that lives across versions
as long as the edits keep `RootPosFresh` and `PendingGone`. -/
theorem commit_settles {v : Nat} (hv : v < versionInvalid) (inh : List (Key × Nat)) (t : Tree)
    (pending : List (Option Key)) (hwf : WFRoot inh t) (hfresh : RootPosFresh t)
    (hpend : PendingGone t pending) :
    Settled (nextLive inh (commitWalk v t pending).2) (commitWalk v t pending).1 := by
  have post := commitWalk_post hv inh t pending hwf hfresh hpend
  refine settled_of (walk_clean v t true {} (wfRoot_cuc hwf)) (walk_rootptr hv inh t {} hwf) ?_ ?_
  · intro p hp
    obtain ⟨k, hk, h1, h2, h3⟩ := post.childs p hp
    exact ⟨k, hk, h1, h2, resolves_live h3⟩
  · intro p hp
    obtain ⟨k, hk, h⟩ := post.embs p hp
    exact ⟨k, hk, h.imp id resolves_live⟩

/-- Two commits in a row without an edit in between: the second one finds its hypotheses, writes
nothing and changes nothing. -/
theorem commit_twice {v : Nat} (hv : v < versionInvalid) (inh : List (Key × Nat)) (t : Tree)
    (pending : List (Option Key)) (hwf : WFRoot inh t) (hfresh : RootPosFresh t)
    (hpend : PendingGone t pending) (v' : Nat) (hv' : v' < versionInvalid) :
    let c := commitWalk v t pending
    WFRoot (nextLive inh c.2) c.1 ∧ RootPosFresh c.1 ∧ PendingGone c.1 [] ∧
    ∀ p ∈ childPtrs (commitWalk v' c.1 []).1, ∃ k, p.pos = some k ∧
      (k, p.hash) ∈ nextLive (nextLive inh c.2) (commitWalk v' c.1 []).2 := by
  intro c
  have hs := (commit_settles hv inh t pending hwf hfresh hpend).wfRoot
  have hp : PendingGone c.1 [] := by intro k hk; simp [removeNodes] at hk
  exact ⟨hs.1, hs.2, hp, walk_positions_live hv' _ c.1 [] hs.1 hs.2 hp⟩

/-! ## non-vacuity: a long-lived tree in its second commit

Version 1 committed `root(-, A, B)` from scratch; then a key extending `A`'s key was inserted
(`extendLeft`): dirty root, dirty new internal node `X` with the CLEAN leaf `A` embedded (still
carrying its position (1,1)), a dirty new leaf, the clean leaf `B`. -/

def exT1 : Tree :=
  .node { clean := false, pos := none, hash := 10 } none
    (.leaf { clean := false, pos := none, hash := 11 }) (.leaf { clean := false, pos := none, hash := 12 })

def exLive1 : List (Key × Nat) := nextLive [] (commitWalk 1 exT1 []).2

def exT2 : Tree := (extendLeft 21 13 20 (commitWalk 1 exT1 []).1).1
def exPend2 : List (Option Key) := (extendLeft 21 13 20 (commitWalk 1 exT1 []).1).2

example : exLive1 = [((1, 1), 11), ((1, 2), 12)] := by decide

example : exT2 =
    .node { clean := false, pos := none, hash := 20 } none
      (.node { clean := false, pos := none, hash := 21 } (some { clean := true, pos := some (1, 1), hash := 11 })
        (.leaf { clean := false, pos := none, hash := 13 }) .nil)
      (.leaf { clean := true, pos := some (1, 2), hash := 12 }) ∧ exPend2 = [some (1, 0)] := by decide

/-- The hypotheses of (1)–(3) hold for the first commit (everything dirty) … -/
example : (1 : Nat) < versionInvalid ∧ WFRoot [] exT1 ∧ RootPosFresh exT1 ∧ PendingGone exT1 [] := by
  refine ⟨by decide, ?_, ?_, ?_⟩
  · simp [exT1, WFRoot, WFSub, WFEmb]
  · intro p hp hc; simp [exT1, Tree.ptr?] at hp; subst hp; simp at hc
  · intro k hk; simp [removeNodes] at hk

theorem exT2_wf : (2 : Nat) < versionInvalid ∧ WFRoot exLive1 exT2 ∧ RootPosFresh exT2 ∧
    PendingGone exT2 exPend2 := by
  have e2 : exT2 =
    .node { clean := false, pos := none, hash := 20 } none
      (.node { clean := false, pos := none, hash := 21 } (some { clean := true, pos := some (1, 1), hash := 11 })
        (.leaf { clean := false, pos := none, hash := 13 }) .nil)
      (.leaf { clean := true, pos := some (1, 2), hash := 12 }) := by decide
  have ep : exPend2 = [some (1, 0)] := by decide
  have el : exLive1 = [((1, 1), 11), ((1, 2), 12)] := by decide
  rw [e2, ep, el]
  refine ⟨by decide, ?_, ?_, ?_⟩
  · simp [WFRoot, WFSub, WFEmb, VisitPos]
  · intro p hp hc; simp [Tree.ptr?] at hp; subst hp; simp at hc
  · intro k hk; simp [removeNodes, isRootKey] at hk

/-- … and for the second commit of the long-lived tree; the batch it produces: the embedded leaf
keeps (1,1) and is not re-put, `X` gets (2,1) and the new leaf (2,2), nothing is removed
(`RemoveNodes` skips the old root position), the root node points to (2,1) and to the inherited
(1,2). -/
example : (commitWalk 2 exT2 exPend2).2 =
    { last := 2,
      puts := [((2, 2), ⟨13, []⟩), ((2, 1), ⟨21, [((2, 2), 13)]⟩)],
      removed := [],
      root := some ⟨20, [((2, 1), 21), ((1, 2), 12)]⟩ } := by decide

/-- The database side of the same history in the model of `PathBadger.lean`: version 1 committed
with the batch of the first walk and finalized. -/
def exS2 : PathBadger.St :=
  (PathBadger.finalize
    (PathBadger.commit PathBadger.init ⟨1, 0, 0⟩ ⟨1, 0, 10⟩ (toBatch (commitWalk 1 exT1 []).2)).2
    1 [⟨1, 0, 10⟩]).2

/-- The hypotheses of (3) hold there: the in-memory view of the inherited nodes agrees with the
database, versions are older, the new root is the root pointer's hash … -/
example : InhSynced exS2 ⟨1, 0, 10⟩ exLive1 ∧ (∀ c ∈ exLive1, c.1.1 < 2) ∧
    (∀ k ∈ removeNodes exPend2, isInvalid k = true ∨ k.1 < 2) ∧
    rootHash (commitWalk 2 exT2 exPend2).1 = 20 := by
  refine ⟨?_, by decide, by decide, by decide⟩
  have el : exLive1 = [((1, 1), 11), ((1, 2), 12)] := by decide
  rw [el]
  intro c hc
  simp only [List.mem_cons, List.not_mem_nil, or_false] at hc
  rcases hc with rfl | rfl
  · exact ⟨by decide, by decide, ⟨11, []⟩, by decide, rfl⟩
  · exact ⟨by decide, by decide, ⟨12, []⟩, by decide, rfl⟩

/-- … and, as (3) says, both batches pass the `batchOK` evaluation of `PathBadger.lean`; committing
and finalizing them, both roots read back. -/
example :
    let b1 := toBatch (commitWalk 1 exT1 []).2
    let b2 := toBatch (commitWalk 2 exT2 exPend2).2
    let s3 := (PathBadger.commit exS2 ⟨1, 0, 10⟩ ⟨2, 0, 20⟩ b2).2
    let s4 := (PathBadger.finalize s3 2 [⟨2, 0, 20⟩]).2
    PathBadger.batchOK PathBadger.init ⟨1, 0, 0⟩ ⟨1, 0, 10⟩ b1 = true ∧
    PathBadger.batchOK exS2 ⟨1, 0, 10⟩ ⟨2, 0, 20⟩ b2 = true ∧
    PathBadger.read s4 ⟨1, 0, 10⟩ = .ok ∧ PathBadger.read s4 ⟨2, 0, 20⟩ = .ok := by
  decide

/-! ## the hypotheses are needed -/

/-- `RootPosFresh` is needed for (1): a clean node that becomes the root while a pointer below it
carries the same position — the position is recorded as removed and still pointed to. -/
theorem rootPosFresh_needed :
    ∃ (inh : List (Key × Nat)) (t : Tree), WFRoot inh t ∧ PendingGone t [] ∧ ¬ RootPosFresh t ∧
      ∃ p ∈ childPtrs (commitWalk 2 t []).1, ∃ k, p.pos = some k ∧
        ¬ Resolves 2 inh (commitWalk 2 t []).2 (k, p.hash) := by
  refine ⟨[((1, 1), 5)],
    .node { clean := true, pos := some (1, 1), hash := 5 } none
      (.leaf { clean := true, pos := some (1, 1), hash := 5 }) .nil, ?_, ?_, ?_, ?_⟩
  · simp [WFRoot, VisitPos, CleanBelow, ChildPos, CleanEmb, isInvalid, isRootKey, versionInvalid]
  · intro k hk; simp [removeNodes] at hk
  · intro h
    exact h _ rfl rfl (1, 1) rfl (by decide) (by decide)
  · refine ⟨{ clean := true, pos := some (1, 1), hash := 5 }, by decide, (1, 1), rfl, ?_⟩
    unfold Resolves; decide

/-- `PendingGone` is needed for (1): a position handed to `RemoveNodes` while a clean pointer of the
tree still carries it. -/
theorem pendingGone_needed :
    ∃ (inh : List (Key × Nat)) (t : Tree) (pending : List (Option Key)),
      WFRoot inh t ∧ RootPosFresh t ∧ ¬ PendingGone t pending ∧
      ∃ p ∈ childPtrs (commitWalk 2 t pending).1, ∃ k, p.pos = some k ∧
        ¬ Resolves 2 inh (commitWalk 2 t pending).2 (k, p.hash) := by
  refine ⟨[((1, 1), 5)],
    .node { clean := false, pos := none, hash := 6 } none
      (.leaf { clean := true, pos := some (1, 1), hash := 5 }) .nil, [some (1, 1)], ?_, ?_, ?_, ?_⟩
  · simp [WFRoot, WFSub, WFEmb, VisitPos]
  · intro p hp hc; simp [Tree.ptr?] at hp; subst hp; simp at hc
  · intro h
    exact h (1, 1) (by decide) (by decide) (by decide)
  · refine ⟨{ clean := true, pos := some (1, 1), hash := 5 }, by decide, (1, 1), rfl, ?_⟩
    unfold Resolves; decide

/-- "A dirty pointer has no position" (in `WFRoot`) is needed for (2): a dirty leaf with a stale
position is put under that old key, not under a key of the batch's version. -/
theorem dirty_without_position_needed :
    ∃ t : Tree, RootPosFresh t ∧ PendingGone t [] ∧
      ¬ (∀ q ∈ (commitWalk 2 t []).2.puts, q.1.1 = 2) := by
  refine ⟨.node { clean := false, pos := none, hash := 6 } none
      (.leaf { clean := false, pos := some (1, 1), hash := 5 }) .nil, ?_, ?_, by decide⟩
  · intro p hp hc; simp [Tree.ptr?] at hp; subst hp; simp at hc
  · intro k hk; simp [removeNodes] at hk

/-! ## (4) the seeded mutation: garbage-collecting a leaf that becomes embedded

`commitWalkMut`: `VisitCleanNode` records a clean standalone leaf as removed when it is now the
embedded leaf of its parent, and leaves the in-memory position alone (it is not reset to the
invalid marker).  History on ONE in-memory tree: version 1 commits `root(-, A, B)`; version 2
inserts a key extending `A`'s key (`A` becomes embedded); version 3 removes that key again (`A` is a
node of its own again, same pointer). -/

/-- the three commits, parametrised by the commit function -/
def history (commit : Nat → Tree → List (Option Key) → Tree × Walk) :
    (Tree × Walk) × List (Key × Nat) × (Tree × Walk) :=
  let c1 := commit 1 exT1 []
  let live1 := nextLive [] c1.2
  let e2 := extendLeft 21 13 20 c1.1
  let c2 := commit 2 e2.1 e2.2
  let live2 := nextLive live1 c2.2
  let e3 := collapseLeft 10 c2.1
  let c3 := commit 3 e3.1 e3.2
  (c2, live2, c3)

instance (v : Nat) (inh : List (Key × Nat)) (w : Walk) (c : Key × Nat) : Decidable (Resolves v inh w c) := by
  unfold Resolves; infer_instance

/-- **(4)** With the mutation, the batch of version 2 records `A`'s key (1,1) as removed (so
`Finalize` of version 2 deletes it), and after the commit of version 3 the left child pointer of the
root still carries (1,1) — the root node written at version 3 points to it — although (1,1) is not
among the nodes alive after version 2 and is not put again: the conclusion of (1) fails.  On the
same history the code records nothing and every child pointer resolves. -/
theorem embedded_leaf_gc_breaks_resolution :
    -- the mutant
    (let (c2, live2, c3) := history commitWalkMut
     (1, 1) ∈ c2.2.removed ∧ ((1, 1), 11) ∉ live2 ∧
     c3.2.root = some ⟨10, [((1, 1), 11), ((1, 2), 12)]⟩ ∧
     ∃ p ∈ childPtrs c3.1, p.pos = some (1, 1) ∧ ¬ Resolves 3 live2 c3.2 ((1, 1), p.hash)) ∧
    -- the code
    (let (c2, live2, c3) := history commitWalk
     c2.2.removed = [] ∧ ((1, 1), 11) ∈ live2 ∧
     c3.2.root = some ⟨10, [((1, 1), 11), ((1, 2), 12)]⟩ ∧
     ∀ p ∈ childPtrs c3.1, ∃ k, p.pos = some k ∧ Resolves 3 live2 c3.2 (k, p.hash)) := by
  decide

/-- The three batches of a history, fed to the database model of `PathBadger.lean` (each version
committed from the previous finalized root and finalized). -/
def historyDb (commit : Nat → Tree → List (Option Key) → Tree × Walk) : PathBadger.St × Bool :=
  let c1 := commit 1 exT1 []
  let e2 := extendLeft 21 13 20 c1.1
  let c2 := commit 2 e2.1 e2.2
  let e3 := collapseLeft 10 c2.1
  let c3 := commit 3 e3.1 e3.2
  let s1 := (PathBadger.finalize (PathBadger.commit PathBadger.init ⟨1, 0, 0⟩ ⟨1, 0, 10⟩ (toBatch c1.2)).2 1 [⟨1, 0, 10⟩]).2
  let s2 := (PathBadger.finalize (PathBadger.commit s1 ⟨1, 0, 10⟩ ⟨2, 0, 20⟩ (toBatch c2.2)).2 2 [⟨2, 0, 20⟩]).2
  let s3 := (PathBadger.finalize (PathBadger.commit s2 ⟨2, 0, 20⟩ ⟨3, 0, 10⟩ (toBatch c3.2)).2 3 [⟨3, 0, 10⟩]).2
  (s3, PathBadger.batchOK s2 ⟨2, 0, 20⟩ ⟨3, 0, 10⟩ (toBatch c3.2))

/-- (4) seen from the property: with the mutation the batch of version 3 fails the `batchOK`
evaluation and the FINALIZED root of version 3 does not read back (node not found) while versions 1
and 2 still do; with the code the batch passes and all three finalized roots read back. -/
theorem embedded_leaf_gc_unreadable :
    ((historyDb commitWalkMut).2 = false ∧
     PathBadger.read (historyDb commitWalkMut).1 ⟨1, 0, 10⟩ = .ok ∧
     PathBadger.read (historyDb commitWalkMut).1 ⟨2, 0, 20⟩ = .ok ∧
     PathBadger.read (historyDb commitWalkMut).1 ⟨3, 0, 10⟩ = .notFound) ∧
    ((historyDb commitWalk).2 = true ∧
     PathBadger.read (historyDb commitWalk).1 ⟨1, 0, 10⟩ = .ok ∧
     PathBadger.read (historyDb commitWalk).1 ⟨2, 0, 20⟩ = .ok ∧
     PathBadger.read (historyDb commitWalk).1 ⟨3, 0, 10⟩ = .ok) := by
  decide

end OasisProofs.C06PathPtr
