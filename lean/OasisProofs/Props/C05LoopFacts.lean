/-
Regenerated tie of the two loops of the staking application whose writes are DEFERRED past the loop or interleaved with reads of accounts written earlier in the same loop, which the ledger model (`OasisModel/Staking/Ledger.lean`: `addRewards`, `onEpochChange`) transcribes: `AddRewards` debits a local copy of the common pool inside the loop, persists every rewarded account inside the loop and writes the common pool back once AFTER the loop (so no path may leave the loop early without that write); `onEpochChange` fetches delegator and escrow account afresh from state for every expired debonding entry.

`tools/gen stmtfacts stakingloops` flattens the functions into one line per simple statement on every run; the
lists are pinned here (`rfl`).  A change of a statement, a condition or of the order of statements
breaks the pin until the new text has been read against the model.
-/
import Generated.StmtFactsStakingloops

namespace OasisProofs.C05LoopFacts

/-- Position of the first line equal to `s`. -/
def pos (l : List String) (s : String) : Option Nat :=
  let i := l.findIdx (· == s)
  if i < l.length then some i else none

/-- The lines occur in this order (strictly increasing positions). -/
def inOrder (l : List String) : List String → Option Nat → Bool
  | [], _ => true
  | s :: rest, prev =>
    match pos l s, prev with
    | none, _ => false
    | some i, none => inOrder l rest (some i)
    | some i, some p => decide (p < i) && inOrder l rest (some i)

def expected_addRewardsStmts : List String := [
  "steps, err := s.RewardSchedule(ctx)",
  "if err != nil {",
  "return err",
  "}",
  "var activeStep *staking.RewardStep",
  "for i, step := range steps {",
  "if time < step.Until {",
  "activeStep = &steps[i]",
  "break",
  "}",
  "}",
  "if activeStep == nil {",
  "return nil",
  "}",
  "commonPool, err := s.CommonPool(ctx)",
  "if err != nil {",
  "return fmt.Errorf(\"cometbft/staking: loading common pool: %w\", err)",
  "}",
  "for _, addr := range addresses {",
  "var ent *staking.Account",
  "ent, err = s.Account(ctx, addr)",
  "if err != nil {",
  "return fmt.Errorf(\"cometbft/staking: failed to fetch account %s: %w\", addr, err)",
  "}",
  "q := ent.Escrow.Active.Balance.Clone()",
  "if err = q.Mul(factor); err != nil {",
  "return fmt.Errorf(\"cometbft/staking: failed multiplying by reward factor: %w\", err)",
  "}",
  "if err = q.Mul(&activeStep.Scale); err != nil {",
  "return fmt.Errorf(\"cometbft/staking: failed multiplying by reward step scale: %w\", err)",
  "}",
  "if err = q.Quo(staking.RewardAmountDenominator); err != nil {",
  "return fmt.Errorf(\"cometbft/staking: failed dividing by reward amount denominator: %w\", err)",
  "}",
  "if q.IsZero() {",
  "continue",
  "}",
  "if q.Cmp(commonPool) == 1 {",
  "continue",
  "}",
  "rate := ent.Escrow.CommissionSchedule.CurrentRate(time)",
  "var com *quantity.Quantity",
  "com, q, err = s.computeCommission(ctx, rate, q)",
  "if err != nil {",
  "return err",
  "}",
  "if !q.IsZero() {",
  "if err = quantity.Move(&ent.Escrow.Active.Balance, commonPool, q); err != nil {",
  "return fmt.Errorf(\"cometbft/staking: failed transferring to active escrow balance from common pool: %w\", err)",
  "}",
  "ctx.EmitEvent(abciAPI.NewEventBuilder(AppName).TypedAttribute(&staking.AddEscrowEvent{ Owner: staking.CommonPoolAddress, Escrow: addr, Amount: *q, NewShares: quantity.Quantity{}, }))",
  "}",
  "if com != nil && !com.IsZero() {",
  "var delegation *staking.Delegation",
  "delegation, err = s.Delegation(ctx, addr, addr)",
  "if err != nil {",
  "return fmt.Errorf(\"cometbft/staking: failed to query delegation: %w\", err)",
  "}",
  "var obtainedShares *quantity.Quantity",
  "obtainedShares, err = ent.Escrow.Active.Deposit(&delegation.Shares, commonPool, com)",
  "if err != nil {",
  "return fmt.Errorf(\"cometbft/staking: depositing commission: %w\", err)",
  "}",
  "if err = s.SetDelegation(ctx, addr, addr, delegation); err != nil {",
  "return fmt.Errorf(\"cometbft/staking: failed to set delegation: %w\", err)",
  "}",
  "ctx.EmitEvent(abciAPI.NewEventBuilder(AppName).TypedAttribute(&staking.TransferEvent{ From: staking.CommonPoolAddress, To: addr, Amount: *com, }))",
  "ctx.EmitEvent(abciAPI.NewEventBuilder(AppName).TypedAttribute(&staking.AddEscrowEvent{ Owner: addr, Escrow: addr, Amount: *com, NewShares: *obtainedShares, }))",
  "}",
  "if err = s.SetAccount(ctx, addr, ent); err != nil {",
  "return fmt.Errorf(\"cometbft/staking: failed to set account: %w\", err)",
  "}",
  "}",
  "if err = s.SetCommonPool(ctx, commonPool); err != nil {",
  "return fmt.Errorf(\"cometbft/staking: failed to set common pool: %w\", err)",
  "}",
  "return nil"]

theorem addRewardsStmts_as_modelled : Generated.StmtFacts.Stakingloops.addRewardsStmts = expected_addRewardsStmts := rfl

def expected_onEpochChangeStmts : List String := [
  "state := stakingState.NewMutableState(ctx.State())",
  "expiredDebondingQueue, err := state.ExpiredDebondingQueue(ctx, epoch)",
  "if err != nil {",
  "return fmt.Errorf(\"failed to query expired debonding queue: %w\", err)",
  "}",
  "for _, e := range expiredDebondingQueue {",
  "deb := e.Delegation",
  "shareAmount := deb.Shares.Clone()",
  "delegator, err := state.Account(ctx, e.DelegatorAddr)",
  "if err != nil {",
  "return fmt.Errorf(\"failed to query delegator account: %w\", err)",
  "}",
  "var escrow *staking.Account",
  "if e.DelegatorAddr.Equal(e.EscrowAddr) {",
  "escrow = delegator",
  "}",
  "else {",
  "escrow, err = state.Account(ctx, e.EscrowAddr)",
  "if err != nil {",
  "return fmt.Errorf(\"failed to query escrow account: %w\", err)",
  "}",
  "}",
  "var baseUnits quantity.Quantity",
  "if err = escrow.Escrow.Debonding.Withdraw(&baseUnits, &deb.Shares, shareAmount); err != nil {",
  "ctx.Logger().Error(\"failed to redeem debonding shares\", \"err\", err, \"escrow_addr\", e.EscrowAddr, \"delegator_addr\", e.DelegatorAddr, \"shares\", deb.Shares, )",
  "return fmt.Errorf(\"cometbft/staking: failed to redeem debonding shares: %w\", err)",
  "}",
  "stakeAmount := baseUnits.Clone()",
  "if err = quantity.Move(&delegator.General.Balance, &baseUnits, stakeAmount); err != nil {",
  "ctx.Logger().Error(\"failed to move debonded stake\", \"err\", err, \"escrow_addr\", e.EscrowAddr, \"delegator_addr\", e.DelegatorAddr, \"shares\", deb.Shares, \"base_units\", stakeAmount, )",
  "return fmt.Errorf(\"cometbft/staking: failed to redeem debonding shares: %w\", err)",
  "}",
  "if err = state.RemoveFromDebondingQueue(ctx, e.Epoch, e.DelegatorAddr, e.EscrowAddr); err != nil {",
  "return fmt.Errorf(\"failed to remove from debonding queue: %w\", err)",
  "}",
  "if err = state.SetDebondingDelegation(ctx, e.DelegatorAddr, e.EscrowAddr, e.Delegation.DebondEndTime, nil); err != nil {",
  "return fmt.Errorf(\"failed to set debonding delegation: %w\", err)",
  "}",
  "if err = state.SetAccount(ctx, e.DelegatorAddr, delegator); err != nil {",
  "return fmt.Errorf(\"failed to set delegator (%s) account: %w\", e.DelegatorAddr, err)",
  "}",
  "if !e.DelegatorAddr.Equal(e.EscrowAddr) {",
  "if err = state.SetAccount(ctx, e.EscrowAddr, escrow); err != nil {",
  "return fmt.Errorf(\"failed to set escrow (%s) account: %w\", e.EscrowAddr, err)",
  "}",
  "}",
  "ctx.Logger().Debug(\"released stake\", \"escrow_addr\", e.EscrowAddr, \"delegator_addr\", e.DelegatorAddr, \"base_units\", stakeAmount, \"num_shares\", shareAmount, )",
  "ctx.EmitEvent(api.NewEventBuilder(app.Name()).TypedAttribute(&staking.ReclaimEscrowEvent{ Owner: e.DelegatorAddr, Escrow: e.EscrowAddr, Amount: *stakeAmount, Shares: *shareAmount, }))",
  "}",
  "if err := app.rewardEpochSigning(ctx, epoch); err != nil {",
  "ctx.Logger().Error(\"failed to add signing rewards\", \"err\", err, )",
  "return fmt.Errorf(\"cometbft/staking: failed to add signing rewards: %w\", err)",
  "}",
  "return nil"]

theorem onEpochChangeStmts_as_modelled : Generated.StmtFacts.Stakingloops.onEpochChangeStmts = expected_onEpochChangeStmts := rfl

theorem addRewards_writes_common_pool_after_the_loop :
    inOrder expected_addRewardsStmts ["for _, addr := range addresses {", "if err = s.SetCommonPool(ctx, commonPool); err != nil {"] none = true := by decide +kernel

end OasisProofs.C05LoopFacts
