import OasisModel.NodeDB.Crash
import OasisModel.NodeDB.PathCrash
import OasisProofs.Props.C06
/-
C07 — the node database survives a crash at any point of a write operation (PARTIAL).

Theorems about the write-ordering model `OasisModel.NodeDB.Crash` of the badger backend: every
operation is a plan of atomic durable steps in the code's order (data batch flush at the version
timestamp, then the metadata commit; for a checkpoint restore additionally the journal flush before
and the journal deletion / multipart flag after), a crash is a prefix of the plan.

  * `plan_complete`            the full plan is the uninterrupted operation
  * `crash_keeps_earlier_versions`  whatever prefix is on disk, reads at every earlier version are
                               unchanged (all data writes carry the operation's own timestamp)
  * `crash_observers_atomic`   before the last step HasRoot / GetRootsForVersion / latest /
                               earliest are those of the old state: observably old or new, never
                               a mixture
  * `retry_completes_commit`, `retry_completes_finalize`   after a crash before the metadata
                               commit the retried operation has the same plan and ends in a state
                               that reads exactly like the uninterrupted one
  * `no_partial_checkpoint_visible`  a restore interrupted before its Finalize's metadata commit
                               leaves the last finalized version untouched and, after reopen, no
                               restore in progress and an empty journal
  * `retry_completes_prune`    the same for Prune (true since the repair of badger.go: a retried
                               Prune skips lone roots whose root-node key is already gone)
and a machine-checked COUNTEREXAMPLE, reproduced by the real backend (corpus/C07):
  * `restore_crash_after_finalize_destroys_finalized_version`  a crash between the Finalize of a
                               restore and the deletion of the journal makes reopen delete the
                               nodes of the version that is already finalized.
Partial: atomicity of one flush / CommitAt, Badger's own recovery and the OS are trusted, not
modelled; pathbadger has no write-ordering model (its boundary order is only recorded as a table
and checked by crashdrv).
-/
namespace OasisProofs.C07
open OasisModel.NodeDB OasisModel.NodeDB.Badger OasisModel.NodeDB.Crash OasisProofs.C06

/-! ### the full plan is the operation -/

theorem bcommit_ok_inv2 {s s' : St} {o n : Root} {a r : List Nat} (h : Badger.commit s o n a r = .ok s') :
    commitErr s o n = none ∧
    s' = (if hasKey (s.rmeta n.ver) (n.typ, n.hash) then s else commitSt s o n a r) := by
  unfold Badger.commit at h
  split at h
  · simp at h
  · rename_i he; exact ⟨he, (Except.ok.inj h).symm⟩

theorem plan_complete (cl clv : Nat → List Nat) (s s' : St) (op : Op) (mv : Nat) (ml : List (Nat × Bool))
    (h : run cl clv s op = .ok s') :
    (applyAll ⟨s, mv, ml⟩ (plan cl clv s op)).b = s' := by
  cases op with
  | commit o n a r =>
    obtain ⟨he, hs'⟩ := bcommit_ok_inv2 h
    subst hs'
    by_cases hk : hasKey (s.rmeta n.ver) (n.typ, n.hash) = true
    · simp [plan, noop, he, hk, applyAll]
    · simp only [plan, noop, he, hk, Option.isSome_none, Bool.or_self, Bool.false_eq_true, if_false]
      rfl
  | finalize v ch =>
    obtain ⟨he, hs'⟩ := bfinalize_ok_inv h
    subst hs'
    simp only [plan, noop, he, Option.isSome_none, Bool.false_eq_true, if_false]
    rfl
  | prune v =>
    obtain ⟨he, hs'⟩ := bprune_ok_inv h
    subst hs'
    simp only [plan, noop, he, Option.isSome_none, Bool.false_eq_true, if_false]
    rfl

/-! ### crash = prefix: earlier versions are untouched -/

/-- Every data flush of the list carries timestamp `w`. -/
def AllAt (w : Nat) (l : List Durable) : Prop :=
  ∀ d ∈ l, match d with
    | .dataFlush _ ts _ _ _ _ => ts = w
    | _ => True

theorem applyAll_frame (w : Nat) (l : List Durable) (p : PSt) (hl : AllAt w l) (k t : Nat) (ht : t < w) :
    (applyAll p l).b.node.get k t = p.b.node.get k t ∧
    (applyAll p l).b.rootNode.get k t = p.b.rootNode.get k t := by
  induction l generalizing p with
  | nil => exact ⟨rfl, rfl⟩
  | cons d rest ih =>
    have hrest : AllAt w rest := fun x hx => hl x (List.mem_cons_of_mem _ hx)
    have hd := hl d (by simp)
    simp only [applyAll, List.foldl] at ih ⊢
    obtain ⟨i1, i2⟩ := ih (applyStep p d) hrest
    rw [i1, i2]
    cases d with
    | dataFlush nm ts nodes nl roots rl =>
      simp only at hd
      subst hd
      exact ⟨get_writeAll_lt _ _ _ _ _ _ ht, get_writeAll_lt _ _ _ _ _ _ ht⟩
    | metaCommit nm rm up la ea => exact ⟨rfl, rfl⟩
    | logFlush nm es => exact ⟨rfl, rfl⟩
    | logClear nm => exact ⟨rfl, rfl⟩
    | mpSet nm v => exact ⟨rfl, rfl⟩

theorem plan_allAt (cl clv : Nat → List Nat) (s : St) (op : Op) : AllAt op.version (plan cl clv s op) := by
  intro d hd
  unfold plan at hd
  split at hd
  · simp at hd
  · cases op <;> simp at hd <;> rcases hd with rfl | rfl <;> simp [Op.version]

theorem allAt_take (w k : Nat) (l : List Durable) (h : AllAt w l) : AllAt w (l.take k) :=
  fun d hd => h d (List.mem_of_mem_take hd)

/-- **Whatever prefix of an operation's writes reached the disk, a reader of any earlier version
sees exactly what it saw before** — in particular every version finalized before a Commit or
Finalize of version `w` is intact after the crash. -/
theorem crash_keeps_earlier_versions (cl clv : Nat → List Nat) (p : PSt) (op : Op) (k key t : Nat)
    (ht : t < op.version) :
    (applyPrefix k p (plan cl clv p.b op)).b.node.get key t = p.b.node.get key t ∧
    (applyPrefix k p (plan cl clv p.b op)).b.rootNode.get key t = p.b.rootNode.get key t :=
  applyAll_frame op.version _ p (allAt_take _ k _ (plan_allAt cl clv p.b op)) key t ht

/-- Hence the readability of every root of an earlier version is unchanged by the crash. -/
theorem crash_keeps_earlier_roots_readable (cl clv cl' : Nat → List Nat) (p : PSt) (op : Op) (k : Nat)
    (r : Root) (hr : r.ver < op.version)
    (he : (applyPrefix k p (plan cl clv p.b op)).b.earliest = p.b.earliest) :
    readable cl' (applyPrefix k p (plan cl clv p.b op)).b r = readable cl' p.b r :=
  readable_congr cl' _ _ r he
    (fun key => (crash_keeps_earlier_versions cl clv p op k key r.ver hr).1)
    (fun key => (crash_keeps_earlier_versions cl clv p op k key r.ver hr).2)

/-! ### observably old or new -/

theorem plan_length (cl clv : Nat → List Nat) (s : St) (op : Op) :
    plan cl clv s op = [] ∨ ∃ d m, plan cl clv s op = [d, m] ∧
      (match d with | .dataFlush .. => True | _ => False) := by
  unfold plan
  split
  · exact Or.inl rfl
  · cases op <;> exact Or.inr ⟨_, _, rfl, trivial⟩

/-- **Before the last durable step nothing an observer of the metadata can see has changed**:
rootsMetadata (HasRoot, GetRootsForVersion), the updated-nodes index, the last finalized and the
earliest version are those of the old state; after the last step the state is the new one
(`plan_complete`). -/
theorem crash_observers_atomic (cl clv : Nat → List Nat) (p : PSt) (op : Op) (k : Nat)
    (hk : k < (plan cl clv p.b op).length) :
    let q := applyPrefix k p (plan cl clv p.b op)
    q.b.rmetaL = p.b.rmetaL ∧ q.b.updL = p.b.updL ∧ q.b.last = p.b.last ∧ q.b.earliest = p.b.earliest ∧
    q.mpVersion = p.mpVersion ∧ q.mpLog = p.mpLog := by
  rcases plan_length cl clv p.b op with h | ⟨d, m, h, hd⟩
  · rw [h] at hk; simp at hk
  · rw [h] at hk ⊢
    simp only [List.length_cons, List.length_nil] at hk
    have : k = 0 ∨ k = 1 := by omega
    rcases this with rfl | rfl
    · simp [applyPrefix, applyAll]
    · cases d with
      | dataFlush nm ts nodes nl roots rl => simp [applyPrefix, applyAll, applyStep]
      | metaCommit nm rm up la ea => exact absurd hd (by simp)
      | logFlush nm es => exact absurd hd (by simp)
      | logClear nm => exact absurd hd (by simp)
      | mpSet nm v => exact absurd hd (by simp)

/-! ### retry -/

/-- Whether an operation is refused, and what a Commit / Finalize writes, depends only on the
metadata, not on the data keys a crashed first attempt already flushed. -/
theorem noop_data_indep (cl clv : Nat → List Nat) (s : St) (N R : MV) (op : Op)
    (hop : ∀ v, op ≠ .prune v) :
    noop cl clv { s with node := N, rootNode := R } op = noop cl clv s op := by
  cases op with
  | commit o n a r => rfl
  | finalize v ch => rfl
  | prune v => exact absurd rfl (hop v)

/-- **retry_completes (Commit).** After a crash between the data flush and the metadata commit
of a Commit, the retried Commit has the same plan, and after it every read (any key, any
timestamp) and every metadata observer agrees with the uninterrupted Commit. -/
theorem retry_completes_commit (cl clv : Nat → List Nat) (p : PSt) (o n : Root) (a r : List Nat) :
    let op := Op.commit o n a r
    let q := applyPrefix 1 p (plan cl clv p.b op)
    plan cl clv q.b op = plan cl clv p.b op ∧
    let fin := applyAll q (plan cl clv q.b op)
    let ref := applyAll p (plan cl clv p.b op)
    fin.b.rmetaL = ref.b.rmetaL ∧ fin.b.updL = ref.b.updL ∧ fin.b.last = ref.b.last ∧
    fin.b.earliest = ref.b.earliest ∧
    (∀ k t, fin.b.node.get k t = ref.b.node.get k t) ∧
    (∀ k t, fin.b.rootNode.get k t = ref.b.rootNode.get k t) := by
  simp only
  by_cases hn : noop cl clv p.b (.commit o n a r) = true
  · simp [plan, hn, applyPrefix, applyAll]
  · have hplan : plan cl clv p.b (.commit o n a r) =
        [ .dataFlush "badger.commit.2-after-batch-flush" n.ver a true [encTH (n.typ, n.hash)] true,
          .metaCommit "badger.commit.3-after-meta-commit" (commitSt p.b o n a r).rmetaL
            (commitSt p.b o n a r).updL (commitSt p.b o n a r).last (commitSt p.b o n a r).earliest ] := by
      simp [plan, hn]
    have hq : plan cl clv (applyPrefix 1 p (plan cl clv p.b (.commit o n a r))).b (.commit o n a r) =
        plan cl clv p.b (.commit o n a r) := by
      rw [hplan]
      simp only [applyPrefix, List.take, applyAll, List.foldl, applyStep]
      unfold plan
      rw [noop_data_indep cl clv p.b _ _ _ (by intro v h; cases h)]
      simp only [hn]
      rfl
    refine ⟨hq, ?_⟩
    rw [hq, hplan]
    simp only [applyPrefix, List.take, applyAll, List.foldl, applyStep]
    and_intros
    all_goals first
      | trivial
      | rfl
      | (intro k t; exact get_writeAll_idem _ _ _ _ _ _)

/-- **retry_completes (Finalize).** The same for Finalize: the lone-node set is recomputed from
metadata the crash did not touch, so the retry deletes the same nodes and then commits the same
metadata ("in case finalization is interrupted, we can recover by simply redoing finalization"). -/
theorem retry_completes_finalize (cl clv : Nat → List Nat) (p : PSt) (v : Nat) (ch : List Root) :
    let op := Op.finalize v ch
    let q := applyPrefix 1 p (plan cl clv p.b op)
    plan cl clv q.b op = plan cl clv p.b op ∧
    let fin := applyAll q (plan cl clv q.b op)
    let ref := applyAll p (plan cl clv p.b op)
    fin.b.rmetaL = ref.b.rmetaL ∧ fin.b.updL = ref.b.updL ∧ fin.b.last = ref.b.last ∧
    fin.b.earliest = ref.b.earliest ∧
    (∀ k t, fin.b.node.get k t = ref.b.node.get k t) ∧
    (∀ k t, fin.b.rootNode.get k t = ref.b.rootNode.get k t) := by
  simp only
  by_cases hn : noop cl clv p.b (.finalize v ch) = true
  · simp [plan, hn, applyPrefix, applyAll]
  · have hplan : plan cl clv p.b (.finalize v ch) =
        [ .dataFlush "badger.finalize.1-after-batch-flush" v (finPlan p.b v (chosenTH ch)).dels false [] false,
          .metaCommit "badger.finalize.2-after-meta-commit" (finalizeSt p.b v ch).rmetaL
            (finalizeSt p.b v ch).updL (finalizeSt p.b v ch).last (finalizeSt p.b v ch).earliest ] := by
      simp [plan, hn]
    have hq : plan cl clv (applyPrefix 1 p (plan cl clv p.b (.finalize v ch))).b (.finalize v ch) =
        plan cl clv p.b (.finalize v ch) := by
      rw [hplan]
      simp only [applyPrefix, List.take, applyAll, List.foldl, applyStep]
      unfold plan
      rw [noop_data_indep cl clv p.b _ _ _ (by intro v h; cases h)]
      simp only [hn]
      rfl
    refine ⟨hq, ?_⟩
    rw [hq, hplan]
    simp only [applyPrefix, List.take, applyAll, List.foldl, applyStep]
    and_intros
    all_goals first
      | trivial
      | rfl
      | (intro k t; exact get_writeAll_idem _ _ _ _ _ _)

/-- The on-disk state after the data flush of `Prune(v)`. -/
def flushedPrune (clv : Nat → List Nat) (s : St) (v : Nat) : St :=
  { s with node := s.node.writeAll (pruneDels clv s v) v false, rootNode := s.rootNode.writeAll ((loneRoots s v).map (fun e => encTH e.1)) v false }

/-- After the data flush of a Prune every lone root's root-node key is tombstoned at the pruned
version, so a retried Prune traverses nothing. -/
theorem visitedRoots_after_flush (clv : Nat → List Nat) (s : St) (v : Nat) :
    visitedRoots (flushedPrune clv s v) v = [] := by
  unfold visitedRoots
  rw [List.filter_eq_nil_iff]
  intro e he
  have hl : loneRoots (flushedPrune clv s v) v = loneRoots s v := rfl
  rw [hl] at he
  have hm : encTH e.1 ∈ (loneRoots s v).map (fun e => encTH e.1) := List.mem_map.2 ⟨e, he, rfl⟩
  have : (flushedPrune clv s v).rootNode.live (encTH e.1) v = false := by
    show (s.rootNode.writeAll ((loneRoots s v).map (fun e => encTH e.1)) v false).live (encTH e.1) v = false
    rw [live_writeAll_false_at]; simp [hm]
  simp [this]

/-- **retry_completes (Prune).** After a crash between the data flush and the metadata commit of
a Prune, the retried Prune is accepted (it finds the root-node keys of the lone roots already
gone and traverses nothing), and after it every read and every metadata observer agrees with the
uninterrupted Prune. (Before the repair of `badger.go` the retry failed in `checkRoot` for good.) -/
theorem retry_completes_prune (cl clv : Nat → List Nat) (p : PSt) (v : Nat)
    (hn : noop cl clv p.b (.prune v) = false) :
    let op := Op.prune v
    let q := applyPrefix 1 p (plan cl clv p.b op)
    noop cl clv q.b op = false ∧
    let fin := applyAll q (plan cl clv q.b op)
    let ref := applyAll p (plan cl clv p.b op)
    fin.b.rmetaL = ref.b.rmetaL ∧ fin.b.updL = ref.b.updL ∧ fin.b.last = ref.b.last ∧
    fin.b.earliest = ref.b.earliest ∧
    (∀ k t, fin.b.node.get k t = ref.b.node.get k t) ∧
    (∀ k t, fin.b.rootNode.get k t = ref.b.rootNode.get k t) := by
  have hplan : plan cl clv p.b (.prune v) =
      [ .dataFlush "badger.prune.1-after-batch-flush" v (pruneDels clv p.b v) false
          ((loneRoots p.b v).map (fun e => encTH e.1)) false,
        .metaCommit "badger.prune.2-after-meta-commit" (pruneSt clv p.b v).rmetaL (pruneSt clv p.b v).updL
          (pruneSt clv p.b v).last (pruneSt clv p.b v).earliest ] := by
    simp [plan, hn]
  have he : pruneErr cl clv p.b v = none := by
    simp only [noop] at hn
    cases h : pruneErr cl clv p.b v with
    | none => rfl
    | some e => rw [h] at hn; simp at hn
  obtain ⟨⟨l, hl, hlt⟩, hearl, _⟩ := bpruneErr_none he
  have hqb : applyPrefix 1 p (plan cl clv p.b (.prune v)) = ⟨flushedPrune clv p.b v, p.mpVersion, p.mpLog⟩ := by
    rw [hplan]; rfl
  have hvr := visitedRoots_after_flush clv p.b v
  have hvf : visitFails cl clv (flushedPrune clv p.b v) v = false := by
    unfold visitFails; rw [hvr]; rfl
  have herr : pruneErr cl clv (flushedPrune clv p.b v) v = none := by
    unfold pruneErr
    have e1 : (flushedPrune clv p.b v).last = some l := hl
    have e2 : (flushedPrune clv p.b v).earliest = p.b.earliest := rfl
    have h1 : ¬ l < v := by omega
    have h2 : (v != p.b.earliest) = false := by simp [hearl]
    have h3 : (v == l) = false := by simp; omega
    simp only [e1, e2, h1, h2, h3, hvf, if_false, Bool.false_eq_true]
  have hnoop : noop cl clv (flushedPrune clv p.b v) (.prune v) = false := by
    simp [noop, herr]
  have hdels : pruneDels clv (flushedPrune clv p.b v) v = [] := by
    unfold pruneDels; rw [hvr]; rfl
  have hplanF : plan cl clv (flushedPrune clv p.b v) (.prune v) =
      [ .dataFlush "badger.prune.1-after-batch-flush" v [] false
          ((loneRoots p.b v).map (fun e => encTH e.1)) false,
        .metaCommit "badger.prune.2-after-meta-commit" (pruneSt clv p.b v).rmetaL (pruneSt clv p.b v).updL
          (pruneSt clv p.b v).last (pruneSt clv p.b v).earliest ] := by
    unfold plan
    rw [hnoop]
    simp only [Bool.false_eq_true, if_false]
    rw [hdels]
    rfl
  simp only
  rw [hqb]
  refine ⟨hnoop, ?_⟩
  simp only
  rw [hplanF, hplan]
  simp only [applyAll, List.foldl, applyStep]
  and_intros
  all_goals first
    | trivial
    | rfl
    | (intro k t; rfl)
    | (intro k t; exact get_writeAll_idem _ _ _ _ _ _)

/-- The retry on the history of `C06.prune_can_destroy_later_finalized_root` (a lone io root with
a non-empty tree in the pruned version): non-vacuity of `retry_completes_prune`, and the state in
between — the version is still listed, its lone root is already unreadable (still a finding: the
version being pruned is half deleted until the retry). -/
theorem prune_crash_retryable_example :
    let p : PSt := ⟨cexBeforePrune, 0, []⟩
    let q := applyPrefix 1 p (plan cexCl2 cexCl2 p.b (.prune 1))
    noop cexCl2 cexCl2 p.b (.prune 1) = false ∧
    q.b.earliest = 1 ∧ hasRoot q.b ⟨1, 1, 20⟩ = true ∧ readable cexCl2 q.b ⟨1, 1, 20⟩ = false ∧
    isOk (Badger.prune cexCl2 cexCl2 q.b 1) = true ∧
    (okOr (Badger.prune cexCl2 cexCl2 q.b 1) Badger.init).earliest = 2 := by
  decide

/-! ### checkpoint restore -/

theorem recover_clean (p : PSt) : (recover p).mpVersion = 0 ∧ (recover p).b.last = p.b.last ∧
    (recover p).b.rmetaL = p.b.rmetaL ∧ (p.mpVersion ≠ 0 → (recover p).mpLog = []) := by
  unfold recover
  split
  · rename_i h; exact ⟨h, rfl, rfl, fun hc => absurd h hc⟩
  · exact ⟨rfl, rfl, rfl, fun _ => rfl⟩

/-- No metadata commit of the list changes the last finalized version. -/
def KeepsLast (l : Option Nat) (steps : List Durable) : Prop :=
  ∀ d ∈ steps, match d with
    | .metaCommit _ _ _ la _ => la = l
    | _ => True

theorem applyAll_last (steps : List Durable) (p : PSt) (h : KeepsLast p.b.last steps) :
    (applyAll p steps).b.last = p.b.last := by
  induction steps generalizing p with
  | nil => rfl
  | cons d rest ih =>
    have hd := h d (by simp)
    simp only [applyAll, List.foldl] at ih ⊢
    have hl : (applyStep p d).b.last = p.b.last := by
      cases d with
      | metaCommit nm rm up la ea => simp only at hd; simp [applyStep, hd]
      | dataFlush nm ts nodes nl roots rl => rfl
      | logFlush nm es => rfl
      | logClear nm => rfl
      | mpSet nm v => rfl
    rw [ih (applyStep p d) (by rw [hl]; exact fun x hx => h x (List.mem_cons_of_mem _ hx)), hl]

/-- **no_partial_checkpoint_visible.** Whatever part of a checkpoint restore (multipart flag,
journal flushes, chunk data, chunk metadata, even the Finalize's data flush) is on disk — as long as
the Finalize's metadata commit is not — after reopen the last finalized version is the old one,
no restore is in progress and, if one was, its journal is gone: nothing of the partial restore is
visible as finalized. -/
theorem no_partial_checkpoint_visible (p : PSt) (steps : List Durable) (h : KeepsLast p.b.last steps) :
    (recover (applyAll p steps)).b.last = p.b.last ∧ (recover (applyAll p steps)).mpVersion = 0 ∧
    ((applyAll p steps).mpVersion ≠ 0 → (recover (applyAll p steps)).mpLog = []) := by
  obtain ⟨h1, h2, _, h4⟩ := recover_clean (applyAll p steps)
  exact ⟨by rw [h2, applyAll_last steps p h], h1, h4⟩

/-- The steps of a restore before its Finalize commits satisfy the hypothesis. -/
theorem restore_steps_keep_last (s : St) (v : Nat) (new : Root) (added fresh : List Nat) :
    KeepsLast s.last (planStartMp v ++ planChunk s new added fresh) := by
  intro d hd
  simp only [planStartMp, planChunk, List.mem_append, List.mem_cons, List.mem_singleton,
    List.not_mem_nil, or_false] at hd
  rcases hd with rfl | rfl | rfl | rfl <;> simp

/-- A restore of version 2 into an empty database: one chunk with root 10 and leaves 1, 2. -/
def cexRestore : List Durable :=
  let s0 := Badger.init
  let new : Root := ⟨2, 0, 10⟩
  let c := planChunk s0 new [1, 2, 10] [1, 2, 10]
  let s1 := (applyAll ⟨s0, 0, []⟩ (planStartMp 2 ++ c)).b
  planStartMp 2 ++ c ++ planFinalizeMp cexCl cexCl s1 2 [new]

/-- **A crash between the Finalize of a restore and the deletion of its journal destroys the
restored, already finalized version** (counterexample): the first 6 durable steps (flag, journal,
data, chunk metadata, Finalize data flush, Finalize metadata commit) are on disk; reopening finds
the multipart flag still set and deletes every journalled node at the version's timestamp. The
complete restore is fine. -/
theorem restore_crash_after_finalize_destroys_finalized_version :
    let p0 : PSt := ⟨Badger.init, 0, []⟩
    let full := recover (applyAll p0 cexRestore)
    let crashed := recover (applyPrefix 6 p0 cexRestore)
    cexRestore.length = 8 ∧
    full.b.last = some 2 ∧ readable cexCl full.b ⟨2, 0, 10⟩ = true ∧
    crashed.b.last = some 2 ∧ hasRoot crashed.b ⟨2, 0, 10⟩ = true ∧
    readable cexCl crashed.b ⟨2, 0, 10⟩ = false := by
  decide

/-! ### the boundary names crashdrv compares with -/

/-- The names of the durable steps of a plan are the hook names after the "before writes" marker. -/
theorem plan_names (cl clv : Nat → List Nat) (s : St) (op : Op) :
    (plan cl clv s op).map Durable.name =
      (badgerNames (match op with | .commit .. => "commit" | .finalize .. => "finalize" | .prune _ => "prune")
        (noop cl clv s op)).drop 1 := by
  unfold plan
  split
  · rename_i h; simp [badgerNames, h]
  · rename_i h
    cases op <;> simp [badgerNames, h, Durable.name]

/-! ## pathbadger: write plans, crash prefixes, the lost repeated restore -/
section PathBadgerCrash
open PathBadger PathCrash OasisProofs.PathBadgerH

/-- The full plan of a pathbadger Commit / Finalize / Prune is the uninterrupted operation (the
ghost key set aside). -/
theorem path_plan_complete_commit (s : PathBadger.St) (old new : Root) (b : PathBadger.Batch) :
    PathCrash.applyAll s (planCommit s old new b) = { PathBadger.commitSt s old new b with uses := s.uses } := by
  unfold planCommit PathCrash.applyAll PathBadger.commitSt
  by_cases h0 : (nextSeqOf s new.ver old.typ == 0) = true
  · simp [List.foldl, PathCrash.applyStep, h0]
  · simp [List.foldl, PathCrash.applyStep, h0, finWriteAll]

theorem path_plan_complete_finalize (s : PathBadger.St) (v : Nat) (ch : List Root) :
    PathCrash.applyAll s (planFinalize s v ch) = PathBadger.finalizeSt s v ch := by
  unfold planFinalize PathCrash.applyAll PathBadger.finalizeSt
  simp [List.foldl, PathCrash.applyStep]

theorem path_plan_complete_prune (s : PathBadger.St) (v : Nat) :
    PathCrash.applyAll s (planPrune s v) = PathBadger.pruneSt s v := by
  unfold planPrune PathCrash.applyAll PathBadger.pruneSt
  simp [List.foldl, PathCrash.applyStep]

/-- The hook names crashdrv must record for a pathbadger operation (`Crash.pathbadgerNames`) are the
names of the durable steps of its plan, in order, with the `0-before-writes` markers (which are
not durable steps) in front of `NewBatch`'s and `Commit`'s / the operation's first write. -/
theorem path_plan_names (s : PathBadger.St) (old new : Root) (b : PathBadger.Batch) (v : Nat) (ch : List Root) :
    Crash.pathbadgerNames "commit" "ok" false =
      ["pathbadger.newbatch.0-before-writes"] ++ ((planCommit s old new b).map PathCrash.Durable.name).take 1 ++
      ["pathbadger.commit.0-before-writes"] ++ ((planCommit s old new b).map PathCrash.Durable.name).drop 1 ∧
    Crash.pathbadgerNames "finalize" "ok" false =
      "pathbadger.finalize.0-before-writes" :: (planFinalize s v ch).map PathCrash.Durable.name ∧
    Crash.pathbadgerNames "prune" "ok" false =
      "pathbadger.prune.0-before-writes" :: (planPrune s v).map PathCrash.Durable.name := by
  refine ⟨rfl, rfl, rfl⟩

/-- Two states agree on everything a reader of a version below `v` looks at. -/
structure AgreeBelow (v : Nat) (s q : PathBadger.St) : Prop where
  earliest : q.earliest = s.earliest
  roots : ∀ u th, u < v → PathBadger.rootVal q u th = PathBadger.rootVal s u th
  seqs : ∀ u th, u < v → PathBadger.seqOf q u th = PathBadger.seqOf s u th
  pend : ∀ u, u < v → PathBadger.pendAt q u = PathBadger.pendAt s u
  fin : ∀ k u, u < v → finGet q.fin k u = finGet s.fin k u

theorem read_agree {v : Nat} {s q : PathBadger.St} (h : AgreeBelow v s q) (r : Root) (hr : r.ver < v) :
    PathBadger.read q r = PathBadger.read s r := by
  have hget : ∀ k, PathBadger.getNode q r k = PathBadger.getNode s r k := by
    intro k
    apply getNode_congr
    · exact h.seqs r.ver _ hr
    · unfold PathBadger.pendGet; rw [h.pend r.ver hr]
    · exact h.fin _ _ hr
  have hwalk : ∀ n ps, PathBadger.walk q r n ps = PathBadger.walk s r n ps := by
    intro n
    induction n with
    | zero => intro ps; rfl
    | succ n ih =>
      intro ps
      simp only [PathBadger.walk]
      congr 1
      funext acc p
      rw [hget p.1]
      cases PathBadger.getNode s r p.1 with
      | none => rfl
      | some val => simp only [ih val.kids]
  unfold PathBadger.read
  rw [h.earliest, h.roots r.ver _ hr]
  cases PathBadger.rootVal s r.ver (r.typ, r.hash) with
  | none => rfl
  | some rv => simp only [hwalk]

/-- A durable step writes only at or above version `v` (and leaves the window alone). -/
def TouchesFrom (v : Nat) (base : PathBadger.St) : PathCrash.Durable → Prop
  | .metaCommit _ _ ps _ e => e = base.earliest ∧ ∀ u, u < v → lookupD ps u [] = lookupD base.pendSeq u []
  | .metaFlush _ _ pe => ∀ e ∈ pe, v ≤ e.1
  | .dataFlush _ ts _ rw => v ≤ ts ∧ ∀ e ∈ rw, v ≤ e.1.1

theorem agree_step {v : Nat} {s q : PathBadger.St} (h : AgreeBelow v s q) (d : PathCrash.Durable)
    (hd : TouchesFrom v s d) : AgreeBelow v s (PathCrash.applyStep q d) := by
  cases d with
  | metaCommit nm ns ps la e =>
    obtain ⟨he, hps⟩ := hd
    refine ⟨he, h.roots, ?_, h.pend, h.fin⟩
    intro u th hu
    show lookupD (lookupD ps u []) th 0 = _
    rw [hps u hu]; rfl
  | metaFlush nm up pe =>
    refine ⟨h.earliest, h.roots, h.seqs, ?_, h.fin⟩
    intro u hu
    show lookupD (pe ++ q.pend) u [] = _
    have : lookupD (pe ++ q.pend) u [] = lookupD q.pend u [] := by
      have := lookupD_append_map_ne pe id q.pend u ([] : List ((Nat × Nat × PathBadger.Key) × PathBadger.NodeVal))
        (fun x hx hc => by have := hd x hx; simp at hc; omega)
      simpa using this
    rw [this]; exact h.pend u hu
  | dataFlush nm ts fw rw =>
    obtain ⟨hts, hrw⟩ := hd
    refine ⟨h.earliest, ?_, h.seqs, h.pend, ?_⟩
    · intro u th hu
      show lookupD (rw ++ q.rootNode) (u, th) none = _
      have : lookupD (rw ++ q.rootNode) (u, th) none = lookupD q.rootNode (u, th) none := by
        have := lookupD_append_map_ne rw id q.rootNode (u, th) (none : Option PathBadger.NodeVal)
          (fun x hx hc => by have := hrw x hx; simp at hc; rw [hc] at this; simp at this; omega)
        simpa using this
      rw [this]; exact h.roots u th hu
    · intro k u hu
      show finGet (finWriteAll q.fin fw ts) k u = _
      rw [finGet_writeAll_frame _ _ _ _ _ (Or.inl (by omega))]
      exact h.fin k u hu

theorem agree_prefix {v : Nat} {s : PathBadger.St} (plan : List PathCrash.Durable)
    (hp : ∀ d ∈ plan, TouchesFrom v s d) (k : Nat) : AgreeBelow v s (PathCrash.applyPrefix k s plan) := by
  have gen : ∀ (l : List PathCrash.Durable) (q : PathBadger.St), AgreeBelow v s q → (∀ d ∈ l, TouchesFrom v s d) →
      AgreeBelow v s (PathCrash.applyAll q l) := by
    intro l
    induction l with
    | nil => intro q hq _; exact hq
    | cons d l ih =>
      intro q hq hl
      exact ih _ (agree_step hq d (hl d (by simp))) (fun x hx => hl x (List.mem_cons_of_mem _ hx))
  exact gen _ s ⟨rfl, fun _ _ _ => rfl, fun _ _ _ => rfl, fun _ _ => rfl, fun _ _ _ => rfl⟩
    (fun d hd => hp d (List.mem_of_mem_take hd))

theorem lookupD_cons_lt {β : Type} (l : List (Nat × β)) (v : Nat) (a d : β) (u : Nat) (hu : u < v) :
    lookupD ((v, a) :: l) u d = lookupD l u d := by
  rw [lookupD_cons]; have : ¬ v = u := by omega
  simp [this]

/-- **Whatever prefix of a pathbadger Commit reached the disk, every root of an earlier version
— in particular every finalized one — reads exactly as before.** -/
theorem path_crash_commit_keeps_earlier_versions (s : PathBadger.St) (old new : Root) (b : PathBadger.Batch)
    (k : Nat) (r : Root) (hr : r.ver < new.ver) :
    PathBadger.read (PathCrash.applyPrefix k s (planCommit s old new b)) r = PathBadger.read s r := by
  apply read_agree (agree_prefix _ ?_ k) r hr
  intro d hd
  simp only [planCommit, List.mem_cons, List.mem_singleton, List.not_mem_nil, or_false] at hd
  rcases hd with rfl | rfl | rfl | rfl
  · exact ⟨rfl, fun _ _ => rfl⟩
  · refine ⟨rfl, fun u hu => ?_⟩
    show lookupD (PathBadger.commitSt s old new b).pendSeq u [] = _
    unfold PathBadger.commitSt
    exact lookupD_cons_lt _ _ _ _ _ hu
  · intro e he
    split at he
    · simp at he
    · simp only [List.mem_singleton] at he; rw [he]; exact Nat.le_refl _
  · refine ⟨Nat.le_refl _, fun e he => ?_⟩
    simp only [List.mem_singleton] at he; rw [he]; exact Nat.le_refl _

/-- **The same for Finalize** (when some version has been finalized before, so that the window
does not start at this version). -/
theorem path_crash_finalize_keeps_earlier_versions (s : PathBadger.St) (v : Nat) (ch : List Root)
    (hl : s.last.isNone = false) (k : Nat) (r : Root) (hr : r.ver < v) :
    PathBadger.read (PathCrash.applyPrefix k s (planFinalize s v ch)) r = PathBadger.read s r := by
  apply read_agree (agree_prefix _ ?_ k) r hr
  intro d hd
  simp only [planFinalize, List.mem_cons, List.mem_singleton, List.not_mem_nil, or_false] at hd
  rcases hd with rfl | rfl | rfl | rfl | rfl
  · exact ⟨Nat.le_refl _, fun e he => by simp at he⟩
  · intro e he; simp at he
  · refine ⟨Nat.le_refl _, fun e he => ?_⟩
    obtain ⟨th, _, rfl⟩ := List.mem_map.1 he
    exact Nat.le_refl _
  · intro e he
    simp only [List.mem_singleton] at he; rw [he]; exact Nat.le_refl _
  · refine ⟨?_, fun u hu => ?_⟩
    · simp [PathBadger.finalizeSt, hl]
    · show lookupD (PathBadger.finalizeSt s v ch).pendSeq u [] = _
      unfold PathBadger.finalizeSt
      exact lookupD_cons_lt _ _ _ _ _ hu

/-- **The mechanism of the lost repeated restore (finding D10), on the model.** A restore of
version 3 into an empty database with one chunk (root 30 with leaves under keys (3,1), (3,2)):
with the sequence number 0 reserved by the first `StartMultipartInsert` the restored root reads
back after `Finalize`; if a first attempt was started and aborted (or interrupted) before, the
second `StartMultipartInsert` reserves sequence number 1, the chunk's nodes go to the pending key
space, chunk commits record no updated nodes, so `Finalize` copies nothing and drops the pending
space: it succeeds, reports the root as finalized — and the root is unreadable. -/
theorem restore_after_aborted_restore_loses_nodes :
    let puts : List (PathBadger.Key × PathBadger.NodeVal) := [((3, 1), ⟨1, []⟩), ((3, 2), ⟨2, []⟩)]
    let root : PathBadger.NodeVal := ⟨30, [((3, 1), 1), ((3, 2), 2)]⟩
    let r : Root := ⟨3, 0, 30⟩
    -- first attempt completes
    let a1 := startMultipart PathBadger.init 3
    let a2 := chunkCommit a1 r (nextSeqOf PathBadger.init 3 0) puts root
    let a3 := PathBadger.finalize a2 3 [r]
    -- first attempt aborted before any chunk, second attempt completes
    let b1 := abortEmptyMultipart (startMultipart PathBadger.init 3)
    let b2 := startMultipart b1 3
    let b3 := chunkCommit b2 r (nextSeqOf b1 3 0) puts root
    let b4 := PathBadger.finalize b3 3 [r]
    nextSeqOf PathBadger.init 3 0 = 0 ∧ a3.1 = .ok ∧ PathBadger.read a3.2 r = .ok ∧
    nextSeqOf b1 3 0 = 1 ∧ b4.1 = .ok ∧ b4.2.last = some 3 ∧ PathBadger.hasRoot b4.2 r = true ∧
    PathBadger.read b4.2 r = .notFound := by
  decide

end PathBadgerCrash

/-! ### non-vacuity -/

/-- The hypotheses of `plan_complete`, `crash_observers_atomic` and the retry theorems hold for
the Finalize and the Commit of the C06 counterexample history (non-empty two-step plans). -/
example : (plan cexCl cexCl cexBeforeFinalize (.finalize 2 [⟨2, 0, 11⟩])).length = 2 ∧
    isOk (run cexCl cexCl cexBeforeFinalize (.finalize 2 [⟨2, 0, 11⟩])) = true ∧
    (plan cexCl cexCl cexBeforeFinalize (.commit ⟨1, 0, 10⟩ ⟨2, 0, 12⟩ [12, 5] [10])).length = 2 := by
  decide

end OasisProofs.C07
