import OasisModel.Handlers.Deliver
import OasisModel.Handlers.Flow
import Generated.HandlerFacts
import OasisModel.Handlers.FlowFacts
import OasisProofs.Props.C08Sound
/-
C08 — a failed transaction changes nothing but fee and nonce.

Part 1 (model theorems, all inputs): on the layered-state model of delivery
(`OasisModel/Handlers/Deliver.lean`) a transaction rejected at decoding or authentication changes
nothing; a transaction whose handler fails without having touched layer 0 leaves the state equal
to the pre-state except for the signer's nonce (+1), the signer's balance (−fee) and the fee
accumulator (+fee).

Part 2 (regenerated obligations): the control-flow skeletons of ALL transaction and message
handlers are regenerated from /repo's Go source on every run (`Generated/HandlerFacts.lean`); the
analysis `flagged` (dirty flag per transaction layer, wrapper→layer binding, error-branch
correlation) must report exactly the return sites listed — and justified — in `expected` below.
The analysis is PROVED SOUND (`Props/C08Sound.lean`) against the concrete path semantics of the
skeleton language (`OasisModel/Handlers/FlowSem.lean`); `handlers_sound` / `clean_handlers_sound`
at the end of this file compose that proof with the kernel-checked table.
A handler change that introduces a failing return after an un-rollbackable write, moves a write in
front of a check, binds a wrapper to the outer tree inside `NewTransaction`, or drops a `Commit`
changes the flagged set and breaks this file.
-/
namespace OasisProofs.C08
open OasisModel.Handlers

/-! ## Part 1: delivery model -/

theorem applyOvl_nil (m : KV) : applyOvl m [] = m := rfl

/-- One action that is not an outer write and not the commit of a non-empty bottom overlay
leaves layer 0 alone. -/
theorem step_outer (s : Layers) (a : Act) (h : touchesOuter s [a] = false) :
    (step s a).outer = s.outer := by
  cases a with
  | wr d k v =>
    cases d with
    | zero => simp [touchesOuter] at h
    | succ d => simp [step]
  | begin => simp [step]
  | commit =>
    simp only [touchesOuter, Bool.or_false] at h
    simp only [step]
    cases hr : s.ovls.reverse with
    | nil => rfl
    | cons top t =>
      cases t with
      | nil =>
        rw [hr] at h
        simp at h
        subst h
        rfl
      | cons below rest => rfl
  | close => simp [step]

/-- **Layer 0 untouched.** If the trace never writes through a wrapper bound to layer 0 and never
commits a non-empty overlay directly onto layer 0, layer 0 is unchanged — whatever was written
into overlays, however they were nested, committed into each other or dropped. -/
theorem untouched_outer (acts : List Act) (s : Layers) (h : touchesOuter s acts = false) :
    (exec s acts).outer = s.outer := by
  induction acts generalizing s with
  | nil => rfl
  | cons a rest ih =>
    have h1 : touchesOuter s [a] = false ∧ touchesOuter (step s a) rest = false := by
      cases a with
      | wr d k v =>
        cases d with
        | zero => simp [touchesOuter] at h
        | succ d => simp [touchesOuter] at h ⊢; exact h
      | begin => simp [touchesOuter] at h ⊢; exact h
      | commit =>
        simp only [touchesOuter, Bool.or_eq_false_iff] at h ⊢
        exact ⟨by simpa using h.1, h.2⟩
      | close => simp [touchesOuter] at h ⊢; exact h
    show (exec (step s a) rest).outer = s.outer
    rw [ih (step s a) h1.2, step_outer s a h1.1]

/-- **Rejected before execution ⇒ nothing changes** (undecodable, bad signature, wrong nonce,
insufficient balance for the fee). -/
theorem rejected_changes_nothing (minBal : Nat) (handler : Chain → Tx → HandlerRun) (c : Chain) (tx : Tx)
    (h : tx.decodes = false ∨ authenticate minBal c tx = .rejected) :
    deliver minBal handler c tx = (c, .fail) := by
  unfold deliver
  rcases h with h | h
  · simp [h]
  · by_cases hd : tx.decodes
    · simp [hd, h]
    · simp [hd]

/-- Authentication is the only pre-execution write: nonce+1, balance−fee for the signer, fee
into the accumulator; every other key is untouched, and it requires the exact nonce. -/
theorem auth_effect (minBal : Nat) (c c1 : Chain) (tx : Tx) (h : authenticate minBal c tx = .ok c1) :
    nonceOf c.st.outer tx.signer = tx.nonce ∧
    nonceOf c1.st.outer tx.signer = tx.nonce + 1 ∧
    balOf c1.st.outer tx.signer + tx.fee = balOf c.st.outer tx.signer ∧
    c1.feeAcc = c.feeAcc + tx.fee ∧
    (∀ k, k ≠ 2 * tx.signer → k ≠ 2 * tx.signer + 1 → c1.st.outer k = c.st.outer k) ∧
    c1.st.ovls = c.st.ovls := by
  unfold authenticate at h
  by_cases hn : nonceOf c.st.outer tx.signer ≠ tx.nonce
  · simp [hn] at h
  · by_cases hb : balOf c.st.outer tx.signer < tx.fee + minBal
    · simp [hn, hb] at h
    · simp only [hn, hb, if_false] at h
      injection h with h
      subst h
      have hne : (2 * tx.signer) ≠ (2 * tx.signer + 1) := by omega
      refine ⟨by simpa using hn, ?_, ?_, rfl, ?_, rfl⟩
      · simp [nonceOf, KV.set]
      · have hb' : tx.fee ≤ balOf c.st.outer tx.signer := by omega
        have : balOf (KV.set (KV.set c.st.outer (2 * tx.signer) (some (tx.nonce + 1))) (2 * tx.signer + 1)
            (some (balOf c.st.outer tx.signer - tx.fee))) tx.signer = balOf c.st.outer tx.signer - tx.fee := by
          simp [balOf, KV.set]
        rw [this]; omega
      · intro k h1 h2
        simp [KV.set, h1, h2]

/-- **Failed transaction = fee and nonce only.** If the handler fails and its trace did not touch
layer 0 (which is what the regenerated handler facts establish for the real handlers), the state
after delivery is the state right after authentication. -/
theorem failed_tx_effect (minBal : Nat) (handler : Chain → Tx → HandlerRun) (c c1 : Chain) (tx : Tx)
    (hd : tx.decodes = true) (ha : authenticate minBal c tx = .ok c1)
    (hclean : touchesOuter c1.st (handler c1 tx).acts = false) :
    (deliver minBal handler c tx).1 = c1 := by
  unfold deliver
  simp only [hd, Bool.not_true, Bool.false_eq_true, if_false, ha]
  have := untouched_outer (handler c1 tx).acts c1.st hclean
  cases c1 with
  | mk st fee =>
    cases st with
    | mk o ov => simp only at this ⊢; rw [this]

/-- A *successful* handler whose writes all went through a committed transaction does touch
layer 0 — the predicate is not vacuous. -/
example : touchesOuter { outer := fun _ => none, ovls := [] }
    [.begin, .wr 1 7 (some 1), .commit] = true := by decide
example : touchesOuter { outer := fun _ => none, ovls := [] }
    [.begin, .wr 1 7 (some 1), .close] = false := by decide
-- the registerNode shape: overlay open, but the wrapper is bound to layer 0
example : touchesOuter { outer := fun _ => none, ovls := [] }
    [.begin, .wr 0 7 (some 1), .close] = true := by decide

/-! ## Part 2: regenerated handler facts -/

/-- Return sites at which a handler may report failure after a write to layer 0, per root, as the
analysis reports them on the current source; each with the reason why the failure cannot happen
on available state for a transaction in an accepted block (or is a halt, not a failed tx).

registry.registerNode (writes `SetNode` through the registry wrapper bound to layer 0 although an
overlay is open, `transactions.go:327-500`):
  * `registry.ErrInvalidArgument` — `state.NodeStatus` of an existing node; every registered node
    has a status (set at registration incl. genesis), so only unavailable state can fail here;
  * `unknown runtime governance model` — `rt.StakingAddress()` is total for the two non-consensus
    governance models that reach this line; "should never happen" in the source;
  * `err` — failure of `md.Publish(MessageRuntimeResumed)`; its only subscriber (roothash
    `onRuntimeResumed`… ) fails only on unavailable state.
governance.submitProposal: the first two sites follow `md.Publish(MessageValidateParameterChanges)`,
  which the analysis conservatively counts as a write (subscribers only validate: no write to layer 0
  precedes them in fact); the third (`NextProposalIdentifier`) DOES follow `TransferToGovernanceDeposits`
  and is safe only because that read fails on unavailable state alone.
roothash.executorCommit / liveness / slashing (message roots), vault.executeAction/authorizeAction,
staking.changeParameters, governance castVote: site-by-site reading with file:line citations and a verdict
per site in `docs/review-c08-flagged-sites.md` (an independent re-examination made after the
justification of the `submitEvidence` site had turned out wrong, fix 39f3084): no other site is reachable
with state left behind; two sites (`castVote`, `onNewRuntime`) are artefacts of how `return nil, f()` is
translated; roothash runtime-message delivery and governance proposal execution have NO per-message
overlay, so the safety of their callees' sites rests on the callee alone.
-/
def expected : List (String × List String) := [
  ("staking_state_AuthenticateAndPayFees", []),
  ("staking_PostExecuteTx", []),
  ("staking_ExecuteTx", []),
  ("registry_ExecuteTx", ["transactions.go:registerNode:registry.ErrInvalidArgument @ existingNode != nil",
     "transactions.go:registerNode:fmt.Errorf(unknown runtime governance model on runtime %s: ) @ !ok",
     "transactions.go:registerNode:err"]),
  ("governance_ExecuteTx", ["transactions.go:submitProposal:err @ case proposalContent.ChangeParameters != nil",
     "transactions.go:submitProposal:governance.ErrInvalidArgument @ res == nil",
     "transactions.go:submitProposal:fmt.Errorf(governance: failed to get next proposal identifi)"]),
  -- Until /repo fix 39f3084 (see DESIGN 9.3) this root also listed six sites of slashing.go reached from
  -- `submitEvidence` after `SetEvidenceHash` had gone to layer 0; the first of them ("failed to get node by
  -- id") had been argued unreachable here and IS reachable: equivocation evidence signed by a key that is not
  -- a registered node is well-formed, so the failed transaction left the evidence hash behind (found by a
  -- seeding agent reading the code, confirmed by txdrv, variant `unknown-node`).  The handler now stores the
  -- hash and slashes inside one `NewTransaction` overlay and the analysis reports the sites no more.
  ("roothash_ExecuteTx", ["transactions.go:executorCommit:err"]),
  ("vault_ExecuteTx", ["transactions.go:authorizeAction:err @ case api.IsUnavailableStateError(err)",
     "action.go:executeAction:err @ case action.UpdateWithdrawPolicy != nil",
     "action.go:executeAction:err @ case action.UpdateAuthority != nil",
     "action.go:executeAction:err @ case action.ExecuteMessage != nil",
     "action.go:executeAction:vault.ErrUnsupportedAction @ default"]),
  ("beacon_Application_ExecuteTx", []),
  ("beacon_backendVRF_ExecuteTx", []),
  ("beacon_backendInsecure_ExecuteTx", []),
  ("keymanager_secrets_ExecuteTx", []),
  ("keymanager_churp_ExecuteTx", []),
  ("staking_ExecuteMessage", ["messages.go:changeParameters:fmt.Errorf(staking: commission schedule for account '%s' in) @ updated"]),
  ("registry_ExecuteMessage", []),
  ("governance_ExecuteMessage", ["governance.go:ExecuteMessage:app.castVote(ctx) @ case m.CastVote != nil",
     "transactions.go:submitProposal:err @ case proposalContent.ChangeParameters != nil",
     "transactions.go:submitProposal:governance.ErrInvalidArgument @ res == nil",
     "transactions.go:submitProposal:fmt.Errorf(governance: failed to get next proposal identifi)"]),
  ("roothash_ExecuteMessage", ["roothash.go:ExecuteMessage:app.onNewRuntime(ctx) @ case registryApi.MessageNewRuntimeRegistered",
     "liveness.go:processLivenessStatistics:fmt.Errorf(failed to retrieve status for node %s: %w)",
     "slashing.go:onRuntimeLivenessFailure:fmt.Errorf(failed to fetch node %s: %w)",
     "messages.go:doBeforeSchedule:fmt.Errorf(failed to fetch runtime state: %w)"]),
  ("vault_ExecuteMessage", []),
  ("scheduler_ExecuteMessage", [])
]

def expectedOf (name : String) : Option (List String) :=
  (expected.find? (fun p => p.1 == name)).map (·.2)

/-- The analysis result for one regenerated root equals the justified expectation. -/
def rootOk (p : String × Flow) : Bool := flagged 60 p.2 == expectedOf p.1

set_option maxRecDepth 100000 in
/-- **Every regenerated handler root** — staking, registry, governance, roothash, vault, beacon
(three backends), key manager secrets and CHURP; transactions and inter-application messages —
has exactly the expected flagged sites. -/
theorem handlers_as_expected : Generated.HandlerFacts.all.all rootOk = true := by decide +kernel

/-- The set of roots is the expected one (a new application or handler root must be listed). -/
theorem roots_as_expected :
    Generated.HandlerFacts.all.map (·.1) = expected.map (·.1) := by decide

/-- Classification of the state-wrapper methods seen in handlers: a new method must be classified
(as a write it is tracked; as a read it is assumed not to modify state). -/
theorem write_methods_as_expected : Generated.HandlerFacts.writeMethods =
  ["AddStakeClaim", "ClearRoundTimeout", "Commit", "CreateVault", "RemoveEntity", "RemovePendingAction",
   "RemoveRuntimeOwner", "ResumeRuntime", "ScheduleRoundTimeout", "SetAccount", "SetActiveProposal", "SetAddressState",
   "SetConsensusParameters", "SetDebondingDelegation", "SetDelegation", "SetEntity", "SetEphemeralSecret",
   "SetEvidenceHash", "SetFutureEpoch", "SetIncomingMessageInQueue", "SetIncomingMessageQueueMeta",
   "SetLastRoundResults", "SetMasterSecret", "SetNextProposalIdentifier", "SetNode", "SetNodeStatus", "SetPendingAction",
   "SetPendingMockEpoch", "SetRuntime", "SetRuntimeOwner", "SetRuntimeState", "SetStatus", "SetTotalSupply",
   "SetVRFState", "SetVault", "SetVote", "ShrinkPastRoots", "SlashEscrow", "Transfer", "TransferFromCommon",
   "TransferToGovernanceDeposits"] := by decide

theorem read_methods_as_expected : Generated.HandlerFacts.readMethods =
  ["Account", "AddressState", "CheckStakeClaims", "CommissionScheduleAddresses", "ConsensusParameters",
   "CurrentValidators", "DebondingInterval", "Delegation", "DelegationsFor", "Entity", "EphemeralSecret", "GetEpoch",
   "HasEntityNodes", "HasEntityRuntimes", "IncomingMessageQueueMeta", "MasterSecret", "NextProposalIdentifier", "Node",
   "NodeStatus", "Nodes", "PendingAction", "PendingMockEpoch", "PendingUpgradeProposal", "PendingUpgrades", "Proposal",
   "Runtime", "RuntimeState", "Runtimes", "Status", "SuspendedRuntime", "TotalSupply", "VRFState", "Vault"] := by decide

/-- Which inter-application message kinds may have a persistent effect (write or further publication)
in each subscriber, per regenerated `switch msg.Kind` case with boolean-literal arguments of inlined
callees propagated (`changeParameters(ctx, data, apply)`).  The convention the handlers rely on:
**`MessageValidateParameterChanges` is read-only in every application** (it is published from inside a
governance `submitProposal` transaction that may still fail), state-sync / runtime-updated / resumed
notifications are read-only in roothash. -/
def expectedKinds : List (String × String × Bool) := [
  ("staking_ExecuteMessage", "RuntimeMessageStaking", true),
  ("staking_ExecuteMessage", "MessageValidateParameterChanges", false),
  ("staking_ExecuteMessage", "MessageChangeParameters", true),
  ("registry_ExecuteMessage", "RuntimeMessageRegistry", true),
  ("registry_ExecuteMessage", "MessageValidateParameterChanges", false),
  ("registry_ExecuteMessage", "MessageChangeParameters", true),
  ("governance_ExecuteMessage", "RuntimeMessageGovernance", true),
  ("governance_ExecuteMessage", "MessageStateSyncCompleted", false),
  ("governance_ExecuteMessage", "MessageValidateParameterChanges", false),
  ("governance_ExecuteMessage", "MessageChangeParameters", true),
  ("roothash_ExecuteMessage", "MessageNewRuntimeRegistered", true),
  ("roothash_ExecuteMessage", "MessageRuntimeUpdated", false),
  ("roothash_ExecuteMessage", "MessageRuntimeResumed", false),
  ("roothash_ExecuteMessage", "RuntimeMessageNoop", false),
  ("roothash_ExecuteMessage", "MessageBeforeSchedule", true),
  ("roothash_ExecuteMessage", "MessageValidateParameterChanges", false),
  ("roothash_ExecuteMessage", "MessageChangeParameters", true),
  ("vault_ExecuteMessage", "MessageAccountHook", true),
  ("vault_ExecuteMessage", "MessageValidateParameterChanges", false),
  ("vault_ExecuteMessage", "MessageChangeParameters", true),
  ("scheduler_ExecuteMessage", "MessageValidateParameterChanges", false),
  ("scheduler_ExecuteMessage", "MessageChangeParameters", true)]

theorem message_kinds_as_expected :
    Generated.HandlerFacts.msgKinds.map (fun p => (p.1, p.2.1, p.2.2.hasEffect)) = expectedKinds := by
  decide +kernel

/-- No subscriber of the validation message can write. -/
theorem validate_messages_read_only :
    (expectedKinds.filter (fun p => p.2.1 == "MessageValidateParameterChanges")).all (fun p => !p.2.2) = true := by
  decide

/-- **Notifications published inside an unprotected window cannot fail.**  `registry.registerNode`
publishes `MessageRuntimeResumed` after `SetNode`/`ResumeRuntime` went to layer 0 (the flagged site
`transactions.go:registerNode:err` above is justified by exactly this): every subscriber case of that
kind has NO ordinary error return site (`errSites`, proved complete in `C10Sound`), in any application.
A subscriber that starts validating (and so may reject) the resumed runtime breaks this theorem. -/
theorem resumed_subscribers_infallible :
    (Generated.HandlerFacts.msgKinds.filter (fun p => p.2.1 == "MessageRuntimeResumed")).map
      (fun p => (p.1, errSites 60 p.2.2)) = [("roothash_ExecuteMessage", [])] := by
  decide +kernel

/-! ### the analysis itself on hand-made flows (sanity of `flagged`) -/

-- write through an outer-bound wrapper inside an open overlay, then a failing return: flagged
example : flagged 20 (.seq [.mk 1 2, .beginTx 2 2, .write 1 "SetNode", .ifErr (.retErr "w") .skip,
    .ext, .ifErr (.retErr "late") .skip, .commitTx 2, .retOk]) = some ["late"] := by decide
-- the same with the wrapper created from the transaction context: clean
example : flagged 20 (.seq [.beginTx 2 2, .mk 1 2, .write 1 "SetNode", .ifErr (.retErr "w") .skip,
    .ext, .ifErr (.retErr "late") .skip, .commitTx 2, .retOk]) = some [] := by decide
-- checks first, writes last: clean
example : flagged 20 (.seq [.mk 1 2, .ext, .ifErr (.retErr "check") .skip, .write 1 "SetAccount",
    .ifErr (.retErr "w") .skip, .retOk]) = some [] := by decide
-- write moved before the check: flagged
example : flagged 20 (.seq [.mk 1 2, .write 1 "SetAccount", .ifErr (.retErr "w") .skip, .ext,
    .ifErr (.retErr "check") .skip, .retOk]) = some ["check"] := by decide

/-! ## Part 3: the table composed with the soundness proof of the analysis -/

theorem flagged_of_table (name : String) (f : Flow) (hmem : (name, f) ∈ Generated.HandlerFacts.all)
    (sites : List String) (hexp : expectedOf name = some sites) : flagged 60 f = some sites := by
  have h := List.all_eq_true.1 handlers_as_expected (name, f) hmem
  simp only [rootOk, beq_iff_eq] at h
  rw [h, hexp]

/-- **Every regenerated handler root, every path** (of the skeleton's concrete semantics,
`FlowSem.Path`): a path that ends in an ordinary error return and whose trace touches layer 0
returns through one of the sites listed — and argued unreachable on available state — in
`expected`. -/
theorem handlers_sound (name : String) (f : Flow) (hmem : (name, f) ∈ Generated.HandlerFacts.all)
    (sites : List String) (hexp : expectedOf name = some sites)
    (outer : KV) (tr : List Act) (q : String) (chain : List String) (σ' : Cfg)
    (hp : Path f initCfg tr (.ret (.err q) chain) σ')
    (ht : touchesOuter { outer := outer, ovls := [] } tr = true) : ∃ p ∈ chain, p ∈ sites :=
  C08Sound.flagged_sound_sites 60 f sites (flagged_of_table name f hmem sites hexp) outer tr q chain σ' hp ht

/-- **Roots with an empty expectation** (authentication, staking, beacon, key manager, registry and
vault messages, …): every path that ends in an ordinary error leaves layer 0 — the block state tree —
exactly as it found it, whatever it wrote into overlays. -/
theorem clean_handlers_sound (name : String) (f : Flow) (hmem : (name, f) ∈ Generated.HandlerFacts.all)
    (hexp : expectedOf name = some [])
    (outer : KV) (tr : List Act) (q : String) (chain : List String) (σ' : Cfg)
    (hp : Path f initCfg tr (.ret (.err q) chain) σ') :
    (exec { outer := outer, ovls := [] } tr).outer = outer :=
  C08Sound.flagged_sound_state 60 f (flagged_of_table name f hmem [] hexp) outer tr q chain σ' hp

-- not vacuous: the staking transaction root is in the table with an empty expectation
example : ∃ f, ("staking_ExecuteTx", f) ∈ Generated.HandlerFacts.all ∧ expectedOf "staking_ExecuteTx" = some [] :=
  ⟨Generated.HandlerFacts.staking_ExecuteTx, by simp [Generated.HandlerFacts.all], by decide⟩

end OasisProofs.C08
