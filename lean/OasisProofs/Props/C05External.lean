import Generated.LedgerWriters
/-
C05 — the ledger seen from the OTHER applications.

The ledger theorems (Props/C05.lean) are about histories of the model's operations: transactions,
runtime messages and the exported movers (`slash`, `transferFromCommon`, `addRewards`, the three
governance-deposit moves).  They say something about governance, roothash, scheduler and vault only
as long as these applications touch the staking ledger THROUGH those movers.  This file pins that,
from facts regenerated from /repo on every run (`tools/gen ledgerwriters`):

  * every method with receiver `*MutableState` of the staking state package is classified as a
    mover (conservation proved on the model), a raw record setter (no conservation by itself) or
    bookkeeping that cannot touch a balance;
  * no raw record setter is called from outside the staking application;
  * the one bookkeeping call that rewrites an account record from outside (`SetAccountHook`, used
    by the vault when a vault is created at an address that may ALREADY hold tokens and escrow) is
    a read-modify-write: on the record model below it leaves every balance and share total of
    every account unchanged, for every prior state — whereas initialising the record from scratch
    does not (`fresh_record_destroys_tokens`).
Core Lean only.
-/
namespace OasisProofs.C05External
open Generated.LedgerWriters

/-- Movers: each has a model operation with a conservation theorem in Props/C05.lean. -/
def movers : List String :=
  ["AddRewardSingleAttenuated", "AddRewards", "DiscardGovernanceDeposit", "SlashEscrow", "Transfer",
   "TransferFromCommon", "TransferFromGovernanceDeposits", "TransferToGovernanceDeposits"]

/-- Raw record setters: they write one record and nothing else; conservation is the caller's job. -/
def rawSetters : List String :=
  ["RemoveFromDebondingQueue", "SetAccount", "SetCommonPool", "SetDebondingDelegation", "SetDelegation",
   "SetGovernanceDeposits", "SetLastBlockFees", "SetTotalSupply"]

/-- Bookkeeping without access to a balance or share total. -/
def bookkeeping : List String :=
  ["ClearEpochSigning", "SetAccountHook", "SetConsensusParameters", "SetEpochSigning", "computeCommission"]

/-- Every mutable method of the staking state is classified (a new one must be placed). -/
theorem mutable_methods_classified :
    mutableMethods.all (fun m => movers.contains m || rawSetters.contains m || bookkeeping.contains m) = true := by
  decide

theorem classes_disjoint :
    movers.all (fun m => !rawSetters.contains m && !bookkeeping.contains m) = true ∧
    rawSetters.all (fun m => !bookkeeping.contains m) = true := by decide

/-- **No raw record setter is called from another application.** -/
theorem no_external_raw_setter : externalCalls.all (fun p => !rawSetters.contains p.2) = true := by decide

/-- The complete list of external entries into the ledger, as on the current source. -/
theorem external_calls_as_expected : externalCalls =
    [("governance", "DiscardGovernanceDeposit"), ("governance", "TransferFromGovernanceDeposits"),
     ("governance", "TransferToGovernanceDeposits"), ("roothash", "SlashEscrow"), ("roothash", "Transfer"),
     ("roothash", "TransferFromCommon"), ("scheduler", "AddRewards"), ("vault", "SetAccountHook")] := by decide

/-! ## record model of `SetAccountHook` -/

structure Account where
  general : Nat
  activeBal : Nat
  activeShares : Nat
  debondBal : Nat
  debondShares : Nat
  nonce : Nat
  hook : Bool
deriving DecidableEq, Repr

def Account.empty : Account := ⟨0, 0, 0, 0, 0, 0, false⟩

/-- The account store: a missing record reads as the empty account (state.go `Account`). -/
abbrev Store := Nat → Account

def Store.set (s : Store) (a : Nat) (r : Account) : Store := fun k => if k = a then r else s k

/-- `SetAccountHook`: read the record, set the hook, write it back. -/
def setAccountHook (s : Store) (a : Nat) : Store := s.set a { s a with hook := true }

/-- The seeded shape: write a fresh record that has only the hook. -/
def initAccountWithHook (s : Store) (a : Nat) : Store := s.set a { Account.empty with hook := true }

def Account.tokens (r : Account) : Nat := r.general + r.activeBal + r.debondBal

def tokens (s : Store) (addrs : List Nat) : Nat := (addrs.map (fun a => (s a).tokens)).sum

/-- Every balance, share total and nonce of every account is what it was. -/
theorem setAccountHook_preserves_records (s : Store) (a k : Nat) :
    { setAccountHook s a k with hook := false } = { s k with hook := false } := by
  unfold setAccountHook Store.set
  by_cases h : k = a <;> simp [h]

theorem setAccountHook_sets_hook (s : Store) (a : Nat) : (setAccountHook s a a).hook = true := by
  simp [setAccountHook, Store.set]

/-- **Creating a vault never creates or destroys tokens**, whatever the address held before. -/
theorem setAccountHook_preserves_tokens (s : Store) (a : Nat) (addrs : List Nat) :
    tokens (setAccountHook s a) addrs = tokens s addrs := by
  unfold tokens
  congr 1
  apply List.map_congr_left
  intro k _
  have h := setAccountHook_preserves_records s a k
  have h1 := congrArg Account.general h
  have h2 := congrArg Account.activeBal h
  have h3 := congrArg Account.debondBal h
  simp only at h1 h2 h3
  simp [Account.tokens, h1, h2, h3]

/-- Why the raw initialisation is excluded: on a pre-funded address it destroys tokens while the
recorded total supply stays. -/
theorem fresh_record_destroys_tokens :
    ∃ (s : Store) (a : Nat), tokens (initAccountWithHook s a) [a] < tokens s [a] :=
  ⟨fun _ => ⟨5, 3, 3, 0, 0, 0, false⟩, 0, by decide⟩

/-- …and is harmless exactly on an untouched address (which is all the repository's tests use). -/
theorem fresh_record_same_on_empty (s : Store) (a : Nat) (h : s a = Account.empty) :
    initAccountWithHook s a = setAccountHook s a := by
  funext k
  unfold initAccountWithHook setAccountHook Store.set
  by_cases hk : k = a <;> simp [hk, h]

end OasisProofs.C05External
