import OasisProofs.Props.C18
/-
C18 (round 3) — the TCB-level selection, the QE identity comparison and the validity windows at
full strength.

`TcbLevel.matches` / `getTcbLevel` of the model are written as the Go code writes them (loops with
early exits over 16-element arrays, the offset rule `if tdxCompSvn[1] != 0 { offset = 2 }`, first
matching level, TDX module identity `TDX_<version>` with its own level list); the statement
skeletons of the Go functions are regenerated on every run and pinned
(`C18.generated_tcb_skeletons_match`). The theorems here state what that code computes against a
specification that mentions no loop, no offset and no early exit (`MatchesSpec`: a conjunction over
the prescribed index sets), for every TCB info, platform and policy.
-/
namespace OasisProofs.C18Tcb
open OasisModel.Pcs OasisProofs.C18

/-! ### `matches` -/

/-- **matches_iff**: a level matches iff every compared component of the platform is at least the
level's, for exactly the index set the specification prescribes: SGX components 0..15, PCESVN, and
for TDX the TEE TCB SVNs `i < 16` with `TEE TCB SVN[1] = 0 ∨ 2 ≤ i`. -/
theorem matches_iff (l : TcbLevel) (sgx : List Int) (tdx : Option (List Nat)) (pce : Nat) :
    l.matches sgx tdx pce = true ↔
      (∀ i, i < 16 → l.sgx.getD i 0 ≤ sgx.getD i 0) ∧ l.pcesvn ≤ pce ∧
      ∀ t, tdx = some t → ∀ i, i < 16 ∧ (t.getD 1 0 = 0 ∨ 2 ≤ i) →
        l.tdx.getD i 0 ≤ ((t.getD i 0 : Nat) : Int) :=
  C18.matches_iff l sgx tdx pce

/-- With TDX module version 0 (TEE TCB SVN[1] = 0) a matching level bounds the module SVN at
index 0 (and index 1): nothing is left uncompared. -/
theorem matches_version_zero_compares_module_svn {l : TcbLevel} {sgx : List Int} {t : List Nat}
    {pce : Nat} (h0 : t.getD 1 0 = 0) (h : l.matches sgx (some t) pce = true) :
    l.tdx.getD 0 0 ≤ ((t.getD 0 0 : Nat) : Int) ∧ l.tdx.getD 1 0 ≤ 0 := by
  obtain ⟨_, _, ht⟩ := (C18.matches_iff l sgx (some t) pce).1 h
  have a := ht t rfl 0 ⟨by decide, Or.inl h0⟩
  have b := ht t rfl 1 ⟨by decide, Or.inl h0⟩
  rw [h0] at b
  exact ⟨a, by simpa using b⟩

/-! ### `getTCBLevel` -/

/-- **selected_level_is_first_match**: the level `getTCBLevel` returns satisfies the specification,
no earlier level of the signed list does, and its status is present. -/
theorem selected_level_is_first_match {ti : TcbInfo} {sgx : List Int} {tdx : Option (List Nat)}
    {pce : Nat} {lvl : TcbLevel} (h : getTcbLevel ti sgx tdx pce = .ok lvl) :
    ∃ pre post, ti.levels = pre ++ lvl :: post ∧ MatchesSpec lvl sgx tdx pce ∧
      (∀ l ∈ pre, ¬ MatchesSpec l sgx tdx pce) ∧ lvl.status ≠ 0 := by
  have hl := getTcbLevel_ok (pck := ⟨[], [], sgx, pce⟩) h
  obtain ⟨pre, post, he, hx, hpre⟩ := find?_first hl.1
  exact ⟨pre, post, he, (C18.matches_iff _ _ _ _).1 hx,
    fun l hm => (matches_false_iff _ _ _ _).1 (hpre l hm), hl.2.1⟩

/-- If no level of the TCB info satisfies the specification the platform is "not supported". -/
theorem no_level_no_selection {ti : TcbInfo} {sgx : List Int} {tdx : Option (List Nat)} {pce : Nat}
    (h : ∀ l ∈ ti.levels, ¬ MatchesSpec l sgx tdx pce) :
    getTcbLevel ti sgx tdx pce = .error .levelNone := by
  unfold getTcbLevel
  have : ti.levels.find? (fun l => l.matches sgx tdx pce) = none := by
    rw [List.find?_eq_none]
    intro l hl hm
    exact h l hl ((C18.matches_iff _ _ _ _).1 (by simpa using hm))
  rw [this]

/-- The TDX module part: for a TDX TCB info and module version `v ≥ 1` the FIRST module identity
named `TDX_<v>` is used, the FIRST of its levels with `isvsvn ≤ TEE TCB SVN[0]` is selected, and it
must be UpToDate. -/
theorem tdx_module_level_is_first_match {ti : TcbInfo} {sgx : List Int} {t : List Nat} {pce : Nat}
    {lvl : TcbLevel} (h : getTcbLevel ti sgx (some t) pce = .ok lvl) (hid : ti.id = sTDX)
    (hv : 1 ≤ t.getD 1 0) :
    ∃ mpre m mpost lpre ml lpost,
      ti.modules = mpre ++ m :: mpost ∧ m.id = tdxModuleName (t.getD 1 0) ∧
      (∀ x ∈ mpre, x.id ≠ tdxModuleName (t.getD 1 0)) ∧
      m.levels = lpre ++ ml :: lpost ∧ ml.isvsvn ≤ t.getD 0 0 ∧
      (∀ x ∈ lpre, t.getD 0 0 < x.isvsvn) ∧ ml.status = 1 := by
  have hl := getTcbLevel_ok (pck := ⟨[], [], sgx, pce⟩) h
  obtain ⟨t', ht', hm⟩ := hl.2.2 hid
  cases ht'
  obtain ⟨m, ml, hfind, hlev, hs⟩ := hm hv
  obtain ⟨mpre, mpost, he, hx, hpre⟩ := find?_first hfind
  obtain ⟨lpre, lpost, hle, hisv, hlpre⟩ := enclaveLevel_first hlev
  refine ⟨mpre, m, mpost, lpre, ml, lpost, he, by simpa using hx, ?_, hle, hisv, hlpre, hs⟩
  intro x hxm
  have := hpre x hxm
  simpa using this

/-! ### acceptance -/

/-- **status_of_selected_level_respected**: an accepted quote's platform (the SVNs certified by
its PCK certificate and, for TDX, the TEE TCB SVNs of its signed TD report) satisfies every
component bound of a level of the signed TCB info whose status the rule allows, and of no earlier
level. -/
theorem status_of_selected_level_respected {L : Lib} {env : Env} {policy : Option Policy}
    {ts : Time} {q : Quote} {tcb : Option Bundle} {v : Verified}
    (h : verify L env policy ts q tcb = .ok v) :
    ∃ b ti pck lvl pre post, tcb = some b ∧ L.jsonTcb b.tcbInfo.raw = some ti ∧
      PckLink L ts q pck ∧ ti.levels = pre ++ lvl :: post ∧
      MatchesSpec lvl pck.compSvn (tdxSvnOf q) pck.pcesvn ∧
      (∀ l ∈ pre, ¬ MatchesSpec l pck.compSvn (tdxSvnOf q) pck.pcesvn) ∧
      statusAllowed env.lax lvl.status = true ∧ lvl.status ≠ 0 := by
  obtain ⟨_, _, pck, b, _, _, ti, lvl, _, hb, hp, _, _, _, _, _, _, hti, _, _, hl, hs, _⟩ :=
    verify_binds h
  obtain ⟨_, _, _, _, hj, _⟩ := hti
  obtain ⟨pre, post, he, hx, hpre⟩ := find?_first hl.1
  exact ⟨b, ti, pck, lvl, pre, post, hb, hj, hp, he, (C18.matches_iff _ _ _ _).1 hx,
    fun l hm => (matches_false_iff _ _ _ _).1 (hpre l hm), hs, hl.2.1⟩

/-- A platform that satisfies no level of the signed TCB info with an allowed status before a
level with a disallowed one … in short: if every level the platform satisfies has a disallowed
status, the quote is rejected. -/
theorem only_disallowed_levels_rejected {L : Lib} {env : Env} {policy : Option Policy} {ts : Time}
    {q : Quote} {b : Bundle} {ti : TcbInfo} {leaf inter root : Cert} {f : Option Bytes}
    {svn : List Int} {pce : Nat}
    (hj : L.jsonTcb b.tcbInfo.raw = some ti)
    (hcd : q.certData = .chain [leaf, inter, root]) (hext : leaf.ext = .ok f svn pce)
    (hbad : ∀ l ∈ ti.levels, MatchesSpec l svn (tdxSvnOf q) pce → statusAllowed env.lax l.status = false)
    (v : Verified) : verify L env policy ts q (some b) ≠ .ok v := by
  intro h
  obtain ⟨b', ti', pck, lvl, pre, post, hb, hj', hp, he, hm, _, hs, _⟩ :=
    status_of_selected_level_respected h
  cases hb
  rw [hj] at hj'; cases hj'
  obtain ⟨leaf', inter', root', chain, hcd', _, _, _, hext'⟩ := hp
  rw [hcd] at hcd'
  simp only [CertData.chain.injEq, List.cons.injEq, and_true] at hcd'
  obtain ⟨rfl, rfl, rfl⟩ := hcd'
  rw [hext] at hext'
  simp only [PckExt.ok.injEq] at hext'
  obtain ⟨_, rfl, rfl⟩ := hext'
  have hmem : lvl ∈ ti.levels := by rw [he]; simp
  rw [hbad lvl hmem hm] at hs
  cases hs

/-- **tdx_module_svn_always_bounded**: for every accepted TDX quote the TDX module's SVN (TEE TCB
SVN[0]) is bounded by signed collateral: for module version 0 by the selected TCB level itself
(whose status is allowed), for version ≥ 1 by an UpToDate level of the module identity
`TDX_<version>`. There is no version for which index 0 is compared by nobody. -/
theorem tdx_module_svn_always_bounded {L : Lib} {env : Env} {policy : Option Policy} {ts : Time}
    {q : Quote} {tcb : Option Bundle} {v : Verified}
    (h : verify L env policy ts q tcb = .ok v) (htee : q.teeType = teeTDX) :
    ∃ b ti, tcb = some b ∧ L.jsonTcb b.tcbInfo.raw = some ti ∧
      (((tdTeeTcbSvn q.bodyRaw).getD 1 0 = 0 ∧
          ∃ lvl ∈ ti.levels, statusAllowed env.lax lvl.status = true ∧
            lvl.tdx.getD 0 0 ≤ (((tdTeeTcbSvn q.bodyRaw).getD 0 0 : Nat) : Int) ∧
            lvl.tdx.getD 1 0 ≤ 0) ∨
       (1 ≤ (tdTeeTcbSvn q.bodyRaw).getD 1 0 ∧
          ∃ m ∈ ti.modules, m.id = tdxModuleName ((tdTeeTcbSvn q.bodyRaw).getD 1 0) ∧
            ∃ ml ∈ m.levels, ml.status = 1 ∧ ml.isvsvn ≤ (tdTeeTcbSvn q.bodyRaw).getD 0 0)) := by
  obtain ⟨_, _, pck, b, _, _, ti, lvl, _, hb, _, _, _, _, _, _, _, hti, _, _, hl, hs, _⟩ :=
    verify_binds h
  obtain ⟨_, _, _, _, hj, hid, _⟩ := hti
  refine ⟨b, ti, hb, hj, ?_⟩
  have hid' : ti.id = sTDX := by rw [hid, htee]; decide
  have htdx : tdxSvnOf q = some (tdTeeTcbSvn q.bodyRaw) := by simp [tdxSvnOf, htee]
  by_cases h0 : (tdTeeTcbSvn q.bodyRaw).getD 1 0 = 0
  · left
    refine ⟨h0, lvl, List.mem_of_find?_eq_some hl.1, hs, ?_⟩
    have hm : lvl.matches pck.compSvn (some (tdTeeTcbSvn q.bodyRaw)) pck.pcesvn = true := by
      have := List.find?_some hl.1
      rw [htdx] at this
      simpa using this
    exact matches_version_zero_compares_module_svn h0 hm
  · right
    have hv : 1 ≤ (tdTeeTcbSvn q.bodyRaw).getD 1 0 := by omega
    refine ⟨hv, ?_⟩
    obtain ⟨t, ht, hm⟩ := hl.2.2 hid'
    rw [htdx] at ht
    cases ht
    obtain ⟨m, ml, hfind, hlev, hst⟩ := hm hv
    refine ⟨m, List.mem_of_find?_eq_some hfind, by simpa using List.find?_some hfind, ml, ?_, hst, ?_⟩
    · exact List.mem_of_find?_eq_some hlev
    · have := List.find?_some hlev
      simpa using this

/-! ### monotonicity in the platform's SVNs -/

/-- **raise_never_worsens**: raising any SVNs of the platform (SGX components, PCESVN, TEE TCB
SVNs — also raising TEE TCB SVN[1] across the offset rule) selects the same level of the signed
list or an earlier one. -/
theorem raise_never_worsens {levels : List TcbLevel} {p p' : Plat} (hle : PlatLE p p')
    {lvl : TcbLevel} (h : levels.find? (fun l => l.matches p.sgx p.tdx p.pce) = some lvl) :
    ∃ pre post pre' lvl' post', levels = pre ++ lvl :: post ∧ levels = pre' ++ lvl' :: post' ∧
      levels.find? (fun l => l.matches p'.sgx p'.tdx p'.pce) = some lvl' ∧
      pre'.length ≤ pre.length := by
  obtain ⟨pre, post, he, hx, _⟩ := find?_first h
  obtain ⟨pre', post', y, he', hf, hlen, _⟩ :=
    find?_mono (p := fun (l : TcbLevel) => l.matches p.sgx p.tdx p.pce)
      (q := fun (l : TcbLevel) => l.matches p'.sgx p'.tdx p'.pce) (fun a ha => matches_mono hle ha) he hx
  exact ⟨pre, post, pre', y, post', he, he', hf, hlen⟩

/-- **lower_never_improves**: lowering SVNs never selects an earlier level, and a platform that
reaches no level reaches none after lowering. -/
theorem lower_never_improves {levels : List TcbLevel} {p p' : Plat} (hle : PlatLE p' p) :
    (levels.find? (fun l => l.matches p.sgx p.tdx p.pce) = none →
      levels.find? (fun l => l.matches p'.sgx p'.tdx p'.pce) = none) ∧
    (∀ lvl', levels.find? (fun l => l.matches p'.sgx p'.tdx p'.pce) = some lvl' →
      ∃ pre' post' pre lvl post, levels = pre' ++ lvl' :: post' ∧ levels = pre ++ lvl :: post ∧
        levels.find? (fun l => l.matches p.sgx p.tdx p.pce) = some lvl ∧
        pre.length ≤ pre'.length) := by
  constructor
  · intro hn
    exact find?_none_mono (p := fun (l : TcbLevel) => l.matches p'.sgx p'.tdx p'.pce)
      (q := fun (l : TcbLevel) => l.matches p.sgx p.tdx p.pce) (fun a ha => matches_mono hle ha) hn
  · intro lvl' h
    obtain ⟨pre', post', pre, lvl, post, he', he, hf, hlen⟩ := raise_never_worsens hle h
    exact ⟨pre', post', pre, lvl, post, he', he, hf, hlen⟩

/-- Two decompositions of one list: the element at the shorter prefix is in the longer prefix or
is its successor element. -/
theorem mem_of_shorter_prefix {α : Type} {pre post pre' post' : List α} {x y : α}
    (h : pre ++ x :: post = pre' ++ y :: post') (hlen : pre'.length ≤ pre.length) :
    y ∈ pre ∨ y = x := by
  by_cases heq : pre'.length = pre.length
  · right
    have h1 : (pre ++ x :: post)[pre.length]? = some x := by simp
    have h2 : (pre' ++ y :: post')[pre.length]? = some y := by rw [← heq]; simp
    rw [h] at h1
    rw [h1] at h2
    exact (Option.some.inj h2).symm
  · left
    have hlt : pre'.length < pre.length := by omega
    have h1 : (pre ++ x :: post)[pre'.length]? = pre[pre'.length]? :=
      List.getElem?_append_left hlt
    have h2 : (pre' ++ y :: post')[pre'.length]? = some y := by simp
    rw [h, h2] at h1
    exact List.mem_of_getElem? h1.symm

/-- **raise_keeps_allowed**: when the allowed statuses form a prefix of the signed level list (as
in Intel's lists: better levels first), a platform whose selected level is allowed stays allowed
after raising any of its SVNs. -/
theorem raise_keeps_allowed {levels : List TcbLevel} {lax : Bool} {p p' : Plat} (hle : PlatLE p p')
    (hprefix : ∀ pre x post, levels = pre ++ x :: post → statusAllowed lax x.status = true →
      ∀ y ∈ pre, statusAllowed lax y.status = true)
    {lvl : TcbLevel} (h : levels.find? (fun l => l.matches p.sgx p.tdx p.pce) = some lvl)
    (hs : statusAllowed lax lvl.status = true) :
    ∃ lvl', levels.find? (fun l => l.matches p'.sgx p'.tdx p'.pce) = some lvl' ∧
      statusAllowed lax lvl'.status = true := by
  obtain ⟨pre, post, pre', lvl', post', he, he', hf, hlen⟩ := raise_never_worsens hle h
  refine ⟨lvl', hf, ?_⟩
  rcases mem_of_shorter_prefix (he.symm.trans he') hlen with hm | rfl
  · exact hprefix pre lvl post he hs lvl' hm
  · exact hs

/-- The enclave-level search (QE identity, TDX module identity) is monotone too: a higher ISVSVN
selects the same level or an earlier one. -/
theorem enclave_level_raise_never_worsens {levels : List EnclaveLevel} {s s' : Nat} (hle : s ≤ s')
    {l : EnclaveLevel} (h : enclaveLevel levels s = some l) :
    ∃ pre post pre' l' post', levels = pre ++ l :: post ∧ levels = pre' ++ l' :: post' ∧
      enclaveLevel levels s' = some l' ∧ pre'.length ≤ pre.length := by
  unfold enclaveLevel at h ⊢
  obtain ⟨pre, post, he, hx, _⟩ := find?_first h
  obtain ⟨pre', post', y, he', hf, hlen, _⟩ :=
    find?_mono (p := fun (l : EnclaveLevel) => decide (l.isvsvn ≤ s))
      (q := fun (l : EnclaveLevel) => decide (l.isvsvn ≤ s'))
      (fun a ha => by simp only [decide_eq_true_eq] at ha ⊢; omega) he hx
  exact ⟨pre, post, pre', y, post', he, he', hf, hlen⟩

/-! ### the quoting enclave against the QE identity -/

/-- **qe_identity_respected**: for an accepted quote the QE report carries the QE identity's
MRSIGNER and ISVPRODID; on every bit that `miscselectMask` / `attributesMask` selects MISCSELECT,
ATTRIBUTES.flags and ATTRIBUTES.xfrm have the identity's bit, and the identity has no bit outside
its mask; the FIRST level of the identity with `isvsvn ≤` the report's ISVSVN is UpToDate. -/
theorem qe_identity_respected {L : Lib} {env : Env} {policy : Option Policy} {ts : Time}
    {q : Quote} {tcb : Option Bundle} {v : Verified}
    (h : verify L env policy ts q tcb = .ok v) :
    ∃ b qe ms m mm a am lpre l lpost, tcb = some b ∧ L.jsonQe b.qeId.raw = some qe ∧
      hexLen qe.mrSigner 32 = some ms ∧ ms = sgxMrSigner q.qeReport ∧
      qe.isvProdId = sgxIsvProdId q.qeReport ∧
      hexLen qe.miscSelect 4 = some m ∧ hexLen qe.miscSelectMask 4 = some mm ∧
      hexLen qe.attributes 16 = some a ∧ hexLen qe.attributesMask 16 = some am ∧
      (∀ i, ((leNat mm).testBit i = true →
              (sgxMiscSelect q.qeReport).testBit i = (leNat m).testBit i) ∧
            ((leNat mm).testBit i = false → (leNat m).testBit i = false)) ∧
      (∀ i, ((leNat (am.take 8)).testBit i = true →
              (sgxFlags q.qeReport).testBit i = (leNat (a.take 8)).testBit i) ∧
            ((leNat (am.take 8)).testBit i = false → (leNat (a.take 8)).testBit i = false)) ∧
      (∀ i, ((leNat (am.drop 8)).testBit i = true →
              (sgxXfrm q.qeReport).testBit i = (leNat (a.drop 8)).testBit i) ∧
            ((leNat (am.drop 8)).testBit i = false → (leNat (a.drop 8)).testBit i = false)) ∧
      qe.levels = lpre ++ l :: lpost ∧ l.isvsvn ≤ sgxIsvSvn q.qeReport ∧
      (∀ x ∈ lpre, sgxIsvSvn q.qeReport < x.isvsvn) ∧ l.status = 1 := by
  obtain ⟨_, _, _, b, _, qe, _, _, _, hb, _, _, _, _, _, hqe, hrep, _⟩ := verify_binds h
  obtain ⟨_, _, _, _, hj, _⟩ := hqe
  obtain ⟨ms, m, mm, a, am, l, hms, hmse, hprod, hm, hmm, hmisc, ha, ham, hfl, hxf, hlev, hst⟩ := hrep
  obtain ⟨lpre, lpost, hle, hisv, hlpre⟩ := enclaveLevel_first hlev
  exact ⟨b, qe, ms, m, mm, a, am, lpre, l, lpost, hb, hj, hms, hmse, hprod, hm, hmm, ha, ham,
    (masked_eq_iff _ _ _).1 hmisc, (masked_eq_iff _ _ _).1 hfl, (masked_eq_iff _ _ _).1 hxf,
    hle, hisv, hlpre, hst⟩

/-- A QE report that differs from the QE identity on a bit the mask selects is rejected
(MISCSELECT; the same argument applies to the two halves of ATTRIBUTES). -/
theorem qe_miscselect_bit_rejected {L : Lib} {env : Env} {policy : Option Policy} {ts : Time}
    {q : Quote} {b : Bundle} {qe : QeIdentity} {m mm : Bytes} {i : Nat}
    (hj : L.jsonQe b.qeId.raw = some qe)
    (hm : hexLen qe.miscSelect 4 = some m) (hmm : hexLen qe.miscSelectMask 4 = some mm)
    (hsel : (leNat mm).testBit i = true)
    (hdiff : (sgxMiscSelect q.qeReport).testBit i ≠ (leNat m).testBit i)
    (v : Verified) : verify L env policy ts q (some b) ≠ .ok v := by
  intro h
  obtain ⟨b', qe', _, m', mm', _, _, _, _, _, hb, hj', _, _, _, hm', hmm', _, _, hbits, _⟩ :=
    qe_identity_respected h
  cases hb
  rw [hj] at hj'; cases hj'
  rw [hm] at hm'; cases hm'
  rw [hmm] at hmm'; cases hmm'
  exact hdiff ((hbits i).1 hsel)

/-! ### validity windows -/

/-- **window_boundaries**: the window is closed at both ends — collateral is valid at its issue
instant and exactly `validity` days later, and invalid one nanosecond before / after. -/
theorem window_boundaries (issue : Int) (validity : Nat) :
    windowOK issue issue validity = true ∧
    windowOK issue (issue + validity * dayNs) validity = true ∧
    windowOK issue (issue - 1) validity = false ∧
    windowOK issue (issue + validity * dayNs + 1) validity = false := by
  have hd : (0 : Int) ≤ validity * dayNs := by
    have : (0 : Int) ≤ dayNs := by decide
    exact Int.mul_nonneg (Int.natCast_nonneg _) this
  refine ⟨(windowOK_iff _ _ _).2 ⟨Int.le_refl _, by omega⟩,
    (windowOK_iff _ _ _).2 ⟨by omega, Int.le_refl _⟩, ?_, ?_⟩
  · cases hw : windowOK issue (issue - 1) validity
    · rfl
    · have := (windowOK_iff _ _ _).1 hw; omega
  · cases hw : windowOK issue (issue + validity * dayNs + 1) validity
    · rfl
    · have := (windowOK_iff _ _ _).1 hw; omega

/-- **collateral_window_exact**: an accepted quote's TCB info AND QE identity were both issued at
or before the verification time and at most `validity` days (to the nanosecond) before it. -/
theorem collateral_window_exact {L : Lib} {env : Env} {policy : Option Policy} {ts : Int}
    {q : Quote} {tcb : Option Bundle} {v : Verified}
    (h : verify L env policy ts q tcb = .ok v) :
    ∃ b ti qe, ∃ (it iq : Int), tcb = some b ∧ L.jsonTcb b.tcbInfo.raw = some ti ∧
      L.jsonQe b.qeId.raw = some qe ∧ ti.issueDate = some it ∧ qe.issueDate = some iq ∧
      it ≤ ts ∧ ts ≤ it + ((policy.getD defaultPolicy).validity : Int) * dayNs ∧
      iq ≤ ts ∧ ts ≤ iq + ((policy.getD defaultPolicy).validity : Int) * dayNs ∧
      ti.nextUpdateOk = true ∧ qe.nextUpdateOk = true ∧
      (policy.getD defaultPolicy).minEval ≤ ti.evalNum ∧
      (policy.getD defaultPolicy).minEval ≤ qe.evalNum := by
  obtain ⟨_, _, _, b, _, qe, ti, _, _, hb, _, _, _, _, _, hqe, _, hti, _⟩ := verify_binds h
  obtain ⟨_, it, _, _, hjt, _, _, hit, hnt, ⟨ht1, ht2⟩, het, _⟩ := hti
  obtain ⟨_, iq, _, _, hjq, _, _, hiq, hnq, ⟨hq1, hq2⟩, heq⟩ := hqe
  refine ⟨b, ti, qe, it, iq, hb, hjt, hjq, hit, hiq, ht1, ?_, hq1, ?_, hnt, hnq, het, heq⟩
  · have e : ts - it ≤ ((policy.getD defaultPolicy).validity : Int) * dayNs := ht2
    generalize ((policy.getD defaultPolicy).validity : Int) * dayNs = k at e ⊢
    omega
  · have e : ts - iq ≤ ((policy.getD defaultPolicy).validity : Int) * dayNs := hq2
    generalize ((policy.getD defaultPolicy).validity : Int) * dayNs = k at e ⊢
    omega

/-! ### node registration with signed attestations (go/common/node/sgx.go `SGXAttestation.Verify`) -/

/-- **signed_attestation_binds**: an accepted attestation carries a verified quote whose identity
is allowed and whose report data starts with the RAK hash; with `SignedAttestations` the RAK
signature covers exactly (the VERIFIED report data, this node's id, the attestation height, the
REK), the attestation is not from the future and at most `MaxAttestationAge` blocks old (the
constraints' own value, or the consensus default when that is 0). -/
theorem signed_attestation_binds {L : Lib} {rv : Bytes → AttMsg → Bytes → Bool} {env : Env}
    {fs : Features} {sc : Option QPolicy} {scMaxAge : Nat} {ts : Time} {now : Nat} {q : Quote}
    {tcb : Option Bundle} {allowed : List (Bytes × Bytes)} {rak rakHash : Bytes}
    {rek : Option Bytes} {nodeId : Bytes} {sa : SignedAtt}
    (h : attestationVerify L rv env fs sc scMaxAge ts now q tcb allowed rak rakHash rek nodeId sa = .ok) :
    ∃ v, verify L env (effectivePcsPolicy fs sc) ts q tcb = .ok v ∧
      v = identityOf L q.bodyKind q.bodyRaw ∧ (v.mrEnclave, v.mrSigner) ∈ allowed ∧
      slice v.reportData 0 32 = rakHash ∧
      (fs.signedAttestations = true →
        rv rak ⟨(identityOf L q.bodyKind q.bodyRaw).reportData, nodeId, sa.height, rek⟩ sa.sig = true ∧
        sa.height ≤ now ∧ now - sa.height ≤ effectiveMaxAge fs scMaxAge) := by
  unfold attestationVerify at h
  split at h
  · cases h
  · rename_i v hv
    have hid : v = identityOf L q.bodyKind q.bodyRaw := by
      obtain ⟨_, _, _, _, _, _, _, _, _, _, _, _, _, _, _, _, _, _, _, _, _, _, _, _, e⟩ := verify_binds hv
      exact e
    by_cases h1 : (v.mrEnclave, v.mrSigner) ∈ allowed
    · by_cases h2 : slice v.reportData 0 32 = rakHash
      · refine ⟨v, hv, hid, h1, h2, ?_⟩
        intro hsig
        by_cases h3 : rv rak ⟨v.reportData, nodeId, sa.height, rek⟩ sa.sig = true
        · by_cases h4 : now < sa.height
          · simp [h1, h2, hsig, h3, h4] at h
          · by_cases h5 : effectiveMaxAge fs scMaxAge < now - sa.height
            · simp [h1, h2, hsig, h3, h4, h5] at h
            · rw [← hid]
              exact ⟨h3, by omega, by omega⟩
        · simp [h1, h2, hsig, h3] at h
      · simp [h1, h2] at h
    · simp [h1] at h

/-- **attestation_replay_rejected**: under an ideal RAK signature (a signature that verifies was
made by the RAK holder), an attestation the enclave signed for other nodes only is rejected when
another node presents it. -/
theorem attestation_replay_rejected {L : Lib} {rv : Bytes → AttMsg → Bytes → Bool} {env : Env}
    {fs : Features} {sc : Option QPolicy} {scMaxAge : Nat} {ts : Time} {now : Nat} {q : Quote}
    {tcb : Option Bundle} {allowed : List (Bytes × Bytes)} {rak rakHash : Bytes}
    {rek : Option Bytes} {nodeId : Bytes} {sa : SignedAtt} {SignedByRak : AttMsg → Prop}
    (hsigned : fs.signedAttestations = true)
    (hideal : ∀ m s, rv rak m s = true → SignedByRak m)
    (hnever : ∀ m, SignedByRak m → m.nodeId ≠ nodeId) :
    attestationVerify L rv env fs sc scMaxAge ts now q tcb allowed rak rakHash rek nodeId sa ≠ .ok := by
  intro h
  obtain ⟨_, _, _, _, _, hs⟩ := signed_attestation_binds h
  exact hnever _ (hideal _ _ (hs hsigned).1) rfl

/-- **stale_or_future_attestation_rejected**: with signed attestations, an attestation height
above the current height or more than the effective maximum age below it is never accepted. -/
theorem stale_or_future_attestation_rejected {L : Lib} {rv : Bytes → AttMsg → Bytes → Bool}
    {env : Env} {fs : Features} {sc : Option QPolicy} {scMaxAge : Nat} {ts : Time} {now : Nat}
    {q : Quote} {tcb : Option Bundle} {allowed : List (Bytes × Bytes)} {rak rakHash : Bytes}
    {rek : Option Bytes} {nodeId : Bytes} {sa : SignedAtt}
    (hsigned : fs.signedAttestations = true)
    (hbad : now < sa.height ∨ effectiveMaxAge fs scMaxAge < now - sa.height) :
    attestationVerify L rv env fs sc scMaxAge ts now q tcb allowed rak rakHash rek nodeId sa ≠ .ok := by
  intro h
  obtain ⟨_, _, _, _, _, hs⟩ := signed_attestation_binds h
  obtain ⟨_, h1, h2⟩ := hs hsigned
  omega

/-- The maximum age: the constraints' own value unless it is 0, then the consensus default. -/
theorem effective_max_age (fs : Features) (n : Nat) :
    effectiveMaxAge fs 0 = fs.defaultMaxAge ∧ (n ≠ 0 → effectiveMaxAge fs n = n) := by
  unfold effectiveMaxAge
  refine ⟨by simp, fun hn => by simp [hn]⟩

/-- Without the signed-attestation feature `SGXAttestation.Verify` is `registrationOK`. -/
theorem unsigned_attestation_is_registrationOK {L : Lib} {rv : Bytes → AttMsg → Bytes → Bool}
    {env : Env} {fs : Features} {sc : Option QPolicy} {scMaxAge : Nat} {ts : Time} {now : Nat}
    {q : Quote} {tcb : Option Bundle} {allowed : List (Bytes × Bytes)} {rak rakHash : Bytes}
    {rek : Option Bytes} {nodeId : Bytes} {sa : SignedAtt} (hs : fs.signedAttestations = false) :
    attestationVerify L rv env fs sc scMaxAge ts now q tcb allowed rak rakHash rek nodeId sa = .ok ↔
      registrationOK L env fs sc ts q tcb allowed rakHash = true := by
  unfold attestationVerify registrationOK attestationOK
  split
  · simp
  · rename_i v hv
    by_cases h1 : (v.mrEnclave, v.mrSigner) ∈ allowed
    · by_cases h2 : slice v.reportData 0 32 = rakHash
      · simp [h1, h2, hs]
      · simp [h1, h2]
    · simp [h1]

/-! ### descriptor validation and the TDX feature flag -/

/-- A descriptor that passes `SGXConstraints.ValidateBasic` while the TDX feature is off carries
no TDX policy. -/
theorem validateBasic_no_tdx_policy {fs : Features} {is261 : Bool} {ver : Nat} {p : QPolicy}
    {x : Policy} (hv : constraintsValidateBasic fs is261 ver (some p) = true) (ht : fs.tdx = false)
    (hx : p.pcs = some x) : x.tdx = none := by
  unfold constraintsValidateBasic at hv
  split at hv
  · cases hv
  · split at hv
    · cases hv
    · simp only [ht, Bool.not_false, Bool.true_and, hx] at hv
      split at hv
      · cases hv
      · rename_i h
        cases hx' : x.tdx with
        | none => rfl
        | some m => simp [hx'] at h

/-- **tdx_quote_needs_tdx_feature**: with the TDX feature off, a validated descriptor and a
consensus default policy without a TDX part, no TDX quote is ever accepted at node registration —
whatever shape the descriptor's policy has and however the defaults are filled in. -/
theorem tdx_quote_needs_tdx_feature {L : Lib} {env : Env} {fs : Features} {sc : Option QPolicy}
    {is261 : Bool} {ver : Nat} {ts : Time} {q : Quote} {tcb : Option Bundle}
    (hv : constraintsValidateBasic fs is261 ver sc = true) (ht : fs.tdx = false)
    (hd : ∀ d x, fs.defaultPolicy = some d → d.pcs = some x → x.tdx = none)
    (htee : q.teeType = teeTDX) (v : Verified) :
    verify L env (effectivePcsPolicy fs sc) ts q tcb ≠ .ok v := by
  apply tdx_policy_rejected htee
  intro mods hm
  exfalso
  -- the policy that reaches the verifier has no TDX part
  have key : ∀ x, effectivePcsPolicy fs sc = some x → x.tdx = none := by
    intro x hx
    unfold effectivePcsPolicy applyDefaults at hx
    cases hdp : fs.defaultPolicy with
    | none =>
      rw [hdp] at hx
      cases sc with
      | none => simp at hx
      | some p =>
        simp only [Option.getD_some] at hx
        exact validateBasic_no_tdx_policy hv ht hx
    | some d =>
      rw [hdp] at hx
      cases sc with
      | none =>
        by_cases hp : fs.pcs = true
        · simp [hp] at hx
          exact hd d x hdp hx
        · simp [hp] at hx
      | some p =>
        cases hpp : p.pcs with
        | some y =>
          have : x = y := by
            by_cases hi : p.ias.isNone <;> simp [hi, hpp] at hx <;> exact hx.symm
          subst this
          exact validateBasic_no_tdx_policy hv ht hpp
        | none =>
          by_cases hp : fs.pcs = true
          · have : d.pcs = some x := by
              by_cases hi : p.ias.isNone <;> simp [hi, hpp, hp] at hx <;> exact hx
            exact hd d x hdp this
          · by_cases hi : p.ias.isNone <;> simp [hi, hpp, hp] at hx
  cases he : effectivePcsPolicy fs sc with
  | none =>
    rw [he] at hm
    simp [defaultPolicy] at hm
  | some x =>
    rw [he] at hm
    simp only [Option.getD_some] at hm
    rw [key x he] at hm
    cases hm

/-- The hypothesis `hd` of `tdx_quote_needs_tdx_feature` is necessary: `ValidateBasic` looks at the
descriptor's own policy only, BEFORE the defaults are applied, and nothing else reads the TDX
feature flag. With the TDX feature off, a consensus default PCS policy that carries a TDX part
reaches the verifier for every descriptor that sets no PCS policy (a parameter inconsistency only
governance can create; reported as an observation, not a finding). -/
def fsTdxOffDefaultTdx : Features :=
  { pcs := true, defaultPolicy := some { ias := none, pcs := some { defaultPolicy with tdx := some [] } },
    tdx := false }
example : constraintsValidateBasic fsTdxOffDefaultTdx true 1 none = true ∧
    ((effectivePcsPolicy fsTdxOffDefaultTdx none).getD defaultPolicy).tdx = some [] := by decide

/-! ### non-vacuity -/

/-- A TDX platform with module version 0 and module SVN 2 against levels [3,0,5,…] UpToDate and
[2,0,5,…] OutOfDate (the shape of Intel's lists): it reaches the second level only. The first
level is matched by a platform with module SVN 3. -/
def lvUp : TcbLevel := ⟨11, List.replicate 16 2, [3, 0, 5] ++ List.replicate 13 0, 1⟩
def lvOld : TcbLevel := ⟨11, List.replicate 16 2, [2, 0, 5] ++ List.replicate 13 0, 5⟩
def tiDemo : TcbInfo :=
  { id := sTDX, version := 3, issueDate := some 0, nextUpdateOk := true, fmspc := [], evalNum := 17,
    levels := [lvUp, lvOld], modules := [] }
def teeStale : List Nat := [2, 0, 5] ++ List.replicate 13 0
def teeGood : List Nat := [3, 0, 5] ++ List.replicate 13 0

def selects (r : Except Stage TcbLevel) (l : TcbLevel) : Bool :=
  match r with
  | .ok x => x == l
  | .error _ => false
example : selects (getTcbLevel tiDemo (List.replicate 16 2) (some teeStale) 11) lvOld = true := by decide
example : selects (getTcbLevel tiDemo (List.replicate 16 2) (some teeGood) 11) lvUp = true := by decide
example : lvUp.matches (List.replicate 16 2) (some teeStale) 11 = false := by decide
example : statusAllowed false lvOld.status = false := by decide
/-- With module version 1 the same level list ignores indexes 0 and 1. -/
example : lvUp.matches (List.replicate 16 2) (some ([0, 1, 5] ++ List.replicate 13 0)) 11 = true := by
  decide
example : PlatLE ⟨List.replicate 16 2, some teeStale, 11⟩ ⟨List.replicate 16 2, some teeGood, 11⟩ := by
  refine ⟨fun _ => Int.le_refl _, Nat.le_refl _, ?_⟩
  intro i
  match i with
  | 0 => decide
  | 1 => decide
  | 2 => decide
  | n + 3 => simp [teeStale, teeGood]

end OasisProofs.C18Tcb
