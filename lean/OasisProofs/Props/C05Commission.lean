import OasisModel.Staking.Commission
/-
Commission schedules (C05 / C10 / C15): what a schedule accepted by `AmendAndPruneAndValidate`
(transaction `staking.AmendCommissionSchedule`) or by `PruneAndValidate` (genesis) guarantees.

  * `currentRate_within` — under `Valid` (every rate step between the minimum commission rate and
    the denominator) `CurrentRate(epoch)` is, for every epoch, between the minimum and 100 %;
  * `amend_valid`, `genesis_valid` — `Valid` is established by the genesis check and preserved by
    every accepted amendment (whatever the old schedule's pruning state, the amendment, the epoch);
  * `commission_le_reward` — hence `computeCommission` with the rate in force never fails and the
    commission never exceeds the reward;
  * `withinBound_rate_in_bounds`, `withinBound_rate_iff_bound`, `amend_rate_in_bounds`,
    `genesis_rate_in_bounds` — for every epoch from the validation epoch on, a rate is in force iff a
    bound is in force, and the rate lies within that bound (correctness of the merge walk of
    `validateWithinBound` for every pair of step lists);
  * `amend_sorted`, `genesis_sorted` — step lists stay strictly ordered by start epoch, so
    `CurrentRate` is the step with the greatest start that has begun (`currentRate_latest`);
  * `amend_keeps_current_rate` — an accepted amendment does not alter the rate in force at the
    current epoch (no retroactive change).
-/
set_option linter.unusedSimpArgs false
set_option linter.unusedVariables false

namespace OasisProofs.C05Commission
open OasisModel OasisModel.Staking OasisModel.Staking.SharePool OasisModel.Staking.Schedule

/-! ### Rates between the minimum and the denominator -/

def RatesWithin (lo hi : Nat) (rs : List RateStep) : Prop := ∀ st ∈ rs, lo ≤ st.rate ∧ st.rate ≤ hi

/-- Every rate step of the schedule lies between `MinCommissionRate` and `CommissionRateDenominator`. -/
def Valid (r : Rules) (s : Schedule) : Prop := RatesWithin r.minCommissionRate commissionRateDenominator s.rates

theorem ratesOk_within (r : Rules) (prev : Option Nat) (rs : List RateStep) (h : ratesOk r prev rs = true) :
    RatesWithin r.minCommissionRate commissionRateDenominator rs := by
  induction rs generalizing prev with
  | nil => intro st hst; cases hst
  | cons a rest ih =>
    simp only [ratesOk, rateStepOk, Bool.and_eq_true, decide_eq_true_eq] at h
    intro st hst
    rcases List.mem_cons.1 hst with rfl | hst
    · exact ⟨h.1.2, h.1.1.2⟩
    · exact ih _ h.2 st hst

theorem pruneRates_suffix (now : Nat) (rs : List RateStep) : ∃ pre, rs = pre ++ pruneRates now rs := by
  induction rs with
  | nil => exact ⟨[], rfl⟩
  | cons a rest ih =>
    cases rest with
    | nil => exact ⟨[], rfl⟩
    | cons b rest' =>
      simp only [pruneRates]
      split
      · obtain ⟨pre, hpre⟩ := ih
        exact ⟨a :: pre, by rw [List.cons_append, ← hpre]⟩
      · exact ⟨[], rfl⟩

theorem pruneBounds_suffix (now : Nat) (bs : List BoundStep) : ∃ pre, bs = pre ++ pruneBounds now bs := by
  induction bs with
  | nil => exact ⟨[], rfl⟩
  | cons a rest ih =>
    cases rest with
    | nil => exact ⟨[], rfl⟩
    | cons b rest' =>
      simp only [pruneBounds]
      split
      · obtain ⟨pre, hpre⟩ := ih
        exact ⟨a :: pre, by rw [List.cons_append, ← hpre]⟩
      · exact ⟨[], rfl⟩

theorem pruneRates_mem (now : Nat) (rs : List RateStep) (st : RateStep) (h : st ∈ pruneRates now rs) : st ∈ rs := by
  obtain ⟨pre, hpre⟩ := pruneRates_suffix now rs
  rw [hpre]; exact List.mem_append_right _ h

theorem mem_takeWhile_imp {α : Type} (p : α → Bool) (l : List α) (x : α) (h : x ∈ l.takeWhile p) : p x = true := by
  induction l with
  | nil => cases h
  | cons a rest ih =>
    simp only [List.takeWhile] at h
    split at h
    · rename_i hp
      rcases List.mem_cons.1 h with rfl | h
      · exact hp
      · exact ih h
    · cases h

theorem amend_rates_mem (s am : Schedule) (st : RateStep) (h : st ∈ (s.amend am).rates) :
    st ∈ s.rates ∨ st ∈ am.rates := by
  unfold amend at h
  simp only at h
  split at h
  · exact Or.inl h
  · rename_i a rest heq
    rcases List.mem_append.1 h with h | h
    · exact Or.inl ((List.takeWhile_sublist _).subset h)
    · exact Or.inr h

theorem currentRateAux_mem (latest : Option Nat) (now : Nat) (rs : List RateStep) (x : Nat)
    (h : currentRateAux latest now rs = some x) : latest = some x ∨ ∃ st ∈ rs, st.rate = x := by
  induction rs generalizing latest with
  | nil => exact Or.inl h
  | cons a rest ih =>
    simp only [currentRateAux] at h
    split at h
    · exact Or.inl h
    · rcases ih _ h with h | ⟨st, hst, hx⟩
      · injection h with h; exact Or.inr ⟨a, List.mem_cons_self .., h⟩
      · exact Or.inr ⟨st, List.mem_cons_of_mem _ hst, hx⟩

/-- **`CurrentRate` never exceeds 100 %** (and never undercuts the minimum) for a valid schedule. -/
theorem currentRate_within (r : Rules) (s : Schedule) (t x : Nat) (hv : Valid r s)
    (h : s.currentRate t = some x) : r.minCommissionRate ≤ x ∧ x ≤ commissionRateDenominator := by
  rcases currentRateAux_mem none t s.rates x h with h | ⟨st, hst, hx⟩
  · cases h
  · rw [← hx]; exact hv st hst

/-- **Every accepted amendment keeps the schedule valid** — for any old schedule (pruned or not),
any amendment and any epoch. -/
theorem amend_valid (r : Rules) (s am s' : Schedule) (now : Nat) (hv : Valid r s)
    (h : s.amendAndPruneAndValidate am r now = some s') : Valid r s' := by
  unfold amendAndPruneAndValidate at h
  split at h; · cases h
  split at h; · cases h
  rename_i hnd
  split at h; · cases h
  simp only at h
  split at h; · cases h
  split at h
  · injection h with h; subst h
    intro st hst
    rcases amend_rates_mem _ _ st hst with h1 | h2
    · exact hv st (pruneRates_mem now _ st h1)
    · have hnd' : am.nondegenerate r = true := by simpa using hnd
      simp only [nondegenerate, Bool.and_eq_true] at hnd'
      exact ratesOk_within r none am.rates hnd'.1 st h2
  · cases h

/-- **The genesis check establishes validity** (of the stored schedule and of its pruned form). -/
theorem genesis_valid (r : Rules) (s p : Schedule) (now : Nat) (h : s.pruneAndValidate r now = some p) :
    Valid r s ∧ Valid r p := by
  unfold pruneAndValidate at h
  split at h; · cases h
  split at h; · cases h
  rename_i hnd
  have hnd' : s.nondegenerate r = true := by simpa using hnd
  simp only [nondegenerate, Bool.and_eq_true] at hnd'
  have hs := ratesOk_within r none s.rates hnd'.1
  simp only at h
  split at h
  · injection h with h; subst h
    exact ⟨hs, fun st hst => hs st (pruneRates_mem now _ st hst)⟩
  · cases h

/-- **Commission can never exceed the reward**: with a rate of at most 100 % (the rate in force of a
valid schedule, or the minimum commission rate when none is) `computeCommission` succeeds and splits
the amount exactly. -/
theorem commission_le_reward (r : Rules) (s : Schedule) (t q : Nat) (hv : Valid r s)
    (hmin : r.minCommissionRate ≤ commissionRateDenominator) :
    ∃ com rest, computeCommission ((s.currentRate t).getD r.minCommissionRate) q = .ok (com, rest) ∧
      com + rest = q ∧ com ≤ q := by
  have hrate : (s.currentRate t).getD r.minCommissionRate ≤ commissionRateDenominator := by
    cases hc : s.currentRate t with
    | none => simpa using hmin
    | some x => simpa using (currentRate_within r s t x hv hc).2
  unfold computeCommission
  have hle : q * (s.currentRate t).getD r.minCommissionRate / commissionRateDenominator ≤ q := by
    apply Nat.div_le_of_le_mul
    rw [Nat.mul_comm commissionRateDenominator q]
    exact Nat.mul_le_mul_left q hrate
  simp only [Nat.not_lt.mpr hle, if_false]
  exact ⟨_, _, rfl, by omega, hle⟩

/-! ### The merge walk of `validateWithinBound` -/

/-- What the walk establishes: from any epoch at which both the rate step `r` and the bound step `b`
have started, the rate in force lies within the bound in force. -/
theorem walk_spec (r : RateStep) (b : BoundStep) (rs : List RateStep) (bs : List BoundStep)
    (h : walk r b rs bs = true) (t : Nat) :
    ∃ x bb, currentRateAux (some r.rate) t rs = some x ∧ currentBoundAux (some b) t bs = some bb ∧
      bb.rateMin ≤ x ∧ x ≤ bb.rateMax := by
  induction r, b, rs, bs using walk.induct with
  | case1 r b rs bs hbad => unfold walk at h; simp [hbad] at h
  | case2 r b hok =>
    have : b.rateMin ≤ r.rate ∧ r.rate ≤ b.rateMax := by
      simp only [Bool.or_eq_true, decide_eq_true_eq, not_or, Nat.not_lt] at hok; exact hok
    exact ⟨r.rate, b, rfl, rfl, this.1, this.2⟩
  | case3 r b hok r' rs' ih =>
    have hin : b.rateMin ≤ r.rate ∧ r.rate ≤ b.rateMax := by
      simp only [Bool.or_eq_true, decide_eq_true_eq, not_or, Nat.not_lt] at hok; exact hok
    unfold walk at h; simp only [hok] at h
    by_cases ht : t < r'.start
    · exact ⟨r.rate, b, by simp [currentRateAux, ht], rfl, hin.1, hin.2⟩
    · obtain ⟨x, bb, h1, h2, h3⟩ := ih (by simpa using h)
      exact ⟨x, bb, by simp only [currentRateAux, ht, if_false]; exact h1, h2, h3⟩
  | case4 r b hok b' bs' ih =>
    have hin : b.rateMin ≤ r.rate ∧ r.rate ≤ b.rateMax := by
      simp only [Bool.or_eq_true, decide_eq_true_eq, not_or, Nat.not_lt] at hok; exact hok
    unfold walk at h; simp only [hok] at h
    by_cases ht : t < b'.start
    · exact ⟨r.rate, b, rfl, by simp [currentBoundAux, ht], hin.1, hin.2⟩
    · obtain ⟨x, bb, h1, h2, h3⟩ := ih (by simpa using h)
      exact ⟨x, bb, h1, by simp only [currentBoundAux, ht, if_false]; exact h2, h3⟩
  | case5 r b hok r' rs' b' bs' hlt ih =>
    have hin : b.rateMin ≤ r.rate ∧ r.rate ≤ b.rateMax := by
      simp only [Bool.or_eq_true, decide_eq_true_eq, not_or, Nat.not_lt] at hok; exact hok
    unfold walk at h; simp only [hok, hlt] at h
    by_cases ht : t < r'.start
    · have ht' : t < b'.start := by omega
      exact ⟨r.rate, b, by simp [currentRateAux, ht], by simp [currentBoundAux, ht'], hin.1, hin.2⟩
    · obtain ⟨x, bb, h1, h2, h3⟩ := ih (by simpa using h)
      exact ⟨x, bb, by simp only [currentRateAux, ht, if_false]; exact h1, h2, h3⟩
  | case6 r b hok r' rs' b' bs' hnlt hlt ih =>
    have hin : b.rateMin ≤ r.rate ∧ r.rate ≤ b.rateMax := by
      simp only [Bool.or_eq_true, decide_eq_true_eq, not_or, Nat.not_lt] at hok; exact hok
    unfold walk at h; simp only [hok, hnlt, hlt] at h
    by_cases ht : t < b'.start
    · have ht' : t < r'.start := by omega
      exact ⟨r.rate, b, by simp [currentRateAux, ht'], by simp [currentBoundAux, ht], hin.1, hin.2⟩
    · obtain ⟨x, bb, h1, h2, h3⟩ := ih (by simpa using h)
      exact ⟨x, bb, h1, by simp only [currentBoundAux, ht, if_false]; exact h2, h3⟩
  | case7 r b hok r' rs' b' bs' hnlt hnlt' ih =>
    have hin : b.rateMin ≤ r.rate ∧ r.rate ≤ b.rateMax := by
      simp only [Bool.or_eq_true, decide_eq_true_eq, not_or, Nat.not_lt] at hok; exact hok
    unfold walk at h; simp only [hok, hnlt, hnlt'] at h
    have heq : r'.start = b'.start := by omega
    by_cases ht : t < r'.start
    · have ht' : t < b'.start := by omega
      exact ⟨r.rate, b, by simp [currentRateAux, ht], by simp [currentBoundAux, ht'], hin.1, hin.2⟩
    · have ht' : ¬ t < b'.start := by omega
      obtain ⟨x, bb, h1, h2, h3⟩ := ih (by simpa using h)
      exact ⟨x, bb, by simp only [currentRateAux, ht, if_false]; exact h1,
        by simp only [currentBoundAux, ht', if_false]; exact h2, h3⟩

/-- **The rate in force lies within the bound in force** at every epoch at which both exist, for
every schedule that passes `validateWithinBound`. -/
theorem withinBound_rate_in_bounds (s : Schedule) (now t x : Nat) (bb : BoundStep)
    (h : s.withinBound now = true) (hr : s.currentRate t = some x) (hb : s.currentBound t = some bb) :
    bb.rateMin ≤ x ∧ x ≤ bb.rateMax := by
  unfold withinBound at h
  unfold currentRate at hr
  unfold currentBound at hb
  split at h
  · rename_i h1 h2; rw [h1] at hr; cases hr
  · cases h
  · cases h
  · rename_i r rs b bs h1 h2
    rw [h1] at hr; rw [h2] at hb
    split at h; · cases h
    simp only [currentRateAux] at hr
    simp only [currentBoundAux] at hb
    split at hr; · cases hr
    split at hb; · cases hb
    obtain ⟨x', bb', h1', h2', h3'⟩ := walk_spec r b rs bs h t
    rw [h1'] at hr; rw [h2'] at hb
    injection hr with hr; injection hb with hb
    subst hr; subst hb; exact h3'

/-- **From the validation epoch on a rate is in force iff a bound is in force** (the two step lists
either both have a started step, or start together in the future). -/
theorem withinBound_rate_iff_bound (s : Schedule) (now t : Nat) (h : s.withinBound now = true) (ht : now ≤ t) :
    (s.currentRate t).isSome = (s.currentBound t).isSome := by
  unfold withinBound at h
  unfold currentRate currentBound
  split at h
  · rename_i h1 h2; rw [h1, h2]; rfl
  · cases h
  · cases h
  · rename_i r rs b bs h1 h2
    rw [h1, h2]
    split at h; · cases h
    rename_i hst
    simp only [currentRateAux, currentBoundAux]
    have hw := walk_spec r b rs bs h t
    obtain ⟨x, bb, hx, hbb, _⟩ := hw
    by_cases h1 : t < r.start
    · have : t < b.start := by
        simp only [Bool.and_eq_true, Bool.or_eq_true, decide_eq_true_eq, bne_iff_ne, ne_eq, not_and,
          Decidable.not_not] at hst
        have := hst (Or.inl (by omega)); omega
      simp [h1, this]
    · by_cases h2 : t < b.start
      · have : t < r.start := by
          simp only [Bool.and_eq_true, Bool.or_eq_true, decide_eq_true_eq, bne_iff_ne, ne_eq, not_and,
            Decidable.not_not] at hst
          have := hst (Or.inr (by omega)); omega
        exact absurd this h1
      · simp [h1, h2, hx, hbb]

/-- An accepted amendment has passed `validateWithinBound` at the current epoch. -/
theorem amend_withinBound (r : Rules) (s am s' : Schedule) (now : Nat)
    (h : s.amendAndPruneAndValidate am r now = some s') : s'.withinBound now = true := by
  unfold amendAndPruneAndValidate at h
  split at h; · cases h
  split at h; · cases h
  split at h; · cases h
  simp only at h
  split at h; · cases h
  split at h
  · rename_i hw; injection h with h; subst h; exact hw
  · cases h

/-- **After an accepted amendment the rate in force stays within the bound in force**, at every
epoch from the current one on; and a rate is in force exactly when a bound is. -/
theorem amend_rate_in_bounds (r : Rules) (s am s' : Schedule) (now t : Nat)
    (h : s.amendAndPruneAndValidate am r now = some s') (ht : now ≤ t) :
    (s'.currentRate t).isSome = (s'.currentBound t).isSome ∧
    ∀ x bb, s'.currentRate t = some x → s'.currentBound t = some bb → bb.rateMin ≤ x ∧ x ≤ bb.rateMax :=
  ⟨withinBound_rate_iff_bound s' now t (amend_withinBound r s am s' now h) ht,
   fun x bb hx hb => withinBound_rate_in_bounds s' now t x bb (amend_withinBound r s am s' now h) hx hb⟩

/-! ### Step lists stay strictly ordered -/

def SortedR (rs : List RateStep) : Prop := rs.Pairwise (fun a b => a.start < b.start)
def SortedB (bs : List BoundStep) : Prop := bs.Pairwise (fun a b => a.start < b.start)

theorem ratesOk_sorted (r : Rules) (prev : Option Nat) (rs : List RateStep) (h : ratesOk r prev rs = true) :
    SortedR rs ∧ ∀ p, prev = some p → ∀ st ∈ rs, p < st.start := by
  induction rs generalizing prev with
  | nil => exact ⟨List.Pairwise.nil, fun _ _ _ hst => by cases hst⟩
  | cons a rest ih =>
    simp only [ratesOk, rateStepOk, Bool.and_eq_true, decide_eq_true_eq] at h
    obtain ⟨hs, hp⟩ := ih _ h.2
    have hgt := hp a.start rfl
    refine ⟨List.pairwise_cons.2 ⟨hgt, hs⟩, ?_⟩
    intro p hpe st hst
    subst hpe
    have hpa : p < a.start := by simpa using h.1.1.1.2
    rcases List.mem_cons.1 hst with rfl | hst
    · exact hpa
    · exact Nat.lt_trans hpa (hgt st hst)

theorem boundsOk_sorted (r : Rules) (prev : Option Nat) (bs : List BoundStep) (h : boundsOk r prev bs = true) :
    SortedB bs ∧ ∀ p, prev = some p → ∀ st ∈ bs, p < st.start := by
  induction bs generalizing prev with
  | nil => exact ⟨List.Pairwise.nil, fun _ _ _ hst => by cases hst⟩
  | cons a rest ih =>
    simp only [boundsOk, boundStepOk, Bool.and_eq_true, decide_eq_true_eq] at h
    obtain ⟨hs, hp⟩ := ih _ h.2
    have hgt := hp a.start rfl
    refine ⟨List.pairwise_cons.2 ⟨hgt, hs⟩, ?_⟩
    intro p hpe st hst
    subst hpe
    have hpa : p < a.start := by simpa using h.1.1.1.1.1.1.2
    rcases List.mem_cons.1 hst with rfl | hst
    · exact hpa
    · exact Nat.lt_trans hpa (hgt st hst)

theorem sortedR_suffix (pre rs : List RateStep) (h : SortedR (pre ++ rs)) : SortedR rs :=
  (List.pairwise_append.1 h).2.1

theorem sortedB_suffix (pre bs : List BoundStep) (h : SortedB (pre ++ bs)) : SortedB bs :=
  (List.pairwise_append.1 h).2.1

theorem pruneRates_sorted (now : Nat) (rs : List RateStep) (h : SortedR rs) : SortedR (pruneRates now rs) := by
  obtain ⟨pre, hpre⟩ := pruneRates_suffix now rs
  rw [hpre] at h; exact sortedR_suffix _ _ h

theorem pruneBounds_sorted (now : Nat) (bs : List BoundStep) (h : SortedB bs) : SortedB (pruneBounds now bs) := by
  obtain ⟨pre, hpre⟩ := pruneBounds_suffix now bs
  rw [hpre] at h; exact sortedB_suffix _ _ h

theorem splice_sortedR (rs am : List RateStep) (a : RateStep) (rest : List RateStep) (ham : am = a :: rest)
    (h1 : SortedR rs) (h2 : SortedR am) :
    SortedR (rs.takeWhile (fun st => decide (st.start < a.start)) ++ am) := by
  refine List.pairwise_append.2 ⟨List.Pairwise.sublist (List.takeWhile_sublist _) h1, h2, ?_⟩
  intro x hx y hy
  have hxa : x.start < a.start := by simpa using mem_takeWhile_imp _ _ _ hx
  subst ham
  rcases List.mem_cons.1 hy with rfl | hy
  · exact hxa
  · exact Nat.lt_trans hxa ((List.pairwise_cons.1 h2).1 y hy)

theorem splice_sortedB (bs am : List BoundStep) (a : BoundStep) (rest : List BoundStep) (ham : am = a :: rest)
    (h1 : SortedB bs) (h2 : SortedB am) :
    SortedB (bs.takeWhile (fun st => decide (st.start < a.start)) ++ am) := by
  refine List.pairwise_append.2 ⟨List.Pairwise.sublist (List.takeWhile_sublist _) h1, h2, ?_⟩
  intro x hx y hy
  have hxa : x.start < a.start := by simpa using mem_takeWhile_imp _ _ _ hx
  subst ham
  rcases List.mem_cons.1 hy with rfl | hy
  · exact hxa
  · exact Nat.lt_trans hxa ((List.pairwise_cons.1 h2).1 y hy)

/-- Both step lists strictly ordered by start epoch. -/
def Sorted (s : Schedule) : Prop := SortedR s.rates ∧ SortedB s.bounds

/-- **An accepted amendment keeps both step lists strictly ordered.** -/
theorem amend_sorted (r : Rules) (s am s' : Schedule) (now : Nat) (hs : Sorted s)
    (h : s.amendAndPruneAndValidate am r now = some s') : Sorted s' := by
  unfold amendAndPruneAndValidate at h
  split at h; · cases h
  split at h; · cases h
  rename_i hnd
  have hnd' : am.nondegenerate r = true := by simpa using hnd
  simp only [nondegenerate, Bool.and_eq_true] at hnd'
  split at h; · cases h
  simp only at h
  split at h; · cases h
  split at h
  · injection h with h; subst h
    constructor
    · show SortedR ((s.prune now).amend am).rates
      unfold amend; simp only
      split
      · exact pruneRates_sorted now _ hs.1
      · rename_i a rest heq
        exact splice_sortedR _ _ a rest heq (pruneRates_sorted now _ hs.1) (ratesOk_sorted r none _ hnd'.1).1
    · show SortedB ((s.prune now).amend am).bounds
      unfold amend; simp only
      split
      · exact pruneBounds_sorted now _ hs.2
      · rename_i a rest heq
        exact splice_sortedB _ _ a rest heq (pruneBounds_sorted now _ hs.2) (boundsOk_sorted r none _ hnd'.2).1
  · cases h

/-- **The genesis check establishes the ordering.** -/
theorem genesis_sorted (r : Rules) (s p : Schedule) (now : Nat) (h : s.pruneAndValidate r now = some p) :
    Sorted s ∧ Sorted p := by
  unfold pruneAndValidate at h
  split at h; · cases h
  split at h; · cases h
  rename_i hnd
  have hnd' : s.nondegenerate r = true := by simpa using hnd
  simp only [nondegenerate, Bool.and_eq_true] at hnd'
  have h1 := (ratesOk_sorted r none _ hnd'.1).1
  have h2 := (boundsOk_sorted r none _ hnd'.2).1
  simp only at h
  split at h
  · injection h with h; subst h
    exact ⟨⟨h1, h2⟩, ⟨pruneRates_sorted now _ h1, pruneBounds_sorted now _ h2⟩⟩
  · cases h

/-- The genesis check also validates the bounds walk (of the pruned schedule). -/
theorem genesis_rate_in_bounds (r : Rules) (s p : Schedule) (now t : Nat)
    (h : s.pruneAndValidate r now = some p) (ht : now ≤ t) :
    (p.currentRate t).isSome = (p.currentBound t).isSome ∧
    ∀ x bb, p.currentRate t = some x → p.currentBound t = some bb → bb.rateMin ≤ x ∧ x ≤ bb.rateMax := by
  have hw : p.withinBound now = true := by
    unfold pruneAndValidate at h
    split at h; · cases h
    split at h; · cases h
    simp only at h
    split at h
    · rename_i hw; injection h with h; subst h; exact hw
    · cases h
  exact ⟨withinBound_rate_iff_bound p now t hw ht, fun x bb hx hb => withinBound_rate_in_bounds p now t x bb hw hx hb⟩

/-! ### `CurrentRate` on ordered lists; pruning and amending do not touch the rate in force -/

/-- On an ordered list `CurrentRate` is the rate of the started step with the greatest start. -/
theorem currentRate_latest (latest : Option Nat) (now x : Nat) (rs : List RateStep) (hs : SortedR rs)
    (h : currentRateAux latest now rs = some x) :
    (latest = some x ∧ ∀ st ∈ rs, now < st.start) ∨
    ∃ st ∈ rs, st.rate = x ∧ st.start ≤ now ∧ ∀ st' ∈ rs, st'.start ≤ now → st'.start ≤ st.start := by
  induction rs generalizing latest with
  | nil => exact Or.inl ⟨h, fun _ hst => by cases hst⟩
  | cons a rest ih =>
    have hpw := List.pairwise_cons.1 hs
    simp only [currentRateAux] at h
    split at h
    · rename_i hlt
      refine Or.inl ⟨h, ?_⟩
      intro st hst
      rcases List.mem_cons.1 hst with rfl | hst
      · exact hlt
      · exact Nat.lt_trans hlt (hpw.1 st hst)
    · rename_i hge
      rcases ih _ hpw.2 h with ⟨hl, hall⟩ | ⟨st, hst, hx, hle, hmax⟩
      · injection hl with hl
        refine Or.inr ⟨a, List.mem_cons_self .., hl, by omega, ?_⟩
        intro st' hst' hle'
        rcases List.mem_cons.1 hst' with rfl | hst'
        · exact Nat.le_refl _
        · have := hall st' hst'; omega
      · refine Or.inr ⟨st, List.mem_cons_of_mem _ hst, hx, hle, ?_⟩
        intro st' hst' hle'
        rcases List.mem_cons.1 hst' with rfl | hst'
        · exact Nat.le_of_lt (hpw.1 st hst)
        · exact hmax st' hst' hle'

/-- Pruning either changes nothing or cuts the list in front of a step that has started. -/
theorem pruneRates_cases (now : Nat) (rs : List RateStep) :
    (pruneRates now rs = rs) ∨
    ∃ pre a rest, rs = pre ++ a :: rest ∧ pruneRates now rs = a :: rest ∧ a.start ≤ now ∧ pre ≠ [] := by
  induction rs with
  | nil => exact Or.inl rfl
  | cons a rest ih =>
    cases rest with
    | nil => exact Or.inl rfl
    | cons b rest' =>
      simp only [pruneRates]
      split
      · rename_i hb
        rcases ih with heq | ⟨pre, a', rest'', h1, h2, h3, h4⟩
        · exact Or.inr ⟨[a], b, rest', rfl, heq, hb, by simp⟩
        · exact Or.inr ⟨a :: pre, a', rest'', by rw [h1]; rfl, h2, h3, by simp⟩
      · exact Or.inl rfl

/-- Steps are only looked at in order, so a started step overrides everything before it. -/
theorem currentRateAux_started (l1 l2 : Option Nat) (t : Nat) (a : RateStep) (rest : List RateStep)
    (ha : a.start ≤ t) : currentRateAux l1 t (a :: rest) = currentRateAux l2 t (a :: rest) := by
  simp only [currentRateAux, Nat.not_lt.mpr ha, if_false]

theorem currentRateAux_skip (latest : Option Nat) (t : Nat) (pre : List RateStep) (a : RateStep)
    (rest : List RateStep) (hs : SortedR (pre ++ a :: rest)) (ha : a.start ≤ t) :
    currentRateAux latest t (pre ++ a :: rest) = currentRateAux none t (a :: rest) := by
  induction pre generalizing latest with
  | nil => exact currentRateAux_started _ _ t a rest ha
  | cons p pre' ih =>
    have hpw := List.pairwise_cons.1 hs
    have hpa : p.start < a.start := hpw.1 a (List.mem_append_right _ (List.mem_cons_self ..))
    simp only [List.cons_append, currentRateAux]
    have : ¬ t < p.start := by omega
    simp only [this, if_false]
    exact ih _ hpw.2

/-- **Pruning does not change the rate in force** at the pruning epoch or later. -/
theorem currentRate_prune (s : Schedule) (now t : Nat) (hs : SortedR s.rates) (ht : now ≤ t) :
    (s.prune now).currentRate t = s.currentRate t := by
  unfold currentRate prune
  simp only
  rcases pruneRates_cases now s.rates with heq | ⟨pre, a, rest, h1, h2, h3, _⟩
  · rw [heq]
  · rw [h2]
    conv => rhs; rw [h1]
    rw [h1] at hs
    exact (currentRateAux_skip none t pre a rest hs (by omega)).symm

theorem currentRateAux_append_future (latest : Option Nat) (t : Nat) (l1 l2 : List RateStep)
    (h2 : ∀ st ∈ l2.head?, t < st.start) :
    currentRateAux latest t (l1 ++ l2) = currentRateAux latest t l1 := by
  induction l1 generalizing latest with
  | nil =>
    cases l2 with
    | nil => rfl
    | cons a rest =>
      have := h2 a (by simp)
      simp [currentRateAux, this]
  | cons p l1' ih =>
    simp only [List.cons_append, currentRateAux]
    split
    · rfl
    · exact ih _

theorem currentRateAux_takeWhile (latest : Option Nat) (t bound : Nat) (rs : List RateStep) (hs : SortedR rs)
    (hb : t < bound) :
    currentRateAux latest t (rs.takeWhile (fun st => decide (st.start < bound))) = currentRateAux latest t rs := by
  induction rs generalizing latest with
  | nil => rfl
  | cons a rest ih =>
    have hpw := List.pairwise_cons.1 hs
    simp only [List.takeWhile]
    by_cases ha : a.start < bound
    · simp only [ha, decide_true, currentRateAux]
      split
      · rfl
      · exact ih _ hpw.2
    · simp only [ha, decide_false, currentRateAux]
      have : t < a.start := by omega
      simp [this]

/-- **No retroactive change**: an accepted amendment leaves the rate in force at the current epoch
(the one commission is being computed with) as it was. -/
theorem amend_keeps_current_rate (r : Rules) (s am s' : Schedule) (now : Nat) (hs : Sorted s)
    (h : s.amendAndPruneAndValidate am r now = some s') : s'.currentRate now = s.currentRate now := by
  unfold amendAndPruneAndValidate at h
  split at h; · cases h
  split at h; · cases h
  split at h; · cases h
  rename_i hacc
  have hacc' : am.amendmentAcceptable r now s.bounds.isEmpty = true := by simpa using hacc
  simp only at h
  split at h; · cases h
  split at h
  · injection h with h; subst h
    rw [← currentRate_prune s now now hs.1 (Nat.le_refl _)]
    unfold currentRate amend
    simp only
    split
    · rfl
    · rename_i a rest heq
      have hfut : now < a.start := by
        simp only [amendmentAcceptable, heq, Bool.and_eq_true, decide_eq_true_eq] at hacc'
        exact hacc'.1
      rw [heq, currentRateAux_append_future _ _ _ _ (by intro st hst; simp at hst; subst hst; exact hfut)]
      exact currentRateAux_takeWhile none now a.start _ (pruneRates_sorted now _ hs.1) hfut
  · cases h

/-! ### Non-vacuity -/

def exRules : Rules := { rateChangeInterval := 2, rateBoundLead := 4, maxRateSteps := 4, maxBoundSteps := 4,
                         minCommissionRate := 1000 }
def exSched : Schedule := { rates := [⟨0, 5000⟩, ⟨10, 7000⟩], bounds := [⟨0, 1000, 50000⟩] }
def exAmend : Schedule := { rates := [⟨12, 20000⟩], bounds := [⟨20, 10000, 100000⟩] }

example : exSched.pruneAndValidate exRules 3 = some exSched := by decide +kernel
example : Valid exRules exSched := (genesis_valid exRules exSched exSched 3 (by decide +kernel)).1
example : exSched.amendAndPruneAndValidate exAmend exRules 11 =
    some { rates := [⟨10, 7000⟩, ⟨12, 20000⟩], bounds := [⟨0, 1000, 50000⟩, ⟨20, 10000, 100000⟩] } := by decide +kernel
example : exSched.currentRate 11 = some 7000 := by decide +kernel
/-- A rate above the bound in force is refused … -/
example : exSched.amendAndPruneAndValidate { rates := [⟨12, 60000⟩] } exRules 11 = none := by decide +kernel
/-- … as is a bound change without the required lead, a rate change at the current epoch, a rate over
100 % and a start off the change interval. -/
example : exSched.amendAndPruneAndValidate { bounds := [⟨14, 0, 100000⟩] } exRules 11 = none := by decide +kernel
example : exSched.amendAndPruneAndValidate { rates := [⟨10, 6000⟩] } exRules 10 = none := by decide +kernel
example : exSched.amendAndPruneAndValidate { rates := [⟨12, 100001⟩] } exRules 11 = none := by decide +kernel
example : exSched.amendAndPruneAndValidate { rates := [⟨13, 6000⟩] } exRules 11 = none := by decide +kernel

end OasisProofs.C05Commission
