import OasisModel.Roothash.Timer
import OasisProofs.Helpers.RoothashTimer
import OasisProofs.Helpers.RoothashHalt
import OasisProofs.Props.C11
/-
C10 — "no block content can halt block execution", at the roothash application's `EndBlock`
(`OasisModel.Roothash.Timer`: `tryFinalizeRounds`, `processRoundTimeouts`, `tryFinalizeRound` with
`getRuntimeState`, the epoch transition of `onRuntimeCommitteeChanged` incl. the suspension of a runtime).

`tryFinalizeRound` returns an error — which `EndBlock` returns and the multiplexer turns into a node halt — when
`getRuntimeState` fails (no state / `ErrRuntimeSuspended` / `ErrNoCommittee` / `ErrNoExecutorPool`,
transactions.go:21-42) or when `tryFinalizeRoundInsideTx` takes one of its `return err` exits. In the model that
is `endBlock … = none`. Here: it never happens.

THE invariant (`QueuedLive`): a runtime with a queued round timer (at any height) has a state that is not
suspended, has a committee and has a commitment pool. It holds because the only code that suspends a runtime,
removes its committee or its pool (`onRuntimeCommitteeChanged`, roothash.go:208-222 / 223-238) first runs
`finalizeBlock`, which resets `NextTimeout` to `TimeoutNever` AND removes the queue entry
(`rearmRoundTimeout`, finalization.go:324-328) — `suspension_clears_timer`; a timer is only armed by an accepted
`executorCommit` (which went through `getRuntimeState`) or by `tryFinalizeRound` itself. The second loop of
`EndBlock` needs nothing else; the first loop (`RuntimesToFinalize`) needs that no committee change follows an
executor commit in the same block (`Block.Ordered`: `BeginBlock` runs before the transactions).

Quantification: every pool oracle `O`, every class `G` of pools closed under processing and reset on which
the code after `ProcessCommitments` takes no error exit (`PoolSafe O G`, each field shown necessary below; proved
for the pool model of `OasisModel.Roothash` in `pool_safe`), every number of runtimes, every history of blocks
(`ReachableG`: consecutive heights, `RtOk`, as in C11Timer — these hypotheses about the past are NOT needed for
the conclusion and appear only because they are part of `Reachable`; `TimeoutDecides` is not needed at all), every
next block made of runtime registrations, epoch transitions (suspending or not) and executor commits.

The seeded change C10-t1 (`stepStale`: the suspension resets `NextTimeout` in the state but leaves the queue
entry) halts the node at the stale height: `stale_timer_halts`.
-/
namespace OasisProofs.C10Timer
open OasisModel.Roothash OasisModel.Roothash.Timer OasisProofs.Roothash.Timer OasisProofs.Roothash.Halt

variable {π : Type}

/-! ### the invariant: a queued timer belongs to a live runtime -/

/-- Under `QueueMatches` (C11Timer (1)) the invariant can be read off the runtime states: an armed
`NextTimeout` implies a live runtime. -/
theorem queued_live_iff_armed_live {s : State π} (hq : QueueMatches s) : QueuedLive s ↔ ArmedLive s :=
  ⟨armedLive_of hq, queuedLive_of hq⟩

theorem queued_live_empty : QueuedLive (State.empty : State π) := by
  intro t id hm; simp [State.empty] at hm

/-- Every step between two `EndBlock`s (new runtime, epoch transition with or without suspension, executor
commit) preserves the invariant. -/
theorem queued_live_step {h : Int} {s s' : State π} {st : Step π} (hc : step h s st = some s')
    (hq : QueueMatches s) (hl : QueuedLive s) : QueuedLive s' :=
  queuedLive_of (step_queueMatches hc hq) (step_armedLive hc (armedLive_of hq hl))

/-- In particular the suspension step (roothash.go:208-222). -/
theorem queued_live_suspension {h : Int} {s s' : State π} {id : Nat} {hasC : Bool} {pool : π} {rt : Int}
    (hc : step h s (.committeeChanged id true hasC pool rt) = some s')
    (hq : QueueMatches s) (hl : QueuedLive s) : QueuedLive s' :=
  queued_live_step hc hq hl

/-- `tryFinalizeRound`, with or without timeout, whatever the pool answers. -/
theorem queued_live_tryFinalizeRound {O : PoolOracle π} {h : Int} {timeout : Bool} {s s' : State π}
    {id : Nat} {ev : Ev} (hc : tryFinalizeRound O h timeout s id = some (s', ev))
    (hq : QueueMatches s) (hl : QueuedLive s) : QueuedLive s' :=
  queuedLive_of (tryFinalizeRound_queueMatches hc hq) (tryFinalizeRound_armedLive hc (armedLive_of hq hl))

theorem queued_live_endBlock {O : PoolOracle π} {h : Int} {s s' : State π} {evs : List Ev}
    (hc : endBlock O h s = some (s', evs)) (hq : QueueMatches s) (hl : QueuedLive s) : QueuedLive s' :=
  queuedLive_of (endBlock_queueMatches hc hq) (endBlock_armedLive hc (armedLive_of hq hl))

/-- The invariant holds in every reachable state — no assumption on the pool. -/
theorem queued_timer_is_live {O : PoolOracle π} {H h : Int} {s : State π} (hr : Reachable O H h s) :
    QueuedLive s :=
  queuedLive_of (reachable_queueMatches hr) (reachable_armedLive hr)

/-- … and in every state in which an `EndBlock` starts. -/
theorem queued_timer_is_live_at_endBlock {O : PoolOracle π} {H h : Int} {s1 : State π}
    (ha : AtEndBlock O H h s1) : QueuedLive s1 := by
  cases ha with
  | mk b hr _ _ _ hst =>
    exact queuedLive_of (steps_queueMatches hst (fun t j => reachable_queueMatches hr t j))
      (steps_armedLive hst (fun j r hj => reachable_armedLive hr j r hj))

/-- Spelled out: a queue entry in a reachable state belongs to a runtime that is not suspended, has a
committee and a pool. -/
theorem queued_timer_runtime {O : PoolOracle π} {H h : Int} {s : State π} (hr : Reachable O H h s)
    (t : Int) (id : Nat) (hm : (t, id) ∈ s.queue) :
    ∃ r p, s.rts id = some r ∧ r.suspended = false ∧ r.hasCommittee = true ∧ r.pool = some p ∧
      r.nextTimeout = t :=  by
  obtain ⟨r, p, h1, h2, h3, h4⟩ := queued_timer_is_live hr t id hm
  refine ⟨r, p, h1, h2, h3, h4, ?_⟩
  have := ((reachable_queueMatches hr) t id).mp hm
  rw [timerOf_of_some h1] at this
  exact this.1

/-- Non-vacuity: a reachable state with a queued timer — runtime 0 at height 3, not suspended, with
committee and pool. -/
example :
    Reachable toyO 10 2 (after (execBlock toyO (blockStraggler 2) (after (execBlock toyO (blockCommit 1 1) State.empty)))) ∧
    (after (execBlock toyO (blockStraggler 2) (after (execBlock toyO (blockCommit 1 1) State.empty)))).queue = [(3, 0)] ∧
    ((after (execBlock toyO (blockStraggler 2) (after (execBlock toyO (blockCommit 1 1) State.empty)))).rts 0).map
      (fun r => (r.suspended, r.hasCommittee, r.pool, r.nextTimeout)) = some (false, true, some true, 3) :=
  ⟨reachable_two (h := 0) (by decide) (blockCommit 1 1) (blockStraggler 2) rfl rfl (by decide)
     (blockCommit_ok 10 1 1 rtOk_10_1) (blockStraggler_ok 10 2) (by decide) (by decide),
   by decide, by decide⟩

/-! ### (2) the suspension clears the timer -/

/-- (2) The suspension step leaves no queue entry for the suspended runtime (at any height), and the
state it stores is suspended, without committee, pool and timer. `QueueMatches s` holds in every reachable
state and in every state inside a block (`C11Timer.queue_matches_state`, `queue_matches_step`). -/
theorem suspension_clears_timer {h : Int} {s s' : State π} {id : Nat} {hasC : Bool} {pool : π} {rt : Int}
    (hq : QueueMatches s) (hc : step h s (.committeeChanged id true hasC pool rt) = some s') :
    (∀ t, (t, id) ∉ s'.queue) ∧
    ∃ r', s'.rts id = some r' ∧ r'.suspended = true ∧ r'.hasCommittee = false ∧ r'.pool = none ∧
      r'.nextTimeout = timeoutNever := by
  have hq' := step_queueMatches hc hq
  have hex : ∃ r', s'.rts id = some r' ∧ r'.suspended = true ∧ r'.hasCommittee = false ∧ r'.pool = none ∧
      r'.nextTimeout = timeoutNever := by
    simp only [Timer.step] at hc
    split at hc
    · exact absurd hc (by simp)
    · simp only [finalizeBlock, Option.some.injEq] at hc
      rw [← hc]
      exact ⟨_, if_pos rfl, rfl, by simp, by simp, rfl⟩
  obtain ⟨r', hrts, h1, h2, h3, hn⟩ := hex
  refine ⟨?_, r', hrts, h1, h2, h3, hn⟩
  intro t hm
  have := (hq' t id).mp hm
  rw [timerOf_of_some hrts, hn] at this
  exact this.2 this.1.symm

/-- (2) inside a block of a reachable history: after any prefix of the block's steps. -/
theorem suspension_clears_timer_reachable {O : PoolOracle π} {H h0 h : Int} {s0 s s' : State π}
    (hr : Reachable O H h0 s0) {pre : List (Step π)} (hpre : steps h pre (beginBlock s0) = some s)
    {id : Nat} {hasC : Bool} {pool : π} {rt : Int}
    (hc : step h s (.committeeChanged id true hasC pool rt) = some s') : ∀ t, (t, id) ∉ s'.queue :=
  (suspension_clears_timer (steps_queueMatches hpre (fun t j => reachable_queueMatches hr t j)) hc).1

/-- Non-vacuity of (2): runtime 0 is suspended at height 2 while its timer (armed for height 3) is pending;
before the step the queue is `[(3, 0)]`, after it the queue is empty. -/
example :
    QueueMatches (beginBlock (after (execBlock toyO (blockCommit 1 2) State.empty))) ∧
    (beginBlock (after (execBlock toyO (blockCommit 1 2) State.empty))).queue = [(3, 0)] ∧
    ((step 2 (beginBlock (after (execBlock toyO (blockCommit 1 2) State.empty)))
        (.committeeChanged 0 true false false 2)).map (·.queue)) = some [] := by
  refine ⟨?_, by decide, by decide⟩
  have hr : Reachable toyO 10 1 (after (execBlock toyO (blockCommit 1 2) State.empty)) :=
    .block (blockCommit 1 2) (.init 0 (by decide)) rfl (by decide) (blockCommit_ok 10 1 2 rtOk_10_2)
      (eq_some_after (by decide))
  exact fun t j => reachable_queueMatches hr t j

/-- `QueueMatches` is needed in (2): `rearmRoundTimeout` removes only the entry at `NextTimeout`; in a
state (not reachable) with a second entry for the runtime that entry survives the suspension. -/
theorem suspension_needs_matching_queue :
    ((step (π := Bool) 2
        { rts := setRt (fun _ => none) 0 { roundTimeout := 1, suspended := false, hasCommittee := true,
                                           pool := some false, nextTimeout := 5 },
          queue := [(5, 0), (7, 0)] }
        (.committeeChanged 0 true false false 1)).map (·.queue)) = some [(7, 0)] := by
  decide

/-! ### (1) `EndBlock` never fails -/

/-- The first loop of `EndBlock`: `tryFinalizeRounds` returns no error when every registered runtime is
live. -/
theorem tryFinalizeRounds_never_fails {O : PoolOracle π} {G : π → Prop} (hS : PoolSafe O G) (h : Int)
    {s : State π} (hg : PoolsGood G s) (hr : RegisteredLive s) :
    ∃ s' evs, tryFinalizeRounds O h s = some (s', evs) := by
  obtain ⟨⟨s', evs⟩, hx⟩ := tryFinalizeRounds_isSome hS h hg hr
  exact ⟨s', evs, hx⟩

/-- The second loop: `processRoundTimeouts` never meets a missing, suspended, committee-less or pool-less
runtime, at any height, when the invariant holds. -/
theorem processRoundTimeouts_never_fails {O : PoolOracle π} {G : π → Prop} (hS : PoolSafe O G) (h : Int)
    {s : State π} (hg : PoolsGood G s) (hl : QueuedLive s) :
    ∃ s' evs, processRoundTimeouts O h s = some (s', evs) := by
  obtain ⟨⟨s', evs⟩, hx⟩ := processRoundTimeouts_isSome hS h hg hl
  exact ⟨s', evs, hx⟩

/-- During a block whose committee changes precede its executor commits every runtime registered for
finalization is live when `EndBlock` starts. -/
theorem registered_are_live {h : Int} {s s1 : State π} (b : Block π) (hord : b.Ordered)
    (hst : steps h b.steps (beginBlock s) = some s1) : RegisteredLive s1 :=
  steps_registeredLive hord (Or.inl rfl) hst (fun _ hj => absurd hj (by simp [beginBlock]))

/-- (1) `EndBlock` of any next block returns without error: after every reachable history, for every
block `b` whose `BeginBlock` part succeeded (`hst`), at whatever height. -/
theorem endBlock_never_halts {O : PoolOracle π} {G : π → Prop} (hS : PoolSafe O G) {H h0 : Int}
    {s s1 : State π} (hr : ReachableG O G H h0 s) (b : Block π) (hG : b.PoolsIn G) (hord : b.Ordered)
    (hst : steps b.height b.steps (beginBlock s) = some s1) :
    ∃ s' evs, endBlock O b.height s1 = some (s', evs) := by
  have hr' := reachableG_reachable hr
  have hq : QueueMatches s1 := steps_queueMatches hst (fun t j => reachable_queueMatches hr' t j)
  have ha : ArmedLive s1 := steps_armedLive hst (fun j r hj => reachable_armedLive hr' j r hj)
  have hg : PoolsGood G s1 :=
    steps_poolsGood hG hst (fun j r p hj => reachableG_poolsGood (closed_of_safe hS) hr j r p hj)
  obtain ⟨⟨s', evs⟩, hx⟩ := endBlock_isSome hS b.height hq ha hg (registered_are_live b hord hst)
  exact ⟨s', evs, hx⟩

/-- A block fails only in `BeginBlock`. -/
theorem block_fails_only_in_beginBlock {O : PoolOracle π} {G : π → Prop} (hS : PoolSafe O G) {H h0 : Int}
    {s : State π} (hr : ReachableG O G H h0 s) (b : Block π) (hG : b.PoolsIn G) (hord : b.Ordered)
    (hf : execBlock O b s = none) : steps b.height b.steps (beginBlock s) = none := by
  cases hst : steps b.height b.steps (beginBlock s) with
  | none => rfl
  | some s1 =>
    obtain ⟨s', evs, hx⟩ := endBlock_never_halts hS hr b hG hord hst
    unfold execBlock at hf
    rw [hst] at hf
    simp only at hf
    rw [hx] at hf
    exact absurd hf (by simp)

/-- … and there only in `onRuntimeCommitteeChanged` for a runtime without roothash state
(roothash.go:146-149; the registry's runtimes all went through `onNewRuntime`). -/
theorem beginBlock_step_fails_only_without_state {h : Int} {s : State π} {st : Step π}
    (hf : step h s st = none) :
    ∃ id su hC p rt, st = .committeeChanged id su hC p rt ∧ s.rts id = none :=
  step_none_iff.mp hf

/-- The history can always be continued: the next block (consecutive height, `RtOk`) is executed without
error and leads to a reachable state again — by induction, no sequence of such blocks halts the node. -/
theorem reachable_extends {O : PoolOracle π} {G : π → Prop} (hS : PoolSafe O G) {H h0 : Int}
    {s s1 : State π} (hr : ReachableG O G H h0 s) (b : Block π) (hb : b.height = h0 + 1) (hH : b.height ≤ H)
    (hok : b.Ok H) (hG : b.PoolsIn G) (hord : b.Ordered)
    (hst : steps b.height b.steps (beginBlock s) = some s1) :
    ∃ s' evs, execBlock O b s = some (s', evs) ∧ ReachableG O G H b.height s' := by
  obtain ⟨s', evs, hx⟩ := endBlock_never_halts hS hr b hG hord hst
  have he : execBlock O b s = some (s', evs) := by
    unfold execBlock
    rw [hst]
    exact hx
  exact ⟨s', evs, he, .block b hr hb hH hok hG he⟩

/-- (1) for oracles that never take an error exit, in terms of C11Timer's `Reachable`. -/
theorem endBlock_never_halts_total {O : PoolOracle π} (hS : PoolSafe O (fun _ => True)) {H h0 : Int}
    {s s1 : State π} (hr : Reachable O H h0 s) (b : Block π) (hord : b.Ordered)
    (hst : steps b.height b.steps (beginBlock s) = some s1) :
    ∃ s' evs, endBlock O b.height s1 = some (s', evs) :=
  endBlock_never_halts hS (reachable_reachableG_true hr) b (poolsIn_true b) hord hst

/-- Non-vacuity of (1): `toyO` is safe; after the reachable history "scheduler commits at height 1 with round
timeout 1, straggler at height 2 when the timer fires" the block at height 3 (a late commitment; the re-armed
timer is due) is ordered, its steps succeed and its `EndBlock` makes both a non-timeout and a forced call. -/
example :
    PoolSafe toyO (fun _ => True) ∧
    ReachableG toyO (fun _ => True) 10 2
      (after (execBlock toyO (blockStraggler 2) (after (execBlock toyO (blockCommit 1 1) State.empty)))) ∧
    (blockStraggler 3).Ordered ∧
    (steps 3 (blockStraggler 3).steps (beginBlock
      (after (execBlock toyO (blockStraggler 2) (after (execBlock toyO (blockCommit 1 1) State.empty)))))).isSome = true ∧
    (events (execBlock toyO (blockStraggler 3)
      (after (execBlock toyO (blockStraggler 2) (after (execBlock toyO (blockCommit 1 1) State.empty)))))).map
        (fun ev => (ev.rt, ev.timeout)) = [(0, false), (0, true)] :=
  ⟨toyO_safe,
   reachableG_two (h := 0) (by decide) (blockCommit 1 1) (blockStraggler 2) rfl rfl (by decide)
     (blockCommit_ok 10 1 1 rtOk_10_1) (blockStraggler_ok 10 2) (poolsIn_true _) (poolsIn_true _)
     (by decide) (by decide),
   by simp [Block.Ordered, blockStraggler], by decide, by decide⟩

/-! ### every hypothesis of (1) is needed -/

/-- `Block.Ordered` is needed: a committee change that suspends runtime 0 after its executor commit in
the same block (all other hypotheses hold: `toyO` is safe, the history is empty, the steps succeed) makes
`tryFinalizeRounds` fail with `ErrRuntimeSuspended`. The multiplexer cannot build this block. -/
theorem unordered_block_halts :
    ¬ blockUnordered.Ordered ∧
    (steps 1 blockUnordered.steps (beginBlock State.empty)).isSome = true ∧
    (execBlock toyO blockUnordered State.empty).isNone = true := by
  refine ⟨?_, by decide, by decide⟩
  simp [Block.Ordered, blockUnordered, Step.isCommit, Step.isCommitteeChange]

/-- `PoolSafe.no_abort` is needed (all other fields hold for `abortO`). -/
theorem abort_halts :
    (∀ p t, (abortO.process p t).2 ≠ Res.nilDeref) ∧
    (∀ p t t', (abortO.process p t).2 = Res.discrepancyDetected →
      (abortO.process (abortO.process p t).1 t').2 ≠ Res.discrepancyDetected) ∧
    (∀ p, abortO.hasScheduler p = true) ∧
    (blockCommit 1 1).Ordered ∧
    (steps 1 (blockCommit 1 1).steps (beginBlock State.empty)).isSome = true ∧
    (execBlock abortO (blockCommit 1 1) State.empty).isNone = true := by
  refine ⟨by decide, by decide, by decide, ?_, by decide, by decide⟩
  simp [Block.Ordered, blockCommit, Step.isCommit, Step.isCommitteeChange]

/-- `PoolSafe.scheduler` is needed: with a committee without workers the forced call at height 2 ends in
`failRound`, which returns "no workers in committee". -/
theorem no_scheduler_halts :
    (∀ p, noSchedO.post p ≠ Post.abort) ∧
    (∀ p t, (noSchedO.process p t).2 ≠ Res.nilDeref) ∧
    (∀ p t t', (noSchedO.process p t).2 = Res.discrepancyDetected →
      (noSchedO.process (noSchedO.process p t).1 t').2 ≠ Res.discrepancyDetected) ∧
    Reachable noSchedO 10 1 (after (execBlock noSchedO (blockCommit 1 1) State.empty)) ∧
    (execBlock noSchedO (blockEmpty 2) (after (execBlock noSchedO (blockCommit 1 1) State.empty))).isNone = true := by
  refine ⟨by decide, by decide, by decide, ?_, by decide⟩
  exact .block (blockCommit 1 1) (.init 0 (by decide)) rfl (by decide) (blockCommit_ok 10 1 1 rtOk_10_1)
    (eq_some_after (by decide))

/-- `PoolSafe.retry` is needed (finalization.go:134-136). -/
theorem repeated_discrepancy_halts :
    (∀ p, discO.post p ≠ Post.abort) ∧ (∀ p t, (discO.process p t).2 ≠ Res.nilDeref) ∧
    (∀ p, discO.hasScheduler p = true) ∧
    (execBlock discO (blockCommit 1 1) State.empty).isNone = true := by
  decide

/-- `PoolSafe.no_nil` is needed. -/
theorem nil_commitment_halts :
    (∀ p, nilO.post p ≠ Post.abort) ∧
    (∀ p t t', (nilO.process p t).2 = Res.discrepancyDetected →
      (nilO.process (nilO.process p t).1 t').2 ≠ Res.discrepancyDetected) ∧
    (∀ p, nilO.hasScheduler p = true) ∧
    (execBlock nilO (blockCommit 1 1) State.empty).isNone = true := by
  decide

/-! ### (3) the seeded change C10-t1: a suspension that leaves the queue entry -/

/-- (3) With `stepStale` (the suspension resets `NextTimeout`, pool, committee and the flag in the runtime
state but does not call `rearmRoundTimeout`) the history
  height 1: runtime 0 (round timeout 2) registered, gets a committee, its scheduler commits — timer at 3;
  height 2: epoch transition, runtime 0 is suspended
is reachable (both `EndBlock`s succeed); its state has runtime 0 suspended with `NextTimeout = 0` but the
queue still holds `(3, 0)`: the invariant is broken. The empty block at height 3 then fails in `EndBlock`
(`processRoundTimeouts` → `ErrRuntimeSuspended`): the node halts at the stale height. All hypotheses of
`endBlock_never_halts` hold (`toyO_safe`, ordered blocks); only the suspension differs. -/
theorem stale_timer_halts :
    ∃ s : State Bool, ReachableStale toyO 10 2 s ∧
      (s.rts 0).map (fun r => (r.suspended, r.nextTimeout)) = some (true, 0) ∧
      s.queue = [(3, 0)] ∧
      (blockEmpty 3).Ordered ∧
      (stepsStale 3 (blockEmpty 3).steps (beginBlock s)).isSome = true ∧
      (endBlock toyO 3 (beginBlock s)).isNone = true ∧
      (execBlockStale toyO (blockEmpty 3) s).isNone = true :=
  ⟨_, reachableStale_two (h := 0) (by decide) (blockCommit 1 2) (blockSuspend 2 2) rfl rfl (by decide)
        (blockCommit_ok 10 1 2 rtOk_10_2) (blockSuspend_ok 10 2 2 rtOk_10_2) (by decide) (by decide),
   by decide, by decide, by simp [Block.Ordered, blockEmpty], by decide, by decide, by decide⟩

/-- The same history with the code's suspension: the queue is empty after height 2 and the block at height 3
is executed. -/
theorem code_suspension_does_not_halt :
    Reachable toyO 10 2
      (after (execBlock toyO (blockSuspend 2 2) (after (execBlock toyO (blockCommit 1 2) State.empty)))) ∧
    (after (execBlock toyO (blockSuspend 2 2) (after (execBlock toyO (blockCommit 1 2) State.empty)))).queue = [] ∧
    (execBlock toyO (blockEmpty 3)
      (after (execBlock toyO (blockSuspend 2 2) (after (execBlock toyO (blockCommit 1 2) State.empty))))).isSome = true :=
  ⟨reachable_two (h := 0) (by decide) (blockCommit 1 2) (blockSuspend 2 2) rfl rfl (by decide)
     (blockCommit_ok 10 1 2 rtOk_10_2) (blockSuspend_ok 10 2 2 rtOk_10_2) (by decide) (by decide),
   by decide, by decide⟩

/-! ### the real pool model as the oracle -/

/-- The commitment pool of `OasisModel.Roothash` is safe on `GoodPool` (the committee has a worker; the
entry at `HighestRank` holds the scheduler's commitment — `C11.sc_has_commitment`) whenever the code after
`ProcessCommitments` takes no error exit. `retry` is `C11.retry_never_discrepancy`. -/
theorem pool_safe (post : Committee × Nat × Pool → Post) (hpost : ∀ x, GoodPool x → post x ≠ Post.abort) :
    PoolSafe (poolOracle post) GoodPool where
  process_good := fun x t hg => goodPool_process post x t hg
  reset_good := fun x hg => goodPool_reset post x hg
  no_abort := hpost
  no_nil := fun x t hg => by
    show (OasisModel.Roothash.process x.1 x.2.2 x.2.1 t).2 ≠ Res.nilDeref
    rw [OasisProofs.Roothash.process_snd]
    exact processInner_no_nil _ _ _ _ hg.2
  retry := fun x t t' _ hd => OasisProofs.C11.retry_never_discrepancy x.1 x.2.2 x.2.1 t t' hd
  scheduler := fun x hg => by
    show decide (workerTotal x.1 > 0) = true
    exact decide_eq_true hg.1

/-- Every pool of a verified history (`run`) for a committee with a worker is good. -/
theorem run_pool_good (c : Committee) (round : Nat) (hw : round + c.length < two64) (hwk : workerTotal c > 0)
    (ops : List Op) (stragglers : Nat) : GoodPool (c, stragglers, (run c round ops).pool) := by
  refine ⟨hwk, ?_⟩
  intro sc hsc
  obtain ⟨own, h, _⟩ := OasisProofs.C11.sc_has_commitment c round hw ops sc hsc
  exact ⟨own, h⟩

/-- (1) for the commitment pool of `OasisModel.Roothash`. -/
theorem endBlock_never_halts_pool (post : Committee × Nat × Pool → Post)
    (hpost : ∀ x, GoodPool x → post x ≠ Post.abort) {H h0 : Int} {s s1 : State (Committee × Nat × Pool)}
    (hr : ReachableG (poolOracle post) GoodPool H h0 s) (b : Block (Committee × Nat × Pool))
    (hG : b.PoolsIn GoodPool) (hord : b.Ordered)
    (hst : steps b.height b.steps (beginBlock s) = some s1) :
    ∃ s' evs, endBlock (poolOracle post) b.height s1 = some (s', evs) :=
  endBlock_never_halts (pool_safe post hpost) hr b hG hord hst

theorem exPool_good (l : List (Nat × Nat)) : GoodPool (exPool l) :=
  run_pool_good exCommittee 4 (by decide) (by decide) _ 0

/-- Non-vacuity with the real pool model (committee of 3 workers and 3 backup workers, round timeout 1; the
history of `C11Timer`): block 1 is reachable with good pools only, block 2 (a backup vote while the timer
fires) is ordered and installs a good pool, its steps succeed — and its `EndBlock` returns. -/
example :
    ReachableG poolO GoodPool 10 1 (after (execBlock poolO poolBlock1 State.empty)) ∧
    poolBlock2.PoolsIn GoodPool ∧ poolBlock2.Ordered ∧
    (steps 2 poolBlock2.steps (beginBlock (after (execBlock poolO poolBlock1 State.empty)))).isSome = true ∧
    (execBlock poolO poolBlock2 (after (execBlock poolO poolBlock1 State.empty))).isSome = true := by
  have g1 : poolBlock1.PoolsIn GoodPool := by
    intro st hm p hp
    simp only [poolBlock1, List.mem_cons, List.not_mem_nil, or_false] at hm
    rcases hm with rfl | rfl | rfl <;> simp [Step.pool?] at hp <;> subst hp <;> exact exPool_good _
  have g2 : poolBlock2.PoolsIn GoodPool := by
    intro st hm p hp
    simp only [poolBlock2, List.mem_cons, List.not_mem_nil, or_false] at hm
    subst hm
    simp [Step.pool?] at hp
    subst hp
    exact exPool_good _
  refine ⟨?_, g2, by simp [Block.Ordered, poolBlock2], by decide, by decide⟩
  exact .block poolBlock1 (.init 0 (by decide)) rfl (by decide) poolBlock1_ok g1 (eq_some_after (by decide))

end OasisProofs.C10Timer
