import OasisProofs.Props.C05
/-
C10 (ledger part) — the staking paths of BeginBlock / EndBlock never return an error.

Totality theorems for the ledger model `OasisModel.Staking.Ledger` (tied to the Go staking
application by the ledgerdrv correspondence, C05): under the conservation invariant `Inv`, and
exactly the side conditions the proofs force (each shown necessary by a concrete failing witness),
the model functions for rewards (AddRewards, AddRewardSingleAttenuated incl. computeCommission),
slashing, debonding completion, TransferFromCommon, fee disbursement, and BeginBlock / EndBlock /
whole blocks / whole chains return `ok` for every amount (0, 2^64−1, 2^255, depleted common pool,
accounts emptied to zero, penalties larger than the escrow).
-/
set_option linter.unusedSimpArgs false
set_option linter.unnecessarySeqFocus false
set_option linter.unusedVariables false

namespace OasisProofs.C10Ledger
open OasisModel OasisModel.Staking OasisModel.Staking.SharePool OasisModel.Staking.Ledger
open OasisProofs.StakingH OasisProofs.C05
open OasisProofs.C15 (deposit_succeeds withdraw_succeeds deposit_moves Sorted)

/-! ### Side conditions -/

/-- What the environment guarantees besides the ledger invariant:
* every commission schedule is valid — all its rate steps at most 100% — which the genesis check
  establishes and every accepted `AmendCommissionSchedule` preserves (`C05Commission.genesis_valid`,
  `amend_valid`; see `applyOp_sane`: no longer an assumption about transactions); `MinCommissionRate ≤
  CommissionRateDenominator` by `ConsensusParameters.SanityCheck`);
* the entities of validators / signers are real accounts: in range and not reserved addresses
  (`NewAddress(entityID)` of a registered entity; reserved public keys are blacklisted);
* queued debonding delegations do not mention reserved addresses (`reclaimEscrow` refuses them). -/
structure Sane (l : Ledger) : Prop where
  rates : ∀ i, C05Commission.Valid l.params.rules (l.acct i).schedule
  minRate : l.params.minCommissionRate ≤ commissionRateDenominator
  entities : ∀ a, (a ∈ l.params.pkOrder ∨ a ∈ l.params.validators) → a < l.n ∧ l.isReserved a = false
  debRefs : ∀ x ∈ l.deb, l.isReserved x.delegator = false ∧ l.isReserved x.escrow = false

/-- `l'` keeps parameters, range and commission rates of `l`, and queues no new debonding entry. -/
def Frame (l l' : Ledger) : Prop :=
  l'.params = l.params ∧ l'.n = l.n ∧ (∀ i, (l'.acct i).schedule = (l.acct i).schedule) ∧
  (∀ x ∈ l'.deb, x ∈ l.deb)

theorem Frame.refl (l : Ledger) : Frame l l := ⟨rfl, rfl, fun _ => rfl, fun _ h => h⟩
theorem Frame.trans {a b c : Ledger} (h1 : Frame a b) (h2 : Frame b c) : Frame a c :=
  ⟨h2.1.trans h1.1, h2.2.1.trans h1.2.1, fun i => (h2.2.2.1 i).trans (h1.2.2.1 i),
   fun x hx => h1.2.2.2 x (h2.2.2.2 x hx)⟩

theorem isReserved_params {l l' : Ledger} (h : l'.params = l.params) (a : Nat) :
    l'.isReserved a = l.isReserved a := by simp only [Ledger.isReserved, h]

theorem Frame.sane {l l' : Ledger} (hs : Sane l) (h : Frame l l') : Sane l' := by
  obtain ⟨hp, hn, hc, hd⟩ := h
  refine ⟨?_, by rw [hp]; exact hs.minRate, ?_, ?_⟩
  · intro i; rw [hc i, hp]; exact hs.rates i
  · intro a ha; rw [hp] at ha; rw [hn, isReserved_params hp]; exact hs.entities a ha
  · intro x hx; rw [isReserved_params hp, isReserved_params hp]; exact hs.debRefs x (hd x hx)

/-- Closes `Frame l l'` from `h : f … = .ok l'` for functions that only rewrite balances, pools,
delegations and scalars (and possibly drop queue entries). -/
macro "frame_sane" h:ident : tactic => `(tactic|
  (repeat' (first
    | (injection $h:ident with $h:ident; subst $h:ident; exact Frame.refl _)
    | (injection $h:ident with $h:ident; subst $h:ident;
       exact ⟨rfl, rfl,
         fun i => by
           simp only [Ledger.setAcct, Ledger.setDel, Ledger.creditGeneral, upd]; (repeat' split) <;> simp_all,
         fun x hx => by first | exact hx | exact (List.mem_filter.1 hx).1⟩)
    | (cases $h:ident; done)
    | (split at $h:ident))))

/-- The rate commission is computed with is at most 100 % in a sane ledger, at every epoch. -/
theorem rateOf_le (l : Ledger) (hs : Sane l) (a ep : Nat) : l.rateOf a ep ≤ commissionRateDenominator := by
  unfold Ledger.rateOf
  cases hc : (l.acct a).schedule.currentRate ep with
  | none => simpa using hs.minRate
  | some x => simpa using (C05Commission.currentRate_within l.params.rules _ ep x (hs.rates a) hc).2

theorem rewardAccount_frame (l l' : Ledger) (ep a q : Nat) (hok : rewardAccount l ep a q = .ok l') : Frame l l' := by
  unfold rewardAccount at hok; dsimp only at hok; frame_sane hok

theorem slashEscrowL_frame (l l' : Ledger) (a amt : Nat) (hok : slashEscrowL l a amt = .ok l') : Frame l l' := by
  unfold slashEscrowL at hok; dsimp only at hok; frame_sane hok

theorem debondEntry_frame (l l' : Ledger) (e : DebEntry) (hok : debondEntry l e = .ok l') : Frame l l' := by
  unfold debondEntry at hok; dsimp only at hok; frame_sane hok

theorem payNextProposer_frame (l l' : Ledger) (p : Option Nat) (a : Nat)
    (hok : payNextProposer l p a = .ok l') : Frame l l' := by
  unfold payNextProposer at hok; frame_sane hok

theorem creditGeneral_frame (l : Ledger) (a amt : Nat) : Frame l (l.creditGeneral a amt) :=
  ⟨rfl, rfl, fun i => by simp only [Ledger.creditGeneral, Ledger.setAcct, upd]; split <;> simp_all, fun _ h => h⟩

/-! ### Rewards -/

/-- `computeCommission` succeeds for every amount when the rate is at most 100%. -/
theorem computeCommission_total (rate q : Nat) (hr : rate ≤ commissionRateDenominator) :
    ∃ com rest, computeCommission rate q = .ok (com, rest) ∧ com + rest = q := by
  unfold computeCommission
  have hle : q * rate / commissionRateDenominator ≤ q := by
    apply Nat.div_le_of_le_mul
    rw [Nat.mul_comm commissionRateDenominator q]
    exact Nat.mul_le_mul_left q hr
  simp only [Nat.not_lt.mpr hle, if_false]
  exact ⟨_, _, rfl, by omega⟩

/-- The rate hypothesis is necessary: `remaining.Sub(com)` fails for a rate over unity. -/
theorem computeCommission_needs_rate : computeCommission 100001 100000 = .error .insufficientBalance := by decide

/-- Common tail of AddRewards / AddRewardSingleAttenuated for one account: never errors, provided
no reward is computed for an empty balance (both callers compute it as a multiple of the balance). -/
theorem rewardAccount_total (l : Ledger) (ep a q : Nat) (hs : Sane l)
    (hq : (l.acct a).active.balance = 0 → q = 0) : ∃ l', rewardAccount l ep a q = .ok l' := by
  unfold rewardAccount
  by_cases h0 : q = 0
  · exact ⟨l, by simp [h0]⟩
  by_cases hc : q > l.common
  · exact ⟨l, by simp [h0, hc]⟩
  simp only [h0, hc, if_false]
  have hrate : l.rateOf a ep ≤ commissionRateDenominator := rateOf_le l hs a ep
  obtain ⟨com, rest, hcc, hsum⟩ := computeCommission_total _ q hrate
  simp only [hcc]
  have hmv : ¬ l.common < rest := by omega
  simp only [hmv, if_false]
  by_cases hcom : com = 0
  · simp only [hcom, if_true]; exact ⟨_, rfl⟩
  · simp only [hcom, if_false]
    have hb : (l.acct a).active.balance ≠ 0 := fun hb => h0 (hq hb)
    obtain ⟨r, hr⟩ := deposit_succeeds
      { (l.acct a).active with balance := (l.acct a).active.balance + rest } (l.del a a) (l.common - rest) com
      (by omega) (Or.inr (by simp only; omega))
    simp only [hr]; exact ⟨_, rfl⟩

/-- Witness: a reward on a pool slashed to zero (shares outstanding) with 100% commission would make
the commission deposit fail — excluded because rewards are multiples of the balance. -/
def witnessSlashedFullCommission : Ledger := {
  n := 1, acct := fun _ => { active := { balance := 0, totalShares := 5 }, schedule := { rates := [⟨0, 100000⟩], bounds := [⟨0, 0, 100000⟩] } },
  del := fun _ _ => 5, deb := [], common := 100, govDeposits := 0, lastBlockFees := 0, feeAcc := 0,
  totalSupply := 100, params := {} }

theorem rewardAccount_needs_balance :
    (rewardAccount witnessSlashedFullCommission 0 0 10).toBool = false := by decide

theorem addRewardSingleAttenuated_total (l : Ledger) (epoch factor num den a : Nat) (hs : Sane l)
    (hres : l.isReserved a = false)
    (hden : activeStep l.params.rewardSchedule epoch ≠ none → den ≠ 0) :
    ∃ l', addRewardSingleAttenuated l epoch factor num den a = .ok l' := by
  unfold addRewardSingleAttenuated
  cases hst : activeStep l.params.rewardSchedule epoch with
  | none => exact ⟨l, rfl⟩
  | some scale =>
    have hd : den ≠ 0 := hden (by rw [hst]; simp)
    simp only [hres, hd, Bool.false_eq_true, if_false]
    exact rewardAccount_total l _ a _ hs (fun hb => by rw [hb]; simp)

/-- The denominator hypothesis is necessary: with an active reward step and an empty vote list
(`numEligibleValidators = 0`) the attenuation division fails.  In the real node an empty
last-commit occurs only for the initial block, where `GetCurrentEpoch` is invalid and
`rewardBlockProposing` returns before this call. -/
def witnessActiveSchedule : Ledger := {
  n := 1, acct := fun _ => {}, del := fun _ _ => 0, deb := [], common := 0,
  govDeposits := 0, lastBlockFees := 0, feeAcc := 0, totalSupply := 0,
  params := { rewardSchedule := [(10, 1)] } }

theorem addRewardSingleAttenuated_needs_votes :
    (addRewardSingleAttenuated witnessActiveSchedule 0 1 0 0 0).toBool = false := by decide

theorem addRewardsLoop_total (l : Ledger) (ep factor scale : Nat) (as : List Nat) (hs : Sane l)
    (hres : ∀ a ∈ as, l.isReserved a = false) : ∃ l', addRewardsLoop l ep factor scale as = .ok l' := by
  induction as generalizing l with
  | nil => exact ⟨l, rfl⟩
  | cons a as ih =>
    simp only [addRewardsLoop, hres a (List.mem_cons_self ..), Bool.false_eq_true, if_false]
    obtain ⟨l1, h1⟩ := rewardAccount_total l ep a
      ((l.acct a).active.balance * factor * scale / rewardAmountDenominator) hs (fun hb => by rw [hb]; simp)
    simp only [h1]
    have f1 := rewardAccount_frame l l1 ep a _ h1
    exact ih l1 (f1.sane hs) (fun x hx => by rw [isReserved_params f1.1]; exact hres x (List.mem_cons_of_mem _ hx))

theorem addRewardsLoop_frame (l l' : Ledger) (ep factor scale : Nat) (as : List Nat)
    (hok : addRewardsLoop l ep factor scale as = .ok l') : Frame l l' := by
  induction as generalizing l with
  | nil => simp only [addRewardsLoop] at hok; injection hok with hok; subst hok; exact Frame.refl _
  | cons a as ih =>
    simp only [addRewardsLoop] at hok
    split at hok; · cases hok
    split at hok; · cases hok
    rename_i l1 h1
    exact (rewardAccount_frame l l1 ep a _ h1).trans (ih l1 hok)

theorem addRewards_total (l : Ledger) (epoch factor : Nat) (as : List Nat) (hs : Sane l)
    (hres : ∀ a ∈ as, l.isReserved a = false) : ∃ l', addRewards l epoch factor as = .ok l' := by
  unfold addRewards
  split
  · exact ⟨l, rfl⟩
  · exact addRewardsLoop_total l _ factor _ as hs hres

theorem addRewards_frame (l l' : Ledger) (epoch factor : Nat) (as : List Nat)
    (hok : addRewards l epoch factor as = .ok l') : Frame l l' := by
  unfold addRewards at hok
  split at hok
  · injection hok with hok; subst hok; exact Frame.refl _
  · exact addRewardsLoop_frame l l' _ _ _ _ hok

theorem rewardEpochSigning_total (l : Ledger) (epoch : Nat) (hs : Sane l) :
    ∃ l', rewardEpochSigning l epoch = .ok l' := by
  unfold rewardEpochSigning
  dsimp only
  split; · exact ⟨_, rfl⟩
  split; · exact ⟨_, rfl⟩
  have hs' : Sane { l with sigTotal := 0, sigBy := fun _ => 0 } :=
    Frame.sane hs ⟨rfl, rfl, fun _ => rfl, fun _ h => h⟩
  exact addRewards_total { l with sigTotal := 0, sigBy := fun _ => 0 } epoch _ _ hs'
    (fun a ha => (hs.entities a (Or.inl (List.mem_filter.1 ha).1)).2)

theorem rewardEpochSigning_frame (l l' : Ledger) (epoch : Nat) (hok : rewardEpochSigning l epoch = .ok l') :
    Frame l l' := by
  unfold rewardEpochSigning at hok
  dsimp only at hok
  split at hok; · injection hok with hok; subst hok; exact ⟨rfl, rfl, fun _ => rfl, fun _ h => h⟩
  split at hok; · injection hok with hok; subst hok; exact ⟨rfl, rfl, fun _ => rfl, fun _ h => h⟩
  have := addRewards_frame { l with sigTotal := 0, sigBy := fun _ => 0 } l' _ _ _ hok
  exact ⟨this.1, this.2.1, this.2.2.1, this.2.2.2⟩

/-! ### Slashing -/

/-- `SlashEscrow` never errors, for any penalty (zero, larger than the escrow, both pools empty). -/
theorem slashEscrowL_total (l : Ledger) (a amount : Nat) (hres : l.isReserved a = false) :
    ∃ l', slashEscrowL l a amount = .ok l' := by
  unfold slashEscrowL
  simp only [hres, Bool.false_eq_true, if_false]
  split <;> exact ⟨_, rfl⟩

theorem onEvidence_total (l : Ledger) (v : Nat) (hs : Sane l) : ∃ l', onEvidence l v = .ok l' := by
  unfold onEvidence
  split; · exact ⟨l, rfl⟩
  rename_i ent hent
  split; · exact ⟨l, rfl⟩
  have hmem : ent ∈ l.params.validators := List.mem_of_getElem? hent
  obtain ⟨l1, h1⟩ := slashEscrowL_total l ent l.params.slashAmount (hs.entities ent (Or.inr hmem)).2
  simp only [h1]; exact ⟨_, rfl⟩

theorem onEvidence_frame (l l' : Ledger) (v : Nat) (hok : onEvidence l v = .ok l') : Frame l l' := by
  unfold onEvidence at hok
  split at hok; · injection hok with hok; subst hok; exact Frame.refl _
  split at hok; · injection hok with hok; subst hok; exact Frame.refl _
  split at hok; · cases hok
  rename_i l1 h1
  injection hok with hok; subst hok
  have f := slashEscrowL_frame l l1 _ _ h1
  split
  · exact ⟨f.1, f.2.1, f.2.2.1, f.2.2.2⟩
  · exact f

theorem evidenceLoop_total (l : Ledger) (vs : List Nat) (hs : Sane l) : ∃ l', evidenceLoop l vs = .ok l' := by
  induction vs generalizing l with
  | nil => exact ⟨l, rfl⟩
  | cons v vs ih =>
    simp only [evidenceLoop]
    obtain ⟨l1, h1⟩ := onEvidence_total l v hs
    simp only [h1]
    exact ih l1 ((onEvidence_frame l l1 v h1).sane hs)

theorem evidenceLoop_frame (l l' : Ledger) (vs : List Nat) (hok : evidenceLoop l vs = .ok l') : Frame l l' := by
  induction vs generalizing l with
  | nil => simp only [evidenceLoop] at hok; injection hok with hok; subst hok; exact Frame.refl _
  | cons v vs ih =>
    simp only [evidenceLoop] at hok
    split at hok; · cases hok
    rename_i l1 h1
    exact (onEvidence_frame l l1 v h1).trans (ih l1 hok)

/-! ### Debonding completion -/

theorem shares_le_debSharesOf (q : List DebEntry) (e : DebEntry) (he : e ∈ q) :
    e.shares ≤ debSharesOf q e.escrow := by
  induction q with
  | nil => simp at he
  | cons x xs ih =>
    rw [debSharesOf_cons]
    rcases List.mem_cons.1 he with rfl | he'
    · simp
    · have := ih he'; omega

/-- Redeeming a queued debonding delegation never fails: the share bookkeeping invariant guarantees
the pool holds at least its shares, and the balance always covers a redemption. -/
theorem debondEntry_total (l : Ledger) (e : DebEntry) (h : Inv l) (hs : Sane l) (he : e ∈ l.deb) :
    ∃ l', debondEntry l e = .ok l' := by
  unfold debondEntry
  obtain ⟨r1, r2⟩ := hs.debRefs e he
  simp only [r1, r2, Bool.or_self, Bool.false_eq_true, if_false]
  have hle : e.shares ≤ (l.acct e.escrow).debonding.totalShares := by
    rw [h.debond e.escrow (h.scope e he).2]; exact shares_le_debSharesOf l.deb e he
  obtain ⟨w, hw⟩ := withdraw_succeeds (l.acct e.escrow).debonding 0 e.shares e.shares (Nat.le_refl _) hle
  simp only [hw]
  split <;> exact ⟨_, rfl⟩

def witnessBadDebonding : Ledger := {
  n := 2, acct := fun _ => { debonding := { balance := 10, totalShares := 3 } },
  del := fun _ _ => 0, deb := [{ endEpoch := 1, delegator := 0, escrow := 1, shares := 5 }],
  common := 0, govDeposits := 0, lastBlockFees := 0, feeAcc := 0, totalSupply := 20, params := {} }

/-- The invariant is necessary: a queued delegation with more shares than its pool makes
`Withdraw` (hence EndBlock) fail. -/
theorem debondEntry_needs_invariant :
    (debondEntry witnessBadDebonding { endEpoch := 1, delegator := 0, escrow := 1, shares := 5 }).toBool = false := by
  decide

theorem debondAll_total (l : Ledger) (es : List DebEntry) (h : Inv l) (hs : Sane l)
    (hmem : ∀ x ∈ es, x ∈ l.deb) (hpw : es.Pairwise (fun a b => a.keyLt b = true)) :
    ∃ l', debondAll l es = .ok l' := by
  induction es generalizing l with
  | nil => exact ⟨l, rfl⟩
  | cons e es ih =>
    simp only [debondAll]
    obtain ⟨l1, h1⟩ := debondEntry_total l e h hs (hmem e (List.mem_cons_self ..))
    simp only [h1]
    obtain ⟨g1, hq⟩ := debondEntry_good l l1 e (hmem e (List.mem_cons_self ..)) h h1
    have hp := List.pairwise_cons.1 hpw
    refine ih l1 g1.inv ((debondEntry_frame l l1 e h1).sane hs) ?_ hp.2
    intro x hx
    rw [hq]
    refine List.mem_filter.2 ⟨hmem x (List.mem_cons_of_mem _ hx), ?_⟩
    simp [not_sameKey_of_keyLt e x (hp.1 x hx)]

theorem debondAll_frame (l l' : Ledger) (es : List DebEntry) (hok : debondAll l es = .ok l') : Frame l l' := by
  induction es generalizing l with
  | nil => simp only [debondAll] at hok; injection hok with hok; subst hok; exact Frame.refl _
  | cons e es ih =>
    simp only [debondAll] at hok
    split at hok; · cases hok
    rename_i l1 h1
    exact (debondEntry_frame l l1 e h1).trans (ih l1 hok)

/-- `onEpochChange` (debonding completion, then signing rewards) never errors. -/
theorem onEpochChange_total (l : Ledger) (epoch : Nat) (h : Inv l) (hs : Sane l) :
    ∃ l', onEpochChange l epoch = .ok l' ∧ Frame l l' := by
  unfold onEpochChange
  obtain ⟨l1, h1⟩ := debondAll_total l (DebSt.expired l.deb epoch) h hs
    (fun x hx => (List.takeWhile_sublist _).subset hx)
    (List.Pairwise.sublist (List.takeWhile_sublist _) h.sorted)
  simp only [h1]
  have f1 := debondAll_frame l l1 _ h1
  obtain ⟨l2, h2⟩ := rewardEpochSigning_total l1 epoch (f1.sane hs)
  exact ⟨l2, h2, f1.trans (rewardEpochSigning_frame l1 l2 epoch h2)⟩

/-! ### TransferFromCommon -/

/-- `TransferFromCommon` never errors — for any amount, a depleted common pool (skip), escrow or
not — except in one corner the proof forces out: escrowing into a pool that was slashed to zero with
shares outstanding while the whole amount is commission (rate exactly 100%). -/
theorem transferFromCommon_total (l : Ledger) (dst amount : Nat) (escrow : Bool) (hs : Sane l)
    (hres : l.isReserved dst = false)
    (hcorner : (l.acct dst).active.totalShares = 0 ∨ (l.acct dst).active.balance ≠ 0 ∨
      l.rateOf dst l.epoch < commissionRateDenominator) :
    ∃ l', transferFromCommon l dst amount escrow = .ok l' := by
  unfold transferFromCommon
  simp only [hres, Bool.false_eq_true, if_false]
  obtain ⟨m1, m2, m3⟩ := moveUpTo_spec (l.acct dst).general l.common amount
  generalize (Quantity.moveUpTo (l.acct dst).general l.common amount).2.2 = tr at *
  generalize (Quantity.moveUpTo (l.acct dst).general l.common amount).1 = gen1 at *
  generalize (Quantity.moveUpTo (l.acct dst).general l.common amount).2.1 = com1 at *
  by_cases h0 : tr = 0
  · simp only [h0, if_true]; exact ⟨l, rfl⟩
  simp only [h0, if_false]
  cases escrow with
  | false => simp only [Bool.not_false, if_true]; exact ⟨_, rfl⟩
  | true =>
    simp only [Bool.not_true, Bool.false_eq_true, if_false]
    have hrate : l.rateOf dst l.epoch ≤ commissionRateDenominator := rateOf_le l hs dst l.epoch
    by_cases hts : (l.acct dst).active.totalShares = 0
    · -- everything is commission, deposited 1:1
      simp only [hts, ne_eq, not_true_eq_false, if_false]
      simp only [h0, if_false]
      obtain ⟨r, hr⟩ := deposit_succeeds (l.acct dst).active (l.del dst dst) gen1 tr (by omega) (Or.inl hts)
      simp only [hr]; exact ⟨_, rfl⟩
    · simp only [hts, ne_eq, not_false_eq_true, if_true]
      obtain ⟨com, rest, hcc, hsum⟩ := computeCommission_total _ tr hrate
      simp only [hcc]
      have hg : ¬ gen1 < rest := by omega
      simp only [hg, if_false]
      by_cases hcom : com = 0
      · simp only [hcom, if_true]; exact ⟨_, rfl⟩
      · simp only [hcom, if_false]
        have hbal : (l.acct dst).active.balance + rest ≠ 0 := by
          rcases hcorner with h1 | h1 | h1
          · exact absurd h1 hts
          · omega
          · -- rate < 100% and tr ≥ 1 leave a non-zero rest
            have hlt : com < tr := by
              have hc' := hcc
              unfold computeCommission at hc'
              simp only at hc'
              split at hc'
              · cases hc'
              · injection hc' with hc'
                injection hc' with hc1 _
                rw [← hc1]
                apply (Nat.div_lt_iff_lt_mul (by decide)).2
                exact Nat.mul_lt_mul_of_pos_left h1 (by omega)
            omega
        obtain ⟨r, hr⟩ := deposit_succeeds
          { (l.acct dst).active with balance := (l.acct dst).active.balance + rest } (l.del dst dst) (gen1 - rest) com
          (by omega) (Or.inr (by simpa using hbal))
        simp only [hr]; exact ⟨_, rfl⟩

def witnessTfcCorner : Ledger := {
  n := 1, acct := fun _ => { active := { balance := 0, totalShares := 5 }, schedule := { rates := [⟨0, 100000⟩], bounds := [⟨0, 0, 100000⟩] } },
  del := fun _ _ => 5, deb := [], common := 100, govDeposits := 0, lastBlockFees := 0, feeAcc := 0,
  totalSupply := 100, params := {} }

/-- The corner is real: a validator entity slashed to zero (shares outstanding) with a 100%
commission rate makes `TransferFromCommon(…, escrow = true)` return an error (the commission deposit
is refused by `sharesForStake`). The ledger satisfies the conservation invariant. -/
theorem transferFromCommon_corner_fails :
    invB witnessTfcCorner = true ∧ wfB witnessTfcCorner = true ∧
    (transferFromCommon witnessTfcCorner 0 10 true).toBool = false := by decide

/-! ### Fee disbursement (as modelled in the ledger; the arithmetic core is `C10.feesP_total` / `feesVQ_total`) -/

theorem payVoters_total (l : Ledger) (share : Nat) (vs : List Nat) (hres : ∀ v ∈ vs, l.isReserved v = false) :
    ∃ l', payVoters l share vs = .ok l' := by
  induction vs generalizing l with
  | nil => exact ⟨l, rfl⟩
  | cons v vs ih =>
    simp only [payVoters, hres v (List.mem_cons_self ..), Bool.false_eq_true, if_false]
    exact ih _ (fun x hx => hres x (List.mem_cons_of_mem _ hx))

theorem payVoters_frame (l l' : Ledger) (share : Nat) (vs : List Nat) (hok : payVoters l share vs = .ok l') :
    Frame l l' := by
  induction vs generalizing l with
  | nil => simp only [payVoters] at hok; injection hok with hok; subst hok; exact Frame.refl _
  | cons v vs ih =>
    simp only [payVoters] at hok
    split at hok; · cases hok
    exact (creditGeneral_frame l v share).trans (ih _ hok)

theorem payNextProposer_total (l : Ledger) (p : Option Nat) (a : Nat)
    (hres : ∀ q, p = some q → l.isReserved q = false) : ∃ l', payNextProposer l p a = .ok l' := by
  unfold payNextProposer
  cases p with
  | none => exact ⟨l, rfl⟩
  | some q =>
    simp only [hres q rfl, Bool.false_eq_true, if_false]
    split <;> exact ⟨_, rfl⟩

theorem payNextProposer_lbf (l l' : Ledger) (p : Option Nat) (a : Nat) (hok : payNextProposer l p a = .ok l') :
    l'.lastBlockFees = l.lastBlockFees := by
  unfold payNextProposer at hok; frame_cases hok

/-- `disburseFeesP`: total when the fee-split weights are not all zero (needed only when fees were
collected) and the proposer's entity is a real account. -/
theorem disburseFeesP_total (l : Ledger)
    (hw : l.feeAcc ≠ 0 → l.params.feeWeightVote + l.params.feeWeightNextPropose + l.params.feeWeightPropose ≠ 0)
    (hres : ∀ q, l.proposer = some q → l.isReserved q = false) :
    ∃ l', disburseFeesP l = .ok l' ∧ Frame l l' ∧
      (l'.lastBlockFees ≠ 0 → l.params.feeWeightVote + l.params.feeWeightNextPropose ≠ 0) := by
  unfold disburseFeesP
  dsimp only
  by_cases hf : l.feeAcc = 0
  · simp only [hf, if_true]
    exact ⟨_, rfl, ⟨rfl, rfl, fun _ => rfl, fun _ h => h⟩, fun h => absurd rfl h⟩
  simp only [hf, if_false, hw hf]
  have hpersist : l.feeAcc * (l.params.feeWeightVote + l.params.feeWeightNextPropose) /
      (l.params.feeWeightVote + l.params.feeWeightNextPropose + l.params.feeWeightPropose) ≠ 0 →
      l.params.feeWeightVote + l.params.feeWeightNextPropose ≠ 0 := by
    intro hne h0; rw [h0] at hne; simp at hne
  generalize l.feeAcc * (l.params.feeWeightVote + l.params.feeWeightNextPropose) /
      (l.params.feeWeightVote + l.params.feeWeightNextPropose + l.params.feeWeightPropose) = persist at *
  split
  · obtain ⟨l1, h1⟩ := payNextProposer_total
      { l with lastBlockFees := persist, lbfSpent := false, feeAcc := 0 } l.proposer (l.feeAcc - persist)
      (by intro q hq; exact hres q hq)
    have f := payNextProposer_frame _ l1 _ _ h1
    have hl := payNextProposer_lbf _ l1 _ _ h1
    exact ⟨l1, h1, ⟨f.1, f.2.1, f.2.2.1, f.2.2.2⟩, by rw [hl]; exact hpersist⟩
  · exact ⟨_, rfl, ⟨rfl, rfl, fun _ => rfl, fun _ h => h⟩, hpersist⟩

def witnessZeroWeights : Ledger := { witnessActiveSchedule with
  feeAcc := 10
  params := { feeWeightPropose := 0, feeWeightVote := 0, feeWeightNextPropose := 0 } }

theorem disburseFeesP_needs_weights : (disburseFeesP witnessZeroWeights).toBool = false := by decide

/-- `disburseFeesVQ`: total when a non-zero persisted fee comes with a non-empty vote list and
non-zero vote/next-proposer weights, the voters are among the eligible validators, and proposer and
voters are real accounts. -/
theorem disburseFeesVQ_total (l : Ledger) (p : Option Nat) (nE : Nat) (vs : List Nat)
    (hE : l.lastBlockFees ≠ 0 → nE ≠ 0 ∧ l.params.feeWeightVote + l.params.feeWeightNextPropose ≠ 0)
    (hlen : vs.length ≤ nE)
    (hp : ∀ q, p = some q → l.isReserved q = false) (hv : ∀ v ∈ vs, l.isReserved v = false) :
    ∃ l', disburseFeesVQ l p nE vs = .ok l' ∧ Frame l l' := by
  unfold disburseFeesVQ
  dsimp only
  by_cases h0 : l.lastBlockFees = 0
  · simp only [h0, if_true]; exact ⟨l, rfl, Frame.refl _⟩
  obtain ⟨hne, hwq⟩ := hE h0
  simp only [h0, hne, hwq, if_false]
  unfold vqPay
  dsimp only
  -- what is paid never exceeds the persisted fees
  have hsn : l.lastBlockFees / nE * l.params.feeWeightNextPropose /
      (l.params.feeWeightVote + l.params.feeWeightNextPropose) ≤ l.lastBlockFees / nE := by
    apply Nat.div_le_of_le_mul
    rw [Nat.mul_comm (l.params.feeWeightVote + l.params.feeWeightNextPropose)]
    exact Nat.mul_le_mul_left _ (Nat.le_add_left _ _)
  generalize l.lastBlockFees / nE * l.params.feeWeightNextPropose /
      (l.params.feeWeightVote + l.params.feeWeightNextPropose) = sn at *
  have hpv : l.lastBlockFees / nE * vs.length ≤ l.lastBlockFees :=
    Nat.le_trans (Nat.mul_le_mul_left _ hlen) (Nat.div_mul_le_self _ _)
  generalize l.lastBlockFees / nE = pv at *
  have hsplit : sn * vs.length + (pv - sn) * vs.length = pv * vs.length := by
    rw [← Nat.add_mul]; congr 1; omega
  have hlt : ¬ l.lastBlockFees <
      (if sn * vs.length ≠ 0 ∧ p.isSome = true then sn * vs.length else 0) +
      (if pv - sn ≠ 0 then (pv - sn) * vs.length else 0) := by
    split <;> split <;> omega
  simp only [hlt, if_false]
  obtain ⟨l1, h1⟩ := payNextProposer_total l p (sn * vs.length) hp
  simp only [h1]
  have f1 := payNextProposer_frame l l1 p _ h1
  have hv1 : ∀ v ∈ vs, l1.isReserved v = false := fun v hv' => by rw [isReserved_params f1.1]; exact hv v hv'
  have step2 : ∃ l2, payVotersIf l1 (pv - sn) vs = .ok l2 ∧ Frame l1 l2 := by
    unfold payVotersIf
    split
    · obtain ⟨l2, h2⟩ := payVoters_total l1 (pv - sn) vs hv1
      exact ⟨l2, h2, payVoters_frame l1 l2 _ _ h2⟩
    · exact ⟨l1, rfl, Frame.refl _⟩
  obtain ⟨l2, h2, f2⟩ := step2
  simp only [h2]
  have f := f1.trans f2
  exact ⟨_, rfl, ⟨f.1, f.2.1, f.2.2.1, f.2.2.2⟩⟩

/-- The vote-list hypothesis is necessary (cf. `C10.feesVQ_needs_validators`). -/
theorem disburseFeesVQ_needs_validators :
    (disburseFeesVQ { witnessActiveSchedule with lastBlockFees := 10 } none 0 []).toBool = false := by
  decide

/-! ### BeginBlock and EndBlock as a whole -/

theorem addRewardSingleAttenuated_frame (l l' : Ledger) (ep f n d a : Nat)
    (hok : addRewardSingleAttenuated l ep f n d a = .ok l') : Frame l l' := by
  unfold addRewardSingleAttenuated at hok
  split at hok
  · injection hok with hok; subst hok; exact Frame.refl _
  · split at hok; · cases hok
    split at hok; · cases hok
    exact rewardAccount_frame l l' _ a _ hok

/-- What BeginBlock needs from the block: proposer and voters are real accounts; a non-zero
persisted fee comes with a non-empty vote list (and non-zero vote/next-proposer weights — an
invariant of the chain, see `runBlock_total`); voters are among the eligible validators; and the
proposing reward's attenuation denominator is non-zero whenever that reward is computed. -/
structure BeginOk (l : Ledger) (proposer : Option Nat) (nE : Nat) (voters : List Nat) : Prop where
  proposer_ok : ∀ q, proposer = some q → q < l.n ∧ l.isReserved q = false
  voters_ok : ∀ v ∈ voters, v < l.n ∧ l.isReserved v = false
  fees_ok : l.lastBlockFees ≠ 0 → nE ≠ 0 ∧ l.params.feeWeightVote + l.params.feeWeightNextPropose ≠ 0
  voters_le : voters.length ≤ nE
  attenuation_ok : proposer.isSome = true → activeStep l.params.rewardSchedule l.epoch ≠ none → nE ≠ 0

/-- **BeginBlock never returns an error** (fee disbursement to voters and proposer, proposing
reward with commission, signing bookkeeping, slashing for any evidence list). -/
theorem beginBlock_total (l : Ledger) (proposer : Option Nat) (nE : Nat) (voters evidence : List Nat)
    (h : Inv l) (hfresh : l.lbfSpent = false) (hs : Sane l) (hb : BeginOk l proposer nE voters) :
    ∃ l', beginBlock l proposer nE voters evidence = .ok l' ∧ Frame l l' := by
  unfold beginBlock
  obtain ⟨l1, h1, f1⟩ := disburseFeesVQ_total l proposer nE voters hb.fees_ok hb.voters_le
    (fun q hq => (hb.proposer_ok q hq).2) (fun v hv => (hb.voters_ok v hv).2)
  simp only [h1]
  have e1 : l1.epoch = l.epoch :=
    (disburseFeesVQ_kept l l1 proposer nE voters (fun q hq => (hb.proposer_ok q hq).1)
      (fun v hv => (hb.voters_ok v hv).1) h hfresh h1).2.2.2.1
  have s1 : Sane l1 := f1.sane hs
  have s2 : Sane { l1 with proposer := proposer } := Frame.sane s1 ⟨rfl, rfl, fun _ => rfl, fun _ hx => hx⟩
  have step : ∃ l3, (match proposer with
      | none => (Except.ok { l1 with proposer := proposer } : Except LErr Ledger)
      | some p => addRewardSingleAttenuated { l1 with proposer := proposer } l1.epoch
          l1.params.rewardFactorBlockProposed voters.length nE p) = .ok l3 ∧ Frame { l1 with proposer := proposer } l3 := by
    cases hp : proposer with
    | none => exact ⟨_, rfl, Frame.refl _⟩
    | some p =>
      simp only
      obtain ⟨l3, h3⟩ := addRewardSingleAttenuated_total { l1 with proposer := some p } l1.epoch
        l1.params.rewardFactorBlockProposed voters.length nE p (by rw [← hp]; exact s2)
        (by show l1.isReserved p = false; rw [isReserved_params f1.1]; exact (hb.proposer_ok p hp).2)
        (by show activeStep l1.params.rewardSchedule l1.epoch ≠ none → nE ≠ 0
            rw [f1.1, e1]; exact hb.attenuation_ok (by rw [hp]; rfl))
      exact ⟨l3, h3, addRewardSingleAttenuated_frame _ l3 _ _ _ _ _ h3⟩
  obtain ⟨l3, h3, f3⟩ := step
  split
  · rename_i e heq
    have : (Except.error e : Except LErr Ledger) = .ok l3 := heq.symm.trans h3
    cases this
  · rename_i l3' heq
    have : (Except.ok l3' : Except LErr Ledger) = .ok l3 := heq.symm.trans h3
    injection this with this; subst this
    have s4 : Sane (updateEpochSigning l3' voters) :=
      Frame.sane (f3.sane s2) ⟨rfl, rfl, fun _ => rfl, fun _ hx => hx⟩
    obtain ⟨l5, h5⟩ := evidenceLoop_total _ evidence s4
    have f5 := evidenceLoop_frame _ l5 evidence h5
    have f13 : Frame l l3' := f1.trans ⟨f3.1, f3.2.1, f3.2.2.1, f3.2.2.2⟩
    exact ⟨l5, h5, f13.trans ⟨f5.1, f5.2.1, f5.2.2.1, f5.2.2.2⟩⟩

/-- **EndBlock never returns an error** (proposer fee payment, debonding completion and signing
rewards at an epoch transition). -/
theorem endBlock_total (l : Ledger) (h : Inv l) (hset : FeesSettled l) (hs : Sane l)
    (hw : l.feeAcc ≠ 0 → l.params.feeWeightVote + l.params.feeWeightNextPropose + l.params.feeWeightPropose ≠ 0)
    (hp : ∀ q, l.proposer = some q → q < l.n ∧ l.isReserved q = false) :
    ∃ l', endBlock l = .ok l' ∧ Frame l l' ∧
      (l'.lastBlockFees ≠ 0 → l.params.feeWeightVote + l.params.feeWeightNextPropose ≠ 0) := by
  unfold endBlock
  obtain ⟨l1, h1, f1, hl1⟩ := disburseFeesP_total l hw (fun q hq => (hp q hq).2)
  simp only [h1]
  obtain ⟨k1, _, _, _, _⟩ := disburseFeesP_kept l l1 (fun q hq => (hp q hq).1) h hset h1
  have s1 := f1.sane hs
  have step : ∃ l2, (if l1.epochChanged = true then onEpochChange l1 l1.epoch else Except.ok l1) = .ok l2 ∧
      Frame l1 l2 ∧ l2.lastBlockFees = l1.lastBlockFees := by
    split
    · obtain ⟨l2, h2, f2⟩ := onEpochChange_total l1 l1.epoch k1.inv s1
      have g2 := onEpochChange_good l1 l2 l1.epoch (fun a ha => (s1.entities a (Or.inl ha)).1) k1.inv h2
      exact ⟨l2, h2, f2, g2.frame.1⟩
    · exact ⟨l1, rfl, Frame.refl _, rfl⟩
  obtain ⟨l2, h2, f2, e2⟩ := step
  split
  · rename_i e heq
    have : (Except.error e : Except LErr Ledger) = .ok l2 := heq.symm.trans h2
    cases this
  · rename_i l2' heq
    have : (Except.ok l2' : Except LErr Ledger) = .ok l2 := heq.symm.trans h2
    injection this with this; subst this
    have f := f1.trans f2
    exact ⟨_, rfl, ⟨f.1, f.2.1, f.2.2.1, f.2.2.2⟩, by show l2'.lastBlockFees ≠ 0 → _; rw [e2]; exact hl1⟩

/-! ### Whole blocks and chains never halt -/

theorem payFee_frame (l l' : Ledger) (s n f : Nat) (hok : payFee l s n f = .ok l') : Frame l l' := by
  unfold payFee at hok; dsimp only at hok; frame_sane hok
theorem transfer_frame (l l' : Ledger) (s d a : Nat) (hok : transfer l s d a = .ok l') : Frame l l' := by
  unfold transfer burnImpl at hok; dsimp only at hok; frame_sane hok
theorem burn_frame (l l' : Ledger) (s a : Nat) (hok : burn l s a = .ok l') : Frame l l' := by
  unfold burn burnImpl at hok; dsimp only at hok; frame_sane hok
theorem addEscrow_frame (l l' : Ledger) (s e a : Nat) (hok : addEscrow l s e a = .ok l') : Frame l l' := by
  unfold addEscrow at hok; dsimp only at hok; frame_sane hok
theorem allow_frame (l l' : Ledger) (s b : Nat) (n : Bool) (c : Nat) (hok : allow l s b n c = .ok l') :
    Frame l l' := by
  unfold allow at hok; dsimp only at hok; frame_sane hok
theorem withdraw_frame (l l' : Ledger) (d s a : Nat) (hok : Ledger.withdraw l d s a = .ok l') : Frame l l' := by
  unfold Ledger.withdraw at hok; dsimp only at hok; frame_sane hok
theorem govDeposit_frame (l l' : Ledger) (s a : Nat) (hok : govDeposit l s a = .ok l') : Frame l l' := by
  unfold govDeposit at hok; dsimp only at hok; frame_sane hok
theorem govRefund_frame (l l' : Ledger) (s a : Nat) (hok : govRefund l s a = .ok l') : Frame l l' := by
  unfold govRefund at hok; frame_sane hok
theorem govDiscard_frame (l l' : Ledger) (a : Nat) (hok : govDiscard l a = .ok l') : Frame l l' := by
  unfold govDiscard at hok; frame_sane hok
theorem transferFromCommon_frame (l l' : Ledger) (d a : Nat) (e : Bool)
    (hok : transferFromCommon l d a e = .ok l') : Frame l l' := by
  unfold transferFromCommon at hok; dsimp only at hok; frame_sane hok

/-- `reclaimEscrow` queues a debonding delegation; it refuses reserved addresses, so `Sane` survives. -/
theorem reclaimEscrow_sane (l l' : Ledger) (d e sh : Nat) (hs : Sane l)
    (hok : reclaimEscrow l d e sh = .ok l') : Sane l' := by
  unfold reclaimEscrow at hok
  split at hok; · cases hok
  split at hok; · cases hok
  rename_i hrd
  split at hok; · cases hok
  split at hok; · cases hok
  rename_i hre
  dsimp only at hok
  split at hok; · cases hok
  rename_i r hr
  injection hok with hok; subst hok
  have hd : l.isReserved d = false := by simpa using hrd
  have he : l.isReserved e = false := by
    by_cases hde : d = e
    · rw [← hde]; exact hd
    · have h' : ¬ d = e → l.isReserved e = false := by simpa using hre
      exact h' hde
  refine ⟨?_, hs.minRate, hs.entities, ?_⟩
  · intro i
    have : ((upd l.acct e { l.acct e with active := r.active, debonding := r.debonding }) i).schedule
        = (l.acct i).schedule := by
      simp only [upd]; split <;> simp_all
    show C05Commission.Valid l.params.rules ((upd l.acct e _) i).schedule
    rw [this]; exact hs.rates i
  · intro x hx
    rcases mem_enqueue _ _ _ hx with ⟨h1, h2⟩ | hx'
    · simp only at h1 h2
      show l.isReserved x.delegator = false ∧ l.isReserved x.escrow = false
      rw [h1, h2]; exact ⟨hd, he⟩
    · exact hs.debRefs x hx'

/-- An accepted `AmendCommissionSchedule` keeps the ledger sane: the new schedule is valid
(`C05Commission.amend_valid`), nothing else changes. -/
theorem amendCommissionSchedule_sane (l l' : Ledger) (src : Nat) (am : Schedule) (hs : Sane l)
    (hok : amendCommissionSchedule l src am = .ok l') : Sane l' := by
  obtain ⟨hother, _, hvalid, _, _⟩ := amendCommissionSchedule_spec l l' src am hok
  unfold amendCommissionSchedule at hok
  split at hok; · cases hok
  dsimp only at hok
  split at hok; · cases hok
  split at hok; · cases hok
  rename_i s' hs'
  injection hok with hok
  have hp : l'.params = l.params := by rw [← hok]; rfl
  have hn : l'.n = l.n := by rw [← hok]; rfl
  have hdeb : l'.deb = l.deb := by rw [← hok]; rfl
  refine ⟨?_, by rw [hp]; exact hs.minRate, ?_, ?_⟩
  · intro i
    rw [hp]
    by_cases hi : i = src
    · subst hi; exact hvalid (hs.rates i)
    · rw [hother i hi]; exact hs.rates i
  · intro a ha; rw [hp] at ha; rw [hn, isReserved_params hp]; exact hs.entities a ha
  · intro x hx; rw [hdeb] at hx; rw [isReserved_params hp, isReserved_params hp]; exact hs.debRefs x hx

theorem execMsg_sane (l l' : Ledger) (rt : Nat) (m : MsgBody) (hs : Sane l) (hok : execMsg l rt m = .ok l') :
    Sane l' := by
  cases m with
  | transfer d a => exact (transfer_frame l l' rt d a hok).sane hs
  | withdraw src a => exact (withdraw_frame l l' rt src a hok).sane hs
  | addEscrow e a =>
    simp only [execMsg] at hok
    split at hok; · cases hok
    exact (addEscrow_frame l l' rt e a hok).sane hs
  | reclaimEscrow e sh =>
    simp only [execMsg] at hok
    split at hok; · cases hok
    split at hok; · cases hok
    exact reclaimEscrow_sane l l' rt e sh hs hok

theorem applyOp_sane (l : Ledger) (o : Op) (hs : Sane l) : Sane (applyOp l o) := by
  cases o with
  | msg rt m =>
    simp only [applyOp]; cases hr : execMsg l rt m with
    | error e => exact hs
    | ok l' => exact execMsg_sane l l' rt m hs hr
  | tx s n f g b =>
    simp only [applyOp]
    rcases applyTx_cases l s n f g b with ⟨e, h1, he⟩ | ⟨l1, e, h1, h2, he⟩ | ⟨l1, l2, h1, h2, he⟩
    · rw [he]; exact hs
    · rw [he]; exact (payFee_frame l l1 s n f h1).sane hs
    · rw [he]
      have s1 := (payFee_frame l l1 s n f h1).sane hs
      cases b with
      | transfer d a => exact (transfer_frame l1 l2 s d a h2).sane s1
      | burn a => exact (burn_frame l1 l2 s a h2).sane s1
      | addEscrow e a => exact (addEscrow_frame l1 l2 s e a h2).sane s1
      | reclaimEscrow e sh => exact reclaimEscrow_sane l1 l2 s e sh s1 h2
      | allow bb neg ch => exact (allow_frame l1 l2 s bb neg ch h2).sane s1
      | withdraw src a => exact (withdraw_frame l1 l2 s src a h2).sane s1
      | amend am => exact amendCommissionSchedule_sane l1 l2 s am s1 h2
  | slash a amt =>
    simp only [applyOp]; cases hr : slashEscrowL l a amt with
    | error e => exact hs
    | ok l' => exact (slashEscrowL_frame l l' a amt hr).sane hs
  | transferFromCommon d amt e =>
    simp only [applyOp]; cases hr : transferFromCommon l d amt e with
    | error e => exact hs
    | ok l' => exact (transferFromCommon_frame l l' d amt e hr).sane hs
  | addRewards ep f as =>
    simp only [applyOp]; cases hr : addRewards l ep f as with
    | error e => exact hs
    | ok l' => exact (addRewards_frame l l' ep f as hr).sane hs
  | govDeposit s amt =>
    simp only [applyOp]; cases hr : govDeposit l s amt with
    | error e => exact hs
    | ok l' => exact (govDeposit_frame l l' s amt hr).sane hs
  | govRefund d amt =>
    simp only [applyOp]; cases hr : govRefund l d amt with
    | error e => exact hs
    | ok l' => exact (govRefund_frame l l' d amt hr).sane hs
  | govDiscard amt =>
    simp only [applyOp]; cases hr : govDiscard l amt with
    | error e => exact hs
    | ok l' => exact (govDiscard_frame l l' amt hr).sane hs

theorem ops_sane (l : Ledger) (ops : List Op) (hs : Sane l) : Sane (ops.foldl applyOp l) := by
  induction ops generalizing l with
  | nil => exact hs
  | cons o os ih => exact ih _ (applyOp_sane l o hs)

/-- A chain state from which the next block cannot halt. -/
structure Ready (l : Ledger) : Prop where
  boundary : Boundary l
  sane : Sane l
  weights : l.params.feeWeightVote + l.params.feeWeightNextPropose + l.params.feeWeightPropose ≠ 0
  lbfWeights : l.lastBlockFees ≠ 0 → l.params.feeWeightVote + l.params.feeWeightNextPropose ≠ 0

/-- What a block must satisfy (all of it provided by CometBFT and the registry, none of it by the
block's *content*): proposer and voters resolve to real accounts in range; a non-empty vote list
when fees were carried over; voters among the eligible validators; a non-zero attenuation
denominator whenever the proposing reward is computed (an empty last-commit exists only for the
initial block, where the application reports no epoch). Transactions and evidence are arbitrary. -/
structure BlockOk (l : Ledger) (b : Block) : Prop where
  inRange : blockScoped l.n b
  proposer_ok : ∀ q, b.proposer = some q → l.isReserved q = false
  voters_ok : ∀ v ∈ b.voters, l.isReserved v = false
  votes : l.lastBlockFees ≠ 0 → b.numEligible ≠ 0
  voters_le : b.voters.length ≤ b.numEligible
  attenuation : b.proposer.isSome = true →
    activeStep l.params.rewardSchedule (startBlock l b.newEpoch).epoch ≠ none → b.numEligible ≠ 0

/-- **No block content halts block execution**: from a ready state, every block — any
transactions (valid or not), any evidence, any epoch transition, any amounts — runs BeginBlock, all
operations and EndBlock without an error, and leaves a ready state. -/
theorem runBlock_total (l : Ledger) (b : Block) (hr : Ready l) (hb : BlockOk l b) :
    ∃ l', runBlock l b = some l' ∧ Ready l' := by
  obtain ⟨hi, hfresh, hacc⟩ := hr.boundary
  have hps : ParamsScoped l :=
    ⟨fun e he => (hr.sane.entities e (Or.inr he)).1, fun a ha => (hr.sane.entities a (Or.inl ha)).1⟩
  -- state after the epoch announcement
  have h0 : Frame l (startBlock l b.newEpoch) ∧ (startBlock l b.newEpoch).lastBlockFees = l.lastBlockFees ∧
      (startBlock l b.newEpoch).lbfSpent = l.lbfSpent ∧ Inv (startBlock l b.newEpoch) := by
    cases b.newEpoch with
    | none => exact ⟨Frame.refl _, rfl, rfl, hi⟩
    | some x => exact ⟨⟨rfl, rfl, fun _ => rfl, fun _ hx => hx⟩, rfl, rfl,
        inv_of_same_money hi rfl rfl rfl rfl rfl rfl rfl rfl rfl rfl⟩
  obtain ⟨f0, e0, e0', i0⟩ := h0
  have s0 := f0.sane hr.sane
  have hbegin : BeginOk (startBlock l b.newEpoch) b.proposer b.numEligible b.voters := by
    refine ⟨?_, ?_, ?_, hb.voters_le, ?_⟩
    · intro q hq; rw [f0.2.1, isReserved_params f0.1]; exact ⟨hb.inRange.1 q hq, hb.proposer_ok q hq⟩
    · intro v hv; rw [f0.2.1, isReserved_params f0.1]; exact ⟨hb.inRange.2.1 v hv, hb.voters_ok v hv⟩
    · intro hne; rw [e0] at hne; rw [f0.1]; exact ⟨hb.votes hne, hr.lbfWeights hne⟩
    · rw [f0.1]; exact hb.attenuation
  obtain ⟨l1, h1, f1⟩ := beginBlock_total _ b.proposer b.numEligible b.voters b.evidence i0
    (by rw [e0']; exact hfresh) s0 hbegin
  obtain ⟨k1, set1, pr1, _, _⟩ := beginBlock_kept _ l1 b.proposer b.numEligible b.voters b.evidence
    (fun q hq => (hbegin.proposer_ok q hq).1) (fun v hv => (hbegin.voters_ok v hv).1)
    (by rw [f0.1, f0.2.1]; exact hps.1) i0 (by rw [e0']; exact hfresh) h1
  have s1 := f1.sane s0
  have hn1 : l1.n = l.n := k1.n_eq.trans f0.2.1
  have hp1 : l1.params = l.params := k1.params_eq.trans f0.1
  -- operations
  have g2 := ops_good l1 b.ops (by rw [hn1]; exact hb.inRange.2.2) k1.inv
  have s2 := ops_sane l1 b.ops s1
  obtain ⟨q1, q2, q3, _, _⟩ := g2.frame
  have set2 : FeesSettled (b.ops.foldl applyOp l1) := by
    rcases set1 with s | s
    · left; rw [q2]; exact s
    · right; rw [q1]; exact s
  have hp2 : (b.ops.foldl applyOp l1).params = l.params := g2.params_eq.trans hp1
  have hn2 : (b.ops.foldl applyOp l1).n = l.n := g2.n_eq.trans hn1
  obtain ⟨l3, h3, f3, hl3⟩ := endBlock_total (b.ops.foldl applyOp l1) g2.inv set2 s2
    (by intro _; rw [hp2]; exact hr.weights)
    (by intro q hq; rw [q3, pr1] at hq; rw [hn2, isReserved_params hp2]
        exact ⟨hb.inRange.1 q hq, hb.proposer_ok q hq⟩)
  refine ⟨l3, ?_, ?_⟩
  · unfold runBlock; dsimp only; rw [h1]; dsimp only; rw [h3]
  · have hrun : runBlock l b = some l3 := by unfold runBlock; dsimp only; rw [h1]; dsimp only; rw [h3]
    obtain ⟨b3, n3, p3, _, _⟩ := runBlock_boundary l l3 b hr.boundary hps hb.inRange hrun
    exact ⟨b3, f3.sane s2, by rw [p3]; exact hr.weights, by rw [p3]; rw [hp2] at hl3; exact hl3⟩

def runChainOpt : Ledger → List Block → Option Ledger
  | l, [] => some l
  | l, b :: bs => match runBlock l b with
    | none => none
    | some l' => runChainOpt l' bs

/-- Every block of the chain meets `BlockOk` in the state it is applied to. -/
def ChainOk : Ledger → List Block → Prop
  | _, [] => True
  | l, b :: bs => BlockOk l b ∧ ∀ l', runBlock l b = some l' → ChainOk l' bs

/-- **No history halts**: from a ready state (e.g. genesis), a chain of blocks each meeting `BlockOk`
never reaches a failing BeginBlock/EndBlock. -/
theorem runChain_total (l : Ledger) (bs : List Block) (hr : Ready l) (hc : ChainOk l bs) :
    ∃ l', runChainOpt l bs = some l' ∧ Ready l' := by
  induction bs generalizing l with
  | nil => exact ⟨l, rfl, hr⟩
  | cons b bs ih =>
    obtain ⟨l1, h1, r1⟩ := runBlock_total l b hr hc.1
    simp only [runChainOpt, h1]
    exact ih l1 r1 (hc.2 l1 h1)

/-- **Commission never exceeds the reward in any reachable ledger**: along every history — whatever
`AmendCommissionSchedule` transactions (accepted or refused), runtime messages and other operations its
blocks contain — the rate `computeCommission` is called with, for any account and epoch, is at most
100 %, so the split succeeds and is exact. -/
theorem reachable_commission_le_reward (l : Ledger) (bs : List Block) (hr : Ready l) (hc : ChainOk l bs) :
    ∃ l', runChainOpt l bs = some l' ∧
      ∀ a ep q, ∃ com rest, computeCommission (l'.rateOf a ep) q = .ok (com, rest) ∧ com + rest = q := by
  obtain ⟨l', h, r⟩ := runChain_total l bs hr hc
  exact ⟨l', h, fun a ep q => computeCommission_total _ q (rateOf_le l' r.sane a ep)⟩

theorem ready_of_genesis (l l' : Ledger) (hok : genesis l = .ok l') (hs : Sane l')
    (hw : l'.params.feeWeightVote + l'.params.feeWeightNextPropose + l'.params.feeWeightPropose ≠ 0) : Ready l' := by
  have hb := genesis_boundary l l' hok
  refine ⟨hb, hs, hw, ?_⟩
  unfold genesis at hok
  dsimp only at hok
  split at hok
  · injection hok with hok; subst hok; intro h; exact absurd rfl h
  · cases hok

/-! ### The individual quantity operations behind the error-origin sites

Each Go error site wraps the error of one `quantity` operation.  `Add` and `Mul` never fail on valid
quantities, `Quo` fails iff the divisor is zero, `Sub`/`Move` iff the source is short; the translated
Go source of these operations (`Generated.QuantityGen`, over `big.Int` = `Int`) is proved equal to the
`QN` functions used here in `OasisProofs.C15` (`gen_Add`, `gen_Mul`, `gen_Quo`, `gen_Sub`, `gen_Move`,
`gen_MoveUpTo`). -/

theorem qn_add_total (q n : Nat) : QN.Add q n = .ok (q + n) := rfl
theorem qn_mul_total (q n : Nat) : QN.Mul q n = .ok (q * n) := rfl
theorem qn_quo_total (q n : Nat) (h : n ≠ 0) : QN.Quo q n = .ok (q / n) := by simp [QN.Quo, Quantity.quo, h]
theorem qn_quo_needs_divisor (q : Nat) : QN.Quo q 0 = .error .invalidQuantity := rfl
theorem qn_move_total (dst src n : Nat) (h : n ≤ src) : QN.Move dst src n = .ok (dst + n, src - n) := by
  simp [QN.Move, Quantity.move, Nat.not_lt.mpr h]
theorem qn_moveUpTo_total (dst src n : Nat) : ∃ r, QN.MoveUpTo dst src n = .ok r := ⟨_, rfl⟩
theorem rewardAmountDenominator_ne_zero : rewardAmountDenominator ≠ 0 := by decide
theorem commissionRateDenominator_ne_zero : commissionRateDenominator ≠ 0 := by decide

/-- The reward amount of `AddRewards`, step by step as in state.go:1226-1236 (three fallible calls):
never an error. -/
def rewardAmountSteps (balance factor scale : Nat) : Except QErr Nat := do
  let q ← QN.Mul (QN.Clone balance) factor
  let q ← QN.Mul q scale
  QN.Quo q rewardAmountDenominator

theorem rewardAmountSteps_total (balance factor scale : Nat) :
    rewardAmountSteps balance factor scale = .ok (balance * factor * scale / rewardAmountDenominator) := by
  simp [rewardAmountSteps, QN.Mul, QN.Clone, QN.Quo, Quantity.mul, Quantity.quo, bind, Except.bind,
    rewardAmountDenominator_ne_zero]

/-- The attenuated reward amount of `AddRewardSingleAttenuated` (state.go:1355-1371, five fallible
calls): an error exactly when the attenuation denominator is zero. -/
def attenuatedAmountSteps (balance factor scale num den : Nat) : Except QErr Nat := do
  let q ← QN.Mul (QN.Clone balance) factor
  let q ← QN.Mul q scale
  let q ← QN.Mul q num
  let q ← QN.Quo q rewardAmountDenominator
  QN.Quo q den

theorem attenuatedAmountSteps_total (balance factor scale num den : Nat) (hd : den ≠ 0) :
    attenuatedAmountSteps balance factor scale num den
      = .ok (balance * factor * scale * num / rewardAmountDenominator / den) := by
  simp [attenuatedAmountSteps, QN.Mul, QN.Clone, QN.Quo, Quantity.mul, Quantity.quo, bind, Except.bind,
    rewardAmountDenominator_ne_zero, hd]

theorem attenuatedAmountSteps_needs_den (balance factor scale num : Nat) :
    attenuatedAmountSteps balance factor scale num 0 = .error .invalidQuantity := by
  simp [attenuatedAmountSteps, QN.Mul, QN.Clone, QN.Quo, Quantity.mul, Quantity.quo, bind, Except.bind,
    rewardAmountDenominator_ne_zero]

/-- `SlashEscrow`'s arithmetic step by step as in state.go:815-838, over the *translated* `slashPool`
(`Generated.SharePoolGen.slashPool`, regenerated from the Go source): six fallible calls, never an
error, for every pair of pools, common pool and penalty — and it computes the model's `slashEscrow`. -/
def slashEscrowSteps (a d : SharePool) (common amount : Nat) : Except QErr SlashRes := do
  let total ← QN.Add (QN.Clone a.balance) d.balance
  let ra ← Generated.SharePoolGen.slashPool 0 a.balance a.totalShares amount total
  let rd ← Generated.SharePoolGen.slashPool 0 d.balance d.totalShares amount total
  let totalSlashed ← QN.Add (QN.Clone ra.1) rd.1
  if QN.IsZero totalSlashed then
    return { active := { a with balance := ra.2 }, debonding := { d with balance := rd.2 },
             common := common, slashed := totalSlashed, debondingSlashed := rd.1 }
  let mv ← QN.Move common (QN.Clone totalSlashed) totalSlashed
  return { active := { a with balance := ra.2 }, debonding := { d with balance := rd.2 },
           common := mv.1, slashed := totalSlashed, debondingSlashed := rd.1 }

theorem slashEscrowSteps_total (a d : SharePool) (common amount : Nat) :
    slashEscrowSteps a d common amount = .ok (slashEscrow a d common amount) := by
  have ga := OasisProofs.C15.gen_slashPool 0 a amount (a.balance + d.balance)
  have gd := OasisProofs.C15.gen_slashPool 0 d amount (a.balance + d.balance)
  have sa := OasisProofs.C15.slashPool_shares 0 a amount (a.balance + d.balance)
  have sd := OasisProofs.C15.slashPool_shares 0 d amount (a.balance + d.balance)
  have ea : ({ balance := (slashPool 0 a amount (a.balance + d.balance)).2.balance, totalShares := a.totalShares } : SharePool)
      = (slashPool 0 a amount (a.balance + d.balance)).2 := by
    rw [← sa]
  have ed : ({ balance := (slashPool 0 d amount (a.balance + d.balance)).2.balance, totalShares := d.totalShares } : SharePool)
      = (slashPool 0 d amount (a.balance + d.balance)).2 := by
    rw [← sd]
  simp only [slashEscrowSteps, QN.Add, QN.Clone, Quantity.add, bind, Except.bind, ga, gd, QN.IsZero, QN.Move,
    Quantity.move, slashEscrow, ea, ed, pure, Except.pure, Nat.lt_irrefl, if_false]
  generalize (slashPool 0 a amount (a.balance + d.balance)) = ra
  generalize (slashPool 0 d amount (a.balance + d.balance)) = rd
  by_cases hz : ra.1 + rd.1 = 0
  · have hb : (ra.1 + rd.1 == 0) = true := by simpa using hz
    simp [hz]
  · have hb : (ra.1 + rd.1 == 0) = false := by simpa using hz
    simp [hb]

/-! ### Non-vacuity -/

example : Sane exLedger := by
  refine ⟨?_, by decide, ?_, ?_⟩
  · intro i st hst
    by_cases h0 : i = 0
    · subst h0; simp [exLedger] at hst; subst hst; decide
    · by_cases h1 : i = 1
      · subst h1; simp [exLedger] at hst
      · simp [exLedger, h0, h1] at hst
  · intro a ha
    simp [exLedger] at ha
    rcases ha with (rfl | rfl) | rfl <;> decide
  · intro x hx
    simp [exLedger] at hx; subst hx; decide

example : exLedger.lastBlockFees ≠ 0 ∧
    exLedger.params.feeWeightVote + exLedger.params.feeWeightNextPropose ≠ 0 := by decide

example : BlockOk exLedger exBlock := by
  refine ⟨?_, ?_, ?_, by decide, by decide, by decide⟩
  · refine ⟨?_, ?_, ?_⟩
    · intro p hp; simp [exBlock] at hp; subst hp; decide
    · intro v hv; simp [exBlock] at hv; subst hv; decide
    · intro o ho
      simp [exBlock] at ho
      rcases ho with rfl | rfl | rfl | rfl | rfl | rfl | rfl | rfl | rfl | rfl | rfl | rfl | rfl | rfl | rfl <;>
        simp [opScoped, bodyScoped, msgScoped, exLedger]
  · intro q hq; simp [exBlock] at hq; subst hq; decide
  · intro v hv; simp [exBlock] at hv; subst hv; decide

end OasisProofs.C10Ledger
