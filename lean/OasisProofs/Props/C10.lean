import OasisProofs.Helpers.Fees
import OasisModel.Handlers.Flow
import Generated.FatalPaths
import OasisProofs.Props.C10Sound
/-
C10 — no block content can halt block execution.

The multiplexer panics on any error returned by an application's BeginBlock / EndBlock
(`abci/mux.go:633-650,770-780`).  Two parts:

Part 1 (theorems, all inputs, unbounded naturals = big.Int): the arithmetic of the per-block fee
split (`fees.go`: disburseFeesP at EndBlock, disburseFeesVQ at the next BeginBlock) never takes an
error branch — for every fee amount, weights, validator and voter counts — under exactly the
hypotheses the proofs force, each of which is shown necessary by a concrete failing witness and is
discharged by the environment as stated:
  * fee-split weights not all zero — enforced by `ConsensusParameters.SanityCheck`
    (staking/api/sanity_check.go) at genesis and for every parameter-change proposal;
  * when persisted fees are non-zero the previous block had a non-empty commit (validator set
    non-empty; genesis `LastBlockFees` are moved to the common pool by `initLastBlockFees`);
  * voters ≤ eligible validators (voters are a subset of the commit's vote list).
and conservation: every base unit of the fees ends up with the proposer, a voter, the persisted
share or the common pool.

Part 2 (regenerated fatal-path ledger): every return site reachable from any application's
BeginBlock / EndBlock at which an ordinary (not state-unavailable) error can originate is
regenerated from /repo's Go source (`tools/gen fatalpaths` → `Generated/FatalPaths.lean`,
same-package callees and the state package inlined) and must equal — site for site — the ledger
below, in which each site carries the class that discharges it.  A new fallible step in block
processing, a removed guard that turns into a new error return, or a changed error path breaks
`ledger_matches_source`.  The collection `errSites` is PROVED COMPLETE (`Props/C10Sound.lean`)
against the concrete path semantics of the skeleton language (`OasisModel/Handlers/FlowSem.lean`);
`ledger_complete` at the end of this file composes that proof with the kernel-checked ledger.
-/
namespace OasisProofs.C10
open OasisModel.Handlers OasisModel.Handlers.Fees OasisProofs.Fees

/-! ## Part 1: fee disbursement is total and conserves the fees -/


theorem feesP_total (total wP wV wN : Nat) (hp : Bool) (hw : wP + wV + wN ≠ 0) :
    ∃ r, feesP total wP wV wN hp = .ok r ∧ r.persisted + r.proposer + r.common = total := by
  unfold feesP
  by_cases h0 : total = 0
  · simp [h0]
  · simp only [h0, if_false]
    have hq : (wV + wN + wP) ≠ 0 := by omega
    have hle : total * (wV + wN) / (wV + wN + wP) ≤ total := mul_div_le_of_le _ _ _ (by omega)
    simp only [quo_ok _ _ hq, bind, Except.bind, move_ok 0 total _ hle]
    generalize total * (wV + wN) / (wV + wN + wP) = p at hle
    by_cases hpay : (hp && decide (total - p ≠ 0)) = true
    · simp only [hpay, if_true, move_ok 0 (total - p) (total - p) (Nat.le_refl _)]
      simp
      omega
    · simp only [hpay]
      by_cases h2 : total - p ≠ 0
      · simp [h2, move_ok 0 (total - p) (total - p) (Nat.le_refl _)]
        omega
      · simp [h2]
        omega


theorem feesVQ_total (fees nE wV wN nV : Nat) (hp : Bool)
    (hE : fees ≠ 0 → nE ≠ 0) (hw : fees ≠ 0 → wV + wN ≠ 0) (hv : nV ≤ nE) :
    ∃ r, feesVQ fees nE wV wN nV hp = .ok r ∧
      r.nextProposer + r.perVoter * r.voters + r.common = fees := by
  unfold feesVQ
  by_cases h0 : fees = 0
  · simp [h0]
  · simp only [h0, if_false]
    have hE' := hE h0
    have hw' := hw h0
    simp only [quo_ok _ _ hE', quo_ok _ _ hw', bind, Except.bind]
    have hsn : fees / nE * wN / (wV + wN) ≤ fees / nE := mul_div_le_of_le _ _ _ (by omega)
    simp only [sub_ok _ _ hsn]
    generalize hpv : fees / nE = pv at hsn
    generalize hs : pv * wN / (wV + wN) = sn at hsn
    -- total paid to next proposer and voters is nV * pv ≤ fees
    have hpvle : nV * pv ≤ fees := by
      calc nV * pv ≤ nE * pv := Nat.mul_le_mul_right _ hv
        _ = nE * (fees / nE) := by rw [hpv]
        _ ≤ fees := Nat.mul_div_le fees nE
    have hsplit : sn * nV + nV * (pv - sn) = nV * pv := by
      rw [Nat.mul_comm sn nV, ← Nat.mul_add]; congr 1; omega
    have hnext : sn * nV ≤ fees := by omega
    by_cases hpay : (decide (sn * nV ≠ 0) && hp) = true
    · simp only [hpay, if_true, move_ok 0 fees _ hnext]
      have hvot : nV * (pv - sn) ≤ fees - sn * nV := by omega
      by_cases hsv : pv - sn ≠ 0
      · simp only [hsv, ne_eq, not_false_eq_true, if_true, payVoters_ok nV (pv - sn) _ hvot]
        by_cases hrem : fees - sn * nV - nV * (pv - sn) ≠ 0
        · simp [hrem, move_ok 0 _ _ (Nat.le_refl (fees - sn * nV - nV * (pv - sn)))]
          rw [Nat.mul_comm (pv - sn) nV]; omega
        · simp [hrem]
          rw [Nat.mul_comm (pv - sn) nV]; omega
      · have hz : pv - sn = 0 := by omega
        simp only [hz, ne_eq, not_true_eq_false, if_false]
        by_cases hrem : fees - sn * nV ≠ 0
        · simp [hrem, move_ok 0 _ _ (Nat.le_refl (fees - sn * nV))]
          omega
        · simp [hrem]
          omega
    · rw [if_neg hpay]
      simp only []
      have hvot : nV * (pv - sn) ≤ fees := by omega
      by_cases hsv : pv - sn ≠ 0
      · simp only [hsv, ne_eq, not_false_eq_true, if_true, payVoters_ok nV (pv - sn) _ hvot]
        by_cases hrem : fees - nV * (pv - sn) ≠ 0
        · simp [hrem, move_ok 0 _ _ (Nat.le_refl (fees - nV * (pv - sn)))]
          rw [Nat.mul_comm (pv - sn) nV]; omega
        · simp [hrem]
          rw [Nat.mul_comm (pv - sn) nV]; omega
      · have hz : pv - sn = 0 := by omega
        simp only [hz, ne_eq, not_true_eq_false, if_false]
        simp [h0, move_ok 0 fees fees (Nat.le_refl _)]

/-- The hypotheses are necessary: without an eligible validator, or with zero vote/next-proposer
weights, a non-zero persisted fee makes BeginBlock fail. -/
theorem feesVQ_needs_validators : feesVQ 10 0 1 1 0 true = .error .divZero := by rfl
theorem feesVQ_needs_weights : feesVQ 10 4 0 0 3 true = .error .divZero := by rfl
theorem feesP_needs_weights : feesP 10 0 0 0 true = .error .divZero := by rfl

/-- With vote and next-proposer weights both zero nothing is persisted, so the next block's
`feesVQ` starts from zero fees and its weight hypothesis is never needed. -/
theorem feesP_zero_vq_weights (total wP : Nat) (hp : Bool) (hw : wP ≠ 0) :
    ∃ r, feesP total wP 0 0 hp = .ok r ∧ r.persisted = 0 := by
  unfold feesP
  by_cases h0 : total = 0
  · simp [h0]
  · simp only [h0, if_false]
    have hq : (0 + 0 + wP) ≠ 0 := by omega
    simp only [quo_ok _ _ hq, bind, Except.bind, Nat.add_zero, Nat.mul_zero, Nat.zero_div,
      move_ok 0 total 0 (Nat.zero_le _), Nat.sub_zero]
    cases hp with
    | true => simp [h0, move_ok 0 total total (Nat.le_refl _)]
    | false => simp [h0, move_ok 0 total total (Nat.le_refl _)]

-- non-vacuity: concrete splits
example : feesP 1000 2 1 1 true = .ok { persisted := 500, proposer := 500, common := 0 } := by rfl
example : feesVQ 500 4 1 1 3 true = .ok { nextProposer := 186, perVoter := 63, voters := 3, common := 125 } := by rfl

/-! ## Part 2: the fatal-path ledger -/

/-- How a potential fatal error site is discharged. -/
inductive Cls where
  | U  -- state access: the record exists by construction (parameters and statuses are written at
       -- genesis/registration, queues and pools always exist) so only unavailable/corrupted state
       -- fails here — a halt by design (`abci/mux.go:717-726`)
  | A  -- fee arithmetic: unreachable by `feesP_total` / `feesVQ_total` above
  | M  -- big-integer arithmetic of rewards, commission, slashing, debonding and the proposal tally:
       -- discharged by the totality theorems of `Props/C10Ledger.lean` (over the C05 ledger model, whose
       -- arithmetic is tied to the Go source by the regenerated `Generated/SharePoolGen` bridge lemmas of C15:
       -- `attenuatedAmountSteps_total`, `addRewardSingleAttenuated_total`, `computeCommission_total`,
       -- `rewardAccount_total`, `addRewards_total`, `slashEscrowSteps_total`, `onEpochChange_total`,
       -- `beginBlock_total`, `endBlock_total`, `runChain_total`) and `Props/C10Tally.lean`
       -- (`tally_total`, `closeProposal_total`, `closeAll_total`), each under hypotheses shown necessary by a
       -- witness; the roothash slashed-funds split (`slashing.go`: Add, Mul, Quo(100), Sub, Quo(n)) by
       -- `Props/C10Slash.lean` (`distribute_total`, `incorrectResults_total` for every percentage that
       -- `RuntimeStakingParameters.ValidateBasic` admits, necessity `distribute_needs_percentage`, tie:
       -- regenerated `Generated/SlashFacts` + `rhdrv -dist` against `om_slash`); argued-only remain: the two `FromInt64(len …)` imports, `SetDebondingDelegation` merging
       -- (onEpochChange passes nil) and the scheduler's voting-power computation (bounded by the genesis
       -- total-supply check)
  | P  -- the documented precondition: enough stake-eligible validators remain to elect a validator
       -- set / total voting stake is non-zero when a proposal closes
  | H  -- halt by design: scheduled upgrade the running binary does not support
  | N  -- not fatal: the caller handles the error (proposal execution failure marks the proposal failed)
  | R  -- unreachable by construction: enumerations are closed, identifiers come from state that
       -- holds the record (e.g. proposals listed as active exist), addresses derive from public keys,
       -- uint64 overflow guards on per-epoch block counters (bounded by the number of blocks)
  | F  -- outside the Lean model (beacon backends, key manager, roothash messaging/finalization
       -- internals): pinned by this ledger and exercised by the drivers only
  | K  -- REACHABLE, recorded as a known finding with the failing history (known-findings.txt): the site is
       -- kept in the ledger so that it stays pinned; it is not claimed unreachable
deriving DecidableEq, Repr

/-
Scope of the ledger (re-examined site by site in `docs/review-c10-fatal-paths.md`, an independent reading of the Go
code made after a hand justification of this kind had turned out wrong under C08):
  * the extraction models a call into ANOTHER application's state package (`TransferFromCommon`, `SlashEscrow`,
    `AddRewards`, `RemoveStakeClaim`, `SuspendRuntime`, the governance-deposit moves) as a write, which can only
    fail as state-unavailable; the ordinary errors of these callees are therefore NOT sites of this ledger.  They
    are discharged elsewhere: the staking movers by the totality theorems of `Props/C10Ledger.lean` (with
    `TransferFromCommon(escrow)` on a pool slashed to zero under 100 % commission as the recorded known finding
    `c10-fatal:tfc:slashed-pool-full-commission`), the others by the reading in the review;
  * `Publish(MessageBeforeSchedule)` hides the roothash `doBeforeSchedule` tree behind the single scheduler site
    classed K below (known finding: `DebondingInterval = 0`);
  * `roothash.go:onRuntimeCommitteeChanged … unknown runtime governance model` (class F) IS a real fatal path for a
    GENESIS compute runtime with consensus governance once a committee is elected (`StakingAddress()` is not ok);
    transactions and proposals cannot create such a runtime (registry refuses the model), so it is outside the
    property's quantifier (block content), noted here.
-/

def ledger : List (String × List (String × Cls)) := [
  ("beacon_Application_BeginBlock", [
    ("state.go:ConsensusParameters:errors.New(cometbft/beacon: expected consensus parameters t)", .U),
    ("genesis.go:doInitBackend:fmt.Errorf(beacon: unsupported backend: '%s')", .F),
    ("beacon.go:BeginBlock:app.backend.OnBeginBlock(ctx)", .F)]),
  ("beacon_Application_EndBlock", [
]),
  ("governance_BeginBlock", [
    ("state.go:Proposal:governance.ErrNoSuchProposal", .R),
    ("governance.go:BeginBlock:upgrade.ErrStopForUpgrade", .H)]),
  ("governance_EndBlock", [
    ("state.go:ConsensusParameters:fmt.Errorf(cometbft/governance: expected consensus paramete)", .U),
    ("state.go:Proposal:governance.ErrNoSuchProposal", .R),
    ("governance.go:validatorsEscrow:fmt.Errorf(failed to query current validators: %w)", .U),
    ("governance.go:validatorsEscrow:fmt.Errorf(failed to query validator account: %w)", .U),
    ("governance.go:validatorsEscrow:fmt.Errorf(failed to add to totalVotingStake: %w)", .M),
    ("governance.go:EndBlock:fmt.Errorf(consensus/governance: total voting stake is zero)", .P),
    ("governance.go:closeProposal:fmt.Errorf(failed to query votes: %w)", .U),
    ("governance.go:addShares:fmt.Errorf(failed to add votes: %w)", .M),
    ("governance.go:closeProposal:fmt.Errorf(failed to fetch delegations: %w)", .U),
    ("governance.go:subShares:fmt.Errorf(failed to sub votes: %w)", .M),
    ("governance.go:closeProposal:fmt.Errorf(failed to compute stake from shares: %w)", .M),
    ("governance.go:closeProposal:fmt.Errorf(failed to add votes: %w)", .M),
    ("governance.go:closeProposal:proposal.CloseProposal(totalVotingStake)", .M),
    ("governance.go:executeProposal:fmt.Errorf(upgrade already scheduled at epoch: %v: %w)", .N),
    ("governance.go:executeProposal:fmt.Errorf(%w: canceling proposal needs to be an upgrade pr)", .N),
    ("state.go:PendingUpgradeProposal:governance.ErrNoSuchProposal", .N),
    ("state.go:isProposalPendingUpgrade:err", .N),
    ("state.go:PendingUpgradeProposal:governance.ErrNoSuchUpgrade", .N),
    ("governance.go:executeProposal:governance.ErrInvalidArgument", .N),
    ("governance.go:executeProposal:err", .N),
    ("governance.go:EndBlock:fmt.Errorf(consensus/governance: invalid closed proposal st)", .R)]),
  ("keymanager_Application_BeginBlock", [
    ("keymanager.go:suspendRuntimes:fmt.Errorf(failed to create stake accumulator cache: %w)", .F),
    ("keymanager.go:suspendRuntimes:fmt.Errorf(unknown runtime governance model on runtime %s: )", .F),
    ("keymanager.go:BeginBlock:err", .F)]),
  ("keymanager_Application_EndBlock", [
]),
  ("keymanager_churp_BeginBlock", [
    ("epoch.go:onEpochChange:fmt.Errorf(keymanager: churp: failed to fetch runtime statu)", .F)]),
  ("keymanager_secrets_BeginBlock", [
    ("state.go:ConsensusParameters:fmt.Errorf(cometbft/keymanager: expected consensus paramete)", .U),
    ("epoch.go:onEpochChange:err", .F),
    ("state.go:Status:secrets.ErrNoSuchStatus", .F),
    ("state.go:MasterSecret:secrets.ErrNoSuchMasterSecret", .F),
    ("status.go:VerifyExtraInfo:err", .F),
    ("status.go:VerifyExtraInfo:fmt.Errorf(keymanager: missing ExtraInfo)", .F)]),
  ("registry_BeginBlock", [
    ("registry.go:onRegistryEpochChanged:fmt.Errorf(registry: onRegistryEpochChanged: failed to get )", .U),
    ("state.go:ConsensusParameters:errors.New(cometbft/registry: expected consensus parameters)", .U),
    ("registry.go:onRegistryEpochChanged:fmt.Errorf(failed to create stake accumulator cache: %w)", .U),
    ("state.go:NodeStatus:registry.ErrNoSuchNode", .R)]),
  ("registry_EndBlock", [
]),
  ("roothash_BeginBlock", [
    ("roothash.go:onCommitteeChanged:fmt.Errorf(failed to get consensus parameters: %w)", .F),
    ("roothash.go:onCommitteeChanged:fmt.Errorf(failed to create stake accumulator cache: %w)", .F),
    ("state.go:RuntimeState:roothash.ErrInvalidRuntime", .R),
    ("roothash.go:onRuntimeCommitteeChanged:err", .F),
    ("roothash.go:onRuntimeCommitteeChanged:fmt.Errorf(unknown runtime governance model on runtime %s: )", .F),
    ("roothash.go:onRuntimeCommitteeChanged:fmt.Errorf(failed to check stake claims: %w)", .F)]),
  ("roothash_EndBlock", [
    ("state.go:RuntimeState:roothash.ErrInvalidRuntime", .R),
    ("transactions.go:getRuntimeState:roothash.ErrRuntimeSuspended", .F),
    ("transactions.go:getRuntimeState:roothash.ErrNoCommittee", .F),
    ("transactions.go:getRuntimeState:roothash.ErrNoExecutorPool", .F),
    ("finalization.go:failRound:fmt.Errorf(failed to query primary scheduler, no workers in)", .F),
    ("finalization.go:tryFinalizeRoundInsideTx:err", .F),
    ("finalization.go:tryFinalizeRoundInsideTx:fmt.Errorf(failed to query primary scheduler, no workers in)", .F),
    ("messages.go:fetchRuntimeMessages:fmt.Errorf(failed to fetch incoming message queue: %w)", .F),
    ("messages.go:verifyRuntimeMessages:fmt.Errorf(failed to verify incoming messages hash)", .F),
    ("messages.go:removeRuntimeMessages:fmt.Errorf(failed to fetch incoming message queue metadata:)", .F),
    ("finalization.go:tryFinalizeRoundInsideTx:fmt.Errorf(cometbft/roothash: getting node %s: %w)", .F),
    ("slashing.go:onRuntimeIncorrectResults:fmt.Errorf(cometbft/roothash: totalSlashed.Add(slashed): %w)", .M),
    ("slashing.go:distributeSlashedFunds:fmt.Errorf(cometbft/roothash: runtimeAccReward.Mul: %w)", .M),
    ("slashing.go:distributeSlashedFunds:fmt.Errorf(cometbft/roothash: runtimeAccReward.Quo(100): %w)", .M),
    ("slashing.go:distributeSlashedFunds:fmt.Errorf(cometbft/roothash: remainingReward.Sub(runtimeAc)", .M),
    ("slashing.go:distributeSlashedFunds:fmt.Errorf(cometbft/roothash: remainingReward.Quo(len(discr)", .M),
    ("finalization.go:finalizeBlock:rearmRoundTimeout(ctx)", .F)]),
  ("scheduler_BeginBlock", [
    ("scheduler.go:shouldElect:fmt.Errorf(cometbft/scheduler: couldn't get base epoch: %w)", .U),
    ("scheduler.go:elect:fmt.Errorf(cometbft/scheduler: before schedule notification)", .K),
    ("state.go:ConsensusParameters:fmt.Errorf(cometbft/scheduler: expected consensus parameter)", .U),
    ("scheduler.go:elect:fmt.Errorf(cometbft/scheduler: couldn't get beacon: %w)", .U),
    ("scheduler.go:elect:fmt.Errorf(cometbft/scheduler: failed to query VRF state: %)", .U),
    ("query.go:ConsensusParameters:q.state.ConsensusParameters(ctx)", .U),
    ("scheduler.go:elect:fmt.Errorf(cometbft/scheduler: couldn't get nodes: %w)", .U),
    ("scheduler.go:elect:fmt.Errorf(cometbft/scheduler: couldn't get node status: %w)", .U),
    ("scheduler.go:elect:fmt.Errorf(cometbft/scheduler: failed to create stake accum)", .U),
    ("scheduler.go:fetchBalances:fmt.Errorf(failed to fetch escrow balance: %w)", .U),
    ("scheduler.go:electValidators:fmt.Errorf(failed to fetch escrow balance for account %s: %)", .U),
    ("scheduler.go:electValidators:fmt.Errorf(computing voting power for account %s with balan)", .M),
    ("scheduler.go:electValidators:fmt.Errorf(cometbft/scheduler: failed to elect any validato)", .P),
    ("scheduler.go:electValidators:fmt.Errorf(cometbft/scheduler: insufficient validators)", .P),
    ("scheduler.go:elect:err", .U),
    ("scheduler.go:fetchRuntimes:fmt.Errorf(cometbft/scheduler: couldn't get runtimes: %w)", .U),
    ("shuffle.go:electCommitteeMembers:fmt.Errorf(cometbft/scheduler: invalid committee type: %v)", .R),
    ("shuffle.go:electCommitteeMembers:fmt.Errorf(cometbft/scheduler: unsupported role: %v)", .R),
    ("scheduler.go:initRNG:fmt.Errorf(cometbft/scheduler: couldn't instantiate DRBG: %)", .R),
    ("shuffle.go:electCommittee:fmt.Errorf(cometbft/scheduler: failed to drop committee: %w)", .U),
    ("shuffle.go:electCommittee:fmt.Errorf(cometbft/scheduler: failed to save committee: %w)", .U)]),
  ("scheduler_EndBlock", [
    ("scheduler.go:updateValidators:fmt.Errorf(cometbft/scheduler: failed to query pending vali)", .U),
    ("scheduler.go:updateValidators:fmt.Errorf(cometbft/scheduler: failed to query current vali)", .U)]),
  ("staking_BeginBlock", [
    ("proposing_rewards.go:resolveEntityIDFromProposer:err", .U),
    ("votes.go:resolveEntityIDsFromVotes:err", .U),
    ("state.go:ConsensusParameters:fmt.Errorf(cometbft/staking: expected consensus parameters )", .U),
    ("fees.go:disburseFeesVQ:fmt.Errorf(import numEligibleValidators %d: %w)", .A),
    ("fees.go:disburseFeesVQ:fmt.Errorf(divide perValidator: %w)", .A),
    ("fees.go:disburseFeesVQ:fmt.Errorf(add FeeSplitWeightNextPropose: %w)", .A),
    ("fees.go:disburseFeesVQ:fmt.Errorf(multiply shareNextProposer: %w)", .A),
    ("fees.go:disburseFeesVQ:fmt.Errorf(divide shareNextProposer: %w)", .A),
    ("fees.go:disburseFeesVQ:fmt.Errorf(subtract shareVote: %w)", .A),
    ("fees.go:disburseFeesVQ:fmt.Errorf(import numVotingEntities %d: %w)", .A),
    ("fees.go:disburseFeesVQ:fmt.Errorf(multiply nextProposerTotal: %w)", .A),
    ("state.go:Account:fmt.Errorf(cometbft/staking: invalid account address: %s)", .R),
    ("fees.go:disburseFeesVQ:fmt.Errorf(move nextProposerTotal: %w)", .A),
    ("fees.go:disburseFeesVQ:fmt.Errorf(move shareVote: %w)", .A),
    ("fees.go:disburseFeesVQ:fmt.Errorf(move remaining: %w)", .A),
    ("proposing_rewards.go:rewardBlockProposing:fmt.Errorf(app state getting current epoch: %w)", .U),
    ("state.go:AddRewardSingleAttenuated:fmt.Errorf(cometbft/staking: failed importing attenuation n)", .M),
    ("state.go:AddRewardSingleAttenuated:fmt.Errorf(cometbft/staking: failed importing attenuation d)", .M),
    ("state.go:AddRewardSingleAttenuated:fmt.Errorf(cometbft/staking: failed multiplying by reward f)", .M),
    ("state.go:AddRewardSingleAttenuated:fmt.Errorf(cometbft/staking: failed multiplying by reward s)", .M),
    ("state.go:AddRewardSingleAttenuated:fmt.Errorf(cometbft/staking: failed multiplying by attenuat)", .M),
    ("state.go:AddRewardSingleAttenuated:fmt.Errorf(cometbft/staking: failed dividing by reward amou)", .M),
    ("state.go:AddRewardSingleAttenuated:fmt.Errorf(cometbft/staking: failed dividing by attenuation)", .M),
    ("state.go:computeCommission:fmt.Errorf(cometbft/staking: failed multiplying by commissi)", .M),
    ("state.go:computeCommission:fmt.Errorf(cometbft/staking: failed dividing by commission )", .M),
    ("state.go:computeCommission:fmt.Errorf(cometbft/staking: failed subtracting commission:)", .M),
    ("state.go:AddRewardSingleAttenuated:fmt.Errorf(cometbft/staking: failed transferring to active )", .M),
    ("state.go:AddRewardSingleAttenuated:fmt.Errorf(cometbft/staking: failed depositing commission: )", .M),
    ("signing_rewards.go:updateEpochSigning:fmt.Errorf(loading epoch signing info: %w)", .U),
    ("state.go:Update:fmt.Errorf(incrementing total blocks count: overflow, old_t)", .R),
    ("state.go:Update:fmt.Errorf(incrementing count for entity %s: overflow, old_)", .R),
    ("slashing.go:onEvidenceByzantineConsensus:err", .U),
    ("state.go:SlashEscrow:fmt.Errorf(cometbft/staking: account total balance: %w)", .M),
    ("state.go:slashPool:fmt.Errorf(cometbft/staking: slashAmount.Mul: %w)", .M),
    ("state.go:slashPool:fmt.Errorf(cometbft/staking: slashAmount.Quo: %w)", .M),
    ("state.go:slashPool:fmt.Errorf(cometbft/staking: failed moving stake: %w)", .M),
    ("state.go:SlashEscrow:fmt.Errorf(cometbft/staking: failed totalling slashed amoun)", .M),
    ("state.go:SlashEscrow:fmt.Errorf(cometbft/staking: failed moving stake to common )", .M)]),
  ("staking_EndBlock", [
    ("state.go:ConsensusParameters:fmt.Errorf(cometbft/staking: expected consensus parameters )", .U),
    ("fees.go:disburseFeesP:fmt.Errorf(add FeeSplitWeightNextPropose: %w)", .A),
    ("fees.go:disburseFeesP:fmt.Errorf(add FeeSplitWeightPropose: %w)", .A),
    ("fees.go:disburseFeesP:fmt.Errorf(multiply feePersistAmt: %w)", .A),
    ("fees.go:disburseFeesP:fmt.Errorf(divide feePersistAmt: %w)", .A),
    ("fees.go:disburseFeesP:fmt.Errorf(move feePersist: %w)", .A),
    ("state.go:Account:fmt.Errorf(cometbft/staking: invalid account address: %s)", .R),
    ("fees.go:disburseFeesP:fmt.Errorf(move feeProposerAmt: %w)", .A),
    ("fees.go:disburseFeesP:fmt.Errorf(move remaining: %w)", .A),
    ("staking.go:onEpochChange:fmt.Errorf(cometbft/staking: failed to redeem debonding sha)", .M),
    ("state.go:SetDebondingDelegation:fmt.Errorf(error merging debonding delegations: %w)", .M),
    ("signing_rewards.go:rewardEpochSigning:fmt.Errorf(loading epoch signing info: %w)", .U),
    ("state.go:EligibleEntities:fmt.Errorf(overflow in total blocks, total=%d)", .R),
    ("state.go:EligibleEntities:fmt.Errorf(entity %s: overflow in threshold comparison, cou)", .R),
    ("state.go:AddRewards:fmt.Errorf(cometbft/staking: failed multiplying by reward f)", .M),
    ("state.go:AddRewards:fmt.Errorf(cometbft/staking: failed multiplying by reward s)", .M),
    ("state.go:AddRewards:fmt.Errorf(cometbft/staking: failed dividing by reward amou)", .M),
    ("state.go:computeCommission:fmt.Errorf(cometbft/staking: failed multiplying by commissi)", .M),
    ("state.go:computeCommission:fmt.Errorf(cometbft/staking: failed dividing by commission )", .M),
    ("state.go:computeCommission:fmt.Errorf(cometbft/staking: failed subtracting commission:)", .M),
    ("state.go:AddRewards:fmt.Errorf(cometbft/staking: failed transferring to active )", .M),
    ("state.go:AddRewards:fmt.Errorf(cometbft/staking: depositing commission: %w)", .M),
    ("staking.go:EndBlock:app.onEpochChange(ctx)", .U)]),
  ("vault_BeginBlock", [
]),
  ("vault_EndBlock", [
])
]

def sitesOf (l : List (String × Cls)) : List String := l.map (·.1)

def expectedSites (name : String) : Option (List String) :=
  (ledger.find? (fun p => p.1 == name)).map (fun p => sitesOf p.2)

def rootMatches (p : String × Flow) : Bool := some (errSites 200 p.2) == expectedSites p.1

set_option maxRecDepth 100000 in
/-- **The regenerated fatal-path ledger equals the classified ledger**, root by root and site by
site, for BeginBlock and EndBlock of beacon, governance, key manager (+ secrets, CHURP),
registry, roothash, scheduler, staking and vault. -/
theorem ledger_matches_source : Generated.FatalPaths.all.all rootMatches = true := by decide +kernel

theorem roots_match : Generated.FatalPaths.all.map (·.1) = ledger.map (·.1) := by decide

/-- Number of sites per class (for the evidence). -/
def countCls (c : Cls) : Nat := (ledger.map (fun p => (p.2.filter (fun s => s.2 == c)).length)).sum

/-! ### the ledger composed with the completeness proof of the collection -/

set_option maxRecDepth 100000 in
/-- The fuel used for the ledger covers the nesting depth of every regenerated root. -/
theorem ledger_fuel_suffices : Generated.FatalPaths.all.all (fun p => p.2.depth ≤ 200) = true := by
  decide +kernel

/-- **Every regenerated BeginBlock/EndBlock root, every path** (of the skeleton's concrete
semantics, `FlowSem.Path`): an ordinary (not state-unavailable) error that the root can return
originates at a site that the ledger lists — and classifies — for that root. -/
theorem ledger_complete (name : String) (f : Flow) (hmem : (name, f) ∈ Generated.FatalPaths.all)
    (tr : List Act) (q : String) (chain : List String) (σ' : Cfg)
    (hp : Path f initCfg tr (.ret (.err q) chain) σ') :
    ∃ sites, expectedSites name = some sites ∧ q ∈ sites := by
  have h := List.all_eq_true.1 ledger_matches_source (name, f) hmem
  have hd := List.all_eq_true.1 ledger_fuel_suffices (name, f) hmem
  simp only [rootMatches, beq_iff_eq] at h
  simp only [decide_eq_true_eq] at hd
  exact ⟨errSites 200 f, h.symm, C10Sound.errSites_complete 200 f hd tr q chain σ' hp⟩

end OasisProofs.C10
