/-
Regenerated tie of the round-timer model (`OasisModel/Roothash/Timer.lean`: `processRoundTimeouts`, `rearm`, `endBlock`) to `go/consensus/cometbft/apps/roothash/{timeout.go,roothash.go,finalization.go}`: EndBlock first tries to finalize the runtimes registered in this block and then processes EVERY runtime whose timer is queued at the current height, without exception; `rearmRoundTimeout` clears the previous queue entry and schedules the next one.

`tools/gen stmtfacts roothashtimer` flattens the functions into one line per simple statement on every run; the
lists are pinned here (`rfl`).  A change of a statement, a condition or of the order of statements
breaks the pin until the new text has been read against the model.
-/
import Generated.StmtFactsRoothashtimer

namespace OasisProofs.C11TimerFacts

/-- Position of the first line equal to `s`. -/
def pos (l : List String) (s : String) : Option Nat :=
  let i := l.findIdx (· == s)
  if i < l.length then some i else none

/-- The lines occur in this order (strictly increasing positions). -/
def inOrder (l : List String) : List String → Option Nat → Bool
  | [], _ => true
  | s :: rest, prev =>
    match pos l s, prev with
    | none, _ => false
    | some i, none => inOrder l rest (some i)
    | some i, some p => decide (p < i) && inOrder l rest (some i)

def expected_processRoundTimeoutsStmts : List String := [
  "state := roothashState.NewMutableState(ctx.State())",
  "roundTimeouts, err := state.RuntimesWithRoundTimeouts(ctx, ctx.CurrentHeight())",
  "if err != nil {",
  "return fmt.Errorf(\"failed to fetch runtimes with round timeouts: %w\", err)",
  "}",
  "for _, runtimeID := range roundTimeouts {",
  "if err = app.processRoundTimeout(ctx, runtimeID); err != nil {",
  "return fmt.Errorf(\"failed to process round timeout: %w\", err)",
  "}",
  "}",
  "return nil"]

theorem processRoundTimeoutsStmts_as_modelled : Generated.StmtFacts.Roothashtimer.processRoundTimeoutsStmts = expected_processRoundTimeoutsStmts := rfl

def expected_processRoundTimeoutStmts : List String := [
  "ctx.Logger().Warn(\"round timeout expired, forcing finalization\", \"runtime_id\", runtimeID, logging.LogEvent, roothash.LogEventTimerFired, )",
  "if err := app.tryFinalizeRound(ctx, runtimeID, true); err != nil {",
  "ctx.Logger().Error(\"failed to finalize round\", \"runtime_id\", runtimeID, \"err\", err, )",
  "return fmt.Errorf(\"failed to finalize round: %w\", err)",
  "}",
  "return nil"]

theorem processRoundTimeoutStmts_as_modelled : Generated.StmtFacts.Roothashtimer.processRoundTimeoutStmts = expected_processRoundTimeoutStmts := rfl

def expected_rearmRoundTimeoutStmts : List String := [
  "if prevTimeout == nextTimeout {",
  "return nil",
  "}",
  "ctx.Logger().Debug(\"re-arming round timeout\", \"runtime_id\", runtimeID, \"round\", round, \"prev_timeout\", prevTimeout, \"next_timeout\", nextTimeout, \"height\", ctx.CurrentHeight(), )",
  "state := roothashState.NewMutableState(ctx.State())",
  "if prevTimeout != roothash.TimeoutNever {",
  "if err := state.ClearRoundTimeout(ctx, runtimeID, prevTimeout); err != nil {",
  "return fmt.Errorf(\"failed to clear round timeout: %w\", err)",
  "}",
  "}",
  "if nextTimeout != roothash.TimeoutNever {",
  "if err := state.ScheduleRoundTimeout(ctx, runtimeID, nextTimeout); err != nil {",
  "return fmt.Errorf(\"failed to schedule round timeout: %w\", err)",
  "}",
  "}",
  "return nil"]

theorem rearmRoundTimeoutStmts_as_modelled : Generated.StmtFacts.Roothashtimer.rearmRoundTimeoutStmts = expected_rearmRoundTimeoutStmts := rfl

def expected_endBlockStmts : List String := [
  "if err := app.tryFinalizeRounds(ctx); err != nil {",
  "return types.ResponseEndBlock{}, err",
  "}",
  "if err := app.processRoundTimeouts(ctx); err != nil {",
  "return types.ResponseEndBlock{}, err",
  "}",
  "return types.ResponseEndBlock{}, nil"]

theorem endBlockStmts_as_modelled : Generated.StmtFacts.Roothashtimer.endBlockStmts = expected_endBlockStmts := rfl

def expected_tryFinalizeRoundsStmts : List String := [
  "for _, runtimeID := range roothashApi.RuntimesToFinalize(ctx) {",
  "if err := app.tryFinalizeRound(ctx, runtimeID, false); err != nil {",
  "ctx.Logger().Error(\"failed to finalize block\", \"err\", err, )",
  "return err",
  "}",
  "}",
  "return nil"]

theorem tryFinalizeRoundsStmts_as_modelled : Generated.StmtFacts.Roothashtimer.tryFinalizeRoundsStmts = expected_tryFinalizeRoundsStmts := rfl

theorem endBlock_finalizes_then_processes_timeouts :
    inOrder expected_endBlockStmts ["if err := app.tryFinalizeRounds(ctx); err != nil {", "if err := app.processRoundTimeouts(ctx); err != nil {"] none = true := by decide +kernel

end OasisProofs.C11TimerFacts
