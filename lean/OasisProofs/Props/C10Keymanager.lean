import OasisModel.Keymanager.Status
import OasisProofs.Helpers.Keymanager
/-
C10 — "no block content can halt block execution", at the key manager application's epoch-transition hook:
`generateStatus` (consensus/cometbft/apps/keymanager/secrets/status.go:26-222) with `VerifyExtraInfo`
(status.go:226-256) and `RuntimeAttestationKey` (apps/keymanager/common/registry.go:68-82), called from
`onEpochChange` (secrets/epoch.go:19-106, line 74) in the secrets extension's `BeginBlock` (secrets/ext.go:63-70;
the application forwards the extension's error, keymanager.go:84-88, and the multiplexer turns a `BeginBlock`
error into a node halt) at EVERY epoch transition, and from the `UpdatePolicy` transaction (secrets/txs.go:107).
Model: `OasisModel/Keymanager/Status.lean` — every pointer-typed field is an `Option`, every Go dereference is
`deref site _` (a `none` gives `Err.panic site`), every Go nil test is a visible `if`.

What is proved, for ALL inputs (any key manager runtime descriptor, any old status, any pending proposal or none,
any epoch, any number of nodes each with any number of runtime entries, every combination of absent/present
`Capabilities.TEE`, `ExtraInfo`, `Checksum`, `NextChecksum`, `PolicyChecksum`, `RSK`, `NextRSK`, `Policy`,
`NextPolicy`, every verdict of the attestation / decoding / signature checks):

* `generateStatus_never_panics`: none of the nine panic sites (`Site`: seven dereferences, the explicit
  `panic("the key manager must be initialized")` of status.go:191, the division of status.go:211) is reached;
* `generateStatus_total`: it returns a status. `generateStatus` has NO ordinary error result in Go
  (`*secrets.Status`): the ordinary errors of `VerifyExtraInfo` are consumed by `continue nextNode`
  (`verify_error_skips_node`), so `generateStatus_no_error` — no error of any kind.
* the caller: `onEpochChange_never_panics` (all inputs), `onEpochChange_total` (it returns when the consensus
  state answers), `onEpochChange_error_characterised` (an error is one of the five state-access failures
  epoch.go:26-34/56-62/65-72/88-90 — `UnavailableStateError`s of the node's own database, independent of block
  content and of what `generateStatus` computed). PROMINENTLY: such an error DOES make `BeginBlock` fail (epoch.go
  returns it, ext.go:69, keymanager.go:85-87), i.e. it halts the node; `state_failure_fails_begin_block` gives the
  concrete input. No block content reaches it: the answer "which inputs make `generateStatus` return an ordinary
  error to `onEpochChange`" is "none".
* `unguarded_next_rsk_panics`: the seeded mutation C10-km1 (adopt `nRSK` only from a version whose `NextChecksum`
  matches the proposal, instead of the unconditional `if nRSK == nil { nRSK = initResponse.NextRSK }` of
  status.go:177-179) reaches `Err.panic .nextRSK` (status.go:180 `*nRSK`) on ONE registered node that advertises
  `NextRSK` with a non-matching `NextChecksum`; the code as it exists returns a status on the same input.

No hypotheses are needed for the `generateStatus` theorems. The modelling assumptions (function ARGUMENTS are
non-nil pointers, established by the two callers and the state deserialisers) are listed in the model's header.
-/
namespace OasisProofs.C10Keymanager
open OasisModel.Keymanager.Status OasisProofs.Keymanager

/-! ### (1), (2): `generateStatus` -/

/-- (2) `generateStatus` returns a status for every input. -/
theorem generateStatus_total (kmrt : Runtime) (oldStatus : Status) (secret : Option Proposal)
    (nodes : List Node) (epoch : Epoch) :
    ∃ st, generateStatus kmrt oldStatus secret nodes epoch = .ok st :=
  generateStatusG_ok kmrt oldStatus secret nodes epoch

/-- (1) For every input the result is not a panic: every dereference, the explicit `panic` of status.go:191 and
the division of status.go:211 are guarded. -/
theorem generateStatus_never_panics (kmrt : Runtime) (oldStatus : Status) (secret : Option Proposal)
    (nodes : List Node) (epoch : Epoch) (site : Site) :
    generateStatus kmrt oldStatus secret nodes epoch ≠ .error (.panic site) := by
  obtain ⟨st, h⟩ := generateStatus_total kmrt oldStatus secret nodes epoch
  rw [h]; intro hc; cases hc

/-- (2) Characterisation of the ordinary-error case: there is none. -/
theorem generateStatus_no_error (kmrt : Runtime) (oldStatus : Status) (secret : Option Proposal)
    (nodes : List Node) (epoch : Epoch) (e : Err) :
    generateStatus kmrt oldStatus secret nodes epoch ≠ .error e := by
  obtain ⟨st, h⟩ := generateStatus_total kmrt oldStatus secret nodes epoch
  rw [h]; intro hc; cases hc

/-- The ordinary errors that do occur inside — those of `VerifyExtraInfo` (status.go:236-254) — are consumed
by `continue nextNode` (status.go:115-118): the node is left out of the committee, nothing propagates. -/
theorem verify_error_skips_node (kmrt : Runtime) (cs : Bytes) (ph : List Nat) (nc : Bytes) (st : Inner)
    (nodeRt : NodeRuntime) (ir : Option InitResponse) (e : VErr)
    (hid : nodeRt.id = kmrt.id) (htee : teeOk kmrt nodeRt = .ok true)
    (hv : verifyExtraInfo kmrt nodeRt = .ok (ir, some e)) :
    versionStep false kmrt cs ph nc st nodeRt = .ok .skipNode := by
  simp [versionStep, hid, htee, hv, bind, Except.bind, pure, Except.pure]

/-- Its hypotheses are satisfiable: a node whose init response carries a signature that does not verify under
the RAK (status.go:252-254). -/
example :
    versionStep false { id := 1, teeHardware := teeHardwareInvalid } none emptyHashSha3 none
      { secretReplicated := true, isInitialized := false, isSecure := false, rsk := none, nRSK := none,
        numVersions := 0 }
      { id := 1, extraInfo := some (some {}), sigOk := false } = .ok .skipNode :=
  verify_error_skips_node _ _ _ _ _ _ none .badSignature rfl (by decide) (by decide)

/-- `VerifyExtraInfo` and `RuntimeAttestationKey` themselves never panic and respect Go's `(ptr, err)`
convention: no error implies a non-nil pointer (this is what guards `*rak`, status.go:252, and
`initResponse.PolicyChecksum`, status.go:122). -/
theorem verifyExtraInfo_convention (kmrt : Runtime) (nodeRt : NodeRuntime) :
    ∃ r, verifyExtraInfo kmrt nodeRt = .ok r ∧ (r.2 = none → r.1.isSome) :=
  verifyExtraInfo_ok kmrt nodeRt

/-! ### (2): the caller `onEpochChange` -/

/-- `onEpochChange` never panics, for all inputs (any set of registered runtimes of any kind, any answers of the
consensus state, any nodes). -/
theorem onEpochChange_never_panics (paramsOk featureOk : Bool) (nodes : List Node) (epoch : Epoch)
    (runtimes : List RtEntry) (site : Site) :
    onEpochChange paramsOk featureOk nodes epoch runtimes ≠ .error (.panic site) := by
  unfold onEpochChange
  cases paramsOk <;> cases featureOk <;>
    simp only [bind, Except.bind, throw, throwThe, MonadExceptOf.throw,
      Bool.not_true, Bool.not_false, Bool.false_eq_true, if_true, if_false] <;>
    first
      | exact epochLoop_noPanic nodes epoch runtimes [] site
      | (intro h; cases h)

/-- When the consensus state answers every read and write, `onEpochChange` returns — whatever the nodes, the
statuses and the proposals are. -/
theorem onEpochChange_total (nodes : List Node) (epoch : Epoch) (runtimes : List RtEntry)
    (h : StateAvailable runtimes) :
    ∃ toEmit, onEpochChange true true nodes epoch runtimes = .ok toEmit := by
  unfold onEpochChange
  simpa [bind, Except.bind, pure, Except.pure] using epochLoop_ok nodes epoch runtimes [] h

/-- An error out of `onEpochChange` is a state-access failure, with the access that failed. -/
theorem onEpochChange_error_characterised (paramsOk featureOk : Bool) (nodes : List Node) (epoch : Epoch)
    (runtimes : List RtEntry) (err : Err)
    (h : onEpochChange paramsOk featureOk nodes epoch runtimes = .error err) :
    (paramsOk = false ∧ err = .state .consensusParameters) ∨
    (featureOk = false ∧ err = .state .featureVersion) ∨
    ∃ e ∈ runtimes, (e.statusRead = .unavailable ∧ err = .state .status) ∨
      (e.secretRead = .unavailable ∧ err = .state .masterSecret) ∨
      (e.setStatusOk = false ∧ err = .state .setStatus) := by
  unfold onEpochChange at h
  cases paramsOk <;> cases featureOk <;>
    simp only [bind, Except.bind, throw, throwThe, MonadExceptOf.throw,
      Bool.not_true, Bool.not_false, Bool.false_eq_true, if_true, if_false] at h
  · injection h with h; exact .inl ⟨rfl, h.symm⟩
  · injection h with h; exact .inl ⟨rfl, h.symm⟩
  · injection h with h; exact .inr (.inl ⟨rfl, h.symm⟩)
  · exact .inr (.inr (epochLoop_error nodes epoch runtimes [] err h))

/-! ### concrete inputs -/

/-- A key manager runtime without TEE (`TEEHardwareInvalid`: the RAK is the well-known insecure key). -/
def km : Runtime := { id := 1, teeHardware := teeHardwareInvalid }

def c1 : Bytes := some (List.replicate 32 0x11)
def c2 : Bytes := some (List.replicate 32 0x22)
def cX : Bytes := some (List.replicate 32 0x33)

/-- A live key manager node with an unrelated runtime entry and one entry for `km` whose `ExtraInfo` decodes to
the init response `r` (attestation and signature accepted). -/
def kmNode (id : PublicKey) (r : InitResponse) : Node :=
  { id := id, expiration := 100, roles := roleKeyManager,
    runtimes := [{ id := 7 }, { id := 1, extraInfo := some (some r) }] }

/-- An initialised key manager at generation 0 with checksum `c1` and signing key 500. -/
def oldS : Status :=
  { id := 1, isInitialized := true, isSecure := false, generation := 0, rotationEpoch := 2,
    checksum := c1, rsk := some 500, nodes := [10, 11, 12] }

/-! ### (3) the seeded mutation C10-km1 -/

/-- The node of the witness: it has replicated the current secret (`Checksum = c1`) and advertises a next
signing key (`NextRSK = 666`) together with a `NextChecksum` that matches no proposal. -/
def rogue : Node := kmNode 10 { checksum := c1, nextChecksum := cX, rsk := some 500, nextRSK := some 666 }

/-- (3) With `nRSK` adopted only from versions whose `NextChecksum` matches the proposal, ONE registered node
halts every validator at the next epoch transition: `nRSK` stays nil, `initResponse.NextRSK != nil` holds, and
status.go:180 dereferences `*nRSK`. -/
theorem unguarded_next_rsk_panics :
    generateStatusUnguarded km oldS none [rogue] 5 = .error (.panic .nextRSK) := by decide

/-- The mutation's panic is not an accident of the sample. For EVERY loop state in which no next signing key has
been adopted yet and EVERY init response that passes the policy, security-status, checksum and signing-key
checks, advertising any `NextRSK` with a `NextChecksum` different from the proposal's reaches status.go:180 with
`nRSK == nil`. -/
theorem unguarded_versionCheck_panics (cs : Bytes) (ph : List Nat) (nc : Bytes) (st : Inner)
    (ir : InitResponse) (k : PublicKey)
    (hpol : nodePolicyHash ir = some ph)
    (hsec : ir.isSecure = (if !st.isInitialized then ir.isSecure else st.isSecure))
    (hcs : bytesEqual ir.checksum cs = true)
    (hrsk : differsDeref .rsk ir.rsk (if st.rsk.isNone then ir.rsk else st.rsk) = .ok false)
    (hn : st.nRSK = none) (hk : ir.nextRSK = some k) (hne : bytesEqual ir.nextChecksum nc = false) :
    versionCheck true cs ph nc st ir = .error (.panic .nextRSK) := by
  unfold versionCheck
  simp only [hpol, hcs, hrsk, hn, hk, hne, bind, Except.bind, pure, Except.pure]
  simp only [differsDeref, bind, Except.bind, deref_some, deref_none, Option.isSome_some, Option.isNone_none,
    Bool.and_true, Bool.false_eq_true, if_true, if_false]
  have h3 : (ir.isSecure != if (!st.isInitialized) = true then ir.isSecure else st.isSecure) = false := by
    rw [← hsec]; simp
  rw [h3]
  simp

/-- Its hypotheses are satisfiable (the version entry of `rogue`, at the start of the node's inner loop). -/
example :
    versionCheck true c1 emptyHashSha3 none
      { secretReplicated := true, isInitialized := true, isSecure := false, rsk := none, nRSK := none,
        numVersions := 0 }
      { checksum := c1, nextChecksum := cX, rsk := some 500, nextRSK := some 666 }
    = .error (.panic .nextRSK) :=
  unguarded_versionCheck_panics _ _ _ _ _ 666 (by decide) (by decide) (by decide) (by decide) rfl rfl
    (by decide)

/-- The same with a pending proposal that the node has not replicated. -/
theorem unguarded_next_rsk_panics_with_proposal :
    generateStatusUnguarded km oldS (some { generation := 1, epoch := 5, checksum := c2 }) [rogue] 5
      = .error (.panic .nextRSK) := by decide

/-- … and through the caller: `BeginBlock` of the epoch transition panics. -/
theorem unguarded_halts_epoch_transition :
    (do let st ← generateStatusUnguarded km oldS none [rogue] 5; pure [st] : Except Err (List Status))
      = .error (.panic .nextRSK) := by decide

/-- The code as it exists returns a status on that input (the node stays in the committee, no rotation). -/
theorem guarded_next_rsk_ok :
    generateStatus km oldS none [rogue] 5 = .ok { oldS with nodes := [10] } := by decide

/-- The mutation is invisible on inputs where every advertised `NextRSK` comes with the proposal's checksum
(the rotation run below): the two functions agree there. -/
theorem unguarded_agrees_on_honest_rotation :
    generateStatusUnguarded km oldS (some { generation := 1, epoch := 5, checksum := c2 })
      [kmNode 10 { checksum := c1, nextChecksum := c2, rsk := some 500, nextRSK := some 600 },
       kmNode 11 { checksum := c1, nextChecksum := c2, rsk := some 500, nextRSK := some 600 },
       kmNode 12 { checksum := c1, rsk := some 500 }] 5
    = generateStatus km oldS (some { generation := 1, epoch := 5, checksum := c2 })
      [kmNode 10 { checksum := c1, nextChecksum := c2, rsk := some 500, nextRSK := some 600 },
       kmNode 11 { checksum := c1, nextChecksum := c2, rsk := some 500, nextRSK := some 600 },
       kmNode 12 { checksum := c1, rsk := some 500 }] 5 := by decide

/-! ### (4) non-vacuity: the theorems talk about runs that do something -/

/-- A run that INITIALISES the key manager (epoch.go:50-55: no stored status). Ten registered nodes: two form the
committee and fix `IsSecure = false`, `RSK = 500`; the others are skipped for a security-status mismatch, a
signing-key mismatch, expiry, a missing role, a nil `ExtraInfo`, undecodable `ExtraInfo`, a bad signature and a
TEE hardware mismatch — every `continue nextNode` exit is taken. -/
example :
    generateStatus km { id := 1 } none
      [kmNode 10 { isSecure := false, rsk := some 500 },
       kmNode 11 { isSecure := false },
       kmNode 12 { isSecure := true },
       kmNode 13 { isSecure := false, rsk := some 501 },
       { id := 14, expiration := 3, roles := roleKeyManager,
         runtimes := [{ id := 1, extraInfo := some (some {}) }] },
       { id := 15, expiration := 100, roles := 1, runtimes := [{ id := 1, extraInfo := some (some {}) }] },
       { id := 16, expiration := 100, roles := roleKeyManager, runtimes := [{ id := 1, extraInfo := none }] },
       { id := 17, expiration := 100, roles := roleKeyManager,
         runtimes := [{ id := 1, extraInfo := some none }] },
       { id := 18, expiration := 100, roles := roleKeyManager,
         runtimes := [{ id := 1, extraInfo := some (some {}), sigOk := false }] },
       { id := 19, expiration := 100, roles := roleKeyManager,
         runtimes := [{ id := 1, extraInfo := some (some {}), tee := some { hardware := 1, rak := 5 } }] }] 5
    = .ok { id := 1, isInitialized := true, isSecure := false, nodes := [10, 11], rsk := some 500 } := by
  decide

/-- A run with a ROTATION: generation 0 → 1. Two of three committee members replicated the proposal `c2`
(2·100/3 = 66 ≥ 66) and agree on the next signing key 600; the third is dropped from the committee. -/
example :
    generateStatus km oldS (some { generation := 1, epoch := 5, checksum := c2 })
      [kmNode 10 { checksum := c1, nextChecksum := c2, rsk := some 500, nextRSK := some 600 },
       kmNode 11 { checksum := c1, nextChecksum := c2, rsk := some 500, nextRSK := some 600 },
       kmNode 12 { checksum := c1, rsk := some 500 }] 5
    = .ok { id := 1, isInitialized := true, isSecure := false, generation := 1, rotationEpoch := 5,
            checksum := c2, nodes := [10, 11], rsk := some 600 } := by decide

/-- A rotation that is NOT accepted: one of three replicated (33 < 66); the status keeps generation 0. -/
example :
    generateStatus km oldS (some { generation := 1, epoch := 5, checksum := c2 })
      [kmNode 10 { checksum := c1, nextChecksum := c2, rsk := some 500, nextRSK := some 600 },
       kmNode 11 { checksum := c1, rsk := some 500 },
       kmNode 12 { checksum := c1, rsk := some 500 }] 5
    = .ok { oldS with nodes := [10, 11, 12] } := by decide

/-- A scheduled policy takes effect (status.go:47-49) and nodes are filtered by its hash (status.go:131-134). -/
example :
    generateStatus km { oldS with nextPolicy := some { serial := 2, digest := List.replicate 32 9 } } none
      [kmNode 10 { checksum := c1, rsk := some 500, policyChecksum := some (List.replicate 32 9) },
       kmNode 11 { checksum := c1, rsk := some 500 },
       kmNode 12 { checksum := c1, rsk := some 500, policyChecksum := some [9, 9] }] 5
    = .ok { oldS with policy := some { serial := 2, digest := List.replicate 32 9 }, nodes := [10] } := by
  decide

/-- An SGX key manager: the RAK comes from the node's TEE capability (registry.go:74-78). -/
example :
    generateStatus { id := 1, teeHardware := teeHardwareIntelSGX } { id := 1 } none
      [{ id := 10, expiration := 100, roles := roleKeyManager,
         runtimes := [{ id := 1, tee := some { hardware := 1, rak := 77 },
                        extraInfo := some (some { isSecure := true }) }] },
       { id := 11, expiration := 100, roles := roleKeyManager,
         runtimes := [{ id := 1, extraInfo := some (some { isSecure := true }) }] }] 5
    = .ok { id := 1, isInitialized := true, isSecure := true, nodes := [10] } := by decide

/-- `onEpochChange` over two registered runtimes (a compute runtime and a new key manager): the new status is
stored and emitted. The hypothesis of `onEpochChange_total` is satisfiable. -/
example :
    onEpochChange true true [kmNode 10 {}, kmNode 11 {}] 5
      [{ rt := { id := 7, teeHardware := 0, kind := 1 }, statusRead := .noSuch, secretRead := .noSuch },
       { rt := km, statusRead := .noSuch, secretRead := .noSuch }]
    = .ok [{ id := 1, isInitialized := true, isSecure := false, nodes := [10, 11] }] := by decide

example : StateAvailable
    [{ rt := { id := 7, teeHardware := 0, kind := 1 }, statusRead := .noSuch, secretRead := .noSuch },
     { rt := km, statusRead := .found oldS, secretRead := .noSuch }] := by
  intro e he
  simp only [List.mem_cons, List.mem_nil_iff, or_false] at he
  rcases he with rfl | rfl <;> simp

/-- PROMINENT: an ordinary error out of `onEpochChange` DOES fail `BeginBlock` (ext.go:69, keymanager.go:85-87) and
so halts the node. The concrete input: the stored status of a key manager runtime cannot be read (state.go:100-103,
109-111: MKVS failure or undecodable stored bytes — the node's own database, not block content). The hypothesis
`StateAvailable` of `onEpochChange_total` is therefore necessary. -/
theorem state_failure_fails_begin_block :
    onEpochChange true true [kmNode 10 {}] 5
      [{ rt := km, statusRead := .unavailable, secretRead := .noSuch }] = .error (.state .status) := by
  decide

/-- … likewise a failing `SetStatus` (epoch.go:88-90). -/
example :
    onEpochChange true true [kmNode 10 {}] 5
      [{ rt := km, statusRead := .noSuch, secretRead := .noSuch, setStatusOk := false }]
    = .error (.state .setStatus) := by decide

end OasisProofs.C10Keymanager
