import OasisModel.Staking.Ledger
import OasisProofs.Helpers.Staking
import OasisProofs.Props.C15
import OasisProofs.Props.C05Commission
import Mathlib.Tactic.Ring
import Mathlib.Tactic.Linarith
/-
C05 — token supply is conserved and share bookkeeping stays consistent.

Theorems about the ledger model `OasisModel.Staking.Ledger` (one function per mutating path of the
Go staking application, returning what is persisted on success *and* failure):

  * `Inv` — the conservation invariant (`invB_iff`: it is the executable predicate the model
    executable evaluates on the dumped real ledger): total supply = Σ general + Σ active escrow +
    Σ debonding escrow + common pool + governance deposits + last-block fees + fee accumulator;
    every pool's total shares = Σ delegations (resp. debonding delegations) into it.
  * every operation preserves it — `applyTx_good` (all six transaction kinds, failing at the fee
    payment, failing in the body, or succeeding), `applyOp_good` (slashing, rewards, common-pool
    transfers, governance deposits), `beginBlock_kept`, `endBlock_kept` (fee disbursement with any
    proposer / vote participation, proposing and signing rewards, evidence, debonding completion);
  * `genesis_boundary`, `runBlock_boundary`, `runChain_boundary` — it holds initially and after
    every block of every history (induction over arbitrary block sequences), in the exact form of
    the property statement at block boundaries (`boundary_equation`);
  * `applyTx_supply`, `*_noBurn`, `supply_never_increases` — the recorded total supply changes
    only by successful burns, by exactly the burned amount;
  * `runChain_wf` — every escrow pool of every reachable ledger is well-formed (no balance without
    shares): the premise of the C15 fairness theorems and a clause of the in-tree sanity check.

The model is tied to the Go code by the ledgerdrv correspondence (real staking application on the
mock application state, full ledger dumps after every operation).
-/
set_option linter.unusedSimpArgs false
set_option linter.unnecessarySeqFocus false
set_option linter.unusedVariables false

namespace OasisProofs.C05
open OasisModel OasisModel.Staking OasisModel.Staking.SharePool OasisModel.Staking.Ledger OasisProofs.StakingH
open OasisProofs.C15 (deposit_wf withdraw_wf deposit_moves withdraw_pays_le reclaim_moves_all slash_conserves Sorted enqueue_sorted keyLt_iff sameKey_iff expired_eq_filter sorted_nodup withdraw_succeeds stakeForShares_le_balance)

/-! ### Sums over `0 … n-1` and point updates -/

theorem upd_same {α : Type} (f : Nat → α) (k : Nat) (v : α) : upd f k v k = v := by simp [upd]
theorem upd_other {α : Type} (f : Nat → α) (k i : Nat) (v : α) (h : i ≠ k) : upd f k v i = f i := by simp [upd, h]

theorem sumTo_congr (n : Nat) (f g : Nat → Nat) (h : ∀ i < n, f i = g i) : sumTo n f = sumTo n g := by
  induction n with
  | zero => rfl
  | succ k ih =>
    simp only [sumTo]
    rw [ih (fun i hi => h i (by omega)), h k (by omega)]

theorem sumTo_upd_ge (n k v : Nat) (f : Nat → Nat) (h : n ≤ k) : sumTo n (upd f k v) = sumTo n f :=
  sumTo_congr n _ _ (fun i hi => upd_other f k i v (by omega))

theorem sumTo_upd (n k v : Nat) (f : Nat → Nat) (h : k < n) :
    sumTo n (upd f k v) + f k = sumTo n f + v := by
  induction n with
  | zero => omega
  | succ m ih =>
    simp only [sumTo]
    by_cases hk : k = m
    · subst hk
      rw [sumTo_upd_ge k k v f (Nat.le_refl _), upd_same]; omega
    · have := ih (by omega)
      rw [upd_other f k m v (by omega)]; omega

theorem sumTo_le (n k : Nat) (f : Nat → Nat) (h : k < n) : f k ≤ sumTo n f := by
  induction n with
  | zero => omega
  | succ m ih =>
    simp only [sumTo]
    by_cases hk : k = m
    · subst hk; omega
    · have := ih (by omega); omega

/-! ### The invariant as a proposition -/

structure Inv (l : Ledger) : Prop where
  supply : l.totalSupply = accountsTotal l + l.common + l.govDeposits
            + (if l.lbfSpent then 0 else l.lastBlockFees) + l.feeAcc
  active : ∀ e, e < l.n → (l.acct e).active.totalShares = sumTo l.n (l.del e)
  debond : ∀ e, e < l.n → (l.acct e).debonding.totalShares = debSharesOf l.deb e
  scope : ∀ x ∈ l.deb, x.delegator < l.n ∧ x.escrow < l.n
  sorted : Sorted l.deb

theorem keyLt_transitive (a b c : DebEntry) (h1 : a.keyLt b = true) (h2 : b.keyLt c = true) : a.keyLt c = true := by
  rw [keyLt_iff] at *; omega

theorem sortedB_iff (q : List DebEntry) : sortedB q = true ↔ Sorted q := by
  induction q with
  | nil => simp [sortedB, Sorted]
  | cons a r ih =>
    cases r with
    | nil => simp [sortedB, Sorted]
    | cons b r' =>
      simp only [sortedB, Bool.and_eq_true, ih]
      unfold Sorted
      constructor
      · intro ⟨h1, h2⟩
        refine List.pairwise_cons.2 ⟨?_, h2⟩
        intro x hx
        rcases List.mem_cons.1 hx with rfl | hx
        · exact h1
        · exact keyLt_transitive a b x h1 ((List.pairwise_cons.1 h2).1 x hx)
      · intro h
        have := List.pairwise_cons.1 h
        exact ⟨this.1 b (List.mem_cons_self ..), this.2⟩

theorem invB_iff (l : Ledger) : invB l = true ↔ Inv l := by
  constructor
  · intro h
    simp only [invB, Bool.and_eq_true] at h
    obtain ⟨⟨⟨h1, h2⟩, h3⟩, h5⟩ := h
    refine ⟨by simpa [supplyOk] using h1, ?_, ?_, ?_, (sortedB_iff _).1 h5⟩
    · intro e he
      simp only [sharesOk, List.all_eq_true, List.mem_range, Bool.and_eq_true] at h2
      simpa using (h2 e he).1
    · intro e he
      simp only [sharesOk, List.all_eq_true, List.mem_range, Bool.and_eq_true] at h2
      simpa using (h2 e he).2
    · intro x hx
      simp only [scopeOk, List.all_eq_true, Bool.and_eq_true, decide_eq_true_eq] at h3
      exact h3 x hx
  · intro ⟨h1, h2, h3, h4, h5⟩
    simp only [invB, Bool.and_eq_true]
    refine ⟨⟨⟨by simpa [supplyOk] using h1, ?_⟩, ?_⟩, (sortedB_iff _).2 h5⟩
    · simp only [sharesOk, List.all_eq_true, List.mem_range, Bool.and_eq_true]
      intro e he
      exact ⟨by simpa using h2 e he, by simpa using h3 e he⟩
    · simp only [scopeOk, List.all_eq_true, Bool.and_eq_true, decide_eq_true_eq]
      exact h4

/-! ### How the primitive updates move the sums -/

theorem accountsTotal_setAcct (l : Ledger) (a : Nat) (x : Account) (h : a < l.n) :
    accountsTotal (l.setAcct a x) + (l.acct a).bal = accountsTotal l + x.bal := by
  unfold accountsTotal setAcct
  have : (fun i => (upd l.acct a x i).bal) = upd (fun i => (l.acct i).bal) a x.bal := by
    funext i; by_cases hi : i = a <;> simp [upd, hi]
  simp only [this]
  exact sumTo_upd l.n a x.bal _ h

theorem general_le_total (l : Ledger) (a : Nat) (h : a < l.n) : (l.acct a).general ≤ accountsTotal l := by
  have := sumTo_le l.n a (fun i => (l.acct i).bal) h
  unfold accountsTotal
  simp only [Account.bal] at *
  omega

/-- Share bookkeeping part of the invariant, as a function of the fields it reads. -/
def SharesInv (n : Nat) (acct : Nat → Account) (del : Nat → Nat → Nat) (deb : List DebEntry) : Prop :=
  (∀ e, e < n → (acct e).active.totalShares = sumTo n (del e)) ∧
  (∀ e, e < n → (acct e).debonding.totalShares = debSharesOf deb e) ∧
  (∀ x ∈ deb, x.delegator < n ∧ x.escrow < n) ∧ Sorted deb

theorem Inv.shares {l : Ledger} (h : Inv l) : SharesInv l.n l.acct l.del l.deb := ⟨h.active, h.debond, h.scope, h.sorted⟩

theorem Inv.ofShares {l : Ledger}
    (hs : l.totalSupply = accountsTotal l + l.common + l.govDeposits
            + (if l.lbfSpent then 0 else l.lastBlockFees) + l.feeAcc)
    (hsh : SharesInv l.n l.acct l.del l.deb) : Inv l := ⟨hs, hsh.1, hsh.2.1, hsh.2.2.1, hsh.2.2.2⟩

/-- Replacing an account by one with the same share totals keeps the share bookkeeping. -/
theorem sharesInv_upd_acct {n : Nat} {acct : Nat → Account} {del : Nat → Nat → Nat} {deb : List DebEntry}
    (h : SharesInv n acct del deb) (a : Nat) (x : Account)
    (h1 : x.active.totalShares = (acct a).active.totalShares)
    (h2 : x.debonding.totalShares = (acct a).debonding.totalShares) :
    SharesInv n (upd acct a x) del deb := by
  refine ⟨?_, ?_, h.2.2⟩
  · intro e he
    by_cases hea : e = a
    · subst hea; rw [upd_same, h1]; exact h.1 e he
    · rw [upd_other _ _ _ _ hea]; exact h.1 e he
  · intro e he
    by_cases hea : e = a
    · subst hea; rw [upd_same, h2]; exact h.2.1 e he
    · rw [upd_other _ _ _ _ hea]; exact h.2.1 e he

/-- What every step guarantees: the invariant again, same account range and parameters, and the
recorded total supply went down by exactly what was burned (`burned` is a ghost counter that only
`burnImpl` increases, by the burned amount). -/
structure Good (l l' : Ledger) : Prop where
  inv : Inv l'
  n_eq : l'.n = l.n
  params_eq : l'.params = l.params
  supply : l'.totalSupply + l'.burned = l.totalSupply + l.burned
  burned_mono : l.burned ≤ l'.burned
  /-- block-level bookkeeping is not touched by operations inside a block -/
  frame : l'.lastBlockFees = l.lastBlockFees ∧ l'.lbfSpent = l.lbfSpent ∧ l'.proposer = l.proposer ∧
          l'.epoch = l.epoch ∧ l'.epochChanged = l.epochChanged

theorem Good.refl {l : Ledger} (h : Inv l) : Good l l := ⟨h, rfl, rfl, rfl, Nat.le_refl _, ⟨rfl, rfl, rfl, rfl, rfl⟩⟩

theorem Good.trans {a b c : Ledger} (h1 : Good a b) (h2 : Good b c) : Good a c :=
  ⟨h2.inv, h2.n_eq.trans h1.n_eq, h2.params_eq.trans h1.params_eq,
   by have := h1.supply; have := h2.supply; omega, Nat.le_trans h1.burned_mono h2.burned_mono,
   ⟨h2.frame.1.trans h1.frame.1, h2.frame.2.1.trans h1.frame.2.1, h2.frame.2.2.1.trans h1.frame.2.2.1,
    h2.frame.2.2.2.1.trans h1.frame.2.2.2.1, h2.frame.2.2.2.2.trans h1.frame.2.2.2.2⟩⟩

/-! ### Transactions preserve the invariant -/

theorem payFee_good (l l' : Ledger) (signer nonce fee : Nat) (hs : signer < l.n) (h : Inv l)
    (hok : payFee l signer nonce fee = .ok l') : Good l l' := by
  unfold payFee at hok
  simp only at hok
  by_cases h1 : l.isReserved signer = true
  · simp [h1] at hok
  by_cases h2 : (l.acct signer).nonce ≠ nonce
  · simp [h1, h2] at hok
  by_cases hbal : (l.acct signer).general < fee + l.params.minTransactBalance
  · simp [h1, h2, hbal] at hok
  simp only [h1, h2, hbal, if_false, Bool.false_eq_true] at hok
  injection hok with hok; subst hok
  refine ⟨Inv.ofShares ?_ ?_, rfl, rfl, rfl, Nat.le_refl _, ⟨rfl, rfl, rfl, rfl, rfl⟩⟩
  · have ht := accountsTotal_setAcct l signer
      { l.acct signer with general := (l.acct signer).general - fee, nonce := (l.acct signer).nonce + 1 } hs
    have hsup := h.supply
    show l.totalSupply = accountsTotal (l.setAcct signer _) + l.common + l.govDeposits
      + (if l.lbfSpent then 0 else l.lastBlockFees) + (l.feeAcc + fee)
    simp only [Account.bal] at ht
    generalize (if l.lbfSpent = true then 0 else l.lastBlockFees) = lbf at *
    omega
  · exact sharesInv_upd_acct h.shares signer _ rfl rfl

theorem burnImpl_good (l l' : Ledger) (src amount : Nat) (hs : src < l.n) (h : Inv l)
    (hok : burnImpl l src amount = .ok l') : Good l l' := by
  unfold burnImpl at hok
  simp only at hok
  by_cases h1 : amount < l.params.minTransferAmount
  · simp [h1] at hok
  by_cases h2 : (l.acct src).general < amount
  · simp [h1, h2] at hok
  by_cases h3 : (l.acct src).general - amount < l.params.minTransactBalance
  · simp [h1, h2, h3] at hok
  simp only [h1, h2, h3, if_false] at hok
  injection hok with hok; subst hok
  have hge := general_le_total l src hs
  have hsup := h.supply
  have hts : ¬ l.totalSupply < amount := by
    generalize (if l.lbfSpent = true then 0 else l.lastBlockFees) = lbf at *
    omega
  have ht := accountsTotal_setAcct l src { l.acct src with general := (l.acct src).general - amount } hs
  simp only [Account.bal] at ht
  refine ⟨Inv.ofShares ?_ ?_, rfl, rfl, ?_, ?_, ⟨rfl, rfl, rfl, rfl, rfl⟩⟩
  · show (if l.totalSupply < amount then l.totalSupply else l.totalSupply - amount)
        = accountsTotal (l.setAcct src _) + l.common + l.govDeposits
          + (if l.lbfSpent then 0 else l.lastBlockFees) + l.feeAcc
    simp only [hts, if_false]
    generalize (if l.lbfSpent = true then 0 else l.lastBlockFees) = lbf at *
    omega
  · exact sharesInv_upd_acct h.shares src _ rfl rfl
  · show (if l.totalSupply < amount then l.totalSupply else l.totalSupply - amount) + (l.burned + amount)
        = l.totalSupply + l.burned
    simp only [hts, if_false]; omega
  · show l.burned ≤ l.burned + amount
    omega

theorem burn_good (l l' : Ledger) (src amount : Nat) (hs : src < l.n) (h : Inv l)
    (hok : burn l src amount = .ok l') : Good l l' := by
  unfold burn at hok
  split at hok
  · cases hok
  · exact burnImpl_good l l' src amount hs h hok

theorem transfer_good (l l' : Ledger) (src dst amount : Nat) (hs : src < l.n) (hd : dst < l.n) (h : Inv l)
    (hok : transfer l src dst amount = .ok l') : Good l l' := by
  unfold transfer at hok
  split at hok; · cases hok
  split at hok; · exact burnImpl_good l l' src amount hs h hok
  split at hok; · cases hok
  simp only at hok
  split at hok
  · split at hok
    · cases hok
    · injection hok with hok; subst hok; exact Good.refl h
  · rename_i hne
    split at hok; · cases hok
    by_cases h2 : (l.acct src).general < amount
    · simp [h2] at hok
    by_cases h3 : (l.acct src).general - amount < l.params.minTransactBalance
    · simp [h2, h3] at hok
    by_cases h4 : (l.acct dst).general + amount < l.params.minTransactBalance
    · simp [h2, h3, h4] at hok
    simp only [h2, h3, h4, if_false] at hok
    injection hok with hok; subst hok
    have hds : dst ≠ src := fun e => hne e.symm
    refine ⟨Inv.ofShares ?_ ?_, rfl, rfl, rfl, Nat.le_refl _, ⟨rfl, rfl, rfl, rfl, rfl⟩⟩
    · have t1 := accountsTotal_setAcct l dst { l.acct dst with general := (l.acct dst).general + amount } hd
      have t2 := accountsTotal_setAcct (l.setAcct dst { l.acct dst with general := (l.acct dst).general + amount })
        src { l.acct src with general := (l.acct src).general - amount } hs
      have e1 : (l.setAcct dst { l.acct dst with general := (l.acct dst).general + amount }).acct src = l.acct src :=
        upd_other _ _ _ _ hne
      rw [e1] at t2
      have hsup := h.supply
      show l.totalSupply = accountsTotal ((l.setAcct dst _).setAcct src _) + l.common + l.govDeposits
        + (if l.lbfSpent then 0 else l.lastBlockFees) + l.feeAcc
      simp only [Account.bal] at t1 t2
      generalize (if l.lbfSpent = true then 0 else l.lastBlockFees) = lbf at *
      omega
    · have s1 := sharesInv_upd_acct h.shares dst { l.acct dst with general := (l.acct dst).general + amount } rfl rfl
      exact sharesInv_upd_acct s1 src { l.acct src with general := (l.acct src).general - amount }
        (by rw [upd_other _ _ _ _ hne]) (by rw [upd_other _ _ _ _ hne])
theorem upd_upd_sum (n : Nat) (del : Nat → Nat → Nat) (e d s : Nat) (hd : d < n) :
    sumTo n (upd del e (upd (del e) d s) e) + del e d = sumTo n (del e) + s := by
  rw [upd_same]; exact sumTo_upd n d s (del e) hd

/-- Share bookkeeping after an operation that changes one delegation `(e, d)` and the active share
total of `e` by the same amount (deposit, redemption, commission). -/
theorem sharesInv_change_del {n : Nat} {acct : Nat → Account} {del : Nat → Nat → Nat} {deb : List DebEntry}
    (h : SharesInv n acct del deb) (acct' : Nat → Account) (e d s : Nat) (hd : d < n)
    (hact : ∀ i, i ≠ e → (acct' i).active.totalShares = (acct i).active.totalShares)
    (hdeb : ∀ i, (acct' i).debonding.totalShares = (acct i).debonding.totalShares)
    (he : (acct' e).active.totalShares + del e d = (acct e).active.totalShares + s) :
    SharesInv n acct' (upd del e (upd (del e) d s)) deb := by
  refine ⟨?_, ?_, h.2.2⟩
  · intro i hi
    by_cases hie : i = e
    · subst hie
      have := upd_upd_sum n del i d s hd
      have := h.1 i hi
      omega
    · rw [upd_other _ _ _ _ hie, hact i hie]; exact h.1 i hi
  · intro i hi; rw [hdeb i]; exact h.2.1 i hi

theorem addEscrow_good (l l' : Ledger) (src escrow amount : Nat) (hs : src < l.n) (he : escrow < l.n)
    (h : Inv l) (hok : addEscrow l src escrow amount = .ok l') : Good l l' := by
  unfold addEscrow at hok
  split at hok; · cases hok
  split at hok; · cases hok
  split at hok; · cases hok
  split at hok; · cases hok
  simp only at hok
  cases hd : deposit (l.acct escrow).active (l.del escrow src) (l.acct src).general amount with
  | error err => simp [hd] at hok
  | ok r =>
    simp only [hd] at hok
    split at hok; · cases hok
    injection hok with hok; subst hok
    obtain ⟨hle, hb, hsrc, ht, hsd⟩ := deposit_moves _ _ _ _ _ hd
    have hsup := h.supply
    by_cases hse : src = escrow
    · subst hse
      simp only [if_true]
      refine ⟨Inv.ofShares ?_ ?_, rfl, rfl, rfl, Nat.le_refl _, ⟨rfl, rfl, rfl, rfl, rfl⟩⟩
      · have t1 := accountsTotal_setAcct l src { l.acct src with general := r.stakeSrc, active := r.pool } hs
        show l.totalSupply = accountsTotal (l.setAcct src _) + l.common + l.govDeposits
          + (if l.lbfSpent then 0 else l.lastBlockFees) + l.feeAcc
        simp only [Account.bal] at t1
        generalize (if l.lbfSpent = true then 0 else l.lastBlockFees) = lbf at *
        omega
      · apply sharesInv_change_del h.shares _ src src r.shareDst hs
        · intro i hi; show (upd l.acct src _ i).active.totalShares = _; rw [upd_other _ _ _ _ hi]
        · intro i
          by_cases hi : i = src
          · subst hi; show (upd l.acct i _ i).debonding.totalShares = _; rw [upd_same]
          · show (upd l.acct src _ i).debonding.totalShares = _; rw [upd_other _ _ _ _ hi]
        · show (upd l.acct src _ src).active.totalShares + _ = _
          rw [upd_same]; simp only; omega
    · simp only [hse, if_false]
      have hes : escrow ≠ src := fun e => hse e.symm
      refine ⟨Inv.ofShares ?_ ?_, rfl, rfl, rfl, Nat.le_refl _, ⟨rfl, rfl, rfl, rfl, rfl⟩⟩
      · have t1 := accountsTotal_setAcct l src { l.acct src with general := r.stakeSrc } hs
        have t2 := accountsTotal_setAcct (l.setAcct src { l.acct src with general := r.stakeSrc })
          escrow { l.acct escrow with active := r.pool } he
        have e1 : (l.setAcct src { l.acct src with general := r.stakeSrc }).acct escrow = l.acct escrow :=
          upd_other _ _ _ _ hes
        rw [e1] at t2
        show l.totalSupply = accountsTotal ((l.setAcct src _).setAcct escrow _) + l.common + l.govDeposits
          + (if l.lbfSpent then 0 else l.lastBlockFees) + l.feeAcc
        simp only [Account.bal] at t1 t2
        generalize (if l.lbfSpent = true then 0 else l.lastBlockFees) = lbf at *
        omega
      · apply sharesInv_change_del h.shares _ escrow src r.shareDst hs
        · intro i hi
          show (upd (upd l.acct src _) escrow _ i).active.totalShares = _
          rw [upd_other _ _ _ _ hi]
          by_cases his : i = src
          · subst his; rw [upd_same]
          · rw [upd_other _ _ _ _ his]
        · intro i
          show (upd (upd l.acct src _) escrow _ i).debonding.totalShares = _
          by_cases hie : i = escrow
          · subst hie; rw [upd_same]
          · rw [upd_other _ _ _ _ hie]
            by_cases his : i = src
            · subst his; rw [upd_same]
            · rw [upd_other _ _ _ _ his]
        · show (upd (upd l.acct src _) escrow _ escrow).active.totalShares + _ = _
          rw [upd_same]; simp only; omega

/-! Debonding queue bookkeeping -/

theorem debSharesOf_cons (x : DebEntry) (q : List DebEntry) (e : Nat) :
    debSharesOf (x :: q) e = (if x.escrow = e then x.shares else 0) + debSharesOf q e := by
  unfold debSharesOf DebSt.sharesSum
  by_cases h : x.escrow = e
  · have hb : (x.escrow == e) = true := by simpa using h
    simp [List.filter, h, hb]
  · have hb : (x.escrow == e) = false := by simpa using h
    simp [List.filter, h, hb]

theorem debSharesOf_enqueue (q : List DebEntry) (x : DebEntry) (e : Nat) :
    debSharesOf (DebSt.enqueue q x) e = debSharesOf q e + (if x.escrow = e then x.shares else 0) := by
  induction q with
  | nil =>
    simp only [DebSt.enqueue, debSharesOf_cons]
    simp [debSharesOf, DebSt.sharesSum]
  | cons y ys ih =>
    simp only [DebSt.enqueue]
    split
    · rename_i hs
      rw [sameKey_iff] at hs
      simp only [debSharesOf_cons, hs.2.2]
      split <;> omega
    · split
      · simp only [debSharesOf_cons]; omega
      · simp only [debSharesOf_cons, ih]; omega

theorem mem_enqueue (q : List DebEntry) (x y : DebEntry) (h : y ∈ DebSt.enqueue q x) :
    (y.delegator = x.delegator ∧ y.escrow = x.escrow) ∨ y ∈ q := by
  induction q with
  | nil => simp [DebSt.enqueue] at h; subst h; exact Or.inl ⟨rfl, rfl⟩
  | cons z zs ih =>
    simp only [DebSt.enqueue] at h
    split at h
    · rename_i hs
      rw [sameKey_iff] at hs
      rcases List.mem_cons.1 h with rfl | h
      · exact Or.inl ⟨hs.2.1, hs.2.2⟩
      · exact Or.inr (List.mem_cons_of_mem _ h)
    · split at h
      · rcases List.mem_cons.1 h with rfl | h
        · exact Or.inl ⟨rfl, rfl⟩
        · exact Or.inr h
      · rcases List.mem_cons.1 h with rfl | h
        · exact Or.inr (List.mem_cons_self ..)
        · rcases ih h with h | h
          · exact Or.inl h
          · exact Or.inr (List.mem_cons_of_mem _ h)

theorem reclaimEscrow_good (l l' : Ledger) (dst escrow shares : Nat) (hd : dst < l.n) (he : escrow < l.n)
    (h : Inv l) (hok : reclaimEscrow l dst escrow shares = .ok l') : Good l l' := by
  unfold reclaimEscrow at hok
  split at hok; · cases hok
  split at hok; · cases hok
  split at hok; · cases hok
  split at hok; · cases hok
  simp only at hok
  cases hr : reclaim (l.acct escrow).active (l.acct escrow).debonding (l.del escrow dst) shares with
  | error err => simp [hr] at hok
  | ok r =>
    simp only [hr] at hok
    injection hok with hok; subst hok
    obtain ⟨_, hb1, hb2, hts, hdl, hdts, _, _⟩ := reclaim_moves_all _ _ _ _ _ hr
    refine ⟨Inv.ofShares ?_ ?_, rfl, rfl, rfl, Nat.le_refl _, ⟨rfl, rfl, rfl, rfl, rfl⟩⟩
    · have t1 := accountsTotal_setAcct l escrow { l.acct escrow with active := r.active, debonding := r.debonding } he
      have hsup := h.supply
      show l.totalSupply = accountsTotal (l.setAcct escrow _) + l.common + l.govDeposits
        + (if l.lbfSpent then 0 else l.lastBlockFees) + l.feeAcc
      simp only [Account.bal] at t1
      generalize (if l.lbfSpent = true then 0 else l.lastBlockFees) = lbf at *
      omega
    · show SharesInv l.n (upd l.acct escrow _) (upd l.del escrow (upd (l.del escrow) dst r.delegationShares))
        (DebSt.enqueue l.deb _)
      have hsh := h.shares
      refine ⟨?_, ?_, ?_, enqueue_sorted _ _ hsh.2.2.2⟩
      · intro i hi
        by_cases hie : i = escrow
        · subst hie
          rw [upd_same]
          have := upd_upd_sum l.n l.del i dst r.delegationShares hd
          have := hsh.1 i hi
          simp only; omega
        · rw [upd_other _ _ _ _ hie, upd_other _ _ _ _ hie]; exact hsh.1 i hi
      · intro i hi
        rw [debSharesOf_enqueue]
        by_cases hie : i = escrow
        · subst hie
          rw [upd_same]
          have := hsh.2.1 i hi
          simp only [if_true]; omega
        · rw [upd_other _ _ _ _ hie]
          have := hsh.2.1 i hi
          have hne : ¬ escrow = i := fun e => hie e.symm
          simp only [hne, if_false]; omega
      · intro y hy
        rcases mem_enqueue _ _ _ hy with ⟨h1, h2⟩ | hy
        · simp only at h1 h2; omega
        · exact hsh.2.2.1 y hy

theorem allow_good (l l' : Ledger) (owner b : Nat) (neg : Bool) (change : Nat) (ho : owner < l.n)
    (h : Inv l) (hok : allow l owner b neg change = .ok l') : Good l l' := by
  unfold allow at hok
  split at hok; · cases hok
  split at hok; · cases hok
  split at hok; · cases hok
  simp only at hok
  split at hok; · cases hok
  split at hok; · cases hok
  injection hok with hok; subst hok
  refine ⟨Inv.ofShares ?_ ?_, rfl, rfl, rfl, Nat.le_refl _, ⟨rfl, rfl, rfl, rfl, rfl⟩⟩
  · generalize hal : setAllow (l.acct owner).allowances b
        (newAllowance ((lookupAllow (l.acct owner).allowances b).getD 0) neg change) = al
    have t1 := accountsTotal_setAcct l owner { l.acct owner with allowances := al } ho
    have hsup := h.supply
    show l.totalSupply = accountsTotal (l.setAcct owner _) + l.common + l.govDeposits
      + (if l.lbfSpent then 0 else l.lastBlockFees) + l.feeAcc
    simp only [Account.bal] at t1
    generalize (if l.lbfSpent = true then 0 else l.lastBlockFees) = lbf at *
    omega
  · exact sharesInv_upd_acct h.shares owner _ rfl rfl

theorem withdraw_good (l l' : Ledger) (dst src amount : Nat) (hd : dst < l.n) (hs : src < l.n)
    (h : Inv l) (hok : Ledger.withdraw l dst src amount = .ok l') : Good l l' := by
  unfold Ledger.withdraw at hok
  split at hok; · cases hok
  split at hok; · cases hok
  split at hok; · cases hok
  split at hok; · cases hok
  rename_i hne
  simp only at hok
  cases hal : lookupAllow (l.acct src).allowances dst with
  | none => simp [hal] at hok
  | some cur =>
    simp only [hal] at hok
    split at hok; · cases hok
    by_cases h2 : (l.acct src).general < amount
    · simp [h2] at hok
    by_cases h3 : (l.acct src).general - amount < l.params.minTransactBalance
    · simp [h2, h3] at hok
    by_cases h4 : (l.acct dst).general + amount < l.params.minTransactBalance
    · simp [h2, h3, h4] at hok
    simp only [h2, h3, h4, if_false] at hok
    injection hok with hok; subst hok
    have hsd : src ≠ dst := fun e => hne e.symm
    refine ⟨Inv.ofShares ?_ ?_, rfl, rfl, rfl, Nat.le_refl _, ⟨rfl, rfl, rfl, rfl, rfl⟩⟩
    · have t1 := accountsTotal_setAcct l dst { l.acct dst with general := (l.acct dst).general + amount } hd
      have t2 := accountsTotal_setAcct (l.setAcct dst { l.acct dst with general := (l.acct dst).general + amount })
        src { l.acct src with general := (l.acct src).general - amount,
                              allowances := setAllow (l.acct src).allowances dst (cur - amount) } hs
      have e1 : (l.setAcct dst { l.acct dst with general := (l.acct dst).general + amount }).acct src = l.acct src :=
        upd_other _ _ _ _ hsd
      rw [e1] at t2
      have hsup := h.supply
      show l.totalSupply = accountsTotal ((l.setAcct dst _).setAcct src _) + l.common + l.govDeposits
        + (if l.lbfSpent then 0 else l.lastBlockFees) + l.feeAcc
      simp only [Account.bal] at t1 t2
      generalize (if l.lbfSpent = true then 0 else l.lastBlockFees) = lbf at *
      omega
    · have s1 := sharesInv_upd_acct h.shares dst { l.acct dst with general := (l.acct dst).general + amount } rfl rfl
      exact sharesInv_upd_acct s1 src _
        (by rw [upd_other _ _ _ _ hsd]) (by rw [upd_other _ _ _ _ hsd])

/-! ### A whole transaction -/

/-- `AmendCommissionSchedule` only replaces the signer's commission schedule: no balance, pool,
delegation or scalar moves — accepted or refused, the invariant is untouched. -/
theorem amendCommissionSchedule_good (l l' : Ledger) (src : Nat) (am : Schedule) (hs : src < l.n) (h : Inv l)
    (hok : amendCommissionSchedule l src am = .ok l') : Good l l' := by
  unfold amendCommissionSchedule at hok
  split at hok; · cases hok
  dsimp only at hok
  split at hok; · cases hok
  split at hok; · cases hok
  rename_i s' hs'
  injection hok with hok; subst hok
  refine ⟨Inv.ofShares ?_ ?_, rfl, rfl, rfl, Nat.le_refl _, ⟨rfl, rfl, rfl, rfl, rfl⟩⟩
  · have t1 := accountsTotal_setAcct l src { l.acct src with schedule := s' } hs
    have hsup := h.supply
    show l.totalSupply = accountsTotal (l.setAcct src _) + l.common + l.govDeposits
      + (if l.lbfSpent then 0 else l.lastBlockFees) + l.feeAcc
    simp only [Account.bal] at t1
    generalize (if l.lbfSpent = true then 0 else l.lastBlockFees) = lbf at *
    omega
  · exact sharesInv_upd_acct h.shares src _ rfl rfl

/-- The account numbers a transaction body mentions are in range. -/
def bodyScoped (n : Nat) : TxBody → Prop
  | .transfer dst _ => dst < n
  | .burn _ => True
  | .addEscrow e _ => e < n
  | .reclaimEscrow e _ => e < n
  | .allow _ _ _ => True
  | .withdraw src _ => src < n
  | .amend _ => True

theorem execBody_good (l l' : Ledger) (signer : Nat) (body : TxBody) (hs : signer < l.n)
    (hb : bodyScoped l.n body) (h : Inv l) (hok : execBody l signer body = .ok l') : Good l l' := by
  cases body with
  | transfer dst amount => exact transfer_good l l' signer dst amount hs hb h hok
  | burn amount => exact burn_good l l' signer amount hs h hok
  | addEscrow e amount => exact addEscrow_good l l' signer e amount hs hb h hok
  | reclaimEscrow e shares => exact reclaimEscrow_good l l' signer e shares hs hb h hok
  | allow b neg ch => exact allow_good l l' signer b neg ch hs h hok
  | withdraw src amount => exact withdraw_good l l' signer src amount hs hb h hok
  | amend am => exact amendCommissionSchedule_good l l' signer am hs h hok

/-- **Every transaction, successful or not, leaves a ledger that satisfies the invariant**: a failed
fee payment persists nothing, a failed body persists only the fee payment and the nonce. -/
theorem execBodyGas_ok (l l' : Ledger) (signer : Nat) (g : TxGas) (body : TxBody)
    (hok : execBodyGas l signer g body = .ok l') : execBody l signer body = .ok l' := by
  unfold execBodyGas at hok
  dsimp only at hok
  split at hok; · cases hok
  split at hok
  · split at hok; · cases hok
    split at hok; · cases hok
    exact hok
  · split at hok; · cases hok
    exact hok

theorem applyTx_good (l : Ledger) (signer nonce fee : Nat) (g : TxGas) (body : TxBody) (hs : signer < l.n)
    (hb : bodyScoped l.n body) (h : Inv l) : Good l (applyTx l signer nonce fee g body).1 := by
  unfold applyTx
  cases h1 : payFee l signer nonce fee with
  | error e => exact Good.refl h
  | ok l1 =>
    have g1 := payFee_good l l1 signer nonce fee hs h h1
    simp only
    cases h2 : execBodyGas l1 signer g body with
    | error e => exact g1
    | ok l2 =>
      have g2 := execBody_good l1 l2 signer body (by rw [g1.n_eq]; exact hs) (by rw [g1.n_eq]; exact hb) g1.inv
        (execBodyGas_ok l1 l2 signer g body h2)
      exact g1.trans g2

/-! ### Account-only changes (credits to general balances) -/

/-- `l'` differs from `l` only in its accounts; share totals are untouched and the balances grew
by `amt` in total. -/
structure AcctChange (l l' : Ledger) (amt : Nat) : Prop where
  eq : l' = { l with acct := l'.acct }
  total : accountsTotal l' = accountsTotal l + amt
  act : ∀ i, (l'.acct i).active.totalShares = (l.acct i).active.totalShares
  deb : ∀ i, (l'.acct i).debonding.totalShares = (l.acct i).debonding.totalShares

theorem AcctChange.refl (l : Ledger) : AcctChange l l 0 := ⟨rfl, rfl, fun _ => rfl, fun _ => rfl⟩

theorem AcctChange.trans {a b c : Ledger} {x y : Nat} (h1 : AcctChange a b x) (h2 : AcctChange b c y) :
    AcctChange a c (x + y) := by
  refine ⟨?_, by rw [h2.total, h1.total]; omega, fun i => (h2.act i).trans (h1.act i),
    fun i => (h2.deb i).trans (h1.deb i)⟩
  have e2 := h2.eq
  rw [h1.eq] at e2
  exact e2

theorem AcctChange.sharesInv {l l' : Ledger} {amt : Nat} (h : AcctChange l l' amt)
    (hs : SharesInv l.n l.acct l.del l.deb) : SharesInv l.n l'.acct l.del l.deb := by
  refine ⟨?_, ?_, hs.2.2⟩
  · intro e he; rw [h.act e]; exact hs.1 e he
  · intro e he; rw [h.deb e]; exact hs.2.1 e he

theorem creditGeneral_change (l : Ledger) (a amount : Nat) (ha : a < l.n) :
    AcctChange l (l.creditGeneral a amount) amount := by
  refine ⟨rfl, ?_, ?_, ?_⟩
  · have t := accountsTotal_setAcct l a { l.acct a with general := (l.acct a).general + amount } ha
    have hb : ({ l.acct a with general := (l.acct a).general + amount } : Account).bal
        = (l.acct a).bal + amount := by simp only [Account.bal]; omega
    rw [hb] at t
    show accountsTotal (l.setAcct a { l.acct a with general := (l.acct a).general + amount }) = _
    omega
  · intro i
    show (upd l.acct a _ i).active.totalShares = _
    by_cases hi : i = a
    · subst hi; rw [upd_same]
    · rw [upd_other _ _ _ _ hi]
  · intro i
    show (upd l.acct a _ i).debonding.totalShares = _
    by_cases hi : i = a
    · subst hi; rw [upd_same]
    · rw [upd_other _ _ _ _ hi]

theorem payVoters_change (l l' : Ledger) (share : Nat) (vs : List Nat) (hv : ∀ v ∈ vs, v < l.n)
    (hok : payVoters l share vs = .ok l') : AcctChange l l' (share * vs.length) := by
  induction vs generalizing l with
  | nil => simp only [payVoters] at hok; injection hok with hok; subst hok; simpa using AcctChange.refl l
  | cons v vs ih =>
    simp only [payVoters] at hok
    split at hok; · cases hok
    have c1 := creditGeneral_change l v share (hv v (List.mem_cons_self ..))
    have hn : (l.creditGeneral v share).n = l.n := rfl
    have c2 := ih (l.creditGeneral v share) (fun x hx => by rw [hn]; exact hv x (List.mem_cons_of_mem _ hx)) hok
    have := c1.trans c2
    simp only [List.length_cons]
    have e : share + share * vs.length = share * (vs.length + 1) := by ring
    rw [← e]; exact this

theorem AcctChange.fields {l l' : Ledger} {amt : Nat} (h : AcctChange l l' amt) :
    l'.n = l.n ∧ l'.params = l.params ∧ l'.del = l.del ∧ l'.deb = l.deb ∧ l'.common = l.common ∧
    l'.govDeposits = l.govDeposits ∧ l'.lastBlockFees = l.lastBlockFees ∧ l'.lbfSpent = l.lbfSpent ∧
    l'.feeAcc = l.feeAcc ∧ l'.totalSupply = l.totalSupply ∧ l'.burned = l.burned := by
  have e := h.eq
  refine ⟨?_, ?_, ?_, ?_, ?_, ?_, ?_, ?_, ?_, ?_, ?_⟩ <;> (rw [e])

/-- What block-level steps guarantee (they do change the block bookkeeping). -/
structure Kept (l l' : Ledger) : Prop where
  inv : Inv l'
  n_eq : l'.n = l.n
  params_eq : l'.params = l.params
  supply : l'.totalSupply + l'.burned = l.totalSupply + l.burned
  burned_mono : l.burned ≤ l'.burned

theorem Good.kept {l l' : Ledger} (h : Good l l') : Kept l l' := ⟨h.inv, h.n_eq, h.params_eq, h.supply, h.burned_mono⟩
theorem Kept.refl {l : Ledger} (h : Inv l) : Kept l l := ⟨h, rfl, rfl, rfl, Nat.le_refl _⟩
theorem Kept.trans {a b c : Ledger} (h1 : Kept a b) (h2 : Kept b c) : Kept a c :=
  ⟨h2.inv, h2.n_eq.trans h1.n_eq, h2.params_eq.trans h1.params_eq,
   by have := h1.supply; have := h2.supply; omega, Nat.le_trans h1.burned_mono h2.burned_mono⟩

/-! ### Fees -/

/-- The persisted last-block fees have been paid out (or there were none). -/
def FeesSettled (l : Ledger) : Prop := l.lbfSpent = true ∨ l.lastBlockFees = 0

theorem payNextProposer_change (l l1 : Ledger) (proposer : Option Nat) (np : Nat)
    (hp : ∀ p, proposer = some p → p < l.n) (hok : payNextProposer l proposer np = .ok l1) :
    AcctChange l l1 (if np ≠ 0 ∧ proposer.isSome = true then np else 0) := by
  unfold payNextProposer at hok
  cases proposer with
  | none => simp only at hok; injection hok with hok; subst hok; simpa using AcctChange.refl l
  | some p =>
    simp only at hok
    by_cases hnz : np ≠ 0
    · rw [if_pos hnz] at hok
      split at hok; · cases hok
      injection hok with hok; subst hok
      simpa [hnz] using creditGeneral_change l p np (hp p rfl)
    · rw [if_neg hnz] at hok
      injection hok with hok; subst hok
      simpa [hnz] using AcctChange.refl l

theorem payVotersIf_change (l l' : Ledger) (share : Nat) (vs : List Nat) (hv : ∀ v ∈ vs, v < l.n)
    (hok : payVotersIf l share vs = .ok l') :
    AcctChange l l' (if share ≠ 0 then share * vs.length else 0) := by
  unfold payVotersIf at hok
  by_cases hsv : share ≠ 0
  · rw [if_pos hsv] at hok ⊢
    exact payVoters_change l l' share vs hv hok
  · rw [if_neg hsv] at hok ⊢
    injection hok with hok; subst hok; exact AcctChange.refl l

/-- `disburseFeesP` (EndBlock): the accumulator is split into the persisted last-block fees, the
proposer's part and the common pool. -/
theorem disburseFeesP_kept (l l' : Ledger) (hp : ∀ p, l.proposer = some p → p < l.n) (h : Inv l)
    (hset : FeesSettled l) (hok : disburseFeesP l = .ok l') :
    Kept l l' ∧ l'.lbfSpent = false ∧ l'.feeAcc = 0 ∧ l'.epochChanged = l.epochChanged ∧ l'.epoch = l.epoch := by
  unfold disburseFeesP at hok
  simp only at hok
  have hsup := h.supply
  have hz : (if l.lbfSpent = true then 0 else l.lastBlockFees) = 0 := by
    rcases hset with h1 | h1 <;> simp [h1]
  rw [hz] at hsup
  by_cases hf : l.feeAcc = 0
  · simp only [hf, if_true] at hok
    injection hok with hok; subst hok
    refine ⟨⟨Inv.ofShares ?_ h.shares, rfl, rfl, rfl, Nat.le_refl _⟩, rfl, rfl, rfl, rfl⟩
    show l.totalSupply = accountsTotal l + l.common + l.govDeposits + (if false = true then 0 else 0) + 0
    simp only [Bool.false_eq_true, if_false]; omega
  · simp only [hf, if_false] at hok
    split at hok; · cases hok
    have hle : l.feeAcc * (l.params.feeWeightVote + l.params.feeWeightNextPropose)
        / (l.params.feeWeightVote + l.params.feeWeightNextPropose + l.params.feeWeightPropose) ≤ l.feeAcc := by
      apply Nat.div_le_of_le_mul
      rw [Nat.mul_comm]
      exact Nat.mul_le_mul_right _ (Nat.le_add_right _ _)
    generalize l.feeAcc * (l.params.feeWeightVote + l.params.feeWeightNextPropose)
        / (l.params.feeWeightVote + l.params.feeWeightNextPropose + l.params.feeWeightPropose) = persist at *
    split at hok
    · rename_i p hpr
      have c := payNextProposer_change { l with lastBlockFees := persist, lbfSpent := false, feeAcc := 0 } l'
        l.proposer (l.feeAcc - persist) hp hok
      obtain ⟨f1, f2, f3, f4, f5, f6, f7, f8, f9, f10, f11⟩ := c.fields
      have ct := c.total
      have e0 : accountsTotal { l with lastBlockFees := persist, lbfSpent := false, feeAcc := 0 } = accountsTotal l := rfl
      rw [e0] at ct
      have hsh := c.sharesInv (l := { l with lastBlockFees := persist, lbfSpent := false, feeAcc := 0 }) h.shares
      refine ⟨⟨Inv.ofShares ?_ ?_, f1, f2, ?_, ?_⟩, f8, f9, ?_, ?_⟩
      · rw [f10, f5, f6, f7, f8, f9, ct]
        show l.totalSupply = _ + l.common + l.govDeposits + (if false = true then 0 else persist) + 0
        simp only [Bool.false_eq_true, if_false, hpr, Option.isSome_some, and_true]
        split <;> omega
      · rw [f1, f3, f4]; exact hsh
      · rw [f10, f11]
      · rw [f11]
      · have e := c.eq; rw [e]
      · have e := c.eq; rw [e]
    · injection hok with hok; subst hok
      refine ⟨⟨Inv.ofShares ?_ h.shares, rfl, rfl, rfl, Nat.le_refl _⟩, rfl, rfl, rfl, rfl⟩
      show l.totalSupply = accountsTotal l + (l.common + (l.feeAcc - persist)) + l.govDeposits
        + (if false = true then 0 else persist) + 0
      simp only [Bool.false_eq_true, if_false]; omega

theorem vqPay_kept (l l' : Ledger) (proposer : Option Nat) (voters : List Nat) (shareNP shareVote : Nat)
    (hp : ∀ p, proposer = some p → p < l.n) (hv : ∀ v ∈ voters, v < l.n) (h : Inv l)
    (hfresh : l.lbfSpent = false) (hok : vqPay l proposer voters l.lastBlockFees shareNP shareVote = .ok l') :
    Kept l l' ∧ FeesSettled l' ∧ l'.feeAcc = l.feeAcc ∧ l'.epoch = l.epoch ∧ l'.epochChanged = l.epochChanged := by
  unfold vqPay at hok
  simp only at hok
  have hsup := h.supply
  simp only [hfresh, Bool.false_eq_true, if_false] at hsup
  generalize hpNP : (if shareNP * voters.length ≠ 0 ∧ proposer.isSome = true then shareNP * voters.length else 0) = pNP at hok
  generalize hpV : (if shareVote ≠ 0 then shareVote * voters.length else 0) = pV at hok
  by_cases hlt : l.lastBlockFees < pNP + pV
  · simp [hlt] at hok
  simp only [hlt, if_false] at hok
  cases h1 : payNextProposer l proposer (shareNP * voters.length) with
  | error e => simp [h1] at hok
  | ok l1 =>
    simp only [h1] at hok
    have c1 := payNextProposer_change l l1 proposer _ hp h1
    cases h2 : payVotersIf l1 shareVote voters with
    | error e => simp [h2] at hok
    | ok l2 =>
      simp only [h2] at hok
      injection hok with hok; subst hok
      have c2 := payVotersIf_change l1 l2 shareVote voters (by rw [c1.fields.1]; exact hv) h2
      have c := c1.trans c2
      rw [hpNP, hpV] at c
      obtain ⟨f1, f2, f3, f4, f5, f6, f7, f8, f9, f10, f11⟩ := c.fields
      have hsh := c.sharesInv h.shares
      have ct := c.total
      refine ⟨⟨Inv.ofShares ?_ ?_, f1, f2, ?_, ?_⟩, Or.inl rfl, f9, ?_, ?_⟩
      · show l2.totalSupply = accountsTotal l2 + (l2.common + (l.lastBlockFees - pNP - pV)) + l2.govDeposits
          + (if true = true then 0 else l2.lastBlockFees) + l2.feeAcc
        rw [f10, f5, f6, f9, ct]
        simp only [if_true]
        omega
      · show SharesInv l2.n l2.acct l2.del l2.deb
        rw [f1, f3, f4]; exact hsh
      · show l2.totalSupply + l2.burned = _
        rw [f10, f11]
      · show l.burned ≤ l2.burned
        rw [f11]
      · have e := c.eq; show l2.epoch = l.epoch; rw [e]
      · have e := c.eq; show l2.epochChanged = l.epochChanged; rw [e]

/-- `disburseFeesVQ` (BeginBlock): the persisted last-block fees go to voters, proposer and common
pool; from here until `disburseFeesP` the stored value no longer counts. -/
theorem disburseFeesVQ_kept (l l' : Ledger) (proposer : Option Nat) (numEligible : Nat) (voters : List Nat)
    (hp : ∀ p, proposer = some p → p < l.n) (hv : ∀ v ∈ voters, v < l.n) (h : Inv l)
    (hfresh : l.lbfSpent = false) (hok : disburseFeesVQ l proposer numEligible voters = .ok l') :
    Kept l l' ∧ FeesSettled l' ∧ l'.feeAcc = l.feeAcc ∧ l'.epoch = l.epoch ∧ l'.epochChanged = l.epochChanged := by
  unfold disburseFeesVQ at hok
  simp only at hok
  by_cases h0 : l.lastBlockFees = 0
  · simp only [h0, if_true] at hok
    injection hok with hok; subst hok
    exact ⟨Kept.refl h, Or.inr h0, rfl, rfl, rfl⟩
  simp only [h0, if_false] at hok
  split at hok; · cases hok
  split at hok; · cases hok
  exact vqPay_kept l l' proposer voters _ _ hp hv h hfresh hok

/-! ### Rewards -/

theorem computeCommission_ok {rate q com rest : Nat} (h : computeCommission rate q = .ok (com, rest)) :
    com + rest = q := by
  unfold computeCommission at h
  simp only at h
  split at h
  · cases h
  · injection h with h
    injection h with h1 h2
    omega

/-- Reward of one account: the non-commission part raises the active balance, the commission is
deposited for the self-delegation; both come out of the common pool. -/
theorem rewardAccount_good (l l' : Ledger) (ep a q : Nat) (ha : a < l.n) (h : Inv l)
    (hok : rewardAccount l ep a q = .ok l') : Good l l' := by
  unfold rewardAccount at hok
  split at hok
  · injection hok with hok; subst hok; exact Good.refl h
  split at hok
  · injection hok with hok; subst hok; exact Good.refl h
  rename_i hq0 hqc
  simp only at hok
  cases hc : computeCommission (l.rateOf a ep) q with
  | error e => simp [hc] at hok
  | ok cr =>
    obtain ⟨com, rest⟩ := cr
    simp only [hc] at hok
    have hsum := computeCommission_ok hc
    have hsup := h.supply
    by_cases hmv : l.common < rest
    · simp [hmv] at hok
    simp only [hmv, if_false] at hok
    by_cases hcom : com = 0
    · simp only [hcom, if_true] at hok
      injection hok with hok; subst hok
      refine ⟨Inv.ofShares ?_ ?_, rfl, rfl, rfl, Nat.le_refl _, ⟨rfl, rfl, rfl, rfl, rfl⟩⟩
      · have t1 := accountsTotal_setAcct l a { l.acct a with active :=
            { (l.acct a).active with balance := (l.acct a).active.balance + rest } } ha
        show l.totalSupply = accountsTotal (l.setAcct a _) + (l.common - rest) + l.govDeposits
          + (if l.lbfSpent then 0 else l.lastBlockFees) + l.feeAcc
        simp only [Account.bal] at t1
        generalize (if l.lbfSpent = true then 0 else l.lastBlockFees) = lbf at *
        omega
      · exact sharesInv_upd_acct h.shares a _ rfl rfl
    · simp only [hcom, if_false] at hok
      cases hd : deposit { (l.acct a).active with balance := (l.acct a).active.balance + rest }
          (l.del a a) (l.common - rest) com with
      | error e => simp [hd] at hok
      | ok r =>
        simp only [hd] at hok
        injection hok with hok; subst hok
        obtain ⟨hle, hb, hsrc, ht, hsd⟩ := deposit_moves _ _ _ _ _ hd
        simp only at hb ht
        refine ⟨Inv.ofShares ?_ ?_, rfl, rfl, rfl, Nat.le_refl _, ⟨rfl, rfl, rfl, rfl, rfl⟩⟩
        · have t1 := accountsTotal_setAcct l a { l.acct a with active := r.pool } ha
          show l.totalSupply = accountsTotal (l.setAcct a _) + r.stakeSrc + l.govDeposits
            + (if l.lbfSpent then 0 else l.lastBlockFees) + l.feeAcc
          simp only [Account.bal] at t1
          generalize (if l.lbfSpent = true then 0 else l.lastBlockFees) = lbf at *
          omega
        · apply sharesInv_change_del h.shares _ a a r.shareDst ha
          · intro i hi; show (upd l.acct a _ i).active.totalShares = _; rw [upd_other _ _ _ _ hi]
          · intro i
            show (upd l.acct a _ i).debonding.totalShares = _
            by_cases hi : i = a
            · subst hi; rw [upd_same]
            · rw [upd_other _ _ _ _ hi]
          · show (upd l.acct a _ a).active.totalShares + _ = _
            rw [upd_same]; simp only; omega

theorem addRewardSingleAttenuated_good (l l' : Ledger) (epoch factor num den a : Nat) (ha : a < l.n) (h : Inv l)
    (hok : addRewardSingleAttenuated l epoch factor num den a = .ok l') : Good l l' := by
  unfold addRewardSingleAttenuated at hok
  split at hok
  · injection hok with hok; subst hok; exact Good.refl h
  · split at hok; · cases hok
    split at hok; · cases hok
    exact rewardAccount_good l l' _ a _ ha h hok

theorem addRewardsLoop_good (l l' : Ledger) (ep factor scale : Nat) (as : List Nat) (has : ∀ a ∈ as, a < l.n)
    (h : Inv l) (hok : addRewardsLoop l ep factor scale as = .ok l') : Good l l' := by
  induction as generalizing l with
  | nil => simp only [addRewardsLoop] at hok; injection hok with hok; subst hok; exact Good.refl h
  | cons a as ih =>
    simp only [addRewardsLoop] at hok
    split at hok; · cases hok
    cases h1 : rewardAccount l ep a ((l.acct a).active.balance * factor * scale / rewardAmountDenominator) with
    | error e => simp [h1] at hok
    | ok l1 =>
      simp only [h1] at hok
      have g1 := rewardAccount_good l l1 ep a _ (has a (List.mem_cons_self ..)) h h1
      have g2 := ih l1 (fun x hx => by rw [g1.n_eq]; exact has x (List.mem_cons_of_mem _ hx)) g1.inv hok
      exact g1.trans g2

theorem addRewards_good (l l' : Ledger) (epoch factor : Nat) (as : List Nat) (has : ∀ a ∈ as, a < l.n)
    (h : Inv l) (hok : addRewards l epoch factor as = .ok l') : Good l l' := by
  unfold addRewards at hok
  split at hok
  · injection hok with hok; subst hok; exact Good.refl h
  · exact addRewardsLoop_good l l' _ factor _ as has h hok

/-- Changing only the signing bookkeeping, the frozen set, the epoch or the proposer does not
affect the invariant. -/
theorem inv_of_same_money {l l' : Ledger} (h : Inv l) (hn : l'.n = l.n) (ha : l'.acct = l.acct)
    (hd : l'.del = l.del) (hq : l'.deb = l.deb) (hc : l'.common = l.common) (hg : l'.govDeposits = l.govDeposits)
    (hl : l'.lastBlockFees = l.lastBlockFees) (hs : l'.lbfSpent = l.lbfSpent) (hf : l'.feeAcc = l.feeAcc)
    (ht : l'.totalSupply = l.totalSupply) : Inv l' := by
  apply Inv.ofShares
  · have := h.supply
    unfold accountsTotal at *
    rw [hn, ha, hc, hg, hl, hs, hf, ht]; exact this
  · rw [hn, ha, hd, hq]; exact h.shares

theorem rewardEpochSigning_good (l l' : Ledger) (epoch : Nat) (hpk : ∀ a ∈ l.params.pkOrder, a < l.n)
    (h : Inv l) (hok : rewardEpochSigning l epoch = .ok l') : Good l l' := by
  unfold rewardEpochSigning at hok
  simp only at hok
  have hcl : Good l { l with sigTotal := 0, sigBy := fun _ => 0 } :=
    ⟨inv_of_same_money h rfl rfl rfl rfl rfl rfl rfl rfl rfl rfl, rfl, rfl, rfl, Nat.le_refl _, ⟨rfl, rfl, rfl, rfl, rfl⟩⟩
  split at hok
  · injection hok with hok; subst hok; exact hcl
  split at hok
  · injection hok with hok; subst hok; exact hcl
  · have g2 := addRewards_good { l with sigTotal := 0, sigBy := fun _ => 0 } l' epoch
      l.params.rewardFactorEpochSigned _ (fun a ha => hpk a (List.mem_filter.1 ha).1) hcl.inv hok
    exact hcl.trans g2

/-! ### Slashing -/

theorem slashEscrowL_good (l l' : Ledger) (a amount : Nat) (ha : a < l.n) (h : Inv l)
    (hok : slashEscrowL l a amount = .ok l') : Good l l' := by
  unfold slashEscrowL at hok
  split at hok; · cases hok
  dsimp only at hok
  split at hok
  · injection hok with hok; subst hok; exact Good.refl h
  injection hok with hok; subst hok
  obtain ⟨c1, c2, c3, c4, _, _, _, _⟩ := slash_conserves (l.acct a).active (l.acct a).debonding l.common amount
  refine ⟨Inv.ofShares ?_ ?_, rfl, rfl, rfl, Nat.le_refl _, ⟨rfl, rfl, rfl, rfl, rfl⟩⟩
  · have t1 := accountsTotal_setAcct l a { l.acct a with
        active := (slashEscrow (l.acct a).active (l.acct a).debonding l.common amount).active,
        debonding := (slashEscrow (l.acct a).active (l.acct a).debonding l.common amount).debonding } ha
    have hsup := h.supply
    show l.totalSupply = accountsTotal (l.setAcct a _)
      + (slashEscrow (l.acct a).active (l.acct a).debonding l.common amount).common + l.govDeposits
      + (if l.lbfSpent then 0 else l.lastBlockFees) + l.feeAcc
    simp only [Account.bal] at t1
    generalize (if l.lbfSpent = true then 0 else l.lastBlockFees) = lbf at *
    omega
  · exact sharesInv_upd_acct h.shares a _ c3 c4

theorem onEvidence_good (l l' : Ledger) (v : Nat) (hval : ∀ e ∈ l.params.validators, e < l.n) (h : Inv l)
    (hok : onEvidence l v = .ok l') : Good l l' := by
  unfold onEvidence at hok
  split at hok
  · injection hok with hok; subst hok; exact Good.refl h
  · rename_i ent hent
    split at hok
    · injection hok with hok; subst hok; exact Good.refl h
    · cases hs : slashEscrowL l ent l.params.slashAmount with
      | error e => simp [hs] at hok
      | ok l1 =>
        simp only [hs] at hok
        injection hok with hok; subst hok
        have hmem : ent ∈ l.params.validators := List.mem_of_getElem? hent
        have g1 := slashEscrowL_good l l1 ent _ (hval ent hmem) h hs
        split
        · exact ⟨inv_of_same_money g1.inv rfl rfl rfl rfl rfl rfl rfl rfl rfl rfl, g1.n_eq, g1.params_eq,
            g1.supply, g1.burned_mono, g1.frame⟩
        · exact g1

theorem evidenceLoop_good (l l' : Ledger) (vs : List Nat) (hval : ∀ e ∈ l.params.validators, e < l.n)
    (h : Inv l) (hok : evidenceLoop l vs = .ok l') : Good l l' := by
  induction vs generalizing l with
  | nil => simp only [evidenceLoop] at hok; injection hok with hok; subst hok; exact Good.refl h
  | cons v vs ih =>
    simp only [evidenceLoop] at hok
    cases h1 : onEvidence l v with
    | error e => simp [h1] at hok
    | ok l1 =>
      simp only [h1] at hok
      have g1 := onEvidence_good l l1 v hval h h1
      exact g1.trans (ih l1 (by rw [g1.params_eq, g1.n_eq]; exact hval) g1.inv hok)

/-- `BeginBlock`. Requires that the previous block was closed (`lbfSpent = false`). -/
theorem beginBlock_kept (l l' : Ledger) (proposer : Option Nat) (numEligible : Nat) (voters evidence : List Nat)
    (hp : ∀ p, proposer = some p → p < l.n) (hv : ∀ v ∈ voters, v < l.n)
    (hval : ∀ e ∈ l.params.validators, e < l.n) (h : Inv l) (hfresh : l.lbfSpent = false)
    (hok : beginBlock l proposer numEligible voters evidence = .ok l') :
    Kept l l' ∧ FeesSettled l' ∧ l'.proposer = proposer ∧ l'.epoch = l.epoch ∧ l'.epochChanged = l.epochChanged := by
  unfold beginBlock at hok
  cases h1 : disburseFeesVQ l proposer numEligible voters with
  | error e => simp [h1] at hok
  | ok l1 =>
    simp only [h1] at hok
    obtain ⟨k1, s1, _, e1, e1'⟩ := disburseFeesVQ_kept l l1 proposer numEligible voters hp hv h hfresh h1
    -- record the proposer
    have k2 : Good l1 { l1 with proposer := proposer } ∨ True := Or.inr trivial
    clear k2
    have i2 : Inv { l1 with proposer := proposer } := inv_of_same_money k1.inv rfl rfl rfl rfl rfl rfl rfl rfl rfl rfl
    -- proposer reward
    have step3 : ∀ l3, (match proposer with
        | none => (Except.ok { l1 with proposer := proposer } : Except LErr Ledger)
        | some p => addRewardSingleAttenuated { l1 with proposer := proposer } l1.epoch
            l1.params.rewardFactorBlockProposed voters.length numEligible p) = .ok l3 →
        Good { l1 with proposer := proposer } l3 := by
      intro l3 h3
      cases proposer with
      | none => simp only at h3; injection h3 with h3; subst h3; exact Good.refl i2
      | some p =>
        simp only at h3
        exact addRewardSingleAttenuated_good _ l3 _ _ _ _ p (by show p < l1.n; rw [k1.n_eq]; exact hp p rfl) i2 h3
    split at hok; · cases hok
    rename_i l3 h3
    have g3 := step3 l3 h3
    -- signing bookkeeping
    have i4 : Inv (updateEpochSigning l3 voters) := inv_of_same_money g3.inv rfl rfl rfl rfl rfl rfl rfl rfl rfl rfl
    have g5 := evidenceLoop_good (updateEpochSigning l3 voters) l' evidence
      (by show ∀ e ∈ l3.params.validators, e < l3.n
          rw [g3.params_eq, g3.n_eq]; show ∀ e ∈ l1.params.validators, e < l1.n
          rw [k1.params_eq, k1.n_eq]; exact hval) i4 hok
    obtain ⟨f1, f2, f3, f4, f5⟩ := g5.frame
    obtain ⟨q1, q2, q3, q4, q5⟩ := g3.frame
    refine ⟨⟨g5.inv, ?_, ?_, ?_, ?_⟩, ?_, ?_, ?_, ?_⟩
    · rw [g5.n_eq]; show l3.n = l.n; rw [g3.n_eq]; exact k1.n_eq
    · rw [g5.params_eq]; show l3.params = l.params; rw [g3.params_eq]; exact k1.params_eq
    · have a1 := g5.supply; have a2 := g3.supply; have a3 := k1.supply
      change l'.totalSupply + l'.burned = l3.totalSupply + l3.burned at a1
      change l3.totalSupply + l3.burned = l1.totalSupply + l1.burned at a2
      omega
    · have a1 := g5.burned_mono; have a2 := g3.burned_mono; have a3 := k1.burned_mono
      change l3.burned ≤ l'.burned at a1
      change l1.burned ≤ l3.burned at a2
      omega
    · rcases s1 with s | s
      · left; rw [f2]; show l3.lbfSpent = true; rw [q2]; exact s
      · right; rw [f1]; show l3.lastBlockFees = 0; rw [q1]; exact s
    · rw [f3]; show l3.proposer = proposer; rw [q3]
    · rw [f4]; show l3.epoch = l.epoch; rw [q4]; exact e1
    · rw [f5]; show l3.epochChanged = l.epochChanged; rw [q5]; exact e1'

/-! ### Debonding completion -/

theorem sameKey_self (e : DebEntry) : e.sameKey e = true := by rw [sameKey_iff]; exact ⟨rfl, rfl, rfl⟩

theorem not_sameKey_of_keyLt (a b : DebEntry) (h : a.keyLt b = true) : b.sameKey a = false := by
  cases hs : b.sameKey a with
  | false => rfl
  | true => rw [sameKey_iff] at hs; rw [keyLt_iff] at h; omega

theorem filter_sameKey_of_all_lt (e : DebEntry) (q : List DebEntry) (h : ∀ y ∈ q, e.keyLt y = true) :
    q.filter (fun x => !x.sameKey e) = q := by
  rw [List.filter_eq_self]
  intro y hy
  simp [not_sameKey_of_keyLt e y (h y hy)]

/-- Removing a queued entry by key removes exactly its shares from its escrow account's sum. -/
theorem debSharesOf_remove (q : List DebEntry) (e : DebEntry) (i : Nat) (hs : Sorted q) (he : e ∈ q) :
    debSharesOf (q.filter (fun x => !x.sameKey e)) i + (if e.escrow = i then e.shares else 0) = debSharesOf q i := by
  induction q with
  | nil => simp at he
  | cons x xs ih =>
    have hp := List.pairwise_cons.1 hs
    rcases List.mem_cons.1 he with rfl | he'
    · simp only [List.filter, sameKey_self, Bool.not_true]
      rw [filter_sameKey_of_all_lt e xs hp.1, debSharesOf_cons]; omega
    · have hx : x.sameKey e = false := by
        have := not_sameKey_of_keyLt x e (hp.1 e he')
        cases hh : x.sameKey e with
        | false => rfl
        | true => rw [sameKey_iff] at hh; rw [show e.sameKey x = true from by rw [sameKey_iff]; omega] at this; cases this
      simp only [List.filter, hx, Bool.not_false]
      rw [debSharesOf_cons, debSharesOf_cons]
      have := ih hp.2 he'
      omega

theorem debondEntry_good (l l' : Ledger) (e : DebEntry) (he : e ∈ l.deb) (h : Inv l)
    (hok : debondEntry l e = .ok l') : Good l l' ∧ l'.deb = l.deb.filter (fun x => !x.sameKey e) := by
  unfold debondEntry at hok
  split at hok; · cases hok
  dsimp only at hok
  obtain ⟨hdn, hen⟩ := h.scope e he
  cases hw : SharePool.withdraw (l.acct e.escrow).debonding 0 e.shares e.shares with
  | error err => simp [hw] at hok
  | ok w =>
    simp only [hw] at hok
    obtain ⟨paid, hp1, hp2, _, hp4, _⟩ := withdraw_pays_le _ _ _ _ _ hw
    have hsup := h.supply
    have hsh := h.shares
    have hsorted : Sorted (l.deb.filter (fun x => !x.sameKey e)) := List.Pairwise.filter _ h.sorted
    have hscope : ∀ x ∈ l.deb.filter (fun x => !x.sameKey e), x.delegator < l.n ∧ x.escrow < l.n :=
      fun x hx => h.scope x (List.mem_filter.1 hx).1
    by_cases hde : e.delegator = e.escrow
    · simp only [hde, if_true] at hok
      injection hok with hok; subst hok
      refine ⟨⟨Inv.ofShares ?_ ?_, rfl, rfl, rfl, Nat.le_refl _, ⟨rfl, rfl, rfl, rfl, rfl⟩⟩, rfl⟩
      · have t1 := accountsTotal_setAcct l e.escrow { l.acct e.escrow with
            general := (l.acct e.escrow).general + w.stakeDst, debonding := w.pool } hen
        show l.totalSupply = accountsTotal (Ledger.setAcct _ e.escrow _) + l.common + l.govDeposits
          + (if l.lbfSpent then 0 else l.lastBlockFees) + l.feeAcc
        have e0 : accountsTotal (Ledger.setAcct { l with deb := l.deb.filter (fun x => !x.sameKey e) } e.escrow
            { l.acct e.escrow with general := (l.acct e.escrow).general + w.stakeDst, debonding := w.pool })
            = accountsTotal (l.setAcct e.escrow { l.acct e.escrow with
                general := (l.acct e.escrow).general + w.stakeDst, debonding := w.pool }) := rfl
        rw [e0]
        have hb1 : ({ l.acct e.escrow with general := (l.acct e.escrow).general + w.stakeDst, debonding := w.pool } : Account).bal
            = (l.acct e.escrow).general + w.stakeDst + (l.acct e.escrow).active.balance + w.pool.balance := rfl
        have hb0 : (l.acct e.escrow).bal = (l.acct e.escrow).general + (l.acct e.escrow).active.balance
            + (l.acct e.escrow).debonding.balance := rfl
        rw [hb1, hb0] at t1
        generalize (if l.lbfSpent = true then 0 else l.lastBlockFees) = lbf at *
        omega
      · show SharesInv l.n (upd l.acct e.escrow _) l.del (l.deb.filter (fun x => !x.sameKey e))
        refine ⟨?_, ?_, hscope, hsorted⟩
        · intro i hi
          by_cases hie : i = e.escrow
          · rw [hie, upd_same]; exact hsh.1 _ hen
          · rw [upd_other _ _ _ _ hie]; exact hsh.1 i hi
        · intro i hi
          have hr := debSharesOf_remove l.deb e i h.sorted he
          by_cases hie : i = e.escrow
          · rw [hie, upd_same]
            have := hsh.2.1 _ hen
            rw [hie] at hr
            simp only [if_true] at hr
            simp only; omega
          · rw [upd_other _ _ _ _ hie]
            have := hsh.2.1 i hi
            have hne : ¬ e.escrow = i := fun x => hie x.symm
            simp only [hne, if_false] at hr
            omega
    · simp only [hde, if_false] at hok
      injection hok with hok; subst hok
      have hed : e.escrow ≠ e.delegator := fun x => hde x.symm
      refine ⟨⟨Inv.ofShares ?_ ?_, rfl, rfl, rfl, Nat.le_refl _, ⟨rfl, rfl, rfl, rfl, rfl⟩⟩, rfl⟩
      · have t1 := accountsTotal_setAcct l e.delegator { l.acct e.delegator with
            general := (l.acct e.delegator).general + w.stakeDst } hdn
        have t2 := accountsTotal_setAcct (l.setAcct e.delegator { l.acct e.delegator with
            general := (l.acct e.delegator).general + w.stakeDst }) e.escrow
            { l.acct e.escrow with debonding := w.pool } hen
        have e1 : (l.setAcct e.delegator { l.acct e.delegator with
            general := (l.acct e.delegator).general + w.stakeDst }).acct e.escrow = l.acct e.escrow :=
          upd_other _ _ _ _ hed
        rw [e1] at t2
        show l.totalSupply = accountsTotal (Ledger.setAcct (Ledger.setAcct _ e.delegator _) e.escrow _) + l.common + l.govDeposits
          + (if l.lbfSpent then 0 else l.lastBlockFees) + l.feeAcc
        have e0 : accountsTotal (Ledger.setAcct (Ledger.setAcct { l with deb := l.deb.filter (fun x => !x.sameKey e) } e.delegator
            { l.acct e.delegator with general := (l.acct e.delegator).general + w.stakeDst }) e.escrow
            { l.acct e.escrow with debonding := w.pool })
            = accountsTotal ((l.setAcct e.delegator { l.acct e.delegator with
                general := (l.acct e.delegator).general + w.stakeDst }).setAcct e.escrow
                { l.acct e.escrow with debonding := w.pool }) := rfl
        rw [e0]
        have hb1 : ({ l.acct e.delegator with general := (l.acct e.delegator).general + w.stakeDst } : Account).bal
            = (l.acct e.delegator).general + w.stakeDst + (l.acct e.delegator).active.balance
              + (l.acct e.delegator).debonding.balance := rfl
        have hb0 : (l.acct e.delegator).bal = (l.acct e.delegator).general + (l.acct e.delegator).active.balance
            + (l.acct e.delegator).debonding.balance := rfl
        have hb2 : ({ l.acct e.escrow with debonding := w.pool } : Account).bal
            = (l.acct e.escrow).general + (l.acct e.escrow).active.balance + w.pool.balance := rfl
        have hb3 : (l.acct e.escrow).bal = (l.acct e.escrow).general + (l.acct e.escrow).active.balance
            + (l.acct e.escrow).debonding.balance := rfl
        rw [hb1, hb0] at t1
        rw [hb2, hb3] at t2
        generalize (if l.lbfSpent = true then 0 else l.lastBlockFees) = lbf at *
        omega
      · show SharesInv l.n (upd (upd l.acct e.delegator _) e.escrow _) l.del (l.deb.filter (fun x => !x.sameKey e))
        refine ⟨?_, ?_, hscope, hsorted⟩
        · intro i hi
          by_cases hie : i = e.escrow
          · rw [hie, upd_same]; exact hsh.1 _ hen
          · rw [upd_other _ _ _ _ hie]
            by_cases hid : i = e.delegator
            · rw [hid, upd_same]; exact hsh.1 _ hdn
            · rw [upd_other _ _ _ _ hid]; exact hsh.1 i hi
        · intro i hi
          have hr := debSharesOf_remove l.deb e i h.sorted he
          by_cases hie : i = e.escrow
          · rw [hie, upd_same]
            have := hsh.2.1 _ hen
            rw [hie] at hr
            simp only [if_true] at hr
            simp only; omega
          · rw [upd_other _ _ _ _ hie]
            have hne : ¬ e.escrow = i := fun x => hie x.symm
            simp only [hne, if_false] at hr
            by_cases hid : i = e.delegator
            · rw [hid, upd_same]
              have := hsh.2.1 _ hdn
              rw [hid] at hr
              simp only; omega
            · rw [upd_other _ _ _ _ hid]
              have := hsh.2.1 i hi
              omega

theorem debondAll_good (l l' : Ledger) (es : List DebEntry) (hmem : ∀ x ∈ es, x ∈ l.deb)
    (hpw : es.Pairwise (fun a b => a.keyLt b = true)) (h : Inv l)
    (hok : debondAll l es = .ok l') : Good l l' := by
  induction es generalizing l with
  | nil => simp only [debondAll] at hok; injection hok with hok; subst hok; exact Good.refl h
  | cons e es ih =>
    simp only [debondAll] at hok
    cases h1 : debondEntry l e with
    | error err => simp [h1] at hok
    | ok l1 =>
      simp only [h1] at hok
      obtain ⟨g1, hq⟩ := debondEntry_good l l1 e (hmem e (List.mem_cons_self ..)) h h1
      have hp := List.pairwise_cons.1 hpw
      refine g1.trans (ih l1 ?_ hp.2 g1.inv hok)
      intro x hx
      rw [hq]
      refine List.mem_filter.2 ⟨hmem x (List.mem_cons_of_mem _ hx), ?_⟩
      simp [not_sameKey_of_keyLt e x (hp.1 x hx)]

theorem onEpochChange_good (l l' : Ledger) (epoch : Nat) (hpk : ∀ a ∈ l.params.pkOrder, a < l.n) (h : Inv l)
    (hok : onEpochChange l epoch = .ok l') : Good l l' := by
  unfold onEpochChange at hok
  cases h1 : debondAll l (DebSt.expired l.deb epoch) with
  | error e => simp [h1] at hok
  | ok l1 =>
    simp only [h1] at hok
    have g1 := debondAll_good l l1 _ (fun x hx => (List.takeWhile_sublist _).subset hx)
      (List.Pairwise.sublist (List.takeWhile_sublist _) h.sorted) h h1
    exact g1.trans (rewardEpochSigning_good l1 l' epoch (by rw [g1.params_eq, g1.n_eq]; exact hpk) g1.inv hok)


/-! The fee accumulator is not touched by epoch processing. -/

theorem rewardAccount_feeAcc (l l' : Ledger) (ep a q : Nat) (hok : rewardAccount l ep a q = .ok l') :
    l'.feeAcc = l.feeAcc := by
  unfold rewardAccount at hok
  split at hok; · injection hok with hok; subst hok; rfl
  split at hok; · injection hok with hok; subst hok; rfl
  dsimp only at hok
  split at hok; · cases hok
  split at hok; · cases hok
  split at hok
  · injection hok with hok; subst hok; rfl
  · split at hok
    · cases hok
    · injection hok with hok; subst hok; rfl

theorem addRewardsLoop_feeAcc (l l' : Ledger) (ep factor scale : Nat) (as : List Nat)
    (hok : addRewardsLoop l ep factor scale as = .ok l') : l'.feeAcc = l.feeAcc := by
  induction as generalizing l with
  | nil => simp only [addRewardsLoop] at hok; injection hok with hok; subst hok; rfl
  | cons a as ih =>
    simp only [addRewardsLoop] at hok
    split at hok; · cases hok
    split at hok; · cases hok
    rename_i l1 h1
    rw [ih l1 hok, rewardAccount_feeAcc l l1 ep a _ h1]

theorem rewardEpochSigning_feeAcc (l l' : Ledger) (epoch : Nat) (hok : rewardEpochSigning l epoch = .ok l') :
    l'.feeAcc = l.feeAcc := by
  unfold rewardEpochSigning at hok
  dsimp only at hok
  split at hok; · injection hok with hok; subst hok; rfl
  split at hok; · injection hok with hok; subst hok; rfl
  unfold addRewards at hok
  split at hok
  · injection hok with hok; subst hok; rfl
  · exact addRewardsLoop_feeAcc { l with sigTotal := 0, sigBy := fun _ => 0 } l' _ _ _ _ hok

theorem debondEntry_feeAcc (l l' : Ledger) (e : DebEntry) (hok : debondEntry l e = .ok l') :
    l'.feeAcc = l.feeAcc := by
  unfold debondEntry at hok
  split at hok; · cases hok
  dsimp only at hok
  split at hok; · cases hok
  split at hok <;> (injection hok with hok; subst hok; rfl)

theorem debondAll_feeAcc (l l' : Ledger) (es : List DebEntry) (hok : debondAll l es = .ok l') :
    l'.feeAcc = l.feeAcc := by
  induction es generalizing l with
  | nil => simp only [debondAll] at hok; injection hok with hok; subst hok; rfl
  | cons e es ih =>
    simp only [debondAll] at hok
    split at hok; · cases hok
    rename_i l1 h1
    rw [ih l1 hok, debondEntry_feeAcc l l1 e h1]

theorem onEpochChange_feeAcc (l l' : Ledger) (epoch : Nat) (hok : onEpochChange l epoch = .ok l') :
    l'.feeAcc = l.feeAcc := by
  unfold onEpochChange at hok
  split at hok; · cases hok
  rename_i l1 h1
  rw [rewardEpochSigning_feeAcc l1 l' epoch hok, debondAll_feeAcc l _ _ h1]

/-- `EndBlock`: afterwards the block is closed — the supply equation holds in the form of the
property statement (`lbfSpent = false`, empty accumulator). -/
theorem endBlock_kept (l l' : Ledger) (hp : ∀ p, l.proposer = some p → p < l.n)
    (hpk : ∀ a ∈ l.params.pkOrder, a < l.n) (h : Inv l) (hset : FeesSettled l)
    (hok : endBlock l = .ok l') : Kept l l' ∧ l'.lbfSpent = false ∧ l'.feeAcc = 0 := by
  unfold endBlock at hok
  cases h1 : disburseFeesP l with
  | error e => simp [h1] at hok
  | ok l1 =>
    simp only [h1] at hok
    obtain ⟨k1, s1, s2, _, _⟩ := disburseFeesP_kept l l1 hp h hset h1
    have step : ∀ l2, (if l1.epochChanged = true then onEpochChange l1 l1.epoch else Except.ok l1) = .ok l2 →
        Good l1 l2 := by
      intro l2 h2
      split at h2
      · exact onEpochChange_good l1 l2 _ (by rw [k1.params_eq, k1.n_eq]; exact hpk) k1.inv h2
      · injection h2 with h2; subst h2; exact Good.refl k1.inv
    split at hok; · cases hok
    rename_i l2 h2
    injection hok with hok; subst hok
    have g2 := step l2 h2
    have hfa : l2.feeAcc = 0 := by
      split at h2
      · rw [onEpochChange_feeAcc l1 l2 _ h2]; exact s2
      · injection h2 with h2; subst h2; exact s2
    refine ⟨⟨inv_of_same_money g2.inv rfl rfl rfl rfl rfl rfl rfl rfl rfl rfl, ?_, ?_, ?_, ?_⟩, ?_, hfa⟩
    · show l2.n = l.n; rw [g2.n_eq]; exact k1.n_eq
    · show l2.params = l.params; rw [g2.params_eq]; exact k1.params_eq
    · have a1 := g2.supply; have a2 := k1.supply
      show l2.totalSupply + l2.burned = _; omega
    · have a1 := g2.burned_mono; have a2 := k1.burned_mono
      show l.burned ≤ l2.burned; omega
    · show l2.lbfSpent = false; rw [g2.frame.2.1]; exact s1

/-! ### Common-pool transfers and governance deposits -/

theorem govDeposit_good (l l' : Ledger) (src amount : Nat) (hs : src < l.n) (h : Inv l)
    (hok : govDeposit l src amount = .ok l') : Good l l' := by
  unfold govDeposit at hok
  dsimp only at hok
  split at hok; · cases hok
  by_cases h2 : (l.acct src).general < amount
  · simp [h2] at hok
  simp only [h2, if_false] at hok
  injection hok with hok; subst hok
  refine ⟨Inv.ofShares ?_ (sharesInv_upd_acct h.shares src _ rfl rfl), rfl, rfl, rfl, Nat.le_refl _, ⟨rfl, rfl, rfl, rfl, rfl⟩⟩
  have t1 := accountsTotal_setAcct l src { l.acct src with general := (l.acct src).general - amount } hs
  have hsup := h.supply
  show l.totalSupply = accountsTotal (l.setAcct src _) + l.common + (l.govDeposits + amount)
    + (if l.lbfSpent then 0 else l.lastBlockFees) + l.feeAcc
  simp only [Account.bal] at t1
  generalize (if l.lbfSpent = true then 0 else l.lastBlockFees) = lbf at *
  omega

theorem govRefund_good (l l' : Ledger) (dst amount : Nat) (hd : dst < l.n) (h : Inv l)
    (hok : govRefund l dst amount = .ok l') : Good l l' := by
  unfold govRefund at hok
  split at hok; · cases hok
  by_cases h2 : l.govDeposits < amount
  · simp [h2] at hok
  simp only [h2, if_false] at hok
  injection hok with hok; subst hok
  have c := creditGeneral_change l dst amount hd
  refine ⟨Inv.ofShares ?_ (c.sharesInv h.shares), rfl, rfl, rfl, Nat.le_refl _, ⟨rfl, rfl, rfl, rfl, rfl⟩⟩
  have ct := c.total
  have hsup := h.supply
  show l.totalSupply = accountsTotal (l.creditGeneral dst amount) + l.common + (l.govDeposits - amount)
    + (if l.lbfSpent then 0 else l.lastBlockFees) + l.feeAcc
  generalize (if l.lbfSpent = true then 0 else l.lastBlockFees) = lbf at *
  omega

theorem govDiscard_good (l l' : Ledger) (amount : Nat) (h : Inv l)
    (hok : govDiscard l amount = .ok l') : Good l l' := by
  unfold govDiscard at hok
  by_cases h2 : l.govDeposits < amount
  · simp [h2] at hok
  simp only [h2, if_false] at hok
  injection hok with hok; subst hok
  refine ⟨Inv.ofShares ?_ h.shares, rfl, rfl, rfl, Nat.le_refl _, ⟨rfl, rfl, rfl, rfl, rfl⟩⟩
  have hsup := h.supply
  show l.totalSupply = accountsTotal l + (l.common + amount) + (l.govDeposits - amount)
    + (if l.lbfSpent then 0 else l.lastBlockFees) + l.feeAcc
  generalize (if l.lbfSpent = true then 0 else l.lastBlockFees) = lbf at *
  omega

theorem moveUpTo_spec (dst src n : Nat) :
    (Quantity.moveUpTo dst src n).2.2 ≤ src ∧
    (Quantity.moveUpTo dst src n).1 = dst + (Quantity.moveUpTo dst src n).2.2 ∧
    (Quantity.moveUpTo dst src n).2.1 = src - (Quantity.moveUpTo dst src n).2.2 := by
  by_cases h : src < n <;> simp [Quantity.moveUpTo, h] <;> omega

theorem transferFromCommon_good (l l' : Ledger) (dst amount : Nat) (escrow : Bool) (hd : dst < l.n) (h : Inv l)
    (hok : transferFromCommon l dst amount escrow = .ok l') : Good l l' := by
  unfold transferFromCommon at hok
  split at hok; · cases hok
  dsimp only at hok
  obtain ⟨m1, m2, m3⟩ := moveUpTo_spec (l.acct dst).general l.common amount
  generalize (Quantity.moveUpTo (l.acct dst).general l.common amount).2.2 = tr at *
  generalize (Quantity.moveUpTo (l.acct dst).general l.common amount).1 = gen1 at *
  generalize (Quantity.moveUpTo (l.acct dst).general l.common amount).2.1 = com1 at *
  have hsup := h.supply
  split at hok
  · injection hok with hok; subst hok; exact Good.refl h
  split at hok
  · -- plain transfer to the general balance
    injection hok with hok; subst hok
    refine ⟨Inv.ofShares ?_ (sharesInv_upd_acct h.shares dst _ rfl rfl), rfl, rfl, rfl, Nat.le_refl _, ⟨rfl, rfl, rfl, rfl, rfl⟩⟩
    have t1 := accountsTotal_setAcct l dst { l.acct dst with general := gen1 } hd
    show l.totalSupply = accountsTotal (l.setAcct dst _) + com1 + l.govDeposits
      + (if l.lbfSpent then 0 else l.lastBlockFees) + l.feeAcc
    simp only [Account.bal] at t1
    generalize (if l.lbfSpent = true then 0 else l.lastBlockFees) = lbf at *
    omega
  · -- escrowed: commission split, then deposit of the commission
    have step1 : ∀ gen pool com,
        (if (l.acct dst).active.totalShares ≠ 0 then
          match computeCommission (l.rateOf dst l.epoch) tr with
          | .error _ => (Except.error LErr.fatal : Except LErr (Nat × SharePool × Nat))
          | .ok (com, rest) =>
            if gen1 < rest then .error .fatal
            else .ok (gen1 - rest, { (l.acct dst).active with balance := (l.acct dst).active.balance + rest }, com)
        else .ok (gen1, (l.acct dst).active, tr)) = .ok (gen, pool, com) →
        gen + pool.balance = gen1 + (l.acct dst).active.balance ∧
        pool.totalShares = (l.acct dst).active.totalShares ∧ com ≤ gen := by
      intro gen pool com hh
      split at hh
      · split at hh
        · cases hh
        · rename_i c r hc
          have := computeCommission_ok hc
          split at hh; · cases hh
          injection hh with hh
          injection hh with h1 h2
          injection h2 with h2 h3
          subst h1; subst h2; subst h3
          refine ⟨?_, rfl, ?_⟩
          · show gen1 - r + ((l.acct dst).active.balance + r) = gen1 + (l.acct dst).active.balance
            omega
          · omega
      · injection hh with hh
        injection hh with h1 h2
        injection h2 with h2 h3
        subst h1; subst h2; subst h3
        exact ⟨rfl, rfl, by omega⟩
    split at hok; · cases hok
    rename_i gen pool com hs1
    obtain ⟨q1, q2, q3⟩ := step1 gen pool com hs1
    split at hok
    · injection hok with hok; subst hok
      refine ⟨Inv.ofShares ?_ (sharesInv_upd_acct h.shares dst _ q2 rfl), rfl, rfl, rfl, Nat.le_refl _, ⟨rfl, rfl, rfl, rfl, rfl⟩⟩
      have t1 := accountsTotal_setAcct l dst { l.acct dst with general := gen, active := pool } hd
      show l.totalSupply = accountsTotal (l.setAcct dst _) + com1 + l.govDeposits
        + (if l.lbfSpent then 0 else l.lastBlockFees) + l.feeAcc
      simp only [Account.bal] at t1
      generalize (if l.lbfSpent = true then 0 else l.lastBlockFees) = lbf at *
      omega
    · cases hdp : deposit pool (l.del dst dst) gen com with
      | error e => simp [hdp] at hok
      | ok r =>
        simp only [hdp] at hok
        injection hok with hok; subst hok
        obtain ⟨hle, hb, hsrc, ht, hsd⟩ := deposit_moves _ _ _ _ _ hdp
        refine ⟨Inv.ofShares ?_ ?_, rfl, rfl, rfl, Nat.le_refl _, ⟨rfl, rfl, rfl, rfl, rfl⟩⟩
        · have t1 := accountsTotal_setAcct l dst { l.acct dst with general := r.stakeSrc, active := r.pool } hd
          show l.totalSupply = accountsTotal (l.setAcct dst _) + com1 + l.govDeposits
            + (if l.lbfSpent then 0 else l.lastBlockFees) + l.feeAcc
          simp only [Account.bal] at t1
          generalize (if l.lbfSpent = true then 0 else l.lastBlockFees) = lbf at *
          omega
        · apply sharesInv_change_del h.shares _ dst dst r.shareDst hd
          · intro i hi; show (upd l.acct dst _ i).active.totalShares = _; rw [upd_other _ _ _ _ hi]
          · intro i
            show (upd l.acct dst _ i).debonding.totalShares = _
            by_cases hi : i = dst
            · subst hi; rw [upd_same]
            · rw [upd_other _ _ _ _ hi]
          · show (upd l.acct dst _ dst).active.totalShares + _ = _
            rw [upd_same]; simp only; omega

/-! ### Total supply moves only by burns -/

/-- Closes goals `P l'` (true by `rfl` once `l'` is substituted) from `h : f … = .ok l'` by
splitting every branch of `f`. -/
macro "frame_cases" h:ident : tactic => `(tactic|
  (repeat' (first
    | (injection $h:ident with $h:ident; subst $h:ident; rfl)
    | (cases $h:ident; done)
    | (split at $h:ident))))

theorem burnImpl_burns (l l' : Ledger) (src amount : Nat) (hs : src < l.n) (h : Inv l)
    (hok : burnImpl l src amount = .ok l') :
    l'.burned = l.burned + amount ∧ l'.totalSupply + amount = l.totalSupply := by
  have g := burnImpl_good l l' src amount hs h hok
  have hb : l'.burned = l.burned + amount := by
    unfold burnImpl at hok; dsimp only at hok; frame_cases hok
  have := g.supply
  omega

/-- Amount a successful transaction burns. -/
def burnOf (l : Ledger) : TxBody → Nat
  | .burn a => a
  | .transfer d a => if d = l.params.burnAddr then a else 0
  | _ => 0

theorem payFee_burned (l l' : Ledger) (s n f : Nat) (hok : payFee l s n f = .ok l') :
    l'.burned = l.burned ∧ l'.params = l.params := by
  unfold payFee at hok; dsimp only at hok
  constructor <;> frame_cases hok

theorem execBody_burned (l l' : Ledger) (signer : Nat) (body : TxBody) (hs : signer < l.n) (h : Inv l)
    (hok : execBody l signer body = .ok l') : l'.burned = l.burned + burnOf l body := by
  cases body with
  | transfer dst amount =>
    simp only [execBody, burnOf] at hok ⊢
    unfold transfer at hok
    split at hok; · cases hok
    split at hok
    · rename_i hd; simp only [hd, if_true]; exact (burnImpl_burns l l' signer amount hs h hok).1
    · rename_i hd; simp only [hd, if_false, Nat.add_zero]
      dsimp only at hok; frame_cases hok
  | burn amount =>
    simp only [execBody, burnOf] at hok ⊢
    unfold burn at hok
    split at hok; · cases hok
    exact (burnImpl_burns l l' signer amount hs h hok).1
  | addEscrow e amount =>
    simp only [execBody, burnOf, Nat.add_zero] at hok ⊢
    unfold addEscrow at hok; dsimp only at hok; frame_cases hok
  | reclaimEscrow e shares =>
    simp only [execBody, burnOf, Nat.add_zero] at hok ⊢
    unfold reclaimEscrow at hok; dsimp only at hok; frame_cases hok
  | allow b neg ch =>
    simp only [execBody, burnOf, Nat.add_zero] at hok ⊢
    unfold allow at hok; dsimp only at hok; frame_cases hok
  | withdraw src amount =>
    simp only [execBody, burnOf, Nat.add_zero] at hok ⊢
    unfold Ledger.withdraw at hok; dsimp only at hok; frame_cases hok
  | amend am =>
    simp only [execBody, burnOf, Nat.add_zero] at hok ⊢
    unfold amendCommissionSchedule at hok; dsimp only at hok; frame_cases hok

theorem applyTx_cases (l : Ledger) (signer nonce fee : Nat) (g : TxGas) (body : TxBody) :
    (∃ e, payFee l signer nonce fee = .error e ∧ applyTx l signer nonce fee g body = (l, some e)) ∨
    (∃ l1 e, payFee l signer nonce fee = .ok l1 ∧ execBodyGas l1 signer g body = .error e ∧
        applyTx l signer nonce fee g body = (l1, some e)) ∨
    (∃ l1 l2, payFee l signer nonce fee = .ok l1 ∧ execBody l1 signer body = .ok l2 ∧
        applyTx l signer nonce fee g body = (l2, none)) := by
  unfold applyTx
  cases h1 : payFee l signer nonce fee with
  | error e => exact Or.inl ⟨e, rfl, rfl⟩
  | ok l1 =>
    cases h2 : execBodyGas l1 signer g body with
    | error e => exact Or.inr (Or.inl ⟨l1, e, rfl, h2, by simp [h2]⟩)
    | ok l2 => exact Or.inr (Or.inr ⟨l1, l2, rfl, execBodyGas_ok l1 l2 signer g body h2, by simp [h2]⟩)

/-- **A transaction changes the total supply only if it is a successful burn (or transfer to the
burn address), and then by exactly the burned amount.** -/
theorem applyTx_supply (l : Ledger) (signer nonce fee : Nat) (gas : TxGas) (body : TxBody) (hs : signer < l.n)
    (hb : bodyScoped l.n body) (h : Inv l) :
    (applyTx l signer nonce fee gas body).1.totalSupply
      + (if (applyTx l signer nonce fee gas body).2 = none then burnOf l body else 0) = l.totalSupply := by
  have g := applyTx_good l signer nonce fee gas body hs hb h
  have hsup := g.supply
  rcases applyTx_cases l signer nonce fee gas body with ⟨e, h1, he⟩ | ⟨l1, e, h1, h2, he⟩ | ⟨l1, l2, h1, h2, he⟩
  · rw [he]; simp
  · rw [he] at hsup ⊢
    obtain ⟨b1, p1⟩ := payFee_burned l l1 signer nonce fee h1
    simp only [reduceCtorEq, if_false] at hsup ⊢; omega
  · rw [he] at hsup ⊢
    have g1 := payFee_good l l1 signer nonce fee hs h h1
    obtain ⟨b1, p1⟩ := payFee_burned l l1 signer nonce fee h1
    have b2 := execBody_burned l1 l2 signer body (by rw [g1.n_eq]; exact hs) g1.inv h2
    have : burnOf l1 body = burnOf l body := by
      cases body <;> simp [burnOf, p1]
    simp only [if_true] at hsup ⊢; omega

/-! ### Gas: charged before execution; running out of gas persists only fee and nonce -/

/-- What the fee payment does, explicitly: the signer's general balance goes down by the fee, its
nonce up by one, the block's fee accumulator up by the fee — nothing else. -/
theorem payFee_effect (l l1 : Ledger) (signer nonce fee : Nat) (hok : payFee l signer nonce fee = .ok l1) :
    (l.acct signer).nonce = nonce ∧ fee + l.params.minTransactBalance ≤ (l.acct signer).general ∧
    l1 = { (l.setAcct signer { l.acct signer with general := (l.acct signer).general - fee,
                                                  nonce := (l.acct signer).nonce + 1 }) with
           feeAcc := l.feeAcc + fee } := by
  unfold payFee at hok
  dsimp only at hok
  split at hok; · cases hok
  split at hok; · cases hok
  rename_i hn
  split at hok; · cases hok
  rename_i hb
  injection hok with hok
  exact ⟨by simpa using hn, by omega, hok.symm⟩

/-- **Gas is charged before execution.** When the gas limit does not cover the per-byte charge of the
mux plus the cost of the transaction's operation, the body is not executed at all: the result is
`out of gas` (or, for a `ReclaimEscrow` of zero shares, the argument error raised before the charge)
— whatever the body, the signer and the ledger. -/
theorem gas_charged_before_execution (l : Ledger) (signer : Nat) (g : TxGas) (body : TxBody)
    (hlim : g.limit < g.size * l.params.gasPerByte + opCost l.params body) :
    execBodyGas l signer g body = .error .outOfGas ∨
    (execBodyGas l signer g body = .error .invalidArgument ∧ ∃ e, body = .reclaimEscrow e 0) := by
  unfold execBodyGas
  dsimp only
  split
  · exact Or.inl rfl
  · split
    · rename_i e sh
      split
      · rename_i h0; subst h0; exact Or.inr ⟨rfl, e, rfl⟩
      · simp only [hlim, if_true]; exact Or.inl (by first | rfl | trivial)
    · simp only [hlim, if_true]; exact Or.inl (by first | rfl | trivial)

/-- With enough gas the result is the body's own. -/
theorem gas_sufficient (l : Ledger) (signer : Nat) (g : TxGas) (body : TxBody)
    (hlim : g.size * l.params.gasPerByte + opCost l.params body ≤ g.limit) :
    execBodyGas l signer g body = execBody l signer body ∨ ∃ e, body = .reclaimEscrow e 0 := by
  unfold execBodyGas
  dsimp only
  have h1 : ¬ g.limit < g.size * l.params.gasPerByte := by omega
  have h2 : ¬ g.limit < g.size * l.params.gasPerByte + opCost l.params body := by omega
  simp only [h1, if_false]
  split
  · rename_i e sh
    split
    · rename_i h0; subst h0; exact Or.inr ⟨e, rfl⟩
    · simp only [h2, if_false]; exact Or.inl (by first | rfl | trivial)
  · simp only [h2, if_false]; exact Or.inl (by first | rfl | trivial)

/-- **A transaction that fails — at authentication, by running out of gas, or in its body — persists
nothing but fee and nonce**: the stored ledger is either the one before (rejected at
authentication) or exactly the one after the fee payment (`payFee_effect`). -/
theorem applyTx_failure_effect (l : Ledger) (signer nonce fee : Nat) (g : TxGas) (body : TxBody) (e : LErr)
    (herr : (applyTx l signer nonce fee g body).2 = some e) :
    (applyTx l signer nonce fee g body).1 = l ∨
    payFee l signer nonce fee = .ok (applyTx l signer nonce fee g body).1 := by
  rcases applyTx_cases l signer nonce fee g body with ⟨e', h1, he⟩ | ⟨l1, e', h1, h2, he⟩ | ⟨l1, l2, h1, h2, he⟩
  · rw [he]; exact Or.inl rfl
  · rw [he]; exact Or.inr h1
  · rw [he] at herr; cases herr

/-- **Out of gas ⇒ state unchanged but fee and nonce.** -/
theorem applyTx_outOfGas (l : Ledger) (signer nonce fee : Nat) (g : TxGas) (body : TxBody)
    (hlim : g.limit < g.size * l.params.gasPerByte + opCost l.params body) :
    (∃ e, (applyTx l signer nonce fee g body) = (l, some e)) ∨
    ∃ l1, payFee l signer nonce fee = .ok l1 ∧
      ((applyTx l signer nonce fee g body) = (l1, some .outOfGas) ∨
       (applyTx l signer nonce fee g body) = (l1, some .invalidArgument)) := by
  rcases applyTx_cases l signer nonce fee g body with ⟨e', h1, he⟩ | ⟨l1, e', h1, h2, he⟩ | ⟨l1, l2, h1, h2, he⟩
  · exact Or.inl ⟨e', he⟩
  · have hp : l1.params = l.params := (payFee_burned l l1 signer nonce fee h1).2
    rcases gas_charged_before_execution l1 signer g body (by rw [hp]; exact hlim) with hg | ⟨hg, _⟩
    · rw [hg] at h2; injection h2 with h2; subst h2
      exact Or.inr ⟨l1, h1, Or.inl he⟩
    · rw [hg] at h2; injection h2 with h2; subst h2
      exact Or.inr ⟨l1, h1, Or.inr he⟩
  · -- a successful transaction had enough gas
    exfalso
    have hp : l1.params = l.params := (payFee_burned l l1 signer nonce fee h1).2
    have hx : ∃ l2', execBodyGas l1 signer g body = .ok l2' := by
      unfold applyTx at he
      simp only [h1] at he
      cases hb : execBodyGas l1 signer g body with
      | error e => simp [hb] at he
      | ok l2' => exact ⟨l2', rfl⟩
    obtain ⟨l2', hx⟩ := hx
    rcases gas_charged_before_execution l1 signer g body (by rw [hp]; exact hlim) with hg | ⟨hg, _⟩ <;>
      (rw [hg] at hx; cases hx)

/-! ### AmendCommissionSchedule at the ledger level -/

/-- **What an accepted `AmendCommissionSchedule` guarantees** (ledger-level form of the theorems of
`OasisProofs.C05Commission`): only the signer's schedule changes; if the old schedule was valid and
ordered so is the new one; the rate used for commission at the current epoch is unchanged (no
retroactive change); from the current epoch on a rate is in force iff a bound is, the rate lies
within the bound, and never exceeds 100 %. -/
theorem amendCommissionSchedule_spec (l l' : Ledger) (src : Nat) (am : Schedule)
    (hok : amendCommissionSchedule l src am = .ok l') :
    (∀ i, i ≠ src → l'.acct i = l.acct i) ∧
    (l.acct src).active.balance ≥ l.params.commissionStakeThreshold ∧
    (C05Commission.Valid l.params.rules (l.acct src).schedule →
      C05Commission.Valid l.params.rules (l'.acct src).schedule) ∧
    (C05Commission.Sorted (l.acct src).schedule →
      C05Commission.Sorted (l'.acct src).schedule ∧ l'.rateOf src l.epoch = l.rateOf src l.epoch) ∧
    (∀ t, l.epoch ≤ t →
      ((l'.acct src).schedule.currentRate t).isSome = ((l'.acct src).schedule.currentBound t).isSome ∧
      ∀ x bb, (l'.acct src).schedule.currentRate t = some x → (l'.acct src).schedule.currentBound t = some bb →
        bb.rateMin ≤ x ∧ x ≤ bb.rateMax) := by
  unfold amendCommissionSchedule at hok
  split at hok; · cases hok
  dsimp only at hok
  split at hok; · cases hok
  rename_i hthr
  split at hok; · cases hok
  rename_i s' hs'
  injection hok with hok; subst hok
  have hacc : (l.setAcct src { l.acct src with schedule := s' }).acct src = { l.acct src with schedule := s' } := by
    simp [Ledger.setAcct, upd]
  refine ⟨fun i hi => by simp [Ledger.setAcct, upd, hi], by omega, ?_, ?_, ?_⟩
  · intro hv; rw [hacc]; exact C05Commission.amend_valid _ _ am s' l.epoch hv hs'
  · intro hso
    rw [hacc]
    refine ⟨C05Commission.amend_sorted _ _ am s' l.epoch hso hs', ?_⟩
    simp only [Ledger.rateOf, hacc]
    rw [C05Commission.amend_keeps_current_rate _ _ am s' l.epoch hso hs']
    rfl
  · intro t ht
    rw [hacc]
    exact C05Commission.amend_rate_in_bounds _ _ am s' l.epoch t hs' ht

/-- Nothing was burned: recorded total supply and burn counter are unchanged. -/
def NoBurn (l l' : Ledger) : Prop := l'.totalSupply = l.totalSupply ∧ l'.burned = l.burned

theorem NoBurn.refl (l : Ledger) : NoBurn l l := ⟨rfl, rfl⟩
theorem NoBurn.trans {a b c : Ledger} (h1 : NoBurn a b) (h2 : NoBurn b c) : NoBurn a c :=
  ⟨h2.1.trans h1.1, h2.2.trans h1.2⟩

theorem rewardAccount_noBurn (l l' : Ledger) (ep a q : Nat) (hok : rewardAccount l ep a q = .ok l') : NoBurn l l' := by
  unfold rewardAccount at hok; dsimp only at hok
  constructor <;> frame_cases hok

theorem addRewardsLoop_noBurn (l l' : Ledger) (ep factor scale : Nat) (as : List Nat)
    (hok : addRewardsLoop l ep factor scale as = .ok l') : NoBurn l l' := by
  induction as generalizing l with
  | nil => simp only [addRewardsLoop] at hok; injection hok with hok; subst hok; exact NoBurn.refl _
  | cons a as ih =>
    simp only [addRewardsLoop] at hok
    split at hok; · cases hok
    split at hok; · cases hok
    rename_i l1 h1
    exact (rewardAccount_noBurn l l1 ep a _ h1).trans (ih l1 hok)

theorem addRewards_noBurn (l l' : Ledger) (ep f : Nat) (as : List Nat) (hok : addRewards l ep f as = .ok l') :
    NoBurn l l' := by
  unfold addRewards at hok
  split at hok
  · injection hok with hok; subst hok; exact NoBurn.refl _
  · exact addRewardsLoop_noBurn l l' _ _ _ _ hok

theorem rewardEpochSigning_noBurn (l l' : Ledger) (epoch : Nat) (hok : rewardEpochSigning l epoch = .ok l') :
    NoBurn l l' := by
  unfold rewardEpochSigning at hok
  dsimp only at hok
  split at hok; · injection hok with hok; subst hok; exact ⟨rfl, rfl⟩
  split at hok; · injection hok with hok; subst hok; exact ⟨rfl, rfl⟩
  exact addRewards_noBurn { l with sigTotal := 0, sigBy := fun _ => 0 } l' _ _ _ hok

theorem addRewardSingleAttenuated_noBurn (l l' : Ledger) (ep f n d a : Nat)
    (hok : addRewardSingleAttenuated l ep f n d a = .ok l') : NoBurn l l' := by
  unfold addRewardSingleAttenuated at hok
  split at hok
  · injection hok with hok; subst hok; exact NoBurn.refl _
  · split at hok; · cases hok
    split at hok; · cases hok
    exact rewardAccount_noBurn l l' _ a _ hok

theorem slashEscrowL_noBurn (l l' : Ledger) (a amt : Nat) (hok : slashEscrowL l a amt = .ok l') : NoBurn l l' := by
  unfold slashEscrowL at hok; dsimp only at hok
  constructor <;> frame_cases hok

theorem onEvidence_noBurn (l l' : Ledger) (v : Nat) (hok : onEvidence l v = .ok l') : NoBurn l l' := by
  unfold onEvidence at hok
  split at hok; · injection hok with hok; subst hok; exact NoBurn.refl _
  split at hok; · injection hok with hok; subst hok; exact NoBurn.refl _
  split at hok; · cases hok
  rename_i l1 h1
  injection hok with hok; subst hok
  have := slashEscrowL_noBurn l l1 _ _ h1
  split <;> exact this

theorem evidenceLoop_noBurn (l l' : Ledger) (vs : List Nat) (hok : evidenceLoop l vs = .ok l') : NoBurn l l' := by
  induction vs generalizing l with
  | nil => simp only [evidenceLoop] at hok; injection hok with hok; subst hok; exact NoBurn.refl _
  | cons v vs ih =>
    simp only [evidenceLoop] at hok
    split at hok; · cases hok
    rename_i l1 h1
    exact (onEvidence_noBurn l l1 v h1).trans (ih l1 hok)

theorem transferFromCommon_noBurn (l l' : Ledger) (d amt : Nat) (e : Bool)
    (hok : transferFromCommon l d amt e = .ok l') : NoBurn l l' := by
  unfold transferFromCommon at hok; dsimp only at hok
  constructor <;> frame_cases hok

theorem govDeposit_noBurn (l l' : Ledger) (s amt : Nat) (hok : govDeposit l s amt = .ok l') : NoBurn l l' := by
  unfold govDeposit at hok; dsimp only at hok
  constructor <;> frame_cases hok

theorem govRefund_noBurn (l l' : Ledger) (s amt : Nat) (hok : govRefund l s amt = .ok l') : NoBurn l l' := by
  unfold govRefund at hok; dsimp only at hok
  constructor <;> frame_cases hok

theorem govDiscard_noBurn (l l' : Ledger) (amt : Nat) (hok : govDiscard l amt = .ok l') : NoBurn l l' := by
  unfold govDiscard at hok
  constructor <;> frame_cases hok

theorem debondEntry_noBurn (l l' : Ledger) (e : DebEntry) (hok : debondEntry l e = .ok l') : NoBurn l l' := by
  unfold debondEntry at hok; dsimp only at hok
  constructor <;> frame_cases hok

theorem debondAll_noBurn (l l' : Ledger) (es : List DebEntry) (hok : debondAll l es = .ok l') : NoBurn l l' := by
  induction es generalizing l with
  | nil => simp only [debondAll] at hok; injection hok with hok; subst hok; exact NoBurn.refl _
  | cons e es ih =>
    simp only [debondAll] at hok
    split at hok; · cases hok
    rename_i l1 h1
    exact (debondEntry_noBurn l l1 e h1).trans (ih l1 hok)

theorem acctChange_noBurn {l l' : Ledger} {amt : Nat} (c : AcctChange l l' amt) : NoBurn l l' :=
  ⟨c.fields.2.2.2.2.2.2.2.2.2.1, c.fields.2.2.2.2.2.2.2.2.2.2⟩

theorem vqPay_noBurn (l l' : Ledger) (p : Option Nat) (vs : List Nat) (lbf sNP sV : Nat)
    (hp : ∀ q, p = some q → q < l.n) (hv : ∀ v ∈ vs, v < l.n)
    (hok : vqPay l p vs lbf sNP sV = .ok l') : NoBurn l l' := by
  unfold vqPay at hok
  simp only at hok
  generalize (if sNP * vs.length ≠ 0 ∧ p.isSome = true then sNP * vs.length else 0) = pNP at hok
  generalize (if sV ≠ 0 then sV * vs.length else 0) = pV at hok
  by_cases hlt : lbf < pNP + pV
  · simp [hlt] at hok
  simp only [hlt, if_false] at hok
  cases h1 : payNextProposer l p (sNP * vs.length) with
  | error e => simp [h1] at hok
  | ok l1 =>
    simp only [h1] at hok
    cases h2 : payVotersIf l1 sV vs with
    | error e => simp [h2] at hok
    | ok l2 =>
      simp only [h2] at hok
      injection hok with hok; subst hok
      have c1 := payNextProposer_change l l1 p _ hp h1
      have c2 := payVotersIf_change l1 l2 _ vs (by rw [c1.fields.1]; exact hv) h2
      have nb := acctChange_noBurn (c1.trans c2)
      exact ⟨nb.1, nb.2⟩

theorem disburseFeesVQ_noBurn (l l' : Ledger) (p : Option Nat) (ne : Nat) (vs : List Nat)
    (hp : ∀ q, p = some q → q < l.n) (hv : ∀ v ∈ vs, v < l.n)
    (hok : disburseFeesVQ l p ne vs = .ok l') : NoBurn l l' := by
  unfold disburseFeesVQ at hok; dsimp only at hok
  split at hok; · injection hok with hok; subst hok; exact NoBurn.refl _
  split at hok; · cases hok
  split at hok; · cases hok
  exact vqPay_noBurn l l' p vs _ _ _ hp hv hok

theorem disburseFeesP_noBurn (l l' : Ledger) (hp : ∀ p, l.proposer = some p → p < l.n)
    (hok : disburseFeesP l = .ok l') : NoBurn l l' := by
  unfold disburseFeesP at hok; dsimp only at hok
  split at hok; · injection hok with hok; subst hok; exact ⟨rfl, rfl⟩
  split at hok; · cases hok
  split at hok
  · have nb := acctChange_noBurn (payNextProposer_change (l1 := l') (proposer := l.proposer) (l := { l with
        lastBlockFees := l.feeAcc * (l.params.feeWeightVote + l.params.feeWeightNextPropose) /
          (l.params.feeWeightVote + l.params.feeWeightNextPropose + l.params.feeWeightPropose),
        lbfSpent := false, feeAcc := 0 }) (hp := hp) (hok := hok))
    exact ⟨nb.1, nb.2⟩
  · injection hok with hok; subst hok; exact ⟨rfl, rfl⟩

/-- BeginBlock and EndBlock never change the recorded total supply. -/
theorem beginBlock_noBurn (l l' : Ledger) (p : Option Nat) (ne : Nat) (vs ev : List Nat)
    (hp : ∀ q, p = some q → q < l.n) (hv : ∀ v ∈ vs, v < l.n)
    (hok : beginBlock l p ne vs ev = .ok l') : NoBurn l l' := by
  unfold beginBlock at hok
  split at hok; · cases hok
  rename_i l1 h1
  have n1 := disburseFeesVQ_noBurn l l1 p ne vs hp hv h1
  dsimp only at hok
  split at hok; · cases hok
  rename_i l3 h3
  have n3 : NoBurn l1 l3 := by
    cases p with
    | none => simp only at h3; injection h3 with h3; subst h3; exact ⟨rfl, rfl⟩
    | some q =>
      simp only at h3
      exact addRewardSingleAttenuated_noBurn { l1 with proposer := some q } l3 _ _ _ _ _ h3
  have n5 := evidenceLoop_noBurn (updateEpochSigning l3 vs) l' ev hok
  exact n1.trans (n3.trans n5)

theorem endBlock_noBurn (l l' : Ledger) (hp : ∀ p, l.proposer = some p → p < l.n)
    (hok : endBlock l = .ok l') : NoBurn l l' := by
  unfold endBlock at hok
  split at hok; · cases hok
  rename_i l1 h1
  have n1 := disburseFeesP_noBurn l l1 hp h1
  dsimp only at hok
  split at hok; · cases hok
  rename_i l2 h2
  injection hok with hok; subst hok
  have n2 : NoBurn l1 l2 := by
    split at h2
    · unfold onEpochChange at h2
      split at h2; · cases h2
      rename_i l1' h1'
      exact (debondAll_noBurn l1 l1' _ h1').trans (rewardEpochSigning_noBurn l1' l2 _ h2)
    · injection h2 with h2; subst h2; exact NoBurn.refl _
  exact n1.trans ⟨n2.1, n2.2⟩

/-! ### Genesis, blocks, chains -/

/-- State at a block boundary: the invariant holds, the last-block fees count, nothing is in the
block's fee accumulator — the supply equation reads exactly as in the property statement. -/
def Boundary (l : Ledger) : Prop := Inv l ∧ l.lbfSpent = false ∧ l.feeAcc = 0

/-- **Conservation at block boundaries, spelled out.** -/
theorem boundary_equation (l : Ledger) (h : Boundary l) :
    l.totalSupply = accountsTotal l + l.common + l.govDeposits + l.lastBlockFees ∧
    (∀ e, e < l.n → (l.acct e).active.totalShares = sumTo l.n (l.del e)) ∧
    (∀ e, e < l.n → (l.acct e).debonding.totalShares = debSharesOf l.deb e) := by
  obtain ⟨hi, h1, h2⟩ := h
  refine ⟨?_, hi.active, hi.debond⟩
  have := hi.supply
  simp only [h1, h2, Bool.false_eq_true, if_false] at this
  omega

/-- **Initial state**: a genesis document that `InitChain` accepts yields a boundary state. -/
theorem genesis_boundary (l l' : Ledger) (hok : genesis l = .ok l') : Boundary l' := by
  unfold genesis at hok
  dsimp only at hok
  split at hok
  · rename_i hinv
    injection hok with hok; subst hok
    simp only [Bool.and_eq_true] at hinv
    exact ⟨(invB_iff _).1 hinv.1.1, rfl, rfl⟩
  · cases hok

/-- A genesis document that `InitChain` accepts has only valid, ordered commission schedules
(`SanityCheckAccount` → `PruneAndValidate`): every rate step between the minimum commission rate and
100 %. Accepted amendments preserve this (`amendCommissionSchedule_spec`), no other operation touches
a schedule. -/
theorem genesis_schedules (l l' : Ledger) (hok : genesis l = .ok l') (i : Nat) (hi : i < l'.n) :
    C05Commission.Valid l'.params.rules (l'.acct i).schedule ∧ C05Commission.Sorted (l'.acct i).schedule := by
  unfold genesis at hok
  dsimp only at hok
  split at hok
  · rename_i hinv
    injection hok with hok; subst hok
    simp only [Bool.and_eq_true] at hinv
    have hs := hinv.2
    simp only [schedulesB, List.all_eq_true, List.mem_range] at hs
    have := hs i hi
    cases hp : ((l.acct i).schedule.pruneAndValidate l.params.rules l.epoch) with
    | none => simp [hp] at this
    | some p =>
      exact ⟨(C05Commission.genesis_valid _ _ p _ hp).1, (C05Commission.genesis_sorted _ _ p _ hp).1⟩
  · cases hok

def ParamsScoped (l : Ledger) : Prop :=
  (∀ e ∈ l.params.validators, e < l.n) ∧ (∀ a ∈ l.params.pkOrder, a < l.n)

def msgScoped (n : Nat) : MsgBody → Prop
  | .transfer dst _ => dst < n
  | .withdraw src _ => src < n
  | .addEscrow e _ => e < n
  | .reclaimEscrow e _ => e < n

/-- **Runtime messages preserve the invariant**: a transfer, withdrawal, escrow or reclaim performed by
a runtime account through `ExecuteMessage` is the corresponding transaction handler without fee,
nonce and gas. -/
theorem execMsg_good (l l' : Ledger) (rt : Nat) (m : MsgBody) (hrt : rt < l.n) (hm : msgScoped l.n m) (h : Inv l)
    (hok : execMsg l rt m = .ok l') : Good l l' := by
  cases m with
  | transfer dst amount => exact transfer_good l l' rt dst amount hrt hm h hok
  | withdraw src amount => exact withdraw_good l l' rt src amount hrt hm h hok
  | addEscrow e amount =>
    simp only [execMsg] at hok
    split at hok; · cases hok
    exact addEscrow_good l l' rt e amount hrt hm h hok
  | reclaimEscrow e shares =>
    simp only [execMsg] at hok
    split at hok; · cases hok
    split at hok; · cases hok
    exact reclaimEscrow_good l l' rt e shares hrt hm h hok

def opScoped (n : Nat) : Op → Prop
  | .tx s _ _ _ b => s < n ∧ bodyScoped n b
  | .msg rt m => rt < n ∧ msgScoped n m
  | .slash a _ => a < n
  | .transferFromCommon d _ _ => d < n
  | .addRewards _ _ as => ∀ a ∈ as, a < n
  | .govDeposit s _ => s < n
  | .govRefund d _ => d < n
  | .govDiscard _ => True

def blockScoped (n : Nat) (b : Block) : Prop :=
  (∀ p, b.proposer = some p → p < n) ∧ (∀ v ∈ b.voters, v < n) ∧ ∀ o ∈ b.ops, opScoped n o

theorem keep_good {l : Ledger} {r : Except LErr Ledger} (h : Inv l) (hr : ∀ l', r = .ok l' → Good l l') :
    Good l (keep l r) := by
  cases r with
  | error e => exact Good.refl h
  | ok l' => exact hr l' rfl

/-- **Every operation inside a block — successful or not — preserves the invariant.** -/
theorem applyOp_good (l : Ledger) (o : Op) (hsc : opScoped l.n o) (h : Inv l) : Good l (applyOp l o) := by
  cases o with
  | tx s n f g b => exact applyTx_good l s n f g b hsc.1 hsc.2 h
  | msg rt m => exact keep_good h (fun l' hl => execMsg_good l l' rt m hsc.1 hsc.2 h hl)
  | slash a amt => exact keep_good h (fun l' hl => slashEscrowL_good l l' a amt hsc h hl)
  | transferFromCommon d amt e => exact keep_good h (fun l' hl => transferFromCommon_good l l' d amt e hsc h hl)
  | addRewards ep f as => exact keep_good h (fun l' hl => addRewards_good l l' ep f as hsc h hl)
  | govDeposit s amt => exact keep_good h (fun l' hl => govDeposit_good l l' s amt hsc h hl)
  | govRefund d amt => exact keep_good h (fun l' hl => govRefund_good l l' d amt hsc h hl)
  | govDiscard amt => exact keep_good h (fun l' hl => govDiscard_good l l' amt h hl)

theorem ops_good (l : Ledger) (ops : List Op) (hsc : ∀ o ∈ ops, opScoped l.n o) (h : Inv l) :
    Good l (ops.foldl applyOp l) := by
  induction ops generalizing l with
  | nil => exact Good.refl h
  | cons o os ih =>
    have g1 := applyOp_good l o (hsc o (List.mem_cons_self ..)) h
    have g2 := ih (applyOp l o) (fun x hx => by rw [g1.n_eq]; exact hsc x (List.mem_cons_of_mem _ hx)) g1.inv
    exact g1.trans g2

/-- **One block**: from a boundary state, any block (any proposer, vote participation, evidence,
epoch transition, any mix of valid and invalid operations) that does not halt consensus ends in a
boundary state again; the total supply went down by exactly what was burned. -/
theorem runBlock_boundary (l l' : Ledger) (b : Block) (hb : Boundary l) (hps : ParamsScoped l)
    (hsc : blockScoped l.n b) (hok : runBlock l b = some l') :
    Boundary l' ∧ l'.n = l.n ∧ l'.params = l.params ∧
    l'.totalSupply + l'.burned = l.totalSupply + l.burned ∧ l.burned ≤ l'.burned := by
  obtain ⟨hi, hfresh, hacc⟩ := hb
  unfold runBlock at hok
  dsimp only at hok
  -- the epoch announcement does not touch balances
  have h0 : ∀ l0, startBlock l b.newEpoch = l0 →
      Inv l0 ∧ l0.lbfSpent = false ∧ l0.n = l.n ∧ l0.params = l.params ∧ l0.totalSupply = l.totalSupply ∧ l0.burned = l.burned := by
    intro l0 hl0
    cases hne : b.newEpoch with
    | none => rw [hne] at hl0; subst hl0; exact ⟨hi, hfresh, rfl, rfl, rfl, rfl⟩
    | some e =>
      rw [hne] at hl0; subst hl0
      exact ⟨inv_of_same_money hi rfl rfl rfl rfl rfl rfl rfl rfl rfl rfl, hfresh, rfl, rfl, rfl, rfl⟩
  generalize hl0 : startBlock l b.newEpoch = l0 at hok
  obtain ⟨i0, f0, n0, p0, t0, b0⟩ := h0 l0 hl0
  cases h1 : beginBlock l0 b.proposer b.numEligible b.voters b.evidence with
  | error e => simp [h1] at hok
  | ok l1 =>
    simp only [h1] at hok
    obtain ⟨k1, s1, pr1, _, _⟩ := beginBlock_kept l0 l1 b.proposer b.numEligible b.voters b.evidence
      (by rw [n0]; exact hsc.1) (by rw [n0]; exact hsc.2.1) (by rw [p0, n0]; exact hps.1) i0 f0 h1
    have g2 := ops_good l1 b.ops (by rw [k1.n_eq, n0]; exact hsc.2.2) k1.inv
    cases h3 : endBlock (b.ops.foldl applyOp l1) with
    | error e => simp [h3] at hok
    | ok l3 =>
      simp only [h3] at hok
      injection hok with hok; subst hok
      obtain ⟨f1, f2, f3, _, _⟩ := g2.frame
      have hset : FeesSettled (b.ops.foldl applyOp l1) := by
        rcases s1 with s | s
        · left; rw [f2]; exact s
        · right; rw [f1]; exact s
      obtain ⟨k3, e1, e2⟩ := endBlock_kept _ l3
        (by intro p hp; rw [f3, pr1] at hp; rw [g2.n_eq, k1.n_eq, n0]; exact hsc.1 p hp)
        (by rw [g2.params_eq, k1.params_eq, p0, g2.n_eq, k1.n_eq, n0]; exact hps.2) g2.inv hset h3
      refine ⟨⟨k3.inv, e1, e2⟩, ?_, ?_, ?_, ?_⟩
      · rw [k3.n_eq, g2.n_eq, k1.n_eq, n0]
      · rw [k3.params_eq, g2.params_eq, k1.params_eq, p0]
      · have a1 := k3.supply; have a2 := g2.supply; have a3 := k1.supply; omega
      · have a1 := k3.burned_mono; have a2 := g2.burned_mono; have a3 := k1.burned_mono; omega

/-- **All histories**: from a boundary state (e.g. genesis), after any sequence of blocks the chain
is at a boundary state again — the conservation equation and the share bookkeeping hold at every
block boundary — and the recorded total supply never increased: it went down by exactly the
burned amounts. -/
theorem runChain_boundary (l : Ledger) (bs : List Block) (hb : Boundary l) (hps : ParamsScoped l)
    (hsc : ∀ b ∈ bs, blockScoped l.n b) :
    Boundary (runChain l bs) ∧
    (runChain l bs).totalSupply + (runChain l bs).burned = l.totalSupply + l.burned ∧
    l.burned ≤ (runChain l bs).burned := by
  induction bs generalizing l with
  | nil => exact ⟨hb, rfl, Nat.le_refl _⟩
  | cons b bs ih =>
    simp only [runChain]
    cases h1 : runBlock l b with
    | none => exact ⟨hb, rfl, Nat.le_refl _⟩
    | some l1 =>
      simp only
      obtain ⟨b1, n1, p1, s1, m1⟩ := runBlock_boundary l l1 b hb hps (hsc b (List.mem_cons_self ..)) h1
      obtain ⟨b2, s2, m2⟩ := ih l1 b1 (by unfold ParamsScoped; rw [p1, n1]; exact hps)
        (fun x hx => by rw [n1]; exact hsc x (List.mem_cons_of_mem _ hx))
      exact ⟨b2, by omega, by omega⟩

/-- Corollary: the recorded total supply never increases. -/
theorem supply_never_increases (l : Ledger) (bs : List Block) (hb : Boundary l) (hps : ParamsScoped l)
    (hsc : ∀ b ∈ bs, blockScoped l.n b) : (runChain l bs).totalSupply ≤ l.totalSupply := by
  obtain ⟨_, s, m⟩ := runChain_boundary l bs hb hps hsc
  omega

/-! ### Non-vacuity: a concrete ledger and history -/

/-- Three accounts (2 is the burn address), account 0 is a validator entity with a self-delegation
and a delegation from 1, one debonding delegation due at epoch 2, fees carried over. -/
def exLedger : Ledger :=
  { n := 3,
    acct := fun i =>
      if i = 0 then { general := 1000, active := { balance := 500, totalShares := 300 },
                      debonding := { balance := 40, totalShares := 30 }, schedule := { rates := [⟨0, 20000⟩], bounds := [⟨0, 0, 100000⟩] } }
      else if i = 1 then { general := 2000, allowances := [(0, 50)] }
      else {},
    del := fun e d => if e = 0 ∧ d = 0 then 200 else if e = 0 ∧ d = 1 then 100 else 0,
    deb := [{ endEpoch := 2, delegator := 1, escrow := 0, shares := 30 }],
    common := 10000, govDeposits := 7, lastBlockFees := 9, feeAcc := 0,
    totalSupply := 1000 + 500 + 40 + 2000 + 10000 + 7 + 9,
    epoch := 1,
    params := { minTransactBalance := 10, maxAllowances := 4, debondingInterval := 1,
                rewardSchedule := [(10, 50000000)], rewardFactorEpochSigned := 1000,
                rewardFactorBlockProposed := 1000, signingThresholdNum := 1, signingThresholdDen := 2,
                slashAmount := 100, burnAddr := 2, reserved := [2], pkOrder := [0, 1], validators := [0],
                gasPerByte := 1, gasCosts := { transfer := 10, burn := 10, addEscrow := 20, reclaimEscrow := 20,
                                               amendCommissionSchedule := 30, allow := 10, withdraw := 10 },
                rateChangeInterval := 1, rateBoundLead := 2, maxRateSteps := 4, maxBoundSteps := 4,
                commissionStakeThreshold := 100, allowEscrowMessages := true } }

example : Boundary exLedger :=
  ⟨(invB_iff _).1 (by decide), rfl, rfl⟩

example : ParamsScoped exLedger := by
  constructor <;> (intro x hx; simp [exLedger] at hx; rcases hx with rfl | rfl <;> decide)

/-- A block with an epoch transition, fee disbursement, evidence (slash), a valid transfer, a burn,
an escrow, a reclaim, a withdraw against an allowance, an invalid transaction (bad nonce), a
governance deposit, a reward through `TransferFromCommon`, an accepted and a refused
`AmendCommissionSchedule`, a transfer that runs out of gas, and runtime messages (transfer, escrow,
reclaim, and a refused withdrawal) from account 1. -/
def exGas : TxGas := { limit := 200, size := 100 }
def exBlock : Block :=
  { newEpoch := some 2, proposer := some 0, numEligible := 2, voters := [0], evidence := [0],
    ops := [.tx 1 0 5 exGas (.transfer 0 100), .tx 1 1 0 exGas (.burn 40), .tx 1 2 3 exGas (.addEscrow 0 250),
            .tx 1 3 0 exGas (.reclaimEscrow 0 60), .tx 0 0 1 exGas (.withdraw 1 50), .tx 0 7 0 exGas (.burn 1),
            .govDeposit 1 20, .transferFromCommon 0 300 true,
            .tx 0 1 2 exGas (.amend { rates := [⟨3, 30000⟩], bounds := [⟨5, 10000, 50000⟩] }),
            .tx 0 2 0 exGas (.amend { rates := [⟨4, 100001⟩] }),
            .tx 1 4 7 { limit := 105, size := 100 } (.transfer 0 1),
            .msg 1 (.transfer 0 5), .msg 1 (.addEscrow 0 10), .msg 1 (.reclaimEscrow 0 3), .msg 1 (.withdraw 0 1)] }

example : blockScoped exLedger.n exBlock := by
  refine ⟨?_, ?_, ?_⟩
  · intro p hp; simp [exBlock] at hp; subst hp; decide
  · intro v hv; simp [exBlock] at hv; subst hv; decide
  · intro o ho
    simp [exBlock] at ho
    rcases ho with rfl | rfl | rfl | rfl | rfl | rfl | rfl | rfl | rfl | rfl | rfl | rfl | rfl | rfl | rfl <;>
      simp [opScoped, bodyScoped, msgScoped, exLedger]

example : (match runBlock exLedger exBlock with
    | some l => (l.totalSupply, l.burned, l.lastBlockFees, l.deb.length, invB l)
    | none => (0, 0, 0, 0, false)) = (13516, 40, 12, 1, true) := by decide +kernel

example : (match runBlock exLedger exBlock with
    | some l => ((l.acct 0).schedule.rates.map (·.rate), (l.acct 0).nonce, (l.acct 1).nonce)
    | none => ([], 0, 0)) = ([20000, 30000], 3, 5) := by decide +kernel

/-- The out-of-gas transfer of `exBlock` (limit 105 < 100 bytes · 1 + 10) persists fee and nonce only. -/
example : (applyTx exLedger 1 0 7 { limit := 105, size := 100 } (.transfer 0 1)).2 = some .outOfGas := by decide
example : gas_charged_before_execution exLedger 1 { limit := 105, size := 100 } (.transfer 0 1) (by decide)
    = Or.inl rfl := rfl

/-! ### Reachable pools are well-formed (no balance without shares) -/

/-- Every escrow pool of the ledger is well-formed: a pool without shares has no balance. This is
the premise `WF` of the C15 fairness theorems, and the "no delegations ⇒ zero escrow balance"
clause of the repository's own sanity check. -/
def PoolsWF (l : Ledger) : Prop := ∀ i, WF (l.acct i).active ∧ WF (l.acct i).debonding

/-- `l'` has the same pools as `l`. -/
def SamePools (l l' : Ledger) : Prop :=
  ∀ i, (l'.acct i).active = (l.acct i).active ∧ (l'.acct i).debonding = (l.acct i).debonding

theorem SamePools.wf {l l' : Ledger} (h : SamePools l l') (hw : PoolsWF l) : PoolsWF l' := by
  intro i; rw [(h i).1, (h i).2]; exact hw i

theorem SamePools.refl (l : Ledger) : SamePools l l := fun _ => ⟨rfl, rfl⟩
theorem SamePools.trans {a b c : Ledger} (h1 : SamePools a b) (h2 : SamePools b c) : SamePools a c :=
  fun i => ⟨(h2 i).1.trans (h1 i).1, (h2 i).2.trans (h1 i).2⟩

/-- Closes `SamePools l l'` from `h : f … = .ok l'` when `f` only rewrites general balances, nonces,
allowances and scalars. -/
macro "same_pools" h:ident : tactic => `(tactic|
  (repeat' (first
    | (injection $h:ident with $h:ident; subst $h:ident; intro i;
       simp only [Ledger.setAcct, Ledger.creditGeneral, upd]; (repeat' split) <;> simp_all)
    | (cases $h:ident; done)
    | (split at $h:ident))))

theorem payFee_samePools (l l' : Ledger) (s n f : Nat) (hok : payFee l s n f = .ok l') : SamePools l l' := by
  unfold payFee at hok; dsimp only at hok; same_pools hok

theorem transfer_samePools (l l' : Ledger) (s d a : Nat) (hok : transfer l s d a = .ok l') : SamePools l l' := by
  unfold transfer burnImpl at hok; dsimp only at hok; same_pools hok

theorem burn_samePools (l l' : Ledger) (s a : Nat) (hok : burn l s a = .ok l') : SamePools l l' := by
  unfold burn burnImpl at hok; dsimp only at hok; same_pools hok
theorem allow_samePools (l l' : Ledger) (s b : Nat) (n : Bool) (c : Nat) (hok : allow l s b n c = .ok l') :
    SamePools l l' := by
  unfold allow at hok; dsimp only at hok; same_pools hok
theorem withdraw_samePools (l l' : Ledger) (d s a : Nat) (hok : Ledger.withdraw l d s a = .ok l') :
    SamePools l l' := by
  unfold Ledger.withdraw at hok; dsimp only at hok; same_pools hok
theorem amendCommissionSchedule_samePools (l l' : Ledger) (s : Nat) (am : Schedule)
    (hok : amendCommissionSchedule l s am = .ok l') : SamePools l l' := by
  unfold amendCommissionSchedule at hok; dsimp only at hok; same_pools hok
theorem govDeposit_samePools (l l' : Ledger) (s a : Nat) (hok : govDeposit l s a = .ok l') : SamePools l l' := by
  unfold govDeposit at hok; dsimp only at hok; same_pools hok
theorem govRefund_samePools (l l' : Ledger) (s a : Nat) (hok : govRefund l s a = .ok l') : SamePools l l' := by
  unfold govRefund at hok; same_pools hok
theorem govDiscard_samePools (l l' : Ledger) (a : Nat) (hok : govDiscard l a = .ok l') : SamePools l l' := by
  unfold govDiscard at hok; same_pools hok
theorem payNextProposer_samePools (l l' : Ledger) (p : Option Nat) (a : Nat)
    (hok : payNextProposer l p a = .ok l') : SamePools l l' := by
  unfold payNextProposer at hok; same_pools hok

theorem creditGeneral_samePools (l : Ledger) (a amt : Nat) : SamePools l (l.creditGeneral a amt) := by
  intro i; simp only [Ledger.creditGeneral, Ledger.setAcct, upd]; split <;> simp_all

theorem payVoters_samePools (l l' : Ledger) (share : Nat) (vs : List Nat) (hok : payVoters l share vs = .ok l') :
    SamePools l l' := by
  induction vs generalizing l with
  | nil => simp only [payVoters] at hok; injection hok with hok; subst hok; exact SamePools.refl _
  | cons v vs ih =>
    simp only [payVoters] at hok
    split at hok; · cases hok
    exact (creditGeneral_samePools l v share).trans (ih _ hok)

theorem disburseFeesVQ_samePools (l l' : Ledger) (p : Option Nat) (ne : Nat) (vs : List Nat)
    (hok : disburseFeesVQ l p ne vs = .ok l') : SamePools l l' := by
  unfold disburseFeesVQ at hok; dsimp only at hok
  split at hok; · injection hok with hok; subst hok; exact SamePools.refl _
  split at hok; · cases hok
  split at hok; · cases hok
  unfold vqPay at hok
  simp only at hok
  generalize (if _ ≠ 0 ∧ p.isSome = true then _ else 0) = pNP at hok
  generalize (if _ ≠ 0 then _ * vs.length else 0) = pV at hok
  by_cases hlt : l.lastBlockFees < pNP + pV
  · simp [hlt] at hok
  simp only [hlt, if_false] at hok
  split at hok; · cases hok
  rename_i l1 h1
  split at hok; · cases hok
  rename_i l2 h2
  injection hok with hok; subst hok
  have s1 := payNextProposer_samePools l l1 p _ h1
  have s2 : SamePools l1 l2 := by
    unfold payVotersIf at h2
    split at h2
    · exact payVoters_samePools l1 l2 _ vs h2
    · injection h2 with h2; subst h2; exact SamePools.refl _
  exact fun i => (s1.trans s2) i

theorem disburseFeesP_samePools (l l' : Ledger) (hok : disburseFeesP l = .ok l') : SamePools l l' := by
  unfold disburseFeesP at hok; dsimp only at hok
  split at hok; · injection hok with hok; subst hok; exact fun _ => ⟨rfl, rfl⟩
  split at hok; · cases hok
  split at hok
  · exact fun i => payNextProposer_samePools _ l' _ _ hok i
  · injection hok with hok; subst hok; exact fun _ => ⟨rfl, rfl⟩

/-! Operations that change pools -/

theorem poolsWF_setAcct (l : Ledger) (a : Nat) (x : Account) (h : PoolsWF l) (h1 : WF x.active)
    (h2 : WF x.debonding) : PoolsWF (l.setAcct a x) := by
  intro i
  simp only [Ledger.setAcct, upd]
  split
  · exact ⟨h1, h2⟩
  · exact h i

theorem poolsWF_upd {l' : Ledger} (acct : Nat → Account) (a : Nat) (x : Account)
    (hacct : l'.acct = upd acct a x) (h : ∀ i, WF (acct i).active ∧ WF (acct i).debonding)
    (h1 : WF x.active) (h2 : WF x.debonding) : PoolsWF l' := by
  intro i
  rw [hacct]
  simp only [upd]
  split
  · exact ⟨h1, h2⟩
  · exact h i

theorem addEscrow_wf (l l' : Ledger) (s e a : Nat) (h : PoolsWF l) (hok : addEscrow l s e a = .ok l') :
    PoolsWF l' := by
  unfold addEscrow at hok
  split at hok; · cases hok
  split at hok; · cases hok
  split at hok; · cases hok
  split at hok; · cases hok
  dsimp only at hok
  split at hok; · cases hok
  rename_i r hd
  have hw := deposit_wf _ _ _ _ _ hd (h e).1
  split at hok; · cases hok
  injection hok with hok; subst hok
  split
  · rename_i hse; subst hse
    exact poolsWF_setAcct l s _ h hw (h s).2
  · have h1 : PoolsWF (l.setAcct s { l.acct s with general := r.stakeSrc }) :=
      poolsWF_setAcct l s _ h (h s).1 (h s).2
    exact poolsWF_setAcct _ e _ h1 hw (h e).2

theorem reclaimEscrow_wf (l l' : Ledger) (d e sh : Nat) (h : PoolsWF l) (hok : reclaimEscrow l d e sh = .ok l') :
    PoolsWF l' := by
  unfold reclaimEscrow at hok
  split at hok; · cases hok
  split at hok; · cases hok
  split at hok; · cases hok
  split at hok; · cases hok
  dsimp only at hok
  split at hok; · cases hok
  rename_i r hr
  injection hok with hok; subst hok
  -- reclaim = withdraw from the active pool, deposit into the debonding pool
  unfold reclaim at hr
  split at hr; · cases hr
  rename_i w hw
  dsimp only at hr
  split at hr; · cases hr
  rename_i dp hdp
  split at hr; · cases hr
  injection hr with hr; subst hr
  exact poolsWF_setAcct _ e _ h (withdraw_wf _ _ _ _ _ hw (h e).1) (deposit_wf _ _ _ _ _ hdp (h e).2)

theorem applyTx_wf (l : Ledger) (s n f : Nat) (g : TxGas) (b : TxBody) (h : PoolsWF l) :
    PoolsWF (applyTx l s n f g b).1 := by
  rcases applyTx_cases l s n f g b with ⟨e, h1, he⟩ | ⟨l1, e, h1, h2, he⟩ | ⟨l1, l2, h1, h2, he⟩
  · rw [he]; exact h
  · rw [he]; exact (payFee_samePools l l1 s n f h1).wf h
  · rw [he]
    have w1 := (payFee_samePools l l1 s n f h1).wf h
    cases b with
    | transfer d a => exact (transfer_samePools l1 l2 s d a h2).wf w1
    | burn a => exact (burn_samePools l1 l2 s a h2).wf w1
    | addEscrow e a => exact addEscrow_wf l1 l2 s e a w1 h2
    | reclaimEscrow e sh => exact reclaimEscrow_wf l1 l2 s e sh w1 h2
    | allow bb neg ch => exact (allow_samePools l1 l2 s bb neg ch h2).wf w1
    | withdraw src a => exact (withdraw_samePools l1 l2 s src a h2).wf w1
    | amend am => exact (amendCommissionSchedule_samePools l1 l2 s am h2).wf w1

/-- Reward of one account keeps its pool well-formed provided no reward is paid on an empty
balance (both callers compute the reward as a multiple of the balance). -/
theorem rewardAccount_wf (l l' : Ledger) (ep a q : Nat) (h : PoolsWF l)
    (hq : (l.acct a).active.balance = 0 → q = 0) (hok : rewardAccount l ep a q = .ok l') : PoolsWF l' := by
  unfold rewardAccount at hok
  split at hok; · injection hok with hok; subst hok; exact h
  split at hok; · injection hok with hok; subst hok; exact h
  rename_i hq0 _
  dsimp only at hok
  split at hok; · cases hok
  rename_i com rest hc
  have hb : (l.acct a).active.balance ≠ 0 := fun hb => hq0 (hq hb)
  have hts : (l.acct a).active.totalShares ≠ 0 := fun ht => hb ((h a).1 ht)
  have hw1 : WF { (l.acct a).active with balance := (l.acct a).active.balance + rest } := fun ht => absurd ht hts
  split at hok; · cases hok
  split at hok
  · injection hok with hok; subst hok
    exact poolsWF_upd l.acct a _ rfl h hw1 (h a).2
  · split at hok; · cases hok
    rename_i r hd
    injection hok with hok; subst hok
    exact poolsWF_upd l.acct a _ rfl h (deposit_wf _ _ _ _ _ hd hw1) (h a).2

theorem mul_div_zero_of_zero (b x y d e : Nat) (hb : b = 0) : b * x * y / d = 0 ∧ b * x * y * e / d / e = 0 := by
  subst hb; simp

theorem addRewardSingleAttenuated_wf (l l' : Ledger) (ep f n d a : Nat) (h : PoolsWF l)
    (hok : addRewardSingleAttenuated l ep f n d a = .ok l') : PoolsWF l' := by
  unfold addRewardSingleAttenuated at hok
  split at hok
  · injection hok with hok; subst hok; exact h
  · split at hok; · cases hok
    split at hok; · cases hok
    exact rewardAccount_wf l l' _ a _ h (fun hb => by rw [hb]; simp) hok

theorem addRewardsLoop_wf (l l' : Ledger) (ep f sc : Nat) (as : List Nat) (h : PoolsWF l)
    (hok : addRewardsLoop l ep f sc as = .ok l') : PoolsWF l' := by
  induction as generalizing l with
  | nil => simp only [addRewardsLoop] at hok; injection hok with hok; subst hok; exact h
  | cons a as ih =>
    simp only [addRewardsLoop] at hok
    split at hok; · cases hok
    split at hok; · cases hok
    rename_i l1 h1
    exact ih l1 (rewardAccount_wf l l1 ep a _ h (fun hb => by rw [hb]; simp) h1) hok

theorem addRewards_wf (l l' : Ledger) (ep f : Nat) (as : List Nat) (h : PoolsWF l)
    (hok : addRewards l ep f as = .ok l') : PoolsWF l' := by
  unfold addRewards at hok
  split at hok
  · injection hok with hok; subst hok; exact h
  · exact addRewardsLoop_wf l l' _ _ _ _ h hok

theorem rewardEpochSigning_wf (l l' : Ledger) (ep : Nat) (h : PoolsWF l)
    (hok : rewardEpochSigning l ep = .ok l') : PoolsWF l' := by
  unfold rewardEpochSigning at hok
  dsimp only at hok
  split at hok; · injection hok with hok; subst hok; exact h
  split at hok; · injection hok with hok; subst hok; exact h
  exact addRewards_wf { l with sigTotal := 0, sigBy := fun _ => 0 } l' _ _ _ h hok

theorem slashPool_wf (dst : Nat) (p : SharePool) (amount total : Nat) (h : WF p) :
    WF (slashPool dst p amount total).2 := by
  unfold slashPool
  split
  · exact h
  · intro ht
    simp only [Quantity.moveUpTo] at ht ⊢
    have := h ht
    omega

theorem slashEscrowL_wf (l l' : Ledger) (a amt : Nat) (h : PoolsWF l) (hok : slashEscrowL l a amt = .ok l') :
    PoolsWF l' := by
  unfold slashEscrowL at hok
  split at hok; · cases hok
  dsimp only at hok
  split at hok
  · injection hok with hok; subst hok; exact h
  · injection hok with hok; subst hok
    exact poolsWF_upd l.acct a _ rfl h (slashPool_wf _ _ _ _ (h a).1) (slashPool_wf _ _ _ _ (h a).2)

theorem evidenceLoop_wf (l l' : Ledger) (vs : List Nat) (h : PoolsWF l) (hok : evidenceLoop l vs = .ok l') :
    PoolsWF l' := by
  induction vs generalizing l with
  | nil => simp only [evidenceLoop] at hok; injection hok with hok; subst hok; exact h
  | cons v vs ih =>
    simp only [evidenceLoop] at hok
    split at hok; · cases hok
    rename_i l1 h1
    refine ih l1 ?_ hok
    unfold onEvidence at h1
    split at h1; · injection h1 with h1; subst h1; exact h
    split at h1; · injection h1 with h1; subst h1; exact h
    split at h1; · cases h1
    rename_i l0 h0
    injection h1 with h1; subst h1
    have := slashEscrowL_wf l l0 _ _ h h0
    split
    · exact fun i => this i
    · exact this

theorem debondAll_wf (l l' : Ledger) (es : List DebEntry) (h : PoolsWF l) (hok : debondAll l es = .ok l') :
    PoolsWF l' := by
  induction es generalizing l with
  | nil => simp only [debondAll] at hok; injection hok with hok; subst hok; exact h
  | cons e es ih =>
    simp only [debondAll] at hok
    split at hok; · cases hok
    rename_i l1 h1
    refine ih l1 ?_ hok
    unfold debondEntry at h1
    split at h1; · cases h1
    dsimp only at h1
    split at h1; · cases h1
    rename_i w hw
    have hwf := withdraw_wf _ _ _ _ _ hw (h e.escrow).2
    split at h1
    · injection h1 with h1; subst h1
      exact poolsWF_upd l.acct e.escrow _ rfl h (h e.escrow).1 hwf
    · injection h1 with h1; subst h1
      have s1 : PoolsWF (l.setAcct e.delegator { l.acct e.delegator with
          general := (l.acct e.delegator).general + w.stakeDst }) :=
        poolsWF_setAcct l e.delegator _ h (h e.delegator).1 (h e.delegator).2
      rename_i hne
      have he : (l.setAcct e.delegator { l.acct e.delegator with
          general := (l.acct e.delegator).general + w.stakeDst }).acct e.escrow = l.acct e.escrow := by
        simp only [Ledger.setAcct, upd]
        split
        · rename_i heq; exact absurd heq.symm hne
        · rfl
      exact poolsWF_upd _ e.escrow _ rfl s1 (h e.escrow).1 hwf

theorem transferFromCommon_wf (l l' : Ledger) (d amt : Nat) (e : Bool) (h : PoolsWF l)
    (hok : transferFromCommon l d amt e = .ok l') : PoolsWF l' := by
  unfold transferFromCommon at hok
  split at hok; · cases hok
  dsimp only at hok
  split at hok; · injection hok with hok; subst hok; exact h
  split at hok
  · injection hok with hok; subst hok
    exact poolsWF_upd l.acct d _ rfl h (h d).1 (h d).2
  · split at hok; · cases hok
    rename_i gen pool com hs1
    have hpool : WF pool := by
      split at hs1
      · rename_i hts
        split at hs1; · cases hs1
        split at hs1; · cases hs1
        injection hs1 with hs1
        injection hs1 with _ hs1
        injection hs1 with hs1 _
        subst hs1
        intro ht; exact absurd ht hts
      · injection hs1 with hs1
        injection hs1 with _ hs1
        injection hs1 with hs1 _
        subst hs1
        exact (h d).1
    split at hok
    · injection hok with hok; subst hok
      exact poolsWF_upd l.acct d _ rfl h hpool (h d).2
    · split at hok; · cases hok
      rename_i r hd
      injection hok with hok; subst hok
      exact poolsWF_upd l.acct d _ rfl h (deposit_wf _ _ _ _ _ hd hpool) (h d).2

theorem execMsg_wf (l l' : Ledger) (rt : Nat) (m : MsgBody) (h : PoolsWF l) (hok : execMsg l rt m = .ok l') :
    PoolsWF l' := by
  cases m with
  | transfer dst amount => exact (transfer_samePools l l' rt dst amount hok).wf h
  | withdraw src amount => exact (withdraw_samePools l l' rt src amount hok).wf h
  | addEscrow e amount =>
    simp only [execMsg] at hok
    split at hok; · cases hok
    exact addEscrow_wf l l' rt e amount h hok
  | reclaimEscrow e shares =>
    simp only [execMsg] at hok
    split at hok; · cases hok
    split at hok; · cases hok
    exact reclaimEscrow_wf l l' rt e shares h hok

theorem applyOp_wf (l : Ledger) (o : Op) (h : PoolsWF l) : PoolsWF (applyOp l o) := by
  cases o with
  | tx s n f g b => exact applyTx_wf l s n f g b h
  | msg rt m =>
    simp only [applyOp]; cases hr : execMsg l rt m with
    | error e => exact h
    | ok l' => exact execMsg_wf l l' rt m h hr
  | slash a amt =>
    simp only [applyOp]; cases hr : slashEscrowL l a amt with
    | error e => exact h
    | ok l' => exact slashEscrowL_wf l l' a amt h hr
  | transferFromCommon d amt e =>
    simp only [applyOp]; cases hr : transferFromCommon l d amt e with
    | error e => exact h
    | ok l' => exact transferFromCommon_wf l l' d amt e h hr
  | addRewards ep f as =>
    simp only [applyOp]; cases hr : addRewards l ep f as with
    | error e => exact h
    | ok l' => exact addRewards_wf l l' ep f as h hr
  | govDeposit s amt =>
    simp only [applyOp]; cases hr : govDeposit l s amt with
    | error e => exact h
    | ok l' => exact (govDeposit_samePools l l' s amt hr).wf h
  | govRefund d amt =>
    simp only [applyOp]; cases hr : govRefund l d amt with
    | error e => exact h
    | ok l' => exact (govRefund_samePools l l' d amt hr).wf h
  | govDiscard amt =>
    simp only [applyOp]; cases hr : govDiscard l amt with
    | error e => exact h
    | ok l' => exact (govDiscard_samePools l l' amt hr).wf h

theorem ops_wf (l : Ledger) (ops : List Op) (h : PoolsWF l) : PoolsWF (ops.foldl applyOp l) := by
  induction ops generalizing l with
  | nil => exact h
  | cons o os ih => exact ih _ (applyOp_wf l o h)

theorem runBlock_wf (l l' : Ledger) (b : Block) (h : PoolsWF l) (hok : runBlock l b = some l') : PoolsWF l' := by
  unfold runBlock at hok
  dsimp only at hok
  have h0 : PoolsWF (startBlock l b.newEpoch) := by
    unfold startBlock; split
    · exact fun i => h i
    · exact h
  split at hok; · cases hok
  rename_i l1 h1
  have w1 : PoolsWF l1 := by
    unfold beginBlock at h1
    split at h1; · cases h1
    rename_i la ha
    have wa := (disburseFeesVQ_samePools _ la _ _ _ ha).wf h0
    dsimp only at h1
    split at h1; · cases h1
    rename_i lb hb
    have wb : PoolsWF lb := by
      split at hb
      · injection hb with hb; subst hb; exact fun i => wa i
      · exact addRewardSingleAttenuated_wf { la with proposer := b.proposer } lb _ _ _ _ _ (fun i => wa i) hb
    exact evidenceLoop_wf (updateEpochSigning lb b.voters) l1 _ (fun i => wb i) h1
  split at hok; · cases hok
  rename_i l2 h2
  injection hok with hok; subst hok
  have w2 := ops_wf l1 b.ops w1
  unfold endBlock at h2
  split at h2; · cases h2
  rename_i lc hc
  have wc := (disburseFeesP_samePools _ lc hc).wf w2
  dsimp only at h2
  split at h2; · cases h2
  rename_i ld hd
  injection h2 with h2; subst h2
  have wd : PoolsWF ld := by
    split at hd
    · unfold onEpochChange at hd
      split at hd; · cases hd
      rename_i le hle
      exact rewardEpochSigning_wf le ld _ (debondAll_wf lc le _ wc hle) hd
    · injection hd with hd; subst hd; exact wc
  exact fun i => wd i

/-- **Every pool of every reachable ledger is well-formed**, so the hypotheses of the C15 fairness
theorems hold for all escrow pools that can ever occur. -/
theorem runChain_wf (l : Ledger) (bs : List Block) (h : PoolsWF l) : PoolsWF (runChain l bs) := by
  induction bs generalizing l with
  | nil => exact h
  | cons b bs ih =>
    simp only [runChain]
    cases h1 : runBlock l b with
    | none => exact h
    | some l1 => exact ih l1 (runBlock_wf l l1 b h h1)

/-- The executable check `wfB` (evaluated on every dumped real ledger, and part of the genesis gate)
is well-formedness of the pools of the accounts in range. -/
theorem poolsWF_of_wfB (l : Ledger) (h : wfB l = true)
    (hout : ∀ i, l.n ≤ i → (l.acct i).active.balance = 0 ∧ (l.acct i).debonding.balance = 0) : PoolsWF l := by
  intro i
  by_cases hi : i < l.n
  · simp only [wfB, List.all_eq_true, List.mem_range, Bool.and_eq_true, Bool.or_eq_true, bne_iff_ne,
      beq_iff_eq] at h
    obtain ⟨h1, h2⟩ := h i hi
    constructor
    · intro ht; rcases h1 with h1 | h1
      · exact absurd ht h1
      · exact h1
    · intro ht; rcases h2 with h2 | h2
      · exact absurd ht h2
      · exact h2
  · obtain ⟨h1, h2⟩ := hout i (by omega)
    exact ⟨fun _ => h1, fun _ => h2⟩

example : PoolsWF exLedger := by
  apply poolsWF_of_wfB _ (by decide)
  intro i hi
  have h3 : 3 ≤ i := hi
  have : ¬ i = 0 := by omega
  have : ¬ i = 1 := by omega
  simp [exLedger, *]

end OasisProofs.C05
