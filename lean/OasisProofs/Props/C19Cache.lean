import OasisModel.Stateless.Cache
import OasisProofs.Helpers.StatelessCache
import OasisProofs.Props.C19
/-
C19 (caches) — the stateless node's `stateRootCache` and `resultsHashCache` never bind a height to a
value that belongs to another height.

`Props/C19.lean` proves that every *single* verification call binds the response to the values it is
given (`results_bound`: the next verified header's `LastResultsHash`; `state_root_bound`).  Between
calls `stateless.Core` keeps those values in two LRU caches keyed by height (core.go:59-60).  This
file is about the caches: the model is `OasisModel/Stateless/Cache.lean` (every cache READ and WRITE
of core.go with its line: `Get` :803 / `Put` :812 for state roots, `Get` :877 / `Put` :886 for
results hashes, the read by `verifyBlockResults` :628, the latest-height exception :619-626), the
theorems quantify over **every history** of `StateRoot` / `GetBlockResults` calls, every environment
of every call (what the light client can serve at that moment, the last trusted height, every answer
of the untrusted provider), every chain `hdr`, every library instance `L` and hash `H`.

* `cache_coherent_general` — no hypothesis: every entry `stateRootCache[h]` is `(hdr (h+1)).appHash`
  or the state root carried by the last transaction of a list hashing to `(hdr h).dataHash`; every
  entry `resultsHashCache[h]` is `(hdr (h+1)).lastResultsHash`.
* `cache_coherent` — the invariant of the property: `stateRootCache[h] = (hdr (h+1)).appHash` and
  `resultsHashCache[h] = (hdr (h+1)).lastResultsHash`, under `MetaConsistent` (the chain's metadata
  transactions carry the app hash of the next header), which `meta_consistency_needed` shows cannot
  be dropped (the fallback core.go:824 files the metadata transaction's root).
* `results_bound_via_cache`, `get_block_results_bound`, `results_via_cache_eq_uncached`,
  `results_bound_via_cache_c19` — acceptance through the cache binds the results to the hash that
  header `h+1` commits for `h`; the cache never changes a verdict of the cache-free model of
  `Verify.lean`, and the conclusion of `C19.results_bound` holds verbatim.
* `misfiled_results_hash_accepts_foreign_results` — the seeded variant (`Put(height+1, …)`).
-/
namespace OasisProofs.C19Cache
open OasisModel.Stateless (Bytes Header Lib BlockResults ResultsMeta RV LightClient verifyTransactions
  stateRootFromBlockTxs verifyBlockResultsPure)
open OasisModel.Stateless.Cache
open OasisProofs.StatelessCache

variable {Sig Ev P : Type}

/-! ## (1) The cache invariant over every history -/

/-- **cache_coherent_general** (no hypothesis on chain, library or hash).  After every history of
calls from the freshly constructed node, every entry of `stateRootCache` under height `h` is the app
hash of the verified header `h+1` or the state root of the verified transaction list of block `h`
(the two sources of core.go:816-825), and every entry of `resultsHashCache` under `h` is the
`LastResultsHash` of the verified header `h+1`. -/
theorem cache_coherent_general (L : Lib Sig Ev P) (H : Bytes → Bytes) (ch : Chain) (ops : List Op) :
    (∀ h v, (h, v) ∈ (run L H ch Core.new ops).stateRootCache.entries → StateRootBound L H ch h v) ∧
    (∀ h v, (h, v) ∈ (run L H ch Core.new ops).resultsHashCache.entries →
      v = (ch.hdr (h + 1)).lastResultsHash) :=
  run_coherentG ops _ (coherentG_new L H ch)

/-- The results-hash half needs no hypothesis at all. -/
theorem results_cache_coherent (L : Lib Sig Ev P) (H : Bytes → Bytes) (ch : Chain) (ops : List Op)
    (h : Nat) (v : Bytes) (hv : (run L H ch Core.new ops).resultsHashCache.peek h = some v) :
    v = (ch.hdr (h + 1)).lastResultsHash :=
  (cache_coherent_general L H ch ops).2 h v (peek_mem hv)

/-- **cache_coherent.**  For every history of calls: every entry `stateRootCache[h]` equals
`(hdr (h+1)).appHash` and every entry `resultsHashCache[h]` equals `(hdr (h+1)).lastResultsHash` —
the value bound to height `h` by the verified header `h+1`, never a value of another height.
Hypothesis: `MetaConsistent` (needed for the state-root half only, see `meta_consistency_needed`). -/
theorem cache_coherent (L : Lib Sig Ev P) (H : Bytes → Bytes) (ch : Chain) (mc : MetaConsistent L H ch)
    (ops : List Op) : Coherent ch (run L H ch Core.new ops) :=
  coherent_of_general mc (run_coherentG ops _ (coherentG_new L H ch))

/-- The invariant is inductive: it is kept from *any* coherent state, not only from the empty one. -/
theorem cache_coherent_from (L : Lib Sig Ev P) (H : Bytes → Bytes) (ch : Chain) (mc : MetaConsistent L H ch)
    (c : Core) (hc : Coherent ch c) (ops : List Op) : Coherent ch (run L H ch c ops) :=
  coherent_of_general mc (run_coherentG ops c (general_of_coherent hc))

/-- `cache_coherent` for what a later `Get` can return (`Peek`). -/
theorem cache_coherent_lookup (L : Lib Sig Ev P) (H : Bytes → Bytes) (ch : Chain) (mc : MetaConsistent L H ch)
    (ops : List Op) (h : Nat) (v : Bytes) :
    ((run L H ch Core.new ops).stateRootCache.peek h = some v → v = (ch.hdr (h + 1)).appHash) ∧
    ((run L H ch Core.new ops).resultsHashCache.peek h = some v → v = (ch.hdr (h + 1)).lastResultsHash) :=
  ⟨fun hv => (cache_coherent L H ch mc ops).1 h v (peek_mem hv),
   fun hv => (cache_coherent L H ch mc ops).2 h v (peek_mem hv)⟩

/-- What `StateRoot(ctx, req)` answers after any history: the resolved height `h` (the `Version` of
the returned root, core.go:470-474) and a hash bound to `h` — whether it came from the cache (:803)
or was fetched (:807). -/
theorem state_root_via_cache (L : Lib Sig Ev P) (H : Bytes → Bytes) (ch : Chain) (ops : List Op)
    (e : Env) (req h : Nat) (v : Bytes)
    (hans : (stateRootAPI L H ch e (run L H ch Core.new ops) req).1 = some (h, v)) :
    resolveHeight e req = some h ∧ StateRootBound L H ch h v ∧
    (MetaConsistent L H ch → v = (ch.hdr (h + 1)).appHash) := by
  have inv := run_coherentG (L := L) (H := H) (ch := ch) ops _ (coherentG_new L H ch)
  obtain ⟨h1, h2⟩ := (stateRootAPI_step (e := e) (req := req) inv).2 h v hans
  refine ⟨h1, h2, fun mc => ?_⟩
  rcases h2 with e1 | ⟨txs, t1, t2⟩
  · exact e1
  · exact mc h txs v t1 t2

/-- The LRU bookkeeping along every history: each cache has one entry per height and never more
than 128 entries (`lru.Capacity(128, false)`, core.go:40-43, :83-84) — entries leave the caches
(eviction, lru.go:165), which `cache_coherent` is insensitive to: what remains is still bound. -/
theorem cache_bounded (L : Lib Sig Ev P) (H : Bytes → Bytes) (ch : Chain) (ops : List Op) :
    ((run L H ch Core.new ops).stateRootCache.entries.map Prod.fst).Nodup ∧
    (run L H ch Core.new ops).stateRootCache.entries.length ≤ 128 ∧
    ((run L H ch Core.new ops).resultsHashCache.entries.map Prod.fst).Nodup ∧
    (run L H ch Core.new ops).resultsHashCache.entries.length ≤ 128 := by
  obtain ⟨w1, w2, c1, c2⟩ := run_wf (L := L) (H := H) (ch := ch) ops _ coreWF_new
  exact ⟨w1.1, by have := w1.2 (by omega); omega, w2.1, by have := w2.2 (by omega); omega⟩

/-! ## (2) Acceptance through the cache -/

/-- **results_bound_via_cache.**  After every history, results for height `h` below the latest
trusted height that `(*Core).verifyBlockResults` accepts — the results hash read through
`resultsHashCache` (core.go:628 → :877) — have the height of the light block, decode, and their
deterministic parts hash to the `LastResultsHash` of the *verified header `h+1`*: the hash the chain
commits for block `h`.  No assumption that the light client can serve `h+1` at the time of the call
(a cache hit answers without it). -/
theorem results_bound_via_cache (L : Lib Sig Ev P) (H : Bytes → Bytes) (ch : Chain) (ops : List Op)
    (e : Env) (r : BlockResults) (h last : Nat) (m : ResultsMeta Ev)
    (hlast : e.last = some last) (hbelow : h < last)
    (hacc : (verifyBlockResults L H ch e (run L H ch Core.new ops) r h).1 = (.ok, some m)) :
    r.height = (ch.hdr h).height ∧ L.decResults r.metaB = some m ∧
    OasisModel.Stateless.resultsHash L H m = (ch.hdr (h + 1)).lastResultsHash := by
  have inv := run_coherentG (L := L) (H := H) (ch := ch) ops _ (coherentG_new L H ch)
  rcases verifyBlockResults_below (L := L) (H := H) (r := r) inv.2 hlast hbelow with hf | hp
  · rw [hf] at hacc; cases hacc
  · rw [hp] at hacc
    exact (pure_ok_iff L H r _ _ m).1 hacc

/-- The documented exception (core.go:613-626) through the cached entry point: at or above the
latest trusted height nothing but the height and the decoding is checked, and *the cache is neither
read nor written*. -/
theorem results_latest_unverified_via_cache (L : Lib Sig Ev P) (H : Bytes → Bytes) (ch : Chain) (e : Env)
    (c : Core) (r : BlockResults) (h last : Nat) (m : ResultsMeta Ev)
    (hlast : e.last = some last) (hlatest : last ≤ h)
    (hh : r.height = (ch.hdr h).height) (hm : L.decResults r.metaB = some m) :
    verifyBlockResults L H ch e c r h = ((.ok, some m), c) :=
  verifyWith_latest hlast hlatest hh hm

/-- **get_block_results_bound.**  What `GetBlockResults(ctx, req)` returns after any history: the
provider's answer for the resolved height `h`, whose light block was verified now; it has height `h`
and decodes; and, unless `h` is at or above the latest trusted height (the exception), its
deterministic parts hash to `(hdr (h+1)).lastResultsHash`. -/
theorem get_block_results_bound (L : Lib Sig Ev P) (H : Bytes → Bytes) (ch : Chain) (wf : ChainWF ch)
    (ops : List Op) (e : Env) (req : Nat) (resp : Nat → Option BlockResults)
    (h : Nat) (r : BlockResults) (m : ResultsMeta Ev)
    (hacc : (getBlockResults L H ch e (run L H ch Core.new ops) req resp).1 = some (h, r, m)) :
    resolveHeight e req = some h ∧ e.avail h = true ∧ resp h = some r ∧
    r.height = (h : Int) ∧ L.decResults r.metaB = some m ∧
    ∃ last, e.last = some last ∧
      (h < last → OasisModel.Stateless.resultsHash L H m = (ch.hdr (h + 1)).lastResultsHash) := by
  obtain ⟨h1, h2, h3, h4⟩ := getWith_some hacc
  refine ⟨h1, h2, h3, ?_⟩
  cases hl : e.last with
  | none => simp [verifyBlockResultsWith, hl] at h4
  | some last =>
    by_cases hb : h < last
    · have := results_bound_via_cache L H ch ops e r h last m hl hb h4
      exact ⟨by rw [this.1, wf h], this.2.1, last, rfl, fun _ => this.2.2⟩
    · have hle : last ≤ h := by omega
      simp only [verifyBlockResultsWith, hl, hle, if_true] at h4
      split at h4
      · cases h4
      · rename_i hh
        split at h4
        · cases h4
        · rename_i m' hm'
          simp only [Prod.mk.injEq, Option.some.injEq, true_and] at h4
          subst h4
          refine ⟨?_, hm', last, rfl, fun hc => absurd hc hb⟩
          have : r.height = (ch.hdr h).height := by simpa using hh
          rw [this, wf h]

/-- **The cache is transparent.**  In every coherent state (in particular after every history),
whenever the light client can serve header `h+1`, the verdict of the cached
`(*Core).verifyBlockResults` is the verdict of the cache-free model `Stateless.verifyBlockResults` of
`Verify.lean` — the function the theorems of `Props/C19.lean` are about — for the light client that
the chain and the environment present. -/
theorem results_via_cache_eq_uncached (L : Lib Sig Ev P) (H : Bytes → Bytes) (ch : Chain) (wf : ChainWF ch)
    (c : Core) (inv : ∀ k v, (k, v) ∈ c.resultsHashCache.entries → v = (ch.hdr (k + 1)).lastResultsHash)
    (e : Env) (r : BlockResults) (h : Nat) (ha : e.avail (h + 1) = true) :
    (verifyBlockResults L H ch e c r h).1 =
      OasisModel.Stateless.verifyBlockResults L H (lightClientOf ch e) r (ch.hdr h) := by
  cases hl : e.last with
  | none => simp [verifyBlockResults, verifyBlockResultsWith, OasisModel.Stateless.verifyBlockResults, lightClientOf, hl]
  | some last =>
    have hlc : (lightClientOf ch e).last = some (last : Int) := by simp [lightClientOf, hl]
    by_cases hle : last ≤ h
    · have hle' : (last : Int) ≤ (ch.hdr h).height := by rw [wf h]; exact_mod_cast hle
      simp only [verifyBlockResults, verifyBlockResultsWith, OasisModel.Stateless.verifyBlockResults, hl, hlc,
        hle, hle', if_true]
      by_cases hh : r.height ≠ (ch.hdr h).height
      · simp [hh]
      · cases hd : L.decResults r.metaB <;> simp [hh]
    · have hle' : ¬ (last : Int) ≤ (ch.hdr h).height := by rw [wf h]; exact_mod_cast hle
      have hb : h < last := by omega
      have hsome := resultsHash_some (e := e) (k := h) inv ha
      cases hq : OasisModel.Stateless.Cache.resultsHash ch e c h with
      | mk o c' =>
        rw [hq] at hsome
        simp only at hsome
        subst hsome
        unfold verifyBlockResults
        rw [verifyWith_below hl hb hq]
        simp only [OasisModel.Stateless.verifyBlockResults, hlc, hle', if_false, lightClientOf_next ch wf e h ha]

/-- **results_bound_via_cache, in the words of `C19.results_bound`.**  After every history, results
accepted through the cache below the latest trusted height satisfy the conclusion of
`C19.results_bound` for the light block `hdr h` and the light client of the moment: the next trusted
header exists and its `LastResultsHash` is the hash of the accepted results.  (Here the light client
must be able to serve `h+1`, because the conclusion of `C19.results_bound` speaks about
`lc.trusted (lb.height + 1)`; `results_bound_via_cache` does not need it.) -/
theorem results_bound_via_cache_c19 (L : Lib Sig Ev P) (H : Bytes → Bytes) (ch : Chain) (wf : ChainWF ch)
    (ops : List Op) (e : Env) (r : BlockResults) (h last : Nat) (m : ResultsMeta Ev)
    (hlast : e.last = some last) (hbelow : h < last) (ha : e.avail (h + 1) = true)
    (hacc : (verifyBlockResults L H ch e (run L H ch Core.new ops) r h).1 = (.ok, some m)) :
    r.height = (ch.hdr h).height ∧ L.decResults r.metaB = some m ∧
    ∃ nxt, (lightClientOf ch e).trusted ((ch.hdr h).height + 1) = some nxt ∧
      OasisModel.Stateless.resultsHash L H m = nxt.lastResultsHash := by
  have inv := (cache_coherent_general L H ch ops).2
  rw [results_via_cache_eq_uncached L H ch wf _ inv e r h ha] at hacc
  refine C19.results_bound L H (lightClientOf ch e) r (ch.hdr h) (last : Int) m (by simp [lightClientOf, hlast]) ?_ hacc
  rw [wf h]; exact_mod_cast hbelow

/-! ## (3) The seeded variant: `resultsHashCache.Put(height+1, hash)` -/

/-- **misfiled_results_hash_accepts_foreign_results.**  The variant of `resultsHash` that files
`(hdr (h+1)).lastResultsHash` under `h+1` instead of `h` (`resultsHashMisfiled`: core.go:886 with
`height+1`).  History: a state-root lookup for `h` (it verifies header `h+1`, fills the state-root
cache and — as in the code — leaves the results cache alone), then a results lookup for `h` with the
genuine results `r₀` of block `h` (accepted, correctly: the hash is fetched from header `h+1` — and
misfiled).  Afterwards, for height `h+1` (below the latest trusted height, in *any* environment
`e'`), the variant

* **accepts** the results of block `h` relabelled as height `h+1`, and
* **rejects** the genuine results `r₁` of block `h+1`,

whereas the code as it is, on the same history, rejects the relabelled results (last conjunct).
All for every chain, height, library and hash; the only assumptions are that `r₀`/`r₁` are genuine
and that blocks `h` and `h+1` have different results hashes. -/
theorem misfiled_results_hash_accepts_foreign_results
    (L : Lib Sig Ev P) (H : Bytes → Bytes) (ch : Chain) (wf : ChainWF ch)
    (eS e e' : Env) (h last last' : Nat) (r₀ r₁ : BlockResults) (m₀ m₁ : ResultsMeta Ev)
    (h0 : h ≠ 0)
    -- the first results lookup: header h and h+1 can be served, h is below the latest trusted height
    (ha : e.avail h = true) (ha1 : e.avail (h + 1) = true) (hlast : e.last = some last) (hbelow : h < last)
    -- the later lookup for h+1
    (ha' : e'.avail (h + 1) = true) (hlast' : e'.last = some last') (hbelow' : h + 1 < last')
    -- r₀ is the genuine answer for block h, r₁ the genuine answer for block h+1
    (g0h : r₀.height = (h : Int)) (g0d : L.decResults r₀.metaB = some m₀)
    (g0r : OasisModel.Stateless.resultsHash L H m₀ = (ch.hdr (h + 1)).lastResultsHash)
    (g1h : r₁.height = ((h + 1 : Nat) : Int)) (g1d : L.decResults r₁.metaB = some m₁)
    (g1r : OasisModel.Stateless.resultsHash L H m₁ = (ch.hdr (h + 2)).lastResultsHash)
    (hdiff : (ch.hdr (h + 2)).lastResultsHash ≠ (ch.hdr (h + 1)).lastResultsHash) :
    let relabelled : BlockResults := { r₀ with height := ((h + 1 : Nat) : Int) }
    let hist : List Op := [.stateRoot eS h, .blockResults e h (fun _ => some r₀)]
    let cM := runMisfiled L H ch Core.new hist
    let cG := run L H ch Core.new hist
    -- the variant accepted the genuine results of h during the history …
    (getBlockResultsWith resultsHashMisfiled L H ch e (stepMisfiled L H ch Core.new (.stateRoot eS h)) h
        (fun _ => some r₀)).1 = some (h, r₀, m₀) ∧
    -- … and now accepts block h's results as those of h+1 and rejects the genuine ones
    (getBlockResultsWith resultsHashMisfiled L H ch e' cM (h + 1) (fun _ => some relabelled)).1
        = some (h + 1, relabelled, m₀) ∧
    (getBlockResultsWith resultsHashMisfiled L H ch e' cM (h + 1) (fun _ => some r₁)).1 = none ∧
    -- the code as it is rejects the relabelled results
    (getBlockResults L H ch e' cG (h + 1) (fun _ => some relabelled)).1 = none := by
  intro relabelled hist cM cG
  -- the state after the state-root lookup: results cache untouched, i.e. empty
  have hS : (stepMisfiled L H ch Core.new (.stateRoot eS h)).resultsHashCache = Lru.new 128 := by
    show (stateRootAPI L H ch eS Core.new h).2.resultsHashCache = _
    simp only [stateRootAPI, resolve_nonzero h0]
    have := (stateRoot_step (L := L) (H := H) (ch := ch) (e := eS) (c := Core.new) (k := h)
      (resolve_nonzero h0) (coherentG_new L H ch)).2.1
    cases hq : stateRoot L H ch eS Core.new h with
    | mk o c1 =>
      rw [hq] at this
      cases o <;> exact this
  have hmiss : (stepMisfiled L H ch Core.new (.stateRoot eS h)).resultsHashCache.peek h = none := by
    rw [hS]; rfl
  have hlb : lightBlock ch e h = some (h, ch.hdr h) := lightBlock_of h0 ha
  have hlb' : lightBlock ch e' (h + 1) = some (h + 1, ch.hdr (h + 1)) := lightBlock_of (by omega) ha'
  -- first results lookup of the variant
  have hv1 := verifyWith_below (L := L) (H := H) (r := r₀) hlast hbelow (misfiled_miss (ch := ch) hmiss ha1)
  have hp1 : verifyBlockResultsPure L H r₀ (ch.hdr (h + 1)).lastResultsHash (ch.hdr h) = (.ok, some m₀) :=
    (pure_ok_iff L H r₀ _ _ m₀).2 ⟨by rw [g0h, wf h], g0d, g0r⟩
  rw [hp1] at hv1
  have hget1 := getWith_accept (resp := fun _ => some r₀) hlb rfl hv1
  have hcM : cM = { stepMisfiled L H ch Core.new (.stateRoot eS h) with
      resultsHashCache := (stepMisfiled L H ch Core.new (.stateRoot eS h)).resultsHashCache.put (h + 1)
        (ch.hdr (h + 1)).lastResultsHash } := by
    show stepMisfiled L H ch (stepMisfiled L H ch Core.new (.stateRoot eS h)) (.blockResults e h _) = _
    show (getBlockResultsWith resultsHashMisfiled L H ch e _ h _).2 = _
    rw [hget1]
  have hpeek : cM.resultsHashCache.peek (h + 1) = some (ch.hdr (h + 1)).lastResultsHash := by
    rw [hcM]; exact put_peek _ _ _
  refine ⟨by rw [hget1], ?_, ?_, ?_⟩
  · -- relabelled results accepted
    have hv := verifyWith_below (L := L) (H := H) (r := relabelled) hlast' hbelow'
      (misfiled_hit (ch := ch) (e := e') hpeek)
    have hp : verifyBlockResultsPure L H relabelled (ch.hdr (h + 1)).lastResultsHash (ch.hdr (h + 1))
        = (.ok, some m₀) :=
      (pure_ok_iff L H relabelled _ _ m₀).2 ⟨by rw [wf (h + 1)], g0d, g0r⟩
    rw [hp] at hv
    rw [getWith_accept (resp := fun _ => some relabelled) hlb' rfl hv]
  · -- genuine results of h+1 rejected
    have hv := verifyWith_below (L := L) (H := H) (r := r₁) hlast' hbelow'
      (misfiled_hit (ch := ch) (e := e') hpeek)
    rw [pure_hash_mismatch L H r₁ _ _ m₁ (by rw [g1h, wf (h + 1)]) g1d (by rw [g1r]; exact hdiff)] at hv
    rw [getWith_reject (resp := fun _ => some r₁) hlb' rfl hv]
  · -- the genuine code: by `results_bound_via_cache` an acceptance would need the hash of header h+2
    cases hq : (getBlockResults L H ch e' cG (h + 1) (fun _ => some relabelled)).1 with
    | none => rfl
    | some t =>
      exfalso
      obtain ⟨k, r, m⟩ := t
      obtain ⟨q1, _, q3, q4⟩ := getWith_some hq
      rw [resolve_nonzero (by omega)] at q1
      cases q1
      cases q3
      have hb := results_bound_via_cache L H ch hist e' relabelled (h + 1) last' m hlast' hbelow' q4
      have : m = m₀ := by
        have := hb.2.1
        rw [show L.decResults relabelled.metaB = L.decResults r₀.metaB from rfl, g0d] at this
        exact (Option.some.inj this).symm
      subst this
      exact hdiff (hb.2.2.symm.trans g0r)

/-! ## The hypothesis `MetaConsistent` is necessary -/

section NonVacuity
open OasisModel.Stateless.Merkle OasisProofs.StatelessMerkle

/-- A chain with `H = id` as "hash" (injective, so honest bindings are provable): header `h` has app
hash `32 × h`, its data hash is the root of the one-transaction list `[appHash (h+1)]` (the metadata
transaction, which `C19.toyLib` decodes to itself), and its `LastResultsHash` is the results hash of
the genuine results `metaB = [h-1]` of block `h-1` under `C19.toyLib`. -/
def toyChain : Chain where
  hdr h :=
    { height := h, time := ⟨0, 0⟩, appHash := List.replicate 32 (UInt8.ofNat h),
      dataHash := 0 :: List.replicate 32 (UInt8.ofNat (h + 1)),
      lastCommitHash := [], lastBlockID := [], consensusHash := [], nextValidatorsHash := [],
      lastResultsHash := [0, 0, UInt8.ofNat (h - 1)], other := [] }

theorem toyChain_wf : ChainWF toyChain := fun _ => rfl

/-- `toyChain` satisfies `MetaConsistent` (honestly: a list hashing to the data hash *is* the
one-transaction list with the metadata transaction of the block). -/
theorem toyChain_metaConsistent : MetaConsistent C19.toyLib id toyChain := by
  intro h txs r hv hs
  simp only [verifyTransactions, txRoot, List.map_id_fun, id_eq, beq_iff_eq] at hv
  by_cases h2 : 2 ≤ txs.length
  · rw [root_ge2 id txs h2] at hv
    simp [innerHash, toyChain] at hv
  · rcases lt2_cases txs h2 with rfl | ⟨x, rfl⟩
    · simp [root_nil, emptyHash, toyChain] at hv
    · simp only [root_single, leafHash, id_eq, toyChain, List.cons.injEq, true_and] at hv
      subst hv
      simp only [stateRootFromBlockTxs, List.getLast?_singleton, C19.toyLib, Option.some.injEq] at hs
      subst hs
      rfl

/-- An environment in which the light client serves exactly the heights in `l`. -/
def toyEnv (l : List Nat) (last : Option Nat) (txs : Nat → Option (List Bytes)) : Env :=
  { avail := fun h => l.contains h, last := last, watching := false, providerLatest := none, txs := txs }

/-- `toyChain` with the metadata transaction of every block carrying the root `[7]`, which is not
the app hash of the next header. -/
def badChain : Chain where
  hdr h := { toyChain.hdr h with dataHash := [0, 7] }

/-- **meta_consistency_needed.**  Without `MetaConsistent` the state-root half of `cache_coherent`
fails: when header 6 cannot be served, `StateRoot(5)` falls back to the metadata transaction
(core.go:824) and files its root under 5 (core.go:812) — an entry that is not `(hdr 6).appHash`
(it is still bound to header 5, as `cache_coherent_general` says). -/
theorem meta_consistency_needed :
    ∃ (ch : Chain) (ops : List Op) (h : Nat) (v : Bytes),
      (h, v) ∈ (run C19.toyLib id ch Core.new ops).stateRootCache.entries ∧
      v ≠ (ch.hdr (h + 1)).appHash := by
  refine ⟨badChain, [.stateRoot (toyEnv [5] none (fun _ => some [[7]])) 5], 5, [7], ?_, by decide⟩
  simp [run, step, stateRootAPI, resolveHeight, stateRoot, Core.new, Lru.new, Lru.get, Lru.peek, Lru.put,
    Lru.without, OasisModel.Stateless.Cache.fetchStateRoot, fetchStateRootFromLightBlock, fetchStateRootFromMetaTx,
    OasisModel.Stateless.Cache.getTransactions, lightBlock, toyEnv, verifyTransactions, txRoot, root_single, leafHash,
    badChain, stateRootFromBlockTxs, C19.toyLib]

/-! ## (4) Non-vacuity -/

/-- Everything the light client serves at heights 5, 6, 7; last trusted height 7; the provider's
transactions are the honest one-transaction lists. -/
def e567 : Env := toyEnv [5, 6, 7] (some 7) (fun h => some [List.replicate 32 (UInt8.ofNat (h + 1))])

/-- The genuine results of block `k` for `C19.toyLib`. -/
def genuine (k : Nat) : BlockResults := { height := k, metaB := [UInt8.ofNat k] }

/-- the meta that `C19.toyLib` decodes from `genuine k` -/
def genuineMeta (k : Nat) : ResultsMeta Unit :=
  { txs := [{ code := 0, data := [UInt8.ofNat k], gasWanted := 1, gasUsed := 1, log := [], info := [],
              codespace := [], events := () }], beginEvents := (), endEvents := () }

theorem genuine_dec (k : Nat) : C19.toyLib.decResults (genuine k).metaB = some (genuineMeta k) := rfl

theorem genuine_hash (k : Nat) :
    OasisModel.Stateless.resultsHash C19.toyLib id (genuineMeta k) = (toyChain.hdr (k + 1)).lastResultsHash := by
  simp [OasisModel.Stateless.resultsHash, genuineMeta, root_single, leafHash, C19.toyLib, toyChain]

/-- A history that fills both caches. -/
def toyHist : List Op :=
  [.stateRoot e567 5, .blockResults e567 5 (fun k => some (genuine k)), .stateRoot e567 6]

/-- `cache_coherent` is not vacuous: its hypothesis holds for `toyChain`, and the history `toyHist`
ends with both caches non-empty — entries under 5 (and 6) that are the values of headers 6 (and 7). -/
example : Coherent toyChain (run C19.toyLib id toyChain Core.new toyHist) :=
  cache_coherent C19.toyLib id toyChain toyChain_metaConsistent toyHist

theorem toyHist_state :
    (run C19.toyLib id toyChain Core.new toyHist).stateRootCache.entries =
      [(6, List.replicate 32 7), (5, List.replicate 32 6)] ∧
    (run C19.toyLib id toyChain Core.new toyHist).resultsHashCache.entries = [(5, [0, 0, 5])] := by
  simp [toyHist, run, step, stateRootAPI, resolveHeight, stateRoot, Core.new, Lru.new, Lru.get, Lru.peek, Lru.put,
    Lru.without, OasisModel.Stateless.Cache.fetchStateRoot, fetchStateRootFromLightBlock, e567, toyEnv, toyChain,
    getBlockResults, getBlockResultsWith, lightBlock, verifyBlockResultsWith, OasisModel.Stateless.Cache.resultsHash,
    fetchResultsHash, fetchResultsHashFromLightBlock, verifyBlockResultsPure, genuine, C19.toyLib,
    OasisModel.Stateless.resultsHash, root_single, leafHash, List.lookup_cons, List.lookup_nil]

/-- `results_bound_via_cache` is not vacuous: after `toyHist` the genuine results of block 5 are
accepted through the cache *although the light client can no longer serve header 6* (the cached
entry answers), and altered results are rejected. -/
example :
    (verifyBlockResults C19.toyLib id toyChain (toyEnv [5] (some 9) (fun _ => none))
      (run C19.toyLib id toyChain Core.new toyHist) (genuine 5) 5).1 = (.ok, some (genuineMeta 5)) := by
  have hp : (run C19.toyLib id toyChain Core.new toyHist).resultsHashCache.peek 5 = some [0, 0, 5] := by
    simp [Lru.peek, toyHist_state.2]
  unfold verifyBlockResults
  rw [verifyWith_below (last := 9) rfl (by decide) (genuine_hit hp)]
  exact (pure_ok_iff C19.toyLib id (genuine 5) _ (toyChain.hdr 5) (genuineMeta 5)).2
    ⟨rfl, genuine_dec 5, genuine_hash 5⟩

example :
    (verifyBlockResults C19.toyLib id toyChain e567 Core.new { genuine 5 with metaB := [9] } 5).1 = (.hash, none) := by
  simp [verifyBlockResults, verifyBlockResultsWith, e567, toyEnv, OasisModel.Stateless.Cache.resultsHash, Core.new,
    Lru.new, Lru.get, Lru.peek, fetchResultsHash, fetchResultsHashFromLightBlock, verifyBlockResultsPure, genuine,
    toyChain, C19.toyLib, OasisModel.Stateless.resultsHash, root_single, leafHash]

/-- The hypotheses of `misfiled_results_hash_accepts_foreign_results` are satisfiable: `toyChain`,
`h = 5`, the genuine results of blocks 5 and 6. -/
example :
    (getBlockResultsWith resultsHashMisfiled C19.toyLib id toyChain e567
        (runMisfiled C19.toyLib id toyChain Core.new
          [.stateRoot e567 5, .blockResults e567 5 (fun _ => some (genuine 5))])
        6 (fun _ => some { genuine 5 with height := ((5 + 1 : Nat) : Int) })).1
      = some (6, { genuine 5 with height := ((5 + 1 : Nat) : Int) }, genuineMeta 5) ∧
    (getBlockResultsWith resultsHashMisfiled C19.toyLib id toyChain e567
        (runMisfiled C19.toyLib id toyChain Core.new
          [.stateRoot e567 5, .blockResults e567 5 (fun _ => some (genuine 5))])
        6 (fun _ => some (genuine 6))).1 = none := by
  have := misfiled_results_hash_accepts_foreign_results C19.toyLib id toyChain toyChain_wf e567 e567 e567 5 7 7
    (genuine 5) (genuine 6) (genuineMeta 5) (genuineMeta 6) (by decide) rfl rfl rfl (by decide) rfl rfl (by decide)
    rfl (genuine_dec 5) (genuine_hash 5) rfl (genuine_dec 6) (genuine_hash 6) (by decide)
  exact ⟨this.2.1, this.2.2.1⟩

/-- The LRU model evicts (a cache of two slots; `Get` refreshes an entry): `cache_bounded` and the
eviction-insensitivity of `cache_coherent` are about a cache that really loses entries. -/
example : (((Lru.new 2).put 1 [1]).put 2 [2]).put 3 [3] = { cap := 2, entries := [(3, [3]), (2, [2])] } := by decide
example : (((((Lru.new 2).put 1 [1]).put 2 [2]).get 1).2.put 3 [3]).entries = [(3, [3]), (1, [1])] := by decide

/-- `results_via_cache_eq_uncached` / `results_bound_via_cache_c19`: the hypotheses hold for
`toyChain`, `e567`, height 5. -/
example :
    ∃ nxt, (lightClientOf toyChain e567).trusted ((toyChain.hdr 5).height + 1) = some nxt ∧
      OasisModel.Stateless.resultsHash C19.toyLib id (genuineMeta 5) = nxt.lastResultsHash := by
  have hacc : (verifyBlockResults C19.toyLib id toyChain e567 (run C19.toyLib id toyChain Core.new []) (genuine 5) 5).1
      = (.ok, some (genuineMeta 5)) := by
    have hr : OasisModel.Stateless.Cache.resultsHash toyChain e567 Core.new 5 = (some (toyChain.hdr 6).lastResultsHash, _) :=
      genuine_miss rfl rfl
    show (verifyBlockResults C19.toyLib id toyChain e567 Core.new (genuine 5) 5).1 = _
    unfold verifyBlockResults
    rw [verifyWith_below (last := 7) rfl (by decide) hr]
    exact (pure_ok_iff C19.toyLib id (genuine 5) _ (toyChain.hdr 5) (genuineMeta 5)).2
      ⟨rfl, genuine_dec 5, genuine_hash 5⟩
  exact (results_bound_via_cache_c19 C19.toyLib id toyChain toyChain_wf [] e567 (genuine 5) 5 7 (genuineMeta 5)
    rfl (by decide) rfl hacc).2.2

end NonVacuity

end OasisProofs.C19Cache

