import OasisProofs.Helpers.RhpCheckTx
/-
C16, "untrusted bytes never crash the node" — what the node does with a DECODED check-tx batch response of the
untrusted runtime (`go/runtime/host/helpers.go:68-104` `richRuntime.CheckTx`,
`go/runtime/txpool/txpool.go:459-656` `checkTxBatch`; model `OasisModel.Rhp.CheckTx`).

The runtime chooses the reply: a call error, a body of another kind, or a check-tx response with ANY list of
results — any length, any error codes, metadata present or absent on any subset. The batch is any list of
pending transactions with any flags, the rest of the check queue is any list, the main queue's verdicts are any
function of the calls made so far (`addFails`). In the model every Go operation that can panic on such data is
explicit (`index`, `deref`), so "never crashes" is the statement that the outcome is never `Outcome.panic`.

Why it holds: `richRuntime.CheckTx` lets a response through only if it has exactly one result per input and
metadata on every successful result; the first loop of `checkTxBatch` then indexes `batch[i]` only for
`i < len(results) = len(batch)`, and the second loop dereferences `res.Meta` only for successful results. The two
witnesses at the end show that both checks are what it rests on.

No hypotheses other than the ones written in the statements. Vocabulary (`OasisProofs.Rhp.CheckTx`, Helpers):
`WellFormed reply n` — the reply passes the shape checks for `n` inputs; `goodAt batch results i` — position `i`
is a successful result of a transaction not marked `discard`; `failedAt`, `waitingAt` (`notifyCh != nil`),
`hashAt`; `goods batch results` — the rows `(i, batch[i], results[i])` with `goodAt`, in order; `fixSeq goods r`
— the metadata of row `r` with the state sequence number of the first row of the same sender in `goods`
(the workaround at txpool.go:596-604).

A finding outside this property, recorded because the model had to follow it: when `mainQueue.Add` fails,
txpool.go:613 writes the error into the local copy `res` but `notifySubmitter(idx)` sends `&results[idx]`, so the
submitter of a transaction the queue refused still receives the runtime's SUCCESS result
(`refused_add_still_notified_success` below, stated on the model).
-/
namespace OasisProofs.C16CheckTx
open OasisModel.Rhp.CheckTx OasisProofs.Rhp.CheckTx

/-! ### (1) no reply of the runtime makes the check worker panic -/

/-- `richRuntime.CheckTx` accepts a reply exactly when it is well-formed. -/
theorem richCheckTx_accepts_iff (reply : Reply) (n : Nat) :
    (∃ results, richCheckTx reply n = .ok results) ↔ WellFormed reply n :=
  (wellFormed_iff reply n).symm

/-- For EVERY reply (any number of results, any subset without metadata, any error codes), every batch, every
remaining check queue and every behaviour of the main queue: `richRuntime.CheckTx` followed by the rest of
`checkTxBatch` runs to the end. A reply that is not well-formed is rejected with an error, nothing else
happens and the batch is back at the front of the check queue (`retryBatch` pushes to the front one by one:
reversed); a well-formed one is consumed (no error, the check queue stays as `pop` left it, the outputs are
those of `checkTxBatch`, which did not panic either). -/
theorem checkTx_never_panics (addFails : AddOracle) (reply : Reply) (batch queue : List Pct) :
    ∃ w, checkWorker addFails reply batch queue = .done w ∧
      ((batch = [] ∧ w = { err := none, queue := queue, out := {} }) ∨
       (batch ≠ [] ∧ ¬ WellFormed reply batch.length ∧ (∃ e, w.err = some e) ∧
          w.queue = batch.reverse ++ queue ∧ w.out = {}) ∨
       (batch ≠ [] ∧ WellFormed reply batch.length ∧ w.err = none ∧ w.queue = queue ∧
          ∃ results, reply = .checkTx results ∧
            checkTxBatch addFails batch queue.length results = .done w.out)) := by
  unfold checkWorker checkWorkerWith
  by_cases hb : batch = []
  · subst hb
    exact ⟨_, rfl, Or.inl ⟨rfl, rfl⟩⟩
  · have hlen : (batch.length == 0) = false := by
      cases batch with
      | nil => exact absurd rfl hb
      | cons a l => simp
    simp only [hlen, Bool.false_eq_true, if_false]
    cases hr : richCheckTx reply batch.length with
    | error e =>
      refine ⟨_, rfl, Or.inr (Or.inl ⟨hb, ?_, ⟨e, rfl⟩, retryBatch_eq batch queue, rfl⟩)⟩
      intro hwf
      obtain ⟨rs, hrs⟩ := (wellFormed_iff reply batch.length).mp hwf
      rw [hr] at hrs; cases hrs
    | ok results =>
      obtain ⟨h1, h2, h3⟩ := (richCheckTx_ok_iff reply batch.length results).mp hr
      have heq := checkTxBatch_eq addFails batch queue.length results h2 h3
      refine ⟨{ err := none, queue := queue, out := specOut addFails batch queue.length results }, ?_,
        Or.inr (Or.inr ⟨hb, (wellFormed_iff reply batch.length).mpr ⟨results, hr⟩, rfl, rfl,
          results, h1, heq⟩)⟩
      simp only [heq, bind, Outcome.bind, pure]

/-- The headline: `panic` is unreachable. -/
theorem checkTx_no_panic (addFails : AddOracle) (reply : Reply) (batch queue : List Pct) (p : Panic) :
    checkWorker addFails reply batch queue ≠ .panic p := by
  obtain ⟨w, hw, _⟩ := checkTx_never_panics addFails reply batch queue
  rw [hw]; intro h; cases h

/-! ### (2) what a well-formed response does -/

/-- For a well-formed response (one result per input, metadata on every successful result), whatever the main
queue answers:
* `mainQueue.Add` is called for exactly the successful, non-discarded positions, once each, in order;
* each call passes the transaction of that position and the metadata of that position's result — same sender,
  priority and sender sequence number (the state sequence number is the subject of
  `queued_state_seq_is_first_of_sender`);
* the hashes removed from the seen cache are exactly those of the failed positions, in order;
* the number of notifications sent equals the number of submitters waiting. -/
theorem accepted_results_are_queued_once (addFails : AddOracle) (batch : List Pct) (queueSize : Nat)
    (results : List Result) (hlen : results.length = batch.length)
    (hmeta : ∀ r ∈ results, r.isSuccess = true → r.md.isSome = true) :
    ∃ out, checkTxBatch addFails batch queueSize results = .done out ∧
      out.adds.map (·.idx) = (List.range batch.length).filter (goodAt batch results) ∧
      (∀ a ∈ out.adds, ∃ m0 res, batch[a.idx]? = some a.tx ∧ results[a.idx]? = some res ∧
          res.md = some m0 ∧ a.md.sender = m0.sender ∧ a.md.priority = m0.priority ∧
          a.md.senderSeq = m0.senderSeq) ∧
      out.seenRemoved = ((List.range batch.length).filter (failedAt results)).map (hashAt batch) ∧
      out.notifs.length = (batch.filter (·.hasNotify)).length := by
  have hm := (metaPresent_iff results).mpr hmeta
  refine ⟨_, checkTxBatch_eq addFails batch queueSize results hlen hm, ?_, ?_, ?_, ?_⟩
  · have h := congrArg (List.map (·.1)) (specOut_adds_core addFails batch queueSize results)
    simp only [List.map_map] at h
    have e1 : ((fun x : Nat × Pct × Meta => x.1) ∘ AddCall.core) = (fun a : AddCall => a.idx) := rfl
    rw [e1] at h
    rw [h]
    exact filter_rows_idx hlen.symm _ _ row_good_eq
  · intro a ha
    have hc : AddCall.core a ∈ (specOut addFails batch queueSize results).adds.map AddCall.core :=
      List.mem_map_of_mem ha
    rw [specOut_adds_core] at hc
    obtain ⟨r, hr, hrc⟩ := List.mem_map.mp hc
    obtain ⟨h1, h2, h3⟩ := goods_wf hm r hr
    obtain ⟨m0, hm0⟩ := Option.isSome_iff_exists.mp h3
    have hmeta0 : r.meta = m0 := by simp [Row.meta, hm0]
    simp only [AddCall.core, Prod.mk.injEq] at hrc
    obtain ⟨hi, ht, hmd⟩ := hrc
    obtain ⟨f1, f2, f3⟩ := fixSeq_own (goods batch results) r
    refine ⟨m0, r.res, ?_, ?_, hm0, ?_, ?_, ?_⟩
    · rw [← hi, ← ht]; exact h1
    · rw [← hi]; exact h2
    · rw [← hmd, f1, hmeta0]
    · rw [← hmd, f2, hmeta0]
    · rw [← hmd, f3, hmeta0]
  · rw [(specOut_first_loop addFails batch queueSize results).1]
    rw [← filter_rows_idx hlen.symm (fun r => !r.res.isSuccess) (failedAt results) row_failed_eq]
    rw [List.map_map]
    apply List.map_congr_left
    intro r hr
    exact row_hash_eq r (List.mem_filter.mp hr).1
  · rw [specOut_notifs]
    simp only [List.length_append, List.length_map, goods, List.filter_filter]
    have hp := (List.filter_append_perm (fun r : Row => r.good)
      ((rows batch results).filter (·.pct.hasNotify))).length_eq
    simp only [List.length_append, List.filter_filter] at hp
    have hb : (batch.filter (·.hasNotify)).length =
        ((rows batch results).filter (·.pct.hasNotify)).length := by
      conv => lhs; rw [← rows_map_pct hlen.symm, List.filter_map, List.length_map]
      rfl
    rw [hb, ← hp]
    simp only [Bool.and_comm]
    omega

/-- "Exactly once", position by position. -/
theorem queued_count (addFails : AddOracle) (batch : List Pct) (queueSize : Nat)
    (results : List Result) (hlen : results.length = batch.length)
    (hmeta : ∀ r ∈ results, r.isSuccess = true → r.md.isSome = true) (i : Nat) :
    ∃ out, checkTxBatch addFails batch queueSize results = .done out ∧
      (out.adds.map (·.idx)).count i = if goodAt batch results i = true then 1 else 0 := by
  obtain ⟨out, h1, h2, _⟩ := accepted_results_are_queued_once addFails batch queueSize results hlen hmeta
  refine ⟨out, h1, ?_⟩
  have hnd : ((List.range batch.length).filter (goodAt batch results)).Nodup :=
    List.Pairwise.filter _ List.nodup_range
  rw [h2, List.Nodup.count hnd]
  by_cases hg : goodAt batch results i = true
  · have hi : i < batch.length := by
      unfold goodAt at hg
      rcases Nat.lt_or_ge i batch.length with h | h
      · exact h
      · rw [List.getElem?_eq_none h] at hg; simp at hg
    simp [hg, hi]
  · simp [hg]

/-- The state-seq workaround (txpool.go:596-604), exactly: the calls of `mainQueue.Add`, apart from the
queue's verdicts, are the good rows in order, each with its own metadata in which the state sequence number
is that of the FIRST good row of the same sender in this batch. -/
theorem queued_state_seq_is_first_of_sender (addFails : AddOracle) (batch : List Pct) (queueSize : Nat)
    (results : List Result) (hlen : results.length = batch.length)
    (hmeta : ∀ r ∈ results, r.isSuccess = true → r.md.isSome = true) :
    ∃ out, checkTxBatch addFails batch queueSize results = .done out ∧
      out.adds.map AddCall.core =
        (goods batch results).map (fun r => (r.idx, r.pct, fixSeq (goods batch results) r)) ∧
      ∀ r ∈ goods batch results, ∃ e,
        (goods batch results).find? (fun e => e.meta.sender == r.meta.sender) = some e ∧
        (fixSeq (goods batch results) r).senderStateSeq = e.meta.senderStateSeq :=
  ⟨_, checkTxBatch_eq addFails batch queueSize results hlen ((metaPresent_iff results).mpr hmeta),
    specOut_adds_core addFails batch queueSize results, fun _ hr => fixSeq_stateSeq hr⟩

/-- Every waiting submitter is notified exactly once (the notified positions are a permutation of the
waiting positions: first the failed / discarded ones, then the queued ones), and the result it receives has
the error code the runtime gave for that position. -/
theorem every_waiting_submitter_notified_once (addFails : AddOracle) (batch : List Pct) (queueSize : Nat)
    (results : List Result) (hlen : results.length = batch.length)
    (hmeta : ∀ r ∈ results, r.isSuccess = true → r.md.isSome = true) :
    ∃ out, checkTxBatch addFails batch queueSize results = .done out ∧
      (out.notifs.map (·.1)).Perm ((List.range batch.length).filter (waitingAt batch)) ∧
      ∀ x ∈ out.notifs, ∃ res, results[x.1]? = some res ∧ x.2.code = res.code ∧
        (goodAt batch results x.1 = false → x.2 = res) := by
  have hm := (metaPresent_iff results).mpr hmeta
  refine ⟨_, checkTxBatch_eq addFails batch queueSize results hlen hm, ?_, ?_⟩
  · rw [specOut_notifs]
    rw [← filter_rows_idx hlen.symm (fun r => r.pct.hasNotify) (waitingAt batch) row_waiting_eq]
    simp only [List.map_append, List.map_map, goods, List.filter_filter]
    have hp := (List.filter_append_perm (fun r : Row => r.good)
      ((rows batch results).filter (·.pct.hasNotify))).map (·.idx)
    simp only [List.map_append, List.filter_filter] at hp
    refine (List.perm_append_comm.trans ?_).trans hp
    have e1 : ((fun x : Nat × Result => x.1) ∘ fun r : Row => (r.idx, r.res)) = fun r : Row => r.idx := rfl
    have e2 : ((fun x : Nat × Result => x.1) ∘ fun r : Row =>
        (r.idx, ({ r.res with md := some (fixSeq (List.filter (fun x => x.good) (rows batch results)) r) } : Result)))
        = fun r : Row => r.idx := rfl
    rw [e1, e2]
    simp only [Bool.and_comm]
    exact List.Perm.refl _
  · intro x hx
    rw [specOut_notifs] at hx
    rcases List.mem_append.mp hx with hx | hx
    · obtain ⟨r, hr, rfl⟩ := List.mem_map.mp hx
      obtain ⟨hrow, hcond⟩ := List.mem_filter.mp hr
      refine ⟨r.res, (rows_mem hrow).2, rfl, fun _ => rfl⟩
    · obtain ⟨r, hr, rfl⟩ := List.mem_map.mp hx
      obtain ⟨hg, _⟩ := List.mem_filter.mp hr
      obtain ⟨hrow, hgood⟩ := List.mem_filter.mp hg
      refine ⟨r.res, (rows_mem hrow).2, rfl, ?_⟩
      intro hbad
      rw [← row_good_eq r hrow, hgood] at hbad
      cases hbad

/-- The rest of the outputs: `seenCache.Put` is called for exactly the new transactions the queue took; the
recorded verdicts are the queue's; the counters count failed positions and new good positions; the check
worker is kicked iff the check queue is not empty; the broadcast carries the new good transactions. -/
theorem other_outputs (addFails : AddOracle) (batch : List Pct) (queueSize : Nat)
    (results : List Result) (hlen : results.length = batch.length)
    (hmeta : ∀ r ∈ results, r.isSuccess = true → r.md.isSome = true) :
    ∃ out, checkTxBatch addFails batch queueSize results = .done out ∧
      out.seenPut = (out.adds.filter (fun a => !a.failed && !a.tx.checked)).map (·.tx.hash) ∧
      (∀ k (h : k < out.adds.length),
        out.adds[k].failed = addFails (out.adds.take k) out.adds[k].tx out.adds[k].md) ∧
      out.rejected = ((List.range batch.length).filter (failedAt results)).length ∧
      out.accepted = ((goods batch results).filter (fun r => !r.pct.checked)).length ∧
      out.kick = decide (queueSize > 0) ∧
      out.broadcast = ((goods batch results).filter (fun r => !r.pct.checked)).map (·.pct.hash) := by
  have hm := (metaPresent_iff results).mpr hmeta
  obtain ⟨_, f2, f3, f4⟩ := specOut_first_loop addFails batch queueSize results
  refine ⟨_, checkTxBatch_eq addFails batch queueSize results hlen hm,
    specOut_seenPut addFails batch queueSize results, specOut_oracle addFails batch queueSize results,
    ?_, f3, f4, specOut_broadcast addFails batch queueSize results⟩
  rw [f2, ← filter_rows_idx hlen.symm (fun r => !r.res.isSuccess) (failedAt results) row_failed_eq,
    List.length_map]

/-- Recorded finding (not part of C16): the submitter of a transaction that reached `mainQueue.Add` is notified
with the runtime's success code WHATEVER the queue answered — the error written at txpool.go:613 goes to the
local copy `res`, while `notifySubmitter(idx)` (618) sends `&results[idx]`. -/
theorem refused_add_still_notified_success (addFails : AddOracle) (batch : List Pct) (queueSize : Nat)
    (results : List Result) (hlen : results.length = batch.length)
    (hmeta : ∀ r ∈ results, r.isSuccess = true → r.md.isSome = true) :
    ∃ out, checkTxBatch addFails batch queueSize results = .done out ∧
      ∀ a ∈ out.adds, a.tx.hasNotify = true → ∃ x ∈ out.notifs, x.1 = a.idx ∧ x.2.code = 0 := by
  have hm := (metaPresent_iff results).mpr hmeta
  refine ⟨_, checkTxBatch_eq addFails batch queueSize results hlen hm, ?_⟩
  intro a ha hn
  have hc : AddCall.core a ∈ (specOut addFails batch queueSize results).adds.map AddCall.core :=
    List.mem_map_of_mem ha
  rw [specOut_adds_core] at hc
  obtain ⟨r, hr, hrc⟩ := List.mem_map.mp hc
  simp only [AddCall.core, Prod.mk.injEq] at hrc
  obtain ⟨hi, ht, _⟩ := hrc
  have hgood : r.good = true := (List.mem_filter.mp hr).2
  have hcode : r.res.code = 0 := by
    simp only [Row.good, Bool.and_eq_true, Result.isSuccess, beq_iff_eq] at hgood
    exact hgood.1
  refine ⟨(r.idx, { r.res with md := some (fixSeq (goods batch results) r) }), ?_, hi, hcode⟩
  rw [specOut_notifs]
  apply List.mem_append_right
  apply List.mem_map_of_mem (f := fun r : Row =>
    (r.idx, ({ r.res with md := some (fixSeq (goods batch results) r) } : Result)))
  exact List.mem_filter.mpr ⟨hr, by rw [ht]; exact hn⟩

/-- … and the queue does refuse calls in reachable runs: on the sample below the refused call's submitter
(position 2) is notified with code 0. -/
example : ∃ out, checkTxBatch everySecond batch6 1 results6 = .done out ∧
    (∃ a ∈ out.adds, a.idx = 2 ∧ a.failed = true ∧ a.tx.hasNotify = true) ∧
    (2, okRes 5 2 100) ∈ out.notifs := by
  refine ⟨_, checkTxBatch_eq everySecond batch6 1 results6 (by decide) (by decide), ?_⟩
  decide

/-! ### (3) the two shape checks are what it rests on -/

/-- Seeded mutation, `!=` relaxed to `<` at helpers.go:94 (`richCheckTxLt`, NOT the code): 3 inputs, 4 results
(all successful, all with metadata) pass the relaxed check and the first loop indexes `batch[3]` — index out of
range. The code itself rejects the same reply with "incorrect number of results" and returns the batch. -/
theorem surplus_results_panic_without_equality :
    checkWorkerWith richCheckTxLt (fun _ _ _ => false)
        (.checkTx [okRes 1 1 1, okRes 2 1 1, okRes 3 1 1, okRes 4 1 1]) batch3 [] =
      .panic .indexOutOfRange ∧
    checkWorker (fun _ _ _ => false)
        (.checkTx [okRes 1 1 1, okRes 2 1 1, okRes 3 1 1, okRes 4 1 1]) batch3 [] =
      .done { err := some .incorrectCount, queue := batch3.reverse, out := {} } := by
  decide

/-- The code before 2aebad9 (`richCheckTxNoMeta`, NOT the code): a successful result without metadata (a CBOR
null element, or `meta` dropped) passes, and the second loop reads `res.Meta.Sender` through a nil pointer.
The code itself rejects the same reply with "missing transaction metadata" and returns the batch. -/
theorem missing_meta_panics_without_check :
    checkWorkerWith richCheckTxNoMeta (fun _ _ _ => false)
        (.checkTx [okRes 1 1 1, { code := 0, md := none }, okRes 3 1 1]) batch3 [] =
      .panic .nilDeref ∧
    checkWorker (fun _ _ _ => false)
        (.checkTx [okRes 1 1 1, { code := 0, md := none }, okRes 3 1 1]) batch3 [] =
      .done { err := some .missingMeta, queue := batch3.reverse, out := {} } := by
  decide

/-- The same at full strength: with the relaxed check EVERY reply with more results than inputs (metadata in
place) crashes the check worker, whatever the batch, the queue and the main queue. -/
theorem surplus_results_always_panic (addFails : AddOracle) (batch queue : List Pct) (results : List Result)
    (hb : batch ≠ []) (hlen : batch.length < results.length)
    (hmeta : ∀ r ∈ results, r.isSuccess = true → r.md.isSome = true) :
    checkWorkerWith richCheckTxLt addFails (.checkTx results) batch queue = .panic .indexOutOfRange := by
  have hm := (metaPresent_iff results).mpr hmeta
  have hne : (batch.length == 0) = false := by
    cases batch with
    | nil => exact absurd rfl hb
    | cons a l => simp
  have hnlt : ¬ results.length < batch.length := by omega
  simp only [checkWorkerWith, hne, Bool.false_eq_true, if_false, richCheckTxLt, hnlt, hm, Bool.not_true]
  simp only [checkTxBatch_surplus addFails batch queue.length results hlen, bind, Outcome.bind]

/-- The same at full strength: without the metadata check EVERY reply of the right length that has a
successful result without metadata for a transaction not marked `discard` crashes the check worker. -/
theorem missing_meta_always_panics (addFails : AddOracle) (batch queue : List Pct) (results : List Result)
    (hlen : results.length = batch.length) (i : Nat) (pct : Pct) (res : Result)
    (hp : batch[i]? = some pct) (hr : results[i]? = some res) (hs : res.isSuccess = true)
    (hd : pct.discard = false) (hm : res.md = none) :
    checkWorkerWith richCheckTxNoMeta addFails (.checkTx results) batch queue = .panic .nilDeref := by
  have hne : (batch.length == 0) = false := by
    cases batch with
    | nil => simp at hp
    | cons a l => simp
  have hl : (results.length != batch.length) = false := by simp [hlen]
  simp only [checkWorkerWith, hne, Bool.false_eq_true, if_false, richCheckTxNoMeta, hl]
  simp only [checkTxBatch_missing addFails batch queue.length results hlen hp hr hs hd hm, bind,
    Outcome.bind]

/-- The hypotheses of the two theorems above are satisfiable (the data of the two witnesses). -/
example : checkWorkerWith richCheckTxLt everySecond
    (.checkTx [okRes 1 1 1, okRes 2 1 1, okRes 3 1 1, okRes 4 1 1]) batch3 [] = .panic .indexOutOfRange :=
  surplus_results_always_panic _ _ _ _ (by decide) (by decide) (by decide)

example : checkWorkerWith richCheckTxNoMeta everySecond
    (.checkTx [okRes 1 1 1, { code := 0, md := none }, okRes 3 1 1]) batch3 [] = .panic .nilDeref :=
  missing_meta_always_panics _ _ _ _ (by decide) 1 { hash := 12 } { code := 0, md := none }
    (by decide) (by decide) (by decide) (by decide) (by decide)

/-- A FAILED result without metadata is fine (the check at helpers.go:99 asks for metadata on successful
results only, and only those are dereferenced): the hypothesis of (2) is not stronger than needed. -/
example : (match checkWorkerWith richCheckTxNoMeta (fun _ _ _ => false)
      (.checkTx [okRes 1 1 1, { code := 9, md := none }, okRes 3 1 1]) batch3 [] with
    | .done w => w.err == none
    | .panic _ => false) = true := by
  decide

/-! ### (4) non-vacuity -/

/-- The third case of `checkTx_never_panics` and the hypotheses of (2) on a non-trivial exchange: six
transactions (new, discard, recheck, waiting or not), a response with two failed results (one without
metadata), two results of the same sender, and a main queue that refuses every second call. -/
example : results6.length = batch6.length ∧
    (∀ r ∈ results6, r.isSuccess = true → r.md.isSome = true) := by decide

example : WellFormed (.checkTx results6) batch6.length :=
  ⟨results6, rfl, by decide, by decide⟩

/-- What the model computes on it: `mainQueue.Add` for positions 0, 2, 5 (position 1 is discarded, 3 and 4
failed); position 2 gets the state seq 100 of position 0 (same sender) instead of its own 101; the second call
is refused; hashes 24 and 25 leave the seen cache; the five waiting submitters (1, 4, then 0, 2, 5) get one
notification each — the one of position 2, whose transaction the queue refused, gets code 0 (see
`refused_add_still_notified_success`); hashes 21 and 26 (new and taken) enter the seen cache and are
broadcast. -/
example : checkWorker everySecond (.checkTx results6) batch6 [{ hash := 99 }] =
    .done { err := none, queue := [{ hash := 99 }],
            out := { rejected := 2, accepted := 2, seenRemoved := [24, 25],
                     notifs := [(1, okRes 6 1 50), (4, { code := 4, md := some { sender := 8 } }),
                                (0, okRes 5 1 100), (2, okRes 5 2 100), (5, okRes 9 1 1)],
                     adds := [{ idx := 0, tx := { hash := 21, hasNotify := true },
                                md := { priority := 7, sender := 5, senderSeq := 1, senderStateSeq := 100 },
                                failed := false },
                              { idx := 2, tx := { hash := 23, checked := true, hasNotify := true },
                                md := { priority := 7, sender := 5, senderSeq := 2, senderStateSeq := 100 },
                                failed := true },
                              { idx := 5, tx := { hash := 26, hasNotify := true, isLocal := true },
                                md := { priority := 7, sender := 9, senderSeq := 1, senderStateSeq := 1 },
                                failed := false }],
                     seenPut := [21, 26], kick := true, broadcast := [21, 26] } } := by
  decide

/-- The second case of `checkTx_never_panics`: a malformed reply (one result short) on a non-empty batch. -/
example : ¬ WellFormed (.checkTx [okRes 1 1 1, okRes 2 1 1]) batch3.length ∧
    checkWorker everySecond (.checkTx [okRes 1 1 1, okRes 2 1 1]) batch3 [{ hash := 99 }] =
      .done { err := some .incorrectCount, queue := batch3.reverse ++ [{ hash := 99 }], out := {} } := by
  refine ⟨?_, by decide⟩
  rintro ⟨rs, h1, h2, _⟩
  cases h1
  exact absurd h2 (by decide)

end OasisProofs.C16CheckTx
