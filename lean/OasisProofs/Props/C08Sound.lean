import OasisModel.Handlers.FlowSem
import Mathlib.Data.List.Forall2
/-
C08 — soundness of the handler analysis `flagged` (`OasisModel/Handlers/Flow.lean`) with respect
to the concrete path semantics of `Flow` (`OasisModel/Handlers/FlowSem.lean`).

Headline: if `flagged fuel f = some []` then every path of `f` from the initial configuration
that ends in an ordinary error return (not a state-unavailable error, not a panic) performs a
trace that does not touch layer 0 — hence (`untouched_outer`) the block state tree is unchanged.
More generally, if `flagged fuel f = some L`, every ordinary-failing path that touches layer 0
returns through a site listed in `L`.
-/
namespace OasisProofs.C08Sound
open OasisModel.Handlers

/-! ## finite sets as duplicate-free lists -/

theorem mem_insertNew {α} [DecidableEq α] (x y : α) (l : List α) :
    x ∈ insertNew y l ↔ x = y ∨ x ∈ l := by
  unfold insertNew
  by_cases h : l.contains y = true
  · simp only [h, if_true]
    constructor
    · exact Or.inr
    · rintro (rfl | h')
      · exact List.contains_iff_mem.mp h
      · exact h'
  · simp only [h]
    simp [or_comm]

theorem mem_union {α} [DecidableEq α] (x : α) (a b : List α) :
    x ∈ union a b ↔ x ∈ a ∨ x ∈ b := by
  unfold union
  induction b generalizing a with
  | nil => simp
  | cons y ys ih =>
    simp only [List.foldl_cons, ih, mem_insertNew, List.mem_cons]
    constructor
    · rintro ((rfl | h) | h)
      · exact Or.inr (Or.inl rfl)
      · exact Or.inl h
      · exact Or.inr (Or.inr h)
    · rintro (h | rfl | h)
      · exact Or.inl (Or.inr h)
      · exact Or.inl (Or.inl rfl)
      · exact Or.inr h

/-- `r ≤ R`: everything in `r` is in `R`. -/
def Res.le (r R : Res) : Prop := (∀ x ∈ r.cont, x ∈ R.cont) ∧ (∀ x ∈ r.exits, x ∈ R.exits)

theorem Res.le_refl (r : Res) : Res.le r r := ⟨fun _ h => h, fun _ h => h⟩

theorem Res.le_trans {a b c : Res} (h1 : Res.le a b) (h2 : Res.le b c) : Res.le a c :=
  ⟨fun x h => h2.1 x (h1.1 x h), fun x h => h2.2 x (h1.2 x h)⟩

theorem le_merge_left (a b : Res) : Res.le a (a.merge b) :=
  ⟨fun x h => (mem_union x _ _).2 (Or.inl h), fun x h => (mem_union x _ _).2 (Or.inl h)⟩

theorem le_merge_right (a b : Res) : Res.le b (a.merge b) :=
  ⟨fun x h => (mem_union x _ _).2 (Or.inr h), fun x h => (mem_union x _ _).2 (Or.inr h)⟩

theorem foldMerge_none {α} (k : α → Option Res) (l : List α) :
    l.foldl (fun acc x => mergeO acc (k x)) none = none := by
  induction l with
  | nil => rfl
  | cons x xs ih => simpa [mergeO] using ih

/-- A fold of merges that succeeds contains its start value and the result of every element. -/
theorem foldMerge_spec {α} (k : α → Option Res) (l : List α) (i R : Res)
    (h : l.foldl (fun acc x => mergeO acc (k x)) (some i) = some R) :
    Res.le i R ∧ ∀ x ∈ l, ∃ b, k x = some b ∧ Res.le b R := by
  induction l generalizing i with
  | nil =>
    simp only [List.foldl_nil, Option.some.injEq] at h
    subst h
    exact ⟨Res.le_refl _, fun x hx => by cases hx⟩
  | cons y ys ih =>
    simp only [List.foldl_cons] at h
    cases hk : k y with
    | none =>
      rw [hk, show mergeO (some i) none = none from rfl, foldMerge_none] at h
      cases h
    | some b =>
      rw [hk, show mergeO (some i) (some b) = some (i.merge b) from rfl] at h
      obtain ⟨h1, h2⟩ := ih _ h
      refine ⟨Res.le_trans (le_merge_left i b) h1, ?_⟩
      intro x hx
      rcases List.mem_cons.1 hx with rfl | hx
      · exact ⟨b, hk, Res.le_trans (le_merge_right i b) h1⟩
      · exact h2 x hx

theorem mem_foldl_insertNew {α β} [DecidableEq β] (f : α → β) (l : List α) (acc : List β) (y : β) :
    y ∈ l.foldl (fun acc e => insertNew (f e) acc) acc ↔ y ∈ acc ∨ ∃ e ∈ l, y = f e := by
  induction l generalizing acc with
  | nil => simp
  | cons x xs ih =>
    simp only [List.foldl_cons, ih, mem_insertNew, List.mem_cons]
    constructor
    · rintro ((rfl | h) | ⟨e, he, rfl⟩)
      · exact Or.inr ⟨x, Or.inl rfl, rfl⟩
      · exact Or.inl h
      · exact Or.inr ⟨e, Or.inr he, rfl⟩
    · rintro (h | ⟨e, rfl | he, rfl⟩)
      · exact Or.inl (Or.inr h)
      · exact Or.inl (Or.inl rfl)
      · exact Or.inr ⟨e, he, rfl⟩

/-! ## the combinators of `run` -/

theorem overStates_spec (k : AState → Option Res) (ss : List AState) (i R : Res)
    (h : overStates k ss (some i) = some R) :
    Res.le i R ∧ ∀ st ∈ ss, ∃ b, k st = some b ∧ Res.le b R :=
  foldMerge_spec k ss i R h

theorem seqFold_none (k : Flow → AState → Option Res) (gs : List Flow) : seqFold k gs none = none := by
  unfold seqFold
  induction gs with
  | nil => rfl
  | cons g gs ih => simpa using ih

theorem seqFold_cons (k : Flow → AState → Option Res) (g : Flow) (gs : List Flow) (r : Res) :
    seqFold k (g :: gs) (some r) =
      seqFold k gs (overStates (k g) r.cont (some { cont := [], exits := r.exits })) := rfl

/-- exits are never dropped by the rest of a sequence -/
theorem seqFold_exits (k : Flow → AState → Option Res) (gs : List Flow) (r R : Res)
    (h : seqFold k gs (some r) = some R) : ∀ e ∈ r.exits, e ∈ R.exits := by
  induction gs generalizing r with
  | nil =>
    simp only [seqFold, List.foldl_nil, Option.some.injEq] at h
    subst h; exact fun _ h => h
  | cons g gs ih =>
    rw [seqFold_cons] at h
    cases ho : overStates (k g) r.cont (some { cont := [], exits := r.exits }) with
    | none => rw [ho, seqFold_none] at h; cases h
    | some r1 =>
      rw [ho] at h
      have := (overStates_spec _ _ _ _ ho).1.2
      exact fun e he => ih r1 h e (this e he)

theorem catchBrk_le (src : Src) (r : Res) : Res.le r (catchBrk src r) := by
  refine ⟨fun x hx => ?_, fun x hx => hx⟩
  unfold catchBrk
  simp only
  generalize r.cont = acc at hx
  induction r.exits generalizing acc with
  | nil => exact hx
  | cons e es ih =>
    simp only [List.foldl_cons]
    apply ih
    split
    · exact (mem_insertNew _ _ _).2 (Or.inr hx)
    · exact hx

theorem catchBrk_brk (src : Src) (r : Res) (e : Exit) (he : e ∈ r.exits) (hk : e.kind = .brk) :
    { e.st with src := src } ∈ (catchBrk src r).cont := by
  unfold catchBrk
  simp only
  generalize r.cont = acc
  generalize r.exits = es at he
  induction es generalizing acc with
  | nil => cases he
  | cons x xs ih =>
    simp only [List.foldl_cons]
    rcases List.mem_cons.1 he with rfl | he
    · rw [if_pos hk]
      -- once inserted it stays
      have : ∀ (l : List Exit) (acc : List AState), { e.st with src := src } ∈ acc →
          { e.st with src := src } ∈ l.foldl (fun acc e => if e.kind = .brk then insertNew { e.st with src := src } acc else acc) acc := by
        intro l
        induction l with
        | nil => exact fun _ h => h
        | cons y ys ih2 =>
          intro acc h
          simp only [List.foldl_cons]
          apply ih2
          split
          · exact (mem_insertNew _ _ _).2 (Or.inr h)
          · exact h
      exact this xs _ ((mem_insertNew _ _ _).2 (Or.inl rfl))
    · exact ih _ he

/-- `R` is closed under one more iteration of the loop body. -/
def LoopClosed (k : AState → Option Res) (R : Res) : Prop :=
  ∀ st ∈ R.cont, ∃ b, k st = some b ∧ Res.le (catchBrk st.src b) R

theorem loopStep_spec (k : AState → Option Res) (r R : Res) (h : loopStep k r = some R) :
    Res.le r R ∧ ∀ st ∈ r.cont, ∃ b, k st = some b ∧ Res.le (catchBrk st.src b) R := by
  obtain ⟨h1, h2⟩ := overStates_spec _ _ _ _ h
  refine ⟨h1, fun st hst => ?_⟩
  obtain ⟨b, hb, hle⟩ := h2 st hst
  cases hk : k st with
  | none => simp [hk] at hb
  | some b0 =>
    simp only [hk, Option.map_some, Option.some.injEq] at hb
    subst hb
    exact ⟨b0, rfl, hle⟩

theorem loopFix_spec (k : AState → Option Res) (n : Nat) (r R : Res) (h : loopFix k n r = some R) :
    Res.le r R ∧ LoopClosed k R := by
  induction n generalizing r with
  | zero => simp [loopFix] at h
  | succ n ih =>
    unfold loopFix at h
    cases hs : loopStep k r with
    | none => simp [hs] at h
    | some r' =>
      simp only [hs] at h
      obtain ⟨h1, h2⟩ := loopStep_spec k r r' hs
      by_cases heq : r' = r
      · simp only [heq, if_true, Option.some.injEq] at h
        subst h
        subst heq
        exact ⟨Res.le_refl _, h2⟩
      · simp only [heq, if_false] at h
        obtain ⟨h3, h4⟩ := ih r' h
        exact ⟨Res.le_trans h1 h3, h4⟩

/-! ## the layered state: traces, dirty flags -/

theorem exec_append (L : Layers) (t1 t2 : List Act) : exec L (t1 ++ t2) = exec (exec L t1) t2 := by
  simp [exec, List.foldl_append]

theorem touches_cons (L : Layers) (a : Act) (rest : List Act) :
    touchesOuter L (a :: rest) = (touchesOuter L [a] || touchesOuter (step L a) rest) := by
  cases a with
  | wr d k v => cases d <;> simp [touchesOuter]
  | begin => simp [touchesOuter]
  | commit => simp [touchesOuter]
  | close => simp [touchesOuter]

theorem touches_append (L : Layers) (t1 t2 : List Act) :
    touchesOuter L (t1 ++ t2) = (touchesOuter L t1 || touchesOuter (exec L t1) t2) := by
  induction t1 generalizing L with
  | nil => simp [touchesOuter, exec]
  | cons a t ih =>
    rw [List.cons_append, touches_cons, ih, touches_cons L a t, Bool.or_assoc]
    rfl

/-- Overlay `o` with dirty flag `b`: a non-empty overlay is flagged. -/
def Flagged (o : Ovl) (b : Bool) : Prop := o ≠ [] → b = true

/-- The dirty flags over-approximate the concrete layers: one flag per layer; layer 0 is flagged if
the trace so far touched it; every non-empty overlay is flagged. -/
def AbsL (dirty : List Bool) (L : Layers) (t : Bool) : Prop :=
  ∃ d0 fl, dirty = d0 :: fl ∧ (t = true → d0 = true) ∧ List.Forall₂ Flagged L.ovls fl

theorem AbsL.length {dirty L t} (h : AbsL dirty L t) : dirty.length = L.ovls.length + 1 := by
  obtain ⟨d0, fl, rfl, _, h3⟩ := h
  simp [h3.length_eq]

theorem forall2_setAt {ovls : List Ovl} {fl : List Bool} (h : List.Forall₂ Flagged ovls fl) (d : Nat) :
    List.Forall₂ Flagged ovls (setAt fl d) := by
  induction h generalizing d with
  | nil => cases d <;> exact .nil
  | cons hab _ ih =>
    cases d with
    | zero => exact .cons (fun _ => rfl) (by assumption)
    | succ d => exact .cons hab (ih d)

theorem forall2_setNth {ovls : List Ovl} {fl : List Bool} (d : Nat) (f : Ovl → Ovl)
    (h : List.Forall₂ Flagged ovls (setAt fl d)) :
    List.Forall₂ Flagged (setNth ovls d f) (setAt fl d) := by
  induction ovls generalizing fl d with
  | nil => simpa [setNth] using h
  | cons o os ih =>
    cases fl with
    | nil => cases d <;> simp [setAt] at h
    | cons b bs =>
      cases d with
      | zero =>
        simp only [setAt, setNth] at h ⊢
        cases h with
        | cons h1 h2 => exact .cons (fun _ => rfl) h2
      | succ d =>
        simp only [setAt, setNth] at h ⊢
        cases h with
        | cons h1 h2 => exact .cons h1 (ih d h2)

theorem AbsL.mono {dirty L t} (h : AbsL dirty L t) (d : Nat) : AbsL (setAt dirty d) L t := by
  obtain ⟨d0, fl, rfl, h2, h3⟩ := h
  cases d with
  | zero => exact ⟨true, fl, rfl, fun _ => rfl, h3⟩
  | succ d => exact ⟨d0, setAt fl d, rfl, h2, forall2_setAt h3 d⟩

/-- a write at depth `d` when the flag of layer `d` is (already) set -/
theorem AbsL.wr {dirty L t} (d k : Nat) (v : Option Nat) (h : AbsL (setAt dirty d) L t) :
    AbsL (setAt dirty d) (step L (.wr d k v)) (t || touchesOuter L [.wr d k v]) := by
  obtain ⟨d0, fl, he, h2, h3⟩ := h
  cases d with
  | zero =>
    cases dirty with
    | nil => simp [setAt] at he
    | cons x xs =>
      simp only [setAt, List.cons.injEq] at he
      obtain ⟨rfl, rfl⟩ := he
      exact ⟨true, xs, rfl, fun _ => rfl, h3⟩
  | succ d =>
    cases dirty with
    | nil => simp [setAt] at he
    | cons x xs =>
      simp only [setAt, List.cons.injEq] at he
      obtain ⟨rfl, rfl⟩ := he
      refine ⟨x, setAt xs d, rfl, ?_, ?_⟩
      · simpa [touchesOuter] using h2
      · exact forall2_setNth d _ h3

theorem AbsL.writes {dirty L t} (d : Nat) (ws : List (Nat × Option Nat)) (h : AbsL (setAt dirty d) L t) :
    AbsL (setAt dirty d) (exec L (ws.map fun p => .wr d p.1 p.2))
      (t || touchesOuter L (ws.map fun p => .wr d p.1 p.2)) := by
  induction ws generalizing L t with
  | nil => simpa [exec, touchesOuter] using h
  | cons w ws ih =>
    have h1 := AbsL.wr d w.1 w.2 h
    have h2 := ih h1
    simp only [List.map_cons]
    rw [touches_cons, ← Bool.or_assoc]
    exact h2

theorem forall2_snoc {α β} {R : α → β → Prop} {l1 : List α} {l2 : List β} {a b}
    (h : List.Forall₂ R l1 l2) (hab : R a b) : List.Forall₂ R (l1 ++ [a]) (l2 ++ [b]) := by
  induction h with
  | nil => exact .cons hab .nil
  | cons h1 _ ih => exact .cons h1 ih

theorem AbsL.begin {dirty L t} (h : AbsL dirty L t) :
    AbsL (dirty ++ [false]) (step L .begin) (t || touchesOuter L [.begin]) := by
  obtain ⟨d0, fl, rfl, h2, h3⟩ := h
  refine ⟨d0, fl ++ [false], rfl, ?_, ?_⟩
  · simpa [touchesOuter] using h2
  · exact forall2_snoc h3 (fun h => absurd rfl h)

theorem commitTop_cons3 (p q r : Bool) (l : List Bool) :
    commitTop (p :: q :: r :: l) = p :: commitTop (q :: r :: l) := by
  simp [commitTop]

theorem commitTop_snoc2 (pre : List Bool) (x y : Bool) (h : pre ≠ []) :
    commitTop (pre ++ [x, y]) = pre ++ [x || y] := by
  induction pre with
  | nil => exact absurd rfl h
  | cons p pre ih =>
    cases pre with
    | nil => simp [commitTop]
    | cons q pre' =>
      have := ih (by simp)
      cases pre' with
      | nil =>
        simp only [List.cons_append, List.nil_append] at this ⊢
        rw [commitTop_cons3, this]
      | cons r pre'' =>
        simp only [List.cons_append] at this ⊢
        rw [commitTop_cons3, this]

theorem AbsL.commit {dirty L t} (h : AbsL dirty L t) (hlen : 2 ≤ dirty.length) :
    AbsL (commitTop dirty) (step L .commit) (t || touchesOuter L [.commit]) := by
  obtain ⟨d0, fl, rfl, h2, h3⟩ := h
  have h3r := List.forall₂_reverse_iff.2 h3
  simp only [touchesOuter, Bool.or_false, step]
  cases hro : L.ovls.reverse with
  | nil =>
    have : L.ovls = [] := by simpa using hro
    rw [this] at h3
    cases h3
    simp at hlen
  | cons top ro =>
    rw [hro] at h3r
    generalize hfr : fl.reverse = flr at h3r
    cases h3r with
    | @cons _ bt _ rf hab hrest =>
      have hfl : fl = rf.reverse ++ [bt] := by
        have := congrArg List.reverse hfr
        simpa using this
      cases hrest with
      | nil =>
        subst hfl
        refine ⟨d0 || bt, [], by simp [commitTop], ?_, .nil⟩
        intro ht
        simp only [Bool.or_eq_true] at ht ⊢
        rcases ht with ht | ht
        · exact Or.inl (h2 ht)
        · refine Or.inr (hab ?_)
          intro hn; simp [hn] at ht
      | @cons below bb ro' rf' hab2 hrest2 =>
        subst hfl
        refine ⟨d0, rf'.reverse ++ [bb || bt], ?_, ?_, ?_⟩
        · have := commitTop_snoc2 (d0 :: rf'.reverse) bb bt (by simp)
          simpa using this
        · simpa using h2
        · refine forall2_snoc (List.forall₂_reverse_iff.2 hrest2) ?_
          intro hne
          simp only [Bool.or_eq_true]
          by_cases hb : below = []
          · right; apply hab; intro ht; apply hne; simp [hb, ht]
          · left; exact hab2 hb

theorem exec_closes (L : Layers) (k : Nat) :
    exec L (List.replicate k .close) = { L with ovls := L.ovls.take (L.ovls.length - k) } := by
  induction k generalizing L with
  | zero => simp [exec]
  | succ k ih =>
    rw [List.replicate_succ]
    show exec (step L .close) (List.replicate k .close) = _
    rw [ih]
    simp only [step, List.dropLast_eq_take, List.take_take, List.length_take]
    congr 2
    omega

theorem touches_closes (L : Layers) (k : Nat) : touchesOuter L (List.replicate k .close) = false := by
  induction k generalizing L with
  | zero => simp [touchesOuter]
  | succ k ih => rw [List.replicate_succ, touches_cons, ih]; simp [touchesOuter]

/-- leaving a callee: the overlays above the caller's `m` layers are closed -/
theorem AbsL.closes {dirty L t} (h : AbsL dirty L t) (m : Nat) (hm : 1 ≤ m) :
    AbsL (dirty.take m) (exec L (List.replicate (dirty.length - m) .close))
      (t || touchesOuter L (List.replicate (dirty.length - m) .close)) := by
  obtain ⟨d0, fl, rfl, h2, h3⟩ := h
  rw [touches_closes, Bool.or_false, exec_closes]
  obtain ⟨m', rfl⟩ : ∃ m', m = m' + 1 := ⟨m - 1, by omega⟩
  refine ⟨d0, fl.take m', by simp, h2, ?_⟩
  have hl := h3.length_eq
  have := List.forall₂_take m' h3
  simp only [List.length_cons]
  by_cases hle : m' ≤ fl.length
  · have e : L.ovls.length - (fl.length + 1 - (m' + 1)) = m' := by omega
    rw [e]; exact this
  · have e : L.ovls.length - (fl.length + 1 - (m' + 1)) = L.ovls.length := by omega
    rw [e, List.take_length]
    rw [List.take_of_length_le (by omega), List.take_of_length_le (by omega)] at this
    rw [List.take_of_length_le (by omega)]
    exact this

/-! ## abstraction relation between concrete configurations and abstract states -/

def PendOK : Pend → CErr → Prop
  | .no, c => c = .none
  | .yes, c => c ≠ .none
  | .yesW, c => c = .unav
  | .unk, _ => True
  | .unkW, c => ∀ o, c ≠ .ord o

def SrcOK : Src → CErr → Prop
  | .none, c => c = .none
  | .write, c => c = .unav
  | .call, c => c ≠ .none
  | .ext, c => c ≠ .none

def KindOK : Kind → RetKind → Prop
  | .ok, k => k = .ok
  | .err, k => k ≠ .ok
  | .errW, k => k = .errU
  | .maybe, _ => True
  | .maybeW, k => ∀ q, k ≠ .err q
  | .brk, _ => False

structure Abs (σ : Cfg) (L : Layers) (t : Bool) (a : AState) : Prop where
  len : a.layers.length = σ.n
  ctx : a.ctxDepth = σ.ctxD
  bnd : a.bind = σ.bind
  pend : PendOK a.pend σ.pend
  src : SrcOK a.src σ.src
  pos : a.errPos = "" ∨ a.errPos ∈ σ.chain
  lay : AbsL a.layers L t

/-- The abstract result `R` covers the concrete end of a path. -/
def Cov (R : Res) (σ' : Cfg) (L' : Layers) (t' : Bool) : Out → Prop
  | .fall => ∃ a' ∈ R.cont, Abs σ' L' t' a'
  | .ret k chain => ∃ e ∈ R.exits, Abs σ' L' t' e.st ∧ KindOK e.kind k ∧
      (e.pos ∈ chain ∨ (e.pos = "" ∧ (e.kind = .ok ∨ e.kind = .errW)))
  | .brk => ∃ e ∈ R.exits, e.kind = .brk ∧ Abs σ' L' t' e.st
  | .halt => True

theorem Cov.mono {R R' σ' L' t' o} (h : Cov R σ' L' t' o) (hle : Res.le R R') : Cov R' σ' L' t' o := by
  cases o with
  | fall => obtain ⟨a, ha, h⟩ := h; exact ⟨a, hle.1 a ha, h⟩
  | ret k c => obtain ⟨e, he, h⟩ := h; exact ⟨e, hle.2 e he, h⟩
  | brk => obtain ⟨e, he, h⟩ := h; exact ⟨e, hle.2 e he, h⟩
  | halt => trivial

theorem Cov.mono_exits {R R' σ' L' t' o} (h : Cov R σ' L' t' o) (ho : o ≠ .fall)
    (hle : ∀ e ∈ R.exits, e ∈ R'.exits) : Cov R' σ' L' t' o := by
  cases o with
  | fall => exact absurd rfl ho
  | ret k c => obtain ⟨e, he, h⟩ := h; exact ⟨e, hle e he, h⟩
  | brk => obtain ⟨e, he, h⟩ := h; exact ⟨e, hle e he, h⟩
  | halt => trivial

/-- composing the bookkeeping of two consecutive trace segments -/
theorem Cov.seq {R σ' L t t1 t2 o}
    (h : Cov R σ' (exec (exec L t1) t2) ((t || touchesOuter L t1) || touchesOuter (exec L t1) t2) o) :
    Cov R σ' (exec L (t1 ++ t2)) (t || touchesOuter L (t1 ++ t2)) o := by
  rw [exec_append, touches_append, ← Bool.or_assoc]; exact h

theorem run_pos {fuel f a R} (h : run fuel f a = some R) : ∃ n, fuel = n + 1 := by
  cases fuel with
  | zero => simp [run] at h
  | succ n => exact ⟨n, rfl⟩

theorem length_setAt (l : List Bool) (d : Nat) : (setAt l d).length = l.length := by
  induction l generalizing d with
  | nil => rfl
  | cons b bs ih => cases d <;> simp [setAt, ih]

theorem length_commitTop (l : List Bool) (h : 2 ≤ l.length) : (commitTop l).length = l.length - 1 := by
  have hne : l ≠ [] := by intro h0; simp [h0] at h
  have hne2 : l.dropLast ≠ [] := by
    intro h0
    have := congrArg List.length h0
    simp at this; omega
  have e1 := List.dropLast_append_getLast hne
  have e2 := List.dropLast_append_getLast hne2
  have : l = l.dropLast.dropLast ++ [l.dropLast.getLast hne2, l.getLast hne] := by
    rw [← List.singleton_append (l := [l.getLast hne]), ← List.append_assoc, e2, e1]
  by_cases h3 : l.dropLast.dropLast = []
  · rw [this, h3]; simp [commitTop]
  · have hl := commitTop_snoc2 _ (l.dropLast.getLast hne2) (l.getLast hne) h3
    rw [← this] at hl
    rw [hl]; simp; omega

theorem origin_mem {σ L t a} (h : Abs σ L t a) (pos : String) : origin a pos ∈ pos :: σ.chain := by
  unfold origin
  split
  · rename_i hc
    simp only [Bool.and_eq_true, ne_eq, decide_eq_true_eq] at hc
    rcases h.pos with h0 | h0
    · exact absurd h0 (by simpa using hc.1)
    · exact List.mem_cons_of_mem _ h0
  · exact List.mem_cons_self

theorem kindLast_ok {ap : Pend} {cp : CErr} (h : PendOK ap cp) (pos : String) (a : AState) (ha : a.pend = ap) :
    KindOK (exitKindLast a) (kindOfErr pos cp) := by
  unfold exitKindLast
  rw [ha]
  cases ap <;> cases cp <;> simp_all [PendOK, KindOK, kindOfErr]

/-! ## the simulation: every path is covered by the abstract run -/

def SoundA (f : Flow) (σ : Cfg) (tr : List Act) (o : Out) (σ' : Cfg) : Prop :=
  ∀ fuel a R L t, Abs σ L t a → run fuel f a = some R →
    Cov R σ' (exec L tr) (t || touchesOuter L tr) o

def SoundB (f : Flow) (σ : Cfg) (tr : List Act) (o : Out) (σ' : Cfg) : Prop :=
  ∀ gs, f = .seq gs → ∀ fuel r0 R a L t, Abs σ L t a → a ∈ r0.cont →
    seqFold (run fuel) gs (some r0) = some R → Cov R σ' (exec L tr) (t || touchesOuter L tr) o

def SoundC (f : Flow) (σ : Cfg) (tr : List Act) (o : Out) (σ' : Cfg) : Prop :=
  ∀ b, f = .loop b → ∀ fuel R a L t, Abs σ L t a → a ∈ R.cont → LoopClosed (run fuel b) R →
    Cov R σ' (exec L tr) (t || touchesOuter L tr) o

def Sound (f : Flow) (σ : Cfg) (tr : List Act) (o : Out) (σ' : Cfg) : Prop :=
  SoundA f σ tr o σ' ∧ SoundB f σ tr o σ' ∧ SoundC f σ tr o σ'

theorem run_seq (n : Nat) (l : List Flow) (a : AState) :
    run (n + 1) (.seq l) a = seqFold (run n) l (some { cont := [a], exits := [] }) := rfl

theorem run_loop (n : Nat) (b : Flow) (a : AState) :
    run (n + 1) (.loop b) a = loopFix (run n b) n { cont := [a], exits := [] } := rfl

theorem soundA_of_B {gs σ tr o σ'} (h : SoundB (.seq gs) σ tr o σ') : SoundA (.seq gs) σ tr o σ' := by
  intro fuel a R L t habs hrun
  obtain ⟨n, rfl⟩ := run_pos hrun
  rw [run_seq] at hrun
  exact h gs rfl n _ R a L t habs (by simp) hrun

theorem soundA_of_C {b σ tr o σ'} (h : SoundC (.loop b) σ tr o σ') : SoundA (.loop b) σ tr o σ' := by
  intro fuel a R L t habs hrun
  obtain ⟨n, rfl⟩ := run_pos hrun
  rw [run_loop] at hrun
  obtain ⟨h1, h2⟩ := loopFix_spec _ _ _ _ hrun
  exact h b rfl n R a L t habs (h1.1 a (by simp)) h2

/-- a flow that is neither `seq` nor `loop`: only clause A is to be shown -/
theorem sound_simple {f σ tr o σ'} (hs : ∀ gs, f ≠ .seq gs) (hl : ∀ b, f ≠ .loop b)
    (h : SoundA f σ tr o σ') : Sound f σ tr o σ' :=
  ⟨h, fun gs e => absurd e (hs gs), fun b e => absurd e (hl b)⟩

/-- one abstract successor state, no trace, falls through -/
theorem cov_step {σ' : Cfg} {L : Layers} {t : Bool} {a' : AState} (h : Abs σ' L t a') :
    Cov { cont := [a'], exits := [] } σ' (exec L []) (t || touchesOuter L []) .fall := by
  refine ⟨a', by simp, ?_⟩
  simpa [exec, touchesOuter] using h

theorem cov_exit {σ : Cfg} {L : Layers} {t : Bool} {a : AState} {kind : Kind} {pos : String} {k : RetKind}
    {chain : List String} (h : Abs σ L t a) (hk : KindOK kind k)
    (hp : pos ∈ chain ∨ (pos = "" ∧ (kind = .ok ∨ kind = .errW))) :
    Cov { cont := [], exits := [{ st := a, kind := kind, pos := pos }] } σ (exec L []) (t || touchesOuter L []) (.ret k chain) := by
  refine ⟨{ st := a, kind := kind, pos := pos }, by simp, ?_, hk, hp⟩
  simpa [exec, touchesOuter] using h

theorem abs_back {σ σ1 : Cfg} {L L1 : Layers} {t t1 : Bool} {a : AState} {e : Exit} {o : Out}
    (ha : Abs σ L t a) (he : Abs σ1 L1 t1 e.st)
    (hp : PendOK (back a e).pend (afterCall σ σ1 o).pend)
    (hc : (back a e).errPos = "" ∨ (back a e).errPos ∈ (afterCall σ σ1 o).chain) :
    Abs (afterCall σ σ1 o) (exec L1 (List.replicate (σ1.n - σ.n) .close))
      (t1 || touchesOuter L1 (List.replicate (σ1.n - σ.n) .close)) (back a e) := by
  have h1 : 1 ≤ a.layers.length := by have := ha.lay.length; omega
  have hl := AbsL.closes he.lay a.layers.length h1
  rw [he.len] at hl
  refine ⟨?_, ha.ctx, he.bnd, hp, ha.src, hc, ?_⟩
  · simp [back, afterCall, he.len, ha.len, Nat.min_comm]
  · rw [ha.len] at hl; simpa [back, ha.len] using hl

theorem cov_after {r0 R : Res} {σ σ' : Cfg} {L' : Layers} {t' : Bool} {o : Out} {a : AState}
    (h : Cov r0 σ' L' t' o) (hs : SrcOK a.src σ.src)
    (hc : ∀ st ∈ r0.cont, { st with src := a.src } ∈ R.cont) (he : ∀ e ∈ r0.exits, e ∈ R.exits) :
    Cov R (afterIf σ o σ') L' t' o := by
  cases o with
  | fall =>
    obtain ⟨a', ha', h⟩ := h
    exact ⟨_, hc a' ha', ⟨h.len, h.ctx, h.bnd, h.pend, hs, h.pos, h.lay⟩⟩
  | ret k c => obtain ⟨e, hm, h⟩ := h; exact ⟨e, he e hm, h⟩
  | brk => obtain ⟨e, hm, h⟩ := h; exact ⟨e, he e hm, h⟩
  | halt => trivial

def thenS (a : AState) (src : Src) : AState := { a with src := src, pend := .no }
def elseS (a : AState) : AState := { a with src := .none, pend := .no }
def afterMap (src : Src) (r : Res) : Res :=
  { r with cont := r.cont.foldl (fun acc st => insertNew { st with src := src } acc) [] }

theorem run_ifErr (n : Nat) (t e : Flow) (a : AState) :
    run (n + 1) (.ifErr t e) a =
      (match a.pend with
        | .yes => run n t (thenS a .call)
        | .yesW => run n t (thenS a .write)
        | .no => run n e (elseS a)
        | .unk => mergeO (run n t (thenS a .ext)) (run n e (elseS a))
        | .unkW => mergeO (run n t (thenS a .write)) (run n e (elseS a))).map (afterMap a.src) := rfl

theorem cov_afterMap {r0 rr : Res} {σ σ' : Cfg} {L' : Layers} {t' : Bool} {o : Out} {a : AState}
    (h : Cov r0 σ' L' t' o) (hs : SrcOK a.src σ.src) (hle : Res.le r0 rr) :
    Cov (afterMap a.src rr) (afterIf σ o σ') L' t' o := by
  refine cov_after h hs (fun st hst => ?_) (fun e he => hle.2 e he)
  exact (mem_foldl_insertNew _ _ _ _).2 (Or.inr ⟨st, hle.1 st hst, rfl⟩)

theorem mergeO_some {x y : Option Res} {R : Res} (h : mergeO x y = some R) :
    ∃ a b, x = some a ∧ y = some b ∧ R = a.merge b := by
  cases x <;> cases y <;> simp [mergeO] at h
  exact ⟨_, _, rfl, rfl, h.symm⟩

set_option hygiene false in
/-- common start of the cases of flows that are neither `seq` nor `loop` -/
macro "step_intro" : tactic =>
  `(tactic| (refine sound_simple (by intro _ h; cases h) (by intro _ h; cases h) ?_
             intro fuel a R L t habs hrun
             obtain ⟨n, rfl⟩ := run_pos hrun))

theorem sound {f σ tr o σ'} (h : Path f σ tr o σ') : Sound f σ tr o σ' := by
  induction h with
  | skip =>
    refine sound_simple (by intro _ h; cases h) (by intro _ h; cases h) ?_
    intro fuel a R L t habs hrun
    obtain ⟨n, rfl⟩ := run_pos hrun
    simp only [run, Option.some.injEq] at hrun
    subst hrun
    exact cov_step habs
  | @seqNil σ =>
    have hB : SoundB (.seq []) σ [] .fall σ := by
      intro gs e fuel r0 R a L t habs hmem hrun
      cases e
      simp only [seqFold, List.foldl_nil, Option.some.injEq] at hrun
      subst hrun
      exact ⟨a, hmem, by simpa [exec, touchesOuter] using habs⟩
    exact ⟨soundA_of_B hB, hB, (fun b e => by cases e)⟩
  | @seqCons g gs σ t1 σ1 t2 o σ2 _ _ ih1 ih2 =>
    have hB : SoundB (.seq (g :: gs)) σ (t1 ++ t2) o σ2 := by
      intro gs' e fuel r0 R a L t habs hmem hrun
      cases e
      rw [seqFold_cons] at hrun
      cases ho : overStates (run fuel g) r0.cont (some { cont := [], exits := r0.exits }) with
      | none => rw [ho, seqFold_none] at hrun; cases hrun
      | some r1 =>
        rw [ho] at hrun
        obtain ⟨b, hb, hle⟩ := (overStates_spec _ _ _ _ ho).2 a hmem
        obtain ⟨a1, ha1, habs1⟩ := ih1.1 fuel a b L t habs hb
        exact Cov.seq (ih2.2.1 gs rfl fuel r1 R a1 _ _ habs1 (hle.1 a1 ha1) hrun)
    exact ⟨soundA_of_B hB, hB, (fun b e => by cases e)⟩
  | @seqStop g gs σ t o σ' _ hne ih =>
    have hB : SoundB (.seq (g :: gs)) σ t o σ' := by
      intro gs' e fuel r0 R a L t habs hmem hrun
      cases e
      rw [seqFold_cons] at hrun
      cases ho : overStates (run fuel g) r0.cont (some { cont := [], exits := r0.exits }) with
      | none => rw [ho, seqFold_none] at hrun; cases hrun
      | some r1 =>
        rw [ho] at hrun
        obtain ⟨b, hb, hle⟩ := (overStates_spec _ _ _ _ ho).2 a hmem
        have hc := ih.1 fuel a b L t habs hb
        exact hc.mono_exits hne (fun e he => seqFold_exits _ _ _ _ hrun e (hle.2 e he))
    exact ⟨soundA_of_B hB, hB, (fun b e => by cases e)⟩
  | @alt l g σ t o σ' hmem _ ih =>
    refine sound_simple (by intro _ h; cases h) (by intro _ h; cases h) ?_
    intro fuel a R L t habs hrun
    obtain ⟨n, rfl⟩ := run_pos hrun
    simp only [run] at hrun
    obtain ⟨b, hb, hle⟩ := (foldMerge_spec (fun g => run n g a) l _ R hrun).2 g hmem
    exact (ih.1 n a b L t habs hb).mono hle
  | @loopDone b σ =>
    have hC : SoundC (.loop b) σ [] .fall σ := by
      intro b e fuel R a L t habs hmem _
      exact ⟨a, hmem, by simpa [exec, touchesOuter] using habs⟩
    exact ⟨soundA_of_C hC, (fun gs e => by cases e), hC⟩
  | @loopIter b σ t1 σ1 t2 o σ2 _ _ ih1 ih2 =>
    have hC : SoundC (.loop b) σ (t1 ++ t2) o σ2 := by
      intro b' e fuel R a L t habs hmem hcl
      cases e
      obtain ⟨bb, hb, hle⟩ := hcl a hmem
      obtain ⟨a1, ha1, habs1⟩ := ih1.1 fuel a bb L t habs hb
      have ha1R : a1 ∈ R.cont := hle.1 a1 ((catchBrk_le _ _).1 a1 ha1)
      exact Cov.seq (ih2.2.2 b rfl fuel R a1 _ _ habs1 ha1R hcl)
    exact ⟨soundA_of_C hC, (fun gs e => by cases e), hC⟩
  | @loopBrk b σ t1 σ1 t2 o σ2 _ _ ih1 ih2 =>
    have hC : SoundC (.loop b) σ (t1 ++ t2) o σ2 := by
      intro b' e fuel R a L t habs hmem hcl
      cases e
      obtain ⟨bb, hb, hle⟩ := hcl a hmem
      obtain ⟨e, he, hk, habs1⟩ := ih1.1 fuel a bb L t habs hb
      have hmemR : { e.st with src := a.src } ∈ R.cont := hle.1 _ (catchBrk_brk a.src bb e he hk)
      have habs2 : Abs { σ1 with src := σ.src } (exec L t1) (t || touchesOuter L t1) { e.st with src := a.src } :=
        ⟨habs1.len, habs1.ctx, habs1.bnd, habs1.pend, habs.src, habs1.pos, habs1.lay⟩
      exact Cov.seq (ih2.2.2 b rfl fuel R _ _ _ habs2 hmemR hcl)
    exact ⟨soundA_of_C hC, (fun gs e => by cases e), hC⟩
  | @loopExit b σ t o σ' _ hne ih =>
    have hC : SoundC (.loop b) σ t o σ' := by
      intro b' e fuel R a L t habs hmem hcl
      cases e
      obtain ⟨bb, hb, hle⟩ := hcl a hmem
      exact (ih.1 fuel a bb L t habs hb).mono_exits hne (fun e he => hle.2 e he)
    exact ⟨soundA_of_C hC, (fun gs e => by cases e), hC⟩
  | @extOk σ =>
    step_intro
    simp only [run, Option.some.injEq] at hrun
    subst hrun
    exact cov_step ⟨habs.len, habs.ctx, habs.bnd, by simp [PendOK], habs.src, habs.pos, habs.lay⟩
  | @extFail σ =>
    step_intro
    simp only [run, Option.some.injEq] at hrun
    subst hrun
    exact cov_step ⟨habs.len, habs.ctx, habs.bnd, by simp [PendOK], habs.src, habs.pos, habs.lay⟩
  | @extUOk σ =>
    step_intro
    simp only [run, Option.some.injEq] at hrun
    subst hrun
    exact cov_step ⟨habs.len, habs.ctx, habs.bnd, by simp [PendOK], habs.src, habs.pos, habs.lay⟩
  | @extUFail σ =>
    step_intro
    simp only [run, Option.some.injEq] at hrun
    subst hrun
    exact cov_step ⟨habs.len, habs.ctx, habs.bnd, by simp [PendOK], habs.src, habs.pos, habs.lay⟩
  | @writeOk σ v w k x =>
    step_intro
    simp only [run, Option.some.injEq] at hrun
    subst hrun
    refine ⟨_, List.mem_singleton.2 rfl, ?_⟩
    have hl := AbsL.wr (look a.bind v) k x (habs.lay.mono (look a.bind v))
    rw [habs.bnd] at hl
    refine ⟨by simp [length_setAt, habs.len], habs.ctx, habs.bnd, by simp [PendOK], habs.src, habs.pos, ?_⟩
    simpa [exec, habs.bnd] using hl
  | @writeFail σ v w k x =>
    step_intro
    simp only [run, Option.some.injEq] at hrun
    subst hrun
    refine ⟨_, List.mem_singleton.2 rfl, ?_⟩
    have hl := AbsL.wr (look a.bind v) k x (habs.lay.mono (look a.bind v))
    rw [habs.bnd] at hl
    refine ⟨by simp [length_setAt, habs.len], habs.ctx, habs.bnd, by simp [PendOK], habs.src, habs.pos, ?_⟩
    simpa [exec, habs.bnd] using hl
  | @writeFail0 σ v w =>
    step_intro
    simp only [run, Option.some.injEq] at hrun
    subst hrun
    exact cov_step ⟨by simp [length_setAt, habs.len], habs.ctx, habs.bnd, by simp [PendOK], habs.src, habs.pos,
      habs.lay.mono _⟩
  | @mk σ v c =>
    step_intro
    simp only [run, Option.some.injEq] at hrun
    subst hrun
    exact cov_step ⟨habs.len, habs.ctx, by simp [habs.bnd, habs.ctx], habs.pend, habs.src, habs.pos, habs.lay⟩
  | @beginTx σ nw old =>
    step_intro
    simp only [run, Option.some.injEq] at hrun
    subst hrun
    refine ⟨_, List.mem_singleton.2 rfl, ?_⟩
    refine ⟨by simp [habs.len], by simp [habs.ctx, habs.len], habs.bnd, habs.pend, habs.src, habs.pos, ?_⟩
    simpa [exec] using habs.lay.begin
  | @commitDo σ c h0 h1 =>
    step_intro
    rw [← habs.ctx] at h0 h1
    rw [← habs.len] at h1
    simp only [run, h0, h1, if_false, if_true, Option.some.injEq] at hrun
    subst hrun
    refine ⟨_, List.mem_singleton.2 rfl, ?_⟩
    have h2 : 2 ≤ a.layers.length := by omega
    refine ⟨by simp [length_commitTop _ h2, habs.len], habs.ctx, habs.bnd, habs.pend, habs.src, habs.pos, ?_⟩
    simpa [exec] using habs.lay.commit h2
  | @commitNo σ c hn =>
    step_intro
    rw [← habs.ctx, ← habs.len] at hn
    have hR : R = { cont := [a], exits := [] } := by
      simp only [run] at hrun
      split at hrun
      · exact (Option.some.inj hrun).symm
      · split at hrun
        · rename_i h0 h1; exact absurd ⟨h0, h1⟩ hn
        · exact (Option.some.inj hrun).symm
    subst hR
    exact cov_step habs
  | @publish σ c ws e he =>
    step_intro
    simp only [run, Option.some.injEq] at hrun
    subst hrun
    refine ⟨_, List.mem_singleton.2 rfl, ?_⟩
    have hl := AbsL.writes (look a.ctxDepth c) ws (habs.lay.mono (look a.ctxDepth c))
    rw [habs.ctx] at hl
    exact ⟨by simp [length_setAt, habs.len], habs.ctx, habs.bnd, by simp [PendOK], habs.src, habs.pos,
      by simpa [habs.ctx] using hl⟩
  | @clearErr σ =>
    step_intro
    simp only [run, Option.some.injEq] at hrun
    subst hrun
    exact cov_step ⟨habs.len, habs.ctx, habs.bnd, by simp [PendOK], habs.src, habs.pos, habs.lay⟩
  | @halt σ =>
    step_intro
    trivial
  | @closureRet σ =>
    step_intro
    simp only [run, Option.some.injEq] at hrun
    subst hrun
    exact ⟨_, List.mem_singleton.2 rfl, rfl, by simpa [exec, touchesOuter] using habs⟩
  | @retOk σ =>
    step_intro
    simp only [run, Option.some.injEq] at hrun
    subst hrun
    exact cov_exit habs rfl (Or.inr ⟨rfl, Or.inl rfl⟩)
  | @retErrU σ =>
    step_intro
    simp only [run, Option.some.injEq] at hrun
    subst hrun
    exact cov_exit habs rfl (Or.inr ⟨rfl, Or.inr rfl⟩)
  | @retErr σ pos =>
    step_intro
    simp only [run, Option.some.injEq] at hrun
    subst hrun
    refine cov_exit habs ?_ (Or.inl (origin_mem habs pos))
    have hs := habs.src
    unfold kindNew
    by_cases hw : a.src = .write
    · rw [hw] at hs
      simp only [SrcOK] at hs
      simp [hw, hs, KindOK]
    · by_cases hu : σ.src = .unav <;> simp [hw, hu, KindOK]
  | @retErrVar σ pos =>
    step_intro
    simp only [run, Option.some.injEq] at hrun
    subst hrun
    refine cov_exit habs ?_ (Or.inl (origin_mem habs pos))
    have hs := habs.src
    unfold exitKindVar kindVar
    cases hsa : a.src with
    | none =>
      rw [hsa] at hs; simp only [SrcOK] at hs
      simp only [hs]
      exact kindLast_ok habs.pend pos a rfl
    | write =>
      rw [hsa] at hs; simp only [SrcOK] at hs
      simp [hs, KindOK, kindOfErr]
    | call =>
      rw [hsa] at hs; simp only [SrcOK] at hs
      cases hc : σ.src <;> simp_all [KindOK, kindOfErr]
    | ext =>
      rw [hsa] at hs; simp only [SrcOK] at hs
      cases hc : σ.src <;> simp_all [KindOK, kindOfErr]
  | @retLast σ pos =>
    step_intro
    simp only [run, Option.some.injEq] at hrun
    subst hrun
    exact cov_exit habs (kindLast_ok habs.pend pos a rfl) (Or.inl (origin_mem habs pos))
  | @retMaybe σ pos k hk =>
    step_intro
    simp only [run, Option.some.injEq] at hrun
    subst hrun
    exact cov_exit habs (by simp [KindOK]) (Or.inl List.mem_cons_self)
  | @callHalt nm body σ t σ1 _ ih =>
    step_intro
    trivial
  | @callRet nm body σ t o σ1 _ hne ih =>
    step_intro
    simp only [run] at hrun
    cases hb : run n body { a with pend := .no, src := .none } with
    | none => simp [hb] at hrun
    | some r =>
      simp only [hb, Option.some.injEq] at hrun
      subst hrun
      have habs0 : Abs (calleeCfg σ) L t { a with pend := .no, src := .none } :=
        ⟨habs.len, habs.ctx, habs.bnd, rfl, rfl, habs.pos, habs.lay⟩
      have hc := ih.1 n _ r L t habs0 hb
      apply Cov.seq
      have hn : (calleeCfg σ).n = σ.n := rfl
      cases o with
      | fall =>
        obtain ⟨a1, ha1, h1⟩ := hc
        refine ⟨back a { st := a1, kind := .ok, pos := "" },
          (mem_foldl_insertNew _ _ _ _).2 (Or.inr ⟨_, ?_, rfl⟩), abs_back habs h1 rfl (Or.inl rfl)⟩
        exact List.mem_append_right _ (List.mem_map.2 ⟨a1, ha1, rfl⟩)
      | ret k c =>
        obtain ⟨e, he, h1, hk, hp⟩ := hc
        refine ⟨back a e, (mem_foldl_insertNew _ _ _ _).2 (Or.inr ⟨e, List.mem_append_left _ he, rfl⟩),
          abs_back habs h1 ?_ ?_⟩
        · cases hek : e.kind <;> cases k <;> simp_all [back, afterCall, PendOK, KindOK]
        · cases hek : e.kind <;> simp_all [back, afterCall, KindOK]
          exact hp.symm
      | brk =>
        obtain ⟨e, he, hk, h1⟩ := hc
        refine ⟨back a e, (mem_foldl_insertNew _ _ _ _).2 (Or.inr ⟨e, List.mem_append_left _ he, rfl⟩),
          abs_back habs h1 ?_ ?_⟩
        · simp [back, afterCall, hk, PendOK]
        · simp [back, hk]
      | halt => exact absurd rfl hne
  | @ifThen tb eb σ tr o σ' hpend _ ih =>
    step_intro
    rw [run_ifErr] at hrun
    obtain ⟨rr, hrr, rfl⟩ := Option.map_eq_some_iff.1 hrun
    have key : ∀ s r0, SrcOK s σ.pend → run n tb (thenS a s) = some r0 → Res.le r0 rr →
        Cov (afterMap a.src rr) (afterIf σ o σ') (exec L tr) (t || touchesOuter L tr) o := by
      intro s r0 hs hr hle
      have habs0 : Abs { σ with src := σ.pend, pend := .none } L t (thenS a s) :=
        ⟨habs.len, habs.ctx, habs.bnd, rfl, hs, habs.pos, habs.lay⟩
      exact cov_afterMap (ih.1 n _ r0 L t habs0 hr) habs.src hle
    have hp := habs.pend
    cases hpa : a.pend with
    | yes =>
      rw [hpa] at hrr hp
      exact key .call rr hpend hrr (Res.le_refl _)
    | yesW =>
      rw [hpa] at hrr hp
      exact key .write rr hp hrr (Res.le_refl _)
    | no =>
      rw [hpa] at hp
      exact absurd hp hpend
    | unk =>
      rw [hpa] at hrr
      obtain ⟨x, y, hx, hy, rfl⟩ := mergeO_some hrr
      exact key .ext x hpend hx (le_merge_left _ _)
    | unkW =>
      rw [hpa] at hrr hp
      obtain ⟨x, y, hx, hy, rfl⟩ := mergeO_some hrr
      refine key .write x ?_ hx (le_merge_left _ _)
      simp only [PendOK] at hp
      cases hc : σ.pend with
      | none => exact absurd hc hpend
      | ord q => exact absurd hc (hp q)
      | unav => rfl
  | @ifElse tb eb σ tr o σ' hpend _ ih =>
    step_intro
    rw [run_ifErr] at hrun
    obtain ⟨rr, hrr, rfl⟩ := Option.map_eq_some_iff.1 hrun
    have key : ∀ r0, run n eb (elseS a) = some r0 → Res.le r0 rr →
        Cov (afterMap a.src rr) (afterIf σ o σ') (exec L tr) (t || touchesOuter L tr) o := by
      intro r0 hr hle
      have habs0 : Abs { σ with src := .none, pend := .none } L t (elseS a) :=
        ⟨habs.len, habs.ctx, habs.bnd, rfl, rfl, habs.pos, habs.lay⟩
      exact cov_afterMap (ih.1 n _ r0 L t habs0 hr) habs.src hle
    have hp := habs.pend
    cases hpa : a.pend with
    | yes => rw [hpa] at hp; exact absurd hpend hp
    | yesW => rw [hpa, hpend] at hp; cases hp
    | no => rw [hpa] at hrr; exact key rr hrr (Res.le_refl _)
    | unk =>
      rw [hpa] at hrr
      obtain ⟨x, y, hx, hy, rfl⟩ := mergeO_some hrr
      exact key y hy (le_merge_right _ _)
    | unkW =>
      rw [hpa] at hrr
      obtain ⟨x, y, hx, hy, rfl⟩ := mergeO_some hrr
      exact key y hy (le_merge_right _ _)

/-! ## headline theorems -/

theorem abs_init (outer : KV) : Abs initCfg { outer := outer, ovls := [] } false initState :=
  ⟨rfl, rfl, rfl, rfl, rfl, Or.inl rfl, ⟨false, [], rfl, (fun h => h), List.Forall₂.nil⟩⟩

theorem mem_flaggedFold (es : List Exit) (acc : List String) (e : Exit) (he : e ∈ es)
    (hc : (outerDirty e && (e.kind == .err || e.kind == .maybe)) = true) :
    e.pos ∈ es.foldl (fun acc e =>
      if outerDirty e && (e.kind == .err || e.kind == .maybe) then insertNew e.pos acc else acc) acc := by
  have stay : ∀ (l : List Exit) (acc : List String), e.pos ∈ acc →
      e.pos ∈ l.foldl (fun acc e =>
        if outerDirty e && (e.kind == .err || e.kind == .maybe) then insertNew e.pos acc else acc) acc := by
    intro l
    induction l with
    | nil => exact fun _ h => h
    | cons y ys ih =>
      intro acc h
      simp only [List.foldl_cons]
      apply ih
      split
      · exact (mem_insertNew _ _ _).2 (Or.inr h)
      · exact h
  induction es generalizing acc with
  | nil => cases he
  | cons x xs ih =>
    simp only [List.foldl_cons]
    rcases List.mem_cons.1 he with rfl | he
    · rw [if_pos hc]
      exact stay xs _ ((mem_insertNew _ _ _).2 (Or.inl rfl))
    · exact ih _ he

/-- **Soundness of `flagged`, with sites.**  If the analysis returns the list `sites` for `f`, then
every path of `f` from the initial configuration that ends in an ORDINARY error return (not a
state-unavailable error, not a panic) and whose trace touches layer 0 of the layered state —
writes through a wrapper bound to the block state tree, or commits a non-empty overlay onto it —
returns through a site of `sites`: one of the return sites in the error's propagation chain
(the root's `return` first, then those of the inlined callee that returned last) is listed. -/
theorem flagged_sound_sites (fuel : Nat) (f : Flow) (sites : List String) (h : flagged fuel f = some sites)
    (outer : KV) (tr : List Act) (q : String) (chain : List String) (σ' : Cfg)
    (hp : Path f initCfg tr (.ret (.err q) chain) σ')
    (ht : touchesOuter { outer := outer, ovls := [] } tr = true) :
    ∃ p ∈ chain, p ∈ sites := by
  unfold flagged at h
  cases hr : run fuel f initState with
  | none => simp [hr] at h
  | some R =>
    simp only [hr, Option.some.injEq] at h
    obtain ⟨e, he, habs, hk, hpos⟩ := (sound hp).1 fuel initState R _ false (abs_init outer) hr
    have hd : outerDirty e = true := by
      obtain ⟨d0, fl, hl, h2, _⟩ := habs.lay
      unfold outerDirty
      rw [hl]
      exact h2 (by simpa using ht)
    have hkind : e.kind = .err ∨ e.kind = .maybe := by
      cases hek : e.kind <;> simp_all [KindOK]
    have hpc : e.pos ∈ chain := by
      rcases hpos with h1 | ⟨_, h2 | h2⟩
      · exact h1
      · rcases hkind with h3 | h3 <;> simp [h3] at h2
      · rcases hkind with h3 | h3 <;> simp [h3] at h2
    refine ⟨e.pos, hpc, ?_⟩
    rw [← h]
    apply mem_flaggedFold _ _ e he
    rcases hkind with h3 | h3 <;> simp [hd, h3]

/-- **Soundness of `flagged`.**  If the analysis reports no site for `f`, no path of `f` that ends
in an ordinary error return touches layer 0. -/
theorem flagged_sound (fuel : Nat) (f : Flow) (h : flagged fuel f = some [])
    (outer : KV) (tr : List Act) (q : String) (chain : List String) (σ' : Cfg)
    (hp : Path f initCfg tr (.ret (.err q) chain) σ') :
    touchesOuter { outer := outer, ovls := [] } tr = false := by
  cases ht : touchesOuter { outer := outer, ovls := [] } tr with
  | false => rfl
  | true =>
    obtain ⟨p, _, hp2⟩ := flagged_sound_sites fuel f [] h outer tr q chain σ' hp ht
    cases hp2

theorem step_outer (s : Layers) (a : Act) (h : touchesOuter s [a] = false) :
    (step s a).outer = s.outer := by
  cases a with
  | wr d k v =>
    cases d with
    | zero => simp [touchesOuter] at h
    | succ d => simp [step]
  | begin => simp [step]
  | commit =>
    simp only [touchesOuter, Bool.or_false] at h
    simp only [step]
    cases hr : s.ovls.reverse with
    | nil => rfl
    | cons top t =>
      cases t with
      | nil =>
        rw [hr] at h
        simp at h
        subst h
        rfl
      | cons below rest => rfl
  | close => simp [step]

theorem untouched_outer (acts : List Act) (s : Layers) (h : touchesOuter s acts = false) :
    (exec s acts).outer = s.outer := by
  induction acts generalizing s with
  | nil => rfl
  | cons a rest ih =>
    rw [touches_cons, Bool.or_eq_false_iff] at h
    show (exec (step s a) rest).outer = s.outer
    rw [ih (step s a) h.2, step_outer s a h.1]

/-- **A failing handler with no flagged site leaves the block state tree as it found it**: for
every concrete content `outer` of layer 0, every path ending in an ordinary error, the state after
executing the path's trace has the same layer 0. -/
theorem flagged_sound_state (fuel : Nat) (f : Flow) (h : flagged fuel f = some [])
    (outer : KV) (tr : List Act) (q : String) (chain : List String) (σ' : Cfg)
    (hp : Path f initCfg tr (.ret (.err q) chain) σ') :
    (exec { outer := outer, ovls := [] } tr).outer = outer :=
  untouched_outer tr _ (flagged_sound fuel f h outer tr q chain σ' hp)

/-! ### non-vacuity and the counterexamples that the proof forced out of the old analysis -/

/-- the hypotheses are satisfiable: a clean handler with a failing path -/
example : flagged 20 (.seq [.beginTx 2 2, .mk 1 2, .write 1 "SetNode", .ifErr (.retErr "w") .skip,
    .ext, .ifErr (.retErr "late") .skip, .commitTx 2, .retOk]) = some [] := by decide

/-- … and that handler has a failing path (which writes into the overlay only) -/
example : ∃ tr q chain σ', Path (.seq [.beginTx 2 2, .mk 1 2, .write 1 "SetNode", .ifErr (.retErr "w") .skip,
    .ext, .ifErr (.retErr "late") .skip, .commitTx 2, .retOk]) initCfg tr (.ret (.err q) chain) σ' :=
  ⟨_, _, _, _, .seqCons .beginTx (.seqCons .mk (.seqCons (.writeOk 7 (some 1)) (.seqCons (.ifElse rfl .skip)
    (.seqCons .extFail (.seqStop (.ifThen (by simp) .retErr) (by simp))))))⟩

/-- (1) a loop needing four iterations to carry a write down to layer 0 (the old analysis unrolled
three times and reported nothing) -/
example : flagged 30 (.seq [.beginTx 1 0, .beginTx 2 1, .beginTx 3 2, .beginTx 4 3, .mk 5 4, .write 5 "x",
    .ifErr .retErrU .skip, .loop (.alt [.commitTx 4, .commitTx 3, .commitTx 2, .commitTx 1]),
    .ext, .ifErr (.retErr "p") .skip, .retOk]) = some ["p"] := by decide
/-- (2) `return st.Set(…)` in a callee (old: treated as a return of nil), the caller swallows the
write failure, commits and later fails -/
example : flagged 30 (.seq [.beginTx 2 1, .mk 3 2, .call "g" (.seq [.write 3 "x", .retLast "p"]),
    .ifErr (.commitTx 2) .skip, .ext, .ifErr (.retErr "q") .skip, .retOk]) = some ["q"] := by decide
/-- (3) `return` inside a function literal (old: fell through into the rest of the literal) -/
example : flagged 30 (.seq [.mk 1 0, .loop (.seq [.write 1 "x", .closureRet, .halt]), .ext,
    .ifErr (.retErr "q") .skip, .retOk]) = some ["q"] := by decide

end OasisProofs.C08Sound
