import OasisModel.Auth.SigCtx
import OasisModel.Auth.Nonce
import Generated.SigContexts
import OasisProofs.Helpers.Auth
/-
C09 — only authentic, correctly sequenced transactions execute, once.

Part A (domain separation).  The digest that is signed is `H(effective-context ‖ message)` with no length
prefix between context and message.  The obligation on the *regenerated* table of all
`signature.NewContext` registrations is therefore prefix-freeness, not mere uniqueness:
`table_heads_prefix_free` (by `decide`, re-checked whenever the Go source changes).  From it, for every
hash `H` that is injective (collision resistance as a hypothesis), `signInput_injective`.  In an ideal
signature model (a verification that succeeds was produced by an honest `ContextSign` call for the same
public key and digest — a hypothesis, never an axiom) a signature made for another registered context,
for another chain, or over another message does not verify as a transaction signature.

Part B (sequencing).  For every history of operations of the admission pipeline model
(`OasisModel.Auth.run`): a transaction is authenticated only with a valid signature and a nonce equal to
the account nonce; authentication advances the nonce by exactly one; nonces never decrease under any
operation, failed transactions included; hence the same raw bytes are authenticated at most once in any
history across blocks and restarts (`no_replay`) and the authenticated nonces of every signer are
consecutive (`in_order`).
-/
namespace OasisProofs.C09
open OasisModel.Auth

/-! ## Part A — prefix-freeness and injectivity of the sign input -/

/-- **Distinct registrations never collide**, whatever follows their heads (any dynamic suffix value, any
chain id of any length, any message; this also covers the open `fmt.Sprintf` registration). -/
theorem distinct_contexts_never_collide (t : List Ctx) (hpf : headsPrefixFree t = true) (c d : Ctx)
    (hc : c ∈ t) (hd : d ∈ t) (hne : c ≠ d) (x y : Bytes) : head c ++ x ≠ head d ++ y := by
  intro h
  exact hne (eq_of_comparable_heads t hpf c d hc hd (comparable_of_append_eq _ _ _ _ h))

/-- The pre-image of the signed digest determines registration, dynamic suffix, chain id and message,
provided dynamic-suffix values have one common length and chain ids have one common length. -/
theorem signPre_injective (t : List Ctx) (hpf : headsPrefixFree t = true) (c₁ c₂ : Ctx)
    (h₁ : c₁ ∈ t) (h₂ : c₂ ∈ t) (s₁ s₂ k₁ k₂ m₁ m₂ : Bytes)
    (hs : c₁.dyn.isSome → c₂.dyn.isSome → s₁.length = s₂.length)
    (hk : c₁.chain = true → c₂.chain = true → k₁.length = k₂.length)
    (h : signPre c₁ s₁ k₁ m₁ = signPre c₂ s₂ k₂ m₂) :
    c₁ = c₂ ∧ (c₁.dyn.isSome → s₁ = s₂) ∧ (c₁.chain = true → k₁ = k₂) ∧ m₁ = m₂ := by
  unfold signPre effective at h
  rw [List.append_assoc, List.append_assoc] at h
  have hc : c₁ = c₂ := eq_of_comparable_heads t hpf c₁ c₂ h₁ h₂ (comparable_of_append_eq _ _ _ _ h)
  subst hc
  have h' := List.append_cancel_left h
  refine ⟨rfl, ?_⟩
  unfold tail at h'
  cases hd : c₁.dyn with
  | none =>
    rw [hd] at h'
    cases hch : c₁.chain with
    | false =>
      rw [hch] at h'
      simp at h'
      simp [h']
    | true =>
      rw [hch] at h'
      simp only [if_true] at h'
      have := List.append_inj h' (hk hch hch)
      simp [this.1, this.2]
  | some dn =>
    rw [hd] at h'
    have hsl : s₁.length = s₂.length := hs (by simp [hd]) (by simp [hd])
    cases hch : c₁.chain with
    | false =>
      rw [hch] at h'
      simp at h'
      have := List.append_inj h' hsl
      simp [this.1, this.2]
    | true =>
      rw [hch] at h'
      simp only [if_true, List.append_assoc] at h'
      have h1 := List.append_inj h' hsl
      have h2 := List.append_cancel_left h1.2
      have h3 := List.append_inj h2 (hk hch hch)
      simp [h1.1, h3.1, h3.2]

/-- **signInput_injective.** Under collision resistance of the hash (`Function.Injective H`), equal sign
inputs imply equal context, equal dynamic suffix, equal chain and equal message. -/
theorem signInput_injective {D : Type} (H : Bytes → D) (hH : Function.Injective H)
    (t : List Ctx) (hpf : headsPrefixFree t = true) (c₁ c₂ : Ctx)
    (h₁ : c₁ ∈ t) (h₂ : c₂ ∈ t) (s₁ s₂ k₁ k₂ m₁ m₂ : Bytes)
    (hs : c₁.dyn.isSome → c₂.dyn.isSome → s₁.length = s₂.length)
    (hk : c₁.chain = true → c₂.chain = true → k₁.length = k₂.length)
    (h : signInput H c₁ s₁ k₁ m₁ = signInput H c₂ s₂ k₂ m₂) :
    c₁ = c₂ ∧ (c₁.dyn.isSome → s₁ = s₂) ∧ (c₁.chain = true → k₁ = k₂) ∧ m₁ = m₂ :=
  signPre_injective t hpf c₁ c₂ h₁ h₂ s₁ s₂ k₁ k₂ m₁ m₂ hs hk (hH h)

/-- The model's `prepare` (mirror of `WithSuffix` + `PrepareSignerContext`, tied to the Go code by the
authdrv correspondence) yields exactly `effective`. -/
theorem prepare_eq_effective (c : Ctx) (suffix : Option Bytes) (k out : Bytes)
    (h : prepare c suffix k = .ok out) : out = effective c (suffix.getD []) k := by
  unfold prepare at h
  unfold effective head tail
  cases suffix with
  | some s =>
    cases hd : c.dyn with
    | none => simp [hd] at h
    | some dn =>
      obtain ⟨d, n⟩ := dn
      simp only [hd] at h
      split at h
      · cases h
      · cases hch : c.chain
        · simp [hch] at h
          simp [← h]
        · by_cases hk : k = []
          · simp [hch, hk] at h
          · simp [hch, hk] at h
            simp [← h]
  | none =>
    cases hd : c.dyn <;> cases hch : c.chain <;> by_cases hk : k = [] <;> simp [hd, hch, hk] at h <;>
      simp [← h]

/-! ### The regenerated table -/

/-- Every `signature.NewContext` registration in the non-test Go sources, as regenerated on this run. -/
def table : List Ctx := Generated.SigContexts.table.map ofGen

/-- **The obligation on the current source**: no registered head is a prefix of another. -/
theorem table_heads_prefix_free : headsPrefixFree table = true := by decide

/-- Every registration passes the `NewContext` checks (non-empty, fits `ed25519.ContextMaxSize` together
with its options, does not contain the chain separator). -/
theorem table_entries_wellformed : table.all newContextOk = true := by decide

/-- The transaction signature context is registered with chain separation and no dynamic suffix. -/
theorem txCtx_registered : txCtx ∈ table := by decide

/-- Constants the model hard-codes agree with signer.go. -/
theorem constants_match :
    Generated.SigContexts.chainContextSeparatorBytes = sep ∧
    Generated.SigContexts.chainContextMaxSize = chainMax := by decide

/-- Facts about call sites that the assumptions below rest on, as they stand in the current source:
the chain context is the hex form of the genesis document hash (fixed length 64); every dynamic suffix
value is `runtimeID.String()` (hex of a 32-byte namespace, fixed length 64). -/
theorem callsite_facts :
    Generated.SigContexts.chainContextBody = "return d.Hash().Hex()" ∧
    Generated.SigContexts.withSuffixArgs.all (fun p => p.2 == "runtimeID.String()") = true := by decide

/-- Routing facts of `processTx` as they stand in the current source: no transaction body type declares
`MethodMetadata` (so no method is critical and none skips `AuthenticateTx`); the only system method is
the block-metadata method; the account nonce is written only by `AuthenticateAndPayFees` (DeliverTx)
and `PostExecuteTx` (CheckTx state). -/
theorem routing_facts :
    Generated.SigContexts.methodMetadataImpls = [] ∧
    Generated.SigContexts.systemMethods = ["MethodMeta"] ∧
    Generated.SigContexts.nonceWriters =
      [("consensus/cometbft/apps/staking/auth.go", "PostExecuteTx", "account.General.Nonce++"),
       ("consensus/cometbft/apps/staking/state/gas.go", "AuthenticateAndPayFees", "account.General.Nonce++")] := by
  decide

/-- Who writes staking account records, as it stands in the current source (the sequencing theorems let
handlers change balances arbitrarily but assume they never lower a nonce; `Op.setBalance`).
* The account key space is written by exactly one function, `MutableState.SetAccount` (an insert); **no
  function removes an account record** (a removed account reads back as the empty account, nonce 0).
* Every `SetAccount` call site is listed with the provenance of the account value it stores. All handler
  and block-level sites are read-modify-write: the stored value was obtained by `…Account(ctx, a)` for the
  *same* address expression `a` (or is an alias of such a value taken when the two addresses are equal:
  `escrow = delegator`, `to = from`, `from = to`; or comes from the stake accumulator cache, which loads by
  the same address), and by `routing_facts` no code assigns `General.Nonce` or replaces `General` except
  the two `Nonce++`. The only sites that store a value not read from the state are `initLedger` (genesis,
  InitChain only), the interop test fixture, and the debug-only `dummy` upgrade migration (writes a fresh
  account record for its test entity).
A new writer, a removal, or a changed provenance breaks this theorem and has to be justified here. -/
theorem account_writer_facts :
    Generated.SigContexts.accountKeyWrites =
      [("consensus/cometbft/apps/staking/state/state.go", "SetAccount", "Insert")] ∧
    Generated.SigContexts.accountWriters = [
      ("consensus/cometbft/apps/staking/auth.go", "PostExecuteTx", "addr", "account", "state.Account(ctx, addr)"),
      ("consensus/cometbft/apps/staking/fees.go", "disburseFeesP", "proposerAddr", "proposerAcct", "stakeState.Account(ctx, proposerAddr)"),
      ("consensus/cometbft/apps/staking/fees.go", "disburseFeesVQ", "proposerAddr", "proposerAcct", "stakeState.Account(ctx, proposerAddr)"),
      ("consensus/cometbft/apps/staking/fees.go", "disburseFeesVQ", "voterAddr", "voterAcct", "stakeState.Account(ctx, voterAddr)"),
      ("consensus/cometbft/apps/staking/genesis.go", "initLedger", "addr", "acct", "range st.Ledger"),
      ("consensus/cometbft/apps/staking/messages.go", "changeParameters", "addr", "acc", "var *staking.Account | state.Account(ctx, addr)"),
      ("consensus/cometbft/apps/staking/staking.go", "onEpochChange", "e.DelegatorAddr", "delegator", "state.Account(ctx, e.DelegatorAddr)"),
      ("consensus/cometbft/apps/staking/staking.go", "onEpochChange", "e.EscrowAddr", "escrow", "var *staking.Account | delegator | state.Account(ctx, e.EscrowAddr)"),
      ("consensus/cometbft/apps/staking/state/accumulator.go", "Commit", "addr", "acct", "range c.accounts"),
      ("consensus/cometbft/apps/staking/state/gas.go", "AuthenticateAndPayFees", "addr", "account", "state.Account(ctx, addr)"),
      ("consensus/cometbft/apps/staking/state/interop/interop.go", "InitializeTestStakingState", "acc.address", "acc.account", "expr:acc.account"),
      ("consensus/cometbft/apps/staking/state/state.go", "AddRewardSingleAttenuated", "address", "acct", "s.Account(ctx, address)"),
      ("consensus/cometbft/apps/staking/state/state.go", "AddRewards", "addr", "ent", "var *staking.Account | s.Account(ctx, addr)"),
      ("consensus/cometbft/apps/staking/state/state.go", "SetAccountHook", "addr", "acct", "s.Account(ctx, addr)"),
      ("consensus/cometbft/apps/staking/state/state.go", "SlashEscrow", "fromAddr", "from", "s.Account(ctx, fromAddr)"),
      ("consensus/cometbft/apps/staking/state/state.go", "TransferFromCommon", "toAddr", "to", "s.Account(ctx, toAddr)"),
      ("consensus/cometbft/apps/staking/state/state.go", "TransferFromGovernanceDeposits", "toAddr", "to", "s.Account(ctx, toAddr)"),
      ("consensus/cometbft/apps/staking/state/state.go", "TransferToGovernanceDeposits", "fromAddr", "from", "s.Account(ctx, fromAddr)"),
      ("consensus/cometbft/apps/staking/state/state.go", "Transfer", "fromAddr", "from", "s.Account(ctx, fromAddr)"),
      ("consensus/cometbft/apps/staking/state/state.go", "Transfer", "toAddr", "to", "s.Account(ctx, toAddr)"),
      ("consensus/cometbft/apps/staking/transactions.go", "addEscrow", "escrow.Account", "to", "var *staking.Account | from | state.Account(ctx, escrow.Account)"),
      ("consensus/cometbft/apps/staking/transactions.go", "addEscrow", "fromAddr", "from", "state.Account(ctx, fromAddr)"),
      ("consensus/cometbft/apps/staking/transactions.go", "allow", "addr", "acct", "state.Account(ctx, addr)"),
      ("consensus/cometbft/apps/staking/transactions.go", "amendCommissionSchedule", "fromAddr", "from", "state.Account(ctx, fromAddr)"),
      ("consensus/cometbft/apps/staking/transactions.go", "burnImpl", "fromAddr", "from", "state.Account(ctx, fromAddr)"),
      ("consensus/cometbft/apps/staking/transactions.go", "reclaimEscrow", "reclaim.Account", "from", "var *staking.Account | to | state.Account(ctx, reclaim.Account)"),
      ("consensus/cometbft/apps/staking/transactions.go", "reclaimEscrow", "toAddr", "to", "state.Account(ctx, toAddr)"),
      ("consensus/cometbft/apps/staking/transactions.go", "transferImpl", "fromAddr", "from", "state.Account(ctx, fromAddr)"),
      ("consensus/cometbft/apps/staking/transactions.go", "transferImpl", "xfer.To", "to", "var *staking.Account | state.Account(ctx, xfer.To)"),
      ("consensus/cometbft/apps/staking/transactions.go", "withdraw", "toAddr", "to", "state.Account(ctx, toAddr)"),
      ("consensus/cometbft/apps/staking/transactions.go", "withdraw", "withdraw.From", "from", "state.Account(ctx, withdraw.From)"),
      ("upgrade/migrations/dummy.go", "ConsensusUpgrade", "testEntityAddr", "&staking.Account{ Escrow: staking.EscrowAccount{ StakeAccumulator: st...", "expr:&staking.Account{ Escrow: staking.EscrowAccount{ StakeAccumulato...")] := by
  decide

/-! ### Ideal signatures

`SignEvent` records one honest `ContextSign` call: key `pk` signed message `msg` under registration `c`
(with dynamic suffix value `s`) in a process whose chain context was `k`.  The ideal-signature
hypothesis `Ideal` says: whenever verification of digest `d` under `pk` succeeds, some honest call by
`pk` produced exactly the digest `d`.  It is a hypothesis of the theorems below (unforgeability of
Ed25519 is not provable here); the authdrv correspondence lets the real Ed25519 decide every verdict. -/

structure SignEvent where
  pk : Nat
  c : Ctx
  s : Bytes
  k : Bytes
  msg : Bytes

/-- Unforgeability: a digest that verifies under `pk` was produced by an honest signing call of `pk`. -/
def Ideal {D Sig : Type} (H : Bytes → D) (verify : Nat → D → Sig → Bool) (log : List SignEvent) : Prop :=
  ∀ pk d sig, verify pk d sig = true → ∃ e ∈ log, e.pk = pk ∧ signInput H e.c e.s e.k e.msg = d

/-- Honest signers use registered contexts, chain ids of one length `Lk` and suffix values of one length `Ls`. -/
def LogWF (t : List Ctx) (Lk Ls : Nat) (log : List SignEvent) : Prop :=
  ∀ e ∈ log, e.c ∈ t ∧ (e.c.chain = true → e.k.length = Lk) ∧ (e.c.dyn.isSome → e.s.length = Ls)

/-- **A signature that verifies for registration `c`, suffix `s`, chain `k`, message `m` was made by the
same key for the same registration, the same suffix, the same chain and the same message.** -/
theorem verify_sound {D Sig : Type} (H : Bytes → D) (hH : Function.Injective H)
    (verify : Nat → D → Sig → Bool) (log : List SignEvent) (hideal : Ideal H verify log)
    (t : List Ctx) (hpf : headsPrefixFree t = true) (Lk Ls : Nat) (hlog : LogWF t Lk Ls log)
    (c : Ctx) (hc : c ∈ t) (s k m : Bytes)
    (hk : c.chain = true → k.length = Lk) (hs : c.dyn.isSome → s.length = Ls)
    (pk : Nat) (sig : Sig) (hv : verify pk (signInput H c s k m) sig = true) :
    ∃ e ∈ log, e.pk = pk ∧ e.c = c ∧ (c.dyn.isSome → e.s = s) ∧ (c.chain = true → e.k = k) ∧ e.msg = m := by
  obtain ⟨e, he, hpk, hd⟩ := hideal pk _ sig hv
  obtain ⟨hec, hek, hes⟩ := hlog e he
  have := signInput_injective H hH t hpf e.c c hec hc e.s s e.k k e.msg m
    (fun h1 h2 => by rw [hes h1, hs h2]) (fun h1 h2 => by rw [hek h1, hk h2]) hd
  obtain ⟨h1, h2, h3, h4⟩ := this
  exact ⟨e, he, hpk, h1, fun h => h2 (h1 ▸ h), fun h => h3 (h1 ▸ h), h4⟩

/-- Transaction envelopes: a signature that opens blob `blob` as a transaction on chain `chain` was made
by the holder of `pk` over exactly `blob`, with the transaction context, for exactly this chain. -/
theorem tx_signature_sound {D Sig : Type} (H : Bytes → D) (hH : Function.Injective H)
    (verify : Nat → D → Sig → Bool) (log : List SignEvent) (hideal : Ideal H verify log)
    (Lk Ls : Nat) (hlog : LogWF table Lk Ls log) (chain blob : Bytes) (hk : chain.length = Lk)
    (pk : Nat) (sig : Sig) (hv : verify pk (signInput H txCtx [] chain blob) sig = true) :
    ∃ e ∈ log, e.pk = pk ∧ e.c = txCtx ∧ e.k = chain ∧ e.msg = blob := by
  obtain ⟨e, he, h1, h2, _, h4, h5⟩ := verify_sound H hH verify log hideal table table_heads_prefix_free Lk Ls hlog
    txCtx txCtx_registered [] chain blob (fun _ => hk) (by simp [txCtx]) pk sig hv
  exact ⟨e, he, h1, h2, h4 rfl, h5⟩

/-- A signature the key holder made only under *other registered contexts* (any of them, with any suffix,
on any chain, over any message) never verifies as a transaction signature. -/
theorem other_context_rejected {D Sig : Type} (H : Bytes → D) (hH : Function.Injective H)
    (verify : Nat → D → Sig → Bool) (log : List SignEvent) (hideal : Ideal H verify log)
    (Lk Ls : Nat) (hlog : LogWF table Lk Ls log) (chain blob : Bytes) (hk : chain.length = Lk)
    (pk : Nat) (sig : Sig) (hother : ∀ e ∈ log, e.pk = pk → e.c ≠ txCtx) :
    verify pk (signInput H txCtx [] chain blob) sig = false := by
  cases hv : verify pk (signInput H txCtx [] chain blob) sig with
  | false => rfl
  | true =>
    obtain ⟨e, he, h1, h2, _⟩ := tx_signature_sound H hH verify log hideal Lk Ls hlog chain blob hk pk sig hv
    exact absurd h2 (hother e he h1)

/-- A transaction signed for *another chain* never verifies on this chain. -/
theorem other_chain_rejected {D Sig : Type} (H : Bytes → D) (hH : Function.Injective H)
    (verify : Nat → D → Sig → Bool) (log : List SignEvent) (hideal : Ideal H verify log)
    (Lk Ls : Nat) (hlog : LogWF table Lk Ls log) (chain blob : Bytes) (hk : chain.length = Lk)
    (pk : Nat) (sig : Sig) (hother : ∀ e ∈ log, e.pk = pk → e.c = txCtx → e.k ≠ chain) :
    verify pk (signInput H txCtx [] chain blob) sig = false := by
  cases hv : verify pk (signInput H txCtx [] chain blob) sig with
  | false => rfl
  | true =>
    obtain ⟨e, he, h1, h2, h3, _⟩ := tx_signature_sound H hH verify log hideal Lk Ls hlog chain blob hk pk sig hv
    exact absurd h3 (hother e he h1 h2)

/-- An *altered message* (any blob the key holder did not sign as a transaction for this chain) never
verifies. -/
theorem altered_message_rejected {D Sig : Type} (H : Bytes → D) (hH : Function.Injective H)
    (verify : Nat → D → Sig → Bool) (log : List SignEvent) (hideal : Ideal H verify log)
    (Lk Ls : Nat) (hlog : LogWF table Lk Ls log) (chain blob : Bytes) (hk : chain.length = Lk)
    (pk : Nat) (sig : Sig)
    (hother : ∀ e ∈ log, e.pk = pk → e.c = txCtx → e.k = chain → e.msg ≠ blob) :
    verify pk (signInput H txCtx [] chain blob) sig = false := by
  cases hv : verify pk (signInput H txCtx [] chain blob) sig with
  | false => rfl
  | true =>
    obtain ⟨e, he, h1, h2, h3, h4⟩ := tx_signature_sound H hH verify log hideal Lk Ls hlog chain blob hk pk sig hv
    exact absurd h4 (hother e he h1 h2 h3)

/-- Without the fixed-length assumption the statement is false, already for one context: chain ids
`"ab"` and `"abc"` give the same pre-image for messages `"cX"` and `"X"`.  (Go's `SetChainContext`
accepts any 1–64 byte string; the fixed length comes from `Document.ChainContext`, see `callsite_facts`.) -/
theorem variable_length_chain_ids_collide :
    signPre txCtx [] [97, 98] [99, 88] = signPre txCtx [] [97, 98, 99] [88] := by decide

/-! ## Part B — sequencing -/

/-! ### The property clauses -/

/-- **exec_requires.** A transaction is authenticated (fee and nonce consumed; the only way to reach a
handler for a non-critical method) only if its envelope decodes, the signature over exactly its bytes
verifies, it is within the size limit, the signer is not reserved, **its nonce equals the signer account's
current nonce** and the balance covers fee plus minimum. -/
theorem exec_requires (p : Params) (dec : Bytes → Decoded) (s : State) (b : Bytes) (ho : Bool)
    (h : (deliver p dec s b ho).2.authenticated = true) :
    (dec b).envOk = true ∧ (dec b).sigOk = true ∧ (dec b).txOk = true ∧ (dec b).kind = .normal ∧
    (p.maxTxSize = 0 ∨ (dec b).size ≤ p.maxTxSize) ∧ p.reserved (dec b).signer = false ∧
    (dec b).nonce = (s.acct (dec b).signer).nonce ∧
    (dec b).feeAmt + p.minTransactBalance ≤ (s.acct (dec b).signer).balance := by
  rcases deliver_cases p dec s b ho with h' | h'
  · rw [h'.1] at h; cases h
  · obtain ⟨_, h1, h2, h3, h4, h5, h6, h7, h8, _⟩ := h'
    exact ⟨h2, h3, h4, h5, h1, h6, h7.symm, h8⟩

/-- A transaction whose handler takes effect was authenticated, unless its method is critical
(no such method exists in the current source: `routing_facts`). -/
theorem effect_requires_auth (p : Params) (dec : Bytes → Decoded) (s : State) (b : Bytes) (ho : Bool)
    (hk : (dec b).kind ≠ .critical) (h : (deliver p dec s b ho).1.effects ≠ s.effects) :
    (deliver p dec s b ho).2 = .ok ∧ (deliver p dec s b ho).2.authenticated = true := by
  rcases deliver_cases p dec s b ho with h' | h'
  · rcases h'.2.2.2.2 with h'' | h''
    · exact absurd h'' h
    · exact absurd h''.1 hk
  · refine ⟨?_, h'.1⟩
    have he := h'.2.2.2.2.2.2.2.2.2.2.2.2.1
    have hr := h'.2.2.2.2.2.2.2.2.2.2.2.2.2
    cases ho
    · simp at he; exact absurd he h
    · simpa using hr

/-- **nonce_step.** Every authenticated transaction — executed or failed later — advances the signer's
nonce by exactly one (modulo 2^64), pays exactly its fee into the block's fee accumulator, touches no
other account, and is logged. -/
theorem nonce_step (p : Params) (dec : Bytes → Decoded) (s : State) (b : Bytes) (ho : Bool)
    (h : (deliver p dec s b ho).2.authenticated = true) :
    ((deliver p dec s b ho).1.acct (dec b).signer).nonce = ((s.acct (dec b).signer).nonce + 1) % nonceMod ∧
    ((deliver p dec s b ho).1.acct (dec b).signer).balance + (dec b).feeAmt = (s.acct (dec b).signer).balance ∧
    (deliver p dec s b ho).1.feeAcc = s.feeAcc + (dec b).feeAmt ∧
    (∀ a, a ≠ (dec b).signer → (deliver p dec s b ho).1.acct a = s.acct a) ∧
    (deliver p dec s b ho).1.authed = b :: s.authed := by
  rcases deliver_cases p dec s b ho with h' | h'
  · rw [h'.1] at h; cases h
  · obtain ⟨_, _, _, _, _, _, _, hn, hb, hacct, hfee, hau, _⟩ := h'
    refine ⟨?_, ?_, hfee, ?_, hau⟩
    · rw [hacct]; simp [setAcct, hn]
    · rw [hacct]; simp only [setAcct, if_true]; omega
    · intro a ha; rw [hacct]; simp [setAcct, ha]

/-- A transaction that is not authenticated (oversized, malformed, bad signature, wrong nonce, …)
leaves every account, the fee accumulator and the log untouched. -/
theorem rejected_changes_nothing (p : Params) (dec : Bytes → Decoded) (s : State) (b : Bytes) (ho : Bool)
    (h : (deliver p dec s b ho).2.authenticated = false) :
    (deliver p dec s b ho).1.acct = s.acct ∧ (deliver p dec s b ho).1.feeAcc = s.feeAcc ∧
    (deliver p dec s b ho).1.authed = s.authed := by
  rcases deliver_cases p dec s b ho with h' | h'
  · exact ⟨h'.2.1, h'.2.2.1, h'.2.2.2.1⟩
  · rw [h'.1] at h; cases h

/-- A bad signature alone suffices for rejection without any state change. -/
theorem bad_signature_rejected (p : Params) (dec : Bytes → Decoded) (s : State) (b : Bytes) (ho : Bool)
    (h : (dec b).sigOk = false) :
    (deliver p dec s b ho).2.authenticated = false ∧ (deliver p dec s b ho).1.effects = s.effects := by
  rcases deliver_cases p dec s b ho with h' | h'
  · refine ⟨h'.1, ?_⟩
    unfold deliver
    simp only [h]
    split <;> try rfl
    split <;> rfl
  · rw [h'.2.2.2.1] at h; cases h

/-- **nonce_monotone (one operation)**: no operation — accepted, failed or rejected transaction, CheckTx,
simulation, block boundary, restart, balance update — decreases any account nonce (short of the 2^64 wrap),
and none raises it by more than one. -/
theorem nonce_monotone_step (p : Params) (dec : Bytes → Decoded) (s : State) (op : Op) (a : Nat)
    (hnw : (s.acct a).nonce + 1 < nonceMod) :
    (s.acct a).nonce ≤ ((step p dec s op).acct a).nonce ∧
    ((step p dec s op).acct a).nonce ≤ (s.acct a).nonce + 1 :=
  step_nonce_bounds p dec s op a hnw

/-- **nonce_monotone.** Over any history of operations (accepted, failed and rejected transactions of any
signer, CheckTx, simulation, blocks, restarts, arbitrary balance updates) no account nonce ever decreases,
and it grows by at most the number of operations — as long as the 2^64 wrap is not reached. -/
theorem nonce_monotone (p : Params) (dec : Bytes → Decoded) (s : State) (ops : List Op) (a : Nat)
    (hnw : (s.acct a).nonce + ops.length < nonceMod) :
    (s.acct a).nonce ≤ ((run p dec s ops).acct a).nonce ∧
    ((run p dec s ops).acct a).nonce ≤ (s.acct a).nonce + ops.length :=
  run_bounds p dec ops s a hnw

/-- **in_order.** In any history, the nonces of the authenticated transactions of each signer are exactly
`n₀, n₀+1, …, n-1` in this order (`n₀` the nonce at the start, `n` the current nonce): nothing is skipped,
repeated or taken out of order. -/
theorem in_order (p : Params) (dec : Bytes → Decoded) (s : State) (ops : List Op)
    (hlog : s.authed = []) (hnw : ∀ a, (s.acct a).nonce + ops.length < nonceMod) (a : Nat) :
    (authedNonces dec (run p dec s ops) a).reverse =
      List.range' (s.acct a).nonce (((run p dec s ops).acct a).nonce - (s.acct a).nonce) := by
  have := (seqInv_run p dec _ ops s (seqInv_init dec s hlog) hnw a).2
  rw [this, List.reverse_reverse]

/-- **no_replay.** In any history — across blocks and restarts, interleaved with anything else — the same
raw bytes are authenticated at most once. -/
theorem no_replay (p : Params) (dec : Bytes → Decoded) (s : State) (ops : List Op)
    (hlog : s.authed = []) (hnw : ∀ a, (s.acct a).nonce + ops.length < nonceMod) :
    (run p dec s ops).authed.Nodup := by
  apply nodup_of_classes _ (fun b => (dec b).signer) (fun b => (dec b).nonce)
  intro a
  have := (seqInv_run p dec _ ops s (seqInv_init dec s hlog) hnw a).2
  unfold authedNonces at this
  rw [this]
  have hr : (List.range' (s.acct a).nonce (((run p dec s ops).acct a).nonce - (s.acct a).nonce)).Nodup :=
    List.nodup_range' (s := (s.acct a).nonce)
  unfold List.Nodup at *
  rw [List.pairwise_reverse]
  exact hr.imp (fun h => h.symm)

/-- **replay_rejected.** Re-submitting bytes that were authenticated at any earlier point of the history is
rejected and changes nothing. -/
theorem replay_rejected (p : Params) (dec : Bytes → Decoded) (s : State) (ops : List Op)
    (hlog : s.authed = []) (hnw : ∀ a, (s.acct a).nonce + ops.length < nonceMod)
    (b : Bytes) (hb : b ∈ (run p dec s ops).authed) (ho : Bool) :
    (deliver p dec (run p dec s ops) b ho).2.authenticated = false := by
  have hinv := seqInv_run p dec _ ops s (seqInv_init dec s hlog) hnw (dec b).signer
  have hmem : (dec b).nonce ∈ authedNonces dec (run p dec s ops) (dec b).signer := by
    unfold authedNonces
    exact List.mem_map.2 ⟨b, List.mem_filter.2 ⟨hb, by simp⟩, rfl⟩
  rw [hinv.2, List.mem_reverse, List.mem_range'_1] at hmem
  cases hres : (deliver p dec (run p dec s ops) b ho).2.authenticated with
  | false => rfl
  | true =>
    have := (exec_requires p dec _ b ho hres).2.2.2.2.2.2.1
    omega

/-- A stale or future nonce is rejected: only the exact current nonce passes. -/
theorem wrong_nonce_rejected (p : Params) (dec : Bytes → Decoded) (s : State) (b : Bytes) (ho : Bool)
    (h : (dec b).nonce ≠ (s.acct (dec b).signer).nonce) :
    (deliver p dec s b ho).2.authenticated = false := by
  cases hres : (deliver p dec s b ho).2.authenticated with
  | false => rfl
  | true => exact absurd (exec_requires p dec s b ho hres).2.2.2.2.2.2.1 h

/-- Every logged transaction had a valid envelope, signature and a normal method. -/
theorem authed_valid (p : Params) (dec : Bytes → Decoded) (s : State) (ops : List Op)
    (hlog : s.authed = []) :
    ∀ b ∈ (run p dec s ops).authed, (dec b).envOk = true ∧ (dec b).sigOk = true ∧ (dec b).kind = .normal := by
  suffices h : ∀ (s : State), (∀ b ∈ s.authed, (dec b).envOk = true ∧ (dec b).sigOk = true ∧ (dec b).kind = .normal) →
      ∀ b ∈ (run p dec s ops).authed, (dec b).envOk = true ∧ (dec b).sigOk = true ∧ (dec b).kind = .normal by
    exact h s (by simp [hlog])
  induction ops with
  | nil => intro s h; exact h
  | cons op ops ih =>
    intro s h
    rw [run_cons]
    apply ih
    rcases step_authed p dec s op with hau | ⟨b', ho, rfl, hauth, hau⟩
    · rw [hau]; exact h
    · rw [hau]
      intro b hb
      rcases List.mem_cons.1 hb with rfl | hb
      · have := exec_requires p dec s b ho hauth
        exact ⟨this.1, this.2.1, this.2.2.2.1⟩
      · exact h b hb

/-- Handler effects of non-critical transactions form a sub-log of the authenticated transactions. -/
theorem effects_sublist (p : Params) (dec : Bytes → Decoded) (s : State) (ops : List Op)
    (h0 : (s.effects.filter (fun b => (dec b).kind != .critical)).Sublist s.authed) :
    ((run p dec s ops).effects.filter (fun b => (dec b).kind != .critical)).Sublist (run p dec s ops).authed := by
  induction ops generalizing s with
  | nil => exact h0
  | cons op ops ih =>
    rw [run_cons]
    apply ih
    cases op with
    | deliver b ho =>
      simp only [step]
      rcases deliver_cases p dec s b ho with h | h
      · rw [h.2.2.2.1]
        rcases h.2.2.2.2 with he | ⟨hk, he⟩
        · rw [he]; exact h0
        · rw [he]; simp [hk]; exact h0
      · obtain ⟨_, _, _, _, _, hk, _, _, _, _, _, hau, he, _⟩ := h
        rw [hau, he]
        cases ho
        · simp only [Bool.false_eq_true, if_false]
          exact List.Sublist.cons _ h0
        · simp only [if_true, List.filter_cons, hk]
          simpa using List.Sublist.cons_cons b h0
    | checkTx b => exact h0
    | simulate b => exact h0
    | newBlock => exact h0
    | restart => exact h0
    | setBalance x v => exact h0

/-- **executed_once.** In any history the handler of a non-critical transaction takes effect at most once
per raw byte string, and only for authenticated transactions. -/
theorem executed_once (p : Params) (dec : Bytes → Decoded) (s : State) (ops : List Op)
    (hlog : s.authed = []) (heff : s.effects = []) (hnw : ∀ a, (s.acct a).nonce + ops.length < nonceMod) :
    ((run p dec s ops).effects.filter (fun b => (dec b).kind != .critical)).Nodup :=
  List.Nodup.sublist (effects_sublist p dec s ops (by simp [hlog, heff])) (no_replay p dec s ops hlog hnw)

/-- **Parts A and B together.** If the signature verdict that the pipeline consumes is the verification
of the transaction sign input for this chain, then under collision resistance and ideal signatures every
transaction authenticated anywhere in any history was signed by the holder of its envelope key, as a
transaction (not under any other registered context), for this chain (not another), over exactly its blob. -/
theorem authenticated_was_signed {D Sig : Type} (H : Bytes → D) (hH : Function.Injective H)
    (verify : Nat → D → Sig → Bool) (log : List SignEvent) (hideal : Ideal H verify log)
    (Lk Ls : Nat) (hlogwf : LogWF table Lk Ls log) (chain : Bytes) (hk : chain.length = Lk)
    (blob : Bytes → Bytes) (sg : Bytes → Sig)
    (p : Params) (dec : Bytes → Decoded)
    (hdec : ∀ b, (dec b).sigOk = true →
      verify (dec b).signer (signInput H txCtx [] chain (blob b)) (sg b) = true)
    (s : State) (ops : List Op) (hlog : s.authed = []) :
    ∀ b ∈ (run p dec s ops).authed,
      ∃ e ∈ log, e.pk = (dec b).signer ∧ e.c = txCtx ∧ e.k = chain ∧ e.msg = blob b := by
  intro b hb
  have := (authed_valid p dec s ops hlog b hb).2.1
  exact tx_signature_sound H hH verify log hideal Lk Ls hlogwf chain (blob b) hk _ (sg b) (hdec b this)

/-- **no_replay (signed content).** Stronger than `no_replay`, and independent of how an envelope is
encoded: in any history no two authenticated transactions — whatever their raw bytes — carry the same
(signer, nonce). In particular re-encoding an envelope (the CBOR key-case malleability the correspondence
found in the Go decoder) cannot make signed content take effect twice. -/
theorem no_replay_content (p : Params) (dec : Bytes → Decoded) (s : State) (ops : List Op)
    (hlog : s.authed = []) (hnw : ∀ a, (s.acct a).nonce + ops.length < nonceMod) :
    ((run p dec s ops).authed.map (fun b => ((dec b).signer, (dec b).nonce))).Nodup := by
  apply nodup_pairs_of_classes _ (fun b => (dec b).signer) (fun b => (dec b).nonce)
  intro a
  have := (seqInv_run p dec _ ops s (seqInv_init dec s hlog) hnw a).2
  unfold authedNonces at this
  rw [this]
  have hr : (List.range' (s.acct a).nonce (((run p dec s ops).acct a).nonce - (s.acct a).nonce)).Nodup :=
    List.nodup_range' (s := (s.acct a).nonce)
  unfold List.Nodup at *
  rw [List.pairwise_reverse]
  exact hr.imp (fun h => h.symm)

/-- CheckTx and simulation never write: whatever `AuthenticateAndPayFees` answers in these modes, accounts
and fee accumulator are returned unchanged. -/
theorem authenticate_check_simulate_no_write (p : Params) (m : Mode) (hm : m ≠ .deliver)
    (acct : Nat → Account) (feeAcc signer nonce feeAmt feeGas : Nat) (acct' : Nat → Account) (fee' : Nat)
    (h : authenticate p m acct feeAcc signer nonce feeAmt feeGas = .ok (acct', fee')) :
    acct' = acct ∧ fee' = feeAcc := by
  unfold authenticate at h
  cases m with
  | deliver => exact absurd rfl hm
  | simulate => simp at h; exact ⟨h.1.symm, h.2.symm⟩
  | check =>
    simp only [reduceCtorEq, if_false, if_true] at h
    split at h
    · cases h
    · split at h
      · cases h
      · split at h
        · cases h
        · split at h
          · cases h
          · simp at h; exact ⟨h.1.symm, h.2.symm⟩

/-- The statement on the Go-shaped function: whatever `WithSuffix`/`PrepareSignerContext` return for two
uses of registered contexts, equal `context ‖ message` strings force equal registration, suffix, chain and
message (common lengths of suffix values and of chain ids assumed). -/
theorem prepared_sign_input_injective {D : Type} (H : Bytes → D) (hH : Function.Injective H)
    (t : List Ctx) (hpf : headsPrefixFree t = true) (c₁ c₂ : Ctx) (h₁ : c₁ ∈ t) (h₂ : c₂ ∈ t)
    (s₁ s₂ : Option Bytes) (k₁ k₂ o₁ o₂ m₁ m₂ : Bytes)
    (hp₁ : prepare c₁ s₁ k₁ = .ok o₁) (hp₂ : prepare c₂ s₂ k₂ = .ok o₂)
    (hs : (s₁.getD []).length = (s₂.getD []).length) (hk : k₁.length = k₂.length)
    (h : H (o₁ ++ m₁) = H (o₂ ++ m₂)) :
    c₁ = c₂ ∧ (c₁.dyn.isSome → s₁.getD [] = s₂.getD []) ∧ (c₁.chain = true → k₁ = k₂) ∧ m₁ = m₂ := by
  rw [prepare_eq_effective c₁ s₁ k₁ o₁ hp₁, prepare_eq_effective c₂ s₂ k₂ o₂ hp₂] at h
  exact signPre_injective t hpf c₁ c₂ h₁ h₂ _ _ k₁ k₂ m₁ m₂ (fun _ _ => hs) (fun _ _ => hk) (hH h)

/-- Uniqueness of registrations (all that `NewContext` enforces at run time, besides the per-entry checks)
does not give domain separation: two distinct well-formed registrations can collide. This is why the
obligation on the table is prefix-freeness. -/
theorem uniqueness_is_not_enough :
    ∃ c d : Ctx, c ≠ d ∧ newContextOk c = true ∧ newContextOk d = true ∧ c.raw ≠ d.raw ∧
      signPre c [] [] [32, 120] = signPre d [] [] [] :=
  ⟨{ raw := [114], chain := false, dyn := none }, { raw := [114, 32, 120], chain := false, dyn := none },
   by decide, by decide, by decide, by decide, by decide⟩

/-! ## Non-vacuity: the hypotheses of the theorems are satisfiable by concrete non-trivial instances -/

section NonVacuity

/-- An ideal scheme over the identity "hash": verification is membership in the signing log. -/
def exVerify (log : List SignEvent) (pk : Nat) (d : Bytes) (_sig : Unit) : Bool :=
  log.any (fun e => e.pk == pk && signInput id e.c e.s e.k e.msg == d)

theorem exVerify_ideal (log : List SignEvent) : Ideal id (exVerify log) log := by
  intro pk d sig h
  simp only [exVerify, List.any_eq_true, Bool.and_eq_true, beq_iff_eq] at h
  obtain ⟨e, he, h1, h2⟩ := h
  exact ⟨e, he, h1, h2⟩

def exChainA : Bytes := List.replicate 64 97
def exChainB : Bytes := List.replicate 64 98
def exRuntime : Bytes := List.replicate 64 48
def exProposalCtx : Ctx :=
  ofGen ([111, 97, 115, 105, 115, 45, 99, 111, 114, 101, 47, 114, 111, 111, 116, 104, 97, 115, 104, 58, 32, 112, 114,
          111, 112, 111, 115, 97, 108], true, some ([32, 102, 111, 114, 32, 114, 117, 110, 116, 105, 109, 101, 32], 64),
          true, "")

/-- Key 7 signed a transaction blob `[1,2,3]` for chain A, the same blob for chain B, and a roothash
proposal (dynamic suffix, chain separated) over the same bytes. -/
def exLog : List SignEvent :=
  [⟨7, txCtx, [], exChainA, [1, 2, 3]⟩, ⟨7, txCtx, [], exChainB, [1, 2, 3]⟩,
   ⟨7, exProposalCtx, exRuntime, exChainA, [1, 2, 3]⟩]

example : exProposalCtx ∈ table := by decide
example : LogWF table 64 64 exLog := by
  intro e he
  simp only [exLog, List.mem_cons, List.not_mem_nil, or_false] at he
  rcases he with rfl | rfl | rfl <;> refine ⟨by decide, by decide, by decide⟩
-- hypotheses of `tx_signature_sound` hold with a verification that succeeds …
example : exVerify exLog 7 (signInput id txCtx [] exChainA [1, 2, 3]) () = true := by decide
-- … and verification of an altered blob, under another key, or of the proposal signature as a transaction fails
example : exVerify exLog 7 (signInput id txCtx [] exChainA [1, 2, 4]) () = false := by decide
example : exVerify exLog 8 (signInput id txCtx [] exChainA [1, 2, 3]) () = false := by decide
example : exVerify [exLog[2]] 7 (signInput id txCtx [] exChainA [1, 2, 3]) () = false := by decide
example : Function.Injective (id : Bytes → Bytes) := fun _ _ h => h

/-- A concrete pipeline: byte strings `[n, a]` decode to a transaction of signer `a` with nonce `n`;
`[n, a, 0]` is the same with a bad signature. -/
def exDec (b : Bytes) : Decoded :=
  { size := b.length, envOk := true, sigOk := b.length == 2, txOk := true,
    signer := b.getD 1 0, nonce := b.getD 0 0, feeAmt := 1, feeGas := 0, kind := .normal }
def exParams : Params := { minTransactBalance := 0, maxTxSize := 0 }
def exState : State :=
  { acct := fun a => if a = 1 then ⟨5, 100⟩ else ⟨0, 10⟩, feeAcc := 0, authed := [], effects := [] }
/-- fresh, replay, next, out-of-order, replay of the first, bad signature, other signer, failed handler. -/
def exOps : List Op :=
  [.deliver [5, 1] true, .deliver [5, 1] true, .newBlock, .deliver [6, 1] true, .deliver [8, 1] true,
   .restart, .deliver [5, 1] true, .deliver [7, 1, 0] true, .deliver [0, 2] true, .deliver [7, 1] false,
   .deliver [7, 1] true]

example : (run exParams exDec exState exOps).authed = [[7, 1], [0, 2], [6, 1], [5, 1]] := by decide
example : (run exParams exDec exState exOps).effects = [[0, 2], [6, 1], [5, 1]] := by decide
example : ((run exParams exDec exState exOps).acct 1).nonce = 8 := by decide
example : authedNonces exDec (run exParams exDec exState exOps) 1 = [7, 6, 5] := by decide
example : ∀ a, (exState.acct a).nonce + exOps.length < nonceMod := by
  intro a; simp only [exState, exOps, nonceMod]; split <;> decide
example : (deliver exParams exDec exState [5, 1] true).2.authenticated = true := by decide
example : (deliver exParams exDec exState [5, 1, 0] true).2 = .badSig := by decide
example : (deliver exParams exDec exState [4, 1] true).2 = .authFail .invalidNonce := by decide

/-- The excluded point of `nonce_monotone`: at nonce 2^64-1 the Go increment wraps to 0 (gas.go:116), so
monotonicity needs the no-wrap hypothesis.  (Replaying then needs 2^64 further transactions.) -/
example : ((deliver exParams (fun _ => { exDec [0, 3] with nonce := 2 ^ 64 - 1, signer := 3 })
    { exState with acct := fun _ => ⟨2 ^ 64 - 1, 10⟩ } [0, 3] true).1.acct 3).nonce = 0 := by decide

end NonVacuity

end OasisProofs.C09
