import OasisProofs.Helpers.PathImport
import OasisProofs.Props.C04
/-
C12 for the path-keyed backend — checkpoint chunks imported one after the other in ANY order restore
exactly the checkpointed tree (PROVED on `OasisModel.NodeDB.PathImport`, the model of
`doRestoreChunk` (checkpoint/chunk.go:346-392) over the pathbadger batch: `refreshDbPtr`
(db/pathbadger/node.go:175-215), `multipartMergeWithExisting` (db/pathbadger/multipart.go:168-225),
`PutNode` / `nodeToDb` (node.go:218-310), one shared `lastIndex`, reads from the snapshot of the batch).

`T` is the checkpointed tree, `cs` the chunks in the order in which they are imported — ANY list:
repeats, duplicates, every order.  The only hypothesis is `ChunksOf T cs`: every chunk is a partial
view of `T` (`Le c T`: each materialised node is the node of `T` at the same path; a `PTree` contains
the path from the root to everything it includes by construction).  That is what `VerifyProof` against
`chunk.Root.Hash` establishes (C04 `proof_sound`, C12 `restore_chunk_sound`).

  * `import_realises_union`         after ANY sequence of chunks the structure read back from the root
                                    position by following stored child positions (positions erased) is
                                    EXACTLY the union of the chunks — the invariant behind everything
  * `import_preserves_reachability` (1) every node that occurred in some chunk is reachable from the
                                    root position along its path, the record found there carries the
                                    node's hash, and that is the hash of `T`'s node at this path
  * `import_reachable_sound`        (1) conversely nothing else is reachable: whatever is reachable is
                                    the node of `T` at that path
  * `import_reach_iff`              (2) reachable (path, hash) pairs = union of the chunks' nodes
  * `import_order_independent`      (2) two imports whose chunks materialise the same nodes — in
                                    particular the same chunks in another order, with duplicates,
                                    repeated — reach the same (path, hash) set and read back the same
                                    tree: equal up to renaming of positions
  * `import_perm_independent`       (2) the special case of a permutation
  * `complete_restore`              (3) chunks covering `T`: the stored structure reads back as `T`
  * `merge_break_loses_subtree`     (4) witness: with `break` for the `continue` of multipart.go:213 a
                                    re-imported node without Left loses its right subtree
  * `merge_break_loses_right_subtree` (4) the same for EVERY root without Left and every right subtree
  * `verified_chunk_is_view`        where `ChunksOf` comes from: what `VerifyProof` accepts against the
                                    root hash of the MKVS tree (C04 `verify_sound_nc`) and the batch can
                                    serialise is a view of that tree
  * `restore_verified_chunks`       (1)-(3) end to end for accepted proofs of an MKVS tree
Hypothesis witnesses: `import_needs_views_of_one_tree` (`ChunksOf` is necessary: a "chunk" naming
another hash for a child the store already has makes the stored subtree unreachable — hashes decide,
multipart.go:215), `merge_break_order_dependent` (the mutant is not even order independent).

Trusted, not modelled: Badger (one `WriteBatch` flush = all writes of the chunk, reads of `readTxn`
see exactly the chunks committed before the batch was created; chunk batches serialised by `mpLock`);
versions and sequence numbers (one restore, one version); the encoding of records and keys; a
materialised internal node whose internal leaf is hash-only (`nodeToDb` panics, nothing is committed).
-/
namespace OasisProofs.C12PathImport
open OasisModel.NodeDB.PathImport OasisProofs.PathImportH

variable {H : Type} [DecidableEq H]

/-- Every imported chunk is a verified partial view of the checkpointed tree `T`. -/
def ChunksOf (T : PTree H) (cs : List (PTree H)) : Prop := ∀ c ∈ cs, Le c T

instance (T : PTree H) (cs : List (PTree H)) : Decidable (ChunksOf T cs) :=
  inferInstanceAs (Decidable (∀ c ∈ cs, Le c T))

/-- The union of the chunks (as a view of `T`: nothing materialised before the first chunk). -/
def unionOf (T : PTree H) (cs : List (PTree H)) : PTree H := cs.foldl join T.asStub

/-! ### the stored structure is the union of the chunks -/

/-- After any sequence of chunks of `T`, reading the store from the root position yields exactly the
union of the chunks: every materialised node at its path with its hash, a hash-only pointer (with a
position but no record) wherever no chunk went. -/
theorem import_realises_union (T : PTree H) (cs : List (PTree H)) (hcs : ChunksOf T cs)
    (fuel : Nat) (hf : T.depth ≤ fuel) :
    readBack (importAll cs).store fuel (rootPtr T) = unionOf T cs := by
  obtain ⟨hU, _, F, hR, _⟩ := inv_importAll cs hcs
  exact rz_readBack hR fuel (Nat.le_trans (le_depth hU) hf)

/-! ### (2) reachable = union of the chunks' nodes, whatever the order -/

theorem import_reach_iff (T : PTree H) (cs : List (PTree H)) (hcs : ChunksOf T cs)
    (π : List Dir) (h : H) :
    Reach (importAll cs).store 0 π h ↔ ∃ c ∈ cs, (π, h) ∈ c.nodes := by
  obtain ⟨hU, _, F, hR, _⟩ := inv_importAll cs hcs
  have hmem := mem_nodes_foldl_join cs T.asStub (asStub_le (le_refl T)) hcs (π, h)
  rw [nodes_asStub] at hmem
  simp only [List.not_mem_nil, false_or] at hmem
  cases hT : T.hash? with
  | none =>
    have hTn : T = .nil := by cases T <;> simp_all [PTree.hash?]
    subst hTn
    rw [importAll_nil_tree cs hcs]
    constructor
    · intro hr; exact absurd hr not_reach_empty
    · rintro ⟨c, hc, hm⟩
      rw [le_nil_right (hcs c hc)] at hm
      simp [PTree.nodes] at hm
  | some h0 =>
    have hp : rootPtr T = some (h0, 0) := by simp [rootPtr, hT]
    rw [hp] at hR
    rw [← hmem]
    exact ⟨fun hr => rz_mem_of_reach hr hR, fun hm => rz_reach_of_mem hR rfl hm⟩

/-! ### (1) every imported node stays reachable under its path, with the hash of `T`'s node -/

theorem import_preserves_reachability (T : PTree H) (cs : List (PTree H)) (hcs : ChunksOf T cs)
    (c : PTree H) (hc : c ∈ cs) (π : List Dir) (h : H) (hm : (π, h) ∈ c.nodes) :
    Reach (importAll cs).store 0 π h ∧ T.hashAt π = some h :=
  ⟨(import_reach_iff T cs hcs π h).2 ⟨c, hc, hm⟩, hashAt_of_mem_nodes (hcs c hc) hm⟩

theorem import_reachable_sound (T : PTree H) (cs : List (PTree H)) (hcs : ChunksOf T cs)
    (π : List Dir) (h : H) (hr : Reach (importAll cs).store 0 π h) : T.hashAt π = some h := by
  obtain ⟨c, hc, hm⟩ := (import_reach_iff T cs hcs π h).1 hr
  exact hashAt_of_mem_nodes (hcs c hc) hm

/-- (2) Up to renaming of positions the result depends only on WHICH nodes the chunks materialised:
same reachable (path, hash) set, same tree read back. -/
theorem import_order_independent (T : PTree H) (cs₁ cs₂ : List (PTree H))
    (h₁ : ChunksOf T cs₁) (h₂ : ChunksOf T cs₂)
    (hsame : ∀ x, (∃ c ∈ cs₁, x ∈ c.nodes) ↔ (∃ c ∈ cs₂, x ∈ c.nodes)) :
    (∀ π h, Reach (importAll cs₁).store 0 π h ↔ Reach (importAll cs₂).store 0 π h) ∧
    (∀ fuel, T.depth ≤ fuel →
      readBack (importAll cs₁).store fuel (rootPtr T) = readBack (importAll cs₂).store fuel (rootPtr T)) := by
  refine ⟨fun π h => ?_, fun fuel hf => ?_⟩
  · rw [import_reach_iff T cs₁ h₁, import_reach_iff T cs₂ h₂]
    exact hsame (π, h)
  · rw [import_realises_union T cs₁ h₁ fuel hf, import_realises_union T cs₂ h₂ fuel hf]
    have hU₁ := foldl_join_le cs₁ T.asStub (asStub_le (le_refl T)) h₁
    have hU₂ := foldl_join_le cs₂ T.asStub (asStub_le (le_refl T)) h₂
    have m₁ := fun x => mem_nodes_foldl_join cs₁ T.asStub (asStub_le (le_refl T)) h₁ x
    have m₂ := fun x => mem_nodes_foldl_join cs₂ T.asStub (asStub_le (le_refl T)) h₂ x
    simp only [nodes_asStub, List.not_mem_nil, false_or] at m₁ m₂
    exact le_antisymm
      (le_of_nodes_subset hU₁ hU₂ (fun x hx => (m₂ x).2 ((hsame x).1 ((m₁ x).1 hx))))
      (le_of_nodes_subset hU₂ hU₁ (fun x hx => (m₁ x).2 ((hsame x).2 ((m₂ x).1 hx))))

/-- (2) The same chunks in another order, any of them repeated or duplicated. -/
theorem import_perm_independent (T : PTree H) (cs₁ cs₂ : List (PTree H))
    (h₁ : ChunksOf T cs₁) (hmem : ∀ c, c ∈ cs₁ ↔ c ∈ cs₂) :
    (∀ π h, Reach (importAll cs₁).store 0 π h ↔ Reach (importAll cs₂).store 0 π h) ∧
    (∀ fuel, T.depth ≤ fuel →
      readBack (importAll cs₁).store fuel (rootPtr T) = readBack (importAll cs₂).store fuel (rootPtr T)) :=
  import_order_independent T cs₁ cs₂ h₁ (fun c hc => h₁ c ((hmem c).2 hc))
    (fun _ => ⟨fun ⟨c, hc, hx⟩ => ⟨c, (hmem c).1 hc, hx⟩, fun ⟨c, hc, hx⟩ => ⟨c, (hmem c).2 hc, hx⟩⟩)

/-! ### (3) chunks covering the tree restore the tree -/

/-- If every node of `T` occurs in some chunk, the stored structure read from the root position is
`T` itself (positions erased): same shape, same hashes, same inline leaves, no hash-only pointer
that `T` does not have. -/
theorem complete_restore (T : PTree H) (cs : List (PTree H)) (hcs : ChunksOf T cs)
    (hcover : ∀ x ∈ T.nodes, ∃ c ∈ cs, x ∈ c.nodes) (fuel : Nat) (hf : T.depth ≤ fuel) :
    readBack (importAll cs).store fuel (rootPtr T) = T := by
  rw [import_realises_union T cs hcs fuel hf]
  have hU := foldl_join_le cs T.asStub (asStub_le (le_refl T)) hcs
  have m := fun x => mem_nodes_foldl_join cs T.asStub (asStub_le (le_refl T)) hcs x
  exact le_antisymm hU (le_of_nodes_subset (le_refl T) hU (fun x hx => (m x).2 (.inr (hcover x hx))))

/-! ### where the hypothesis comes from: accepted proofs are views (C04) -/

section
open OasisModel.Mkvs OasisProofs.Mkvs OasisProofs.MkvsProof

/-- The pointer tree `VerifyProof` returns for a proof accepted against the root hash of the MKVS tree
`T` (C04 `verify_sound_nc`: no collision of `Hf` among the node encodings of the tree and of the
proof) is — if the pathbadger batch can serialise it at all, `importable` — a view of `T` in the sense
of the import model. -/
theorem verified_chunk_is_view {Hf : Bytes → Bytes} (hlen : ∀ x, (Hf x).length = 32)
    (T : Trie) (hwf : WF T) (hb : ContentsBounded T.toList)
    {p : MProof} {s : PT} (h : verifyProof Hf (hashWith Hf T) p = .ok s)
    (hnc : NoColl Hf (ptInputs Hf s ++ trieInputs Hf T))
    (hi : importable Hf s = true) : Le (ofPT Hf s) (ofTrie Hf T) :=
  subT_le Hf s T (OasisProofs.C04.verify_sound_nc hlen h T hwf hb rfl hnc) hi

/-- What `restoreChunk` requires of a chunk before it imports it, for the tree `T`. -/
def Accepted (Hf : Bytes → Bytes) (T : Trie) (s : PT) : Prop :=
  (∃ p, verifyProof Hf (hashWith Hf T) p = .ok s) ∧ NoColl Hf (ptInputs Hf s ++ trieInputs Hf T) ∧
    importable Hf s = true

/-- End to end: ANY list of proofs accepted against the root hash of `T`, imported in the given
order: the structure read back from the root position is the union of what the proofs materialised;
if they cover the tree, it is the tree. -/
theorem restore_verified_chunks {Hf : Bytes → Bytes} (hlen : ∀ x, (Hf x).length = 32)
    (T : Trie) (hwf : WF T) (hb : ContentsBounded T.toList)
    (ss : List PT) (hss : ∀ s ∈ ss, Accepted Hf T s)
    (fuel : Nat) (hf : (ofTrie Hf T).depth ≤ fuel) :
    let cs := ss.map (ofPT Hf)
    readBack (importAll cs).store fuel (rootPtr (ofTrie Hf T)) = unionOf (ofTrie Hf T) cs ∧
    ((∀ x ∈ (ofTrie Hf T).nodes, ∃ c ∈ cs, x ∈ c.nodes) →
      readBack (importAll cs).store fuel (rootPtr (ofTrie Hf T)) = ofTrie Hf T) := by
  intro cs
  have hcs : ChunksOf (ofTrie Hf T) cs := by
    intro c hc
    obtain ⟨s, hs, rfl⟩ := List.mem_map.1 hc
    obtain ⟨⟨p, hp⟩, hnc, hi⟩ := hss s hs
    exact verified_chunk_is_view hlen T hwf hb hp hnc hi
  exact ⟨import_realises_union _ cs hcs fuel hf, fun hc => complete_restore _ cs hcs hc fuel hf⟩

/-- Non-vacuity of `verified_chunk_is_view` / `restore_verified_chunks`: the honest lookup proof of
C04's small tree under C04's `padHash` is accepted, collision-free and serialisable; it materialises
the root and one of its two children. -/
example : WF OasisProofs.C04.smallTree ∧ ContentsBounded OasisProofs.C04.smallTree.toList ∧
    (∀ x, (OasisProofs.C04.padHash x).length = 32) ∧
    Accepted OasisProofs.C04.padHash OasisProofs.C04.smallTree OasisProofs.C04.smallPT ∧
    (ofPT OasisProofs.C04.padHash OasisProofs.C04.smallPT).nodes.length = 2 ∧
    (ofTrie OasisProofs.C04.padHash OasisProofs.C04.smallTree).nodes.length = 3 := by
  refine ⟨wf_insert (wf_insert (by trivial) _ _) _ _, by unfold ContentsBounded; decide +kernel,
    fun x => by simp [OasisProofs.C04.padHash],
    ⟨⟨OasisProofs.C04.smallProof, by decide +kernel⟩, ?_, by decide +kernel⟩, by decide +kernel,
    by decide +kernel⟩
  unfold NoColl
  decide +kernel

end

/-! ### (4) the seeded mutation: `break` for `continue` (multipart.go:213) -/

/-- The checkpointed tree of the witnesses: a root with an inline leaf (hash 5), NO Left, and a right
subtree 2 → (3, 4). -/
def wT : PTree Nat :=
  .node 1 (some 5) .nil (.node 2 none (.node 3 none .nil .nil) (.node 4 none .nil .nil))

/-- A later chunk that contains the root again and only the hash of its right child. -/
def wAgain : PTree Nat := .node 1 (some 5) .nil (.stub 2)

/-- A chunk that goes down to node 3 only. -/
def wLeft : PTree Nat := .node 1 (some 5) .nil (.node 2 none (.node 3 none .nil .nil) (.stub 4))

/-- A chunk that goes down to node 4 only. -/
def wRight : PTree Nat := .node 1 (some 5) .nil (.node 2 none (.stub 3) (.node 4 none .nil .nil))

/-- (4) The chunks `[wT, wAgain]` are views of `wT` and cover it, so the code restores `wT`
(`complete_restore`). With the merge that STOPS at the first slot that is nil in either copy, the
re-import of the root (no Left: the loop stops before Right) gives the hash-only right pointer a fresh
index: the rewritten root record points to position 6, which has no record; the subtree 2 → (3, 4) is
still stored at positions 2, 3, 4 and reachable from nowhere. -/
theorem merge_break_loses_subtree :
    ChunksOf wT [wT, wAgain] ∧ (∀ x ∈ wT.nodes, ∃ c ∈ [wT, wAgain], x ∈ c.nodes) ∧
    readBack (importAll [wT, wAgain]).store 3 (rootPtr wT) = wT ∧
    readBack (importAllWith true [wT, wAgain]).store 3 (rootPtr wT) = .node 1 (some 5) .nil (.stub 2) ∧
    (sget (importAllWith true [wT, wAgain]).store 0).map (·.right) = some (some (2, 6)) ∧
    sget (importAllWith true [wT, wAgain]).store 6 = none ∧
    (sget (importAllWith true [wT, wAgain]).store 2).map (·.hash) = some 2 ∧
    (sget (importAll [wT, wAgain]).store 0).map (·.right) = some (some (2, 2)) := by
  decide

/-- (4) in general: for EVERY node without Left (hash `h`, any inline leaf, any right subtree `R` with
hash `hr`) at the root: after the chunk containing `R` and a later chunk that contains the node again
with only the hash of its right child, the mutant's store reads back WITHOUT `R` — the right pointer
is hash-only. (`complete_restore` gives `.node h lf .nil R` for the code as it is.) -/
theorem merge_break_loses_right_subtree (h hr : H) (lf : Option H) (R : PTree H) (fuel : Nat) :
    readBack (importAllWith true [.node h lf .nil R, .node h lf .nil (.stub hr)]).store (fuel + 1)
      (rootPtr (.node h lf .nil R)) = .node h lf .nil (.stub hr) := by
  have e1 : importAllWith true [.node h lf .nil R, .node h lf .nil (.stub hr)] =
      importChunkWith true (importChunk St.init (.node h lf .nil R)) (.node h lf .nil (.stub hr)) := by
    simp only [importAllWith, List.foldl_cons, List.foldl_nil, importChunk, importChunkWith, St.init,
      imp_empty_brk]
  have hI := inv_step (le_refl (PTree.node h lf .nil R)) (inv_init (PTree.node h lf .nil R))
  rw [join_asStub] at hI
  obtain ⟨_, hS, F, hRz, _⟩ := hI
  rw [e1]
  cases hRz with
  | node hp hl _ _ _ _ =>
    cases hl
    exact break_reimport_root hS hp fuel

/-- The mutant is not even order independent: the same two chunks in the other order restore `wT`. -/
theorem merge_break_order_dependent :
    readBack (importAllWith true [wAgain, wT]).store 3 (rootPtr wT) = wT ∧
    readBack (importAllWith true [wT, wAgain]).store 3 (rootPtr wT) ≠ wT := by
  decide

/-- `ChunksOf` is necessary: `bad` is not a view of `wT` (it names hash 9 for the right child); the
merge compares hashes (multipart.go:215), gives the pointer a fresh index, and the subtree imported
before is unreachable — for the code as it is. -/
theorem import_needs_views_of_one_tree :
    let bad : PTree Nat := .node 1 (some 5) .nil (.stub 9)
    ¬ Le bad wT ∧
    readBack (importAll [wT, bad]).store 3 (rootPtr wT) = .node 1 (some 5) .nil (.stub 9) := by
  decide

/-! ### non-vacuity: the hypotheses hold on concrete, non-trivial imports -/

/-- `import_preserves_reachability`, `import_reach_iff`, `import_realises_union`: three overlapping
chunks, one of them twice, none of them complete. -/
example : ChunksOf wT [wRight, wAgain, wLeft, wRight] ∧ ([Dir.right, Dir.left], 3) ∈ wLeft.nodes ∧
    wT.depth ≤ 3 := by decide

/-- … and the conclusion of `import_realises_union` on it, evaluated: the union is all of `wT`. -/
example : readBack (importAll [wRight, wAgain, wLeft, wRight]).store 3 (rootPtr wT) = wT := by decide

/-- `import_order_independent` / `import_perm_independent`: another order, other multiplicities. -/
example : ChunksOf wT [wRight, wAgain, wLeft, wRight] ∧ ChunksOf wT [wLeft, wLeft, wRight, wAgain] ∧
    (∀ c, c ∈ [wRight, wAgain, wLeft, wRight] ↔ c ∈ [wLeft, wLeft, wRight, wAgain]) := by
  refine ⟨by decide, by decide, fun c => ?_⟩
  simp only [List.mem_cons, List.not_mem_nil, or_false]
  constructor <;> (intro h; rcases h with h | h | h | h <;> simp [h])

/-- `import_order_independent` with different chunkings of the same content. -/
example : ChunksOf wT [wT] ∧ ChunksOf wT [wLeft, wRight] ∧
    (∀ x, (∃ c ∈ [wT], x ∈ c.nodes) ↔ (∃ c ∈ [wLeft, wRight], x ∈ c.nodes)) := by
  refine ⟨by decide, by decide, fun x => ?_⟩
  have e1 : wT.nodes = [([], 1), ([Dir.leaf], 5), ([Dir.right], 2), ([Dir.right, Dir.left], 3),
    ([Dir.right, Dir.right], 4)] := by decide
  have e2 : wLeft.nodes = [([], 1), ([Dir.leaf], 5), ([Dir.right], 2), ([Dir.right, Dir.left], 3)] := by
    decide
  have e3 : wRight.nodes = [([], 1), ([Dir.leaf], 5), ([Dir.right], 2), ([Dir.right, Dir.right], 4)] := by
    decide
  simp only [List.mem_cons, List.not_mem_nil, or_false, exists_eq_or_imp, exists_eq_left, e1, e2, e3]
  constructor
  · rintro (h | h | h | h | h) <;> simp [h]
  · rintro ((h | h | h | h) | (h | h | h | h)) <;> simp [h]

/-- `complete_restore`: chunks that cover `wT`, none of them complete. -/
example : ChunksOf wT [wLeft, wAgain, wRight] ∧
    (∀ x ∈ wT.nodes, ∃ c ∈ [wLeft, wAgain, wRight], x ∈ c.nodes) ∧ wT.depth ≤ 3 := by decide

end OasisProofs.C12PathImport
