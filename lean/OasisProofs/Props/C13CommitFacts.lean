/-
Regenerated tie of the commit/retry model (`OasisModel/Mkvs/CommitRetry.lean`, theorems in `C13Retry.lean`)
to `go/storage/mkvs/commit.go`: `commitWithHooks` opens the batch, hashes and hands the dirty nodes to it
(`doCommit`; clean flags only through on-commit hooks), runs the `beforeDbCommit` hook of `CommitKnown`
(root comparison) BEFORE anything is stored, builds the write log from `t.pendingWriteLog`, and resets
`pendingWriteLog` / `pendingRemovedNodes` and moves the sync root only AFTER `batch.Commit(root)` succeeded.

`tools/gen stmtfacts commit` flattens the functions into one line per simple statement on every run; the
lists are pinned here (`rfl`). A change of a statement, a condition or of the order of statements breaks the
pin until the new text has been read against the model.
-/
import Generated.StmtFactsCommit

namespace OasisProofs.C13CommitFacts

/-- Position of the first line equal to `s`. -/
def pos (l : List String) (s : String) : Option Nat :=
  let i := l.findIdx (· == s)
  if i < l.length then some i else none

/-- The lines occur in this order (strictly increasing positions). -/
def inOrder (l : List String) : List String → Option Nat → Bool
  | [], _ => true
  | s :: rest, prev =>
    match pos l s, prev with
    | none, _ => false
    | some i, none => inOrder l rest (some i)
    | some i, some p => decide (p < i) && inOrder l rest (some i)

def expected_commitWithHooksStmts : List String := [
  "t.cache.Lock()",
  "defer t.cache.Unlock()",
  "if t.cache.isClosed() {",
  "return nil, hash.Hash{}, ErrClosed",
  "}",
  "var opts commitOptions",
  "for _, o := range options {",
  "o(&opts)",
  "}",
  "oldRoot := t.cache.getSyncRoot()",
  "if oldRoot.IsEmpty() {",
  "oldRoot.Namespace = namespace",
  "oldRoot.Version = version",
  "oldRoot.Type = t.rootType",
  "}",
  "var batch db.Batch",
  "var err error",
  "switch opts.noPersist {",
  "case false:",
  "batch, err = t.cache.db.NewBatch(oldRoot, version, false)",
  "case true:",
  "nopDb, _ := db.NewNopNodeDB()",
  "batch, err = nopDb.NewBatch(oldRoot, version, false)",
  "}",
  "if err != nil {",
  "return nil, hash.Hash{}, err",
  "}",
  "defer batch.Reset()",
  "rootHash, err := doCommit(ctx, t.cache, batch, t.cache.pendingRoot, nil)",
  "if err != nil {",
  "return nil, hash.Hash{}, err",
  "}",
  "if beforeDbCommit != nil {",
  "if err := beforeDbCommit(rootHash); err != nil {",
  "return nil, hash.Hash{}, err",
  "}",
  "}",
  "var log writelog.WriteLog",
  "var logAnns writelog.Annotations",
  "for _, entry := range t.pendingWriteLog {",
  "if entry.value == nil && !entry.existed {",
  "continue",
  "}",
  "log = append(log, writelog.LogEntry{Key: entry.key, Value: entry.value})",
  "if entry.value == nil {",
  "logAnns = append(logAnns, writelog.LogEntryAnnotation{InsertedNode: nil})",
  "}",
  "else {",
  "logAnns = append(logAnns, writelog.LogEntryAnnotation{InsertedNode: entry.insertedLeaf})",
  "}",
  "}",
  "if opts.noPersist {",
  "return log, rootHash, nil",
  "}",
  "root := node.Root{ Namespace: namespace, Version: version, Type: oldRoot.Type, Hash: rootHash, }",
  "if err := batch.PutWriteLog(log, logAnns); err != nil {",
  "return nil, hash.Hash{}, err",
  "}",
  "if err := batch.RemoveNodes(t.pendingRemovedNodes); err != nil {",
  "return nil, hash.Hash{}, err",
  "}",
  "if err := batch.Commit(root); err != nil {",
  "return nil, hash.Hash{}, err",
  "}",
  "t.pendingWriteLog = make(map[string]*pendingEntry)",
  "t.pendingRemovedNodes = nil",
  "t.cache.setSyncRoot(root)",
  "return log, rootHash, nil"]

theorem commitWithHooksStmts_as_modelled : Generated.StmtFacts.Commit.commitWithHooksStmts = expected_commitWithHooksStmts := rfl

def expected_commitKnownStmts : List String := [
  "writeLog, _, err := t.commitWithHooks(ctx, root.Namespace, root.Version, func(rootHash hash.Hash) error { if !rootHash.Equal(&root.Hash) { return ErrKnownRootMismatch } return nil })",
  "return writeLog, err"]

theorem commitKnownStmts_as_modelled : Generated.StmtFacts.Commit.commitKnownStmts = expected_commitKnownStmts := rfl

theorem pending_log_reset_only_after_database_commit :
    inOrder expected_commitWithHooksStmts ["if err := beforeDbCommit(rootHash); err != nil {", "if err := batch.PutWriteLog(log, logAnns); err != nil {", "if err := batch.Commit(root); err != nil {", "t.pendingWriteLog = make(map[string]*pendingEntry)", "t.cache.setSyncRoot(root)"] none = true := by decide +kernel

end OasisProofs.C13CommitFacts
