import OasisProofs.Props.C04
import OasisProofs.Helpers.MkvsProofWriteLog
/-
C04 — Merkle proofs cannot lie: the write-log side of proof verification
(`ProofVerifier.VerifyProofToWriteLog`, go/storage/mkvs/syncer/proof.go:293).

`Props/C04.lean` states `writelog_sound` about `PT.writeLog`, a list DERIVED from the rebuilt tree.
The Go code does not derive it: `verifyProofOpts` threads a `verifyResult` through the recursion and
`addLeafToWriteLog` appends call by call — in version 0 for the leaf embedded in an internal-node
entry (before the children are verified) and, in both versions, for every full entry that is itself
a leaf (after its — non-existent — children). `OasisModel/Mkvs/ProofWriteLog.lean` models exactly
that (`verifyAuxW`, `verifyProofW`, `verifyProofToWriteLog`); here it is proved that

  (1) the accumulated log IS the pre-order leaf list of the rebuilt tree, for every entry list,
      version, depth and incoming log, with the same verdict and error class as `verifyProof`
      (`accumulate_eq_preorder`, `verifyProofW_eq_verifyProof`, `verifyProofToWriteLog_eq`);
      a V0-style leaf embedded in a version-1 internal-node entry never reaches the log
      (`v1_embedded_leaf_ignored`);
  (2) under the soundness hypotheses of `Props/C04.lean` the log is a SUBLIST of the contents of the
      true tree in ascending key order: strictly ascending keys, nothing repeated, every pair a pair
      of the tree (`writelog_sublist_of_contents`, `_nc` form with collisions excluded only among the
      hashed strings; the hypothesis is necessary: `collision_breaks_writelog`);
  (3) the comparison of the recomputed root hash with the trusted root is never skipped: a proof
      whose rebuilt root is empty (hash = empty hash, the case in which Go nils the root pointer)
      is accepted only for the empty trusted root (`empty_rebuilt_root_only_for_empty_root`,
      `root_check_never_skipped`, `nil_proof_rejected`).
-/
namespace OasisProofs.C04WriteLog
open OasisModel.Mkvs OasisProofs.Mkvs OasisProofs.MkvsProof OasisProofs.C04

/-! ### (1) accumulation call by call = leaves of the rebuilt tree in pre-order -/

/-- **The recursion.** `verifyProof` (proof.go:347) with `opts.writeLog` set, at any proof version
`v` (0: leaf embedded, anything else: leaf as first child), any remaining depth budget `b`, any
entry list `es` and any write log `wl` accumulated so far: it succeeds exactly when the plain
recursion succeeds, rebuilds the same subtree `t`, leaves the same entries, and has appended to
`wl` exactly the leaves of `t` in pre-order (own leaf, left, right). -/
theorem accumulate_eq_preorder (v b : Nat) (es : List (Option Bytes)) (wl : List KV)
    (t : PT) (rest : List (Option Bytes)) (wl' : List KV) :
    verifyAuxW true v b es wl = .ok (t, rest, wl') ↔
      (verifyAux v b es = .ok (t, rest) ∧ wl' = wl ++ t.writeLog) := by
  rw [verifyAuxW_eq]
  cases h : verifyAux v b es with
  | error e => simp [liftW]
  | ok pr =>
    obtain ⟨t0, rest0⟩ := pr
    simp only [liftW, logOf, if_true, Except.ok.injEq, Prod.mk.injEq]
    constructor
    · rintro ⟨rfl, rfl, rfl⟩; exact ⟨⟨rfl, rfl⟩, rfl⟩
    · rintro ⟨⟨rfl, rfl⟩, rfl⟩; exact ⟨rfl, rfl, rfl⟩

/-- The recursion fails with the threaded write log exactly when it fails without, with the same
error (so the write-log option never changes a verdict). -/
theorem accumulate_error_iff (w : Bool) (v b : Nat) (es : List (Option Bytes)) (wl : List KV) (e : VErr) :
    verifyAuxW w v b es wl = .error e ↔ verifyAux v b es = .error e := by
  rw [verifyAuxW_eq]
  cases h : verifyAux v b es with
  | error e' => simp [liftW]
  | ok pr => obtain ⟨t0, rest0⟩ := pr; simp [liftW]

/-- Without `opts.writeLog` (plain `VerifyProof`) nothing is ever appended. -/
theorem accumulate_off (v b : Nat) (es : List (Option Bytes)) (wl : List KV)
    (t : PT) (rest : List (Option Bytes)) (wl' : List KV)
    (h : verifyAuxW false v b es wl = .ok (t, rest, wl')) : wl' = wl := by
  rw [verifyAuxW_eq] at h
  cases h' : verifyAux v b es with
  | error e => rw [h'] at h; simp [liftW] at h
  | ok pr =>
    obtain ⟨t0, rest0⟩ := pr
    rw [h'] at h
    simp only [liftW, logOf, Except.ok.injEq, Prod.mk.injEq] at h
    simpa using h.2.2.symm

/-- **`verifyProofOpts`.** With or without the write log, `verifyProofW` (version check,
untrusted-root check, empty proof, recursion, unused entries, nil-ing of an empty root pointer,
root comparison) has the verdict and error class of `verifyProof`; on success it returns the
rebuilt tree (as nil if its hash is the empty hash) and, if requested, the leaves of the rebuilt
tree in pre-order. -/
theorem verifyProofW_eq_verifyProof (H : Bytes → Bytes) (w : Bool) (root : Bytes) (p : MProof) :
    verifyProofW H w root p =
      match verifyProof H root p with
      | .error e => .error e
      | .ok t => .ok (normRoot H t, if w then t.writeLog else []) :=
  verifyProofW_eq H w root p

/-- **`VerifyProofToWriteLog`** returns, for every proof (any entry list, version, claimed root)
the verifier accepts, the leaf list of the rebuilt tree, and otherwise the error of `verifyProof`. -/
theorem verifyProofToWriteLog_eq (H : Bytes → Bytes) (root : Bytes) (p : MProof) :
    verifyProofToWriteLog H root p =
      match verifyProof H root p with
      | .error e => .error e
      | .ok t => .ok t.writeLog := by
  unfold verifyProofToWriteLog
  rw [verifyProofW_eq]
  cases verifyProof H root p <;> simp [logOf]

/-- Accepted-proof form of the same statement. -/
theorem writelog_eq_leaves {H : Bytes → Bytes} {root : Bytes} {p : MProof} {wl : List KV}
    (h : verifyProofToWriteLog H root p = .ok wl) :
    ∃ s, verifyProof H root p = .ok s ∧ wl = s.writeLog := by
  rw [verifyProofToWriteLog_eq] at h
  cases hv : verifyProof H root p with
  | error e => rw [hv] at h; simp at h
  | ok s =>
    rw [hv] at h
    simp only [Except.ok.injEq] at h
    exact ⟨s, rfl, h.symm⟩

/-- `VerifyProof` (no write log) returns the rebuilt tree of `verifyProof`, nil-ed if empty. -/
theorem verifyProofPtr_eq (H : Bytes → Bytes) (root : Bytes) (p : MProof) :
    verifyProofPtr H root p =
      match verifyProof H root p with
      | .error e => .error e
      | .ok t => .ok (normRoot H t) := by
  unfold verifyProofPtr
  rw [verifyProofW_eq]
  cases verifyProof H root p <;> simp

/-- **A V0-style embedded leaf in a version-1 entry never reaches the write log** (nor the rebuilt
tree): in any version other than 0, two internal-node entries that differ only in the leaf embedded
in their serialisation are indistinguishable to the verifier — `nd.LeafNode` is overwritten by the
leaf-slot child (proof.go:386) before anything reads it. -/
theorem v1_embedded_leaf_ignored (w : Bool) (v : Nat) (hv : v ≠ 0) (b : Nat) (e e' : Option Bytes)
    (n n' : INode) (he : decEntry e = .ok (.inode n)) (he' : decEntry e' = .ok (.inode n'))
    (hbits : n.bits = n'.bits) (hlabel : n.label = n'.label)
    (rest : List (Option Bytes)) (wl : List KV) :
    verifyAuxW w v b (e :: rest) wl = verifyAuxW w v b (e' :: rest) wl := by
  cases b with
  | zero => simp [verifyAuxW]
  | succ b =>
    unfold verifyAuxW
    simp only [he, he', hv, if_false, hbits, hlabel]

/-- In version 0 the embedded leaf is appended first, before anything below the node. -/
theorem v0_embedded_leaf_first (b : Nat) (e : Option Bytes) (n : INode) (k val : Bytes)
    (he : decEntry e = .ok (.inode n)) (hlf : n.lf = some (k, val))
    (rest : List (Option Bytes)) (wl : List KV) (t : PT) (rest' : List (Option Bytes)) (wl' : List KV)
    (h : verifyAuxW true 0 (b + 1) (e :: rest) wl = .ok (t, rest', wl')) :
    ∃ l r, t = .node n.bits n.label (.leaf k val) l r ∧
      wl' = wl ++ ((k, val) :: (l.writeLog ++ r.writeLog)) := by
  rw [accumulate_eq_preorder] at h
  obtain ⟨h1, rfl⟩ := h
  unfold verifyAux at h1
  simp only [he, if_true, hlf, ofLeafOpt] at h1
  cases h2 : verifyAux 0 b rest with
  | error err => rw [h2] at h1; simp at h1
  | ok p2 =>
    obtain ⟨l, rest2⟩ := p2
    rw [h2] at h1
    simp only at h1
    cases h3 : verifyAux 0 b rest2 with
    | error err => rw [h3] at h1; simp at h1
    | ok p3 =>
      obtain ⟨r, rest3⟩ := p3
      rw [h3] at h1
      simp only [Except.ok.injEq, Prod.mk.injEq] at h1
      obtain ⟨rfl, _⟩ := h1
      exact ⟨l, r, rfl, by simp [PT.writeLog]⟩

/-! ### (2) the write log is a sublist of the true contents, in ascending key order -/

/-- **The write log cannot lie, cannot repeat and cannot reorder.** Whatever entry list, version
and claimed root `VerifyProofToWriteLog` accepts for the trusted root of the canonical tree `T`, the
returned write log is a sublist of `T`'s contents `T.toList` (which are in strictly ascending key
order): its keys are strictly ascending, and every pair is a key/value pair of `T`. -/
theorem writelog_sublist_of_contents {H : Bytes → Bytes} (hinj : Function.Injective H)
    (hlen : ∀ x, (H x).length = 32) {root : Bytes} {p : MProof} {wl : List KV}
    (h : verifyProofToWriteLog H root p = .ok wl)
    (T : Trie) (hwf : WF T) (hb : ContentsBounded T.toList) (hr : hashWith H T = root) :
    wl.Sublist T.toList ∧ SMap.Sorted wl ∧ ∀ kv ∈ wl, T.get kv.1 = some kv.2 := by
  obtain ⟨s, hs, rfl⟩ := writelog_eq_leaves h
  have hsub := sub_writeLog_sublist s T (verify_sound hinj hlen hs T hwf hb hr)
  exact ⟨hsub, List.Pairwise.sublist hsub (wf_sorted hwf), writelog_sound hinj hlen hs T hwf hb hr⟩

/-- The same with collisions excluded only among the strings hashed in the tree and in the
accepted proof (a satisfiable hypothesis; the contrapositive exhibits a concrete collision). -/
theorem writelog_sublist_of_contents_nc {H : Bytes → Bytes}
    (hlen : ∀ x, (H x).length = 32) {root : Bytes} {p : MProof} {s : PT}
    (hs : verifyProof H root p = .ok s)
    (T : Trie) (hwf : WF T) (hb : ContentsBounded T.toList) (hr : hashWith H T = root)
    (hnc : NoColl H (ptInputs H s ++ trieInputs H T)) :
    verifyProofToWriteLog H root p = .ok s.writeLog ∧
    s.writeLog.Sublist T.toList ∧ SMap.Sorted s.writeLog ∧ ∀ kv ∈ s.writeLog, T.get kv.1 = some kv.2 := by
  have hsubT := verify_sound_nc hlen hs T hwf hb hr hnc
  have hsub := sub_writeLog_sublist s T hsubT
  refine ⟨by rw [verifyProofToWriteLog_eq, hs], hsub, List.Pairwise.sublist hsub (wf_sorted hwf), ?_⟩
  intro kv hkv
  rw [get_eq_smap hwf, smap_get_eq_some (wf_sorted hwf)]
  exact hsub.subset hkv

/-- No key occurs twice in the write log of an accepted proof. -/
theorem writelog_keys_nodup {H : Bytes → Bytes} (hinj : Function.Injective H)
    (hlen : ∀ x, (H x).length = 32) {root : Bytes} {p : MProof} {wl : List KV}
    (h : verifyProofToWriteLog H root p = .ok wl)
    (T : Trie) (hwf : WF T) (hb : ContentsBounded T.toList) (hr : hashWith H T = root) :
    (wl.map (·.1)).Nodup := by
  have hs := (writelog_sublist_of_contents hinj hlen h T hwf hb hr).2.1
  unfold SMap.Sorted at hs
  rw [List.Nodup, List.pairwise_map]
  exact hs.imp (fun hlt heq => by rw [heq] at hlt; exact absurd hlt (List.lt_irrefl _))

/-- The write log and the returned root pointer agree: when `verifyProofOpts` returns a nil root
pointer (rebuilt hash = empty hash) the write log is empty; in general the log is the leaf list
of the returned pointer tree. -/
theorem writelog_of_returned_root {H : Bytes → Bytes} (hinj : Function.Injective H)
    {root : Bytes} {p : MProof} {rp : PT} {wl : List KV}
    (h : verifyProofW H true root p = .ok (rp, wl)) : wl = rp.writeLog := by
  rw [verifyProofW_eq] at h
  cases hv : verifyProof H root p with
  | error e => rw [hv] at h; simp at h
  | ok s =>
    rw [hv] at h
    simp only [logOf, if_true, Except.ok.injEq, Prod.mk.injEq] at h
    obtain ⟨rfl, rfl⟩ := h
    unfold normRoot
    split
    · next he => rw [writeLog_nil_of_hash_empty (noColl_of_injective hinj _) he]; rfl
    · rfl

/-! ### (3) the root comparison is never skipped -/

/-- **Every accepted proof rebuilt the trusted root** — also when the rebuilt root is empty
(proof.go:329-333 only nils the pointer; the comparison at 335-340 follows unconditionally). -/
theorem root_check_never_skipped {H : Bytes → Bytes} {root : Bytes} {p : MProof} {s : PT}
    (h : verifyProof H root p = .ok s) : s.hashOf H = root :=
  (verifyProof_ok h).2.1

/-- **An empty rebuilt root is accepted only for the empty trusted root.** -/
theorem empty_rebuilt_root_only_for_empty_root {H : Bytes → Bytes} {root : Bytes} {p : MProof} {s : PT}
    (h : verifyProof H root p = .ok s) (hempty : s.hashOf H = H []) : root = H [] := by
  rw [← root_check_never_skipped h, hempty]

/-- The same on `verifyProofOpts` as the code returns it: a nil root pointer (with or without the
write log) comes back only for the empty trusted root. -/
theorem nil_root_only_for_empty_root {H : Bytes → Bytes} {w : Bool} {root : Bytes} {p : MProof}
    {wl : List KV} (h : verifyProofW H w root p = .ok (.nil, wl)) : root = H [] := by
  rw [verifyProofW_eq] at h
  cases hv : verifyProof H root p with
  | error e => rw [hv] at h; simp at h
  | ok s =>
    rw [hv] at h
    simp only [Except.ok.injEq, Prod.mk.injEq] at h
    have hn := h.1
    unfold normRoot at hn
    split at hn
    · next he => exact empty_rebuilt_root_only_for_empty_root hv he
    · subst hn; exact (root_check_never_skipped hv).symm

/-- Rejection form: ANY proof (either version) that claims the trusted root `root`, is consumed
entirely and rebuilds an empty root is rejected with "bad root" unless `root` is the empty hash. -/
theorem empty_rebuilt_root_rejected {H : Bytes → Bytes} {root : Bytes} (hroot : root ≠ H [])
    (p : MProof) (hv : p.v ≤ 1) (hu : p.untrusted = root) (t : PT)
    (hva : verifyAux p.v (maxProofDepth + 1) p.entries = .ok (t, []))
    (hempty : t.hashOf H = H []) :
    verifyProof H root p = .error .badRoot ∧ verifyProofToWriteLog H root p = .error .badRoot := by
  have hne : p.entries.isEmpty = false := by
    cases he : p.entries with
    | nil => rw [he] at hva; simp [verifyAux] at hva
    | cons _ _ => rfl
  have h1 : verifyProof H root p = .error .badRoot := by
    unfold verifyProof
    rw [if_neg (by omega), if_neg (by simp [hu]), hne]
    simp only [Bool.false_eq_true, if_false, hva, List.isEmpty_nil, Bool.not_true]
    rw [if_pos (by rw [hempty]; exact fun h => hroot h.symm)]
  exact ⟨h1, by rw [verifyProofToWriteLog_eq, h1]⟩

/-- The shortest instance: the one-entry proof `[nil]` ("the tree is empty") for a non-empty
trusted root is rejected with "bad root", in both versions, for every hash function. -/
theorem nil_proof_rejected {H : Bytes → Bytes} {root : Bytes} (hroot : root ≠ H []) (v : Nat) (hv : v ≤ 1) :
    verifyProof H root { v := v, untrusted := root, entries := [none] } = .error .badRoot ∧
    verifyProofToWriteLog H root { v := v, untrusted := root, entries := [none] } = .error .badRoot :=
  empty_rebuilt_root_rejected hroot _ hv rfl .nil (by simp [verifyAux, decEntry])
    (by simp [PT.hashOf])

/-! ### Non-vacuity and necessity -/

/-- Keys `61`, `6162` (the first a proper prefix of the second: `61` sits in the leaf slot of an
internal node) and `63`. -/
def pfxTree : Trie := ((Trie.nil.insert [0x61] [1]).insert [0x61, 0x62] [2]).insert [0x63] [3]

example : WF pfxTree := wf_insert (wf_insert (wf_insert (by trivial) _ _) _ _) _ _

example : pfxTree.toList = [([0x61], [1]), ([0x61, 0x62], [2]), ([0x63], [3])] := by decide +kernel

/-- Honest `SyncGet` proofs for key `6162` with siblings, version 0 and version 1. -/
def pfxProof (v : Nat) : MProof := proofGet (padHash []) v true [0x61, 0x62] (annotate padHash pfxTree)

/- Note on the hypotheses: `Function.Injective H` together with a fixed output length is the
idealisation used throughout `Props/C04.lean` (not satisfiable by a real hash function); the `_nc`
forms carry the satisfiable hypothesis, witnessed below for `padHash`. -/

/-- Version 0: the leaf `61` is embedded in the second entry; the accumulated log is the whole tree
in key order. The hypotheses of `writelog_sublist_of_contents_nc` hold for it. -/
example : (pfxProof 0).entries =
      [some [1, 1, 6, 0, 96, 2], some [1, 1, 2, 0, 64, 0, 1, 0, 97, 1, 0, 0, 0, 1],
       some [1, 0, 2, 0, 97, 98, 1, 0, 0, 0, 2], none, some [1, 0, 1, 0, 99, 1, 0, 0, 0, 3]] ∧
    (verifyProofToWriteLog padHash (hashWith padHash pfxTree) (pfxProof 0)).toOption =
      some [([0x61], [1]), ([0x61, 0x62], [2]), ([0x63], [3])] := by
  refine ⟨by decide +kernel, by decide +kernel⟩

example : ∃ s, verifyProof padHash (hashWith padHash pfxTree) (pfxProof 0) = .ok s ∧
    NoColl padHash (ptInputs padHash s ++ trieInputs padHash pfxTree) := by
  cases h : verifyProof padHash (hashWith padHash pfxTree) (pfxProof 0) with
  | error e =>
    have : (verifyProof padHash (hashWith padHash pfxTree) (pfxProof 0)).toOption.isSome = true := by
      decide +kernel
    rw [h] at this
    exact absurd this (by simp [Except.toOption])
  | ok s =>
    refine ⟨s, rfl, ?_⟩
    have hs : (verifyProof padHash (hashWith padHash pfxTree) (pfxProof 0)).toOption = some s := by
      rw [h]; rfl
    have hs' : (verifyProof padHash (hashWith padHash pfxTree) (pfxProof 0)).toOption =
        some (.node 6 [96] .nil (.node 2 [64] (.leaf [97] [1]) (.leaf [97, 98] [2]) .nil) (.leaf [99] [3])) := by
      decide +kernel
    rw [hs'] at hs
    simp only [Option.some.injEq] at hs
    subst hs
    unfold NoColl
    decide +kernel

/-- Version 1: the leaf is a child entry. Same log. -/
example : (verifyProofToWriteLog padHash (hashWith padHash pfxTree) (pfxProof 1)).toOption =
      some [([0x61], [1]), ([0x61, 0x62], [2]), ([0x63], [3])] := by decide +kernel

/-- A version-1 proof whose internal-node entry carries a V0-style embedded leaf — here even a FALSE
one (value `09` for key `61`) — while the leaf slot is a hash-only child: accepted (the embedded
bytes are not hashed), and the embedded leaf is NOT in the write log. -/
def pfxMixed : MProof :=
  { v := 1, untrusted := hashWith padHash pfxTree,
    entries := [some [1, 1, 6, 0, 96, 2], none,
      some [1, 1, 2, 0, 64, 0, 1, 0, 97, 1, 0, 0, 0, 9],
      some (2 :: padHash (leafEnc [0x61] [1])),
      some [1, 0, 2, 0, 97, 98, 1, 0, 0, 0, 2], none, some [1, 0, 1, 0, 99, 1, 0, 0, 0, 3]] }

example : (verifyProofToWriteLog padHash (hashWith padHash pfxTree) pfxMixed).toOption =
      some [([0x61, 0x62], [2]), ([0x63], [3])] := by decide +kernel

/-- The hypotheses of `v1_embedded_leaf_ignored` on the two encodings of that node. -/
example : (decEntry (some [1, 1, 2, 0, 64, 0, 1, 0, 97, 1, 0, 0, 0, 9])).toOption =
      some (.inode ⟨2, [64], some ([97], [9])⟩) ∧
    (decEntry (some [1, 1, 2, 0, 64, 2])).toOption = some (.inode ⟨2, [64], none⟩) := by
  refine ⟨by decide +kernel, by decide +kernel⟩

/-- A proper sublist: the lookup proof for `63` without siblings yields only that pair. -/
example : (verifyProofToWriteLog padHash (hashWith padHash pfxTree)
      (proofGet (padHash []) 1 false [0x63] (annotate padHash pfxTree))).toOption =
    some [([0x63], [3])] := by decide +kernel

/-- (3) on a concrete proof: "the tree is empty" against the (non-empty) root of `pfxTree` is
rejected with "bad root" — the hypothesis of `nil_proof_rejected` is satisfiable. -/
example : verifyProofToWriteLog padHash (hashWith padHash pfxTree)
    { v := 1, untrusted := hashWith padHash pfxTree, entries := [none] } = .error .badRoot :=
  (nil_proof_rejected (by decide +kernel) 1 (by decide)).2

/-- … and against the empty root it is accepted with a nil root pointer and an empty write log
(the hypothesis of `nil_root_only_for_empty_root` is satisfiable). -/
example : (verifyProofW padHash true (padHash []) { v := 1, untrusted := padHash [], entries := [none] }).toOption =
    some (.nil, []) := by decide +kernel

/-- **Collision resistance is necessary for (2).** For a hash function with collisions (constant
32 zero bytes) a one-leaf proof is accepted against the root of the EMPTY tree and its write log
`[(61, 01)]` is not a sublist of the (empty) contents. -/
def zeroHash (_ : Bytes) : Bytes := List.replicate 32 0

theorem collision_breaks_writelog :
    (∀ x, (zeroHash x).length = 32) ∧ WF Trie.nil ∧ ContentsBounded Trie.nil.toList ∧
    (verifyProofToWriteLog zeroHash (hashWith zeroHash Trie.nil)
        { v := 1, untrusted := hashWith zeroHash Trie.nil,
          entries := [some [1, 0, 1, 0, 0x61, 1, 0, 0, 0, 1]] }).toOption = some [([0x61], [1])] ∧
    ¬ [(([0x61], [1]) : KV)].Sublist Trie.nil.toList := by
  refine ⟨fun _ => by simp [zeroHash], by trivial, by intro kv h; simp [Trie.toList] at h,
    by decide +kernel, by simp [Trie.toList]⟩

end OasisProofs.C04WriteLog
